(* correspondence driver: one case per line; fields separated by ' ', each field a '.'-separated list of
   decimal code points ("-" = empty string); prints the result string in the same encoding *)
open Model
let rec pos_of_int i = if i = 1 then XH else if i land 1 = 0 then XO (pos_of_int (i lsr 1)) else XI (pos_of_int (i lsr 1))
let n_of_int i = if i = 0 then N0 else Npos (pos_of_int i)
let rec int_of_pos = function XH -> 1 | XO p -> 2 * int_of_pos p | XI p -> 2 * int_of_pos p + 1
let int_of_n = function N0 -> 0 | Npos p -> int_of_pos p
let field s = if s = "-" then [] else List.map (fun x -> n_of_int (int_of_string x)) (String.split_on_char '.' s)
let show l = if l = [] then "-" else String.concat "." (List.map (fun n -> string_of_int (int_of_n n)) l)
let () =
  try while true do
    let line = input_line stdin in
    let fields = List.map field (String.split_on_char ' ' line) in
    let out = try show (run_case fields) with Stack_overflow -> "STACKOVERFLOW" in
    print_endline out
  done with End_of_file -> ()
