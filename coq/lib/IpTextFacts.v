(* Facts about the ipaddress text model: the canonical IPv4 text of an address parses back to it (so what the forward
   pass writes is what the undo pass reads), and it contains only digits and dots. *)
From Coq Require Import String.
From Coq Require Import List Bool Arith NArith ZArith Lia ZifyBool ZifyNat ZifyN.
Import ListNotations.
Require Import Str IpText.
Ltac Zify.zify_post_hook ::= Z.to_euclidean_division_equations.
Local Open Scope N_scope.

(* finite sweep over the 256 octets: printed form is 1-3 digits, no '.', no '/', and parses back *)
Definition octet_ok (v : N) : bool :=
  let t := show_dec v in
  forallb is_digit t && negb (existsb (N.eqb 46) t) && negb (existsb (N.eqb 47) t) &&
  match parse_octet t with Some w => N.eqb w v | None => false end.
Lemma octets_ok : forallb octet_ok (map N.of_nat (seq 0 256)) = true.
Proof. vm_compute. reflexivity. Qed.
Lemma octet_facts v : v < 256 ->
  parse_octet (show_dec v) = Some v /\ (forall c, In c (show_dec v) -> c <> 46 /\ c <> 47 /\ is_digit c = true).
Proof.
  intros Hv. pose proof octets_ok as A. rewrite forallb_forall in A.
  assert (Hin : In v (map N.of_nat (seq 0 256))) by (apply in_map_iff; exists (N.to_nat v); split; [lia|apply in_seq; lia]).
  specialize (A v Hin). unfold octet_ok in A. repeat rewrite andb_true_iff in A. destruct A as [[[D N1] N2] P].
  split.
  - destruct (parse_octet (show_dec v)) as [w|]; [|discriminate]. apply N.eqb_eq in P. now subst.
  - intros c Hc. rewrite forallb_forall in D. specialize (D c Hc). repeat split; auto.
    + intros ->. apply negb_true_iff in N1. assert (existsb (N.eqb 46) (show_dec v) = true) by (apply existsb_exists; exists 46; split; auto). congruence.
    + intros ->. apply negb_true_iff in N2. assert (existsb (N.eqb 47) (show_dec v) = true) by (apply existsb_exists; exists 47; split; auto). congruence.
Qed.

Lemma split_on_aux_nosep sep (p : str) : (forall c, In c p -> c <> sep) ->
  forall cur, split_on_aux sep p cur = [rev cur ++ p].
Proof.
  induction p as [|c p IH]; intros Hp cur; cbn [split_on_aux]; [now rewrite app_nil_r|].
  destruct (N.eqb_spec c sep) as [->|Hne]; [exfalso; apply (Hp sep); auto; now left|].
  rewrite IH by (intros x Hx; apply Hp; now right). cbn [rev]. now rewrite <- app_assoc.
Qed.
Lemma split_on_aux_sep sep (p r : str) : (forall c, In c p -> c <> sep) ->
  forall cur, split_on_aux sep (p ++ sep :: r) cur = (rev cur ++ p) :: split_on_aux sep r [].
Proof.
  induction p as [|c p IH]; intros Hp cur; cbn [app split_on_aux].
  - rewrite N.eqb_refl. now rewrite app_nil_r.
  - destruct (N.eqb_spec c sep) as [->|Hne]; [exfalso; apply (Hp sep); auto; now left|].
    rewrite IH by (intros x Hx; apply Hp; now right). cbn [rev]. now rewrite <- app_assoc.
Qed.

Theorem parse4_print4 : forall x, x < 2 ^ 32 -> parse4 (print4 x) = Some x.
Proof.
  intros x Hx. unfold print4.
  set (a := x / 16777216 mod 256). set (b := x / 65536 mod 256). set (c := x / 256 mod 256). set (d := x mod 256).
  assert (Ha : a < 256) by (unfold a; lia). assert (Hb : b < 256) by (unfold b; lia).
  assert (Hc : c < 256) by (unfold c; lia). assert (Hd : d < 256) by (unfold d; lia).
  destruct (octet_facts a Ha) as [Pa Ca]. destruct (octet_facts b Hb) as [Pb Cb].
  destruct (octet_facts c Hc) as [Pc Cc]. destruct (octet_facts d Hd) as [Pd Cd].
  unfold parse4.
  (* no '/' anywhere *)
  assert (Hslash : existsb (N.eqb 47) (show_dec a ++ [46] ++ show_dec b ++ [46] ++ show_dec c ++ [46] ++ show_dec d) = false).
  { apply not_true_is_false. intros E. apply existsb_exists in E as [y [Hy Ey]]. apply N.eqb_eq in Ey. subst y.
    repeat (apply in_app_or in Hy as [Hy|Hy]); try (destruct Hy as [Hy|[]]; discriminate);
      [apply Ca in Hy|apply Cb in Hy|apply Cc in Hy|apply Cd in Hy]; destruct Hy as (_ & N & _); congruence. }
  rewrite Hslash.
  destruct (show_dec a ++ [46] ++ show_dec b ++ [46] ++ show_dec c ++ [46] ++ show_dec d) eqn:El.
  { exfalso. destruct (show_dec a); discriminate. }
  rewrite <- El. clear El.
  unfold split_on. cbn [app].
  rewrite (split_on_aux_sep 46 (show_dec a)) by (intros y Hy; apply Ca in Hy; tauto).
  rewrite (split_on_aux_sep 46 (show_dec b)) by (intros y Hy; apply Cb in Hy; tauto).
  rewrite (split_on_aux_sep 46 (show_dec c)) by (intros y Hy; apply Cc in Hy; tauto).
  rewrite (split_on_aux_nosep 46 (show_dec d)) by (intros y Hy; apply Cd in Hy; tauto).
  cbn [rev app map]. rewrite Pa, Pb, Pc, Pd. f_equal. unfold a, b, c, d. lia.
Qed.

Theorem print4_alphabet : forall x ch, In ch (print4 x) -> ch = 46 \/ is_digit ch = true.
Proof.
  intros x ch. unfold print4. intros Hin.
  repeat (apply in_app_or in Hin as [Hin|Hin]); try (destruct Hin as [<-|[]]; now left).
  all: right.
  all: match type of Hin with In _ (show_dec ?v) => destruct (octet_facts v ltac:(lia)) as [_ Cv]; apply Cv in Hin; tauto end.
Qed.
Print Assumptions parse4_print4.
