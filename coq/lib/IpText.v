(* Text <-> integer for IP addresses: a Gallina reading of Python 3.12's ipaddress.IPv4Address / IPv6Address
   constructors from str and of str() on addresses built from int.  Library model, validated by correspondence. *)
From Coq Require Import String.
From Coq Require Import List Bool Arith NArith Lia.
Import ListNotations.
Require Import Str.
Local Open Scope N_scope.

(* ---------------- IPv4 ---------------- *)
Definition parse_octet (s : str) : option N :=
  match s with
  | [] => None
  | c0 :: _ =>
      if negb (forallb is_digit s) then None
      else if Nat.ltb 3 (length s) then None
      else if negb (str_eqb s [48]) && N.eqb c0 48 then None          (* leading zeros are not permitted *)
      else match parse_dec s with Some v => if 255 <? v then None else Some v | None => None end
  end.
Definition parse4 (s : str) : option N :=
  if existsb (N.eqb 47) s then None else
  match s with [] => None | _ =>
  match map parse_octet (split_on 46 s) with
  | [Some a; Some b; Some c; Some d] => Some (((a * 256 + b) * 256 + c) * 256 + d)
  | _ => None
  end end.
Definition print4 (x : N) : str :=
  show_dec (x / 16777216 mod 256) ++ [46] ++ show_dec (x / 65536 mod 256) ++ [46] ++ show_dec (x / 256 mod 256) ++ [46] ++ show_dec (x mod 256).

(* ---------------- IPv6 ---------------- *)
Definition hex_val (c : N) : option N :=
  if (48 <=? c) && (c <=? 57) then Some (c - 48)
  else if (97 <=? c) && (c <=? 102) then Some (c - 87)
  else if (65 <=? c) && (c <=? 70) then Some (c - 55)
  else None.
Fixpoint parse_hex_aux (s : str) (acc : N) : option N :=
  match s with
  | [] => Some acc
  | c :: r => match hex_val c with Some v => parse_hex_aux r (16 * acc + v) | None => None end
  end.
Definition parse_hextet (s : str) : option N :=
  match s with [] => None | _ => if Nat.ltb 4 (length s) then None else parse_hex_aux s 0 end.

Fixpoint show_hex_aux (fuel : nat) (x : N) (acc : str) : str :=
  match fuel with
  | O => acc
  | S f => let acc' := hex_digit (x mod 16) :: acc in if x <? 16 then acc' else show_hex_aux f (x / 16) acc'
  end.
Definition show_hex (x : N) : str := show_hex_aux (S (N.to_nat (N.log2 x))) x [].

Fixpoint hextets_value (hs : list str) (acc : N) : option N :=
  match hs with
  | [] => Some acc
  | h :: r => match parse_hextet h with Some v => hextets_value r (acc * 65536 + v) | None => None end
  end.
Definition is_empty (s : str) : bool := match s with [] => true | _ => false end.

(* positions 1 .. len-2 that are empty; at most one allowed *)
Definition inner_empty_indices (parts : list str) : list nat :=
  filter (fun i => is_empty (nth i parts [1])) (seq 1 (length parts - 2)).

Definition parse6_noscope (s : str) : option N :=
  match s with [] => None | _ =>
  let parts0 := split_on 58 s in
  if Nat.ltb (length parts0) 3 then None else
  (* IPv4-style suffix *)
  let lastp := last parts0 [] in
  let parts_opt :=
    if existsb (N.eqb 46) lastp then
      match parse4 lastp with
      | Some v => Some (removelast parts0 ++ [show_hex (v / 65536 mod 65536); show_hex (v mod 65536)])
      | None => None
      end
    else Some parts0 in
  match parts_opt with
  | None => None
  | Some parts =>
      if Nat.ltb 9 (length parts) then None else
      match inner_empty_indices parts with
      | _ :: _ :: _ => None                                   (* more than one '::' *)
      | [skip] =>
          let hi0 := skip in
          let lo0 := (length parts - skip - 1)%nat in
          let first_empty := is_empty (hd [1] parts) in
          let last_empty := is_empty (last parts [1]) in
          let hi := if first_empty then (hi0 - 1)%nat else hi0 in
          let lo := if last_empty then (lo0 - 1)%nat else lo0 in
          if first_empty && negb (Nat.eqb hi 0) then None
          else if last_empty && negb (Nat.eqb lo 0) then None
          else if Nat.ltb 7 (hi + lo) then None               (* parts_skipped < 1 *)
          else
            let skipped := (8 - (hi + lo))%nat in
            match hextets_value (firstn hi parts) 0 with
            | None => None
            | Some vhi =>
                match hextets_value (skipn (length parts - lo) parts) (vhi * 65536 ^ N.of_nat skipped) with
                | Some v => Some v
                | None => None
                end
            end
      | [] =>
          if negb (Nat.eqb (length parts) 8) then None
          else hextets_value parts 0                           (* empty first/last hextets are rejected by parse_hextet *)
      end
  end end.

(* IPv6Address(str): '/' refused, optional %scope (non-empty, no second '%'), the scope is ignored by int() *)
Definition parse6 (s : str) : option N :=
  if existsb (N.eqb 47) s then None else
  match split_on 37 s with
  | [a] => parse6_noscope a
  | [a; scope] => if is_empty scope then None else parse6_noscope a
  | _ => None
  end.

(* str(IPv6Address(int)): RFC 5952 compression as _compress_hextets does it (first longest run of >= 2 zero hextets) *)
Definition hextets_of (x : N) : list N := map (fun i => x / 65536 ^ N.of_nat (7 - i) mod 65536) (seq 0 8).
(* (best_start, best_len) scanning left to right; strictly-longer replaces *)
Fixpoint best_run (hs : list N) (idx cur_start cur_len best_start best_len : nat) : nat * nat :=
  match hs with
  | [] => (best_start, best_len)
  | h :: r =>
      if N.eqb h 0 then
        let cur_start' := if Nat.eqb cur_len 0 then idx else cur_start in
        let cur_len' := S cur_len in
        if Nat.ltb best_len cur_len' then best_run r (S idx) cur_start' cur_len' cur_start' cur_len'
        else best_run r (S idx) cur_start' cur_len' best_start best_len
      else best_run r (S idx) 0 0 best_start best_len
  end.
Definition print6 (x : N) : str :=
  let hs := hextets_of x in
  let strs := map show_hex hs in
  let '(bs, bl) := best_run hs 0 0 0 0 0 in
  if Nat.ltb 1 bl then
    let before := firstn bs strs in
    let after := skipn (bs + bl) strs in
    let mid := if Nat.eqb (bs + bl) 8 then [[]; []] else [[]] in          (* zeros at the end: extra '' *)
    let l := before ++ mid ++ after in
    let l' := if Nat.eqb bs 0 then [] :: l else l in
    join [58] l'
  else join [58] strs.

(* ip_network(str) for IPv4 in the forms "a.b.c.d" and "a.b.c.d/len" (strict: host bits must be clear) *)
Definition parse_network4 (s : str) : option (N * nat) :=
  match split_on 47 s with
  | [a] => match parse4 a with Some v => Some (v, 32%nat) | None => None end
  | [a; l] =>
      match parse4 a, (if forallb is_digit l && negb (is_empty l) then parse_dec l else None) with
      | Some v, Some len =>
          if 32 <? len then None
          else if negb (N.eqb (v mod 2 ^ (32 - len)) 0) then None       (* has host bits set *)
          else Some (v, N.to_nat len)
      | _, _ => None
      end
  | _ => None
  end.
