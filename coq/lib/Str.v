(* Strings as lists of Unicode code points (N); the Python str primitives the models need. *)
From Coq Require Import List Bool Arith NArith Lia.
Import ListNotations.
Local Open Scope N_scope.

Definition str := list N.

Fixpoint str_eqb (a b : str) : bool :=
  match a, b with
  | [], [] => true
  | x :: a', y :: b' => N.eqb x y && str_eqb a' b'
  | _, _ => false
  end.
Lemma str_eqb_eq a b : str_eqb a b = true <-> a = b.
Proof.
  revert b; induction a as [|x a IH]; intros [|y b]; simpl; split; intros H; try congruence; auto.
  - apply andb_true_iff in H as [H1 H2]. apply N.eqb_eq in H1. apply IH in H2. congruence.
  - inversion H; subst. rewrite N.eqb_refl. simpl. apply IH; auto.
Qed.
Lemma str_eqb_refl a : str_eqb a a = true. Proof. apply str_eqb_eq; auto. Qed.

Definition mem_str (x : str) (l : list str) : bool := existsb (str_eqb x) l.

(* split on a single separator character, Python's s.split(sep): always at least one field *)
Fixpoint split_on_aux (sep : N) (s : str) (cur : str) : list str :=
  match s with
  | [] => [rev cur]
  | c :: r => if N.eqb c sep then rev cur :: split_on_aux sep r [] else split_on_aux sep r (c :: cur)
  end.
Definition split_on (sep : N) (s : str) : list str := split_on_aux sep s [].

Fixpoint join (sep : str) (l : list str) : str :=
  match l with
  | [] => []
  | [x] => x
  | x :: r => x ++ sep ++ join sep r
  end.

Definition is_digit (c : N) : bool := (48 <=? c) && (c <=? 57).
Definition all_digits (s : str) : bool := negb (match s with [] => true | _ => false end) && forallb is_digit s.

(* decimal numerals, ASCII digits only *)
Definition parse_dec (s : str) : option N :=
  if all_digits s then Some (fold_left (fun acc c => 10 * acc + (c - 48)) s 0) else None.

Fixpoint show_dec_aux (fuel : nat) (x : N) (acc : str) : str :=
  match fuel with
  | O => acc
  | S f => let acc' := (48 + x mod 10) :: acc in
           if x <? 10 then acc' else show_dec_aux f (x / 10) acc'
  end.
Definition show_dec (x : N) : str := show_dec_aux (S (N.to_nat (N.log2 x))) x [].

(* bit strings: '0' = 48, '1' = 49 *)
Definition bits_of_str (s : str) : list bool := map (fun c => N.eqb c 49) s.
Definition str_of_bits (b : list bool) : str := map (fun x : bool => if x then 49 else 48) b.

(* n-bit big-endian binary expansion of x (the n low bits), and back *)
Fixpoint bits_of_N (n : nat) (x : N) : list bool :=
  match n with
  | O => []
  | S n' => N.testbit x (N.of_nat n') :: bits_of_N n' x
  end.
Definition N_of_bits (b : list bool) : N := fold_left (fun acc (x : bool) => 2 * acc + (if x then 1 else 0)) b 0.

Definition hex_digit (d : N) : N := if d <? 10 then 48 + d else 87 + d.   (* lower case *)
Definition hex_of_bytes (bs : list N) : str := flat_map (fun b => [hex_digit (b / 16); hex_digit (b mod 16)]) bs.

(* UTF-8 encoding; None for surrogates / out of range (Python raises UnicodeEncodeError) *)
Definition utf8_char (c : N) : option (list N) :=
  if c <? 128 then Some [c]
  else if c <? 2048 then Some [192 + c / 64; 128 + c mod 64]
  else if (55296 <=? c) && (c <=? 57343) then None
  else if c <? 65536 then Some [224 + c / 4096; 128 + (c / 64) mod 64; 128 + c mod 64]
  else if c <? 1114112 then Some [240 + c / 262144; 128 + (c / 4096) mod 64; 128 + (c / 64) mod 64; 128 + c mod 64]
  else None.
Fixpoint utf8 (s : str) : option (list N) :=
  match s with
  | [] => Some []
  | c :: r => match utf8_char c, utf8 r with Some a, Some b => Some (a ++ b) | _, _ => None end
  end.

Fixpoint starts_with (p s : str) : bool :=
  match p, s with
  | [], _ => true
  | a :: p', b :: s' => N.eqb a b && starts_with p' s'
  | _, _ => false
  end.
Definition ends_with (p s : str) : bool := starts_with (rev p) (rev s).

(* Python str.isspace() for a single code point (Unicode White_Space plus \x1c-\x1f) *)
Definition is_space (c : N) : bool :=
  ((9 <=? c) && (c <=? 13)) || ((28 <=? c) && (c <=? 32)) || (c =? 133) || (c =? 160) || (c =? 5760)
  || ((8192 <=? c) && (c <=? 8202)) || (c =? 8232) || (c =? 8233) || (c =? 8239) || (c =? 8287) || (c =? 12288).

Fixpoint lstrip (s : str) : str :=
  match s with
  | [] => []
  | c :: r => if is_space c then lstrip r else s
  end.
Definition rstrip (s : str) : str := rev (lstrip (rev s)).
Definition strip (s : str) : str := lstrip (rstrip s).

(* s.split(): maximal runs of non-whitespace *)
Fixpoint split_ws_aux (s : str) (cur : str) : list str :=
  match s with
  | [] => match cur with [] => [] | _ => [rev cur] end
  | c :: r => if is_space c then (match cur with [] => split_ws_aux r [] | _ => rev cur :: split_ws_aux r [] end)
              else split_ws_aux r (c :: cur)
  end.
Definition split_ws (s : str) : list str := split_ws_aux s [].

(* ASCII lower-casing (the models restrict case folding to ASCII; guards say so) *)
Definition lower_ascii (c : N) : N := if (65 <=? c) && (c <=? 90) then c + 32 else c.
Definition lower_str (s : str) : str := map lower_ascii s.

(* substring test *)
Fixpoint contains_aux (fuel : nat) (p s : str) : bool :=
  match fuel with
  | O => false
  | S f => starts_with p s || match s with [] => false | _ :: r => contains_aux f p r end
  end.
Definition contains (p s : str) : bool := contains_aux (S (length s)) p s.

(* string literals for model code: ASCII only *)
From Coq Require Import String Ascii.
Definition lit (x : string) : str := map N_of_ascii (list_ascii_of_string x).
Arguments lit x%string_scope.
