(* hashlib.md5(<str>.encode()).hexdigest() for the translated code: UTF-8 encoding (Str.utf8) + lib/Md5.v, lower-case hex *)
From Coq Require Import List ZArith NArith Bool.
Import ListNotations.
Require Import PyLib Str Md5.
Definition py_md5_hexdigest (v : pyval) : PyLib.res :=
  match v with
  | VStr s => match utf8 (map Z.to_N s) with
              | Some bytes => Normal (VStr (map Z.of_N (hex_of_bytes (md5 bytes))))
              | None => Exc (ValueError [])        (* UnicodeEncodeError is a ValueError *)
              end
  | _ => Exc AttributeError
  end.
