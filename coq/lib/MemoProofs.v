From Coq Require Import List Bool Arith Lia.
Import ListNotations.
Require Import PPCore Memo.

Section P.
Variable H : bits -> bool.
Variable n B : nat.
Variable seeds : list bits.
Notation m := (n - B).
Notation f := (Memo.f H seeds).
Notation A := (Memo.A H seeds).
Notation D := (Memo.D H seeds).
Notation A' := (Memo.A' H n B seeds).
Notation pinned := (Memo.pinned seeds).

(* ---------- facts about the pure walk ---------- *)
Lemma anon_from_snoc pre x b : anon_from f pre (x ++ [b]) = anon_from f pre x ++ [xorb b (f (pre ++ x))].
Proof. revert pre; induction x as [|a x IH]; intros pre; simpl. - now rewrite app_nil_r. - rewrite IH. now rewrite <- app_assoc. Qed.
Lemma A_snoc x b : A (x ++ [b]) = A x ++ [xorb b (f x)].
Proof. unfold Memo.A, anon. now rewrite anon_from_snoc. Qed.
Lemma A_len x : length (A x) = length x. Proof. apply anon_length. Qed.
Lemma A_inj a b : A a = A b -> a = b.
Proof. intros E. rewrite <- (deanon_anon_from f [] a), <- (deanon_anon_from f [] b). unfold Memo.A, anon in E. now rewrite E. Qed.
Lemma D_A x : D (A x) = x. Proof. apply deanon_anon_from. Qed.
Lemma A_D y : A (D y) = y. Proof. apply anon_deanon_from. Qed.
Lemma deanon_from_snoc pre y c : deanon_from f pre (y ++ [c]) = deanon_from f pre y ++ [xorb c (f (pre ++ deanon_from f pre y))].
Proof. revert pre; induction y as [|a y IH]; intros pre; simpl. - now rewrite app_nil_r. - rewrite IH. now rewrite <- app_assoc. Qed.
Lemma D_snoc y c : D (y ++ [c]) = D y ++ [xorb c (f (D y))].
Proof. unfold Memo.D, deanon. now rewrite deanon_from_snoc. Qed.

Lemma app_inj_len {X} (a c b d:list X) : length a = length c -> a ++ b = c ++ d -> a = c /\ b = d.
Proof. revert c; induction a as [|x a IH]; intros [|y c] L E; simpl in *; try discriminate; auto.
  injection E as -> E. injection L as L. destruct (IH _ L E) as [-> ->]. auto. Qed.
Lemma deanon_from_len pre y : length (deanon_from f pre y) = length y.
Proof. revert pre; induction y; intros; simpl; auto. Qed.
Lemma D_len y : length (D y) = length y. Proof. apply deanon_from_len. Qed.
Lemma A'_len k : length (A' k) = length k.
Proof. unfold Memo.A'. rewrite app_length, A_len. rewrite <- (firstn_skipn m k) at 3. now rewrite app_length. Qed.
Lemma A'_inj a b : A' a = A' b -> a = b.
Proof.
  intros E. assert (L : length a = length b) by (rewrite <- (A'_len a), <- (A'_len b), E; auto).
  unfold Memo.A' in E.
  assert (L1 : length (A (firstn m a)) = length (A (firstn m b))) by (rewrite !A_len, !firstn_length; lia).
  apply app_inj_len in E; [|exact L1]. destruct E as [E1 E2]. apply A_inj in E1.
  rewrite <- (firstn_skipn m a), <- (firstn_skipn m b). congruence.
Qed.
Lemma A'_short k : length k <= m -> A' k = A k.
Proof. intros L. unfold Memo.A'. rewrite firstn_all2, skipn_all2 by lia. now rewrite app_nil_r. Qed.

(* pinned is closed under taking prefixes; A is the identity along pinned paths *)
Lemma is_prefix_app p x : is_prefix (p ++ x) = fun q => is_prefix (p ++ x) q. Proof. reflexivity. Qed.
Lemma is_prefix_snoc_inv h b P : is_prefix (h ++ [b]) P = true -> is_prefix h P = true /\ length h < length P.
Proof. revert P; induction h as [|a h IH]; intros [|c P]; simpl; intros E; try discriminate; auto.
  - split; auto. lia. - apply andb_true_iff in E as [E1 E2]. apply IH in E2 as [E2 L]. rewrite E1, E2. split; auto. lia. Qed.
Lemma pinned_prefix h b : pinned (h ++ [b]) = true -> pinned h = true.
Proof. unfold Memo.pinned. rewrite !existsb_exists. intros [P [Hin E]]. exists P. split; auto.
  apply andb_true_iff in E as [E1 E2]. apply is_prefix_snoc_inv in E1 as [E1 L]. rewrite E1. apply Nat.ltb_lt. lia. Qed.
Lemma A_pinned_child h b : pinned h = true -> A (h ++ [b]) = h ++ [b].
Proof.
  revert b. induction h as [|c h IH] using rev_ind; intros b Hp.
  - rewrite A_snoc. unfold Memo.f. rewrite Hp. simpl. now rewrite xorb_false_r.
  - rewrite A_snoc. rewrite IH by (eapply pinned_prefix; eauto). unfold Memo.f. rewrite Hp. now rewrite xorb_false_r.
Qed.
Lemma A_pinned h : pinned h = true -> A h = h.
Proof. destruct h as [|c h] using rev_ind; auto. intros Hp. apply A_pinned_child. eapply pinned_prefix; eauto. Qed.

(* ---------- bidict facts ---------- *)
Lemma bget_In d k v : bget d k = Some v -> In (k,v) d.
Proof. induction d as [|[k0 v0] d IH]; simpl; try discriminate. destruct (beq k k0) eqn:E.
  - intros [= <-]. apply beq_eq in E. subst. auto. - auto. Qed.
Lemma binv_In d k v : binv d v = Some k -> In (k,v) d.
Proof. induction d as [|[k0 v0] d IH]; simpl; try discriminate. destruct (beq v v0) eqn:E.
  - intros [= <-]. apply beq_eq in E. subst. auto. - auto. Qed.
Lemma In_bget d k v : In (k,v) d -> exists v', bget d k = Some v'.
Proof. induction d as [|[k0 v0] d IH]; simpl; [tauto|]. intros [E|I].
  - inversion E; subst. rewrite beq_refl. eauto. - destruct (beq k k0); eauto. Qed.
Lemma In_binv d k v : In (k,v) d -> exists k', binv d v = Some k'.
Proof. induction d as [|[k0 v0] d IH]; simpl; [tauto|]. intros [E|I].
  - inversion E; subst. rewrite beq_refl. eauto. - destruct (beq v v0); eauto. Qed.
Lemma bget_app d k k' v' : bget d k = None -> bget (d ++ [(k',v')]) k = if beq k k' then Some v' else None.
Proof. induction d as [|[k0 v0] d IH]; simpl; auto. destruct (beq k k0); [discriminate|auto]. Qed.
Lemma bget_app_some d k v e : bget d k = Some v -> bget (d ++ [e]) k = Some v.
Proof. induction d as [|[k0 v0] d IH]; simpl; try discriminate. destruct (beq k k0); auto. Qed.

(* ---------- the invariant ---------- *)
Definition Inv (d:bidict) : Prop :=
  bget d [] = Some [] /\
  (forall k v, In (k,v) d -> v = A' k) /\
  (forall h b, pinned h = true -> bget d (h ++ [b]) = Some (h ++ [b])).

Lemma bput_ok d k : Inv d -> exists d', bput d k (A' k) = Ok d' /\ Inv d' /\ (forall q r, bget d q = Some r -> bget d' q = Some r).
Proof.
  intros (I0 & I1 & I2). unfold bput.
  destruct (bget d k) as [v'|] eqn:G; destruct (binv d (A' k)) as [k'|] eqn:GI.
  - apply bget_In in G. apply binv_In in GI. rewrite (I1 _ _ G). pose proof (I1 _ _ GI) as E. apply A'_inj in E. subst k'.
    rewrite !beq_refl. simpl. exists d. repeat split; auto.
  - exfalso. apply bget_In in G. rewrite (I1 _ _ G) in G. apply In_binv in G as [k' C]. congruence.
  - exfalso. apply binv_In in GI. pose proof (I1 _ _ GI) as E. apply A'_inj in E. subst k'. apply In_bget in GI as [v' C]. congruence.
  - exists (d ++ [(k, A' k)]). split; auto. split; [|intros; now apply bget_app_some].
    repeat split.
    + now apply bget_app_some.
    + intros q r Hin. apply in_app_or in Hin as [Hin|[Hin|[]]]; auto. now inversion Hin.
    + intros h b Hp. apply bget_app_some. auto.
Qed.

Lemma rev_cons_snoc (b:bits) last rh : rev b = last :: rh -> b = rev rh ++ [last].
Proof. intros E. rewrite <- (rev_involutive b), E. reflexivity. Qed.

Lemma g_anon_ok : forall b d fuel, length b < fuel -> length b <= m -> Inv d ->
  exists d', g_anon H fuel d b = Ok (d', A b) /\ Inv d' /\ (forall q r, bget d q = Some r -> bget d' q = Some r).
Proof.
  induction b as [|l h IH] using rev_ind; intros d fuel Lf L I; (destruct fuel as [|fu]; [lia|]).
  - destruct I as (I0 & I1 & I2). exists d. simpl. rewrite I0. repeat split; auto.
  - rewrite app_length in *. simpl length in *.
    destruct (IH d fu ltac:(lia) ltac:(lia) I) as (d1 & E1 & I1 & M1). cbn [g_anon].
    destruct (bget d (h ++ [l])) as [r|] eqn:G.
    + exists d. destruct I as (I0 & Ia & I2). pose proof (Ia _ _ (bget_In _ _ _ G)) as E. rewrite A'_short in E by (rewrite app_length; simpl; lia).
      subst r. repeat split; auto.
    + rewrite rev_app_distr. simpl. rewrite rev_involutive. rewrite E1.
      assert (Hnp : pinned h = false).
      { destruct (pinned h) eqn:Hp; auto. destruct I as (_ & _ & I2). rewrite (I2 h l Hp) in G. discriminate. }
      assert (Hret : A h ++ [xorb (H h) l] = A' (h ++ [l])).
      { rewrite A'_short by (rewrite app_length; simpl; lia). rewrite A_snoc. unfold Memo.f. rewrite Hnp. now rewrite xorb_comm. }
      rewrite Hret. destruct (bput_ok d1 (h ++ [l]) I1) as (d2 & E2 & I2' & M2). rewrite E2.
      exists d2. rewrite <- Hret. split.
      * f_equal. f_equal. rewrite A_snoc. unfold Memo.f. rewrite Hnp. now rewrite xorb_comm.
      * split; auto.
Qed.

Lemma g_deanon_ok : forall b d fuel, length b < fuel -> length b <= m -> Inv d ->
  exists d', g_deanon H fuel d b = Ok (d', D b) /\ Inv d' /\ (forall q r, bget d q = Some r -> bget d' q = Some r).
Proof.
  induction b as [|l h IH] using rev_ind; intros d fuel Lf L I; (destruct fuel as [|fu]; [lia|]).
  - destruct I as (I0 & I1 & I2). exists d. simpl.
    assert (binv d [] = Some []).
    { apply bget_In in I0. destruct (In_binv _ _ _ I0) as [k' E]. pose proof (I1 _ _ (binv_In _ _ _ E)) as E'.
      assert (length (A' k') = 0) by (rewrite <- E'; auto). rewrite A'_len in H0. destruct k'; simpl in *; try lia. exact E. }
    rewrite H0. repeat split; auto.
  - rewrite app_length in *. simpl length in *.
    destruct (IH d fu ltac:(lia) ltac:(lia) I) as (d1 & E1 & I1 & M1). cbn [g_deanon].
    destruct (binv d (h ++ [l])) as [r|] eqn:G.
    + exists d. destruct I as (I0 & Ia & I2). pose proof (Ia _ _ (binv_In _ _ _ G)) as E.
      assert (Lr : length r = length (h ++ [l])) by (rewrite E, A'_len; auto).
      rewrite A'_short in E by (rewrite Lr, app_length; simpl; lia).
      rewrite E, D_A. repeat split; auto.
    + rewrite rev_app_distr. simpl. rewrite rev_involutive. rewrite E1.
      assert (Hnp : pinned (D h) = false).
      { destruct (pinned (D h)) eqn:Hp; auto. destruct I as (_ & _ & I2).
        pose proof (I2 (D h) l Hp) as Gx. apply bget_In in Gx. apply In_binv in Gx as [k' Gx].
        assert (Eh : h = D h). { rewrite <- (A_D h) at 1. apply A_pinned; auto. }
        rewrite <- Eh in Gx. congruence. }
      assert (Hret : D h ++ [xorb (H (D h)) l] = D (h ++ [l])).
      { rewrite D_snoc. unfold Memo.f. rewrite Hnp. now rewrite xorb_comm. }
      rewrite Hret.
      assert (Hb : h ++ [l] = A' (D (h ++ [l]))).
      { rewrite A'_short. - now rewrite A_D. - rewrite D_len, app_length; simpl; lia. }
      assert (Eput : bput d1 (D (h ++ [l])) (h ++ [l]) = bput d1 (D (h ++ [l])) (A' (D (h ++ [l])))) by (rewrite <- Hb; reflexivity).
      rewrite Eput. destruct (bput_ok d1 (D (h ++ [l])) I1) as (d2 & E2 & I2' & M2). rewrite E2.
      exists d2. repeat split; auto; apply I2'.
Qed.

(* ---------- top-level requests ---------- *)
Definition AB (x:bits) : bits := A (firstn m x) ++ skipn m x.     (* = A' *)
Definition DB (y:bits) : bits := D (firstn m y) ++ skipn m y.

Lemma firstn_le_m (x:bits) : length (firstn m x) <= m. Proof. rewrite firstn_length. lia. Qed.

Lemma anonymize_ok d x : length x = n -> Inv d ->
  exists d', anonymize H n B d x = Ok (d', AB x) /\ Inv d'.
Proof.
  intros Lx I. unfold anonymize. destruct (Nat.eqb B 0) eqn:EB.
  - apply Nat.eqb_eq in EB. destruct (g_anon_ok x d (S (length x)) ltac:(lia) ltac:(lia) I) as (d' & E & I' & _). exists d'. rewrite E. split; auto.
    unfold AB. rewrite firstn_all2, skipn_all2 by lia. now rewrite app_nil_r.
  - pose proof (firstn_le_m x) as Lm.
    destruct (g_anon_ok (firstn m x) d (S (length x)) ltac:(rewrite firstn_length; lia) Lm I) as (d1 & E & I1 & _).
    rewrite E. destruct (bput_ok d1 x I1) as (d2 & E2 & I2 & _). unfold Memo.A' in E2. rewrite E2. exists d2. split; auto.
Qed.

Lemma deanonymize_ok d y : length y = n -> Inv d ->
  exists d', deanonymize H n B d y = Ok (d', DB y) /\ Inv d'.
Proof.
  intros Ly I. unfold deanonymize. destruct (Nat.eqb B 0) eqn:EB.
  - apply Nat.eqb_eq in EB. destruct (g_deanon_ok y d (S (length y)) ltac:(lia) ltac:(lia) I) as (d' & E & I' & _). exists d'. rewrite E. split; auto.
    unfold DB. rewrite firstn_all2, skipn_all2 by lia. now rewrite app_nil_r.
  - pose proof (firstn_le_m y) as Lm.
    destruct (g_deanon_ok (firstn m y) d (S (length y)) ltac:(rewrite firstn_length; lia) Lm I) as (d1 & E & I1 & _).
    rewrite E. exists d1. split; auto.
Qed.

(* ---------- histories ---------- *)
Inductive op := Anon (x:bits) | Deanon (y:bits).
Definition op_len (o:op) := match o with Anon x => length x | Deanon y => length y end.
Definition pure (o:op) : bits := match o with Anon x => AB x | Deanon y => DB y end.
Fixpoint run (d:bidict) (ops:list op) : res (bidict * list bits) :=
  match ops with [] => Ok (d, [])
  | o :: r => match (match o with Anon x => anonymize H n B d x | Deanon y => deanonymize H n B d y end) with
              | Err => Err
              | Ok (d', out) => match run d' r with Err => Err | Ok (d'', outs) => Ok (d'', out :: outs) end end end.

Theorem history_independent : forall ops d, Inv d -> Forall (fun o => op_len o = n) ops ->
  exists d', run d ops = Ok (d', map pure ops) /\ Inv d'.
Proof.
  induction ops as [|o ops IH]; intros d I Hall.
  - exists d. split; auto.
  - inversion Hall as [|? ? Ho Hr]; subst. simpl.
    destruct o as [x|y]; simpl in Ho.
    + destruct (anonymize_ok d x Ho I) as (d1 & E & I1). rewrite E. destruct (IH d1 I1 Hr) as (d2 & E2 & I2). rewrite E2. exists d2. split; auto.
    + destruct (deanonymize_ok d y Ho I) as (d1 & E & I1). rewrite E. destruct (IH d1 I1 Hr) as (d2 & E2 & I2). rewrite E2. exists d2. split; auto.
Qed.

(* the two directions are mutually inverse, for every configuration *)
Theorem DB_AB x : DB (AB x) = x.
Proof.
  unfold DB, AB. set (p := firstn m x). set (s := skipn m x).
  assert (Lp : length (A p) = length p) by apply A_len.
  destruct (Nat.le_gt_cases m (length x)) as [Hle|Hgt].
  - assert (Hp : length p = m) by (unfold p; rewrite firstn_length; lia).
    assert (E1 : firstn m (A p ++ s) = A p).
    { replace m with (length (A p) + 0) by lia. rewrite firstn_app_2. simpl. now rewrite app_nil_r. }
    assert (E2 : skipn m (A p ++ s) = s).
    { replace m with (length (A p)) by lia. rewrite skipn_app, skipn_all, Nat.sub_diag. reflexivity. }
    rewrite E1, E2, D_A. apply firstn_skipn.
  - assert (Hs : s = []) by (unfold s; apply skipn_all2; lia).
    assert (Hp : p = x) by (unfold p; apply firstn_all2; lia).
    rewrite Hs, app_nil_r. rewrite firstn_all2 by (rewrite Lp, Hp; lia). rewrite skipn_all2 by (rewrite Lp, Hp; lia).
    rewrite D_A, app_nil_r. exact Hp.
Qed.

Theorem AB_DB y : AB (DB y) = y.
Proof.
  unfold DB, AB. set (p := firstn m y). set (s := skipn m y).
  assert (Lp : length (D p) = length p) by apply D_len.
  destruct (Nat.le_gt_cases m (length y)) as [Hle|Hgt].
  - assert (Hp : length p = m) by (unfold p; rewrite firstn_length; lia).
    assert (E1 : firstn m (D p ++ s) = D p).
    { replace m with (length (D p) + 0) by lia. rewrite firstn_app_2. simpl. now rewrite app_nil_r. }
    assert (E2 : skipn m (D p ++ s) = s).
    { replace m with (length (D p)) by lia. rewrite skipn_app, skipn_all, Nat.sub_diag. reflexivity. }
    rewrite E1, E2, A_D. apply firstn_skipn.
  - assert (Hs : s = []) by (unfold s; apply skipn_all2; lia).
    assert (Hp : p = y) by (unfold p; apply firstn_all2; lia).
    rewrite Hs, app_nil_r. rewrite firstn_all2 by (rewrite Lp, Hp; lia). rewrite skipn_all2 by (rewrite Lp, Hp; lia).
    rewrite A_D, app_nil_r. exact Hp.
Qed.
Lemma DB_len y : length (DB y) = length y.
Proof. unfold DB. rewrite app_length, D_len. rewrite <- (firstn_skipn m y) at 3. now rewrite app_length. Qed.

(* ---------- the seeding loop establishes the invariant ---------- *)
Definition Inv01 (d:bidict) : Prop := bget d [] = Some [] /\ (forall k v, In (k,v) d -> v = A' k).

Lemma bput01 d k : Inv01 d -> exists d', bput d k (A' k) = Ok d' /\ Inv01 d' /\ (forall q r, bget d q = Some r -> bget d' q = Some r) /\ bget d' k = Some (A' k).
Proof.
  intros (I0 & I1). unfold bput.
  destruct (bget d k) as [v'|] eqn:G; destruct (binv d (A' k)) as [k'|] eqn:GI.
  - pose proof G as G0. apply bget_In in G. apply binv_In in GI. rewrite (I1 _ _ G) in *. pose proof (I1 _ _ GI) as E. apply A'_inj in E. subst k'.
    rewrite !beq_refl. simpl. exists d. repeat split; auto.
  - exfalso. apply bget_In in G. rewrite (I1 _ _ G) in G. apply In_binv in G as [k' C]. congruence.
  - exfalso. apply binv_In in GI. pose proof (I1 _ _ GI) as E. apply A'_inj in E. subst k'. apply In_bget in GI as [v' C]. congruence.
  - exists (d ++ [(k, A' k)]). repeat split.
    + now apply bget_app_some.
    + intros q r Hin. apply in_app_or in Hin as [Hin|[Hin|[]]]; auto. now inversion Hin.
    + intros; now apply bget_app_some.
    + rewrite bget_app by exact G. now rewrite beq_refl.
Qed.

Lemma pinned_any_prefix h : pinned h = true -> forall k, pinned (firstn k h) = true.
Proof.
  induction h as [|c h IH] using rev_ind; intros Hp k.
  - now rewrite firstn_nil.
  - destruct (Nat.le_gt_cases (length (h ++ [c])) k) as [Hle|Hgt].
    + now rewrite firstn_all2.
    + rewrite app_length in Hgt. simpl in Hgt. rewrite firstn_app. replace (k - length h) with 0 by lia. simpl. rewrite app_nil_r.
      apply IH. eapply pinned_prefix; eauto.
Qed.

Lemma A'_pinned_child v b : pinned v = true -> A' (v ++ [b]) = v ++ [b].
Proof.
  intros Hp. destruct (Nat.le_gt_cases (length (v ++ [b])) m) as [Hle|Hgt].
  - rewrite A'_short by exact Hle. now apply A_pinned_child.
  - unfold Memo.A'. rewrite app_length in Hgt. simpl in Hgt.
    assert (E : firstn m (v ++ [b]) = firstn m v) by (rewrite firstn_app; replace (m - length v) with 0 by lia; simpl; now rewrite app_nil_r).
    rewrite E. rewrite A_pinned by (now apply pinned_any_prefix). rewrite <- E. apply firstn_skipn.
Qed.

Lemma is_prefix_firstn P pos : is_prefix (firstn pos P) P = true.
Proof. revert pos; induction P as [|a P IH]; intros [|pos]; simpl; auto. rewrite Bool.eqb_reflx. simpl. auto. Qed.
Lemma is_prefix_eq_firstn h P : is_prefix h P = true -> h = firstn (length h) P.
Proof. revert P; induction h as [|a h IH]; intros [|c P]; simpl; intros E; try discriminate; auto.
  apply andb_true_iff in E as [E1 E2]. apply Bool.eqb_prop in E1. subst. f_equal. auto. Qed.

Lemma pinned_firstn_seed P pos : In P seeds -> pos < length P -> pinned (firstn pos P) = true.
Proof. intros Hin L. unfold Memo.pinned. apply existsb_exists. exists P. split; auto.
  rewrite is_prefix_firstn. simpl. apply Nat.ltb_lt. rewrite firstn_length. lia. Qed.

Definition bound (d:bidict) (P:bits) (lo hi:nat) : Prop :=
  forall pos b, lo <= pos < hi -> bget d (firstn pos P ++ [b]) = Some (firstn pos P ++ [b]).

Lemma seed_one_ok P : In P seeds -> forall fuel d pos, pos + fuel = length P -> Inv01 d ->
  exists d', seed_one fuel d P pos = Ok d' /\ Inv01 d' /\ (forall q r, bget d q = Some r -> bget d' q = Some r) /\ bound d' P pos (length P).
Proof.
  intros Hin. induction fuel as [|fuel IH]; intros d pos E I.
  - exists d. simpl. repeat split; auto; try apply I. intros p b Hr. lia.
  - cbn [seed_one].
    assert (Hp : pinned (firstn pos P) = true) by (apply pinned_firstn_seed; auto; lia).
    destruct (bput01 d (firstn pos P ++ [false]) I) as (d1 & E1 & I1 & M1 & B1). rewrite A'_pinned_child in E1, B1 by exact Hp. rewrite E1.
    destruct (bput01 d1 (firstn pos P ++ [true]) I1) as (d2 & E2 & I2 & M2 & B2). rewrite A'_pinned_child in E2, B2 by exact Hp. rewrite E2.
    destruct (IH d2 (S pos) ltac:(lia) I2) as (d3 & E3 & I3 & M3 & B3). exists d3. rewrite E3. repeat split; auto; try apply I3.
    intros p b Hr. destruct (Nat.eq_dec p pos) as [->|Hne].
    + apply M3. destruct b; auto.
    + apply B3. lia.
Qed.

Lemma seed_all_ok : forall Ps d, (forall P, In P Ps -> In P seeds) -> Inv01 d ->
  exists d', seed_all d Ps = Ok d' /\ Inv01 d' /\ (forall q r, bget d q = Some r -> bget d' q = Some r) /\ (forall P, In P Ps -> bound d' P 0 (length P)).
Proof.
  induction Ps as [|P Ps IH]; intros d Hs I.
  - exists d. simpl. repeat split; auto; try apply I. intros P [].
  - cbn [seed_all]. destruct (seed_one_ok P (Hs P (or_introl eq_refl)) (length P) d 0 ltac:(lia) I) as (d1 & E1 & I1 & M1 & B1). rewrite E1.
    destruct (IH d1 (fun Q HQ => Hs Q (or_intror HQ)) I1) as (d2 & E2 & I2 & M2 & B2). exists d2. rewrite E2. repeat split; auto; try apply I2.
    intros Q [->|HQ]; auto. intros p b Hr. apply M2. apply B1. exact Hr.
Qed.

Theorem init_ok : exists d0, init seeds = Ok d0 /\ Inv d0.
Proof.
  unfold init.
  assert (I : Inv01 [([],[])]). { split; [reflexivity|]. intros k v [E|[]]. inversion E; subst. unfold Memo.A'. rewrite firstn_nil, skipn_nil. reflexivity. }
  destruct (seed_all_ok seeds _ (fun P HP => HP) I) as (d0 & E & (I0 & I1) & _ & Bd). exists d0. split; auto.
  repeat split; auto. intros h b Hp. unfold Memo.pinned in Hp. apply existsb_exists in Hp as [P [Hin Hc]].
  apply andb_true_iff in Hc as [Hc1 Hc2]. apply Nat.ltb_lt in Hc2. rewrite (is_prefix_eq_firstn _ _ Hc1). apply (Bd P Hin). lia.
Qed.

(* every request history on a freshly constructed anonymizer *)
Corollary fresh_history : forall ops, Forall (fun o => op_len o = n) ops ->
  exists d0 d', init seeds = Ok d0 /\ run d0 ops = Ok (d', map pure ops).
Proof. intros ops Hall. destruct init_ok as (d0 & E0 & I0). destruct (history_independent ops d0 I0 Hall) as (d' & E & _). eauto. Qed.
End P.
Print Assumptions fresh_history.
