From Coq Require Import List Bool Arith Lia NArith.
Import ListNotations.

Definition chr := N.
Inductive cset := CRanges (neg:bool) (rs : list (N*N)).
Definition in_cset (c:chr) (s:cset) : bool :=
  match s with CRanges neg rs => xorb neg (existsb (fun r => andb (N.leb (fst r) c) (N.leb c (snd r))) rs) end.

Inductive re :=
| Eps | Chr (s:cset) | Seq (a b:re) | Alt (a b:re)
| Rep (greedy:bool) (a:re) (lo:nat) (hi:option nat)
| Bol | Eol | Eos
| Look (ahead:bool) (neg:bool) (width:nat) (a:re)   (* lookbehind has fixed width *)
| Grp (n:nat) (a:re).

Definition caps := list (nat * (nat*nat)).
Definition R := option (nat*caps).

Section M.
Variable s : list chr.
Definition slen := length s.

(* first success of k over a list of candidates *)
Fixpoint first_some {A B} (k : A -> option B) (l : list A) : option B :=
  match l with [] => None | x :: r => match k x with Some y => Some y | None => first_some k r end end.
Lemma first_some_app {A B} (k:A->option B) l1 l2 : first_some k (l1 ++ l2) = match first_some k l1 with Some y => Some y | None => first_some k l2 end.
Proof. induction l1; simpl; auto. destruct (k a); auto. Qed.
Lemma first_some_flat_map {A B C} (k:B->option C) (f:A->list B) l :
  first_some k (flat_map f l) = first_some (fun x => first_some k (f x)) l.
Proof. induction l; simpl; auto. rewrite first_some_app. destruct (first_some k (f a)); auto. Qed.
Lemma first_some_ext {A B} (k k':A->option B) l : (forall x, k x = k' x) -> first_some k l = first_some k' l.
Proof. intros E; induction l; simpl; auto. rewrite E, IHl; auto. Qed.

Definition eol (i:nat) : bool := Nat.eqb i slen || (Nat.eqb (S i) slen && match nth_error s i with Some 10%N => true | _ => false end).

(* --- spec: list of successes in priority order --- *)
Fixpoint ms (r:re) (i:nat) (c:caps) {struct r} : list (nat*caps) :=
  match r with
  | Eps => [(i,c)]
  | Chr cs => match nth_error s i with Some x => if in_cset x cs then [(S i,c)] else [] | None => [] end
  | Seq a b => flat_map (fun p => ms b (fst p) (snd p)) (ms a i c)
  | Alt a b => ms a i c ++ ms b i c
  | Rep g a lo hi =>
      let fix opt (n:nat) (hi:option nat) (i:nat) (c:caps) {struct n} : list (nat*caps) :=
        match n with O => [(i,c)] | S n' =>
          match hi with Some O => [(i,c)] | _ =>
            let more := flat_map (fun p => if Nat.eqb (fst p) i then [] else opt n' (option_map pred hi) (fst p) (snd p)) (ms a i c) in
            if g then more ++ [(i,c)] else (i,c) :: more
          end end in
      let fix mand (lo:nat) (hi:option nat) (i:nat) (c:caps) {struct lo} : list (nat*caps) :=
        match lo with O => opt (S slen) hi i c
        | S lo' => flat_map (fun p => mand lo' (option_map pred hi) (fst p) (snd p)) (ms a i c) end in
      mand lo hi i c
  | Bol => if Nat.eqb i 0 then [(i,c)] else []
  | Eol => if eol i then [(i,c)] else []
  | Eos => if Nat.eqb i slen then [(i,c)] else []
  | Look ahead neg w a =>
      let start := if ahead then Some i else if Nat.leb w i then Some (i - w) else None in
      let ok := match start with None => false
                | Some st => existsb (fun p => if ahead then true else Nat.eqb (fst p) i) (ms a st c) end in
      if xorb neg ok then [(i,c)] else []
  | Grp n a => map (fun p => (fst p, (n,(i,fst p)) :: snd p)) (ms a i c)
  end.

(* --- executable: CPS backtracking --- *)
Fixpoint m (r:re) (i:nat) (c:caps) (k : nat*caps -> R) {struct r} : R :=
  match r with
  | Eps => k (i,c)
  | Chr cs => match nth_error s i with Some x => if in_cset x cs then k (S i,c) else None | None => None end
  | Seq a b => m a i c (fun p => m b (fst p) (snd p) k)
  | Alt a b => match m a i c k with Some r => Some r | None => m b i c k end
  | Rep g a lo hi =>
      let fix opt (n:nat) (hi:option nat) (i:nat) (c:caps) (k:nat*caps->R) {struct n} : R :=
        match n with O => k (i,c) | S n' =>
          match hi with Some O => k (i,c) | _ =>
            let more := m a i c (fun p => if Nat.eqb (fst p) i then None else opt n' (option_map pred hi) (fst p) (snd p) k) in
            if g then match more with Some r => Some r | None => k (i,c) end
            else match k (i,c) with Some r => Some r | None => more end
          end end in
      let fix mand (lo:nat) (hi:option nat) (i:nat) (c:caps) (k:nat*caps->R) {struct lo} : R :=
        match lo with O => opt (S slen) hi i c k
        | S lo' => m a i c (fun p => mand lo' (option_map pred hi) (fst p) (snd p) k) end in
      mand lo hi i c k
  | Bol => if Nat.eqb i 0 then k (i,c) else None
  | Eol => if eol i then k (i,c) else None
  | Eos => if Nat.eqb i slen then k (i,c) else None
  | Look ahead neg w a =>
      let start := if ahead then Some i else if Nat.leb w i then Some (i - w) else None in
      let ok := match start with None => false
                | Some st => match m a st c (fun p => if (if ahead then true else Nat.eqb (fst p) i) then Some p else None) with Some _ => true | None => false end end in
      if xorb neg ok then k (i,c) else None
  | Grp n a => m a i c (fun p => k (fst p, (n,(i,fst p)) :: snd p))
  end.

Lemma existsb_first_some {A} (f:A->bool) l : existsb f l = match first_some (fun p => if f p then Some p else None) l with Some _ => true | None => false end.
Proof. induction l; simpl; auto. destruct (f a); simpl; auto. Qed.

Theorem m_is_first_of_ms : forall r i c k, m r i c k = first_some k (ms r i c).
Proof.
  induction r as [| cs | a IHa b IHb | a IHa b IHb | g a IHa lo hi | | | | ahead neg w a IHa | n a IHa]; intros i c k.
  - simpl. destruct (k (i,c)); auto.
  - simpl. destruct (nth_error s i); auto. destruct (in_cset c0 cs); simpl; auto. destruct (k (S i,c)); auto.
  - simpl. rewrite IHa, first_some_flat_map. apply first_some_ext. intros; apply IHb.
  - simpl. rewrite IHa, IHb, first_some_app. reflexivity.
  - cbn [m ms].
    (* inner lemmas by induction on n / lo *)
    set (optm := fix opt (n:nat) (hi:option nat) (i:nat) (c:caps) (k:nat*caps->R) {struct n} : R :=
        match n with O => k (i,c) | S n' =>
          match hi with Some O => k (i,c) | _ =>
            let more := m a i c (fun p => if Nat.eqb (fst p) i then None else opt n' (option_map pred hi) (fst p) (snd p) k) in
            if g then match more with Some r => Some r | None => k (i,c) end
            else match k (i,c) with Some r => Some r | None => more end
          end end).
    set (opts := fix opt (n:nat) (hi:option nat) (i:nat) (c:caps) {struct n} : list (nat*caps) :=
        match n with O => [(i,c)] | S n' =>
          match hi with Some O => [(i,c)] | _ =>
            let more := flat_map (fun p => if Nat.eqb (fst p) i then [] else opt n' (option_map pred hi) (fst p) (snd p)) (ms a i c) in
            if g then more ++ [(i,c)] else (i,c) :: more
          end end).
    assert (Hopt : forall n hi i c k, optm n hi i c k = first_some k (opts n hi i c)).
    { induction n as [|n IHn]; intros hi0 i0 c0 k0.
      - simpl. destruct (k0 (i0,c0)); auto.
      - assert (Hmore : m a i0 c0 (fun p => if Nat.eqb (fst p) i0 then None else optm n (option_map pred hi0) (fst p) (snd p) k0)
                 = first_some k0 (flat_map (fun p => if Nat.eqb (fst p) i0 then [] else opts n (option_map pred hi0) (fst p) (snd p)) (ms a i0 c0))).
        { rewrite IHa, first_some_flat_map. apply first_some_ext. intros p. destruct (Nat.eqb (fst p) i0); auto. }
        cbn [optm opts]. fold optm. fold opts.
        destruct hi0 as [[|h]|].
        + simpl. destruct (k0 (i0,c0)); auto.
        + cbv zeta. rewrite Hmore. destruct g.
          * rewrite first_some_app. simpl. destruct (first_some k0 _); auto. destruct (k0 (i0,c0)); auto.
          * simpl. reflexivity.
        + cbv zeta. rewrite Hmore. destruct g.
          * rewrite first_some_app. simpl. destruct (first_some k0 _); auto. destruct (k0 (i0,c0)); auto.
          * simpl. reflexivity. }
    revert hi i c k. induction lo as [|lo IHlo]; intros hi0 i0 c0 k0.
    + exact (Hopt (S slen) hi0 i0 c0 k0).
    + rewrite IHa, first_some_flat_map. apply first_some_ext. intros p. apply IHlo.
  - simpl. destruct (Nat.eqb i 0); simpl; auto. destruct (k (i,c)); auto.
  - simpl. destruct (eol i); simpl; auto. destruct (k (i,c)); auto.
  - simpl. destruct (Nat.eqb i slen); simpl; auto. destruct (k (i,c)); auto.
  - cbn [m ms]. 
    assert (E: forall st, match m a st c (fun p => if (if ahead then true else Nat.eqb (fst p) i) then Some p else None) with Some _ => true | None => false end
               = existsb (fun p => if ahead then true else Nat.eqb (fst p) i) (ms a st c)).
    { intros st. rewrite IHa, existsb_first_some. reflexivity. }
    destruct (if ahead then Some i else if Nat.leb w i then Some (i - w) else None) as [st|].
    + rewrite E. destruct (xorb neg _); simpl; auto. destruct (k (i,c)); auto.
    + destruct (xorb neg false); simpl; auto. destruct (k (i,c)); auto.
  - simpl. rewrite IHa. induction (ms a i c) as [|p l IHl]; simpl; auto. destruct (k _); auto.
Qed.
End M.
Print Assumptions m_is_first_of_ms.
