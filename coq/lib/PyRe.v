(* re.search on a dynamically typed string through the regex engine (pattern given as a generated AST) *)
From Coq Require Import List ZArith NArith Bool.
Import ListNotations.
Require Import PyLib Rx RxFacts RxSub.
Definition re_search_ast (r : re) (v : pyval) : PyLib.res :=
  match v with
  | VStr s => match search (map Z.to_N s) r with Some _ => Normal (VBool true) | None => Normal VNone end
  | _ => Exc TypeError
  end.
Definition re_match_ast (r : re) (v : pyval) : PyLib.res :=
  match v with
  | VStr s => match match_start (map Z.to_N s) r with Some _ => Normal (VBool true) | None => Normal VNone end
  | _ => Exc TypeError
  end.
