(* Additions to PyLib for sensitive_item_removal._anonymize_value (kept apart so that the units the model itself is built on do not depend on them). *)
From Coq Require Import List ZArith NArith Bool String.
Import ListNotations.
Require Import PyLib Str Md5.
Local Open Scope Z_scope.

Definition unpack3 (v:pyval) : ctl (pyval*pyval*pyval) :=
  match v with VTuple [a;b;c] | VList [a;b;c] => Normal (a,b,c) | _ => Exc TypeError end.
(* try: x = <expr>  except ValueError: pass   -- the value if the expression returns, None if it raises ValueError, anything else propagates *)
Definition py_try_ve (m : ctl pyval) : ctl (option pyval) :=
  match m with Normal v => Normal (Some v) | Exc (ValueError _) => Normal None | Exc e => Exc e | Ret v => Ret v | Brk _ | Cont _ => Exc Unsupported end.
(* "0" * n *)
Definition py_str_repeat (s n : pyval) : res :=
  match s, n with VStr x, VInt k => Normal (VStr (List.concat (repeat x (Z.to_nat k)))) | _, _ => Exc TypeError end.
(* b2a_hex(s.encode()) and b2a_hex(s.encode()).decode(): lower-case hex of the UTF-8 bytes, as text *)
Definition py_b2a_hex_encode (v:pyval) : res :=
  match v with
  | VStr s => match utf8 (map Z.to_N s) with
              | Some bytes => Normal (VStr (map Z.of_N (hex_of_bytes bytes)))
              | None => Exc (ValueError [])
              end
  | _ => Exc AttributeError end.

(* str.lstrip() / str.rstrip() / str.split() with no argument: Unicode white space as in lib/Str.v *)
Definition py_lstrip (v:pyval) : res := match v with VStr s => Normal (VStr (map Z.of_N (lstrip (map Z.to_N s)))) | _ => Exc AttributeError end.
Definition py_rstrip (v:pyval) : res := match v with VStr s => Normal (VStr (map Z.of_N (rstrip (map Z.to_N s)))) | _ => Exc AttributeError end.
Definition py_split_ws (v:pyval) : res :=
  match v with VStr s => Normal (VList (map (fun w => VStr (map Z.of_N w)) (split_ws (map Z.to_N s)))) | _ => Exc AttributeError end.

(* pattern.sub(callback, line): the py_call parameter lists the matches as (start, end, match object), the translated callback computes one
   replacement per match, py_stitch puts the text together (text between the matches copied) *)
Fixpoint stitch_z (line : list Z) (i : nat) (ms reps : list pyval) : option (list Z) :=
  match ms, reps with
  | VTuple [VInt a; VInt b; _] :: ms', VStr rep :: reps' =>
      match stitch_z line (Z.to_nat b) ms' reps' with
      | Some t => Some (firstn (Z.to_nat a - i) (skipn i line) ++ rep ++ t)%list
      | None => None end
  | [], [] => Some (skipn i line)
  | _, _ => None
  end.
Definition py_stitch (line ms reps : pyval) : res :=
  match line, ms, reps with
  | VStr l, VList m, VList r => match stitch_z l 0 m r with Some t => Normal (VStr t) | None => Exc TypeError end
  | _, _, _ => Exc TypeError
  end.

(* dict.items() / bidict.items(): the (key, value) pairs in insertion order *)
Definition py_items (v : pyval) : res :=
  match v with VDict d | VBidict d => Normal (VList (map (fun kv => VTuple [fst kv; snd kv]) d)) | _ => Exc AttributeError end.

(* a set represented by the list of its elements (membership is all that may be asked of it): union is concatenation *)
Definition py_set_union (a b : pyval) : res :=
  match a, b with VList x, VList y => Normal (VList (x ++ y)) | _, _ => Exc TypeError end.

(* ---- for SensitiveWordAnonymizer.__init__: sets as duplicate-free lists, sorted(key=(-len, text)), substring test ---- *)
Definition py_dedup (v : pyval) : res :=
  match v with VList l => Normal (VList (fold_left (fun acc w => if existsb (veq w) acc then acc else acc ++ [w])%list l [])) | _ => Exc TypeError end.
Fixpoint z_ltb (a b : list Z) : bool :=
  match a, b with
  | _, [] => false
  | [], _ :: _ => true
  | x :: a', y :: b' => if x <? y then true else if y <? x then false else z_ltb a' b'
  end.
Definition z_before (a b : list Z) : bool :=
  if Nat.ltb (List.length b) (List.length a) then true else if Nat.ltb (List.length a) (List.length b) then false else z_ltb a b.
Fixpoint z_insert (w : list Z) (l : list (list Z)) : list (list Z) :=
  match l with [] => [w] | x :: r => if z_before w x then w :: l else x :: z_insert w r end.
Fixpoint strs_of (l : list pyval) : option (list (list Z)) :=
  match l with [] => Some [] | VStr s :: r => match strs_of r with Some t => Some (s :: t) | None => None end | _ => None end.
(* sorted(xs, key=lambda w: (-len(w), w)) for a list of strings: longest first, equal lengths in code-point order (stable sort of equal keys is moot: equal
   keys are equal strings) *)
Definition py_sorted_lenlex (v : pyval) : res :=
  match v with
  | VList l => match strs_of l with Some ss => Normal (VList (map VStr (fold_left (fun acc w => z_insert w acc) ss []))) | None => Exc TypeError end
  | _ => Exc TypeError end.
Fixpoint z_contains_aux (fuel : nat) (p s : list Z) : bool :=
  match fuel with O => false | S f => zprefix p s || match s with [] => false | _ :: r => z_contains_aux f p r end end.
(* x in c: substring test on two strings, otherwise membership *)
Definition py_in2 (x c : pyval) : res :=
  match x, c with VStr p, VStr s => Normal (VBool (z_contains_aux (S (List.length s)) p s)) | _, _ => py_in x c end.
