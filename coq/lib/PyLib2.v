(* Additions to PyLib for sensitive_item_removal._anonymize_value (kept apart so that the units the model itself is built on do not depend on them). *)
From Coq Require Import List ZArith NArith Bool String.
Import ListNotations.
Require Import PyLib Str Md5.
Local Open Scope Z_scope.

Definition unpack3 (v:pyval) : ctl (pyval*pyval*pyval) :=
  match v with VTuple [a;b;c] | VList [a;b;c] => Normal (a,b,c) | _ => Exc TypeError end.
(* try: x = <expr>  except ValueError: pass   -- the value if the expression returns, None if it raises ValueError, anything else propagates *)
Definition py_try_ve (m : ctl pyval) : ctl (option pyval) :=
  match m with Normal v => Normal (Some v) | Exc (ValueError _) => Normal None | Exc e => Exc e | Ret v => Ret v | Brk _ | Cont _ => Exc Unsupported end.
(* "0" * n *)
Definition py_str_repeat (s n : pyval) : res :=
  match s, n with VStr x, VInt k => Normal (VStr (List.concat (repeat x (Z.to_nat k)))) | _, _ => Exc TypeError end.
(* b2a_hex(s.encode()) and b2a_hex(s.encode()).decode(): lower-case hex of the UTF-8 bytes, as text *)
Definition py_b2a_hex_encode (v:pyval) : res :=
  match v with
  | VStr s => match utf8 (map Z.to_N s) with
              | Some bytes => Normal (VStr (map Z.of_N (hex_of_bytes bytes)))
              | None => Exc (ValueError [])
              end
  | _ => Exc AttributeError end.

(* str.lstrip() / str.rstrip() / str.split() with no argument: Unicode white space as in lib/Str.v *)
Definition py_lstrip (v:pyval) : res := match v with VStr s => Normal (VStr (map Z.of_N (lstrip (map Z.to_N s)))) | _ => Exc AttributeError end.
Definition py_rstrip (v:pyval) : res := match v with VStr s => Normal (VStr (map Z.of_N (rstrip (map Z.to_N s)))) | _ => Exc AttributeError end.
Definition py_split_ws (v:pyval) : res :=
  match v with VStr s => Normal (VList (map (fun w => VStr (map Z.of_N w)) (split_ws (map Z.to_N s)))) | _ => Exc AttributeError end.

(* pattern.sub(callback, line): the py_call parameter lists the matches as (start, end, match object), the translated callback computes one
   replacement per match, py_stitch puts the text together (text between the matches copied) *)
Fixpoint stitch_z (line : list Z) (i : nat) (ms reps : list pyval) : option (list Z) :=
  match ms, reps with
  | VTuple [VInt a; VInt b; _] :: ms', VStr rep :: reps' =>
      match stitch_z line (Z.to_nat b) ms' reps' with
      | Some t => Some (firstn (Z.to_nat a - i) (skipn i line) ++ rep ++ t)%list
      | None => None end
  | [], [] => Some (skipn i line)
  | _, _ => None
  end.
Definition py_stitch (line ms reps : pyval) : res :=
  match line, ms, reps with
  | VStr l, VList m, VList r => match stitch_z l 0 m r with Some t => Normal (VStr t) | None => Exc TypeError end
  | _, _, _ => Exc TypeError
  end.

(* dict.items() / bidict.items(): the (key, value) pairs in insertion order *)
Definition py_items (v : pyval) : res :=
  match v with VDict d | VBidict d => Normal (VList (map (fun kv => VTuple [fst kv; snd kv]) d)) | _ => Exc AttributeError end.

(* a set represented by the list of its elements (membership is all that may be asked of it): union is concatenation *)
Definition py_set_union (a b : pyval) : res :=
  match a, b with VList x, VList y => Normal (VList (x ++ y)) | _, _ => Exc TypeError end.
