(* The language of a pattern without anchors and look-around, as a set of strings, and: a span the engine reports for such a pattern holds a string of
   its language (through RxDen).  Used to read off what the generated address patterns can match. *)
From Coq Require Import List Arith NArith Bool Lia.
Import ListNotations.
Require Import Rx RxFacts RxComplete RxDen.

Inductive lang : re -> list chr -> Prop :=
| LEps : lang Eps []
| LChr cs x : in_cset x cs = true -> lang (Chr cs) [x]
| LSeq a b t1 t2 : lang a t1 -> lang b t2 -> lang (Seq a b) (t1 ++ t2)
| LAltL a b t : lang a t -> lang (Alt a b) t
| LAltR a b t : lang b t -> lang (Alt a b) t
| LRep g a lo hi ts : Forall (lang a) ts -> lo <= length ts -> (forall h, hi = Some h -> lo <= h -> length ts <= h) -> lang (Rep g a lo hi) (concat ts)
| LGrp n a t : lang a t -> lang (Grp n a) t.

Fixpoint pure (r : re) : bool :=
  match r with
  | Eps | Chr _ => true
  | Seq a b | Alt a b => pure a && pure b
  | Rep _ a _ _ | Grp _ a => pure a
  | Bol | Eol | Eos | Look _ _ _ _ => false
  end.

Section L.
Variable s : list chr.
Definition sub (i j : nat) : list chr := firstn (j - i) (skipn i s).
Lemma sub_nil i : sub i i = []. Proof. unfold sub. now rewrite Nat.sub_diag. Qed.
Lemma sub_one i x : nth_error s i = Some x -> sub i (S i) = [x].
Proof.
  unfold sub. replace (S i - i) with 1 by lia. revert i. induction s as [|y l IH]; intros [|i] H; cbn in *; try discriminate.
  - now injection H as ->.
  - now apply IH.
Qed.
Lemma firstn_add {A} : forall a b (l : list A), firstn (a + b) l = firstn a l ++ firstn b (skipn a l).
Proof. induction a as [|a IH]; intros b [|x l]; cbn [Nat.add firstn skipn app]; try reflexivity; [now destruct b|]. now rewrite IH. Qed.
Lemma skipn_add {A} : forall a b (l : list A), skipn a (skipn b l) = skipn (a + b) l.
Proof. intros a b. revert a. induction b as [|b IH]; intros a l; [now rewrite Nat.add_0_r|]. destruct l as [|x l]; [now rewrite !skipn_nil|]. rewrite Nat.add_succ_r. cbn [skipn]. apply IH. Qed.
Lemma sub_app i j k : i <= j -> j <= k -> k <= length s -> sub i k = sub i j ++ sub j k.
Proof.
  intros H1 H2 H3. unfold sub. replace (k - i) with ((j - i) + (k - j)) by lia. rewrite firstn_add.
  f_equal. rewrite skipn_add. now replace (j - i + i) with j by lia.
Qed.

Lemma den_bounds : forall r i j, den s r i j -> i <= j /\ (i <= length s -> j <= length s)
with reps_bounds : forall r i j n, reps s r i j n -> i <= j /\ (i <= length s -> j <= length s).
Proof.
  - intros r i j D. destruct D; try (split; [lia|intro; lia]).
    + split; [lia|]. intros _. apply nth_error_Some. congruence.
    + destruct (den_bounds _ _ _ D1) as [A1 B1], (den_bounds _ _ _ D2) as [A2 B2]. split; [lia|auto].
    + apply den_bounds in D. exact D.
    + apply den_bounds in D. exact D.
    + match goal with R : reps _ _ _ _ _ |- _ => apply reps_bounds in R; exact R end.
    + apply den_bounds in D. exact D.
  - intros r i j n R. destruct R as [|a i j k n D R]; [split; [lia|auto]|].
    destruct (den_bounds _ _ _ D) as [A1 B1], (reps_bounds _ _ _ _ R) as [A2 B2]. split; [lia|auto].
Qed.

Lemma den_lang : forall r i j, den s r i j -> pure r = true -> i <= length s -> lang r (sub i j)
with reps_lang : forall r i j n, reps s r i j n -> pure r = true -> i <= length s -> exists ts, Forall (lang r) ts /\ length ts = n /\ concat ts = sub i j.
Proof.
  - intros r i j D. destruct D; intros P Hi; cbn [pure] in P; try discriminate.
    + rewrite sub_nil. constructor.
    + erewrite sub_one by eassumption. now constructor.
    + apply andb_true_iff in P as [Pa Pb].
      destruct (den_bounds _ _ _ D1) as [A1 B1], (den_bounds _ _ _ D2) as [A2 B2].
      rewrite (sub_app i j k) by auto. constructor; [apply den_lang; auto|apply den_lang; auto].
    + apply andb_true_iff in P as [Pa Pb]. apply LAltL. now apply den_lang.
    + apply andb_true_iff in P as [Pa Pb]. apply LAltR. now apply den_lang.
    + match goal with R : reps _ _ _ _ _ |- _ => destruct (reps_lang _ _ _ _ R P Hi) as (ts & F & L & C) end.
      rewrite <- C. constructor; [exact F|lia|]. intros h Eh Hl. rewrite L. eauto.
    + constructor. now apply den_lang.
  - intros r i j n R P Hi. destruct R as [|a i j k n D R].
    + exists []. rewrite sub_nil. repeat split; constructor.
    + destruct (den_bounds _ _ _ D) as [A1 B1]. destruct (reps_bounds _ _ _ _ R) as [A2 B2].
      destruct (reps_lang _ _ _ _ R P (B1 Hi)) as (ts & F & L & C).
      exists (sub i j :: ts). split; [constructor; [now apply den_lang|exact F]|split; [cbn; now rewrite L|]].
      cbn [concat]. rewrite C. symmetry. apply sub_app; auto.
Qed.
End L.

(* a counted repetition of one character class, as a string *)
Lemma lang_rep_chr g cs lo hi t : lang (Rep g (Chr cs) lo hi) t ->
  Forall (fun x => in_cset x cs = true) t /\ lo <= length t /\ (forall h, hi = Some h -> lo <= h -> length t <= h).
Proof.
  intro H. inversion H as [| | | | |g' a' lo' hi' ts F L B|]; subst.
  assert (E : Forall (fun x => in_cset x cs = true) (concat ts) /\ length (concat ts) = length ts).
  { clear L B H. induction F as [|t ts Ht F IH]; cbn [concat length]; [split; [constructor|reflexivity]|].
    inversion Ht; subst. destruct IH as [I1 I2]. split; [constructor; assumption|cbn; now rewrite I2]. }
  destruct E as [E1 E2]. rewrite E2. auto.
Qed.

(* ---- the converse for anchor-free patterns: a string of the language that occurs at position i is among the successes the engine lists from i ---- *)
Section C.
Variable s : list chr.
Definition occ (t : list chr) (i : nat) : Prop := forall k x, nth_error t k = Some x -> nth_error s (i + k) = Some x.
Lemma occ_app t1 t2 i : occ (t1 ++ t2) i -> occ t1 i /\ occ t2 (i + length t1).
Proof.
  intro H. split; intros k x Hk.
  - apply H. rewrite nth_error_app1; [exact Hk|]. apply nth_error_Some. congruence.
  - replace (i + length t1 + k) with (i + (length t1 + k)) by lia. apply H. rewrite nth_error_app2 by lia. now replace (length t1 + k - length t1) with k by lia.
Qed.
Lemma nth_error_skipn {A} : forall i k (l : list A), nth_error (skipn i l) k = nth_error l (i + k).
Proof. induction i as [|i IH]; intros k [|x l]; cbn [skipn Nat.add nth_error]; try reflexivity; [now destruct k|apply IH]. Qed.
Lemma nth_error_firstn_some {A} : forall n k (l : list A) x, nth_error (firstn n l) k = Some x -> nth_error l k = Some x.
Proof. induction n as [|n IH]; intros k [|y l] x H; cbn [firstn nth_error] in *; try (destruct k; discriminate); destruct k; cbn [nth_error] in *; [exact H|now apply IH]. Qed.
Lemma occ_sub i j : occ (sub s i j) i.
Proof. intros k x Hk. unfold sub in Hk. apply nth_error_firstn_some in Hk. now rewrite nth_error_skipn in Hk. Qed.

Lemma occ_len t i : occ t i -> t <> [] -> i + length t <= length s.
Proof.
  intros O Ne. destruct (rev t) as [|x r] eqn:Er; [apply (f_equal (@rev _)) in Er; rewrite rev_involutive in Er; cbn in Er; contradiction|].
  assert (Et : t = rev r ++ [x]) by (rewrite <- (rev_involutive t), Er; reflexivity).
  assert (H : nth_error t (length (rev r)) = Some x) by (rewrite Et, nth_error_app2, Nat.sub_diag by lia; reflexivity).
  apply O in H. assert (i + length (rev r) < length s) by (apply nth_error_Some; congruence). rewrite Et, app_length. cbn [length]. lia.
Qed.
Lemma optc_has_stop g a n hi i c : In (i, c) (optc s g a n hi i c).
Proof. destruct n as [|n]; cbn [optc]; [now left|]. destruct hi as [[|h]|]; [now left| |]; cbv zeta; destruct g; try (now left); apply in_or_app; right; now left. Qed.

Lemma optc_complete g a (IHa : forall t i c, lang a t -> occ t i -> exists c', In (i + length t, c') (ms s a i c)) :
  forall n hi ts i c, Forall (lang a) ts -> Forall (fun t => t <> []) ts -> length ts <= n -> (forall h, hi = Some h -> length ts <= h) -> occ (concat ts) i ->
  exists c', In (i + length (concat ts), c') (optc s g a n hi i c).
Proof.
  induction n as [|n IH]; intros hi ts i c F Ne Ln Bh O.
  - destruct ts; [|cbn in Ln; lia]. cbn [concat length]. rewrite Nat.add_0_r. exists c. apply optc_has_stop.
  - destruct ts as [|t1 ts]; [cbn [concat length]; rewrite Nat.add_0_r; exists c; apply optc_has_stop|].
    inversion F as [|? ? F1 F']; subst. inversion Ne as [|? ? N1 Ne']; subst. cbn [concat] in O |- *. apply occ_app in O as [O1 O2].
    destruct (IHa t1 i c F1 O1) as (c1 & H1).
    assert (Hhi : hi <> Some 0). { intros ->. specialize (Bh 0 eq_refl). cbn in Bh. lia. }
    destruct (IH (option_map pred hi) ts (i + length t1) c1 F' Ne' ltac:(cbn in Ln; lia)) as (c2 & H2); [|exact O2|].
    { intros h Eh. destruct hi as [[|h0]|]; cbn in Eh; try discriminate; [congruence|]. injection Eh as <-. specialize (Bh (S h0) eq_refl). cbn in Bh. lia. }
    exists c2. rewrite app_length, Nat.add_assoc. cbn [optc].
    assert (Hmore : In (i + length t1 + length (concat ts), c2)
              (flat_map (fun p => if Nat.eqb (fst p) i then [] else optc s g a n (option_map pred hi) (fst p) (snd p)) (ms s a i c))).
    { apply in_flat_map. exists (i + length t1, c1). split; [exact H1|]. cbn [fst snd].
      destruct (Nat.eqb_spec (i + length t1) i) as [E|_]; [destruct t1; [contradiction|cbn in E; lia]|exact H2]. }
    destruct hi as [[|h]|]; [congruence| |]; cbv zeta; destruct g; try (apply in_or_app; left; exact Hmore); right; exact Hmore.
Qed.

Lemma concat_nonempty (ts : list (list chr)) : concat (filter (fun t => negb (match t with [] => true | _ => false end)) ts) = concat ts.
Proof. induction ts as [|t ts IH]; cbn [filter concat]; [reflexivity|]. destruct t; cbn [negb concat app]; [exact IH|now rewrite IH]. Qed.

Lemma mandc_complete g a (IHa : forall t i c, lang a t -> occ t i -> exists c', In (i + length t, c') (ms s a i c)) :
  forall lo hi ts i c, Forall (lang a) ts -> lo <= length ts -> (forall h, hi = Some h -> length ts <= h) -> occ (concat ts) i ->
  exists c', In (i + length (concat ts), c') (mandc s g a lo hi i c).
Proof.
  induction lo as [|lo IH]; intros hi ts i c F Ll Bh O; cbn [mandc].
  - (* the optional part: empty iterations dropped *)
    set (ts' := filter (fun t => negb (match t with [] => true | _ => false end)) ts).
    assert (Ec : concat ts' = concat ts) by apply concat_nonempty.
    assert (F' : Forall (lang a) ts'). { apply Forall_forall. intros t Ht. apply filter_In in Ht as [Ht _]. rewrite Forall_forall in F. now apply F. }
    assert (Ne : Forall (fun t => t <> []) ts'). { apply Forall_forall. intros t Ht. apply filter_In in Ht as [_ Ht]. destruct t; [discriminate|discriminate]. }
    assert (Lts : length ts' <= length ts). { unfold ts'. clear. induction ts as [|t ts IHt]; cbn [filter length]; [lia|]. destruct (negb _); cbn [length]; lia. }
    assert (Lc : length ts' <= length (concat ts')). { clear - Ne. induction Ne as [|t0 ts0 Ht _ IHn]; cbn [concat length]; [lia|]. rewrite app_length. destruct t0; [contradiction|cbn [length]; lia]. }
    rewrite <- Ec in O |- *.
    assert (Hlen : length ts' <= S (length s)).
    { destruct ts' as [|t0 ts0] eqn:Ets; [cbn; lia|]. assert (Hne : concat (t0 :: ts0) <> []). { inversion Ne; subst. cbn [concat]. destruct t0; [contradiction|discriminate]. }
      pose proof (occ_len _ _ O Hne). lia. }
    apply (optc_complete g a IHa (S (length s)) hi ts' i c F' Ne); [exact Hlen| |exact O].
    intros h Eh. specialize (Bh h Eh). lia.
  - destruct ts as [|t1 ts]; [cbn in Ll; lia|].
    inversion F as [|? ? F1 F']; subst. cbn [concat] in O |- *. apply occ_app in O as [O1 O2]. rewrite app_length.
    destruct (IHa t1 i c F1 O1) as (c1 & H1).
    destruct (IH (option_map pred hi) ts (i + length t1) c1 F' ltac:(cbn in Ll; lia)) as (c2 & H2); [|exact O2|].
    { intros h Eh. destruct hi as [[|h0]|]; cbn in Eh; try discriminate.
      - specialize (Bh 0 eq_refl). cbn in Bh. lia.
      - injection Eh as <-. specialize (Bh (S h0) eq_refl). cbn in Bh. lia. }
    exists c2. rewrite Nat.add_assoc. apply in_flat_map. exists (i + length t1, c1). split; [exact H1|exact H2].
Qed.

Fixpoint wfr (r : re) : bool :=
  match r with
  | Seq a b | Alt a b => wfr a && wfr b
  | Rep _ a lo hi => wfr a && match hi with Some h => Nat.leb lo h | None => true end
  | Grp _ a | Look _ _ _ a => wfr a
  | _ => true
  end.
Theorem lang_ms : forall r, pure r = true -> wfr r = true -> forall t i c, lang r t -> occ t i -> exists c', In (i + length t, c') (ms s r i c).
Proof.
  induction r as [| cs | a IHa b IHb | a IHa b IHb | g a IHa lo hi | | | | ahead neg w a IHa | n a IHa]; intros P W t i c L O; cbn [pure] in P; cbn [wfr] in W; try discriminate.
  - inversion L; subst. cbn [length ms]. rewrite Nat.add_0_r. exists c. now left.
  - inversion L; subst. cbn [length ms].
    assert (E : nth_error s i = Some x) by (specialize (O 0 x eq_refl); now rewrite Nat.add_0_r in O).
    rewrite E. match goal with H : in_cset x cs = true |- _ => rewrite H end. exists c. left. f_equal. lia.
  - apply andb_true_iff in P as [Pa Pb]. apply andb_true_iff in W as [Wa Wb]. inversion L; subst. apply occ_app in O as [O1 O2]. rewrite app_length.
    destruct (IHa Pa Wa t1 i c ltac:(assumption) O1) as (c1 & Hin1).
    destruct (IHb Pb Wb t2 (i + length t1) c1 ltac:(assumption) O2) as (c2 & Hin2).
    exists c2. rewrite Nat.add_assoc. cbn [ms]. apply in_flat_map. exists (i + length t1, c1). split; [exact Hin1|exact Hin2].
  - apply andb_true_iff in P as [Pa Pb]. apply andb_true_iff in W as [Wa Wb]. inversion L; subst.
    + destruct (IHa Pa Wa t i c ltac:(assumption) O) as (c1 & Hin1). exists c1. cbn [ms]. apply in_or_app. left. exact Hin1.
    + destruct (IHb Pb Wb t i c ltac:(assumption) O) as (c1 & Hin1). exists c1. cbn [ms]. apply in_or_app. right. exact Hin1.
  - apply andb_true_iff in W as [Wa Wh]. inversion L as [| | | | |g' a' lo' hi' ts F Ll Bh|]; subst. rewrite ms_rep.
    apply (mandc_complete g a (IHa P Wa)); try assumption.
    intros h Eh. apply Bh; [exact Eh|]. subst hi. now apply Nat.leb_le.
  - inversion L; subst. destruct (IHa P W t i c ltac:(assumption) O) as (c1 & Hin1). eexists. cbn [ms]. apply in_map_iff. exists (i + length t, c1). split; [reflexivity|exact Hin1].
Qed.
End C.
