(* The language of a pattern without anchors and look-around, as a set of strings, and: a span the engine reports for such a pattern holds a string of
   its language (through RxDen).  Used to read off what the generated address patterns can match. *)
From Coq Require Import List Arith NArith Bool Lia.
Import ListNotations.
Require Import Rx RxFacts RxComplete RxDen.

Inductive lang : re -> list chr -> Prop :=
| LEps : lang Eps []
| LChr cs x : in_cset x cs = true -> lang (Chr cs) [x]
| LSeq a b t1 t2 : lang a t1 -> lang b t2 -> lang (Seq a b) (t1 ++ t2)
| LAltL a b t : lang a t -> lang (Alt a b) t
| LAltR a b t : lang b t -> lang (Alt a b) t
| LRep g a lo hi ts : Forall (lang a) ts -> lo <= length ts -> (forall h, hi = Some h -> lo <= h -> length ts <= h) -> lang (Rep g a lo hi) (concat ts)
| LGrp n a t : lang a t -> lang (Grp n a) t.

Fixpoint pure (r : re) : bool :=
  match r with
  | Eps | Chr _ => true
  | Seq a b | Alt a b => pure a && pure b
  | Rep _ a _ _ | Grp _ a => pure a
  | Bol | Eol | Eos | Look _ _ _ _ => false
  end.

Section L.
Variable s : list chr.
Definition sub (i j : nat) : list chr := firstn (j - i) (skipn i s).
Lemma sub_nil i : sub i i = []. Proof. unfold sub. now rewrite Nat.sub_diag. Qed.
Lemma sub_one i x : nth_error s i = Some x -> sub i (S i) = [x].
Proof.
  unfold sub. replace (S i - i) with 1 by lia. revert i. induction s as [|y l IH]; intros [|i] H; cbn in *; try discriminate.
  - now injection H as ->.
  - now apply IH.
Qed.
Lemma firstn_add {A} : forall a b (l : list A), firstn (a + b) l = firstn a l ++ firstn b (skipn a l).
Proof. induction a as [|a IH]; intros b [|x l]; cbn [Nat.add firstn skipn app]; try reflexivity; [now destruct b|]. now rewrite IH. Qed.
Lemma skipn_add {A} : forall a b (l : list A), skipn a (skipn b l) = skipn (a + b) l.
Proof. intros a b. revert a. induction b as [|b IH]; intros a l; [now rewrite Nat.add_0_r|]. destruct l as [|x l]; [now rewrite !skipn_nil|]. rewrite Nat.add_succ_r. cbn [skipn]. apply IH. Qed.
Lemma sub_app i j k : i <= j -> j <= k -> k <= length s -> sub i k = sub i j ++ sub j k.
Proof.
  intros H1 H2 H3. unfold sub. replace (k - i) with ((j - i) + (k - j)) by lia. rewrite firstn_add.
  f_equal. rewrite skipn_add. now replace (j - i + i) with j by lia.
Qed.

Lemma den_bounds : forall r i j, den s r i j -> i <= j /\ (i <= length s -> j <= length s)
with reps_bounds : forall r i j n, reps s r i j n -> i <= j /\ (i <= length s -> j <= length s).
Proof.
  - intros r i j D. destruct D; try (split; [lia|intro; lia]).
    + split; [lia|]. intros _. apply nth_error_Some. congruence.
    + destruct (den_bounds _ _ _ D1) as [A1 B1], (den_bounds _ _ _ D2) as [A2 B2]. split; [lia|auto].
    + apply den_bounds in D. exact D.
    + apply den_bounds in D. exact D.
    + match goal with R : reps _ _ _ _ _ |- _ => apply reps_bounds in R; exact R end.
    + apply den_bounds in D. exact D.
  - intros r i j n R. destruct R as [|a i j k n D R]; [split; [lia|auto]|].
    destruct (den_bounds _ _ _ D) as [A1 B1], (reps_bounds _ _ _ _ R) as [A2 B2]. split; [lia|auto].
Qed.

Lemma den_lang : forall r i j, den s r i j -> pure r = true -> i <= length s -> lang r (sub i j)
with reps_lang : forall r i j n, reps s r i j n -> pure r = true -> i <= length s -> exists ts, Forall (lang r) ts /\ length ts = n /\ concat ts = sub i j.
Proof.
  - intros r i j D. destruct D; intros P Hi; cbn [pure] in P; try discriminate.
    + rewrite sub_nil. constructor.
    + erewrite sub_one by eassumption. now constructor.
    + apply andb_true_iff in P as [Pa Pb].
      destruct (den_bounds _ _ _ D1) as [A1 B1], (den_bounds _ _ _ D2) as [A2 B2].
      rewrite (sub_app i j k) by auto. constructor; [apply den_lang; auto|apply den_lang; auto].
    + apply andb_true_iff in P as [Pa Pb]. apply LAltL. now apply den_lang.
    + apply andb_true_iff in P as [Pa Pb]. apply LAltR. now apply den_lang.
    + match goal with R : reps _ _ _ _ _ |- _ => destruct (reps_lang _ _ _ _ R P Hi) as (ts & F & L & C) end.
      rewrite <- C. constructor; [exact F|lia|]. intros h Eh Hl. rewrite L. eauto.
    + constructor. now apply den_lang.
  - intros r i j n R P Hi. destruct R as [|a i j k n D R].
    + exists []. rewrite sub_nil. repeat split; constructor.
    + destruct (den_bounds _ _ _ D) as [A1 B1]. destruct (reps_bounds _ _ _ _ R) as [A2 B2].
      destruct (reps_lang _ _ _ _ R P (B1 Hi)) as (ts & F & L & C).
      exists (sub i j :: ts). split; [constructor; [now apply den_lang|exact F]|split; [cbn; now rewrite L|]].
      cbn [concat]. rewrite C. symmetry. apply sub_app; auto.
Qed.
End L.

(* a counted repetition of one character class, as a string *)
Lemma lang_rep_chr g cs lo hi t : lang (Rep g (Chr cs) lo hi) t ->
  Forall (fun x => in_cset x cs = true) t /\ lo <= length t /\ (forall h, hi = Some h -> lo <= h -> length t <= h).
Proof.
  intro H. inversion H as [| | | | |g' a' lo' hi' ts F L B|]; subst.
  assert (E : Forall (fun x => in_cset x cs = true) (concat ts) /\ length (concat ts) = length ts).
  { clear L B H. induction F as [|t ts Ht F IH]; cbn [concat length]; [split; [constructor|reflexivity]|].
    inversion Ht; subst. destruct IH as [I1 I2]. split; [constructor; assumption|cbn; now rewrite I2]. }
  destruct E as [E1 E2]. rewrite E2. auto.
Qed.
