(* What sub does to a string, for every non-nullable regex and every (stateful) callback:
   the output is the input with exactly the spans found by finditer replaced by the callback's results, in order. *)
From Coq Require Import List Bool Arith Lia NArith.
Import ListNotations.
Require Import Rx RxFacts RxSub.

Section F.
Variable s : list chr.

Fixpoint sub_reps {St : Type} (fuel : nat) (r : re) (cb : St -> nat -> nat -> caps -> St * list chr) (st : St) (i : nat) : list (list chr) :=
  match fuel with
  | O => []
  | S fuel' =>
      match search_from s (slen s - i) r i with
      | None => []
      | Some (a, b, c) => let '(st1, rep) := cb st a b c in rep :: sub_reps fuel' r cb st1 b
      end
  end.

Theorem sub_loop_is_stitch {St : Type} (r : re) (cb : St -> nat -> nat -> caps -> St * list chr) :
  nullable r = false ->
  forall fuel st i, snd (sub_loop s fuel r cb st i) = stitch s i (finditer s fuel r i) (sub_reps fuel r cb st i).
Proof.
  intros Hn. induction fuel as [|fuel IH]; intros st i; cbn [sub_loop finditer sub_reps stitch snd]; [reflexivity|].
  destruct (search_from s (slen s - i) r i) as [[[a b] c]|] eqn:E; [|reflexivity].
  pose proof E as E'. apply search_from_ge in E' as [L M]. apply match_at_in in M. destruct (ms_mono _ _ _ _ _ _ M) as [_ S]. specialize (S Hn).
  replace (Nat.eqb a b) with false by (symmetry; apply Nat.eqb_neq; lia).
  destruct (cb st a b c) as [st1 rep] eqn:Ecb. specialize (IH st1 b).
  destruct (sub_loop s fuel r cb st1 b) as [st2 rest] eqn:Es. cbn [snd] in *. cbn [stitch]. now rewrite IH.
Qed.

Theorem sub_reps_length {St : Type} (r : re) (cb : St -> nat -> nat -> caps -> St * list chr) :
  nullable r = false -> forall fuel st i, length (sub_reps fuel r cb st i) = length (finditer s fuel r i).
Proof.
  intros Hn. induction fuel as [|fuel IH]; intros st i; cbn [finditer sub_reps]; [reflexivity|].
  destruct (search_from s (slen s - i) r i) as [[[a b] c]|] eqn:E; [|reflexivity].
  pose proof E as E'. apply search_from_ge in E' as [L M]. apply match_at_in in M. destruct (ms_mono _ _ _ _ _ _ M) as [_ S]. specialize (S Hn).
  replace (Nat.eqb a b) with false by (symmetry; apply Nat.eqb_neq; lia).
  destruct (cb st a b c) as [st1 rep]. cbn [length]. f_equal. apply IH.
Qed.

(* no match at all: the string comes back unchanged *)
Corollary sub_no_match_is_identity {St : Type} (r : re) (cb : St -> nat -> nat -> caps -> St * list chr) (st : St) :
  search s r = None -> sub_fn s r cb st = (if nullable r then None else Some (st, s)).
Proof.
  unfold search, sub_fn. intros E. destruct (nullable r); [reflexivity|]. cbn [sub_loop]. rewrite Nat.sub_0_r, E. reflexivity.
Qed.
End F.
Print Assumptions sub_loop_is_stitch.
