(* C08 at the typed level: the pseudonym allocator over all request histories.
   Keys are secrets after stripping enclosing text; a $9$ secret is keyed by its plaintext.
   "core" of a replacement = the replacement itself, or its decryption for $9$. *)
From Coq Require Import List Bool Arith Lia.
Import ListNotations.

Section A.
Variable key : Type.
Variable keq : key -> key -> bool.
Hypothesis keq_spec : forall a b, keq a b = true <-> a = b.
Variable val : Type.                       (* replacement strings *)
Variable cls : Type.                       (* format classes *)
Variable T : cls -> nat -> val.            (* T c n = re-encoding for class c of "netconanRemoved<n>" *)
Variable Tjun : nat -> val.                (* what is stored for a $9$ secret: decrypt(encrypt(anon n)) = anon n *)
(* pseudonyms with different numbers never coincide, whatever their classes *)
Hypothesis T_sep : forall c1 c2 n1 n2, T c1 n1 = T c2 n2 -> n1 = n2.
Hypothesis TJ_sep : forall c n1 n2, T c n1 = Tjun n2 -> n1 = n2.
Hypothesis J_sep : forall n1 n2, Tjun n1 = Tjun n2 -> n1 = n2.

Inductive req := Clear (k:key) (c:cls) | Jun (plain:key).
Definition req_key (r:req) : key := match r with Clear k _ => k | Jun p => p end.

Definition lookup := list (key * val).
Fixpoint get (L:lookup) (k:key) : option val :=
  match L with [] => None | (k',v)::r => if keq k k' then Some v else get r k end.

(* one call of _anonymize_value: returns the new lookup and the core of the replacement *)
Definition step (L:lookup) (r:req) : lookup * val :=
  match get L (req_key r) with
  | Some v => (L, v)
  | None => let v := match r with Clear _ c => T c (length L) | Jun _ => Tjun (length L) end in
            (L ++ [(req_key r, v)], v)
  end.
Fixpoint run (L:lookup) (rs:list req) : lookup * list val :=
  match rs with [] => (L, []) | r :: rest => let '(L1, v) := step L r in let '(L2, vs) := run L1 rest in (L2, v :: vs) end.

(* invariant: the i-th entry carries pseudonym number i; keys are distinct *)
Definition numbered (v:val) (n:nat) : Prop := (exists c, v = T c n) \/ v = Tjun n.
Fixpoint Inv_from (base:nat) (L:lookup) : Prop :=
  match L with [] => True | (k,v)::r => numbered v base /\ get r k = None /\ Inv_from (S base) r end.
Definition Inv (L:lookup) := Inv_from 0 L.

Lemma numbered_sep v n1 n2 : numbered v n1 -> numbered v n2 -> n1 = n2.
Proof. intros [[c1 E1]|E1] [[c2 E2]|E2]; subst.
  - eapply T_sep; eauto. - eapply TJ_sep; eauto. - symmetry. eapply TJ_sep; eauto. - eapply J_sep; eauto. Qed.

Lemma keq_refl k : keq k k = true. Proof. now apply keq_spec. Qed.
Lemma get_app_none L k e : get L k = None -> get (L ++ [e]) k = if keq k (fst e) then Some (snd e) else None.
Proof. induction L as [|[k0 v0] L IH]; simpl; destruct e; auto. destruct (keq k k0); [discriminate|auto]. Qed.
Lemma get_app_some L k v e : get L k = Some v -> get (L ++ [e]) k = Some v.
Proof. induction L as [|[k0 v0] L IH]; simpl; try discriminate. destruct (keq k k0); auto. Qed.

Lemma Inv_from_app base L k v : Inv_from base L -> get L k = None -> numbered v (base + length L) -> Inv_from base (L ++ [(k,v)]).
Proof.
  revert base; induction L as [|[k0 v0] L IH]; intros base I G N; simpl in *.
  - rewrite Nat.add_0_r in N. auto.
  - destruct I as (N0 & G0 & I). destruct (keq k k0) eqn:E; [discriminate|]. repeat split; auto.
    + rewrite get_app_none by exact G0. simpl. destruct (keq k0 k) eqn:E2; auto. apply keq_spec in E2. subst. rewrite keq_refl in E. discriminate.
    + apply IH; auto. replace (S base + length L) with (base + S (length L)) by lia. exact N.
Qed.

Lemma step_inv L r : Inv L -> Inv (fst (step L r)).
Proof. intros I. unfold step. destruct (get L (req_key r)) eqn:G; simpl; auto.
  apply Inv_from_app; auto. destruct r; [left; eauto|right; auto]. Qed.

(* position of a key's entry *)
Lemma get_numbered base L k v : Inv_from base L -> get L k = Some v -> exists i, base <= i < base + length L /\ numbered v i.
Proof. revert base; induction L as [|[k0 v0] L IH]; intros base I G; simpl in *; [discriminate|].
  destruct I as (N0 & G0 & I). destruct (keq k k0).
  - injection G as <-. exists base. split; [lia|auto].
  - destruct (IH _ I G) as (i & Hi & N). exists i. split; [lia|auto]. Qed.

(* different keys hold different values *)
Lemma get_inj base L k1 k2 v : Inv_from base L -> get L k1 = Some v -> get L k2 = Some v -> k1 = k2.
Proof. revert base; induction L as [|[k0 v0] L IH]; intros base I G1 G2; simpl in *; [discriminate|].
  destruct I as (N0 & G0 & I). destruct (keq k1 k0) eqn:E1; destruct (keq k2 k0) eqn:E2.
  - apply keq_spec in E1, E2. congruence.
  - injection G1 as <-. destruct (get_numbered _ _ _ _ I G2) as (i & Hi & N). pose proof (numbered_sep _ _ _ N0 N). lia.
  - injection G2 as <-. destruct (get_numbered _ _ _ _ I G1) as (i & Hi & N). pose proof (numbered_sep _ _ _ N0 N). lia.
  - eapply IH; eauto. Qed.

(* the lookup only grows, and what a key maps to never changes *)
Lemma step_stable L r k v : get L k = Some v -> get (fst (step L r)) k = Some v.
Proof. intros G. unfold step. destruct (get L (req_key r)); simpl; auto. now apply get_app_some. Qed.
Lemma step_binds L r : Inv L -> get (fst (step L r)) (req_key r) = Some (snd (step L r)).
Proof. intros I. unfold step. destruct (get L (req_key r)) eqn:G; simpl; auto.
  rewrite get_app_none by exact G. simpl. now rewrite keq_refl. Qed.

Lemma run_spec : forall rs L, Inv L -> let '(L', vs) := run L rs in
  Inv L' /\ (forall k v, get L k = Some v -> get L' k = Some v) /\ Forall2 (fun r v => get L' (req_key r) = Some v) rs vs.
Proof.
  induction rs as [|r rs IH]; intros L I; simpl.
  - repeat split; auto.
  - destruct (step L r) as [L1 v] eqn:Es. pose proof (step_inv L r I) as I1. rewrite Es in I1. simpl in I1.
    specialize (IH L1 I1). destruct (run L1 rs) as [L2 vs]. destruct IH as (I2 & M & F). repeat split; auto.
    + intros k v0 G. apply M. pose proof (step_stable L r k v0 G) as S. rewrite Es in S. exact S.
    + constructor; auto. apply M. pose proof (step_binds L r I) as B. rewrite Es in B. exact B.
Qed.

(* C08: over any history starting from the empty lookup, equal secrets <-> equal replacement cores *)
Theorem consistent_and_collision_free : forall rs vs L',
  run [] rs = (L', vs) ->
  forall i j ri rj vi vj, nth_error rs i = Some ri -> nth_error rs j = Some rj -> nth_error vs i = Some vi -> nth_error vs j = Some vj ->
  (req_key ri = req_key rj <-> vi = vj).
Proof.
  intros rs vs L' E i j ri rj vi vj Hri Hrj Hvi Hvj.
  pose proof (run_spec rs [] Logic.I) as S. rewrite E in S. destruct S as (I' & _ & F).
  assert (Gi : get L' (req_key ri) = Some vi).
  { clear -F Hri Hvi. revert i Hri Hvi. induction F; intros [|i] Hr Hv; simpl in *; try discriminate; [congruence|eauto]. }
  assert (Gj : get L' (req_key rj) = Some vj).
  { clear -F Hrj Hvj. revert j Hrj Hvj. induction F; intros [|j] Hr Hv; simpl in *; try discriminate; [congruence|eauto]. }
  split.
  - intros Ek. rewrite Ek in Gi. congruence.
  - intros Ev. subst vj. eapply get_inj; eauto.
Qed.

(* C07, value level: renaming the secrets injectively (keeping their classes) does not change any output *)
Variable rho : key -> key.
Hypothesis rho_inj : forall a b, rho a = rho b -> a = b.
Definition ren (r:req) : req := match r with Clear k c => Clear (rho k) c | Jun p => Jun (rho p) end.
Definition renL (L:lookup) : lookup := map (fun e => (rho (fst e), snd e)) L.

Lemma get_ren L k : get (renL L) (rho k) = get L k.
Proof. induction L as [|[k0 v0] L IH]; simpl; auto.
  destruct (keq k k0) eqn:E.
  - apply keq_spec in E. subst. now rewrite keq_refl.
  - destruct (keq (rho k) (rho k0)) eqn:E2; auto. apply keq_spec in E2. apply rho_inj in E2. subst. rewrite keq_refl in E. discriminate. Qed.
Lemma req_key_ren r : req_key (ren r) = rho (req_key r). Proof. destruct r; reflexivity. Qed.

Lemma step_ren L r : step (renL L) (ren r) = (renL (fst (step L r)), snd (step L r)).
Proof. unfold step. rewrite req_key_ren, get_ren. destruct (get L (req_key r)); simpl; auto.
  unfold renL. rewrite map_length, map_app. simpl. destruct r; reflexivity. Qed.

Theorem outputs_independent_of_secret_content : forall rs L,
  snd (run (renL L) (map ren rs)) = snd (run L rs).
Proof.
  induction rs as [|r rs IH]; intros L; simpl; auto.
  rewrite step_ren. destruct (step L r) as [L1 v]. simpl. specialize (IH L1).
  destruct (run (renL L1) (map ren rs)) as [L2 vs]. destruct (run L1 rs) as [L2' vs']. simpl in *. now rewrite IH.
Qed.
End A.
Print Assumptions consistent_and_collision_free.
Print Assumptions outputs_independent_of_secret_content.
