(* C01 / C04 on the full mapping AB (walk the first m bits, keep the rest), for ANY flip function f *)
From Coq Require Import List Bool Arith Lia.
Import ListNotations.
Require Import PPCore.

Section S.
Variable f : list bool -> bool.
Variable m : nat.
Definition AB (x:list bool) := anon f (firstn m x) ++ skipn m x.

Lemma lcp_app_same (p a b : list bool) : lcp (p ++ a) (p ++ b) = length p + lcp a b.
Proof. induction p; simpl; auto. rewrite Bool.eqb_reflx. lia. Qed.
Lemma lcp_le_l a b : lcp a b <= length a.
Proof. revert b; induction a as [|x a IH]; intros [|y b]; simpl; try lia. destruct (Bool.eqb x y); [specialize (IH b)|]; lia. Qed.
Lemma lcp_sym a b : lcp a b = lcp b a.
Proof. revert b; induction a as [|x a IH]; intros [|y b]; simpl; auto. rewrite IH. destruct x, y; reflexivity. Qed.
Lemma lcp_firstn_skipn k a b : length a = length b ->
  lcp a b = if Nat.ltb (lcp (firstn k a) (firstn k b)) (Nat.min k (length a)) then lcp (firstn k a) (firstn k b)
            else Nat.min k (length a) + lcp (skipn k a) (skipn k b).
Proof.
  revert a b; induction k as [|k IH]; intros [|x a] [|y b] L; simpl in *; try discriminate; auto.
  injection L as L. destruct (Bool.eqb x y); auto. rewrite (IH a b L).
  destruct (Nat.ltb (lcp (firstn k a) (firstn k b)) (Nat.min k (length a))) eqn:E.
  - apply Nat.ltb_lt in E. replace (Nat.ltb (S _) (S _)) with true by (symmetry; apply Nat.ltb_lt; lia). reflexivity.
  - apply Nat.ltb_ge in E. replace (Nat.ltb (S _) (S _)) with false by (symmetry; apply Nat.ltb_ge; lia). reflexivity.
Qed.

Lemma anon_len x : length (anon f x) = length x. Proof. apply anon_length. Qed.

Lemma firstn_AB x : firstn m (AB x) = anon f (firstn m x).
Proof. unfold AB. assert (L : length (anon f (firstn m x)) <= m) by (rewrite anon_len, firstn_length; lia).
  rewrite firstn_app. rewrite (firstn_all2 (anon f (firstn m x))) by lia.
  destruct (Nat.le_gt_cases m (length x)).
  - rewrite anon_len, firstn_length, Nat.min_l, Nat.sub_diag by lia. simpl. now rewrite app_nil_r.
  - rewrite (skipn_all2 x) by lia. rewrite firstn_nil. now rewrite app_nil_r. Qed.
Lemma skipn_AB x : skipn m (AB x) = skipn m x.
Proof. unfold AB. destruct (Nat.le_gt_cases m (length x)).
  - rewrite skipn_app, anon_len, firstn_length, Nat.min_l, Nat.sub_diag by lia. simpl.
    rewrite skipn_all2 by (rewrite anon_len, firstn_length; lia). reflexivity.
  - rewrite (skipn_all2 x) by lia. rewrite app_nil_r. apply skipn_all2. rewrite anon_len, firstn_length. lia. Qed.
Lemma AB_len x : length (AB x) = length x.
Proof. unfold AB. rewrite app_length, anon_len. rewrite <- (firstn_skipn m x) at 3. now rewrite app_length. Qed.

(* C01: exactly k common leading bits before <-> exactly k after; any f, any split point *)
Theorem AB_lcp a b : length a = length b -> lcp (AB a) (AB b) = lcp a b.
Proof.
  intros L. rewrite (lcp_firstn_skipn m (AB a) (AB b)) by (rewrite !AB_len; exact L).
  rewrite (lcp_firstn_skipn m a b L). rewrite !firstn_AB, !skipn_AB, AB_len. rewrite lcp_anon. reflexivity.
Qed.

Lemma lcp_self a : lcp a a = length a.
Proof. induction a; simpl; auto. now rewrite Bool.eqb_reflx, IHa. Qed.
Lemma lcp_full_eq a b : length a = length b -> lcp a b = length a -> a = b.
Proof. revert b; induction a as [|x a IH]; intros [|y b] L E; simpl in *; try discriminate; auto.
  destruct (Bool.eqb x y) eqn:Exy; [|discriminate]. apply Bool.eqb_prop in Exy. subst. f_equal. apply IH; lia. Qed.

Corollary AB_inj a b : length a = length b -> AB a = AB b -> a = b.
Proof.
  intros L E. apply lcp_full_eq; auto. rewrite <- (AB_lcp a b L), E, lcp_self. rewrite AB_len. lia.
Qed.
End S.
Print Assumptions AB_lcp.
