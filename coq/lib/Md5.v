From Coq Require Import List NArith Lia.
Import ListNotations.
Local Open Scope N_scope.
Definition M32 := 4294967296.
Definition w (x:N) := x mod M32.
Definition rotl (x:N) (c:N) := w (N.lor (N.shiftl x c) (N.shiftr x (32 - c))).
Definition notw (x:N) := 4294967295 - x.
Definition Ks : list N := [3614090360;3905402710;606105819;3250441966;4118548399;1200080426;2821735955;4249261313;1770035416;2336552879;4294925233;2304563134;1804603682;4254626195;2792965006;1236535329;4129170786;3225465664;643717713;3921069994;3593408605;38016083;3634488961;3889429448;568446438;3275163606;4107603335;1163531501;2850285829;4243563512;1735328473;2368359562;4294588738;2272392833;1839030562;4259657740;2763975236;1272893353;4139469664;3200236656;681279174;3936430074;3572445317;76029189;3654602809;3873151461;530742520;3299628645;4096336452;1126891415;2878612391;4237533241;1700485571;2399980690;4293915773;2240044497;1873313359;4264355552;2734768916;1309151649;4149444226;3174756917;718787259;3951481745].
Definition Ss : list N := [7;12;17;22;7;12;17;22;7;12;17;22;7;12;17;22;5;9;14;20;5;9;14;20;5;9;14;20;5;9;14;20;4;11;16;23;4;11;16;23;4;11;16;23;4;11;16;23;6;10;15;21;6;10;15;21;6;10;15;21;6;10;15;21].
Definition nthN (l:list N) (i:nat) := nth i l 0.
(* bytes -> padded list of bytes *)
Definition le_bytes (n:nat) (x:N) : list N := map (fun i => N.land (N.shiftr x (8 * N.of_nat i)) 255) (seq 0 n).
Definition pad (msg:list N) : list N :=
  let len := N.of_nat (length msg) in
  let zeros := N.to_nat ((119 - (len mod 64)) mod 64) in
  msg ++ [128] ++ repeat 0 zeros ++ le_bytes 8 (8*len).
Fixpoint words (fuel:nat) (bs:list N) : list N :=
  match fuel with O => [] | S f =>
  match bs with a::b::c::d::r => (a + 256*b + 65536*c + 16777216*d) :: words f r | _ => [] end end.
Fixpoint chunks (fuel:nat) (ws:list N) : list (list N) :=
  match fuel with O => [] | S f => match ws with [] => [] | _ => firstn 16 ws :: chunks f (skipn 16 ws) end end.
Definition step (m:list N) (st:N*N*N*N) (i:nat) : N*N*N*N :=
  let '(a,b,c,d) := st in
  let '(f,g) := match Nat.div i 16 with
    | 0%nat => (N.lor (N.land b c) (N.land (notw b) d), i)
    | 1%nat => (N.lor (N.land d b) (N.land (notw d) c), Nat.modulo (5*i+1) 16)
    | 2%nat => (N.lxor b (N.lxor c d), Nat.modulo (3*i+5) 16)
    | _ => (N.lxor c (N.lor b (notw d)), Nat.modulo (7*i) 16) end in
  let f2 := w (f + a + nthN Ks i + nthN m g) in
  (d, w (b + rotl f2 (nthN Ss i)), b, c).
Definition block (st:N*N*N*N) (m:list N) :=
  let '(a0,b0,c0,d0) := st in
  let '(a,b,c,d) := fold_left (step m) (seq 0 64) st in
  (w (a0+a), w (b0+b), w (c0+c), w (d0+d)).
Definition md5 (msg:list N) : list N :=
  let p := pad msg in
  let ws := words (length p) p in
  let '(a,b,c,d) := fold_left block (chunks (length ws) ws) (1732584193, 4023233417, 2562383102, 271733878) in
  le_bytes 4 a ++ le_bytes 4 b ++ le_bytes 4 c ++ le_bytes 4 d.




