(* search / sub with a stateful callback on top of the regex engine (Python's pattern.search, pattern.sub(fn, s)).
   Only non-nullable patterns are supported by sub (None otherwise): every match is non-empty, so the scan
   resumes at the end of the match exactly as CPython does. *)
From Coq Require Import List Bool Arith Lia NArith.
Import ListNotations.
Require Import Rx RxFacts.

Section S.
Variable s : list chr.

Definition substr (i j : nat) : list chr := firstn (j - i) (skipn i s).

(* pattern.search(s): leftmost start, first alternative in priority order *)
Definition search (r : re) : option (nat * nat * caps) := search_from s (slen s) r 0.
(* re.match(pattern, s): anchored at 0 *)
Definition match_start (r : re) : option (nat * caps) := match_at s r 0.

(* match.group(n): group 0 is the whole match; None when the group did not participate *)
Fixpoint cap_lookup (c : caps) (n : nat) : option (nat * nat) :=
  match c with [] => None | (k, span) :: r => if Nat.eqb k n then Some span else cap_lookup r n end.
Definition group (a b : nat) (c : caps) (n : nat) : option (list chr) :=
  match n with
  | O => Some (substr a b)
  | _ => match cap_lookup c n with Some (x, y) => Some (substr x y) | None => None end
  end.

Fixpoint sub_loop {St : Type} (fuel : nat) (r : re) (cb : St -> nat -> nat -> caps -> St * list chr) (st : St) (i : nat)
  : St * list chr :=
  match fuel with
  | O => (st, skipn i s)
  | S fuel' =>
      match search_from s (slen s - i) r i with
      | None => (st, skipn i s)
      | Some (a, b, c) =>
          let '(st1, rep) := cb st a b c in
          let '(st2, rest) := sub_loop fuel' r cb st1 b in
          (st2, substr i a ++ rep ++ rest)
      end
  end.
Definition sub_fn {St : Type} (r : re) (cb : St -> nat -> nat -> caps -> St * list chr) (st : St) : option (St * list chr) :=
  if nullable r then None else Some (sub_loop (S (slen s)) r cb st 0).

(* the spans sub replaces are exactly finditer's, the text between them is copied *)
Fixpoint stitch (i : nat) (spans : list (nat * nat)) (reps : list (list chr)) : list chr :=
  match spans, reps with
  | (a, b) :: sp, rep :: rp => substr i a ++ rep ++ stitch b sp rp
  | _, _ => skipn i s
  end.
End S.
