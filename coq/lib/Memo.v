From Coq Require Import List Bool Arith Lia.
Import ListNotations.
Require Import PPCore.

Definition bits := list bool.
Fixpoint beq (a b : bits) : bool :=
  match a, b with [], [] => true | x::a', y::b' => Bool.eqb x y && beq a' b' | _, _ => false end.
Lemma beq_eq a b : beq a b = true <-> a = b.
Proof.
  revert b; induction a as [|x a IH]; intros [|y b]; simpl; split; intros H; try congruence; auto.
  - apply andb_true_iff in H as [H1 H2]. apply Bool.eqb_prop in H1. apply IH in H2. congruence.
  - inversion H; subst. rewrite Bool.eqb_reflx. simpl. apply IH; auto.
Qed.
Lemma beq_refl a : beq a a = true. Proof. apply beq_eq; auto. Qed.
Lemma beq_neq a b : a <> b -> beq a b = false.
Proof. intros. destruct (beq a b) eqn:E; auto. apply beq_eq in E. contradiction. Qed.

(* ---- bidict model ---- *)
Definition bidict := list (bits * bits).
Fixpoint bget (d:bidict) (k:bits) : option bits :=
  match d with [] => None | (k',v)::r => if beq k k' then Some v else bget r k end.
Fixpoint binv (d:bidict) (v:bits) : option bits :=
  match d with [] => None | (k,v')::r => if beq v v' then Some k else binv r v end.
Inductive res (A:Type) := Ok (a:A) | Err.
Arguments Ok {A}. Arguments Err {A}.
Definition bput (d:bidict) (k v:bits) : res bidict :=
  match bget d k, binv d v with
  | Some v', Some k' => if beq v v' && beq k k' then Ok d else Err
  | None, None => Ok (d ++ [(k,v)])
  | _, _ => Err   (* value duplication raises; key overwrite never needed: flagged as Err here (stricter) *)
  end.

Section SM.
Variable H : bits -> bool.          (* salter(salt, .) *)
Variable n : nat.                   (* address width *)
Variable B : nat.                   (* preserve_suffix *)
Variable seeds : list bits.         (* preserved prefixes, as bit strings *)
Let m := n - B.

(* the code: memoised walks *)
Fixpoint g_anon (fuel:nat) (d:bidict) (b:bits) : res (bidict * bits) :=
  match fuel with O => Err | S fuel =>
  match bget d b with
  | Some r => Ok (d, r)
  | None =>
    match rev b with
    | [] => Err
    | last :: rh =>
      let head := rev rh in
      match g_anon fuel d head with
      | Err => Err
      | Ok (d', r) => let ret := r ++ [xorb (H head) last] in
                      match bput d' b ret with Err => Err | Ok d'' => Ok (d'', ret) end
      end end end end.
Fixpoint g_deanon (fuel:nat) (d:bidict) (b:bits) : res (bidict * bits) :=
  match fuel with O => Err | S fuel =>
  match binv d b with
  | Some r => Ok (d, r)
  | None =>
    match rev b with
    | [] => Err
    | last :: rh =>
      let head := rev rh in
      match g_deanon fuel d head with
      | Err => Err
      | Ok (d', oh) => let ret := oh ++ [xorb (H oh) last] in
                       match bput d' ret b with Err => Err | Ok d'' => Ok (d'', ret) end
      end end end end.

Definition anonymize (d:bidict) (x:bits) : res (bidict * bits) :=
  if Nat.eqb B 0 then g_anon (S (length x)) d x
  else match g_anon (S (length x)) d (firstn m x) with
       | Err => Err
       | Ok (d', r) => let y := r ++ skipn m x in
                       match bput d' x y with Err => Err | Ok d'' => Ok (d'', y) end end.
Definition deanonymize (d:bidict) (y:bits) : res (bidict * bits) :=
  if Nat.eqb B 0 then g_deanon (S (length y)) d y
  else match g_deanon (S (length y)) d (firstn m y) with
       | Err => Err
       | Ok (d', r) => Ok (d', r ++ skipn m y) end.

(* seeding loop of IpAnonymizer.__init__ *)
Fixpoint seed_one (fuel:nat) (d:bidict) (P:bits) (pos:nat) : res bidict :=
  match fuel with O => Ok d | S fuel =>
    let v := firstn pos P in
    match bput d (v ++ [false]) (v ++ [false]) with Err => Err | Ok d1 =>
    match bput d1 (v ++ [true]) (v ++ [true]) with Err => Err | Ok d2 => seed_one fuel d2 P (S pos) end end end.
Fixpoint seed_all (d:bidict) (Ps:list bits) : res bidict :=
  match Ps with [] => Ok d | P :: r => match seed_one (length P) d P 0 with Err => Err | Ok d' => seed_all d' r end end.
Definition init : res bidict := seed_all [([],[])] seeds.

(* ---- the pure function ---- *)
Fixpoint is_prefix (p x : bits) : bool :=
  match p, x with [] , _ => true | a::p', b::x' => Bool.eqb a b && is_prefix p' x' | _, _ => false end.
Definition pinned (h:bits) : bool := existsb (fun P => is_prefix h P && Nat.ltb (length h) (length P)) seeds.
Definition f (h:bits) : bool := if pinned h then false else H h.
Definition A := anon f.
Definition D := deanon f.
Definition A' (k:bits) : bits := A (firstn m k) ++ skipn m k.
End SM.
