From Coq Require Import NArith PArith ZArith List Bool Lia ZifyBool ZifyN.
Import ListNotations.
Ltac Zify.zify_post_hook ::= Z.to_euclidean_division_equations.
Local Open Scope N_scope.

Definition is_mask (x:N) : bool :=
  let diff := N.land (N.lxor x (N.shiftr x 1)) 2147483647 in
  N.eqb (N.land diff (N.lxor 4294967295 diff + 1)) diff.

(* land on even/odd decompositions *)
Lemma land_dd a b : N.land (2*a) (2*b) = 2 * N.land a b.
Proof. destruct a as [|p], b as [|q]; try reflexivity; cbn; destruct (Pos.land p q); reflexivity. Qed.
Lemma land_oo a b : N.land (2*a+1) (2*b+1) = 2 * N.land a b + 1.
Proof. destruct a as [|p], b as [|q]; try reflexivity; cbn; destruct (Pos.land p q); reflexivity. Qed.
Lemma land_do a b : N.land (2*a) (2*b+1) = 2 * N.land a b.
Proof. destruct a as [|p], b as [|q]; try reflexivity; cbn; destruct (Pos.land p q); reflexivity. Qed.
Lemma land_od a b : N.land (2*a+1) (2*b) = 2 * N.land a b.
Proof. destruct a as [|p], b as [|q]; try reflexivity; cbn; destruct (Pos.land p q); reflexivity. Qed.

Lemma land_compl (m:nat) : forall a b, a + b + 1 = 2^(N.of_nat m) -> N.land a b = 0.
Proof.
  induction m as [|m IH]; intros a b E.
  - simpl in E. assert (a = 0) by lia. subst. reflexivity.
  - rewrite Nat2N.inj_succ, N.pow_succ_r' in E.
    set (T := 2^N.of_nat m) in *.
    assert (Ha : a = 2*(a/2) + a mod 2) by (apply N.div_mod; lia).
    assert (Hb : b = 2*(b/2) + b mod 2) by (apply N.div_mod; lia).
    assert (Hma : a mod 2 < 2) by (apply N.mod_upper_bound; lia).
    assert (Hmb : b mod 2 < 2) by (apply N.mod_upper_bound; lia).
    assert (Hs : a/2 + b/2 + 1 = T) by lia.
    specialize (IH _ _ Hs).
    assert (Hx : (a mod 2 = 0 /\ b mod 2 = 1) \/ (a mod 2 = 1 /\ b mod 2 = 0)) by lia.
    rewrite Ha, Hb. destruct Hx as [[-> ->]|[-> ->]]; rewrite ?N.add_0_r.
    + rewrite land_do, IH. reflexivity.
    + rewrite land_od, IH. reflexivity.
Qed.

Fixpoint lowbit (p:positive) : positive := match p with xO p' => xO (lowbit p') | _ => xH end.

Lemma land_neg_lowbit : forall p (n:nat), Npos p < 2^(N.of_nat n) -> N.land (Npos p) (2^(N.of_nat n) - Npos p) = Npos (lowbit p).
Proof.
  induction p as [p IH|p IH|]; intros n Hlt.
  - (* odd: 2p+1 *) destruct n as [|n]. { simpl in Hlt. lia. }
    rewrite Nat2N.inj_succ, N.pow_succ_r' in *. set (T := 2^N.of_nat n) in *.
    replace (N.pos p~1) with (2 * N.pos p + 1) in * by reflexivity.
    replace (2*T - (2*N.pos p + 1)) with (2*(T - N.pos p - 1) + 1) by lia.
    rewrite land_oo. rewrite (land_compl n) by (subst T; lia). reflexivity.
  - destruct n as [|n]. { simpl in Hlt. lia. }
    rewrite Nat2N.inj_succ, N.pow_succ_r' in *. set (T := 2^N.of_nat n) in *.
    replace (N.pos p~0) with (2 * N.pos p) in * by reflexivity.
    replace (2*T - 2*N.pos p) with (2*(T - N.pos p)) by lia.
    rewrite land_dd. subst T. rewrite IH by lia. reflexivity.
  - destruct n as [|n]. { simpl in Hlt. lia. }
    rewrite Nat2N.inj_succ, N.pow_succ_r' in *. set (T := 2^N.of_nat n) in *.
    assert (T > 0) by (unfold T; apply N.lt_gt, N.neq_0_lt_0, N.pow_nonzero; lia).
    replace (2*T - 1) with (2*(T-1)+1) by lia. change 1 with (2*0+1) at 1. rewrite land_oo. reflexivity.
Qed.

(* a positive equals its lowbit iff it is a power of two *)
Lemma lowbit_eq_pow2 p : lowbit p = p <-> exists k:nat, Npos p = 2^(N.of_nat k).
Proof.
  induction p as [p IH|p IH|]; simpl.
  - split; [discriminate|]. intros [k E]. destruct k as [|k]; [simpl in E; lia|].
    rewrite Nat2N.inj_succ, N.pow_succ_r' in E. lia.
  - split.
    + intros E. injection E as E. apply IH in E as [k E]. exists (S k). rewrite Nat2N.inj_succ, N.pow_succ_r'. lia.
    + intros [k E]. destruct k as [|k]; [simpl in E; lia|]. rewrite Nat2N.inj_succ, N.pow_succ_r' in E. f_equal. apply IH. exists k. lia.
  - split; auto. intros _. exists O. reflexivity.
Qed.

Lemma neg32 d : d < 2^32 -> N.lxor 4294967295 d + 1 = 2^32 - d.
Proof.
  intros Hd. destruct (N.eq_dec d 0) as [->|Hnz]; [reflexivity|].
  change 4294967295 with (N.ones 32). rewrite N.lxor_comm. fold (N.lnot d 32).
  rewrite N.lnot_sub_low. 2:{ apply N.log2_lt_pow2; lia. }
  rewrite N.ones_equiv. change (2^32) with 4294967296 in *. lia.
Qed.

Theorem diff_test_spec d : d < 2^31 ->
  (N.eqb (N.land d (N.lxor 4294967295 d + 1)) d = true <-> d = 0 \/ exists k:nat, (k < 31)%nat /\ d = 2^(N.of_nat k)).
Proof.
  intros Hd. assert (Hd32 : d < 2^32) by (change (2^31) with 2147483648 in Hd; change (2^32) with 4294967296; lia).
  rewrite neg32 by exact Hd32. rewrite N.eqb_eq.
  destruct d as [|p]; [split; auto|].
  change (2^32) with (2^(N.of_nat 32)). rewrite land_neg_lowbit by exact Hd32.
  split.
  - intros E. right. injection E as E. apply lowbit_eq_pow2 in E as [k E]. exists k. split; auto.
    destruct (Nat.lt_ge_cases k 31) as [|Hge]; auto. exfalso.
    assert (2^31 <= 2^(N.of_nat k)) by (apply N.pow_le_mono_r; lia). lia.
  - intros [C|[k [_ E]]]; [discriminate|]. f_equal. apply lowbit_eq_pow2. eauto.
Qed.
Print Assumptions diff_test_spec.

(* ---------- from the bit trick to the shape of x ---------- *)
Definition diff_of (x:N) := N.land (N.lxor x (N.shiftr x 1)) 2147483647.
Lemma diff_lt x : diff_of x < 2^31.
Proof. unfold diff_of. change 2147483647 with (N.ones 31). rewrite N.land_ones. apply N.mod_upper_bound. discriminate. Qed.
Lemma diff_bit x i : i < 31 -> N.testbit (diff_of x) i = xorb (N.testbit x i) (N.testbit x (i+1)).
Proof. intros Hi. unfold diff_of. change 2147483647 with (N.ones 31).
  rewrite N.land_spec, N.lxor_spec, N.shiftr_spec', N.ones_spec_low by lia. now rewrite andb_true_r. Qed.

(* masks: low (k) ones, or high (32-k) ones *)
Definition low_ones (k:N) := N.ones k.
Definition high_ones (k:N) := N.shiftl (N.ones (32 - k)) k.   (* bits k..31 set *)

Lemma chain_eq (b:N -> bool) lo hi : (forall i, lo <= i < hi -> b i = b (i+1)) -> forall i, lo <= i <= hi -> b i = b lo.
Proof.
  intros H i. induction i as [|i IH] using N.peano_ind; intros Hr.
  - f_equal. lia.
  - destruct (N.eq_dec (N.succ i) lo) as [->|Hne]; auto.
    rewrite <- N.add_1_r. rewrite <- H by lia. apply IH. lia.
Qed.

Theorem is_mask_shape x : x < 2^32 -> is_mask x = true ->
  exists k, k <= 32 /\ (x = low_ones k \/ x = high_ones k).
Proof.
  intros Hx Hm. unfold is_mask in Hm. fold (diff_of x) in Hm. cbv zeta in Hm.
  apply (diff_test_spec _ (diff_lt x)) in Hm.
  assert (Hhi : forall i, 32 <= i -> N.testbit x i = false).
  { intros i Hi. destruct (N.eq_dec x 0) as [->|Hnz]; [apply N.bits_0|]. apply N.bits_above_log2.
    apply N.lt_le_trans with 32; auto. apply N.log2_lt_pow2; lia. }
  destruct Hm as [Hz|[k [Hk Hd]]].
  - (* no transition: all 32 bits equal *)
    assert (Hall : forall i, 0 <= i <= 31 -> N.testbit x i = N.testbit x 0).
    { apply chain_eq. intros i Hi. pose proof (diff_bit x i ltac:(lia)) as E. rewrite Hz, N.bits_0 in E.
      destruct (N.testbit x i), (N.testbit x (i+1)); simpl in E; congruence. }
    destruct (N.testbit x 0) eqn:B0.
    + exists 32. split; [lia|]. left. apply N.bits_inj. intros i. unfold low_ones.
      destruct (N.lt_ge_cases i 32). * rewrite N.ones_spec_low by lia. apply Hall. lia.
      * rewrite N.ones_spec_high by lia. apply Hhi. lia.
    + exists 0. split; [lia|]. left. apply N.bits_inj. intros i. unfold low_ones. rewrite N.bits_0.
      destruct (N.lt_ge_cases i 32). * apply Hall. lia. * apply Hhi. lia.
  - (* one transition between bit k and k+1 *)
    set (K := N.of_nat k) in *. assert (HK : K < 31) by lia.
    assert (Hlow : forall i, 0 <= i <= K -> N.testbit x i = N.testbit x 0).
    { apply chain_eq. intros i Hi. pose proof (diff_bit x i ltac:(lia)) as E. rewrite Hd, N.pow2_bits_false in E by lia.
      destruct (N.testbit x i), (N.testbit x (i+1)); simpl in E; congruence. }
    assert (Hup : forall i, K+1 <= i <= 31 -> N.testbit x i = N.testbit x (K+1)).
    { apply chain_eq. intros i Hi. pose proof (diff_bit x i ltac:(lia)) as E. rewrite Hd, N.pow2_bits_false in E by lia.
      destruct (N.testbit x i), (N.testbit x (i+1)); simpl in E; congruence. }
    pose proof (diff_bit x K ltac:(lia)) as Et. rewrite Hd, N.pow2_bits_true in Et.
    rewrite (Hlow K ltac:(lia)) in Et.
    destruct (N.testbit x 0) eqn:B0; destruct (N.testbit x (K+1)) eqn:B1; simpl in Et; try discriminate.
    + exists (K+1). split; [lia|]. left. apply N.bits_inj. intros i. unfold low_ones.
      destruct (N.lt_ge_cases i (K+1)). * rewrite N.ones_spec_low by lia. apply Hlow. lia.
      * rewrite N.ones_spec_high by lia. destruct (N.lt_ge_cases i 32). -- rewrite Hup by lia; reflexivity. -- apply Hhi. lia.
    + exists (K+1). split; [lia|]. right. apply N.bits_inj. intros i. unfold high_ones.
      destruct (N.lt_ge_cases i (K+1)).
      * rewrite N.shiftl_spec_low by lia. apply Hlow. lia.
      * rewrite N.shiftl_spec_high' by lia. destruct (N.lt_ge_cases i 32).
        -- rewrite N.ones_spec_low by lia. rewrite Hup by lia; reflexivity.
        -- rewrite N.ones_spec_high by lia. apply Hhi. lia.
Qed.
Print Assumptions is_mask_shape.

Lemma masks_accepted : forallb (fun k => is_mask (low_ones (N.of_nat k)) && is_mask (high_ones (N.of_nat k))) (seq 0 33) = true.
Proof. vm_compute. reflexivity. Qed.

Theorem is_mask_spec x : x < 2^32 ->
  (is_mask x = true <-> exists k, k <= 32 /\ (x = low_ones k \/ x = high_ones k)).
Proof.
  intros Hx. split; [apply is_mask_shape; exact Hx|].
  intros [k [Hk Hs]]. pose proof masks_accepted as Hall. rewrite forallb_forall in Hall.
  specialize (Hall (N.to_nat k)). rewrite N2Nat.id in Hall.
  assert (Hin : In (N.to_nat k) (seq 0 33)) by (apply in_seq; lia).
  apply Hall in Hin. apply andb_true_iff in Hin as [H1 H2]. destruct Hs as [->| ->]; assumption.
Qed.
Print Assumptions is_mask_spec.
