(* C10 at the typed level: after leftmost-first substitution of a case-insensitive alternation of literal
   words by hex pseudonyms, no listed word occurs in the output -- for every order of the alternation *)
From Coq Require Import List Bool Arith Lia.
Import ListNotations.

Section W.
Definition chr := nat.
Variable lc : chr -> chr.                       (* case folding used by the matcher *)
Variable hex : chr -> bool.                     (* the pseudonym alphabet, as seen through lc *)
Definition hexish (c:chr) : bool := hex (lc c).
Variable P : list chr -> list chr.              (* pseudonym of a matched text: md5(salt ++ text)[:6] *)
Hypothesis P_len : forall x, length (P x) = 6.
Hypothesis P_hex : forall x, Forall (fun c => hexish c = true) (P x).

Fixpoint ci_prefix (w t : list chr) : bool :=
  match w, t with
  | [], _ => true
  | a :: w', b :: t' => Nat.eqb (lc a) (lc b) && ci_prefix w' t'
  | _ :: _, [] => false
  end.
Definition find_word (ws:list (list chr)) (t:list chr) : option (list chr) := find (fun w => ci_prefix w t) ws.

Fixpoint subst (fuel:nat) (ws:list (list chr)) (t:list chr) : list chr :=
  match fuel with O => t | S fuel =>
  match t with [] => []
  | c :: t' => match find_word ws t with
               | Some w => P (firstn (length w) t) ++ subst fuel ws (skipn (length w) t)
               | None => c :: subst fuel ws t' end
  end end.
Definition anonymize_token ws t := subst (length t) ws t.

(* a listed word: non-empty, first and last character outside the hex alphabet, no run of six hex characters *)
Fixpoint hex_run (n:nat) (w:list chr) : bool :=      (* does w START with n hexish characters? *)
  match n with O => true | S n' => match w with c :: w' => hexish c && hex_run n' w' | [] => false end end.
Fixpoint has_run6 (w:list chr) : bool := match w with [] => false | _ :: w' => hex_run 6 w || has_run6 w' end.
Definition good_word (w:list chr) : Prop :=
  w <> [] /\ hexish (hd 0 w) = false /\ hexish (last w 0) = false /\ has_run6 w = false.

Definition occurs (w out:list chr) : Prop := exists o, ci_prefix w (skipn o out) = true.

(* ---- u: a suffix of a good word: ends outside hex (or is empty) and has no run of six ---- *)
Definition tail_ok (u:list chr) : Prop := (u = [] \/ hexish (last u 0) = false) /\ has_run6 u = false.

Lemma tail_ok_tl a u : tail_ok (a :: u) -> tail_ok u.
Proof. intros [[C|Hl] Hr]; [discriminate|]. split.
  - destruct u; [auto|right; exact Hl].
  - simpl in Hr. apply orb_false_iff in Hr. tauto. Qed.

Lemma ci_prefix_hexrun u p rest : ci_prefix u (p ++ rest) = true -> Forall (fun c => hexish c = true) p ->
  length u <= length p -> Forall (fun c => hexish c = true) u.
Proof. revert p; induction u as [|a u IH]; intros p Hc Hp L; [constructor|].
  destruct p as [|b p]; [simpl in L; lia|]. simpl in Hc. apply andb_true_iff in Hc as [E Hc]. apply Nat.eqb_eq in E.
  inversion Hp; subst. constructor. - unfold hexish in *. now rewrite E. - eapply IH; eauto. simpl in L; lia. Qed.
Lemma last_forall (u:list chr) (Q:chr->Prop) d : u <> [] -> Forall Q u -> Q (last u d).
Proof. induction u as [|a u IH]; intros Hn Hf; [contradiction|]. inversion Hf; subst. destruct u; auto. apply IH; auto. discriminate. Qed.
Lemma hex_run_prefix u p rest : ci_prefix u (p ++ rest) = true -> Forall (fun c => hexish c = true) p -> length p = 6 -> 6 <= length u -> hex_run 6 u = true.
Proof.
  intros Hc Hp L Lu.
  do 6 (destruct p as [|? p]; [simpl in L; lia|]). destruct p; [|simpl in L; lia].
  do 6 (destruct u as [|? u]; [simpl in Lu; lia|]).
  simpl in Hc. repeat (apply andb_true_iff in Hc as [?E Hc]).
  repeat match goal with H : Forall _ (_ :: _) |- _ => inversion H; clear H; subst end.
  repeat match goal with H : Nat.eqb _ _ = true |- _ => apply Nat.eqb_eq in H end.
  simpl. unfold hexish in *. repeat match goal with H : lc _ = lc _ |- _ => rewrite H; clear H end.
  repeat match goal with H : hex _ = true |- _ => rewrite H; clear H end. reflexivity.
Qed.

(* Lemma C: a tail of a good word that prefixes the OUTPUT also prefixes the INPUT *)
Lemma prefix_out_in ws : forall fuel t u, length t <= fuel -> tail_ok u -> ci_prefix u (subst fuel ws t) = true -> ci_prefix u t = true.
Proof.
  induction fuel as [|fuel IH]; intros t u Lf Hu Hc.
  - destruct t; [|simpl in Lf; lia]. exact Hc.
  - destruct t as [|c t']; [exact Hc|]. cbn [subst] in Hc.
    destruct (find_word ws (c :: t')) as [w|] eqn:Ef.
    + (* output starts with a pseudonym: u must be empty *)
      destruct u as [|a u]; [reflexivity|exfalso].
      set (p := P (firstn (length w) (c :: t'))) in *.
      destruct (Nat.le_gt_cases (length (a :: u)) 6) as [Hs|Hl].
      * pose proof (ci_prefix_hexrun _ _ _ Hc (P_hex _) ltac:(unfold p; rewrite P_len; exact Hs)) as Hall.
        destruct Hu as [[C|Hlast] _]; [discriminate|].
        pose proof (last_forall (a :: u) (fun c => hexish c = true) 0 ltac:(discriminate) Hall) as Hx. congruence.
      * pose proof (hex_run_prefix _ _ _ Hc (P_hex _) (P_len _) ltac:(lia)) as Hr.
        destruct Hu as [_ Hno]. simpl in Hno. apply orb_false_iff in Hno as [Hno _]. simpl in Hr. congruence.
    + destruct u as [|a u]; [reflexivity|]. simpl in Hc |- *. apply andb_true_iff in Hc as [E Hc]. rewrite E. simpl.
      apply (IH t' u); auto. simpl in Lf; lia. eapply tail_ok_tl; eauto.
Qed.

Variable ws : list (list chr).
Hypothesis ws_good : forall w, In w ws -> good_word w.

Lemma find_word_in t w : find_word ws t = Some w -> In w ws /\ ci_prefix w t = true.
Proof. unfold find_word. intros E. apply find_some in E. exact E. Qed.
Lemma find_word_some t w : In w ws -> ci_prefix w t = true -> exists w', find_word ws t = Some w'.
Proof. intros Hin Hc. unfold find_word. destruct (find (fun w0 => ci_prefix w0 t) ws) eqn:E; eauto.
  exfalso. pose proof (find_none _ _ E w Hin) as C. simpl in C. congruence. Qed.

(* every suffix of the output is empty, starts inside a pseudonym, or is itself the output for a shorter input *)
Lemma suffix_form : forall fuel t o, length t <= fuel ->
  skipn o (subst fuel ws t) = [] \/
  (exists h rest, skipn o (subst fuel ws t) = h :: rest /\ hexish h = true) \/
  (exists fuel' t', length t' <= fuel' /\ skipn o (subst fuel ws t) = subst fuel' ws t').
Proof.
  induction fuel as [|fuel IH]; intros t o Lf.
  - destruct t; [|simpl in Lf; lia]. left. now rewrite skipn_nil.
  - destruct t as [|c t']; [left; now rewrite skipn_nil|].
    destruct o as [|o]; [right; right; exists (S fuel), (c :: t'); auto|].
    cbn [subst]. destruct (find_word ws (c :: t')) as [w|] eqn:Ef.
    + destruct (find_word_in _ _ Ef) as [Hin Hc]. destruct (ws_good w Hin) as (Hne & _).
      set (p := P (firstn (length w) (c :: t'))). assert (Lp : length p = 6) by apply P_len.
      destruct (Nat.lt_ge_cases (S o) 6) as [Hlt|Hge].
      * right; left. rewrite skipn_app. assert (Ez : S o - length p = 0) by (rewrite Lp; lia). rewrite Ez, skipn_O.
        pose proof (P_hex (firstn (length w) (c :: t'))) as Hh. fold p in Hh.
        assert (Hsk : exists h r, skipn (S o) p = h :: r /\ In h p).
        { clear -Lp Hlt. destruct p as [|p0 [|p1 [|p2 [|p3 [|p4 [|p5 [|p6 p]]]]]]]; simpl in Lp; try lia.
          destruct o as [|[|[|[|[|o]]]]]; try lia; simpl; eexists; eexists; (split; [reflexivity|simpl; tauto]). }
        destruct Hsk as (h & r & E & Hinp). rewrite E. exists h, (r ++ subst fuel ws (skipn (length w) (c :: t'))). split; auto.
        rewrite Forall_forall in Hh. auto.
      * rewrite skipn_app. rewrite (skipn_all2 p) by lia. simpl app. rewrite Lp.
        apply IH. destruct w as [|a w]; [contradiction|]. simpl. rewrite skipn_length. simpl in Lf. lia.
    + simpl skipn. apply IH. simpl in Lf. lia.
Qed.

Lemma good_tail_ok w : good_word w -> tail_ok w.
Proof. intros (Hne & _ & Hl & Hr). split; auto. Qed.

Lemma hexish_ci a b : Nat.eqb (lc a) (lc b) = true -> hexish a = hexish b.
Proof. intros E. apply Nat.eqb_eq in E. unfold hexish. now rewrite E. Qed.

Theorem no_listed_word_survives : forall t w, In w ws -> ~ occurs w (anonymize_token ws t).
Proof.
  intros t w Hin [o Hc]. unfold anonymize_token in Hc.
  destruct (ws_good w Hin) as (Hne & Hfirst & Hlast & Hrun).
  destruct w as [|a w']; [contradiction|]. simpl in Hfirst.
  destruct (suffix_form (length t) t o (le_n _)) as [E|[(h & rest & E & Hh)|(fuel' & t' & Lf & E)]]; rewrite E in Hc.
  - discriminate.
  - simpl in Hc. apply andb_true_iff in Hc as [Hc _]. apply hexish_ci in Hc. congruence.
  - pose proof (prefix_out_in ws fuel' t' (a :: w') Lf (good_tail_ok _ (ws_good _ Hin)) Hc) as Hin_t.
    destruct (find_word_some t' (a :: w') Hin Hin_t) as (w2 & Ef).
    destruct t' as [|c t'']; [discriminate|]. destruct fuel' as [|fuel']; [simpl in Lf; lia|].
    cbn [subst] in Hc. rewrite Ef in Hc.
    pose proof (P_len (firstn (length w2) (c :: t''))) as Lp. pose proof (P_hex (firstn (length w2) (c :: t''))) as Hh.
    destruct (P (firstn (length w2) (c :: t''))) as [|h p]; [simpl in Lp; lia|].
    simpl in Hc. apply andb_true_iff in Hc as [Hc _]. apply hexish_ci in Hc. inversion Hh; subst. congruence.
Qed.
End W.
Print Assumptions no_listed_word_survives.
