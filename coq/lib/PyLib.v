(* spike: dynamic Python values + the primitives needed for netconan/ip_anonymization.py (core classes) *)
From Coq Require Import List ZArith NArith Bool String Lia.
Import ListNotations.
Local Open Scope Z_scope.

Inductive exn := TypeError | IndexError | KeyError | ValueError (msg:list Z) | AttributeError | DuplicationError | OutOfFuel | Unsupported.
Inductive pyval :=
| VNone | VBool (b:bool) | VInt (z:Z) | VStr (s:list Z) | VList (l:list pyval) | VTuple (l:list pyval)
| VDict (d:list (pyval*pyval))
| VBidict (d:list (pyval*pyval)) | VBidictInv (d:list (pyval*pyval))
| VObj (cls:list Z) (fields:list (pyval*pyval))
| VFun (name:list Z)
| VAddr (ver:Z) (a:Z) | VNet (ver:Z) (a:Z) (plen:Z).

Inductive ctl (A:Type) := Normal (a:A) | Ret (v:pyval) | Exc (e:exn) | Brk (a:A) | Cont (a:A).
Arguments Normal {A}. Arguments Ret {A}. Arguments Exc {A}. Arguments Brk {A}. Arguments Cont {A}.
Definition res := ctl pyval.
Definition bind {A B} (m:ctl A) (k:A -> ctl B) : ctl B :=
  match m with Normal a => k a | Ret v => Ret v | Exc e => Exc e | Brk _ | Cont _ => Exc Unsupported end.
(* statement-level bind: break/continue propagate *)
Definition bindS {A} (m:ctl A) (k:A -> ctl A) : ctl A :=
  match m with Normal a => k a | Ret v => Ret v | Exc e => Exc e | Brk a => Brk a | Cont a => Cont a end.
Notation "x <- m ;; k" := (bind m (fun x => k)) (at level 61, m at next level, right associativity).
Notation "x <~ m ;; k" := (bindS m (fun x => k)) (at level 61, m at next level, right associativity).

Definition of_string (s:string) : list Z := map (fun a => Z.of_N (Ascii.N_of_ascii a)) (list_ascii_of_string s).
Definition S_ (s:string) : pyval := VStr (of_string s).

Fixpoint veq (a b:pyval) {struct a} : bool :=
  match a, b with
  | VNone, VNone => true | VBool x, VBool y => Bool.eqb x y | VInt x, VInt y => Z.eqb x y
  | VStr x, VStr y => if list_eq_dec Z.eq_dec x y then true else false
  | VAddr v x, VAddr w y => Z.eqb v w && Z.eqb x y
  | _, _ => false end.
Definition is_none (v:pyval) : bool := match v with VNone => true | _ => false end.
Definition truthy (v:pyval) : bool :=
  match v with VNone => false | VBool b => b | VInt z => negb (Z.eqb z 0) | VStr s => negb (Nat.eqb (List.length s) 0)
  | VList l | VTuple l => negb (Nat.eqb (List.length l) 0) | VDict d | VBidict d | VBidictInv d => negb (Nat.eqb (List.length d) 0)
  | _ => true end.

Definition intop (f:Z->Z->Z) (a b:pyval) : res := match a,b with VInt x, VInt y => Normal (VInt (f x y)) | _,_ => Exc TypeError end.
Definition py_add (a b:pyval) : res :=
  match a, b with VInt x, VInt y => Normal (VInt (x+y)) | VStr x, VStr y => Normal (VStr (x++y))
  | VList x, VList y => Normal (VList (x++y)) | VTuple x, VTuple y => Normal (VTuple (x++y)) | _, _ => Exc TypeError end.
Definition py_sub := intop Z.sub.
Definition py_mul := intop Z.mul.
Definition py_xor := intop Z.lxor.
Definition py_and := intop Z.land.
Definition py_rshift (a b:pyval) : res := match a,b with VInt x, VInt y => if y <? 0 then Exc (ValueError []) else Normal (VInt (Z.shiftr x y)) | _,_ => Exc TypeError end.
Definition py_floordiv a b : res := match a,b with VInt x, VInt y => if Z.eqb y 0 then Exc (ValueError []) else Normal (VInt (x / y)) | _,_ => Exc TypeError end.
Definition py_mod a b : res := match a,b with VInt x, VInt y => if Z.eqb y 0 then Exc (ValueError []) else Normal (VInt (x mod y)) | _,_ => Exc TypeError end.
Definition py_neg a : res := match a with VInt x => Normal (VInt (- x)) | _ => Exc TypeError end.
Definition py_eq a b : res := Normal (VBool (veq a b)).
Definition py_ne a b : res := Normal (VBool (negb (veq a b))).
Definition py_not a : res := Normal (VBool (negb (truthy a))).
Definition py_len a : res := match a with VStr s => Normal (VInt (Z.of_nat (List.length s))) | VList l | VTuple l => Normal (VInt (Z.of_nat (List.length l)))
  | VDict d | VBidict d => Normal (VInt (Z.of_nat (List.length d))) | _ => Exc TypeError end.

Definition norm_idx (n:nat) (i:Z) : option nat :=
  let j := if i <? 0 then i + Z.of_nat n else i in if (j <? 0) || (Z.of_nat n <=? j) then None else Some (Z.to_nat j).
Fixpoint dict_get (d:list (pyval*pyval)) (k:pyval) : option pyval :=
  match d with [] => None | (k',v)::r => if veq k k' then Some v else dict_get r k end.
Fixpoint dict_inv (d:list (pyval*pyval)) (v:pyval) : option pyval :=
  match d with [] => None | (k,v')::r => if veq v v' then Some k else dict_inv r v end.
Fixpoint dict_set (d:list (pyval*pyval)) (k v:pyval) : list (pyval*pyval) :=
  match d with [] => [(k,v)] | (k',v')::r => if veq k k' then (k',v)::r else (k',v')::dict_set r k v end.
Fixpoint dict_del (d:list (pyval*pyval)) (k:pyval) : list (pyval*pyval) :=
  match d with [] => [] | (k',v')::r => if veq k k' then r else (k',v')::dict_del r k end.

Definition py_getitem (a i:pyval) : res :=
  match a, i with
  | VStr s, VInt z => match norm_idx (List.length s) z with Some n => match nth_error s n with Some c => Normal (VStr [c]) | None => Exc IndexError end | None => Exc IndexError end
  | VList l, VInt z | VTuple l, VInt z => match norm_idx (List.length l) z with Some n => match nth_error l n with Some c => Normal c | None => Exc IndexError end | None => Exc IndexError end
  | VDict d, k | VBidict d, k => match dict_get d k with Some v => Normal v | None => Exc KeyError end
  | VBidictInv d, k => match dict_inv d k with Some v => Normal v | None => Exc KeyError end
  | _, _ => Exc TypeError end.
(* dict.get / bidict.get / bidict.inv.get *)
Definition py_get (a k:pyval) : res :=
  match a with
  | VDict d | VBidict d => Normal (match dict_get d k with Some v => v | None => VNone end)
  | VBidictInv d => Normal (match dict_inv d k with Some v => v | None => VNone end)
  | _ => Exc AttributeError end.
(* bidict 0.24 __setitem__: same pair no-op; value under another key -> error; existing key -> overwrite *)
Definition bidict_put (d:list (pyval*pyval)) (k v:pyval) : ctl (list (pyval*pyval)) :=
  match dict_get d k, dict_inv d v with
  | None, None => Normal (d ++ [(k,v)])
  | Some v', Some k' => if veq v v' && veq k k' then Normal d else Exc DuplicationError
  | None, Some _ => Exc DuplicationError
  | Some _, None => Normal (dict_set d k v)
  end.
Definition py_setitem (a k v:pyval) : res :=
  match a with
  | VDict d => Normal (VDict (dict_set d k v))
  | VBidict d => d' <- bidict_put d k v ;; Normal (VBidict d')
  | VBidictInv d => d' <- bidict_put d v k ;; Normal (VBidictInv d')
  | VList l => match k with VInt z => match norm_idx (List.length l) z with Some n => Normal (VList (firstn n l ++ v :: skipn (S n) l)) | None => Exc IndexError end | _ => Exc TypeError end
  | _ => Exc TypeError end.

Definition clamp (n:nat) (o:option Z) (dflt:nat) : nat :=
  match o with None => dflt | Some i => let j := if i <? 0 then i + Z.of_nat n else i in
     if j <? 0 then O else if Z.of_nat n <? j then n else Z.to_nat j end.
Definition slice {A} (l:list A) (lo hi:option Z) : list A :=
  let n := List.length l in let a := clamp n lo O in let b := clamp n hi n in firstn (b - a) (skipn a l).
Definition optZ (v:pyval) : ctl (option Z) := match v with VNone => Normal None | VInt z => Normal (Some z) | _ => Exc TypeError end.
Definition py_slice (a lo hi:pyval) : res :=
  l <- optZ lo ;; h <- optZ hi ;;
  match a with VStr s => Normal (VStr (slice s l h)) | VList x => Normal (VList (slice x l h)) | VTuple x => Normal (VTuple (slice x l h)) | _ => Exc TypeError end.

(* attributes: objects, bidict.inv, ipaddress objects *)
Definition py_getattr (o:pyval) (f:string) : res :=
  match o with
  | VObj _ fs => match dict_get fs (S_ f) with Some v => Normal v | None => Exc AttributeError end
  | VBidict d => if String.eqb f "inv" then Normal (VBidictInv d) else Exc AttributeError
  | VNet ver a p => if String.eqb f "network_address" then Normal (VAddr ver a) else if String.eqb f "prefixlen" then Normal (VInt p) else Exc AttributeError
  | _ => Exc AttributeError end.
Definition py_setattr (o:pyval) (f:string) (v:pyval) : res :=
  match o with
  | VObj c fs => Normal (VObj c (dict_set fs (S_ f) v))
  | VBidict _ => if String.eqb f "inv" then match v with VBidictInv d => Normal (VBidict d) | _ => Exc TypeError end else Exc AttributeError
  | _ => Exc AttributeError end.

(* int(), str(), format *)
Definition digit_val (c:Z) : option Z :=
  if (48 <=? c) && (c <=? 57) then Some (c - 48) else if (97 <=? c) && (c <=? 122) then Some (c - 87) else if (65 <=? c) && (c <=? 90) then Some (c - 55) else None.
Fixpoint parse_int (base:Z) (acc:Z) (s:list Z) : option Z :=
  match s with [] => Some acc | c :: r => match digit_val c with Some d => if d <? base then parse_int base (acc*base + d) r else None | None => None end end.
Definition py_int (a:pyval) (base:pyval) : res :=
  match a, base with
  | VInt z, VNone => Normal (VInt z)
  | VAddr _ z, VNone => Normal (VInt z)
  | VBool b, VNone => Normal (VInt (if b then 1 else 0))
  | VStr s, VNone => match s with [] => Exc (ValueError []) | _ => match parse_int 10 0 s with Some z => Normal (VInt z) | None => Exc (ValueError []) end end
  | VStr s, VInt b => match s with [] => Exc (ValueError []) | _ => match parse_int b 0 s with Some z => Normal (VInt z) | None => Exc (ValueError []) end end
  | _, _ => Exc TypeError end.
Fixpoint digits_rev (fuel:nat) (base:Z) (z:Z) : list Z :=
  match fuel with O => [] | S f => if z <? base then [z] else (z mod base) :: digits_rev f base (z / base) end.
Definition dchar (d:Z) : Z := if d <? 10 then 48 + d else 87 + d.
Definition nat_str (base:Z) (z:Z) : list Z := map dchar (rev (digits_rev (S (Z.to_nat (Z.log2 z))) base z)).
Definition py_str (a:pyval) : res :=
  match a with VStr s => Normal (VStr s) | VInt z => if z <? 0 then Normal (VStr (45 :: nat_str 10 (- z))) else Normal (VStr (nat_str 10 z)) | _ => Exc Unsupported end.
(* "{:0<w>b}".format(x) : the only format spec the IP classes use; fmt is carried as ("bin", w) *)
Definition py_format_bin (w:pyval) (x:pyval) : res :=
  match w, x with VInt w, VInt z => if z <? 0 then Exc Unsupported else
      let ds := nat_str 2 z in Normal (VStr (repeat 48 (Z.to_nat w - List.length ds) ++ ds))
  | _, _ => Exc TypeError end.

(* iteration *)
Definition py_iter (v:pyval) : ctl (list pyval) :=
  match v with VStr s => Normal (map (fun c => VStr [c]) s) | VList l | VTuple l => Normal l | VDict d | VBidict d => Normal (map fst d) | _ => Exc TypeError end.
Definition py_range (n:pyval) : res := match n with VInt z => Normal (VList (map (fun i => VInt (Z.of_nat i)) (seq 0 (Z.to_nat z)))) | _ => Exc TypeError end.
Definition py_list (v:pyval) : res := l <- py_iter v ;; Normal (VList l).
Definition py_list_extend (l x:pyval) : res := match l with VList a => b <- py_iter x ;; Normal (VList (a ++ b)) | _ => Exc TypeError end.
Definition py_any (v:pyval) : res := l <- py_iter v ;; Normal (VBool (existsb truthy l)).
Definition unpack2 (v:pyval) : ctl (pyval*pyval) := match v with VTuple [a;b] | VList [a;b] => Normal (a,b) | _ => Exc TypeError end.
Fixpoint py_for {S} (items:list pyval) (body: pyval -> S -> ctl S) (s:S) : ctl S :=
  match items with [] => Normal s
  | x :: r => match body x s with Normal s' | Cont s' => py_for r body s' | Brk s' => Normal s' | Ret v => Ret v | Exc e => Exc e end end.
Definition call (m:ctl unit) : res := match m with Normal _ | Brk _ | Cont _ => Normal VNone | Ret v => Normal v | Exc e => Exc e end.
Definition kw_lookup (kw:pyval) (name:string) (dflt:pyval) : pyval :=
  match kw with VDict d => match dict_get d (S_ name) with Some v => v | None => dflt end | _ => dflt end.

(* ipaddress: ip_network("a.b.c.d/len") (strict), ip_address(int), `addr in net` *)
Fixpoint split_on (sep:Z) (cur:list Z) (s:list Z) : list (list Z) :=
  match s with [] => [rev cur] | c :: r => if Z.eqb c sep then rev cur :: split_on sep [] r else split_on sep (c::cur) r end.
Definition parse_octet (s:list Z) : option Z :=
  match s with [] => None | _ => if Nat.ltb 3 (List.length s) then None else
    if (Nat.ltb 1 (List.length s)) && Z.eqb (hd 0 s) 48 then None   (* leading zeros rejected by ipaddress *)
    else match parse_int 10 0 s with Some z => if z <=? 255 then Some z else None | None => None end end.
Definition parse_v4 (s:list Z) : option Z :=
  match map parse_octet (split_on 46 [] s) with
  | [Some a; Some b; Some c; Some d] => Some (((a*256 + b)*256 + c)*256 + d)
  | _ => None end.
Definition ip_network (v:pyval) : res :=
  match v with
  | VStr s => match split_on 47 [] s with
     | [a] => match parse_v4 a with Some x => Normal (VNet 4 x 32) | None => Exc (ValueError []) end
     | [a; l] => match parse_v4 a, (match l with [] => None | _ => parse_int 10 0 l end) with
                 | Some x, Some p => if p <=? 32 then if Z.eqb (Z.land x (Z.ones (32 - p))) 0 then Normal (VNet 4 x p) else Exc (ValueError [])
                                     else Exc (ValueError [])
                 | _, _ => Exc (ValueError []) end
     | _ => Exc (ValueError []) end
  | _ => Exc TypeError end.
Definition ip_address (v:pyval) : res :=
  match v with VInt z => if (0 <=? z) && (z <? 2^32) then Normal (VAddr 4 z) else if (0 <=? z) && (z <? 2^128) then Normal (VAddr 6 z) else Exc (ValueError []) | _ => Exc Unsupported end.
Definition py_in (x c:pyval) : res :=
  match c, x with
  | VNet v a p, VAddr w z => Normal (VBool (Z.eqb v w && Z.eqb (Z.shiftr z (32 - p)) (Z.shiftr a (32 - p))))
  | VList l, _ | VTuple l, _ => Normal (VBool (existsb (veq x) l))
  | VDict d, _ | VBidict d, _ => Normal (VBool (match dict_get d x with Some _ => true | None => false end))
  | _, _ => Exc TypeError end.
Definition new_obj (cls:string) : pyval := VObj (of_string cls) [].
Definition new_bidict (v:pyval) : res := match v with VDict d => Normal (VBidict d) | _ => Exc TypeError end.

(* str.format for the forms used: "{{" "}}" "{}" "{name}" "{:0Nb}" "{name:0Nb}" *)
Definition fmt_field (spec:list Z) (v:pyval) : res :=
  match spec with
  | [] => match v with VStr s => Normal (VStr s) | _ => py_str v end
  | _ => (* expect 0<digits>b *)
    match rev spec with
    | 98 :: rd => match rev rd with
        | 48 :: wd => match parse_int 10 0 wd with Some w => py_format_bin (VInt w) v | None => Exc Unsupported end
        | _ => Exc Unsupported end
    | _ => Exc Unsupported end
  end.
Fixpoint take_until (c:Z) (s:list Z) (acc:list Z) : option (list Z * list Z) :=
  match s with [] => None | x :: r => if Z.eqb x c then Some (rev acc, r) else take_until c r (x::acc) end.
Fixpoint py_format_go (fuel:nat) (t:list Z) (args:list pyval) (kw:list (pyval*pyval)) (out:list Z) : ctl (list Z) :=
  match fuel with O => Exc OutOfFuel | S fuel =>
  match t with
  | [] => Normal out
  | 123 :: 123 :: r => py_format_go fuel r args kw (out ++ [123])
  | 125 :: 125 :: r => py_format_go fuel r args kw (out ++ [125])
  | 123 :: r => match take_until 125 r [] with
      | None => Exc (ValueError [])
      | Some (field, rest) =>
          let '(name, spec) := match take_until 58 field [] with Some (n, sp) => (n, sp) | None => (field, []) end in
          match name with
          | [] => match args with a :: args' => v <- fmt_field spec a ;; match v with VStr s => py_format_go fuel rest args' kw (out ++ s) | _ => Exc TypeError end
                                | [] => Exc IndexError end
          | _ => match dict_get kw (VStr name) with
                 | Some a => v <- fmt_field spec a ;; match v with VStr s => py_format_go fuel rest args kw (out ++ s) | _ => Exc TypeError end
                 | None => Exc KeyError end
          end
      end
  | c :: r => py_format_go fuel r args kw (out ++ [c])
  end end.
Definition py_format (t:pyval) (args:pyval) (kw:pyval) : res :=
  match t, args, kw with
  | VStr s, VList a, VDict k => o <- py_format_go (S (List.length s)) s a k [] ;; Normal (VStr o)
  | _, _, _ => Exc TypeError end.

(* ---- additions for utils/juniper_secrets.py ---- *)
Fixpoint py_while {S} (fuel:nat) (cond: S -> ctl bool) (body: S -> ctl S) (s:S) : ctl S :=
  match fuel with O => Exc OutOfFuel | S fuel' =>
    match cond s with
    | Normal true => match body s with Normal s' | Cont s' => py_while fuel' cond body s' | Brk s' => Normal s' | Ret v => Ret v | Exc e => Exc e end
    | Normal false => Normal s
    | Ret v => Ret v | Exc e => Exc e | Brk _ | Cont _ => Exc Unsupported
    end end.
Definition py_ord (v:pyval) : res := match v with VStr [c] => Normal (VInt c) | VStr _ => Exc TypeError | _ => Exc TypeError end.
Definition py_chr (v:pyval) : res := match v with VInt z => if (0 <=? z) && (z <? 1114112) then Normal (VStr [z]) else Exc (ValueError []) | _ => Exc TypeError end.
Definition py_enumerate (v:pyval) : res := l <- py_iter v ;; Normal (VList (map (fun p => VTuple [VInt (Z.of_nat (fst p)); snd p]) (combine (seq 0 (List.length l)) l))).
Definition py_reversed (v:pyval) : res := match v with VList l => Normal (VList (rev l)) | VTuple l => Normal (VList (rev l)) | VStr s => Normal (VList (map (fun c => VStr [c]) (rev s))) | _ => Exc TypeError end.
Definition py_sum (v:pyval) : res := l <- py_iter v ;;
  fold_left (fun acc x => a <- acc ;; py_add a x) l (Normal (VInt 0)).
Definition py_zip (a b:pyval) : res := la <- py_iter a ;; lb <- py_iter b ;; Normal (VList (map (fun p => VTuple [fst p; snd p]) (combine la lb))).
Definition py_format_str (v:pyval) : res := match v with VStr s => Normal (VStr s) | _ => py_str v end.
Definition py_list_append (l x:pyval) : res := match l with VList a => Normal (VList (a ++ [x])) | _ => Exc AttributeError end.
Definition py_list_insert (l i x:pyval) : res :=
  match l, i with VList a, VInt z => let k := clamp (List.length a) (Some z) O in Normal (VList (firstn k a ++ x :: skipn k a)) | _, _ => Exc TypeError end.
(* str.join over a list / tuple of strings; startswith / endswith; ASCII-only lower / upper (non-ASCII text is outside the modelled subset) *)
Fixpoint join_strs (sep : list Z) (l : list pyval) : option (list Z) :=
  match l with
  | [] => Some []
  | [VStr x] => Some x
  | VStr x :: r => match join_strs sep r with Some t => Some (x ++ sep ++ t) | None => None end
  | _ => None
  end.
Definition py_join (sep v:pyval) : res :=
  match sep with
  | VStr sp => l <- py_iter v ;; match join_strs sp l with Some t => Normal (VStr t) | None => Exc TypeError end
  | _ => Exc TypeError end.
Fixpoint zprefix (p s : list Z) : bool := match p, s with [], _ => true | a :: p', b :: s' => Z.eqb a b && zprefix p' s' | _, _ => false end.
Definition py_startswith (s p:pyval) : res := match s, p with VStr a, VStr b => Normal (VBool (zprefix b a)) | _, _ => Exc TypeError end.
Definition py_endswith (s p:pyval) : res := match s, p with VStr a, VStr b => Normal (VBool (zprefix (rev b) (rev a))) | _, _ => Exc TypeError end.
Definition ascii_only (s : list Z) : bool := forallb (fun c => c <? 128) s.
Definition py_lower (s:pyval) : res := match s with VStr a => if ascii_only a then Normal (VStr (map (fun c => if (65 <=? c) && (c <=? 90) then c + 32 else c) a)) else Exc Unsupported | _ => Exc AttributeError end.
Definition py_upper (s:pyval) : res := match s with VStr a => if ascii_only a then Normal (VStr (map (fun c => if (97 <=? c) && (c <=? 122) then c - 32 else c) a)) else Exc Unsupported | _ => Exc AttributeError end.

(* bisect on a sorted list of integers: index of the first element greater than (bisect_right) / not less than (bisect_left) x *)
Fixpoint bisect_r (l : list pyval) (x : Z) : option nat :=
  match l with [] => Some O | VInt b :: r => if x <? b then Some O else option_map S (bisect_r r x) | _ => None end.
Fixpoint bisect_l (l : list pyval) (x : Z) : option nat :=
  match l with [] => Some O | VInt b :: r => if x <=? b then Some O else option_map S (bisect_l r x) | _ => None end.
Definition py_bisect_right (l x:pyval) : res :=
  match l, x with VList a, VInt z | VTuple a, VInt z => match bisect_r a z with Some k => Normal (VInt (Z.of_nat k)) | None => Exc TypeError end | _, _ => Exc TypeError end.
Definition py_bisect_left (l x:pyval) : res :=
  match l, x with VList a, VInt z | VTuple a, VInt z => match bisect_l a z with Some k => Normal (VInt (Z.of_nat k)) | None => Exc TypeError end | _, _ => Exc TypeError end.

(* s.split(c) for a single separator character: always at least one field *)
Definition py_split1 (s : pyval) (sep : Z) : res :=
  match s with VStr a => Normal (VList (map (fun f => VStr f) (split_on sep [] a))) | _ => Exc AttributeError end.

(* ordering comparisons: integers only (strings etc. are outside the translated subset: TypeError in the model means "not modelled") *)
Definition py_lt (a b:pyval) : res := match a, b with VInt x, VInt y => Normal (VBool (x <? y)) | _, _ => Exc TypeError end.
Definition py_le (a b:pyval) : res := match a, b with VInt x, VInt y => Normal (VBool (x <=? y)) | _, _ => Exc TypeError end.
Definition py_gt (a b:pyval) : res := match a, b with VInt x, VInt y => Normal (VBool (y <? x)) | _, _ => Exc TypeError end.
Definition py_ge (a b:pyval) : res := match a, b with VInt x, VInt y => Normal (VBool (y <=? x)) | _, _ => Exc TypeError end.
Definition py_rev_same (v:pyval) : res := match v with VList l => Normal (VList (rev l)) | VTuple l => Normal (VTuple (rev l)) | VStr s => Normal (VStr (rev s)) | _ => Exc TypeError end.
Definition py_divmod (a b:pyval) : res := q <- py_floordiv a b ;; r <- py_mod a b ;; Normal (VTuple [q; r]).
Definition py_min2 (a b:pyval) : res := match a, b with VInt x, VInt y => Normal (VInt (Z.min x y)) | _, _ => Exc TypeError end.
Definition py_max2 (a b:pyval) : res := match a, b with VInt x, VInt y => Normal (VInt (Z.max x y)) | _, _ => Exc TypeError end.
Definition py_abs (a:pyval) : res := match a with VInt x => Normal (VInt (Z.abs x)) | _ => Exc TypeError end.

(* every non-recursive generated function is registered here, so that refinement scripts can inline helpers whatever their names *)
Create HintDb gen_db.
