(* C17: what the memo holds after any run -- every requested address has its entry (complete), every entry is the
   mapping's pair (sound), no key and no value occurs twice (duplicate-free). *)
From Coq Require Import List Bool Arith Lia.
Import ListNotations.
Require Import PPCore Memo MemoProofs.

Section D.
Variable H : bits -> bool.
Variable n B : nat.
Variable seeds : list bits.
Notation m := (n - B).
Notation A' := (Memo.A' H n B seeds).
Notation Inv := (MemoProofs.Inv H n B seeds).

Lemma bput_get d k v d' : bput d k v = Ok d' -> bget d' k = Some v.
Proof.
  unfold bput. destruct (bget d k) as [v'|] eqn:G; destruct (binv d v) as [k'|] eqn:GI; try discriminate.
  - destruct (beq v v' && beq k k') eqn:E; [|discriminate]. intros [= <-]. apply andb_true_iff in E as [E1 _]. apply beq_eq in E1. now subst.
  - intros [= <-]. rewrite (MemoProofs.bget_app d k k v G). now rewrite beq_refl.
Qed.
Lemma bput_mono d k v d' : bput d k v = Ok d' -> forall q r, bget d q = Some r -> bget d' q = Some r.
Proof.
  unfold bput. destruct (bget d k) as [v'|] eqn:G; destruct (binv d v) as [k'|] eqn:GI; try discriminate.
  - destruct (beq v v' && beq k k'); [|discriminate]. intros [= <-]. auto.
  - intros [= <-] q r Hq. now apply MemoProofs.bget_app_some.
Qed.

(* keys and values are unique *)
Definition Uniq (d : bidict) : Prop := NoDup (map fst d) /\ NoDup (map snd d).
Lemma bget_none_notin d k : bget d k = None -> ~ In k (map fst d).
Proof. induction d as [|[k0 v0] d IH]; simpl; [tauto|]. destruct (beq k k0) eqn:E; [intros G; discriminate|]. intros G [E'|I]; [subst; rewrite beq_refl in E; discriminate|]. exact (IH G I). Qed.
Lemma binv_none_notin d v : binv d v = None -> ~ In v (map snd d).
Proof. induction d as [|[k0 v0] d IH]; simpl; [tauto|]. destruct (beq v v0) eqn:E; [intros G; discriminate|]. intros G [E'|I]; [subst; rewrite beq_refl in E; discriminate|]. exact (IH G I). Qed.
Lemma NoDup_snoc {X} (l : list X) x : NoDup l -> ~ In x l -> NoDup (l ++ [x]).
Proof.
  induction l as [|a l IH]; intros Hn Hx; simpl.
  - constructor; [intros []|constructor].
  - inversion Hn; subst. constructor.
    + intros Hin. apply in_app_or in Hin as [Hin|[E|[]]]; auto. subst. apply Hx. now left.
    + apply IH; auto. intros Hin. apply Hx. now right.
Qed.
Lemma bput_uniq d k v d' : Uniq d -> bput d k v = Ok d' -> Uniq d'.
Proof.
  intros [U1 U2]. unfold bput. destruct (bget d k) as [v'|] eqn:G; destruct (binv d v) as [k'|] eqn:GI; try discriminate.
  - destruct (beq v v' && beq k k'); [|discriminate]. intros [= <-]. split; auto.
  - intros [= <-]. split; rewrite map_app; simpl; apply NoDup_snoc; auto. + now apply bget_none_notin. + now apply binv_none_notin.
Qed.

(* the memoised walks only ever add entries through bput *)
Lemma g_anon_facts : forall fuel d b d' r, g_anon H fuel d b = Ok (d', r) ->
  (forall q x, bget d q = Some x -> bget d' q = Some x) /\ bget d' b = Some r /\ (Uniq d -> Uniq d').
Proof.
  induction fuel as [|fuel IH]; intros d b d' r; cbn [g_anon]; [discriminate|].
  destruct (bget d b) as [x|] eqn:G.
  - intros [= <- <-]. split; [|split]; auto.
  - destruct (rev b) as [|lastb rh]; [discriminate|].
    destruct (g_anon H fuel d (rev rh)) as [[d1 r1]|] eqn:E1; [|discriminate].
    destruct (bput d1 b (r1 ++ [xorb (H (rev rh)) lastb])) as [d2|] eqn:E2; [|discriminate].
    intros [= <- <-]. destruct (IH _ _ _ _ E1) as (M1 & _ & U1). split; [|split].
    + intros q x0 Hq. exact (bput_mono _ _ _ _ E2 _ _ (M1 _ _ Hq)).
    + exact (bput_get _ _ _ _ E2).
    + intros U. exact (bput_uniq _ _ _ _ (U1 U) E2).
Qed.
Lemma g_deanon_facts : forall fuel d b d' r, g_deanon H fuel d b = Ok (d', r) ->
  (forall q x, bget d q = Some x -> bget d' q = Some x) /\ (Uniq d -> Uniq d').
Proof.
  induction fuel as [|fuel IH]; intros d b d' r; cbn [g_deanon]; [discriminate|].
  destruct (binv d b) as [x|] eqn:G.
  - intros [= <- <-]. split; auto.
  - destruct (rev b) as [|lastb rh]; [discriminate|].
    destruct (g_deanon H fuel d (rev rh)) as [[d1 r1]|] eqn:E1; [|discriminate].
    destruct (bput d1 (r1 ++ [xorb (H r1) lastb]) b) as [d2|] eqn:E2; [|discriminate].
    intros [= <- <-]. destruct (IH _ _ _ _ E1) as (M1 & U1). split.
    + intros q x0 Hq. exact (bput_mono _ _ _ _ E2 _ _ (M1 _ _ Hq)).
    + intros U. exact (bput_uniq _ _ _ _ (U1 U) E2).
Qed.

(* anonymize(x) leaves the full-length entry x -> image in the memo (B = 0: by the memoised walk; B > 0: by the explicit write) *)
Lemma anonymize_records d x d' y : Memo.anonymize H n B d x = Ok (d', y) ->
  bget d' x = Some y /\ (forall q r, bget d q = Some r -> bget d' q = Some r) /\ (Uniq d -> Uniq d').
Proof.
  unfold Memo.anonymize. destruct (Nat.eqb B 0).
  - intros E. destruct (g_anon_facts _ _ _ _ _ E) as (M & G & U). auto.
  - destruct (g_anon H (S (length x)) d (firstn m x)) as [[d1 r]|] eqn:E1; [|discriminate].
    destruct (bput d1 x (r ++ skipn m x)) as [d2|] eqn:E2; [|discriminate]. intros [= <- <-].
    destruct (g_anon_facts _ _ _ _ _ E1) as (M & _ & U). split; [|split].
    + exact (bput_get _ _ _ _ E2).
    + intros q r0 Hq. exact (bput_mono _ _ _ _ E2 _ _ (M _ _ Hq)).
    + intros Ud. exact (bput_uniq _ _ _ _ (U Ud) E2).
Qed.
Lemma deanonymize_records d x d' y : Memo.deanonymize H n B d x = Ok (d', y) ->
  (forall q r, bget d q = Some r -> bget d' q = Some r) /\ (Uniq d -> Uniq d').
Proof.
  unfold Memo.deanonymize. destruct (Nat.eqb B 0).
  - intros E. exact (g_deanon_facts _ _ _ _ _ E).
  - destruct (g_deanon H (S (length x)) d (firstn m x)) as [[d1 r]|] eqn:E1; [|discriminate]. intros [= <- <-].
    exact (g_deanon_facts _ _ _ _ _ E1).
Qed.

(* ---------- the three parts of C17 over every request history ---------- *)
Theorem dump_complete : forall ops d d' outs, MemoProofs.run H n B d ops = Ok (d', outs) ->
  (forall q r, bget d q = Some r -> bget d' q = Some r) /\
  forall k x, nth_error ops k = Some (Anon x) -> exists y, nth_error outs k = Some y /\ bget d' x = Some y.
Proof.
  induction ops as [|o ops IH]; intros d d' outs; cbn [MemoProofs.run].
  - intros [= <- <-]. split; auto. intros [|k] x; discriminate.
  - destruct o as [x0|y0].
    + destruct (Memo.anonymize H n B d x0) as [[d1 out]|] eqn:E; [|discriminate].
      destruct (MemoProofs.run H n B d1 ops) as [[d2 outs2]|] eqn:E2; [|discriminate]. intros [= <- <-].
      destruct (anonymize_records _ _ _ _ E) as (G & M & _). destruct (IH _ _ _ E2) as (M2 & C2). split; [auto|].
      intros [|k] x Hk; simpl in *.
      * injection Hk as <-. exists out. split; auto.
      * apply C2; auto.
    + destruct (Memo.deanonymize H n B d y0) as [[d1 out]|] eqn:E; [|discriminate].
      destruct (MemoProofs.run H n B d1 ops) as [[d2 outs2]|] eqn:E2; [|discriminate]. intros [= <- <-].
      destruct (deanonymize_records _ _ _ _ E) as (M & _). destruct (IH _ _ _ E2) as (M2 & C2). split; [auto|].
      intros [|k] x Hk; simpl in *; [discriminate|]. apply C2; auto.
Qed.

Theorem dump_duplicate_free : forall ops d d' outs, Uniq d -> MemoProofs.run H n B d ops = Ok (d', outs) -> Uniq d'.
Proof.
  induction ops as [|o ops IH]; intros d d' outs U; cbn [MemoProofs.run].
  - intros [= <- <-]. auto.
  - destruct o as [x0|y0].
    + destruct (Memo.anonymize H n B d x0) as [[d1 out]|] eqn:E; [|discriminate].
      destruct (MemoProofs.run H n B d1 ops) as [[d2 outs2]|] eqn:E2; [|discriminate]. intros [= <- <-].
      eapply IH; [|eauto]. destruct (anonymize_records _ _ _ _ E) as (_ & _ & U1). auto.
    + destruct (Memo.deanonymize H n B d y0) as [[d1 out]|] eqn:E; [|discriminate].
      destruct (MemoProofs.run H n B d1 ops) as [[d2 outs2]|] eqn:E2; [|discriminate]. intros [= <- <-].
      eapply IH; [|eauto]. destruct (deanonymize_records _ _ _ _ E) as (_ & U1). auto.
Qed.

(* sound: every entry of a reachable memo is (k, image k) *)
Theorem dump_sound : forall ops d, Inv d -> Forall (fun o => op_len o = n) ops ->
  exists d' , MemoProofs.run H n B d ops = Ok (d', map (MemoProofs.pure H n B seeds) ops) /\ forall k v, In (k, v) d' -> v = A' k.
Proof.
  intros ops d I Hall. destruct (MemoProofs.history_independent H n B seeds ops d I Hall) as (d' & E & (_ & I1 & _)). eauto.
Qed.

(* the seeding loop produces a duplicate-free memo *)
Lemma seed_one_uniq : forall fuel d P pos d', Uniq d -> seed_one fuel d P pos = Ok d' -> Uniq d'.
Proof.
  induction fuel as [|fuel IH]; intros d P pos d' U; cbn [seed_one]; [intros [= <-]; auto|].
  destruct (bput d (firstn pos P ++ [false]) (firstn pos P ++ [false])) as [d1|] eqn:E1; [|discriminate].
  destruct (bput d1 (firstn pos P ++ [true]) (firstn pos P ++ [true])) as [d2|] eqn:E2; [|discriminate].
  intros E. refine (IH _ _ _ _ _ E). exact (bput_uniq _ _ _ _ (bput_uniq _ _ _ _ U E1) E2).
Qed.
Lemma seed_all_uniq : forall Ps d d', Uniq d -> seed_all d Ps = Ok d' -> Uniq d'.
Proof.
  induction Ps as [|P Ps IH]; intros d d' U; cbn [seed_all]; [intros [= <-]; auto|].
  destruct (seed_one (length P) d P 0) as [d1|] eqn:E1; [|discriminate]. intros E. eapply IH; [|eauto]. eapply seed_one_uniq; eauto.
Qed.
Theorem init_uniq : forall d0, Memo.init seeds = Ok d0 -> Uniq d0.
Proof. intros d0. unfold Memo.init. apply seed_all_uniq. split; simpl; repeat constructor; auto. Qed.
End D.
