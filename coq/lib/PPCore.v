From Coq Require Import List Bool Arith Lia.
Import ListNotations.

Section PP.
Variable f : list bool -> bool.

(* forward definition with accumulated original prefix (reversed acc avoided: use pre ++ [b]) *)
Fixpoint anon_from (pre : list bool) (x : list bool) : list bool :=
  match x with
  | [] => []
  | b :: r => xorb b (f pre) :: anon_from (pre ++ [b]) r
  end.
Definition anon := anon_from [].

Fixpoint deanon_from (pre : list bool) (y : list bool) : list bool :=
  match y with
  | [] => []
  | c :: r => let b := xorb c (f pre) in b :: deanon_from (pre ++ [b]) r
  end.
Definition deanon := deanon_from [].

Fixpoint lcp (a b : list bool) : nat :=
  match a, b with
  | x :: a', y :: b' => if Bool.eqb x y then S (lcp a' b') else 0
  | _, _ => 0
  end.

Lemma lcp_anon_from pre a b : lcp (anon_from pre a) (anon_from pre b) = lcp a b.
Proof.
  revert pre b; induction a as [|x a IH]; intros pre [|y b]; simpl; auto.
  destruct (Bool.eqb x y) eqn:E.
  - apply Bool.eqb_prop in E; subst y. rewrite Bool.eqb_reflx. f_equal. apply IH.
  - destruct x, y, (f pre); simpl in *; congruence.
Qed.

Theorem lcp_anon a b : lcp (anon a) (anon b) = lcp a b.
Proof. apply lcp_anon_from. Qed.

Lemma deanon_anon_from pre x : deanon_from pre (anon_from pre x) = x.
Proof.
  revert pre; induction x as [|b r IH]; intros pre; simpl; auto.
  rewrite Bool.xorb_assoc, Bool.xorb_nilpotent, Bool.xorb_false_r. f_equal. apply IH.
Qed.
Lemma anon_deanon_from pre y : anon_from pre (deanon_from pre y) = y.
Proof.
  revert pre; induction y as [|b r IH]; intros pre; simpl; auto.
  rewrite Bool.xorb_assoc, Bool.xorb_nilpotent, Bool.xorb_false_r. f_equal. apply IH.
Qed.
Lemma anon_length pre x : length (anon_from pre x) = length x.
Proof. revert pre; induction x; intros; simpl; auto. Qed.
End PP.
Print Assumptions lcp_anon.
