(* Capture groups: captures only accumulate along a match, and a group that lies on every path of the pattern (always_part) has
   participated in every successful match.  Used to exclude "match.group(n) is None" for the generated line patterns. *)
From Coq Require Import List Arith NArith Bool Lia.
Import ListNotations.
Require Import Rx RxFacts RxSub RxComplete.

Fixpoint always_part (n : nat) (r : re) : bool :=
  match r with
  | Grp k a => Nat.eqb k n || always_part n a
  | Seq a b => always_part n a || always_part n b
  | Alt a b => always_part n a && always_part n b
  | Rep _ a (S _) _ => always_part n a
  | _ => false
  end.

Definition has (c : caps) (n : nat) : Prop := cap_lookup c n <> None.
Lemma has_cons k sp c n : has c n -> has ((k, sp) :: c) n.
Proof. unfold has. cbn [cap_lookup]. destruct (Nat.eqb k n); [discriminate|auto]. Qed.
Lemma has_here n sp c : has ((n, sp) :: c) n.
Proof. unfold has. cbn [cap_lookup]. rewrite Nat.eqb_refl. discriminate. Qed.

Section G.
Variable s : list chr.

Lemma optc_grow g a (IHa : forall i c j c', In (j,c') (ms s a i c) -> forall n, has c n -> has c' n) :
  forall k hi i c j c', In (j,c') (optc s g a k hi i c) -> forall n, has c n -> has c' n.
Proof.
  induction k as [|k IH]; intros hi i c j c' Hin n Hn; cbn [optc] in Hin.
  - destruct Hin as [E|[]]. inversion E; subst. exact Hn.
  - assert (Hmore : In (j,c') (flat_map (fun p => if Nat.eqb (fst p) i then [] else optc s g a k (option_map pred hi) (fst p) (snd p)) (ms s a i c)) -> has c' n).
    { intros Hm. apply in_flat_map in Hm as [[p cp] [H1 H2]]. cbn [fst snd] in H2. destruct (Nat.eqb p i); [contradiction|].
      eapply IH; [exact H2|]. eapply IHa; [exact H1|exact Hn]. }
    destruct hi as [[|h]|]; cbv zeta in Hin.
    + destruct Hin as [E|[]]. inversion E; subst. exact Hn.
    + destruct g; [apply in_app_or in Hin as [Hin|[E|[]]]|destruct Hin as [E|Hin]]; auto; inversion E; subst; exact Hn.
    + destruct g; [apply in_app_or in Hin as [Hin|[E|[]]]|destruct Hin as [E|Hin]]; auto; inversion E; subst; exact Hn.
Qed.
Lemma mandc_grow g a (IHa : forall i c j c', In (j,c') (ms s a i c) -> forall n, has c n -> has c' n) :
  forall lo hi i c j c', In (j,c') (mandc s g a lo hi i c) -> forall n, has c n -> has c' n.
Proof.
  induction lo as [|lo IH]; intros hi i c j c' Hin n Hn; cbn [mandc] in Hin.
  - eapply optc_grow; eauto.
  - apply in_flat_map in Hin as [[p cp] [H1 H2]]. cbn [fst snd] in H2. eapply IH; [exact H2|]. eapply IHa; [exact H1|exact Hn].
Qed.

Theorem caps_grow : forall r i c j c', In (j,c') (ms s r i c) -> forall n, has c n -> has c' n.
Proof.
  induction r as [| cs | a IHa b IHb | a IHa b IHb | g a IHa lo hi | | | | ahead neg w a IHa | k a IHa]; intros i c j c' Hin n Hn.
  - cbn [ms] in Hin. destruct Hin as [E|[]]. inversion E; subst. exact Hn.
  - cbn [ms] in Hin. destruct (nth_error s i); [|contradiction]. destruct (in_cset c0 cs); [|contradiction]. destruct Hin as [E|[]]. inversion E; subst. exact Hn.
  - cbn [ms] in Hin. apply in_flat_map in Hin as [[p cp] [H1 H2]]. cbn [fst snd] in H2. eapply IHb; [exact H2|]. eapply IHa; eauto.
  - cbn [ms] in Hin. apply in_app_or in Hin as [Hin|Hin]; [eapply IHa|eapply IHb]; eauto.
  - rewrite ms_rep in Hin. eapply mandc_grow; eauto.
  - cbn [ms] in Hin. destruct (Nat.eqb i 0); [|contradiction]. destruct Hin as [E|[]]. inversion E; subst. exact Hn.
  - cbn [ms] in Hin. destruct (eol s i); [|contradiction]. destruct Hin as [E|[]]. inversion E; subst. exact Hn.
  - cbn [ms] in Hin. destruct (Nat.eqb i (slen s)); [|contradiction]. destruct Hin as [E|[]]. inversion E; subst. exact Hn.
  - cbn [ms] in Hin. destruct (xorb neg _); [|contradiction]. destruct Hin as [E|[]]. inversion E; subst. exact Hn.
  - cbn [ms] in Hin. apply in_map_iff in Hin as [[p cp] [E Hin]]. cbn [fst snd] in E. inversion E; subst. apply has_cons. eapply IHa; eauto.
Qed.

Lemma mandc_part g a n (Ha : forall i c j c', In (j,c') (ms s a i c) -> has c' n) :
  forall lo hi i c j c', In (j,c') (mandc s g a (S lo) hi i c) -> has c' n.
Proof.
  intros lo hi i c j c' Hin. cbn [mandc] in Hin. apply in_flat_map in Hin as [[p cp] [H1 H2]]. cbn [fst snd] in H2.
  eapply (mandc_grow g a (caps_grow a)); [exact H2|]. eapply Ha. exact H1.
Qed.

Theorem always_part_sound : forall r n, always_part n r = true -> forall i c j c', In (j,c') (ms s r i c) -> has c' n.
Proof.
  induction r as [| cs | a IHa b IHb | a IHa b IHb | g a IHa lo hi | | | | ahead neg w a IHa | k a IHa]; intros n Hp i c j c' Hin; cbn [always_part] in Hp; try discriminate.
  - cbn [ms] in Hin. apply in_flat_map in Hin as [[p cp] [H1 H2]]. cbn [fst snd] in H2. apply orb_prop in Hp as [Hp|Hp].
    + eapply caps_grow; [exact H2|]. eapply IHa; eauto.
    + eapply IHb; eauto.
  - cbn [ms] in Hin. apply andb_prop in Hp as [Hp1 Hp2]. apply in_app_or in Hin as [Hin|Hin]; [eapply IHa|eapply IHb]; eauto.
  - destruct lo as [|lo]; [discriminate|]. rewrite ms_rep in Hin. eapply mandc_part; [|exact Hin]. intros. eapply IHa; eauto.
  - cbn [ms] in Hin. apply in_map_iff in Hin as [[p cp] [E Hin]]. cbn [fst snd] in E. inversion E; subst. apply orb_prop in Hp as [Hp|Hp].
    + apply Nat.eqb_eq in Hp. subst. apply has_here.
    + apply has_cons. eapply IHa; eauto.
Qed.
End G.
Print Assumptions always_part_sound.
