(* Dropping trailing empty patterns (Seq x Eps, as the model's literal builder leaves them) does not change what the engine reports: used to compare the
   model's pattern templates with what CPython's parser makes of the pattern text the source builds for a sample list. *)
From Coq Require Import List Arith NArith Bool Lia.
Import ListNotations.
Require Import Rx RxFacts RxComplete.

Fixpoint norm (r : re) : re :=
  match r with
  | Seq a b => match norm b with Eps => norm a | b' => Seq (norm a) b' end
  | Alt a b => Alt (norm a) (norm b)
  | Rep g a lo hi => Rep g (norm a) lo hi
  | Look ah ng w a => Look ah ng w (norm a)
  | Grp n a => Grp n (norm a)
  | _ => r
  end.

Section N.
Variable s : list chr.
Lemma optc_ext g a a' : (forall i c, ms s a i c = ms s a' i c) -> forall n hi i c, optc s g a n hi i c = optc s g a' n hi i c.
Proof.
  intro H. induction n as [|n IH]; intros hi i c; cbn [optc]; [reflexivity|]. destruct hi as [[|h]|]; try reflexivity; cbv zeta; rewrite H;
    (erewrite flat_map_ext; [reflexivity|]); intro p; cbv beta; destruct (Nat.eqb (fst p) i); try reflexivity; apply IH.
Qed.
Lemma mandc_ext g a a' : (forall i c, ms s a i c = ms s a' i c) -> forall lo hi i c, mandc s g a lo hi i c = mandc s g a' lo hi i c.
Proof.
  intro H. induction lo as [|lo IH]; intros hi i c; cbn [mandc]; [now apply optc_ext|]. rewrite H. apply flat_map_ext. intro p. apply IH.
Qed.
Lemma flat_map_id {A} (l : list (A * caps)) : flat_map (fun p => [(fst p, snd p)]) l = l.
Proof. induction l as [|[x y] l IH]; cbn [flat_map app fst snd]; [reflexivity|now rewrite IH]. Qed.

Theorem ms_norm : forall r i c, ms s (norm r) i c = ms s r i c.
Proof.
  induction r as [| cs | a IHa b IHb | a IHa b IHb | g a IHa lo hi | | | | ahead neg w a IHa | n a IHa]; intros i c; cbn [norm]; try reflexivity.
  - assert (E : ms s (Seq (norm a) (norm b)) i c = ms s (Seq a b) i c).
    { cbn [ms]. rewrite IHa. apply flat_map_ext. intro p. apply IHb. }
    destruct (norm b) eqn:Eb; try exact E.
    (* norm b = Eps: ms b = the single stop *)
    rewrite <- E. cbn [ms]. rewrite flat_map_id. reflexivity.
  - cbn [ms]. now rewrite IHa, IHb.
  - rewrite !ms_rep. now apply mandc_ext.
  - cbn [ms]. destruct ahead; [now rewrite IHa|]. destruct (Nat.leb w i); [now rewrite IHa|reflexivity].
  - cbn [ms]. now rewrite IHa.
Qed.
End N.
