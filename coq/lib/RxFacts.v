(* generic facts about matches: progress for non-nullable patterns, alphabet of matched spans, finditer spans *)
From Coq Require Import List Bool Arith Lia NArith.
Import ListNotations.
Require Import Rx.

Section F.
Variable s : list chr.

(* ---- syntactic nullability (may the pattern match the empty string?) ---- *)
Fixpoint nullable (r:re) : bool :=
  match r with
  | Eps | Bol | Eol | Eos | Look _ _ _ _ => true
  | Chr _ => false
  | Seq a b => nullable a && nullable b
  | Alt a b => nullable a || nullable b
  | Rep _ a lo _ => match lo with O => true | S _ => nullable a end
  | Grp _ a => nullable a
  end.

(* every success ends at or after its start; strictly after for non-nullable patterns *)
Lemma ms_mono : forall r i c j c', In (j,c') (ms s r i c) -> i <= j /\ (nullable r = false -> i < j).
Proof.
  induction r as [| cs | a IHa b IHb | a IHa b IHb | g a IHa lo hi | | | | ahead neg w a IHa | n a IHa]; intros i c j c' Hin; cbn [ms nullable] in *.
  - destruct Hin as [E|[]]. inversion E; subst. split; [lia|discriminate].
  - destruct (nth_error s i); [|contradiction]. destruct (in_cset c0 cs); [|contradiction]. destruct Hin as [E|[]]. inversion E; subst. split; lia.
  - apply in_flat_map in Hin as [[k ck] [H1 H2]]. simpl in H2. destruct (IHa _ _ _ _ H1) as [L1 S1]. destruct (IHb _ _ _ _ H2) as [L2 S2].
    split; [lia|]. intros Hn. apply andb_false_iff in Hn as [Hn|Hn]; [specialize (S1 Hn)|specialize (S2 Hn)]; lia.
  - apply in_app_or in Hin as [Hin|Hin]; [destruct (IHa _ _ _ _ Hin) as [L S]|destruct (IHb _ _ _ _ Hin) as [L S]];
      (split; [lia|]; intros Hn; apply orb_false_iff in Hn as [Hn1 Hn2]; auto).
  - (* Rep *)
    set (opts := fix opt (n:nat) (hi:option nat) (i:nat) (c:caps) {struct n} : list (nat*caps) :=
        match n with O => [(i,c)] | S n' =>
          match hi with Some O => [(i,c)] | _ =>
            let more := flat_map (fun p => if Nat.eqb (fst p) i then [] else opt n' (option_map pred hi) (fst p) (snd p)) (ms s a i c) in
            if g then more ++ [(i,c)] else (i,c) :: more
          end end) in *.
    assert (Hopt : forall n hi i c j c', In (j,c') (opts n hi i c) -> i <= j).
    { induction n as [|n IHn]; intros hi0 i0 c0 j0 c0' H0; cbn [opts] in H0.
      - destruct H0 as [E|[]]. inversion E; lia.
      - assert (Hmore : In (j0,c0') (flat_map (fun p => if Nat.eqb (fst p) i0 then [] else opts n (option_map pred hi0) (fst p) (snd p)) (ms s a i0 c0)) -> i0 <= j0).
        { intros Hm. apply in_flat_map in Hm as [[k ck] [H1 H2]]. simpl in H2. destruct (Nat.eqb k i0); [contradiction|].
          destruct (IHa _ _ _ _ H1) as [L1 _]. apply IHn in H2. lia. }
        destruct hi0 as [[|h]|]; cbv zeta in H0.
        + destruct H0 as [E|[]]. inversion E; lia.
        + destruct g. * apply in_app_or in H0 as [H0|[E|[]]]; auto. inversion E; lia.
          * destruct H0 as [E|H0]; auto. inversion E; lia.
        + destruct g. * apply in_app_or in H0 as [H0|[E|[]]]; auto. inversion E; lia.
          * destruct H0 as [E|H0]; auto. inversion E; lia. }
    revert hi i c j c' Hin. induction lo as [|lo IHlo]; intros hi0 i0 c0 j0 c0' Hin.
    + split; [exact (Hopt (S (slen s)) hi0 i0 c0 j0 c0' Hin)|discriminate].
    + apply in_flat_map in Hin as [[k ck] [H1 H2]]. simpl in H2. destruct (IHa _ _ _ _ H1) as [L1 S1].
      destruct (IHlo _ _ _ _ _ H2) as [L2 _]. split; [lia|]. intros Hn. specialize (S1 Hn). lia.
  - destruct (Nat.eqb i 0); [|contradiction]. destruct Hin as [E|[]]. inversion E; subst. split; [lia|discriminate].
  - destruct (eol s i); [|contradiction]. destruct Hin as [E|[]]. inversion E; subst. split; [lia|discriminate].
  - destruct (Nat.eqb i (slen s)); [|contradiction]. destruct Hin as [E|[]]. inversion E; subst. split; [lia|discriminate].
  - destruct (xorb neg _); [|contradiction]. destruct Hin as [E|[]]. inversion E; subst. split; [lia|discriminate].
  - apply in_map_iff in Hin as [[k ck] [E Hin]]. simpl in E. inversion E; subst. apply IHa in Hin. exact Hin.
Qed.

(* ---- the alphabet of a pattern: character classes in consuming position ---- *)
Fixpoint alpha (r:re) : list cset :=
  match r with
  | Chr cs => [cs]
  | Seq a b | Alt a b => alpha a ++ alpha b
  | Rep _ a _ _ | Grp _ a => alpha a
  | _ => []
  end.
Definition covered (A:list cset) (i j:nat) : Prop :=
  forall p, i <= p < j -> exists x cs, nth_error s p = Some x /\ In cs A /\ in_cset x cs = true.
Lemma covered_empty A i : covered A i i. Proof. intros p Hp. lia. Qed.
Lemma covered_trans A i k j : covered A i k -> covered A k j -> covered A i j.
Proof. intros H1 H2 p Hp. destruct (Nat.lt_ge_cases p k); [apply H1|apply H2]; lia. Qed.
Lemma covered_weaken A A' i j : (forall cs, In cs A -> In cs A') -> covered A i j -> covered A' i j.
Proof. intros Hs H p Hp. destruct (H p Hp) as (x & cs & E & I & M). eauto 6. Qed.

Theorem match_alphabet : forall r i c j c', In (j,c') (ms s r i c) -> covered (alpha r) i j.
Proof.
  induction r as [| cs | a IHa b IHb | a IHa b IHb | g a IHa lo hi | | | | ahead neg w a IHa | n a IHa]; intros i c j c' Hin; cbn [ms alpha] in *.
  - destruct Hin as [E|[]]. inversion E; subst. apply covered_empty.
  - destruct (nth_error s i) eqn:En; [|contradiction]. destruct (in_cset c0 cs) eqn:Ec; [|contradiction]. destruct Hin as [E|[]]. inversion E; subst.
    intros p Hp. assert (p = i) by lia. subst. exists c0, cs. simpl. auto.
  - apply in_flat_map in Hin as [[k ck] [H1 H2]]. simpl in H2.
    eapply covered_trans; [eapply covered_weaken; [|eapply IHa; eauto]|eapply covered_weaken; [|eapply IHb; eauto]]; intros; apply in_or_app; auto.
  - apply in_app_or in Hin as [Hin|Hin]; [eapply covered_weaken; [|eapply IHa; eauto]|eapply covered_weaken; [|eapply IHb; eauto]]; intros; apply in_or_app; auto.
  - set (opts := fix opt (n:nat) (hi:option nat) (i:nat) (c:caps) {struct n} : list (nat*caps) :=
        match n with O => [(i,c)] | S n' =>
          match hi with Some O => [(i,c)] | _ =>
            let more := flat_map (fun p => if Nat.eqb (fst p) i then [] else opt n' (option_map pred hi) (fst p) (snd p)) (ms s a i c) in
            if g then more ++ [(i,c)] else (i,c) :: more
          end end) in *.
    assert (Hopt : forall n hi i c j c', In (j,c') (opts n hi i c) -> covered (alpha a) i j).
    { induction n as [|n IHn]; intros hi0 i0 c0 j0 c0' H0; cbn [opts] in H0.
      - destruct H0 as [E|[]]. inversion E; subst. apply covered_empty.
      - assert (Hmore : In (j0,c0') (flat_map (fun p => if Nat.eqb (fst p) i0 then [] else opts n (option_map pred hi0) (fst p) (snd p)) (ms s a i0 c0)) -> covered (alpha a) i0 j0).
        { intros Hm. apply in_flat_map in Hm as [[k ck] [H1 H2]]. simpl in H2. destruct (Nat.eqb k i0); [contradiction|].
          eapply covered_trans; [eapply IHa; eauto|eapply IHn; eauto]. }
        destruct hi0 as [[|h]|]; cbv zeta in H0.
        + destruct H0 as [E|[]]. inversion E; subst. apply covered_empty.
        + destruct g. * apply in_app_or in H0 as [H0|[E|[]]]; auto. inversion E; subst. apply covered_empty.
          * destruct H0 as [E|H0]; auto. inversion E; subst. apply covered_empty.
        + destruct g. * apply in_app_or in H0 as [H0|[E|[]]]; auto. inversion E; subst. apply covered_empty.
          * destruct H0 as [E|H0]; auto. inversion E; subst. apply covered_empty. }
    revert hi i c j c' Hin. induction lo as [|lo IHlo]; intros hi0 i0 c0 j0 c0' Hin.
    + exact (Hopt (S (slen s)) hi0 i0 c0 j0 c0' Hin).
    + apply in_flat_map in Hin as [[k ck] [H1 H2]]. simpl in H2. eapply covered_trans; [eapply IHa; eauto|eapply IHlo; eauto].
  - destruct (Nat.eqb i 0); [|contradiction]. destruct Hin as [E|[]]. inversion E; subst. apply covered_empty.
  - destruct (eol s i); [|contradiction]. destruct Hin as [E|[]]. inversion E; subst. apply covered_empty.
  - destruct (Nat.eqb i (slen s)); [|contradiction]. destruct Hin as [E|[]]. inversion E; subst. apply covered_empty.
  - destruct (xorb neg _); [|contradiction]. destruct Hin as [E|[]]. inversion E; subst. apply covered_empty.
  - apply in_map_iff in Hin as [[k ck] [E Hin]]. simpl in E. inversion E; subst. eapply IHa; eauto.
Qed.

(* ---- search and finditer; spans of a non-nullable pattern are non-empty, ordered and disjoint ---- *)
Definition match_at (r:re) (i:nat) : option (nat*caps) := m s r i [] (fun p => Some p).
Fixpoint search_from (n:nat) (r:re) (i:nat) : option (nat*nat*caps) :=
  match match_at r i with
  | Some (j,c) => Some (i,j,c)
  | None => match n with O => None | S n' => search_from n' r (S i) end
  end.
Fixpoint finditer (fuel:nat) (r:re) (i:nat) : list (nat*nat) :=
  match fuel with O => [] | S fuel =>
    match search_from (slen s - i) r i with
    | Some (a,b,_) => (a,b) :: finditer fuel r (if Nat.eqb a b then S b else b)
    | None => [] end end.

Lemma match_at_in r i j c : match_at r i = Some (j,c) -> In (j,c) (ms s r i []).
Proof. unfold match_at. rewrite m_is_first_of_ms. generalize (ms s r i []). induction l as [|p l IH]; simpl; [discriminate|].
  intros E. injection E as ->. auto. Qed.
Lemma search_from_ge n r i a b c : search_from n r i = Some (a,b,c) -> i <= a /\ match_at r a = Some (b,c).
Proof. revert i; induction n as [|n IH]; intros i; simpl; destruct (match_at r i) as [[j cj]|] eqn:E; try discriminate.
  - intros [= <- <- <-]. auto. - intros [= <- <- <-]. auto. - intros Hs. apply IH in Hs as [L M]. split; [lia|auto]. Qed.

Inductive spans_ok : nat -> list (nat*nat) -> Prop :=
| so_nil lo : spans_ok lo []
| so_cons lo a b l : lo <= a -> a < b -> spans_ok b l -> spans_ok lo ((a,b)::l).

Theorem finditer_spans r : nullable r = false -> forall fuel i, spans_ok i (finditer fuel r i).
Proof.
  intros Hn. induction fuel as [|fuel IH]; intros i; cbn [finditer]; [constructor|].
  destruct (search_from (slen s - i) r i) as [[[a b] c]|] eqn:E; [|constructor].
  apply search_from_ge in E as [L M]. apply match_at_in in M. destruct (ms_mono _ _ _ _ _ M) as [_ S]. specialize (S Hn).
  replace (Nat.eqb a b) with false by (symmetry; apply Nat.eqb_neq; lia). constructor; auto.
Qed.
Theorem finditer_alphabet r fuel i a b : In (a,b) (finditer fuel r i) -> covered (alpha r) a b.
Proof.
  revert i; induction fuel as [|fuel IH]; intros i; cbn [finditer]; [contradiction|].
  destruct (search_from (slen s - i) r i) as [[[a0 b0] c]|] eqn:E; [|contradiction].
  intros [Eq|Hin]; [|eapply IH; eauto]. inversion Eq; subst. apply search_from_ge in E as [_ M]. apply match_at_in in M. eapply match_alphabet; eauto.
Qed.
End F.
Print Assumptions finditer_alphabet.
Print Assumptions finditer_spans.
