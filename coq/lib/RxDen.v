(* A declarative reading of the regex engine: whenever the engine (Rx.ms, the list of successes the backtracking matcher explores in priority order)
   reports that pattern r matches from i to j, the span (i, j) belongs to the language of r in the usual sense -- concatenation, choice, counted
   repetition (count within the bounds), anchors, positive look-around (the looked-at pattern matches where it should; negative look-around
   carries no information).  Soundness only: which of the possible matches the engine prefers is not described here. *)
From Coq Require Import List Arith NArith Bool Lia.
Import ListNotations.
Require Import Rx RxFacts RxComplete.

Section D.
Variable s : list chr.
Notation slen := (length s).

Inductive den : re -> nat -> nat -> Prop :=
| DEps i : den Eps i i
| DChr cs i x : nth_error s i = Some x -> in_cset x cs = true -> den (Chr cs) i (S i)
| DSeq a b i j k : den a i j -> den b j k -> den (Seq a b) i k
| DAltL a b i j : den a i j -> den (Alt a b) i j
| DAltR a b i j : den b i j -> den (Alt a b) i j
| DRep g a lo hi i j n : reps a i j n -> lo <= n -> (forall h, hi = Some h -> lo <= h -> n <= h) -> den (Rep g a lo hi) i j
| DBol : den Bol 0 0
| DEol i : eol s i = true -> den Eol i i
| DEos : den Eos slen slen
| DAhead w a i j : den a i j -> den (Look true false w a) i i
| DBehind w a i : w <= i -> den a (i - w) i -> den (Look false false w a) i i
| DNeg ah w a i : den (Look ah true w a) i i
| DGrp n a i j : den a i j -> den (Grp n a) i j
with reps : re -> nat -> nat -> nat -> Prop :=
| R0 a i : reps a i i 0
| RS a i j k n : den a i j -> reps a j k n -> reps a i k (S n).

Lemma optc_den g a (IHa : forall i c j c', In (j, c') (ms s a i c) -> den a i j) :
  forall n hi i c j c', In (j, c') (optc s g a n hi i c) -> exists k, reps a i j k /\ (forall h, hi = Some h -> k <= h).
Proof.
  induction n as [|n IH]; intros hi i c j c' H; cbn [optc] in H.
  - destruct H as [[= <- <-]|[]]. exists 0. split; [constructor|intros; lia].
  - assert (Hstop : (j, c') = (i, c) -> exists k, reps a i j k /\ (forall h, hi = Some h -> k <= h)).
    { intros [= -> ->]. exists 0. split; [constructor|intros; lia]. }
    assert (Hmore : In (j, c') (flat_map (fun p => if Nat.eqb (fst p) i then [] else optc s g a n (option_map pred hi) (fst p) (snd p)) (ms s a i c)) ->
                    hi <> Some 0 -> exists k, reps a i j k /\ (forall h, hi = Some h -> k <= h)).
    { intros Hin Hhi. apply in_flat_map in Hin as ([m cm] & H1 & H2). cbn [fst snd] in H2. destruct (Nat.eqb m i); [contradiction|].
      destruct (IH _ _ _ _ _ H2) as (k & Rk & Bk). exists (S k). split; [econstructor; [eapply IHa; exact H1|exact Rk]|].
      intros h Eh. subst hi. destruct h as [|h]; [congruence|]. specialize (Bk h eq_refl). lia. }
    destruct hi as [[|h]|].
    + destruct H as [E|[]]. apply Hstop. now symmetry.
    + cbv zeta in H. destruct g.
      * apply in_app_or in H as [H|H]; [apply Hmore; [exact H|discriminate]|]. destruct H as [E|[]]. apply Hstop. now symmetry.
      * destruct H as [E|H]; [apply Hstop; now symmetry|apply Hmore; [exact H|discriminate]].
    + cbv zeta in H. destruct g.
      * apply in_app_or in H as [H|H]; [apply Hmore; [exact H|discriminate]|]. destruct H as [E|[]]. apply Hstop. now symmetry.
      * destruct H as [E|H]; [apply Hstop; now symmetry|apply Hmore; [exact H|discriminate]].
Qed.
Lemma reps_app a i j k n m : reps a i j n -> reps a j k m -> reps a i k (n + m).
Proof. induction 1 as [|a i j j' n D R IH]; intro H2; cbn [Nat.add]; [exact H2|]. econstructor; [exact D|apply IH; exact H2]. Qed.
Lemma mandc_den g a (IHa : forall i c j c', In (j, c') (ms s a i c) -> den a i j) :
  forall lo hi i c j c', In (j, c') (mandc s g a lo hi i c) -> exists k, reps a i j k /\ lo <= k /\ (forall h, hi = Some h -> lo <= h -> k <= h).
Proof.
  induction lo as [|lo IH]; intros hi i c j c' H; cbn [mandc] in H.
  - destruct (optc_den g a IHa _ _ _ _ _ _ H) as (k & Rk & Bk). exists k. split; [exact Rk|split; [lia|intros h Eh _; now apply Bk]].
  - apply in_flat_map in H as ([m cm] & H1 & H2). cbn [fst snd] in H2. destruct (IH _ _ _ _ _ H2) as (k & Rk & Lk & Bk).
    exists (S k). split; [econstructor; [eapply IHa; exact H1|exact Rk]|split; [lia|]].
    intros h Eh Hle. subst hi. destruct h as [|h]; [lia|]. cbn [option_map pred] in Bk. specialize (Bk h eq_refl ltac:(lia)). lia.
Qed.

Theorem ms_den : forall r i c j c', In (j, c') (ms s r i c) -> den r i j.
Proof.
  induction r as [| cs | a IHa b IHb | a IHa b IHb | g a IHa lo hi | | | | ahead neg w a IHa | n a IHa]; intros i c j c' H.
  - cbn [ms] in H. destruct H as [[= <- <-]|[]]. constructor.
  - cbn [ms] in H. destruct (nth_error s i) as [x|] eqn:E; [|destruct H]. destruct (in_cset x cs) eqn:Ec; [|destruct H].
    destruct H as [[= <- <-]|[]]. econstructor; eassumption.
  - cbn [ms] in H. apply in_flat_map in H as ([m cm] & H1 & H2). econstructor; [eapply IHa; exact H1|eapply IHb; exact H2].
  - cbn [ms] in H. apply in_app_or in H as [H|H]; [apply DAltL; eapply IHa; exact H|apply DAltR; eapply IHb; exact H].
  - rewrite ms_rep in H. destruct (mandc_den g a IHa _ _ _ _ _ _ H) as (k & Rk & Lk & Bk). econstructor; eassumption.
  - cbn [ms] in H. destruct (Nat.eqb i 0) eqn:E0; [apply Nat.eqb_eq in E0; subst i|destruct H]. destruct H as [[= <- <-]|[]]. constructor.
  - cbn [ms] in H. destruct (eol s i) eqn:E; [|destruct H]. destruct H as [[= <- <-]|[]]. now constructor.
  - cbn [ms] in H. unfold Rx.slen in H. destruct (Nat.eqb i slen) eqn:E0; [apply Nat.eqb_eq in E0; subst i|destruct H]. destruct H as [[= <- <-]|[]]. constructor.
  - cbn [ms] in H. destruct neg.
    + destruct (xorb true _); [|destruct H]. destruct H as [[= <- <-]|[]]. constructor.
    + destruct ahead.
      * destruct (existsb _ (ms s a i c)) eqn:E; cbn [xorb] in H; [|destruct H]. destruct H as [[= <- <-]|[]].
        apply existsb_exists in E as ([m cm] & Hin & _). econstructor. eapply IHa; exact Hin.
      * destruct (Nat.leb w i) eqn:Hw; cbn [xorb] in H; [apply Nat.leb_le in Hw|destruct H].
        destruct (existsb _ (ms s a (i - w) c)) eqn:E; [|destruct H]. destruct H as [[= <- <-]|[]].
        apply existsb_exists in E as ([m cm] & Hin & Em). cbn [fst] in Em. apply Nat.eqb_eq in Em. subst m. constructor; [exact Hw|eapply IHa; exact Hin].
  - cbn [ms] in H. apply in_map_iff in H as ([m cm] & [= <- <-] & Hin). cbn [fst]. constructor. eapply IHa; exact Hin.
Qed.

(* a counted repetition of one character class: the span is n characters of the class *)
Lemma reps_chr cs : forall n i j, reps (Chr cs) i j n -> j = i + n /\ forall k, i <= k < j -> exists x, nth_error s k = Some x /\ in_cset x cs = true.
Proof.
  induction n as [|n IH]; intros i j H; inversion H; subst.
  - split; [lia|intros k Hk; lia].
  - match goal with D : den (Chr cs) _ _ |- _ => inversion D; subst end.
    match goal with R : reps (Chr cs) (S i) j n |- _ => destruct (IH _ _ R) as [-> Hall] end.
    split; [lia|]. intros k Hk. destruct (Nat.eq_dec k i) as [->|]; [eauto|apply Hall; lia].
Qed.
End D.
