(* Completeness facts for the regex engine: a greedy repetition of a character class over a text whose remaining characters all
   belong to the class reaches the end of the text first; used to show that concrete generated patterns DO match. *)
From Coq Require Import List Arith NArith Bool Lia.
Import ListNotations.
Require Import Rx RxFacts.

Section C.
Variable s : list chr.
Notation slen := (length s).

(* top-level copies of the two local fixpoints of ms (Rep ...) *)
Fixpoint optc (g:bool) (a:re) (n:nat) (hi:option nat) (i:nat) (c:caps) {struct n} : list (nat*caps) :=
  match n with O => [(i,c)] | S n' =>
    match hi with Some O => [(i,c)] | _ =>
      let more := flat_map (fun p => if Nat.eqb (fst p) i then [] else optc g a n' (option_map pred hi) (fst p) (snd p)) (ms s a i c) in
      if g then more ++ [(i,c)] else (i,c) :: more
    end end.
Fixpoint mandc (g:bool) (a:re) (lo:nat) (hi:option nat) (i:nat) (c:caps) {struct lo} : list (nat*caps) :=
  match lo with O => optc g a (S slen) hi i c
  | S lo' => flat_map (fun p => mandc g a lo' (option_map pred hi) (fst p) (snd p)) (ms s a i c) end.
Lemma ms_rep g a lo hi i c : ms s (Rep g a lo hi) i c = mandc g a lo hi i c.
Proof.
  assert (Hopt : forall n hi i c,
    (fix opt (n:nat) (hi:option nat) (i:nat) (c:caps) {struct n} : list (nat*caps) :=
        match n with O => [(i,c)] | S n' =>
          match hi with Some O => [(i,c)] | _ =>
            let more := flat_map (fun p => if Nat.eqb (fst p) i then [] else opt n' (option_map pred hi) (fst p) (snd p)) (ms s a i c) in
            if g then more ++ [(i,c)] else (i,c) :: more
          end end) n hi i c = optc g a n hi i c).
  { induction n as [|n IH]; intros hi0 i0 c0; [reflexivity|].
    cbn [optc]. destruct hi0 as [[|h]|]; try reflexivity.
    - cbv zeta. erewrite flat_map_ext; [reflexivity|]. intros p. cbv beta. destruct (Nat.eqb (fst p) i0); [reflexivity|]. apply IH.
    - cbv zeta. erewrite flat_map_ext; [reflexivity|]. intros p. cbv beta. destruct (Nat.eqb (fst p) i0); [reflexivity|]. apply IH. }
  cbn [ms]. revert hi i c. induction lo as [|lo IH]; intros hi0 i0 c0.
  - exact (Hopt (S slen) hi0 i0 c0).
  - cbn [mandc]. apply flat_map_ext. intros p. apply IH.
Qed.

(* all characters from position i on belong to cs *)
Definition all_from (cs : cset) (i : nat) : Prop := forall j x, i <= j -> nth_error s j = Some x -> in_cset x cs = true.

Lemma optc_class_greedy_head cs : forall d n i c, slen - i = d -> d < n -> i <= slen -> all_from cs i ->
  exists rest, optc true (Chr cs) n None i c = (slen, c) :: rest.
Proof.
  induction d as [|d IH]; intros n i c Hd Hn Hi Hall; destruct n as [|n]; try lia; cbn [optc ms option_map].
  - assert (i = slen) by lia. subst i. rewrite (proj2 (nth_error_None s slen) (le_n _)). cbn [flat_map app]. eexists. reflexivity.
  - destruct (nth_error s i) as [x|] eqn:E; [|apply nth_error_None in E; lia].
    rewrite (Hall i x (le_n _) E). cbn [flat_map fst snd app]. replace (Nat.eqb (S i) i) with false by (symmetry; apply Nat.eqb_neq; lia).
    rewrite app_nil_r.
    destruct (IH n (S i) c ltac:(lia) ltac:(lia) ltac:(apply nth_error_Some; congruence || (apply Nat.lt_le_incl; apply nth_error_Some; congruence))) as (rest & ->).
    + intros j y Hj Hy. apply (Hall j y); [lia|exact Hy].
    + eexists. reflexivity.
Qed.

(* a pattern  <one class character or more, greedy> then end-of-line, entered at position i with at least one character left, all of
   them in the class: the list of successes starts with the end of the text *)
Lemma rep1_then_eol_head cs i c : i < slen -> all_from cs i ->
  exists rest, ms s (Seq (Rep true (Chr cs) 1 None) Eol) i c = (slen, c) :: rest.
Proof.
  intros Hi Hall.
  change (ms s (Seq (Rep true (Chr cs) 1 None) Eol) i c) with (flat_map (fun p => ms s Eol (fst p) (snd p)) (ms s (Rep true (Chr cs) 1 None) i c)).
  rewrite ms_rep. cbn [mandc ms option_map].
  destruct (nth_error s i) as [x|] eqn:E; [|apply nth_error_None in E; lia].
  rewrite (Hall i x (le_n _) E). cbn [flat_map fst snd]. rewrite app_nil_r.
  destruct (optc_class_greedy_head cs (slen - S i) (S slen) (S i) c eq_refl ltac:(lia) ltac:(lia)) as (rest & ->).
  - intros j y Hj Hy. apply (Hall j y); [lia|exact Hy].
  - cbn [flat_map fst snd]. unfold eol. rewrite Nat.eqb_refl. cbn [orb app]. eexists. reflexivity.
Qed.

(* stepping through a sequence whose head is an anchor or a single class character *)
Lemma ms_seq_bol r c : ms s (Seq Bol r) 0 c = ms s r 0 c ++ [].
Proof. reflexivity. Qed.
Lemma ms_seq_chr_hit cs r i c x : nth_error s i = Some x -> in_cset x cs = true -> ms s (Seq (Chr cs) r) i c = ms s r (S i) c ++ [].
Proof. intros H1 H2. cbn [ms]. rewrite H1, H2. reflexivity. Qed.
Lemma ms_seq_chr_miss cs r i c x : nth_error s i = Some x -> in_cset x cs = false -> ms s (Seq (Chr cs) r) i c = [].
Proof. intros H1 H2. cbn [ms]. rewrite H1, H2. reflexivity. Qed.
Lemma ms_seq_rep1_miss g cs lo hi r i c x : nth_error s i = Some x -> in_cset x cs = false -> ms s (Seq (Rep g (Chr cs) (S lo) hi) r) i c = [].
Proof.
  intros H1 H2.
  change (ms s (Seq (Rep g (Chr cs) (S lo) hi) r) i c) with (flat_map (fun p => ms s r (fst p) (snd p)) (ms s (Rep g (Chr cs) (S lo) hi) i c)).
  rewrite ms_rep. cbn [mandc ms]. rewrite H1, H2. reflexivity.
Qed.
End C.
