(* C04: preserved prefixes are kept (inside stays inside, outside stays outside), for every B *)
From Coq Require Import List Bool Arith Lia.
Import ListNotations.
Require Import PPCore Memo MemoProofs PPHost.

Section S.
Variable H : bits -> bool.
Variable n B : nat.
Variable seeds : list bits.
Notation m := (n - B).
Notation f := (Memo.f H seeds).
Notation A := (Memo.A H seeds).
Notation pinned := (Memo.pinned seeds).
Definition image (x:bits) : bits := PPHost.AB f m x.

Lemma is_prefix_spec p x : is_prefix p x = true <-> exists r, x = p ++ r.
Proof. revert x; induction p as [|a p IH]; intros x; simpl.
  - split; eauto.
  - destruct x as [|c x]. + split; [discriminate|]. intros [r E]. discriminate.
    + rewrite andb_true_iff, IH. split.
      * intros [E [r ->]]. apply Bool.eqb_prop in E. subst. eauto.
      * intros [r E]. injection E as -> ->. rewrite Bool.eqb_reflx. eauto. Qed.

(* every proper prefix of a preserved prefix is pinned; A fixes every prefix of a preserved prefix *)
Lemma A_fixes_prefix_of_seed P q : In P seeds -> is_prefix q P = true -> A q = q.
Proof.
  intros Hin Hq. destruct q as [|c q] using rev_ind; [reflexivity|]. clear IHq.
  apply (MemoProofs.A_pinned_child H seeds). unfold Memo.pinned. apply existsb_exists. exists P. split; auto.
  destruct (MemoProofs.is_prefix_snoc_inv _ _ _ Hq) as [E L]. rewrite E. simpl. now apply Nat.ltb_lt.
Qed.

Lemma anon_from_app pre p r : anon_from f pre (p ++ r) = anon_from f pre p ++ anon_from f (pre ++ p) r.
Proof. revert pre; induction p as [|a p IH]; intros pre; simpl. - now rewrite app_nil_r. - rewrite IH. now rewrite <- app_assoc. Qed.

Lemma is_prefix_refl P : is_prefix P P = true.
Proof. induction P; simpl; auto. now rewrite Bool.eqb_reflx. Qed.

Theorem inside_stays_inside P x : In P seeds -> is_prefix P x = true -> is_prefix P (image x) = true.
Proof.
  intros Hin Hx. apply is_prefix_spec in Hx as [r ->]. apply is_prefix_spec. unfold image, PPHost.AB.
  destruct (Nat.le_gt_cases (length P) m) as [Hle|Hgt].
  - rewrite firstn_app. rewrite (firstn_all2 P) by lia. unfold anon. rewrite anon_from_app.
    fold (anon f P). change (anon f P) with (A P). rewrite (A_fixes_prefix_of_seed P P Hin (is_prefix_refl P)).
    rewrite <- app_assoc. eauto.
  - assert (E : firstn m (P ++ r) = firstn m P) by (rewrite firstn_app; replace (m - length P) with 0 by lia; simpl; now rewrite app_nil_r).
    rewrite E. change (anon f (firstn m P)) with (A (firstn m P)).
    rewrite (A_fixes_prefix_of_seed P (firstn m P) Hin (MemoProofs.is_prefix_firstn P m)). rewrite <- E, firstn_skipn. eauto.
Qed.

Lemma lcp_ge_common P a b : is_prefix P a = true -> is_prefix P b = true -> length P <= lcp a b.
Proof. intros Ha Hb. apply is_prefix_spec in Ha as [ra ->]. apply is_prefix_spec in Hb as [rb ->]. rewrite PPHost.lcp_app_same. lia. Qed.
Lemma lcp_lt_outside P x t : is_prefix P x = false -> lcp x (P ++ t) < length P.
Proof. revert x; induction P as [|a P IH]; intros x Hx; simpl in *; [discriminate|].
  destruct x as [|c x]; simpl; [lia|].
  destruct a, c; simpl in *; try lia; specialize (IH x Hx); lia. Qed.

Theorem outside_stays_outside P x : In P seeds -> length P <= length x -> is_prefix P x = false -> is_prefix P (image x) = false.
Proof.
  intros Hin L Hx. destruct (is_prefix P (image x)) eqn:E; auto. exfalso.
  set (x0 := P ++ skipn (length P) x).
  assert (L0 : length x = length x0).
  { unfold x0. rewrite app_length, skipn_length. lia. }
  assert (H0 : is_prefix P (image x0) = true) by (apply inside_stays_inside; auto; apply is_prefix_spec; unfold x0; eauto).
  pose proof (lcp_ge_common P _ _ E H0) as Hge.
  unfold image in Hge. rewrite PPHost.AB_lcp in Hge by exact L0.
  pose proof (lcp_lt_outside P x (skipn (length P) x) Hx). fold x0 in H1. lia.
Qed.

(* host bits: the last B bits are untouched and the leading part does not depend on them *)
Theorem host_bits_kept x : skipn m (image x) = skipn m x.
Proof. apply PPHost.skipn_AB. Qed.
Theorem lead_independent x x' : firstn m x = firstn m x' -> firstn m (image x) = firstn m (image x').
Proof. intros E. unfold image. rewrite !PPHost.firstn_AB. now rewrite E. Qed.

(* the same four facts for the undo direction, from AB (DB y) = y *)
Definition preimage (y:bits) : bits := MemoProofs.DB H n B seeds y.
Lemma image_preimage y : image (preimage y) = y.
Proof. exact (MemoProofs.AB_DB H n B seeds y). Qed.
Lemma preimage_len y : length (preimage y) = length y.
Proof. exact (MemoProofs.DB_len H n B seeds y). Qed.
Theorem undo_inside_stays_inside P y : In P seeds -> length P <= length y -> is_prefix P y = true -> is_prefix P (preimage y) = true.
Proof.
  intros Hin L Hy. destruct (is_prefix P (preimage y)) eqn:E; auto. exfalso.
  pose proof (outside_stays_outside P (preimage y) Hin ltac:(rewrite preimage_len; exact L) E) as C.
  rewrite image_preimage in C. congruence.
Qed.
Theorem undo_outside_stays_outside P y : In P seeds -> is_prefix P y = false -> is_prefix P (preimage y) = false.
Proof.
  intros Hin Hy. destruct (is_prefix P (preimage y)) eqn:E; auto. exfalso.
  pose proof (inside_stays_inside P (preimage y) Hin E) as C. rewrite image_preimage in C. congruence.
Qed.
Theorem undo_host_bits_kept y : skipn m (preimage y) = skipn m y.
Proof. rewrite <- (image_preimage y) at 2. symmetry. apply host_bits_kept. Qed.
End S.
Print Assumptions outside_stays_outside.
