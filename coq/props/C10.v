(* C10 -- listed sensitive words never survive; reserved words always do.
   Proved (lib/Words.v, token model): after leftmost-first substitution of a case-insensitive alternation of literal words by six-character hex
   pseudonyms, NO listed good word (first/last character outside hex, no run of six hex characters) occurs in the output -- for every case folding,
   every pseudonym function and EVERY ORDER of the alternation.  The tie of that token model to model/TextModel.v (regex built from the word list,
   per-token substitution, conflicting reserved words) is by correspondence; the order used by the code is fixed (longest first), see C13. *)
From Coq Require Import String.
From Coq Require Import List Bool Arith NArith ZArith.
Import ListNotations.
Require Import Words Str Rx RxFacts TextModel TextProofs.
Require Rx RxLang RxSub WordToken G_rx.

Theorem C10_no_listed_word_survives :
  forall (lc : Words.chr -> Words.chr) (hex : Words.chr -> bool) (P : list Words.chr -> list Words.chr),
  (forall x, length (P x) = 6) -> (forall x, Forall (fun c => hexish lc hex c = true) (P x)) ->
  forall ws : list (list Words.chr), (forall w, In w ws -> good_word lc hex w) ->
  forall t w, In w ws -> ~ occurs lc w (anonymize_token lc P ws t).
Proof. exact no_listed_word_survives. Qed.

(* in the model a token that is (case-insensitively) a conflicting reserved word is returned unchanged *)
Theorem C10_reserved_token_untouched :
  forall (a : word_anonymizer) (w : str), mem_str (lower_str w) (w_conflicting a) = true -> anonymize_word_token a w = Done w.
Proof. intros a w H. unfold anonymize_word_token. rewrite H. reflexivity. Qed.

(* and a secret value that is a reserved word is returned unchanged by the secrets stage *)
Theorem C10_reserved_secret_untouched :
  forall orc raw lookup reserved salt, mem_str (snd (fst (extract_enclosing raw [] []))) reserved = true ->
  anonymize_value orc raw lookup reserved salt = Done (raw, lookup).
Proof.
  intros orc raw lookup reserved salt H. unfold anonymize_value.
  destruct (extract_enclosing raw [] []) as [[h v] t]. cbn [fst snd] in H. rewrite H. reflexivity.
Qed.


(* What the word stage can replace, for EVERY word list, line and position (model/WordToken.v, through the declarative reading of the regex engine in
   lib/RxDen.v / lib/RxLang.v): a span the engine reports for the sensitive-word pattern is, character by character, a case variant (by the GENERATED table
   of CPython's IGNORECASE folding) of ONE of the listed words; and on ASCII characters "case variant" means equal up to ASCII letter case (the table
   evaluated on all 128 x 128 pairs).  So nothing but (case variants of) listed words is ever replaced by this stage. *)
Theorem C10_word_pattern_matches_only_case_variants_of_listed_words :
  forall (s : list Rx.chr) (words reserved : list str) (salt : str) (a : word_anonymizer) (i : nat) (c : Rx.caps) (j : nat) (c' : Rx.caps),
  word_init words salt reserved = Done a -> words <> [] -> (i <= length s)%nat ->
  In (j, c') (Rx.ms s (w_regex a) i c) ->
  exists w, In w (map lower_str words) /\ Forall2 WordToken.folds_to (RxLang.sub s i j) w.
Proof. exact WordToken.word_match_is_a_case_variant_of_a_listed_word. Qed.

Theorem C10_case_variant_on_ascii_is_equality_up_to_letter_case :
  forall x c : N, (x < 128)%N -> (c < 128)%N -> WordToken.folds_to x c -> lower_ascii x = lower_ascii c.
Proof. exact WordToken.folds_to_ascii. Qed.


(* the model's word alternation against the SOURCE: on a sample word list (mixed case, a hyphen, an underscore, a digit), the AST CPython's parser makes of the
   pattern text SensitiveWordAnonymizer builds with re.IGNORECASE (regenerated on this run, gen/G_rx.v WORD_SAMPLE_RX) reports exactly what the model's
   pattern reports, on every line and position: same lower-casing, same order (longest first), same case folding of every letter *)
Theorem C10_word_pattern_is_what_python_compiles_on_a_sample :
  forall (s : list Rx.chr) (i : nat) (c : Rx.caps),
  match word_init WordToken.WORD_SAMPLE [115%N] [] with    (* WORD_SAMPLE = ["ab"; "Cde"; "k-s_9"], salt "s" *)
  | Done a => Rx.ms s (w_regex a) i c = Rx.ms s G_rx.WORD_SAMPLE_RX i c
  | Raised _ => False
  end.
Proof. exact WordToken.word_template_is_what_python_compiles_on_a_sample. Qed.


(* ... and the other half: wherever a case variant of a listed word occurs in a text (inside a longer string or not), the word pattern has a match starting
   there, so the leftmost search over that text finds a match: a token containing a listed word in any letter case is always rewritten by the stage (unless
   the token as a whole is a reserved word, which the stage tests first).  Through the engine's completeness for anchor-free patterns (lib/RxLang.lang_ms). *)
Theorem C10_every_occurrence_of_a_listed_word_makes_the_pattern_match :
  forall (s : list Rx.chr) (words reserved : list str) (salt : str) (a : word_anonymizer) (w t : list Rx.chr) (i : nat),
  word_init words salt reserved = Done a -> In w (map lower_str words) -> w <> [] -> Forall2 WordToken.folds_to t w -> RxLang.occ s t i ->
  RxSub.search s (w_regex a) <> None.
Proof. exact WordToken.word_occurrence_makes_the_pattern_match. Qed.

Print Assumptions C10_no_listed_word_survives.
Print Assumptions C10_reserved_token_untouched.
Print Assumptions C10_reserved_secret_untouched.
Print Assumptions C10_word_pattern_matches_only_case_variants_of_listed_words.
Print Assumptions C10_case_variant_on_ascii_is_equality_up_to_letter_case.
Print Assumptions C10_word_pattern_is_what_python_compiles_on_a_sample.
Print Assumptions C10_every_occurrence_of_a_listed_word_makes_the_pattern_match.
