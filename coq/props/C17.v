(* C17 -- the dumped map is exactly the mapping that was applied.
   Proved for every flip function, width, host-bit count, preserved list and EVERY request history on the memo machine:
   complete (every anonymized address has its full-length entry with the answer that was returned -- by the memoised walk when B = 0, by the
   explicit write when B > 0), sound (every entry is (k, image k)), duplicate-free (no key and no value twice, from the constructor on). *)
From Coq Require Import List Bool Arith.
Import ListNotations.
Require Import PPCore Memo MemoProofs DumpProofs.

Section C17.
Variable H : bits -> bool.
Variables n B : nat.
Variable seeds : list bits.

Theorem C17_dump_complete :
  forall ops d d' outs, MemoProofs.run H n B d ops = Ok (d', outs) ->
  (forall q r, bget d q = Some r -> bget d' q = Some r) /\
  forall k x, nth_error ops k = Some (Anon x) -> exists y, nth_error outs k = Some y /\ bget d' x = Some y.
Proof. exact (dump_complete H n B). Qed.

Theorem C17_dump_sound :
  forall ops d, MemoProofs.Inv H n B seeds d -> Forall (fun o => op_len o = n) ops ->
  exists d', MemoProofs.run H n B d ops = Ok (d', map (MemoProofs.pure H n B seeds) ops) /\ forall k v, In (k, v) d' -> v = Memo.A' H n B seeds k.
Proof. exact (dump_sound H n B seeds). Qed.

Theorem C17_dump_duplicate_free :
  forall ops d0 d' outs, Memo.init seeds = Ok d0 -> MemoProofs.run H n B d0 ops = Ok (d', outs) -> Uniq d'.
Proof. intros ops d0 d' outs E R. exact (dump_duplicate_free H n B ops d0 d' outs (init_uniq H seeds d0 E) R). Qed.
End C17.

Print Assumptions C17_dump_complete.
Print Assumptions C17_dump_sound.
Print Assumptions C17_dump_duplicate_free.
