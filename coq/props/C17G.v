(* C17G -- theorems of C17 about the function-level code GENERATED on this run from /repo's source (coq/gen/G_fn_ip3.v: _BaseIpAnonymizer.dump_to_file
   and _ip_to_str) and refined to the model in coq/refine/RefDump.v.  Kept apart from props/C17.v: when a behaviour-preserving rewrite of the source
   makes the script fail, the property is still decided by the model theorems of props/C17.v and the correspondence run; see DESIGN.md section 4. *)
From Coq Require Import String.
From Coq Require Import List Bool Arith NArith ZArith.
Import ListNotations.
Require Import PyLib PyLib2 Str IpText Memo IpModel TextModel G_fn_ip3 RefJun RefIpCommon RefIoBase RefIpLine RefDump.
Require MemoProofs.

(* dump_to_file translated from the source writes the model's dump: for an anonymizer in ANY state the memo invariant describes (every state reachable
   from the constructor by any request history, C03), exactly the entries whose key has the family's full width, in insertion order, one line
   "<original>\t<replacement>\n" each, appended to what the file holds; nothing else is written and the anonymizer is returned unchanged.  The
   subclass's make_addr_from_int is any dispatcher that prints the integer the way pr does. *)
Theorem C17_generated_dump_to_file_is_the_model :
  forall (clsname : list Z) (saltv fmtv salterv : pyval) (Bz : Z) (rest : list (pyval * pyval)) (pr : N -> str) (py_call : pyval -> pyval -> PyLib.res),
  (forall o y, py_call (VFun (of_string "make_addr_from_int")) (VList [o; VInt (Z.of_N y)]) = Normal (RefJun.vstr (pr y))) ->
  forall (a : anonymizer) (seeds : list (list bool)), (0 < a_n a)%nat -> MemoProofs.Inv (a_H a) (a_n a) (a_B a) seeds (a_cache a) ->
  forall fuel (outs0 : list pyval),
  gen__BaseIpAnonymizer__dump_to_file py_call fuel (mkself clsname saltv (VInt (Z.of_nat (a_n a))) fmtv salterv Bz rest (a_cache a)) (VList outs0)
  = Normal (VTuple [VNone; mkself clsname saltv (VInt (Z.of_nat (a_n a))) fmtv salterv Bz rest (a_cache a);
                    VList (outs0 ++ map (fun p => RefJun.vstr (pr (fst p) ++ [9%N] ++ pr (snd p) ++ [10%N])) (dump a))]).
Proof. exact gen_dump_to_file_is_the_model. Qed.

(* both families into one file, IPv4 first (anonymize_files.py:219-222, the two calls themselves are not translated): what the file holds afterwards is
   the model's dump_lines, the text the correspondence run compares with the real dump file.  The dispatchers are RefIpLine.ip_call, which print
   with the model's print4 / print6 (themselves compared with ipaddress by the correspondence run). *)
Theorem C17_generated_dump_of_both_families_is_dump_lines :
  forall (cls4 cls6 : list Z) (s4 f4 h4 s6 f6 h6 : pyval) (B4 B6 : Z) (r4 r6 : list (pyval * pyval)) (t4 t6 : anonymizer)
         (f : file_anonymizer) (a4 a6 : anonymizer) (seeds4 seeds6 : list (list bool)),
  fa_a4 f = Some a4 -> fa_a6 f = Some a6 -> a_n a4 = 32%nat -> a_n a6 = 128%nat ->
  MemoProofs.Inv (a_H a4) (a_n a4) (a_B a4) seeds4 (a_cache a4) -> MemoProofs.Inv (a_H a6) (a_n a6) (a_B a6) seeds6 (a_cache a6) ->
  forall fuel, exists o4 o6 mid,
  gen__BaseIpAnonymizer__dump_to_file (ip_call false t4) fuel (mkself cls4 s4 (VInt 32) f4 h4 B4 r4 (a_cache a4)) (VList []) = Normal (VTuple [VNone; o4; VList mid]) /\
  gen__BaseIpAnonymizer__dump_to_file (ip_call true t6) fuel (mkself cls6 s6 (VInt 128) f6 h6 B6 r6 (a_cache a6)) (VList mid) = Normal (VTuple [VNone; o6; VList (map RefJun.vstr (dump_lines f))]).
Proof.
  intros cls4 cls6 s4 f4 h4 s6 f6 h6 B4 B6 r4 r6 t4 t6 f a4 a6 seeds4 seeds6 E4 E6 N4 N6 I4 I6 fuel.
  pose proof (gen_dump_to_file_is_the_model cls4 s4 f4 h4 B4 r4 print4 (ip_call false t4) (fun o y => c_from_int false t4 o y) a4 seeds4 ltac:(rewrite N4; auto with arith) I4 fuel []) as D4.
  rewrite N4 in D4. cbn [app] in D4. change (Z.of_nat 32) with 32%Z in D4.
  pose proof (gen_dump_to_file_is_the_model cls6 s6 f6 h6 B6 r6 print6 (ip_call true t6) (fun o y => c_from_int true t6 o y) a6 seeds6 ltac:(rewrite N6; auto with arith) I6 fuel
                (map (fun p => RefJun.vstr (print4 (fst p) ++ [9%N] ++ print4 (snd p) ++ [10%N])) (dump a4))) as D6.
  rewrite N6 in D6. change (Z.of_nat 128) with 128%Z in D6.
  do 3 eexists. split; [exact D4|]. etransitivity; [exact D6|]. unfold dump_lines. rewrite E4, E6, map_app, !map_map. reflexivity.
Qed.

(* non-vacuity: the generated function run on a concrete cache (the root entry, a short entry and one full-length IPv4 entry) writes the one line *)
Example C17G_concrete_dump :
  let t := {| a_n := 32; a_B := 8; a_H := fun _ => false; a_cache := []; a_nets := [] |} in
  let d := [([], []); ([true; false], [false; false]); (fmt_bits 32 16909060, fmt_bits 32 151521030)] in
  gen__BaseIpAnonymizer__dump_to_file (ip_call false t) 0 (mkself [] VNone (VInt 32) VNone VNone 8 [] d) (VList [])
  = Normal (VTuple [VNone; mkself [] VNone (VInt 32) VNone VNone 8 [] d; VList [RefJun.vstr (lit "1.2.3.4" ++ [9%N] ++ lit "9.8.7.6" ++ [10%N])]]).
Proof. vm_compute. reflexivity. Qed.

Print Assumptions C17_generated_dump_to_file_is_the_model.
Print Assumptions C17_generated_dump_of_both_families_is_dump_lines.
