(* C01 -- IP anonymization preserves common-prefix length; injective; a permutation.
   Statements only; every proof is `exact <lemma of lib/>`.  H is ANY flip function of the original
   head (the salt only selects H), n any width (32, 128, ...), B any host-bit count, seeds any list of
   preserved prefixes/networks (as bit strings). *)
From Coq Require Import String.
From Coq Require Import List Bool Arith ZArith.
Import ListNotations.
Require Import PPCore PPHost Memo MemoProofs PyLib G_fn_ip RefIpCommon RefAnon.

Section C01.
Variable H : bits -> bool.
Variables n B : nat.
Variable seeds : list bits.
(* the mapping: walk the first n-B bits with flip = 0 on pinned nodes and H elsewhere, keep the last B bits *)
Definition image (x : bits) : bits := MemoProofs.AB H n B seeds x.
Definition preimage (y : bits) : bits := MemoProofs.DB H n B seeds y.

Theorem C01_common_prefix_length_preserved :
  forall a b, length a = length b -> lcp (image a) (image b) = lcp a b.
Proof. exact (PPHost.AB_lcp (Memo.f H seeds) (n - B)). Qed.

Theorem C01_injective : forall a b, length a = length b -> image a = image b -> a = b.
Proof. exact (PPHost.AB_inj (Memo.f H seeds) (n - B)). Qed.

Theorem C01_surjective : forall y, image (preimage y) = y /\ length (preimage y) = length y.
Proof. exact (fun y => conj (MemoProofs.AB_DB H n B seeds y) (MemoProofs.DB_len H n B seeds y)). Qed.

(* the code (memoised walk + seeding loop + bidict that raises on duplicates), on a freshly constructed
   anonymizer and for EVERY request history, returns exactly `image` / `preimage` and never raises *)
Theorem C01_code_computes_image :
  forall ops, Forall (fun o => op_len o = n) ops ->
  exists d0 d', Memo.init seeds = Ok d0 /\
                MemoProofs.run H n B d0 ops = Ok (d', map (MemoProofs.pure H n B seeds) ops).
Proof. exact (MemoProofs.fresh_history H n B seeds). Qed.
End C01.

(* TIE A (function level): the Gallina code GENERATED on this run from _BaseIpAnonymizer.anonymize / _anonymize_bits, started on any
   memo satisfying the invariant, returns the pure image and re-establishes the invariant -- for every salter H that the
   function-valued field implements.  (py_format / py_int at the two edges are library models, taken as given at the point of use.) *)
Theorem C01_generated_anonymize_returns_the_pure_image :
  forall (H : list bool -> bool) (py_call : pyval -> pyval -> PyLib.res) (clsname : list Z) (saltv lengthv fmtv salterv : pyval) (rest : list (pyval * pyval))
         (n B : nat) (seeds : list (list bool)),
  (forall b, py_call salterv (VList [saltv; VS b]) = Normal (VInt (if H b then 1 else 0)%Z)) ->
  forall d x bits y, MemoProofs.Inv H n B seeds d -> List.length bits = n -> (B <= n)%nat ->
  py_format fmtv (VList [VInt x]) (VDict []) = Normal (VS bits) ->
  py_int (VS (MemoProofs.AB H n B seeds bits)) (VInt 2) = Normal (VInt y) ->
  exists d', gen__BaseIpAnonymizer__anonymize py_call (S (List.length bits)) (mkself clsname saltv lengthv fmtv salterv (Z.of_nat B) rest d) (VInt x)
             = Normal (VTuple [VInt y; mkself clsname saltv lengthv fmtv salterv (Z.of_nat B) rest d']) /\ MemoProofs.Inv H n B seeds d'.
Proof. exact gen_anonymize_returns_image. Qed.

(* non-vacuity: a concrete 4-bit instance with one preserved prefix and one host bit *)
Example C01_instance :
  let H := fun h : bits => Nat.odd (length h) in
  MemoProofs.AB H 4 1 [[true; false]] [false; true; true; false] = [false; false; true; false]
  /\ lcp [false; true; true; false] [false; true; false; false] = 2.
Proof. vm_compute. split; reflexivity. Qed.

(* End to end over GENERATED code only: the generated constructor (seeding loops, ipaddress parsing), with the salter field dispatched to the
   generated _generate_bit_from_hash (MD5 of salt + bit string), builds an object on which -- in every later state satisfying the invariant,
   hence after any request history -- the generated anonymize / deanonymize return the pure prefix-preserving image / pre-image under the flip
   function salter_md5 salt with the listed prefixes pinned.  The theorems above are about that image. *)
Require Import Str IpModel RefDeanon RefInit RefHash RefEndToEnd.
Theorem C01_generated_pipeline_computes_the_prefix_preserving_image :
  forall (salt : str) (clsname : list Z) (salterv : pyval) (B : nat) (Ps : list (list bool)),
  utf8 salt <> None ->
  forall fuel (strs : list pyval) (pa : option (list pyval)) (nets : list pyval) (kw : pyval),
  kw_lookup kw "salter" (VFun (of_string "_generate_bit_from_hash")) = salterv ->
  kw_lookup kw "preserve_suffix" VNone = VInt (Z.of_nat B) ->
  Forall2 (fun a n => ip_network a = Normal n) (pa_items pa) nets ->
  Forall2 subnet_bits (strs ++ pa_items pa) Ps ->
  (B <= 32)%nat ->
  let H := salter_md5 salt in
  let saltv := VStr (map Z.of_N salt) in
  let obj := fun d => mkself clsname saltv (VInt 32%Z) fmt32 salterv (Z.of_nat B) (rest_of nets) d in
  exists d0,
    gen_IpAnonymizer____init__ DriverFn.md5_call fuel (VObj clsname []) saltv (VList strs) (pa_val pa) kw = Normal (VTuple [VNone; obj d0])
    /\ MemoProofs.Inv H 32 B Ps d0
    /\ forall d x bits y, MemoProofs.Inv H 32 B Ps d -> List.length bits = 32%nat ->
         py_format fmt32 (VList [VInt x]) (VDict []) = Normal (VS bits) ->
         (py_int (VS (MemoProofs.AB H 32 B Ps bits)) (VInt 2%Z) = Normal (VInt y) ->
            exists d', gen__BaseIpAnonymizer__anonymize DriverFn.md5_call (S (List.length bits)) (obj d) (VInt x)
                       = Normal (VTuple [VInt y; obj d']) /\ MemoProofs.Inv H 32 B Ps d')
         /\
         (py_int (VS (MemoProofs.DB H 32 B Ps bits)) (VInt 2%Z) = Normal (VInt y) ->
            exists d', gen__BaseIpAnonymizer__deanonymize DriverFn.md5_call (S (List.length bits)) (obj d) (VInt x)
                       = Normal (VTuple [VInt y; obj d']) /\ MemoProofs.Inv H 32 B Ps d').
Proof. intros salt clsname salterv B Ps Hs. exact (generated_constructor_then_requests salt clsname salterv B Ps Hs). Qed.

Print Assumptions C01_generated_pipeline_computes_the_prefix_preserving_image.
Print Assumptions C01_common_prefix_length_preserved.
Print Assumptions C01_injective.
Print Assumptions C01_surjective.
Print Assumptions C01_code_computes_image.
Print Assumptions C01_generated_anonymize_returns_the_pure_image.
