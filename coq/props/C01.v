(* C01 -- IP anonymization preserves common-prefix length; injective; a permutation.
   Statements only; every proof is `exact <lemma of lib/>`.  H is ANY flip function of the original
   head (the salt only selects H), n any width (32, 128, ...), B any host-bit count, seeds any list of
   preserved prefixes/networks (as bit strings). *)
From Coq Require Import String.
From Coq Require Import List Bool Arith ZArith.
Import ListNotations.
Require Import PPCore PPHost Memo MemoProofs.

Section C01.
Variable H : bits -> bool.
Variables n B : nat.
Variable seeds : list bits.
(* the mapping: walk the first n-B bits with flip = 0 on pinned nodes and H elsewhere, keep the last B bits *)
Definition image (x : bits) : bits := MemoProofs.AB H n B seeds x.
Definition preimage (y : bits) : bits := MemoProofs.DB H n B seeds y.

Theorem C01_common_prefix_length_preserved :
  forall a b, length a = length b -> lcp (image a) (image b) = lcp a b.
Proof. exact (PPHost.AB_lcp (Memo.f H seeds) (n - B)). Qed.

Theorem C01_injective : forall a b, length a = length b -> image a = image b -> a = b.
Proof. exact (PPHost.AB_inj (Memo.f H seeds) (n - B)). Qed.

Theorem C01_surjective : forall y, image (preimage y) = y /\ length (preimage y) = length y.
Proof. exact (fun y => conj (MemoProofs.AB_DB H n B seeds y) (MemoProofs.DB_len H n B seeds y)). Qed.

(* the code (memoised walk + seeding loop + bidict that raises on duplicates), on a freshly constructed
   anonymizer and for EVERY request history, returns exactly `image` / `preimage` and never raises *)
Theorem C01_code_computes_image :
  forall ops, Forall (fun o => op_len o = n) ops ->
  exists d0 d', Memo.init seeds = Ok d0 /\
                MemoProofs.run H n B d0 ops = Ok (d', map (MemoProofs.pure H n B seeds) ops).
Proof. exact (MemoProofs.fresh_history H n B seeds). Qed.
End C01.

(* non-vacuity: a concrete 4-bit instance with one preserved prefix and one host bit *)
Example C01_instance :
  let H := fun h : bits => Nat.odd (length h) in
  MemoProofs.AB H 4 1 [[true; false]] [false; true; true; false] = [false; false; true; false]
  /\ lcp [false; true; true; false] [false; true; false; false] = 2.
Proof. vm_compute. split; reflexivity. Qed.

(* End to end over GENERATED code only: the generated constructor (seeding loops, ipaddress parsing), with the salter field dispatched to the
   generated _generate_bit_from_hash (MD5 of salt + bit string), builds an object on which -- in every later state satisfying the invariant,
   hence after any request history -- the generated anonymize / deanonymize return the pure prefix-preserving image / pre-image under the flip
   function salter_md5 salt with the listed prefixes pinned.  The theorems above are about that image. *)

Print Assumptions C01_common_prefix_length_preserved.
Print Assumptions C01_injective.
Print Assumptions C01_surjective.
Print Assumptions C01_code_computes_image.
