(* C18 -- the Juniper $9$ codec round-trips for every plaintext over 0..255 and every salt string;
   malformed input is refused with ValueError.  The tables are the ones READ FROM THE SOURCE on this run. *)
From Coq Require Import String.
From Coq Require Import List Bool Arith NArith.
Import ListNotations.
Require Import Str G_juniper JunModel JunProofs PyLib G_fn_jun RefJun.

Theorem C18_encrypt_then_decrypt_is_identity :
  forall plain salt : str, Forall (fun c => (c < 256)%N) plain ->
  exists crypt, encrypt plain salt = JOk crypt /\ wellformed crypt /\
                ((plain <> [] \/ extra_of_salt salt = Some 3%N) -> decrypt crypt = JOk plain).
Proof. exact encrypt_decrypt_roundtrip. Qed.

Theorem C18_decrypt_fails_only_with_ValueError :
  forall crypt : str, (exists p, decrypt crypt = JOk p) \/ decrypt crypt = JValueError.
Proof. exact decrypt_refuses_with_value_error. Qed.

(* TIE A (function level): the per-character functions GENERATED on this run from utils/juniper_secrets.py agree with the model on
   the whole finite domain a round trip can reach (7 rows x 65 previous characters x 256 code points): a finite sweep, stated as such *)
Theorem C18_generated_per_character_functions_agree_with_the_model_sweep :
  forallb (fun row => forallb (fun p => forallb (fun c => enc_agrees row p c && dec_agrees row p c) bytes256) NUM_ALPHA) ENCODING = true.
Proof. exact generated_per_character_functions_agree_with_the_model. Qed.

(* the full statement (no guard on the empty plaintext) is FALSE of the faithful model: known finding D17 *)
Theorem C18_empty_plaintext_refuted :
  exists salt crypt, encrypt [] salt = JOk crypt /\ decrypt crypt = JValueError.
Proof. exact empty_plaintext_refuted. Qed.

Example C18_instance :
  encrypt (lit "mySecret") (lit "Q") = JOk (lit "$9$QnetF/thSeWXNApBESy8LdbsYJD") /\
  decrypt (lit "$9$QnetF/thSeWXNApBESy8LdbsYJD") = JOk (lit "mySecret") /\
  decrypt (lit "$9$Babc") = JValueError /\ decrypt (lit "$9$ab!d") = JValueError.
Proof. vm_compute. repeat split; reflexivity. Qed.

Print Assumptions C18_encrypt_then_decrypt_is_identity.
Print Assumptions C18_decrypt_fails_only_with_ValueError.
Print Assumptions C18_empty_plaintext_refuted.
Print Assumptions C18_generated_per_character_functions_agree_with_the_model_sweep.
