(* C11 -- AS numbers: block-preserving, whole-number-only, keyed replacement.
   Proved over the boundary table READ FROM THE SOURCE: for every hash value and every AS number 0..4294967295 the replacement lies in the same
   block (block written from the property text); out-of-range numbers are rejected; the hash is non-negative, so the theorem applies to every salt;
   the run-time built pattern is non-nullable.  That matches are exactly the standalone listed numerals is decided by the digit-run oracle of the check. *)
From Coq Require Import String.
From Coq Require Import List Bool Arith NArith ZArith.
Import ListNotations.
Require Import Str Rx RxFacts AsModel G_as_num TextModel TextProofs.
Require Rx RxFacts RxLang RxSub RxSubFacts AsToken G_rx.

Theorem C11_block_preserved_for_every_hash_value :
  forall h asn : Z, (0 <= h)%Z -> (0 <= asn <= 4294967295)%Z ->
  exists r, as_repl h asn = AsOk r /\ (0 <= r <= 4294967295)%Z /\ block r = block asn.
Proof. exact as_block_preserved. Qed.

Theorem C11_out_of_range_rejected : forall h asn : Z, (asn < 0 \/ 4294967295 < asn)%Z -> as_repl h asn = AsValueError.
Proof. exact as_out_of_range_rejected. Qed.

Theorem C11_hash_is_nonnegative : forall salt numeral h, hash_int salt numeral = Some h -> (0 <= h)%Z.
Proof. exact hash_int_nonneg. Qed.

Theorem C11_pattern_consumes_text : forall nums, nums <> [] -> Forall (fun s => s <> []) nums -> RxFacts.nullable (as_rx nums) = false.
Proof. exact as_regex_non_nullable. Qed.

(* whole-number-only, for EVERY list of numerals, every line and every position (model/AsToken.v, through the declarative reading of the regex engine in
   lib/RxDen.v / lib/RxLang.v): a span the engine reports for the AS pattern holds exactly one of the listed numerals, begins at the line start or after a
   non-digit and ends at the line end or before a non-digit -- a listed number is never replaced inside a longer run of digits *)
Theorem C11_pattern_matches_only_listed_whole_numbers :
  forall (s : list Rx.chr) (nums : list (list Rx.chr)) (i : nat) (c : Rx.caps) (j : nat) (c' : Rx.caps), nums <> [] -> (i <= length s)%nat ->
  In (j, c') (Rx.ms s (as_rx nums) i c) ->
  In (RxLang.sub s i j) nums /\
  (i = 0%nat \/ ((1 <= i)%nat /\ exists x, nth_error s (i - 1) = Some x /\ Rx.in_cset x NOT_DIGIT = true)) /\
  (Rx.eol s j = true \/ exists x, nth_error s j = Some x /\ Rx.in_cset x NOT_DIGIT = true).
Proof. exact AsToken.as_match_is_a_listed_whole_number. Qed.

(* ... and the other half: a listed numeral (ASCII digits) standing between non-digits / line ends IS matched, and the engine's first choice (what re.sub
   replaces) covers exactly that numeral -- also when another listed numeral is a prefix of it (RxLang.lang_ms for existence, the theorem above for
   exactness).  At the start of a whole number the AS pattern therefore matches iff the number is listed, and then all of it. *)
Theorem C11_a_listed_whole_number_is_matched_as_a_whole :
  forall (s : list Rx.chr) (nums : list (list Rx.chr)) (n : list Rx.chr) (i : nat),
  Forall (fun m => forallb is_digit m = true) nums -> In n nums -> RxLang.occ s n i -> (i <= length s)%nat ->
  (i = 0%nat \/ ((1 <= i)%nat /\ exists x, nth_error s (i - 1) = Some x /\ Rx.in_cset x NOT_DIGIT = true)) ->
  (Rx.eol s (i + length n) = true \/ exists x, nth_error s (i + length n) = Some x /\ Rx.in_cset x NOT_DIGIT = true) ->
  exists c', RxFacts.match_at s (as_rx nums) i = Some ((i + length n)%nat, c').
Proof. exact AsToken.as_engine_replaces_the_whole_number. Qed.

(* Over a whole line: the leftmost-first scan under re.finditer / re.sub reports EVERY listed numeral that stands as a whole number, with its exact extent, and
   nothing but listed whole numbers -- the spans the AS pass rewrites are exactly the listed whole numbers of the line, for every list and every line. *)
Theorem C11_finditer_reports_every_listed_whole_number :
  forall (s : list Rx.chr) (nums : list (list Rx.chr)) (n : list Rx.chr) (a : nat),
  Forall (fun m => forallb is_digit m = true) nums -> Forall (fun m => m <> []) nums -> In n nums -> RxLang.occ s n a -> (a + length n <= length s)%nat ->
  (a = 0%nat \/ ((1 <= a)%nat /\ exists x, nth_error s (a - 1) = Some x /\ Rx.in_cset x NOT_DIGIT = true)) ->
  (Rx.eol s (a + length n) = true \/ exists x, nth_error s (a + length n) = Some x /\ Rx.in_cset x NOT_DIGIT = true) ->
  forall fuel i : nat, (i <= a)%nat -> (a - i < fuel)%nat -> In (a, (a + length n)%nat) (RxFacts.finditer s fuel (as_rx nums) i).
Proof. exact AsToken.as_finditer_reports_every_listed_whole_number. Qed.

Theorem C11_finditer_reports_only_listed_whole_numbers :
  forall (s : list Rx.chr) (nums : list (list Rx.chr)), nums <> [] -> Forall (fun m => m <> []) nums ->
  forall fuel i a b : nat, (i <= length s)%nat -> In (a, b) (RxFacts.finditer s fuel (as_rx nums) i) ->
  In (RxLang.sub s a b) nums /\
  (a = 0%nat \/ ((1 <= a)%nat /\ exists x, nth_error s (a - 1) = Some x /\ Rx.in_cset x NOT_DIGIT = true)) /\
  (Rx.eol s b = true \/ exists x, nth_error s b = Some x /\ Rx.in_cset x NOT_DIGIT = true).
Proof. exact AsToken.as_finditer_reports_only_listed_whole_numbers. Qed.

(* ... put together for the AS pass over a line with any callback: it rewrites exactly the listed whole numbers of the line and copies every other character *)
Theorem C11_as_pass_rewrites_exactly_the_listed_whole_numbers :
  forall (St : Type) (s : list Rx.chr) (nums : list (list Rx.chr)) (cb : St -> nat -> nat -> Rx.caps -> St * list Rx.chr) (st : St),
  nums <> [] -> Forall (fun m => m <> []) nums -> Forall (fun m => forallb is_digit m = true) nums ->
  let spans := RxFacts.finditer s (S (length s)) (as_rx nums) 0 in
  snd (RxSub.sub_loop s (S (length s)) (as_rx nums) cb st 0) = RxSub.stitch s 0 spans (RxSubFacts.sub_reps s (S (length s)) (as_rx nums) cb st 0) /\
  (forall a b, In (a, b) spans -> In (RxLang.sub s a b) nums /\
     (a = 0%nat \/ ((1 <= a)%nat /\ exists x, nth_error s (a - 1) = Some x /\ Rx.in_cset x NOT_DIGIT = true)) /\
     (Rx.eol s b = true \/ exists x, nth_error s b = Some x /\ Rx.in_cset x NOT_DIGIT = true)) /\
  (forall n a, In n nums -> RxLang.occ s n a -> (a + length n <= length s)%nat ->
     (a = 0%nat \/ ((1 <= a)%nat /\ exists x, nth_error s (a - 1) = Some x /\ Rx.in_cset x NOT_DIGIT = true)) ->
     (Rx.eol s (a + length n) = true \/ exists x, nth_error s (a + length n) = Some x /\ Rx.in_cset x NOT_DIGIT = true) ->
     In (a, (a + length n)%nat) spans).
Proof.
  intros St s nums cb st Hne Hnn Hd spans. split; [|split].
  - apply RxSubFacts.sub_loop_is_stitch. now apply as_regex_non_nullable.
  - intros a b H. exact (AsToken.as_finditer_reports_only_listed_whole_numbers s nums Hne Hnn (S (length s)) 0 a b (Nat.le_0_l _) H).
  - intros n a Hin O L B A. apply (AsToken.as_finditer_reports_every_listed_whole_number s nums n a Hd Hnn Hin O L B A); [apply Nat.le_0_l|].
    rewrite Forall_forall in Hnn. specialize (Hnn n Hin). destruct n; [contradiction|]. cbn [length] in L. Lia.lia.
Qed.

(* the model's pattern template against the SOURCE: on a sample list, the AST CPython's parser makes of the pattern text AsNumberAnonymizer builds (regenerated on
   this run, gen/G_rx.v AS_SAMPLE_RX) reports exactly what the model's as_rx reports, on every line and position (equal up to trailing empty patterns, which
   lib/RxNorm.v shows to be immaterial).  A change of the template in the source changes the regenerated AST and breaks this. *)
Theorem C11_pattern_template_is_what_python_compiles_on_a_sample :
  forall (s : list Rx.chr) (i : nat) (c : Rx.caps),
  Rx.ms s (as_rx AsToken.AS_SAMPLE) i c = Rx.ms s G_rx.AS_SAMPLE_RX i c.    (* AS_SAMPLE = ["12"; "345"; "12345"] *)
Proof. exact AsToken.as_template_is_what_python_compiles_on_a_sample. Qed.

Example C11_range_ends : as_repl 0 65000 = AsOk 64512%Z /\ as_repl 1023 65000 = AsOk 65535%Z /\ as_repl 1024 65000 = AsOk 64512%Z.
Proof. vm_compute. repeat split; reflexivity. Qed.

Print Assumptions C11_block_preserved_for_every_hash_value.
Print Assumptions C11_out_of_range_rejected.
Print Assumptions C11_hash_is_nonnegative.
Print Assumptions C11_pattern_consumes_text.
Print Assumptions C11_pattern_matches_only_listed_whole_numbers.
Print Assumptions C11_a_listed_whole_number_is_matched_as_a_whole.
Print Assumptions C11_finditer_reports_every_listed_whole_number.
Print Assumptions C11_finditer_reports_only_listed_whole_numbers.
Print Assumptions C11_as_pass_rewrites_exactly_the_listed_whole_numbers.
Print Assumptions C11_pattern_template_is_what_python_compiles_on_a_sample.
