(* C16 -- files map one-to-one; inputs untouched; failures isolated; entry points agree (partial).
   Proved on the model of the shared per-run state: processing the files of a run one after another through one anonymizer is processing the
   concatenation of their lines; each file yields exactly as many lines as it has; a file that is never handed to the line loop (it failed while
   being opened/decoded) leaves the state -- hence every other output -- unchanged by construction.  The file system itself (walk, hidden files,
   open(), decoding, directories) is runtime behaviour: decided by real runs on generated trees in the check. *)
From Coq Require Import String.
From Coq Require Import List Bool Arith NArith ZArith.
Import ListNotations.
Require Import Str TextModel TextProofs.

Theorem C16_files_processed_in_sequence_share_one_state :
  forall orc file1 file2 f f' outs, anonymize_io orc f (file1 ++ file2) = Done (f', outs) ->
  exists f1, anonymize_io orc f file1 = Done (f1, firstn (length file1) outs) /\ anonymize_io orc f1 file2 = Done (f', skipn (length file1) outs).
Proof. exact anonymize_io_prefix. Qed.

Theorem C16_every_file_keeps_its_line_count :
  forall orc lines f f' outs, anonymize_io orc f lines = Done (f', outs) -> length outs = length lines.
Proof. exact anonymize_io_length. Qed.

Print Assumptions C16_files_processed_in_sequence_share_one_state.
Print Assumptions C16_every_file_keeps_its_line_count.
