(* C07 -- output independent of secret content.
   Proved: (value level, lib/Alloc.v) for the pseudonym allocator -- lookup hit returns the stored value, miss allocates T class (size of lookup) --
   two request sequences related by an injective class-preserving renaming of secrets produce IDENTICAL outputs, over all histories.
   The allocator is the abstract reading of _anonymize_value; that model/TextModel.v's anonymize_value behaves like it (and that a line form is
   recognised by the 55 generated regexes) is decided by the correspondence + paired-run search of the check, not by a theorem. *)
From Coq Require Import String.
From Coq Require Import List Bool Arith NArith ZArith.
Import ListNotations.
Require Import Alloc Str Rx RxFacts G_rx TextModel TextProofs.

Theorem C07_allocator_outputs_independent_of_secret_content :
  forall (key : Type) (keq : key -> key -> bool), (forall a b, keq a b = true <-> a = b) ->
  forall (val cls : Type) (T : cls -> nat -> val) (Tjun : nat -> val) (rho : key -> key), (forall a b, rho a = rho b -> a = b) ->
  forall (rs : list (req key cls)) (L : lookup key val),
    snd (run key keq val cls T Tjun (renL key val rho L) (map (ren key cls rho) rs)) = snd (run key keq val cls T Tjun L rs).
Proof. exact outputs_independent_of_secret_content. Qed.

(* every sensitive-line pattern read from the source is non-nullable: a secret-bearing match is never empty *)
Theorem C07_generated_line_patterns_consume_text :
  forallb (fun g => forallb (fun it => negb (nullable (fst (fst it)))) g) PWD_REGEXES = true.
Proof. vm_compute. reflexivity. Qed.

Print Assumptions C07_allocator_outputs_independent_of_secret_content.
Print Assumptions C07_generated_line_patterns_consume_text.
