(* C07 -- output independent of secret content.
   Proved: (value level, lib/Alloc.v) for the pseudonym allocator -- lookup hit returns the stored value, miss allocates T class (size of lookup) --
   two request sequences related by an injective class-preserving renaming of secrets produce IDENTICAL outputs, over all histories.
   The allocator is the abstract reading of _anonymize_value; that model/TextModel.v's anonymize_value behaves like it (and that a line form is
   recognised by the 55 generated regexes) is decided by the correspondence + paired-run search of the check, not by a theorem. *)
From Coq Require Import String.
From Coq Require Import List Bool Arith NArith ZArith.
Import ListNotations.
Require Import Alloc Str IpText Rx RxFacts G_rx G_juniper TextModel TextProofs ValueProofs Findings.
Require Rx RxSub RxLang G_rx HashToken.

Theorem C07_allocator_outputs_independent_of_secret_content :
  forall (key : Type) (keq : key -> key -> bool), (forall a b, keq a b = true <-> a = b) ->
  forall (val cls : Type) (T : cls -> nat -> val) (Tjun : nat -> val) (rho : key -> key), (forall a b, rho a = rho b -> a = b) ->
  forall (rs : list (req key cls)) (L : lookup key val),
    snd (run key keq val cls T Tjun (renL key val rho L) (map (ren key cls rho) rs)) = snd (run key keq val cls T Tjun L rs).
Proof. exact outputs_independent_of_secret_content. Qed.

(* on the EXECUTABLE model of _anonymize_value: two clear-text values of the same format class (and md5 salt length), with the same
   enclosing text, met by lookups of the same size that do not know them, get the same replacement text -- the content of the
   secret is never used *)
Theorem C07_fresh_replacement_depends_only_on_class_and_counter :
  forall orc reserved salt raw1 raw2 lk1 lk2 h t v1 v2,
  extract_enclosing raw1 [] [] = (h, v1, t) -> extract_enclosing raw2 [] [] = (h, v2, t) ->
  mem_str v1 reserved = false -> mem_str v2 reserved = false -> is_empty v1 = false -> is_empty v2 = false ->
  starts_with MAGIC v1 = false -> starts_with MAGIC v2 = false ->
  check_format v1 = check_format v2 -> md5_salt_size v1 = md5_salt_size v2 ->
  lget lk1 v1 = None -> lget lk2 v2 = None -> length lk1 = length lk2 ->
  match anonymize_value orc raw1 lk1 reserved salt, anonymize_value orc raw2 lk2 reserved salt with
  | Done (o1, lk1'), Done (o2, lk2') => o1 = o2 /\ length lk1' = length lk2' /\ length lk1' = S (length lk1)
  | Raised w1, Raised w2 => w1 = w2
  | _, _ => False
  end.
Proof. exact fresh_replacement_depends_only_on_class_and_counter. Qed.

(* every sensitive-line pattern read from the source is non-nullable: a secret-bearing match is never empty *)
Theorem C07_generated_line_patterns_consume_text :
  forallb (fun g => forallb (fun it => negb (nullable (fst (fst it)))) g) PWD_REGEXES = true.
Proof. vm_compute. reflexivity. Qed.

(* known findings D11-D13: the full statement is false of the faithful model on these witnesses (replayed on the implementation by the check) *)
Theorem C07_numeric_password_before_a_word_survives_refuted :
  exists out lk, rmi (lit "password 12345 foo") = Done (out, lk) /\ out = lit "password 12345 netconanRemoved0".
Proof. exact numeric_password_followed_by_a_word_survives_refuted. Qed.
Theorem C07_hash_after_a_captured_reserved_word_survives_refuted :
  exists line, rmi line = Done (line, []) /\ line = lit "enable secret level 15 5 $1$abcd$0rN7R8PKwC30AsCGA77vy.".
Proof. exact hash_after_reserved_word_capture_survives_refuted. Qed.
Theorem C07_first_of_two_communities_on_a_line_survives_refuted :
  exists out lk, rmi (lit "snmp-server community FIRSTsecret RO ; snmp-server community SECONDsecret RW") = Done (out, lk) /\
                 out = lit "snmp-server community FIRSTsecret RO ; snmp-server community netconanRemoved0 RW".
Proof. exact first_of_two_communities_survives_refuted. Qed.


(* "a standalone $1$ / $9$ hash-shaped token ... is replaced whatever keywords surround it": for EVERY line, a token made of $9$ (resp. $1$) and at least one
   character that is neither white space, a semicolon nor a double quote, standing at the line start or after a character that is neither a word character
   nor a hyphen, makes the corresponding catch-all pattern of the GENERATED table match somewhere on the line (model/HashToken.v, through the engine's
   completeness for anchor-free patterns, lib/RxLang.lang_ms) -- no keyword is needed, so the line is claimed by that pattern group at the latest. *)
Theorem C07_juniper_shaped_token_makes_the_catch_all_pattern_match :
  forall (s body : list Rx.chr) (i : nat),
  body <> [] -> Forall (fun x => Rx.in_cset x G_rx.cs73 = true) body -> RxLang.occ s ([36; 57; 36]%N ++ body) i ->
  (i = 0%nat \/ ((1 <= i)%nat /\ exists x, nth_error s (i - 1) = Some x /\ Rx.in_cset x G_rx.cs21 = true)) ->
  RxSub.search s G_rx.PWD_RX_53_0 <> None.
Proof. exact HashToken.juniper_shaped_token_makes_the_catch_all_match. Qed.

Theorem C07_md5_crypt_shaped_token_makes_the_catch_all_pattern_match :
  forall (s body : list Rx.chr) (i : nat),
  body <> [] -> Forall (fun x => Rx.in_cset x G_rx.cs73 = true) body -> RxLang.occ s ([36; 49; 36]%N ++ body) i ->
  (i = 0%nat \/ ((1 <= i)%nat /\ exists x, nth_error s (i - 1) = Some x /\ Rx.in_cset x G_rx.cs21 = true)) ->
  RxSub.search s G_rx.PWD_RX_54_0 <> None.
Proof. exact HashToken.md5_crypt_shaped_token_makes_the_catch_all_match. Qed.


(* every one of the 57 patterns of the GENERATED secrets table begins with the same look-behind (checked by computation on this run), so for EVERY line and
   position a secrets-stage match starts at the line start, after a blank, or after a character that is neither a word character nor a hyphen: never in
   the middle of a word -- a keyword such as "password" is only recognised as a standalone word *)
Theorem C07_secrets_match_starts_at_a_word_boundary :
  forall (s : list Rx.chr) (it : Rx.re * option nat * option nat) (i : nat) (c : Rx.caps) (j : nat) (c' : Rx.caps),
  In it (concat G_rx.PWD_REGEXES) -> In (j, c') (Rx.ms s (fst (fst it)) i c) ->
  i = 0%nat \/ ((1 <= i)%nat /\ exists x, nth_error s (i - 1) = Some x /\ (Rx.in_cset x G_rx.cs21 = true \/ x = 32%N)).
Proof. exact HashToken.secrets_match_starts_at_a_word_boundary. Qed.

Print Assumptions C07_numeric_password_before_a_word_survives_refuted.
Print Assumptions C07_hash_after_a_captured_reserved_word_survives_refuted.
Print Assumptions C07_allocator_outputs_independent_of_secret_content.
Print Assumptions C07_fresh_replacement_depends_only_on_class_and_counter.
Print Assumptions C07_generated_line_patterns_consume_text.
Print Assumptions C07_first_of_two_communities_on_a_line_survives_refuted.
Print Assumptions C07_juniper_shaped_token_makes_the_catch_all_pattern_match.
Print Assumptions C07_md5_crypt_shaped_token_makes_the_catch_all_pattern_match.
Print Assumptions C07_secrets_match_starts_at_a_word_boundary.
