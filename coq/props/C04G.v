(* C04G -- the theorems of C04 about the function-level code GENERATED on this run from /repo's source (coq/gen/G_fn_*.v) and refined to the
   model in coq/refine/*.v.  Kept apart from props/C04.v: when a behaviour-preserving rewrite of the source makes one of these scripts fail,
   the property is still decided by the model theorems of props/C04.v and the correspondence run, and the check reports the function-level
   tie as not re-established (TIE-DEGRADED) instead of raising an alarm; see DESIGN.md section 4. *)
From Coq Require Import String.
From Coq Require Import List Bool Arith NArith ZArith.
Import ListNotations.
Require Import PPCore PPHost Memo MemoProofs Pinned Str IpModel G_ip_consts.
Require PyLib G_fn_ip RefIpCommon RefInit.
Import PyLib.

(* the GENERATED constructor (translated from the source on this run) walks the listed prefixes and preserved networks and leaves the memo in a
   state satisfying the model's invariant with exactly those prefixes pinned: the theorems above are about the object the code builds *)
Theorem C04_generated_constructor_pins_the_listed_prefixes :
  forall (H : list bool -> bool) (py_call : pyval -> pyval -> PyLib.res) (clsname : list BinNums.Z) (saltv salterv : pyval) (B : nat) fuel
         (strs : list pyval) (pa : option (list pyval)) (nets : list pyval) (Ps : list (list bool)) (kw : pyval),
  kw_lookup kw "salter" (VFun (of_string "_generate_bit_from_hash")) = salterv ->
  kw_lookup kw "preserve_suffix" VNone = VInt (BinInt.Z.of_nat B) ->
  Forall2 (fun a n => ip_network a = Normal n) (RefInit.pa_items pa) nets ->
  Forall2 RefInit.subnet_bits (strs ++ RefInit.pa_items pa) Ps ->
  exists d0,
    G_fn_ip.gen_IpAnonymizer____init__ py_call fuel (VObj clsname []) saltv (VList strs) (RefInit.pa_val pa) kw
    = Normal (VTuple [VNone; RefIpCommon.mkself clsname saltv (VInt 32%Z) RefInit.fmt32 salterv (BinInt.Z.of_nat B) (RefInit.rest_of nets) d0])
    /\ MemoProofs.Inv H 32 B Ps d0.
Proof. exact RefInit.gen_constructor_establishes_the_invariant. Qed.

Print Assumptions C04_generated_constructor_pins_the_listed_prefixes.
