(* C08 -- pseudonyms consistent and collision-free within a run.
   Proved (lib/Alloc.v): over ALL request histories of the allocator, equal keys get equal values and different keys get different values,
   provided pseudonyms with different numbers never coincide across encoders (hypotheses T_sep, TJ_sep, J_sep: injectivity of the per-class
   encoders; passlib's md5-crypt / sha512-crypt are oracles, see the trusted base).  A $9$ secret is keyed by its plaintext: that the
   plaintext is recovered exactly is C18's theorem.  The tie of the allocator to model/TextModel.v's anonymize_value is by correspondence. *)
From Coq Require Import String.
From Coq Require Import List Bool Arith NArith ZArith.
Import ListNotations.
Require Import Alloc Str IpText JunModel JunProofs G_juniper TextModel ValueProofs Findings.

Theorem C08_consistent_and_collision_free :
  forall (key : Type) (keq : key -> key -> bool), (forall a b, keq a b = true <-> a = b) ->
  forall (val cls : Type) (T : cls -> nat -> val) (Tjun : nat -> val),
  (forall c1 c2 n1 n2, T c1 n1 = T c2 n2 -> n1 = n2) -> (forall c n1 n2, T c n1 = Tjun n2 -> n1 = n2) -> (forall n1 n2, Tjun n1 = Tjun n2 -> n1 = n2) ->
  forall (rs : list (req key cls)) (vs : list val) (L' : lookup key val),
    run key keq val cls T Tjun [] rs = (L', vs) ->
    forall i j ri rj vi vj, nth_error rs i = Some ri -> nth_error rs j = Some rj -> nth_error vs i = Some vi -> nth_error vs j = Some vj ->
      (req_key key cls ri = req_key key cls rj <-> vi = vj).
Proof. exact consistent_and_collision_free. Qed.

(* on the EXECUTABLE model: a value the lookup already knows gets exactly the stored replacement back and the lookup is untouched *)
Theorem C08_known_value_gets_its_stored_replacement :
  forall orc reserved salt raw lk h v t anon,
  extract_enclosing raw [] [] = (h, v, t) -> mem_str v reserved = false -> is_empty v = false -> starts_with MAGIC v = false ->
  lget lk v = Some anon ->
  anonymize_value orc raw lk reserved salt = Done ((h ++ anon ++ t)%list, lk).
Proof. exact known_value_gets_its_stored_replacement. Qed.

(* two $9$ encodings of one plaintext decrypt to the same key *)
Theorem C08_juniper_reencodings_share_their_key :
  forall plain s1 s2 : str, Forall (fun c => (c < 256)%N) plain -> plain <> [] ->
  exists c1 c2, encrypt plain s1 = JOk c1 /\ encrypt plain s2 = JOk c2 /\ decrypt c1 = JOk plain /\ decrypt c2 = JOk plain.
Proof.
  intros plain s1 s2 Hp Hn.
  destruct (encrypt_decrypt_roundtrip plain s1 Hp) as (c1 & E1 & _ & D1).
  destruct (encrypt_decrypt_roundtrip plain s2 Hp) as (c2 & E2 & _ & D2).
  exists c1, c2. repeat split; auto.
Qed.

(* known findings D11-D13: the full statement is false of the faithful model on these witnesses (replayed on the implementation by the check) *)
Theorem C08_two_matches_of_one_pattern_share_a_replacement_refuted :
  exists out lk, rmi (lit "password foo1 then password level 3 bar2") = Done (out, lk) /\
                 out = lit "password netconanRemoved0 then password netconanRemoved0".
Proof. exact two_matches_of_one_pattern_get_one_replacement_refuted. Qed.

Print Assumptions C08_two_matches_of_one_pattern_share_a_replacement_refuted.
Print Assumptions C08_consistent_and_collision_free.
Print Assumptions C08_known_value_gets_its_stored_replacement.
Print Assumptions C08_juniper_reencodings_share_their_key.
