(* C09 -- replacements are format-compliant and keep their context.
   Proved on the model: a $9$ replacement is decryptable by the model's decoder (it is encrypt of an ASCII pseudonym, C18); the type-7, decimal
   and hexadecimal encoders produce their class's shape for every pseudonym number (unbounded, EncProofs.v);
   md5-crypt / sha512-crypt shapes are oracle behaviour (passlib), checked by the search with independent shape tests. *)
From Coq Require Import String.
From Coq Require Import List Bool Arith NArith ZArith.
Import ListNotations.
Require Import Str IpText JunModel JunProofs G_rx G_text_consts TextModel TextProofs TextProofs2 Findings EncProofs.

(* every pseudonym number (no bound): the decimal rendering is all digits, the hexadecimal rendering is lower-case hex, and the type-7
   rendering is "09" followed by two upper-case hex digits per character *)
Theorem C09_numeric_hex_type7_encodings_have_their_shape :
  forall n : nat,
  all_digits (to_decimal_of_bytes (pseudonym n)) = true /\
  forallb is_hex_lower (hex_of_bytes (pseudonym n)) = true /\
  exists rest, type7_hash 9 (pseudonym n) = 48%N :: 57%N :: rest /\ forallb is_hex_upper rest = true /\ length rest = (2 * length (pseudonym n))%nat.
Proof. exact pseudonym_encodings_have_their_shape. Qed.

Theorem C09_juniper_replacement_is_decryptable :
  forall (n : nat) (salt : str), Forall (fun c => (c < 256)%N) (pseudonym n) ->
  exists c, encrypt (pseudonym n) salt = JOk c /\ decrypt c = JOk (pseudonym n).
Proof.
  intros n salt Hp. destruct (encrypt_decrypt_roundtrip (pseudonym n) salt Hp) as (c & E & _ & D).
  exists c. split; auto. apply D. left. unfold pseudonym. discriminate.
Qed.

(* quotes, brackets and terminators around a value are split off and put back exactly: raw = head ++ value ++ tail, for EVERY raw value *)
Theorem C09_enclosing_text_is_a_partition_of_the_raw_value : forall raw h v t, extract_enclosing raw [] [] = (h, v, t) -> (h ++ v ++ t)%list = raw.
Proof. exact C09_enclosing_text_partition. Qed.

(* TIE A (function level): the Gallina function GENERATED on this run from _extract_enclosing_text (two passes over the enclosing-text lists inside a
   loop that runs until nothing changes) computes the model's extract_enclosing -- so the partition theorem above is about the code as translated *)

(* whatever _anonymize_value returns is either the raw value itself or head ++ replacement ++ tail with the value's own head and tail *)
Theorem C09_replacement_keeps_the_enclosing_text : forall orc raw lookup reserved salt out lookup',
  anonymize_value orc raw lookup reserved salt = Done (out, lookup') ->
  out = raw \/ exists repl, out = (fst (fst (extract_enclosing raw [] [])) ++ repl ++ snd (extract_enclosing raw [] []))%list.
Proof. exact anonymize_value_keeps_enclosing_text. Qed.

(* the enclosing-text lists read from the source are what the property names: quotes (plain and escaped), space, brackets, terminators *)
Theorem C09_enclosing_texts :
  ENCLOSING_HEAD = map lit ["\'"; "\"""; "'"; """"; " "; "["; "{"]%string /\
  ENCLOSING_TAIL = map lit ["\'"; "\"""; "'"; """"; " "; "]"; "}"; ";"; ","]%string.
Proof. split; vm_compute; reflexivity. Qed.

(* the FULL statement "every replacement has the format of the original, for every history" is false of the faithful model (known finding D18):
   an all-digit secret seen after the $9$ encryption of the same digits receives the text pseudonym stored for that plaintext *)
Theorem C09_format_kept_for_every_history_refuted :
  exists clear salt r9 r, check_format clear = F_NUMERIC /\ d18_run clear salt = Done (r9, r) /\ check_format r <> F_NUMERIC.
Proof. exact numeric_after_its_juniper_encryption_refuted. Qed.

Print Assumptions C09_format_kept_for_every_history_refuted.
Print Assumptions C09_numeric_hex_type7_encodings_have_their_shape.
Print Assumptions C09_juniper_replacement_is_decryptable.
Print Assumptions C09_enclosing_text_is_a_partition_of_the_raw_value.
Print Assumptions C09_replacement_keeps_the_enclosing_text.
Print Assumptions C09_enclosing_texts.
