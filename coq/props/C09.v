(* C09 -- replacements are format-compliant and keep their context.
   Proved on the model: a $9$ replacement is decryptable by the model's decoder (it is encrypt of an ASCII pseudonym, C18); the type-7, decimal
   and hexadecimal encoders are checked on the pseudonym family by computation for the first 200 pseudonym numbers (bounded: stated in the theorem);
   md5-crypt / sha512-crypt shapes are oracle behaviour (passlib), checked by the search with independent shape tests. *)
From Coq Require Import String.
From Coq Require Import List Bool Arith NArith ZArith.
Import ListNotations.
Require Import Str IpText JunModel JunProofs G_rx G_text_consts TextModel TextProofs TextProofs2 Findings.

Definition pseudonym (n : nat) : str := lit "netconanRemoved" ++ show_dec (N.of_nat n).
Definition is_hex_lower (c : N) : bool := ((48 <=? c) && (c <=? 57) || (97 <=? c) && (c <=? 102))%N.
Definition is_hex_upper (c : N) : bool := ((48 <=? c) && (c <=? 57) || (65 <=? c) && (c <=? 70))%N.

(* bounded: pseudonym numbers 0..199 (a finite sweep, not the unbounded claim) *)
Theorem C09_numeric_hex_type7_encodings_have_their_shape_for_the_first_200_pseudonyms :
  forallb (fun n => all_digits (to_decimal_of_bytes (pseudonym n))
                    && forallb is_hex_lower (hex_of_bytes (pseudonym n))
                    && (match type7_hash 9 (pseudonym n) with
                        | d1 :: d2 :: rest => (d1 =? 48)%N && (d2 =? 57)%N && forallb is_hex_upper rest && Nat.eqb (length rest) (2 * length (pseudonym n))
                        | _ => false end)) (seq 0 200) = true.
Proof. vm_compute. reflexivity. Qed.

Theorem C09_juniper_replacement_is_decryptable :
  forall (n : nat) (salt : str), Forall (fun c => (c < 256)%N) (pseudonym n) ->
  exists c, encrypt (pseudonym n) salt = JOk c /\ decrypt c = JOk (pseudonym n).
Proof.
  intros n salt Hp. destruct (encrypt_decrypt_roundtrip (pseudonym n) salt Hp) as (c & E & _ & D).
  exists c. split; auto. apply D. left. unfold pseudonym. discriminate.
Qed.

(* quotes, brackets and terminators around a value are split off and put back exactly: raw = head ++ value ++ tail, for EVERY raw value *)
Theorem C09_enclosing_text_is_a_partition_of_the_raw_value : forall raw h v t, extract_enclosing raw [] [] = (h, v, t) -> (h ++ v ++ t)%list = raw.
Proof. exact C09_enclosing_text_partition. Qed.

(* whatever _anonymize_value returns is either the raw value itself or head ++ replacement ++ tail with the value's own head and tail *)
Theorem C09_replacement_keeps_the_enclosing_text : forall orc raw lookup reserved salt out lookup',
  anonymize_value orc raw lookup reserved salt = Done (out, lookup') ->
  out = raw \/ exists repl, out = (fst (fst (extract_enclosing raw [] [])) ++ repl ++ snd (extract_enclosing raw [] []))%list.
Proof. exact anonymize_value_keeps_enclosing_text. Qed.

(* the enclosing-text lists read from the source are what the property names: quotes (plain and escaped), space, brackets, terminators *)
Theorem C09_enclosing_texts :
  ENCLOSING_HEAD = map lit ["\'"; "\"""; "'"; """"; " "; "["; "{"]%string /\
  ENCLOSING_TAIL = map lit ["\'"; "\"""; "'"; """"; " "; "]"; "}"; ";"; ","]%string.
Proof. split; vm_compute; reflexivity. Qed.

(* the FULL statement "every replacement has the format of the original, for every history" is false of the faithful model (known finding D18):
   an all-digit secret seen after the $9$ encryption of the same digits receives the text pseudonym stored for that plaintext *)
Theorem C09_format_kept_for_every_history_refuted :
  exists clear salt r9 r, check_format clear = F_NUMERIC /\ d18_run clear salt = Done (r9, r) /\ check_format r <> F_NUMERIC.
Proof. exact numeric_after_its_juniper_encryption_refuted. Qed.

Print Assumptions C09_format_kept_for_every_history_refuted.
Print Assumptions C09_numeric_hex_type7_encodings_have_their_shape_for_the_first_200_pseudonyms.
Print Assumptions C09_juniper_replacement_is_decryptable.
Print Assumptions C09_enclosing_text_is_a_partition_of_the_raw_value.
Print Assumptions C09_replacement_keeps_the_enclosing_text.
Print Assumptions C09_enclosing_texts.
