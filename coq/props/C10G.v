(* C10G -- the theorem of C10 about the function-level code GENERATED on this run from /repo's source (coq/gen/G_fn_sir2.v) and refined to the
   model in coq/refine/RefWord.v.  Kept apart from props/C10.v: when a behaviour-preserving rewrite of the source makes this script fail,
   the property is still decided by the model theorems of props/C10.v and the correspondence run, and the check reports the function-level
   tie as not re-established (TIE-DEGRADED) instead of raising an alarm; see DESIGN.md section 4. *)
From Coq Require Import String.
From Coq Require Import List Bool Arith NArith ZArith.
Import ListNotations.
Require Import PyLib Str TextModel G_fn_sir2 RefJun RefWord.

(* "Each occurrence is replaced by a pseudonym determined only by the salt and the matched text": the translated
   _get_or_generate_sensitive_word_replacement, started on ANY cache whose entries are pseudonyms of their keys (which it maintains itself, so:
   after any history of requests), returns the model's word_pseudonym salt word -- md5(salt + word) in hex, first six characters -- and
   raises only when salt + word cannot be encoded *)
Theorem C10_generated_word_replacement_depends_on_salt_and_text_only :
  forall (pc : pyval -> pyval -> PyLib.res) (fuel : nat) (cls : list Z) (rw rx cw : pyval) (salt : str) (d : list (pyval * pyval)) (w : str),
  cache_ok salt d ->
  match word_pseudonym salt w with
  | Done p => exists d', gen_SensitiveWordAnonymizer___get_or_generate_sensitive_word_replacement pc fuel (wobj cls rw rx cw salt d) (vstr w)
                         = Normal (VTuple [vstr p; wobj cls rw rx cw salt d']) /\ cache_ok salt d'
  | Raised _ => exists m, gen_SensitiveWordAnonymizer___get_or_generate_sensitive_word_replacement pc fuel (wobj cls rw rx cw salt d) (vstr w) = Exc (ValueError m)
  end.
Proof. exact gen_word_replacement. Qed.

(* the empty cache of a fresh anonymizer satisfies the invariant *)
Example C10G_fresh_cache : forall salt, cache_ok salt [].
Proof. intro salt. constructor. Qed.

Print Assumptions C10_generated_word_replacement_depends_on_salt_and_text_only.
