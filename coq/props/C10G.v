(* C10G -- the theorem of C10 about the function-level code GENERATED on this run from /repo's source (coq/gen/G_fn_sir2.v) and refined to the
   model in coq/refine/RefWord.v.  Kept apart from props/C10.v: when a behaviour-preserving rewrite of the source makes this script fail,
   the property is still decided by the model theorems of props/C10.v and the correspondence run, and the check reports the function-level
   tie as not re-established (TIE-DEGRADED) instead of raising an alarm; see DESIGN.md section 4. *)
From Coq Require Import String.
From Coq Require Import List Bool Arith NArith ZArith.
Import ListNotations.
Require Import PyLib Str Rx TextModel G_fn_sir2 RefJun RefBase RefWord RefWordsLine.
Require G_fn_sir4 RefWordInit.

(* "Each occurrence is replaced by a pseudonym determined only by the salt and the matched text": the translated
   _get_or_generate_sensitive_word_replacement, started on ANY cache whose entries are pseudonyms of their keys (which it maintains itself, so:
   after any history of requests), returns the model's word_pseudonym salt word -- md5(salt + word) in hex, first six characters -- and
   raises only when salt + word cannot be encoded *)
Theorem C10_generated_word_replacement_depends_on_salt_and_text_only :
  forall (pc : pyval -> pyval -> PyLib.res) (fuel : nat) (cls : list Z) (rw rx cw : pyval) (salt : str) (d : list (pyval * pyval)) (w : str),
  cache_ok salt d ->
  match word_pseudonym salt w with
  | Done p => exists d', gen_SensitiveWordAnonymizer___get_or_generate_sensitive_word_replacement pc fuel (wobj cls rw rx cw salt d) (vstr w)
                         = Normal (VTuple [vstr p; wobj cls rw rx cw salt d']) /\ cache_ok salt d'
  | Raised _ => exists m, gen_SensitiveWordAnonymizer___get_or_generate_sensitive_word_replacement pc fuel (wobj cls rw rx cw salt d) (vstr w) = Exc (ValueError m)
  end.
Proof. exact gen_word_replacement. Qed.

(* the empty cache of a fresh anonymizer satisfies the invariant *)
Example C10G_fresh_cache : forall salt, cache_ok salt [].
Proof. intro salt. constructor. Qed.

(* the whole words stage: SensitiveWordAnonymizer.anonymize translated from the source is the model's anonymize_words_line -- a line without any
   listed word comes back as it is; otherwise every whitespace-delimited token that is (case-insensitively) a conflicting reserved word is kept,
   in every other token each match of the word pattern is replaced by its pseudonym; leading / trailing white space kept, inner runs collapsed.
   The replacement cache may be in any state satisfying its invariant and satisfies it afterwards.  Premise: ASCII line (the model's case folding). *)
Theorem C10_generated_words_stage_is_the_model :
  forall (cls : list Z) (rw rh : pyval) (a : word_anonymizer) (pc : pyval -> pyval -> PyLib.res), words_contract rh a pc ->
  forall (fuel : nat) (line l : str) (d : list (pyval * pyval)), cache_ok (w_salt a) d -> ascii line ->
  anonymize_words_line a line = Done l ->
  exists d', gen_SensitiveWordAnonymizer__anonymize pc fuel (wobj cls rw rh (vres (w_conflicting a)) (w_salt a) d) (vstr line)
             = Normal (VTuple [vstr l; wobj cls rw rh (vres (w_conflicting a)) (w_salt a) d']) /\ cache_ok (w_salt a) d'.
Proof. exact gen_words_anonymize_refines. Qed.

(* words_contract: the dispatcher answers search / finditer / group(0) of the word pattern through the regex engine; words_call does *)
Theorem C10G_contract_is_met : forall (rx_of : pyval -> option re) (rh : pyval) (a : word_anonymizer), rx_of rh = Some (w_regex a) -> words_contract rh a (words_call rx_of).
Proof. exact words_call_contract. Qed.

(* SensitiveWordAnonymizer.__init__ translated from the source (with _generate_sensitive_word_regex and _generate_conflicting_reserved_word_list, unit
   G_fn_sir4.v; a Python set is the duplicate-free list of its elements in insertion order, re.compile a call of the py_call parameter): whenever the
   model's word_init builds an anonymizer from ASCII reserved words, the translated constructor builds the object the theorems above start from --
   reserved words lower-cased, the pattern re.compile answered for "(" + "|".join(words lower-cased, longest first, code-point order among equal
   lengths) + ")" with re.IGNORECASE (the model's sort_words: a function of the SET of words), an EMPTY replacement cache, and a conflicting-word
   collection with exactly the model's members -- and nothing else. *)
Theorem C10_generated_constructor_is_the_model :
  forall (pc : pyval -> pyval -> PyLib.res) (cls : list Z) (fuel : nat) (words reserved : list str) (salt : str) (rxv : pyval) (a : word_anonymizer),
  Forall ascii reserved ->
  pc (VFun (of_string "re.compile")) (VTuple [VList [RefJun.vstr (RefWordInit.word_pattern_text (sort_words (map lower_str words))); VInt 2]; VDict []]) = Normal rxv ->
  word_init words salt reserved = Done a ->
  exists cl,
    G_fn_sir4.gen_SensitiveWordAnonymizer____init__ pc fuel (VObj cls []) (VList (map RefJun.vstr words)) (RefJun.vstr salt) (VList (map RefJun.vstr reserved))
    = Normal (VTuple [VNone; wobj cls (VList (map RefJun.vstr (dedup (map lower_str reserved)))) rxv (VList (map RefJun.vstr cl)) salt []]) /\
    (forall x, In x cl <-> In x (w_conflicting a)) /\
    w_regex a = Grp 1 (alt_of (map lit_icase_rx (sort_words (map lower_str words)))) /\ w_salt a = salt.
Proof. exact RefWordInit.gen_word_init_is_the_model. Qed.

Print Assumptions C10_generated_word_replacement_depends_on_salt_and_text_only.
Print Assumptions C10_generated_words_stage_is_the_model.
Print Assumptions C10G_contract_is_met.
Print Assumptions C10_generated_constructor_is_the_model.
