(* C04 -- preserved prefixes and preserved host bits survive anonymization (both directions). *)
From Coq Require Import String.
From Coq Require Import List Bool Arith NArith ZArith.
Import ListNotations.
Require Import PPCore PPHost Memo MemoProofs Pinned Str IpModel G_ip_consts.

Section C04.
Variable H : bits -> bool.
Variables n B : nat.
Variable seeds : list bits.          (* the preserved prefixes (and preserved networks), as bit strings *)
Definition image := Pinned.image H n B seeds.
Definition preimage := Pinned.preimage H n B seeds.

Theorem C04_inside_stays_inside : forall P x, In P seeds -> is_prefix P x = true -> is_prefix P (image x) = true.
Proof. exact (Pinned.inside_stays_inside H n B seeds). Qed.

Theorem C04_outside_stays_outside : forall P x, In P seeds -> length P <= length x -> is_prefix P x = false -> is_prefix P (image x) = false.
Proof. exact (Pinned.outside_stays_outside H n B seeds). Qed.

Theorem C04_host_bits_verbatim : forall x, skipn (n - B) (image x) = skipn (n - B) x.
Proof. exact (Pinned.host_bits_kept H n B seeds). Qed.

Theorem C04_leading_bits_independent_of_host_bits :
  forall x x', firstn (n - B) x = firstn (n - B) x' -> firstn (n - B) (image x) = firstn (n - B) (image x').
Proof. exact (Pinned.lead_independent H n B seeds). Qed.

Theorem C04_undo_inside_stays_inside : forall P y, In P seeds -> length P <= length y -> is_prefix P y = true -> is_prefix P (preimage y) = true.
Proof. exact (Pinned.undo_inside_stays_inside H n B seeds). Qed.

Theorem C04_undo_outside_stays_outside : forall P y, In P seeds -> is_prefix P y = false -> is_prefix P (preimage y) = false.
Proof. exact (Pinned.undo_outside_stays_outside H n B seeds). Qed.

Theorem C04_undo_host_bits_verbatim : forall y, skipn (n - B) (preimage y) = skipn (n - B) y.
Proof. exact (Pinned.undo_host_bits_kept H n B seeds). Qed.
End C04.

(* the default preserved list READ FROM THE SOURCE on this run is the one the property states:
   classes A-E (0/1, 128/2, 192/3, 224/4) and 10/8, 172.16/12, 192.168/16 *)
Theorem C04_default_prefixes_are_classes_and_rfc1918 :
  DEFAULT_PRESERVED_PREFIXES = spec_default_prefixes /\ RFC_1918_NETWORKS = spec_rfc1918.
Proof. split; vm_compute; reflexivity. Qed.

Example C04_instance :   (* 10.1.2.3 stays inside 10/8 under a constant-1 flipper; last 8 bits kept *)
  let H := fun _ : bits => true in
  let seeds := map (prefix_bits 32) spec_default_prefixes in
  let y := Pinned.image H 32 8 seeds (fmt_bits 32 (ipv4 10 1 2 3)) in
  is_prefix (prefix_bits 32 (ipv4 10 0 0 0, 8)) y = true /\ skipn 24 y = skipn 24 (fmt_bits 32 (ipv4 10 1 2 3)) /\ y <> fmt_bits 32 (ipv4 10 1 2 3).
Proof. vm_compute. repeat split; try reflexivity. discriminate. Qed.


Print Assumptions C04_inside_stays_inside.
Print Assumptions C04_outside_stays_outside.
Print Assumptions C04_host_bits_verbatim.
Print Assumptions C04_leading_bits_independent_of_host_bits.
Print Assumptions C04_undo_inside_stays_inside.
Print Assumptions C04_undo_outside_stays_outside.
Print Assumptions C04_undo_host_bits_verbatim.
Print Assumptions C04_default_prefixes_are_classes_and_rfc1918.
