(* C12 -- non-sensitive text and line structure are conserved.
   Proved on the model: exactly one output line per input line, in order; the output of a prefix of the text does not depend on what follows
   (line k depends on line k and on the state left by lines before it); an IPv4 match never covers whitespace or a terminator.
   Edges/whitespace of the secrets and words stages are decided by the token-level oracle of the check. *)
From Coq Require Import String.
From Coq Require Import List Bool Arith NArith ZArith.
Import ListNotations.
From Coq Require Import Lia.
Require Import Str Rx RxFacts G_rx TextModel TextProofs.

Theorem C12_one_line_out_per_line_in :
  forall orc lines f f' outs, anonymize_io orc f lines = Done (f', outs) -> length outs = length lines.
Proof. exact anonymize_io_length. Qed.

Theorem C12_a_prefix_of_the_text_is_processed_independently_of_what_follows :
  forall orc l1 l2 f f' outs, anonymize_io orc f (l1 ++ l2) = Done (f', outs) ->
  exists f1, anonymize_io orc f l1 = Done (f1, firstn (length l1) outs) /\ anonymize_io orc f1 l2 = Done (f', skipn (length l1) outs).
Proof. exact anonymize_io_prefix. Qed.

Theorem C12_ipv4_replacement_never_touches_whitespace :
  forall (s : list chr) i c j c' p x, In (j, c') (ms s IPV4_RX i c) -> (i <= p < j)%nat -> nth_error s p = Some x -> is_space x = false.
Proof.
  intros s i c j c' p x H1 H2 H3. destruct (ipv4_match_covers_only_digits_and_dots s i c j c' p x H1 H2 H3) as [->|[Ha Hb]]; [reflexivity|].
  unfold is_space.
  repeat match goal with |- context [(?a <=? ?b)%N] => let E := fresh in destruct (N.leb_spec a b) as [E|E]; try lia end;
  repeat match goal with |- context [(?a =? ?b)%N] => let E := fresh in destruct (N.eqb_spec a b) as [E|E]; try lia end; reflexivity.
Qed.

Print Assumptions C12_one_line_out_per_line_in.
Print Assumptions C12_a_prefix_of_the_text_is_processed_independently_of_what_follows.
Print Assumptions C12_ipv4_replacement_never_touches_whitespace.
