(* C12 -- non-sensitive text and line structure are conserved.
   Proved on the model: exactly one output line per input line, in order; the output of a prefix of the text does not depend on what follows
   (line k depends on line k and on the state left by lines before it); an IPv4 match never covers whitespace or a terminator.
   Edges/whitespace of the secrets and words stages are decided by the token-level oracle of the check. *)
From Coq Require Import String.
From Coq Require Import List Bool Arith NArith ZArith.
Import ListNotations.
From Coq Require Import Lia.
Require Import Str Rx RxFacts RxSub RxSubFacts G_rx TextModel TextProofs TextProofs2.

Theorem C12_one_line_out_per_line_in :
  forall orc lines f f' outs, anonymize_io orc f lines = Done (f', outs) -> length outs = length lines.
Proof. exact anonymize_io_length. Qed.

Theorem C12_a_prefix_of_the_text_is_processed_independently_of_what_follows :
  forall orc l1 l2 f f' outs, anonymize_io orc f (l1 ++ l2) = Done (f', outs) ->
  exists f1, anonymize_io orc f l1 = Done (f1, firstn (length l1) outs) /\ anonymize_io orc f1 l2 = Done (f', skipn (length l1) outs).
Proof. exact anonymize_io_prefix. Qed.

(* the secrets stage and the sensitive-word stage return the line's own leading whitespace, a body, the line's own trailing whitespace *)
Theorem C12_secrets_stage_keeps_leading_and_trailing_whitespace : forall orc reserved salt line lookup out lookup',
  replace_matching_item orc reserved salt line lookup = Done (out, lookup') ->
  exists body, out = (fst (fst (split_line line)) ++ body ++ snd (split_line line))%list.
Proof. exact C12_secrets_stage_keeps_the_edges. Qed.

Theorem C12_words_stage_keeps_leading_and_trailing_whitespace : forall a line out,
  anonymize_words_line a line = Done out ->
  out = line \/ exists body, out = (fst (fst (split_line line)) ++ body ++ snd (split_line line))%list.
Proof. exact C12_words_stage_keeps_the_edges. Qed.

Theorem C12_the_edges_are_the_lines_own : forall line,
  (exists rest, line = (fst (fst (split_line line)) ++ rest)%list) /\ forallb is_space (fst (fst (split_line line))) = true /\
  (exists front, line = (front ++ snd (split_line line))%list).
Proof. exact split_line_edges. Qed.

(* every regex substitution (IP stages, AS numbers, words inside a token) copies the text between the replaced spans verbatim *)
Theorem C12_substitution_copies_unmatched_text : forall (St : Type) (s : list chr) (r : re) (cb : St -> nat -> nat -> caps -> St * list chr),
  nullable r = false -> forall fuel st i, snd (sub_loop s fuel r cb st i) = stitch s i (finditer s fuel r i) (sub_reps s fuel r cb st i).
Proof. intros St s r cb. exact (sub_loop_is_stitch s r cb). Qed.

Theorem C12_ipv4_replacement_never_touches_whitespace :
  forall (s : list chr) i c j c' p x, In (j, c') (ms s IPV4_RX i c) -> (i <= p < j)%nat -> nth_error s p = Some x -> is_space x = false.
Proof.
  intros s i c j c' p x H1 H2 H3. destruct (ipv4_match_covers_only_digits_and_dots s i c j c' p x H1 H2 H3) as [->|[Ha Hb]]; [reflexivity|].
  unfold is_space.
  repeat match goal with |- context [(?a <=? ?b)%N] => let E := fresh in destruct (N.leb_spec a b) as [E|E]; try lia end;
  repeat match goal with |- context [(?a =? ?b)%N] => let E := fresh in destruct (N.eqb_spec a b) as [E|E]; try lia end; reflexivity.
Qed.

Print Assumptions C12_one_line_out_per_line_in.
Print Assumptions C12_a_prefix_of_the_text_is_processed_independently_of_what_follows.
Print Assumptions C12_secrets_stage_keeps_leading_and_trailing_whitespace.
Print Assumptions C12_words_stage_keeps_leading_and_trailing_whitespace.
Print Assumptions C12_the_edges_are_the_lines_own.
Print Assumptions C12_substitution_copies_unmatched_text.
Print Assumptions C12_ipv4_replacement_never_touches_whitespace.
