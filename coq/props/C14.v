(* C14 -- totality.  On the executable model of the per-line pipeline, for EVERY text (any code points, any number of lines), every salt and every
   option set inside the model's domain, processing returns a text: the FileAnonymizer state built by the constructor is well formed, every line keeps it
   well formed, and the only outcomes other than a line are (a) ORACLE-MISS -- the passlib answers are supplied with each case as a table; a missing entry is
   a property of the case, not of netconan -- and (b) UnicodeEncodeError from the sensitive-word stage, which is what Python raises when text with lone
   surrogates is hashed; on valid text the word stage is total too.  Ingredients: all generated patterns non-nullable; the groups the secrets stage reads
   lie on every path of their pattern (decided on the 57 generated ASTs, sound by RxGroups); values juniper_decrypt accepts are classified type 9 by the
   generated format function; $9$ decoder fails only with ValueError, encoder total; parsers return numbers of the family's width and the memo never refuses a
   write under its invariant; a match of the AS pattern spans a listed numeral, which has a map entry.
   Not proved: passlib's totality on its documented domain (oracle); what happens outside the model's domain (empty word / AS lists, word lists with regex
   metacharacters) is covered by the search only. *)
From Coq Require Import String.
From Coq Require Import List Bool Arith NArith ZArith.
Import ListNotations.
Require Import Str Rx RxFacts G_rx JunModel JunProofs TextModel TextProofs Memo MemoProofs.
Require TotalProofs TotalIp IpModel TotalWords TotalAs TotalLine.

Theorem C14_generated_patterns_are_non_nullable : all_sub_patterns_non_nullable = true.
Proof. exact generated_patterns_non_nullable. Qed.

Theorem C14_juniper_decrypt_fails_only_with_ValueError :
  forall crypt : str, (exists p, decrypt crypt = JOk p) \/ decrypt crypt = JValueError.
Proof. exact decrypt_refuses_with_value_error. Qed.

Theorem C14_juniper_encrypt_total_for_every_salt :
  forall plain salt : str, Forall (fun c => (c < 256)%N) plain -> exists crypt, encrypt plain salt = JOk crypt.
Proof. intros plain salt H. destruct (encrypt_decrypt_roundtrip plain salt H) as (c & E & _). eauto. Qed.

Theorem C14_address_memo_never_raises :
  forall (H : bits -> bool) (n B : nat) (seeds : list bits) ops, Forall (fun o => op_len o = n) ops ->
  exists d0 d', Memo.init seeds = Ok d0 /\ MemoProofs.run H n B d0 ops = Ok (d', map (MemoProofs.pure H n B seeds) ops).
Proof. exact fresh_history. Qed.

Theorem C14_as_pattern_non_nullable : forall nums, nums <> [] -> Forall (fun s => s <> []) nums -> nullable (as_rx nums) = false.
Proof. exact as_regex_non_nullable. Qed.

(* every value juniper_decrypt accepts is classified as type 9 by the GENERATED format function (so the re-decryption of the replacement cannot fail) *)
Theorem C14_decryptable_values_are_classified_juniper : forall val d, JunModel.decrypt val = JOk d -> check_format val = F_JUNIPER.
Proof. exact TotalProofs.decrypt_ok_is_juniper. Qed.

(* the whole secrets stage of a line: every generated line pattern is non-nullable and reads only groups that lie on every path of the pattern
   (decided on the generated ASTs, sound by lib/RxGroups.always_part_sound), so no substitution and no match.group() can fail *)
Theorem C14_secrets_stage_never_raises : forall orc reserved salt line lookup,
  TotalProofs.table_bytes orc -> TotalProofs.table_bytes lookup ->
  match replace_matching_item orc reserved salt line lookup with
  | Done r => TotalProofs.table_bytes (snd r)
  | Raised e => e = lit "ORACLE-MISS"
  end.
Proof. exact TotalProofs.replace_matching_item_never_raises. Qed.

(* the address stages: on an anonymizer whose memo satisfies the invariant (every state reachable from the constructors, C03) the IPv6 / IPv4 pass over
   ANY line returns a line and an anonymizer satisfying the invariant again -- the parsers only produce numbers of the family's width (proved), the
   patterns are non-nullable, the memo never refuses a write *)
Theorem C14_address_stage_never_raises : forall (v6 undo : bool) (a : IpModel.anonymizer) (line : str),
  TotalIp.WF (if v6 then 128 else 32)%nat a ->
  exists a' out, anonymize_ip_line v6 undo a line = Done (a', out) /\ TotalIp.WF (if v6 then 128 else 32)%nat a'.
Proof. exact TotalIp.anonymize_ip_line_never_raises. Qed.

Theorem C14_anonymize_value_never_raises : forall orc raw lookup reserved salt,
  TotalProofs.table_bytes orc -> TotalProofs.table_bytes lookup ->
  match anonymize_value orc raw lookup reserved salt with
  | Done r => TotalProofs.table_bytes (snd r)
  | Raised e => e = lit "ORACLE-MISS"
  end.
Proof. exact TotalProofs.anonymize_value_never_raises. Qed.

(* the whole pipeline *)
Theorem C14_every_line_returns_a_line : forall orc f line, TotalProofs.table_bytes orc -> TotalLine.FWF f ->
  match process_line orc f line with
  | Done r => TotalLine.FWF (fst r)
  | Raised e => e = lit "ORACLE-MISS" \/ e = lit "UnicodeEncodeError"
  end.
Proof. exact TotalLine.process_line_never_raises. Qed.

Theorem C14_constructed_anonymizer_processes_every_text : forall orc o f lines, TotalProofs.table_bytes orc ->
  fa_init o = Done f -> o_words o <> Some [] -> o_asnums o <> Some [] ->
  match anonymize_io orc f lines with
  | Done r => TotalLine.FWF (fst r)
  | Raised e => e = lit "ORACLE-MISS" \/ e = lit "UnicodeEncodeError"
  end.
Proof. exact TotalLine.constructed_anonymizer_processes_every_text. Qed.

(* on valid text (code points Python can encode) the sensitive-word stage is total *)
Theorem C14_word_stage_total_on_valid_text : forall a line, TotalWords.wf_words a -> TotalWords.vtext line -> exists out, anonymize_words_line a line = Done out.
Proof. exact TotalWords.anonymize_words_line_never_raises. Qed.

(* non-vacuity: a constructor call with every feature on succeeds in the model *)
Example C14_a_full_option_set_constructs :
  match fa_init {| o_pwd := true; o_ip := true; o_undo := false; o_salt := lit "s"; o_words := Some [lit "sea"]; o_asnums := Some [lit "65001"];
                   o_reserved := None; o_prefixes := None; o_networks := None; o_b4 := 8; o_b6 := 8 |} with Done _ => true | Raised _ => false end = true.
Proof. vm_compute. reflexivity. Qed.

Print Assumptions C14_generated_patterns_are_non_nullable.
Print Assumptions C14_juniper_decrypt_fails_only_with_ValueError.
Print Assumptions C14_juniper_encrypt_total_for_every_salt.
Print Assumptions C14_address_memo_never_raises.
Print Assumptions C14_as_pattern_non_nullable.
Print Assumptions C14_decryptable_values_are_classified_juniper.
Print Assumptions C14_anonymize_value_never_raises.
Print Assumptions C14_secrets_stage_never_raises.
Print Assumptions C14_address_stage_never_raises.
Print Assumptions C14_every_line_returns_a_line.
Print Assumptions C14_constructed_anonymizer_processes_every_text.
Print Assumptions C14_word_stage_total_on_valid_text.
