(* C14 -- totality (partial: the failure modes listed below are excluded by theorems, the remaining ones by the hostile-line search).
   Proved: no substitution can fail for a nullable pattern (every generated pattern is non-nullable; the AS pattern is non-nullable for non-empty
   numerals); the $9$ decoder fails only with ValueError (which _anonymize_value catches) and the $9$ encoder never fails on a pseudonym, for EVERY
   salt string; the address memo never raises from any reachable state (C03).  Not proved: passlib's totality on its documented domain (oracle); totality of the
   address, word and AS-number stages as wired into process_line (their cores are covered by the theorems above and by C03/C10/C11).
   Proved in addition (TotalProofs): _anonymize_value -- the function every recognised secret goes through -- returns a result for EVERY raw value, lookup
   table, reserved list and salt, or reports that the passlib oracle table of the case lacks an entry; it keeps the lookup a table of byte strings. *)
From Coq Require Import String.
From Coq Require Import List Bool Arith NArith ZArith.
Import ListNotations.
Require Import Str Rx RxFacts G_rx JunModel JunProofs TextModel TextProofs Memo MemoProofs.
Require TotalProofs TotalIp IpModel.

Theorem C14_generated_patterns_are_non_nullable : all_sub_patterns_non_nullable = true.
Proof. exact generated_patterns_non_nullable. Qed.

Theorem C14_juniper_decrypt_fails_only_with_ValueError :
  forall crypt : str, (exists p, decrypt crypt = JOk p) \/ decrypt crypt = JValueError.
Proof. exact decrypt_refuses_with_value_error. Qed.

Theorem C14_juniper_encrypt_total_for_every_salt :
  forall plain salt : str, Forall (fun c => (c < 256)%N) plain -> exists crypt, encrypt plain salt = JOk crypt.
Proof. intros plain salt H. destruct (encrypt_decrypt_roundtrip plain salt H) as (c & E & _). eauto. Qed.

Theorem C14_address_memo_never_raises :
  forall (H : bits -> bool) (n B : nat) (seeds : list bits) ops, Forall (fun o => op_len o = n) ops ->
  exists d0 d', Memo.init seeds = Ok d0 /\ MemoProofs.run H n B d0 ops = Ok (d', map (MemoProofs.pure H n B seeds) ops).
Proof. exact fresh_history. Qed.

Theorem C14_as_pattern_non_nullable : forall nums, nums <> [] -> Forall (fun s => s <> []) nums -> nullable (as_rx nums) = false.
Proof. exact as_regex_non_nullable. Qed.

(* every value juniper_decrypt accepts is classified as type 9 by the GENERATED format function (so the re-decryption of the replacement cannot fail) *)
Theorem C14_decryptable_values_are_classified_juniper : forall val d, JunModel.decrypt val = JOk d -> check_format val = F_JUNIPER.
Proof. exact TotalProofs.decrypt_ok_is_juniper. Qed.

(* the whole secrets stage of a line: every generated line pattern is non-nullable and reads only groups that lie on every path of the pattern
   (decided on the generated ASTs, sound by lib/RxGroups.always_part_sound), so no substitution and no match.group() can fail *)
Theorem C14_secrets_stage_never_raises : forall orc reserved salt line lookup,
  TotalProofs.table_bytes orc -> TotalProofs.table_bytes lookup ->
  match replace_matching_item orc reserved salt line lookup with
  | Done r => TotalProofs.table_bytes (snd r)
  | Raised e => e = lit "ORACLE-MISS"
  end.
Proof. exact TotalProofs.replace_matching_item_never_raises. Qed.

(* the address stages: on an anonymizer whose memo satisfies the invariant (every state reachable from the constructors, C03) the IPv6 / IPv4 pass over
   ANY line returns a line and an anonymizer satisfying the invariant again -- the parsers only produce numbers of the family's width (proved), the
   patterns are non-nullable, the memo never refuses a write *)
Theorem C14_address_stage_never_raises : forall (v6 undo : bool) (a : IpModel.anonymizer) (line : str),
  TotalIp.WF (if v6 then 128 else 32)%nat a ->
  exists a' out, anonymize_ip_line v6 undo a line = Done (a', out) /\ TotalIp.WF (if v6 then 128 else 32)%nat a'.
Proof. exact TotalIp.anonymize_ip_line_never_raises. Qed.

Theorem C14_anonymize_value_never_raises : forall orc raw lookup reserved salt,
  TotalProofs.table_bytes orc -> TotalProofs.table_bytes lookup ->
  match anonymize_value orc raw lookup reserved salt with
  | Done r => TotalProofs.table_bytes (snd r)
  | Raised e => e = lit "ORACLE-MISS"
  end.
Proof. exact TotalProofs.anonymize_value_never_raises. Qed.

Print Assumptions C14_generated_patterns_are_non_nullable.
Print Assumptions C14_juniper_decrypt_fails_only_with_ValueError.
Print Assumptions C14_juniper_encrypt_total_for_every_salt.
Print Assumptions C14_address_memo_never_raises.
Print Assumptions C14_as_pattern_non_nullable.
Print Assumptions C14_decryptable_values_are_classified_juniper.
Print Assumptions C14_anonymize_value_never_raises.
Print Assumptions C14_secrets_stage_never_raises.
Print Assumptions C14_address_stage_never_raises.
