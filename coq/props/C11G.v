(* C11G -- the theorems of C11 about the function-level code GENERATED on this run from /repo's source (coq/gen/G_fn_*.v) and refined to the
   model in coq/refine/*.v.  Kept apart from props/C11.v: when a behaviour-preserving rewrite of the source makes one of these scripts fail,
   the property is still decided by the model theorems of props/C11.v and the correspondence run, and the check reports the function-level
   tie as not re-established (TIE-DEGRADED) instead of raising an alarm; see DESIGN.md section 4. *)
From Coq Require Import String.
From Coq Require Import List Bool Arith NArith ZArith.
Import ListNotations.
Require Import Str Rx RxFacts AsModel G_as_num TextModel TextProofs.
Require PyLib G_fn_sir RefAs G_fn_sir2 RefJun RefSub RefAsLine G_fn_sir3 RefBase RefAsInit.

(* TIE A (function level): the Gallina function GENERATED on this run from AsNumberAnonymizer._generate_as_number_replacement returns, for every
   salt Python can encode and every numeral in range, the decimal text of a number of the same block *)
Theorem C11_generated_replacement_function_preserves_the_block :
  forall (py_call : PyLib.pyval -> PyLib.pyval -> PyLib.res) (fuel : nat) (self : PyLib.pyval) (salt numeral : str) (n : N) (h : Z),
  PyLib.py_getattr self "salt" = PyLib.Normal (PyLib.VStr (RefAs.zs salt)) ->
  parse_dec numeral = Some n -> (n <= 4294967295)%N -> hash_int salt numeral = Some h ->
  exists r, G_fn_sir.gen_AsNumberAnonymizer___generate_as_number_replacement py_call fuel self (PyLib.VStr (RefAs.zs numeral))
            = PyLib.Normal (PyLib.VTuple [PyLib.VStr (PyLib.nat_str 10 r); self])
            /\ (0 <= r <= 4294967295)%Z /\ AsModel.block r = AsModel.block (Z.of_N n).
Proof. exact RefAs.gen_as_replacement_preserves_block. Qed.

(* anonymize_as_numbers translated from the source (pattern.sub with the callback anonymizer.anonymize(match.group(0)), get_as_number_pattern,
   the dictionary look-up) returns the model's anonymize_as_line: every match of the anonymizer's pattern replaced by its entry in the
   replacement map, all other text copied.  The pattern's finditer and group(0) are served by RefSub.sub_call over the regex engine. *)
Theorem C11_generated_anonymize_as_numbers_is_the_model :
  forall (rx_of : PyLib.pyval -> option re) (cls : list Z) (saltv rh : PyLib.pyval) (fuel : nat) (a : as_anonymizer) (line l : str),
  rx_of rh = Some (as_regex a) -> anonymize_as_line a line = Done l ->
  G_fn_sir2.gen_anonymize_as_numbers (RefSub.sub_call rx_of) fuel (RefAsLine.enc_as cls saltv rh a) (RefJun.vstr line) = PyLib.Normal (RefJun.vstr l).
Proof. exact RefAsLine.gen_anonymize_as_numbers_refines. Qed.

(* AsNumberAnonymizer.__init__ translated from the source (with _generate_as_number_regex and _generate_as_number_replacement_map, unit G_fn_sir3.v): for a
   list of distinct ASCII-digit numerals, whenever the model's as_init builds an anonymizer the translated constructor builds exactly the object the
   theorem above starts from -- salt, the pattern re.compile answered for the text "(?:(?<=\D)|(?<=^))(" + "|".join(numbers) + ")(?=\D|$)", and the map
   holding for each listed numeral the replacement computed by the translated _generate_as_number_replacement; and the model's pattern is as_rx of the
   same list.  (That as_rx is what Python's parser makes of this text is data-level: regenerated and compared by the correspondence run.) *)
Theorem C11_generated_constructor_is_the_model :
  forall (pc : PyLib.pyval -> PyLib.pyval -> PyLib.res) (cls : list Z) (salt : str) (fuel : nat) (nums : list str) (rxv : PyLib.pyval) (a : as_anonymizer),
  pc (PyLib.VFun (PyLib.of_string "re.compile")) (PyLib.VTuple [PyLib.VList [RefJun.vstr (RefAsInit.as_pattern_text nums)]; PyLib.VDict []]) = PyLib.Normal rxv ->
  NoDup nums -> as_init nums salt = Done a ->
  G_fn_sir3.gen_AsNumberAnonymizer____init__ pc fuel (PyLib.VObj cls []) (PyLib.VList (map RefJun.vstr nums)) (RefJun.vstr salt)
  = PyLib.Normal (PyLib.VTuple [PyLib.VNone; RefAsLine.enc_as cls (RefJun.vstr salt) rxv a]) /\ as_regex a = as_rx nums.
Proof. exact RefAsInit.gen_as_init_is_the_model. Qed.

(* ... and for any list (repetitions allowed) the map is the same association, a repeated numeral keeping its first position *)
Theorem C11_generated_constructor_builds_the_replacement_map :
  forall (pc : PyLib.pyval -> PyLib.pyval -> PyLib.res) (cls : list Z) (salt : str) (fuel : nat) (nums : list str) (rxv : PyLib.pyval) (m : list (str * str)),
  pc (PyLib.VFun (PyLib.of_string "re.compile")) (PyLib.VTuple [PyLib.VList [RefJun.vstr (RefAsInit.as_pattern_text nums)]; PyLib.VDict []]) = PyLib.Normal rxv ->
  RefAsInit.as_build salt nums = Done m ->
  G_fn_sir3.gen_AsNumberAnonymizer____init__ pc fuel (PyLib.VObj cls []) (PyLib.VList (map RefJun.vstr nums)) (RefJun.vstr salt)
  = PyLib.Normal (PyLib.VTuple [PyLib.VNone; PyLib.VObj cls [(PyLib.S_ "salt", RefJun.vstr salt); (PyLib.S_ "as_num_regex", rxv);
                                                             (PyLib.S_ "as_num_map", RefBase.vlook (RefAsInit.fill [] m))]]).
Proof. exact RefAsInit.gen_as_init_refines. Qed.

Print Assumptions C11_generated_replacement_function_preserves_the_block.
Print Assumptions C11_generated_anonymize_as_numbers_is_the_model.
Print Assumptions C11_generated_constructor_is_the_model.
Print Assumptions C11_generated_constructor_builds_the_replacement_map.
