(* C11G -- the theorems of C11 about the function-level code GENERATED on this run from /repo's source (coq/gen/G_fn_*.v) and refined to the
   model in coq/refine/*.v.  Kept apart from props/C11.v: when a behaviour-preserving rewrite of the source makes one of these scripts fail,
   the property is still decided by the model theorems of props/C11.v and the correspondence run, and the check reports the function-level
   tie as not re-established (TIE-DEGRADED) instead of raising an alarm; see DESIGN.md section 4. *)
From Coq Require Import String.
From Coq Require Import List Bool Arith NArith ZArith.
Import ListNotations.
Require Import Str Rx RxFacts AsModel G_as_num TextModel TextProofs.
Require PyLib G_fn_sir RefAs.

(* TIE A (function level): the Gallina function GENERATED on this run from AsNumberAnonymizer._generate_as_number_replacement returns, for every
   salt Python can encode and every numeral in range, the decimal text of a number of the same block *)
Theorem C11_generated_replacement_function_preserves_the_block :
  forall (py_call : PyLib.pyval -> PyLib.pyval -> PyLib.res) (fuel : nat) (self : PyLib.pyval) (salt numeral : str) (n : N) (h : Z),
  PyLib.py_getattr self "salt" = PyLib.Normal (PyLib.VStr (RefAs.zs salt)) ->
  parse_dec numeral = Some n -> (n <= 4294967295)%N -> hash_int salt numeral = Some h ->
  exists r, G_fn_sir.gen_AsNumberAnonymizer___generate_as_number_replacement py_call fuel self (PyLib.VStr (RefAs.zs numeral))
            = PyLib.Normal (PyLib.VTuple [PyLib.VStr (PyLib.nat_str 10 r); self])
            /\ (0 <= r <= 4294967295)%Z /\ AsModel.block r = AsModel.block (Z.of_N n).
Proof. exact RefAs.gen_as_replacement_preserves_block. Qed.

Print Assumptions C11_generated_replacement_function_preserves_the_block.
