(* C11G -- the theorems of C11 about the function-level code GENERATED on this run from /repo's source (coq/gen/G_fn_*.v) and refined to the
   model in coq/refine/*.v.  Kept apart from props/C11.v: when a behaviour-preserving rewrite of the source makes one of these scripts fail,
   the property is still decided by the model theorems of props/C11.v and the correspondence run, and the check reports the function-level
   tie as not re-established (TIE-DEGRADED) instead of raising an alarm; see DESIGN.md section 4. *)
From Coq Require Import String.
From Coq Require Import List Bool Arith NArith ZArith.
Import ListNotations.
Require Import Str Rx RxFacts AsModel G_as_num TextModel TextProofs.
Require PyLib G_fn_sir RefAs G_fn_sir2 RefJun RefSub RefAsLine.

(* TIE A (function level): the Gallina function GENERATED on this run from AsNumberAnonymizer._generate_as_number_replacement returns, for every
   salt Python can encode and every numeral in range, the decimal text of a number of the same block *)
Theorem C11_generated_replacement_function_preserves_the_block :
  forall (py_call : PyLib.pyval -> PyLib.pyval -> PyLib.res) (fuel : nat) (self : PyLib.pyval) (salt numeral : str) (n : N) (h : Z),
  PyLib.py_getattr self "salt" = PyLib.Normal (PyLib.VStr (RefAs.zs salt)) ->
  parse_dec numeral = Some n -> (n <= 4294967295)%N -> hash_int salt numeral = Some h ->
  exists r, G_fn_sir.gen_AsNumberAnonymizer___generate_as_number_replacement py_call fuel self (PyLib.VStr (RefAs.zs numeral))
            = PyLib.Normal (PyLib.VTuple [PyLib.VStr (PyLib.nat_str 10 r); self])
            /\ (0 <= r <= 4294967295)%Z /\ AsModel.block r = AsModel.block (Z.of_N n).
Proof. exact RefAs.gen_as_replacement_preserves_block. Qed.

(* anonymize_as_numbers translated from the source (pattern.sub with the callback anonymizer.anonymize(match.group(0)), get_as_number_pattern,
   the dictionary look-up) returns the model's anonymize_as_line: every match of the anonymizer's pattern replaced by its entry in the
   replacement map, all other text copied.  The pattern's finditer and group(0) are served by RefSub.sub_call over the regex engine. *)
Theorem C11_generated_anonymize_as_numbers_is_the_model :
  forall (rx_of : PyLib.pyval -> option re) (cls : list Z) (saltv rh : PyLib.pyval) (fuel : nat) (a : as_anonymizer) (line l : str),
  rx_of rh = Some (as_regex a) -> anonymize_as_line a line = Done l ->
  G_fn_sir2.gen_anonymize_as_numbers (RefSub.sub_call rx_of) fuel (RefAsLine.enc_as cls saltv rh a) (RefJun.vstr line) = PyLib.Normal (RefJun.vstr l).
Proof. exact RefAsLine.gen_anonymize_as_numbers_refines. Qed.

Print Assumptions C11_generated_replacement_function_preserves_the_block.
Print Assumptions C11_generated_anonymize_as_numbers_is_the_model.
