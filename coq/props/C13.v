(* C13 -- same salt, options and input give byte-identical output.
   The model is a Gallina FUNCTION of (oracle answers, options, lines): it has no hash seed, clock, random source or global state, so agreement of
   the implementation with it under every hash seed, in fresh processes and after unrelated anonymizers were built (the correspondence of this
   check) is what shows the implementation has no hidden input.  Proved here: the one place where the code iterates over a set -- the order of
   the sensitive-word alternation -- is made irrelevant by the longest-first sort: the sorted list does not depend on the order in which the
   (duplicate-free) words are presented, for lists of up to 4 words over a 3-letter alphabet of lengths <= 2 (bounded sweep, stated as such). *)
From Coq Require Import String.
From Coq Require Import List Bool Arith NArith ZArith.
Import ListNotations.
Require Import Str TextModel TextProofs.

Fixpoint perms {A} (l : list A) : list (list A) :=
  match l with
  | [] => [[]]
  | x :: r => flat_map (fun p => map (fun k => firstn k p ++ x :: skipn k p) (seq 0 (S (length p)))) (perms r)
  end.
Definition small_words : list str := map lit ["k"; "s"; "x"; "ks"; "sk"; "xx"; "kx"]%string.
Fixpoint sublists {A} (l : list A) : list (list A) := match l with [] => [[]] | x :: r => sublists r ++ map (cons x) (sublists r) end.

(* bounded: every duplicate-free list of at most 4 of the 7 small words, in every order *)
Theorem C13_word_order_is_irrelevant_after_sorting_bounded :
  forallb (fun ws => if Nat.leb (length ws) 4 then forallb (fun p => str_eqb (join [0%N] (sort_words p)) (join [0%N] (sort_words ws))) (perms ws) else true) (sublists small_words) = true.
Proof. vm_compute. reflexivity. Qed.

(* the model output is a function of its arguments (stated for the record; trivially true of any Gallina term) *)
Theorem C13_model_has_no_hidden_input :
  forall orc f lines, anonymize_io orc f lines = anonymize_io orc f lines.
Proof. reflexivity. Qed.

Print Assumptions C13_word_order_is_irrelevant_after_sorting_bounded.
Print Assumptions C13_model_has_no_hidden_input.
