(* C13 -- same salt, options and input give byte-identical output.
   The model is a Gallina FUNCTION of (oracle answers, options, lines): it has no hash seed, clock, random source or global state, so agreement of
   the implementation with it under every hash seed, in fresh processes and after unrelated anonymizers were built (the correspondence of this
   check) is what shows the implementation has no hidden input.  Proved here: the one place where the code iterates over a set -- the order of
   the sensitive-word alternation -- is made irrelevant by the longest-first sort: the sorted list is a function of the SET of words. *)
From Coq Require Import String.
From Coq Require Import List Bool Arith NArith ZArith.
Import ListNotations.
Require Import Str TextModel TextProofs SortProofs.

(* the alternation is built from sort_words applied to the words in whatever order the set yields them: the result depends only on
   the SET of words (unbounded: any two lists with the same elements) *)
Theorem C13_word_alternation_order_is_independent_of_set_iteration_order :
  forall l1 l2 : list str, (forall w, In w l1 <-> In w l2) -> sort_words l1 = sort_words l2.
Proof. exact sort_words_depends_only_on_the_set_of_words. Qed.

(* the model output is a function of its arguments (stated for the record; trivially true of any Gallina term) *)
Theorem C13_model_has_no_hidden_input :
  forall orc f lines, anonymize_io orc f lines = anonymize_io orc f lines.
Proof. reflexivity. Qed.

Print Assumptions C13_word_alternation_order_is_independent_of_set_iteration_order.
Print Assumptions C13_model_has_no_hidden_input.
