(* C02G -- the theorems of C02 about the function-level code GENERATED on this run from /repo's source (coq/gen/G_fn_*.v) and refined to the
   model in coq/refine/*.v.  Kept apart from props/C02.v: when a behaviour-preserving rewrite of the source makes one of these scripts fail,
   the property is still decided by the model theorems of props/C02.v and the correspondence run, and the check reports the function-level
   tie as not re-established (TIE-DEGRADED) instead of raising an alarm; see DESIGN.md section 4. *)
From Coq Require Import String.
From Coq Require Import List Bool Arith ZArith.
Import ListNotations.
Require Import PPCore PPHost Memo MemoProofs PyLib G_fn_ip RefIpCommon RefDeanon.

(* TIE A (function level): the GENERATED deanonymize / _deanonymize_bits, from any memo satisfying the invariant -- cold or warm --
   returns the pure pre-image and re-establishes the invariant *)
Theorem C02_generated_undo_returns_the_pure_preimage :
  forall (H : list bool -> bool) (py_call : pyval -> pyval -> PyLib.res) (clsname : list Z) (saltv lengthv fmtv salterv : pyval) (rest : list (pyval * pyval))
         (n B : nat) (seeds : list (list bool)),
  (forall b, py_call salterv (VList [saltv; VS b]) = Normal (VInt (if H b then 1 else 0)%Z)) ->
  forall d x bits y, MemoProofs.Inv H n B seeds d -> List.length bits = n -> (B <= n)%nat ->
  py_format fmtv (VList [VInt x]) (VDict []) = Normal (VS bits) ->
  py_int (VS (MemoProofs.DB H n B seeds bits)) (VInt 2) = Normal (VInt y) ->
  exists d', gen__BaseIpAnonymizer__deanonymize py_call (S (List.length bits)) (mkself clsname saltv lengthv fmtv salterv (Z.of_nat B) rest d) (VInt x)
             = Normal (VTuple [VInt y; mkself clsname saltv lengthv fmtv salterv (Z.of_nat B) rest d']) /\ MemoProofs.Inv H n B seeds d'.
Proof. exact gen_deanonymize_returns_preimage. Qed.

Print Assumptions C02_generated_undo_returns_the_pure_preimage.
