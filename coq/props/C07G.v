(* C07G -- theorem of C07 (the secrets stage on one line; also what C12 says about that stage) about the function-level code GENERATED on this
   run from /repo's source (coq/gen/G_fn_sir2.v) and refined to the model in coq/refine/RefItem.v.  Kept apart from props/C07.v: when a
   behaviour-preserving rewrite of the source makes the script fail, the property is still decided by the model theorems of props/C07.v and the
   correspondence run, and the check reports the function-level tie as not re-established (TIE-DEGRADED); see DESIGN.md section 4. *)
From Coq Require Import String.
From Coq Require Import List Bool Arith NArith ZArith.
Import ListNotations.
Require Import PyLib Str G_rx TextModel TotalProofs G_fn_sir2 RefJun RefValue RefItem.

(* replace_matching_item translated from the source IS the model's replace_matching_item on the generated pattern table: split into leading
   white space / words / trailing white space, enclosing text, the loop over pattern groups (stop at the first group with a match), the loop
   over the group's patterns (skip the ones that do not match; a pattern without a group number scrubs the line and ends the group), the
   "prefix" group, _anonymize_value (C08G), substitution of every match.  Pattern and match objects are served by a dispatcher written over
   the regex engine (RefItem.sir_call); rmi_need is the fuel the translated while loops need on this run. *)
Theorem C07_generated_replace_matching_item_is_the_model :
  forall (orc : oracle) (reserved : list str) (salt line : str) (lookup : lookup_t) (out : str) (lookup' : lookup_t) (fuel : nat),
  table_bytes orc -> table_bytes lookup -> keys_unique lookup ->
  (rmi_need orc reserved salt PWD_REGEXES line lookup <= fuel)%nat ->
  replace_matching_item orc reserved salt line lookup = Done (out, lookup') ->
  gen_replace_matching_item (sir_call orc (concat PWD_REGEXES)) fuel (VList (map enc_group (index_groups 0 PWD_REGEXES)))
                            (vstr line) (vlook lookup) (vstr salt) (vres reserved)
  = Normal (VTuple [vstr out; vlook lookup']).
Proof. exact gen_replace_matching_item_is_the_model. Qed.

(* the dispatcher's passlib part meets the assumption under which C08G is stated: that assumption is satisfiable *)
Theorem C07G_dispatcher_answers_passlib_as_the_model : forall orc tbl, passlib_answers_as_the_model (sir_call orc tbl) orc.
Proof. exact sir_passlib. Qed.

(* the translated _split_line *)
Theorem C07_generated_split_line_is_the_model : forall (pc : pyval -> pyval -> PyLib.res) (fuel : nat) (line : str),
  gen__split_line pc fuel (vstr line) = (let '(l, w, t) := split_line line in Normal (VTuple [vstr l; VList (map vstr w); vstr t])).
Proof. exact gen_split_line_refines. Qed.

Print Assumptions C07_generated_replace_matching_item_is_the_model.
Print Assumptions C07G_dispatcher_answers_passlib_as_the_model.
Print Assumptions C07_generated_split_line_is_the_model.
