(* C05G -- the theorems of C05 about the function-level code GENERATED on this run from /repo's source (coq/gen/G_fn_*.v) and refined to the
   model in coq/refine/*.v.  Kept apart from props/C05.v: when a behaviour-preserving rewrite of the source makes one of these scripts fail,
   the property is still decided by the model theorems of props/C05.v and the correspondence run, and the check reports the function-level
   tie as not re-established (TIE-DEGRADED) instead of raising an alarm; see DESIGN.md section 4. *)
From Coq Require Import String.
From Coq Require Import List Bool Arith NArith ZArith Lia.
Import ListNotations.
Require Import PPCore PPHost Memo MemoProofs Pinned Str Mask IpModel PyLib G_fn_ip RefMask RefShould.

(* TIE A (function level): the Gallina code GENERATED on this run from IpAnonymizer._is_mask computes exactly that test *)
Theorem C05_generated_is_mask_is_the_mask_test :
  forall (py_call : pyval -> pyval -> PyLib.res) (fuel : nat) (self : pyval) (x : N),
  gen_IpAnonymizer___is_mask py_call fuel self (VInt (Z.of_N x)) = Normal (VTuple [VBool (is_mask x); self]).
Proof. exact gen_is_mask_refines. Qed.
(* TIE A (function level): the GENERATED IpAnonymizer.should_anonymize answers exactly that, on the network objects the constructor stored *)
Theorem C05_generated_should_anonymize_skips_masks_and_preserved_networks :
  forall (py_call : pyval -> pyval -> PyLib.res) (fuel : nat) (self : pyval) (nets : list (N * nat)) (x : N),
  (x < 2 ^ 32)%N -> Forall (fun net => (snd net <= 32)%nat) nets ->
  py_getattr self "_preserve_addresses" = Normal (VList (map vnet nets)) ->
  gen_IpAnonymizer__should_anonymize py_call fuel self (VInt (Z.of_N x))
  = Normal (VTuple [VBool (negb (is_mask x || existsb (in_net x) nets)); self]).
Proof. exact gen_should_anonymize_refines. Qed.

Print Assumptions C05_generated_should_anonymize_skips_masks_and_preserved_networks.
Print Assumptions C05_generated_is_mask_is_the_mask_test.
