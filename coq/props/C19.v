(* C19 -- command-line contract (partial: main's logic on the parsed argument record; argparse/configargparse by search).
   Proved on model/CliModel.v: every invalid combination is rejected before anonymize_files can be called; with no anonymization option nothing is
   called; the host-bit value reaches both families; --preserve-private-addresses appends exactly the three RFC 1918 networks to the preserved
   addresses; the defaults READ FROM THE REAL PARSER are 8 host bits, the class + private prefix list, everything else off. *)
From Coq Require Import String.
From Coq Require Import List Bool Arith NArith ZArith.
Import ListNotations.
Require Import Str G_cli_consts CliModel.

Theorem C19_invalid_combinations_rejected_before_any_call :
  forall a, (a_undo a = true /\ a_ips a = true) \/ (a_undo a = true /\ a_salt a = None) \/ (a_dump a <> None /\ a_ips a = false)
            \/ a_input a = [] \/ a_output a = [] -> exists e, main_model a = MRaise e.
Proof. exact invalid_combinations_rejected_before_any_call. Qed.

Theorem C19_nothing_enabled_nothing_written :
  forall a, a_ips a = false -> a_pwd a = false -> a_undo a = false -> a_asnums a = None -> a_words a = None -> is_call (main_model a) = false.
Proof. exact nothing_enabled_nothing_written. Qed.

Theorem C19_host_bits_reach_both_families : forall a c, main_model a = MCall c -> c_b4 c = a_hostbits a /\ c_b6 c = a_hostbits a.
Proof. exact host_bits_reach_both_families. Qed.

Theorem C19_private_flag_equals_listing_rfc1918 :
  forall a c, a_private a = true -> main_model a = MCall c ->
  c_networks c = Some (match split_commas (a_addresses a) with None => RFC_1918_TXT | Some l => l ++ RFC_1918_TXT end).
Proof. exact private_flag_adds_rfc1918. Qed.

Theorem C19_documented_defaults :
  CLI_DEFAULT_HOST_BITS = 8%nat /\ split_on 44 CLI_DEFAULT_PREFIXES = DEFAULT_PREFIXES_TXT /\ CLI_DEFAULTS_NONE = true /\ CLI_DEFAULTS_FALSE = true
  /\ DEFAULT_PREFIXES_TXT = map lit ["0.0.0.0/1"; "128.0.0.0/2"; "192.0.0.0/3"; "224.0.0.0/4"; "10.0.0.0/8"; "172.16.0.0/12"; "192.168.0.0/16"]%string
  /\ RFC_1918_TXT = map lit ["10.0.0.0/8"; "172.16.0.0/12"; "192.168.0.0/16"]%string.
Proof. exact documented_defaults. Qed.

Print Assumptions C19_invalid_combinations_rejected_before_any_call.
Print Assumptions C19_nothing_enabled_nothing_written.
Print Assumptions C19_host_bits_reach_both_families.
Print Assumptions C19_private_flag_equals_listing_rfc1918.
Print Assumptions C19_documented_defaults.
