(* C05 -- netmask / wildcard shaped values and preserved addresses are left alone; nothing collides with a preserved network. *)
From Coq Require Import String.
From Coq Require Import List Bool Arith NArith ZArith Lia.
Import ListNotations.
Require Import PPCore PPHost Memo MemoProofs Pinned Str Mask IpModel.
Require TextModel.

(* _is_mask accepts exactly the 33 + 33 values "k low ones" / "ones from bit k up", for ALL 2^32 inputs *)
Theorem C05_is_mask_iff_mask_or_wildcard_shape :
  forall x : N, (x < 2 ^ 32)%N ->
  (is_mask x = true <-> exists k : N, (k <= 32)%N /\ (x = low_ones k \/ x = high_ones k)).
Proof. exact is_mask_spec. Qed.

(* should_anonymize is false exactly for mask-shaped values and members of a preserved network *)
Theorem C05_skip_iff_mask_or_preserved :
  forall (a : anonymizer) (x : N),
  should_anonymize4 a x = false <-> (is_mask x = true \/ exists net, In net (a_nets a) /\ in_net x net = true).
Proof.
  intros a x. unfold should_anonymize4. rewrite negb_false_iff, orb_true_iff, existsb_exists. reflexivity.
Qed.

(* IpAnonymizer.__init__ registers every preserved network as a preserved prefix, hence no address outside a
   preserved network is ever mapped into it (and none inside is mapped out of it), for every salt/H, B, lists *)
Theorem C05_no_collision_with_preserved_networks :
  forall (H : bits -> bool) (B : nat) (prefixes addresses : list (N * nat)) (a : anonymizer) (net : N * nat) (x : bits),
  ip4_init H B prefixes addresses = Ok a -> In net addresses -> length x = 32 ->
  let seeds := map (prefix_bits 32) (prefixes ++ addresses) in
  let P := prefix_bits 32 net in
  a_nets a = addresses /\
  (exists d0, Memo.init seeds = Ok d0 /\ a_cache a = d0) /\
  (is_prefix P x = false -> is_prefix P (Pinned.image H 32 B seeds x) = false) /\
  (is_prefix P x = true -> is_prefix P (Pinned.image H 32 B seeds x) = true).
Proof.
  intros H B prefixes addresses a net x Hinit Hin Lx seeds P.
  assert (HP : In P seeds) by (unfold seeds, P; apply in_map; apply in_or_app; right; exact Hin).
  unfold ip4_init in Hinit. fold seeds in Hinit.
  destruct (seed_all [([], [])] seeds) as [d|] eqn:E; [|discriminate].
  injection Hinit as <-. cbn [a_nets a_cache]. split; [reflexivity|]. split; [exists d; split; [exact E|reflexivity]|]. split.
  - apply Pinned.outside_stays_outside; auto. rewrite Lx. unfold P, prefix_bits. rewrite firstn_length.
    assert (L : length (fmt_bits 32 (fst net)) = 32).
    { unfold fmt_bits. generalize 32%nat. induction n; simpl; auto. }
    rewrite L. lia.
  - apply Pinned.inside_stays_inside; auto.
Qed.

Example C05_instances :
  is_mask (ipv4 255 255 254 0) = true /\ is_mask (ipv4 0 0 1 255) = true /\ is_mask (ipv4 255 0 255 0) = false /\ is_mask (ipv4 255 255 253 0) = false
  /\ forallb (fun k => forallb (fun i => negb (is_mask (N.lxor (low_ones (N.of_nat k)) (2 ^ N.of_nat i)))
                                  || is_mask (N.lxor (low_ones (N.of_nat k)) (2 ^ N.of_nat i))) (seq 0 32)) (seq 0 33) = true.
Proof. vm_compute. repeat split; reflexivity. Qed.


(* "appear in the output exactly as written": at text level, the callback the IPv4 pass runs on a matched token returns the matched text itself -- not a
   re-printed address, so leading zeros and every other detail of the spelling stay -- and leaves the anonymizer untouched whenever the token parses to a
   value that is mask- or wildcard-shaped or lies in a preserved network; for every token, state and direction (anonymize / undo) *)
Theorem C05_masks_and_preserved_addresses_are_left_exactly_as_written :
  forall (undo : bool) (a : IpModel.anonymizer) (m : Str.str) (x : N),
  TextModel.make_addr4 m = Some x -> IpModel.should_anonymize4 a x = false ->
  TextModel.ip_match false undo (TextModel.Done a) m = (TextModel.Done a, m).
Proof. intros undo a m x E S. unfold TextModel.ip_match. rewrite E, S. reflexivity. Qed.

Print Assumptions C05_is_mask_iff_mask_or_wildcard_shape.
Print Assumptions C05_skip_iff_mask_or_preserved.
Print Assumptions C05_no_collision_with_preserved_networks.
Print Assumptions C05_masks_and_preserved_addresses_are_left_exactly_as_written.
