(* C13G -- determinism stated on the function-level code GENERATED on this run from /repo's source (coq/gen/G_fn_files2.v with G_fn_sir2.v, G_fn_ip2.v)
   by way of its refinement to the model (coq/refine/RefPipeline.v).  The translator has no model of clocks, random sources, sets or module-level variables (it reads
   only upper-case module constants of type str/int/list/tuple/dict, by value, at generation time) and refuses a function that uses one (the stub
   then fails the refinement script), so a translated function is a Gallina function of its arguments and of the answers of the py_call parameter;
   the refinement says WHICH function.  Kept apart from props/C13.v; see DESIGN.md section 4. *)
From Coq Require Import String.
From Coq Require Import List Bool Arith NArith ZArith.
Import ListNotations.
Require Import PyLib Str IpModel TextModel TotalProofs G_fn_files G_fn_files2 RefJun RefValue RefIo RefPipeline.

(* the lines the translated pipeline writes are the model's function of (passlib answers, anonymizer built from salt and options, input lines): they
   do not depend on the leftover content of the sensitive-word replacement cache (d1 / d2: any two caches consistent with the anonymizer, e.g. the
   empty one of a fresh process and the one left by earlier files), nor on the class names of the objects, nor on what the output file held *)
Theorem C13_generated_pipeline_output_depends_only_on_salt_options_and_input :
  forall (orc : oracle) (t4 t6 : anonymizer) (wa : option word_anonymizer) (asa : option as_anonymizer) (cls1 clsw1 clsa1 cls2 clsw2 clsa2 : list Z) (rw saltva : pyval),
  table_bytes orc ->
  forall (fuel : nat) (f : file_anonymizer) (lines : list str) (outs1 outs2 : list pyval) (d1 d2 : list (pyval * pyval)) (f' : file_anonymizer) (outs : list str),
  ok2 t4 t6 wa asa f d1 -> ok2 t4 t6 wa asa f d2 -> (io_need orc f lines <= fuel)%nat -> io_ascii orc f lines ->
  TextModel.anonymize_io orc f lines = Done (f', outs) ->
  exists d1' d2',
    gen_FileAnonymizer__anonymize_io_all (U orc t4 t6 wa asa) fuel (enc_fa2 cls1 clsw1 clsa1 rw saltva f d1) (VList (map vstr lines)) (VList outs1)
      = Normal (VTuple [VNone; enc_fa2 cls1 clsw1 clsa1 rw saltva f' d1'; VList (outs1 ++ map vstr outs)]) /\
    gen_FileAnonymizer__anonymize_io_all (U orc t4 t6 wa asa) fuel (enc_fa2 cls2 clsw2 clsa2 rw saltva f d2) (VList (map vstr lines)) (VList outs2)
      = Normal (VTuple [VNone; enc_fa2 cls2 clsw2 clsa2 rw saltva f' d2'; VList (outs2 ++ map vstr outs)]).
Proof.
  intros orc t4 t6 wa asa cls1 clsw1 clsa1 cls2 clsw2 clsa2 rw saltva Ho fuel f lines outs1 outs2 d1 d2 f' outs H1 H2 Hfuel Hasc E.
  destruct (gen_pipeline_refines orc t4 t6 wa asa cls1 clsw1 clsa1 rw saltva Ho fuel f lines outs1 d1 f' outs H1 Hfuel Hasc E) as (d1' & G1 & _).
  destruct (gen_pipeline_refines orc t4 t6 wa asa cls2 clsw2 clsa2 rw saltva Ho fuel f lines outs2 d2 f' outs H2 Hfuel Hasc E) as (d2' & G2 & _).
  exists d1', d2'. split; assumption.
Qed.

Print Assumptions C13_generated_pipeline_output_depends_only_on_salt_options_and_input.
