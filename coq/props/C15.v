(* C15 -- enabling several features equals applying them one after another.
   Proved on the model: the per-line function is the composition of the five stages in the order secrets, IPv6, IPv4, words, AS numbers, each
   reading and writing only its own state component; a single-feature anonymizer (the combined one with the other components absent) computes
   exactly its stage.  That the constructor wires each option to the stage the property says is in the model by definition and in the code by
   the correspondence run (multi-feature vs chained single-feature runs on both sides). *)
From Coq Require Import String.
From Coq Require Import List Bool Arith NArith ZArith.
Import ListNotations.
Require Import Str TextModel TextProofs.

Theorem C15_line_pipeline_is_the_composition_of_the_stages :
  forall orc f line,
  process_line orc f line =
    obind (stage_pwd orc f line) (fun s1 =>
    obind (stage_ip true (fa_undo f) (fa_a6 f) (snd s1)) (fun s2 =>
    obind (stage_ip false (fa_undo f) (fa_a4 f) (snd s2)) (fun s3 =>
    obind (stage_words (fa_words f) (snd s3)) (fun l4 =>
    obind (stage_as (fa_as f) l4) (fun l5 =>
    Done (with_state f (fst s1) (fst s3) (fst s2), l5)))))).
Proof. exact process_line_is_composition_of_stages. Qed.

Theorem C15_single_feature_anonymizers_compute_the_stages :
  forall orc f line,
  out_line (process_line orc (only f true false false false false) line) = out_line (stage_pwd orc f line) /\
  out_line (process_line orc (only f false true false false false) line) = out_line (stage_ip true (fa_undo f) (fa_a6 f) line) /\
  out_line (process_line orc (only f false false true false false) line) = out_line (stage_ip false (fa_undo f) (fa_a4 f) line) /\
  out_line (process_line orc (only f false false false true false) line) = stage_words (fa_words f) line /\
  out_line (process_line orc (only f false false false false true) line) = stage_as (fa_as f) line.
Proof. exact single_feature_runs_are_the_stages. Qed.

Print Assumptions C15_line_pipeline_is_the_composition_of_the_stages.
Print Assumptions C15_single_feature_anonymizers_compute_the_stages.
