(* C14G -- totality stated on the function-level code GENERATED on this run from /repo's source (coq/gen/G_fn_files.v, G_fn_files2.v, G_fn_sir2.v,
   G_fn_ip2.v) by way of its refinement to the model (coq/refine/RefIo.v, RefPipeline.v) and the model's totality (model/TotalLine.v).  Kept apart from
   props/C14.v: when a behaviour-preserving rewrite of the source makes a refinement script fail, the property is still decided by the model
   theorems of props/C14.v and the correspondence run; see DESIGN.md section 4. *)
From Coq Require Import String.
From Coq Require Import List Bool Arith NArith ZArith.
Import ListNotations.
Require Import PyLib Str IpModel TextModel TotalProofs TotalLine G_fn_files G_fn_files2 RefJun RefValue RefIo RefPipeline.

(* FileAnonymizer.anonymize_io translated from the source, run on ANY list of lines from any well-formed file anonymizer: it returns normally
   -- no exception of any kind, the fuel (an artefact of the translation, computed by io_need) suffices -- with exactly one output line per input
   line appended to what the file held and a well-formed anonymizer again; the only other outcome is one of the two the model marks as outside
   netconan (a passlib answer missing from the case's table; text Python cannot encode, from the sensitive-word stage). *)
Theorem C14_generated_anonymize_io_returns_a_line_per_line :
  forall (orc : oracle) (t4 t6 : anonymizer) (wa : option word_anonymizer) (asa : option as_anonymizer) (cls : list Z),
  table_bytes orc ->
  forall (f : file_anonymizer) (lines : list str) (outs0 : list pyval), ok_fa t4 t6 wa asa f -> FWF f ->
  (exists f' outs, gen_FileAnonymizer__anonymize_io (io_call orc t4 t6 wa asa) (io_need orc f lines) (enc_fa cls f) (VList (map vstr lines)) (VList outs0)
                   = Normal (VTuple [VNone; enc_fa cls f'; VList (outs0 ++ map vstr outs)]) /\ List.length outs = List.length lines /\ FWF f')
  \/ (exists e, TextModel.anonymize_io orc f lines = Raised e /\ (e = lit "ORACLE-MISS" \/ e = lit "UnicodeEncodeError")).
Proof.
  intros orc t4 t6 wa asa cls Ho f lines outs0 Hok Hwf.
  pose proof (anonymize_io_never_raises orc lines f Ho Hwf) as T. unfold okline in T.
  destruct (TextModel.anonymize_io orc f lines) as [[f' outs]|e] eqn:E.
  - left. exists f', outs. split; [|split].
    + exact (gen_anonymize_io_refines orc t4 t6 wa asa cls Ho (io_need orc f lines) f lines outs0 f' outs Hok (le_n _) E).
    + exact (anonymize_io_length orc lines f f' outs E).
    + exact T.
  - right. exists e. split; [reflexivity|exact T].
Qed.

(* the same for the pipeline with the stages translated too (RefPipeline), on lines that are ASCII where they reach the word stage *)
Theorem C14_generated_pipeline_returns_a_line_per_line :
  forall (orc : oracle) (t4 t6 : anonymizer) (wa : option word_anonymizer) (asa : option as_anonymizer) (cls clsw clsa : list Z) (rw saltva : pyval),
  table_bytes orc ->
  forall (f : file_anonymizer) (lines : list str) (outs0 : list pyval) (d : list (pyval * pyval)), ok2 t4 t6 wa asa f d -> FWF f -> io_ascii orc f lines ->
  (exists f' outs d', gen_FileAnonymizer__anonymize_io_all (U orc t4 t6 wa asa) (io_need orc f lines) (enc_fa2 cls clsw clsa rw saltva f d) (VList (map vstr lines)) (VList outs0)
                   = Normal (VTuple [VNone; enc_fa2 cls clsw clsa rw saltva f' d'; VList (outs0 ++ map vstr outs)]) /\ List.length outs = List.length lines /\ FWF f')
  \/ (exists e, TextModel.anonymize_io orc f lines = Raised e /\ (e = lit "ORACLE-MISS" \/ e = lit "UnicodeEncodeError")).
Proof.
  intros orc t4 t6 wa asa cls clsw clsa rw saltva Ho f lines outs0 d Hok Hwf Hasc.
  pose proof (anonymize_io_never_raises orc lines f Ho Hwf) as T. unfold okline in T.
  destruct (TextModel.anonymize_io orc f lines) as [[f' outs]|e] eqn:E.
  - left. destruct (gen_pipeline_refines orc t4 t6 wa asa cls clsw clsa rw saltva Ho (io_need orc f lines) f lines outs0 d f' outs Hok (le_n _) Hasc E) as (d' & G & _).
    exists f', outs, d'. split; [exact G|split; [exact (anonymize_io_length orc lines f f' outs E)|exact T]].
  - right. exists e. split; [reflexivity|exact T].
Qed.

Print Assumptions C14_generated_anonymize_io_returns_a_line_per_line.
Print Assumptions C14_generated_pipeline_returns_a_line_per_line.
