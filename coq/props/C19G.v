(* C19G -- the theorems of C19 about the function-level code GENERATED on this run from /repo's source (coq/gen/G_fn_*.v) and refined to the
   model in coq/refine/*.v.  Kept apart from props/C19.v: when a behaviour-preserving rewrite of the source makes one of these scripts fail,
   the property is still decided by the model theorems of props/C19.v and the correspondence run, and the check reports the function-level
   tie as not re-established (TIE-DEGRADED) instead of raising an alarm; see DESIGN.md section 4. *)
From Coq Require Import String.
From Coq Require Import List Bool Arith NArith ZArith.
Import ListNotations.
Require Import Str G_cli_consts CliModel.
Require PyLib G_fn_cli RefCli.

(* TIE A (function level): the Gallina function GENERATED on this run from netconan.main, with the argument parser returning the namespace object of the
   parsed arguments and anonymize_files left uninterpreted (its first call ends the run and is what we observe), does exactly what main_model says:
   raises ValueError, returns without calling, or calls anonymize_files with the model's argument tuple -- for every record of parsed arguments *)
Theorem C19_generated_main_is_the_model : forall (a : args) (lv argv : PyLib.pyval) (fuel : nat),
  match main_model a with
  | MRaise _ => exists m, G_fn_cli.gen_main (RefCli.oracle a lv) fuel argv = PyLib.Exc (PyLib.ValueError m)
  | MNoCall => G_fn_cli.gen_main (RefCli.oracle a lv) fuel argv = PyLib.Normal PyLib.VNone
  | MCall c => G_fn_cli.gen_main (RefCli.oracle a lv) fuel argv = PyLib.Normal (RefCli.vcall c)
  end.
Proof. exact RefCli.gen_main_refines. Qed.

Print Assumptions C19_generated_main_is_the_model.
