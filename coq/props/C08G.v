(* C08G -- theorems of C08 (and, through it, C07 and C09) about the function-level code GENERATED on this run from /repo's source
   (coq/gen/G_fn_sir2.v) and refined to the model in coq/refine/RefValue.v.  Kept apart from props/C08.v: when a behaviour-preserving rewrite of
   the source makes the script fail, the property is still decided by the model theorems of props/C08.v and the correspondence run, and the
   check reports the function-level tie as not re-established (TIE-DEGRADED) instead of raising an alarm; see DESIGN.md section 4. *)
From Coq Require Import String.
From Coq Require Import List Bool Arith NArith ZArith.
Import ListNotations.
Require Import PyLib Str JunModel TextModel TotalProofs G_fn_sir2 RefJun RefValue.

(* _anonymize_value translated from the source IS the model's anonymize_value: what the theorems of C07 (content independence), C08 (equal
   secrets <-> equal replacements, $9$ strings and clear text that decrypt alike are one secret) and C09 (format classes, enclosing text)
   say about the model's function, they say about this code.  Premises: passlib answers as the model's oracle does; the table has no duplicate
   keys and holds byte strings (both re-established by every call, next theorem; the empty table has them); the fuel given to the translated
   loops exceeds the length of the value and of the replacement's $9$ form. *)
Theorem C08_generated_anonymize_value_is_the_model :
  forall (pc : pyval -> pyval -> PyLib.res) (orc : oracle), passlib_answers_as_the_model pc orc ->
  forall (fuel : nat) (raw : str) (lookup : lookup_t) (reserved : list str) (salt out : str) (lookup' : lookup_t),
  (length raw < fuel)%nat -> table_bytes lookup -> keys_unique lookup ->
  (forall c, JunModel.encrypt (anon0_of lookup) salt = JOk c -> (length c < fuel)%nat) ->
  anonymize_value orc raw lookup reserved salt = Done (out, lookup') ->
  gen__anonymize_value pc fuel (vstr raw) (vlook lookup) (vres reserved) (vstr salt) = Normal (VTuple [vstr out; vlook lookup']).
Proof. exact gen_anonymize_value_is_the_model. Qed.

Theorem C08_table_invariants_hold_after_every_call :
  forall (orc : oracle) (raw : str) (lookup : lookup_t) (reserved : list str) (salt out : str) (lookup' : lookup_t),
  table_bytes orc -> table_bytes lookup -> keys_unique lookup ->
  anonymize_value orc raw lookup reserved salt = Done (out, lookup') -> table_bytes lookup' /\ keys_unique lookup'.
Proof. exact table_invariants_preserved. Qed.

Example C08G_empty_table : table_bytes [] /\ keys_unique [].
Proof. split; constructor. Qed.

Print Assumptions C08_generated_anonymize_value_is_the_model.
Print Assumptions C08_table_invariants_hold_after_every_call.
