(* C16G -- theorems of C16 about the function-level code GENERATED on this run from /repo's source (coq/gen/G_fn_files.v: FileAnonymizer.anonymize_io;
   coq/gen/G_fn_cli.v: netconan.main) by way of the refinements in coq/refine/RefIo.v and RefCli.v.  The walk over the input tree, open() and the
   per-file try/except of anonymize_files are file-system behaviour and are not translated (decided by real runs on generated trees in the check).
   Kept apart from props/C16.v; see DESIGN.md section 4. *)
From Coq Require Import String.
From Coq Require Import List Bool Arith NArith ZArith.
Import ListNotations.
Require Import PyLib Str IpModel TextModel TextProofs TotalProofs CliModel G_fn_files RefJun RefValue RefIo.
Require G_fn_cli RefCli.

(* the stream routine every entry point funnels into, as translated from the source: handing it the files of a run one after another (each with
   its own empty output, the anonymizer object returned by one call given to the next) writes, file by file, exactly what one call on the
   concatenation of their lines writes -- a file's output depends on the files before it only through the anonymizer's state, each output has
   as many lines as its input, and a file never handed to the routine changes nothing *)
Theorem C16_generated_anonymize_io_over_files_in_sequence :
  forall (orc : oracle) (t4 t6 : anonymizer) (wa : option word_anonymizer) (asa : option as_anonymizer) (cls : list Z),
  table_bytes orc ->
  forall (f : file_anonymizer) (file1 file2 : list str) (f' : file_anonymizer) (outs : list str),
  ok_fa t4 t6 wa asa f ->
  TextModel.anonymize_io orc f (file1 ++ file2) = Done (f', outs) ->
  exists f1,
    gen_FileAnonymizer__anonymize_io (io_call orc t4 t6 wa asa) (io_need orc f file1) (enc_fa cls f) (VList (map vstr file1)) (VList [])
      = Normal (VTuple [VNone; enc_fa cls f1; VList (map vstr (firstn (List.length file1) outs))]) /\
    gen_FileAnonymizer__anonymize_io (io_call orc t4 t6 wa asa) (io_need orc f1 file2) (enc_fa cls f1) (VList (map vstr file2)) (VList [])
      = Normal (VTuple [VNone; enc_fa cls f'; VList (map vstr (skipn (List.length file1) outs))]) /\
    List.length (firstn (List.length file1) outs) = List.length file1 /\ List.length (skipn (List.length file1) outs) = List.length file2.
Proof.
  intros orc t4 t6 wa asa cls Ho f file1 file2 f' outs Hok E.
  destruct (anonymize_io_prefix orc file1 file2 f f' outs E) as (f1 & E1 & E2).
  exists f1.
  destruct (gen_anonymize_io_refines_ok orc t4 t6 wa asa cls Ho (io_need orc f file1) f file1 [] f1 _ Hok (le_n _) E1) as [G1 Hok1].
  pose proof (gen_anonymize_io_refines orc t4 t6 wa asa cls Ho (io_need orc f1 file2) f1 file2 [] f' _ Hok1 (le_n _) E2) as G2.
  split; [exact G1|split; [exact G2|]].
  split; [exact (anonymize_io_length orc file1 f f1 _ E1)|exact (anonymize_io_length orc file2 f1 f' _ E2)].
Qed.

(* the command line and the directory API agree: main translated from the source hands anonymize_files the options it parsed, unchanged, or stops
   before any file is touched *)
Theorem C16_generated_main_hands_the_options_to_anonymize_files : forall (a : args) (lv argv : PyLib.pyval) (fuel : nat),
  match main_model a with
  | MRaise _ => exists m, G_fn_cli.gen_main (RefCli.oracle a lv) fuel argv = PyLib.Exc (PyLib.ValueError m)
  | MNoCall => G_fn_cli.gen_main (RefCli.oracle a lv) fuel argv = PyLib.Normal PyLib.VNone
  | MCall c => G_fn_cli.gen_main (RefCli.oracle a lv) fuel argv = PyLib.Normal (RefCli.vcall c)
  end.
Proof. exact RefCli.gen_main_refines. Qed.

Print Assumptions C16_generated_anonymize_io_over_files_in_sequence.
Print Assumptions C16_generated_main_hands_the_options_to_anonymize_files.
