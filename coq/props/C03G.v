(* C03G -- the theorems of C03 about the function-level code GENERATED on this run from /repo's source (coq/gen/G_fn_*.v) and refined to the
   model in coq/refine/*.v.  Kept apart from props/C03.v: when a behaviour-preserving rewrite of the source makes one of these scripts fail,
   the property is still decided by the model theorems of props/C03.v and the correspondence run, and the check reports the function-level
   tie as not re-established (TIE-DEGRADED) instead of raising an alarm; see DESIGN.md section 4. *)
From Coq Require Import String.
From Coq Require Import List Bool Arith ZArith.
Import ListNotations.
Require Import PPCore PPHost Memo MemoProofs PyLib G_fn_ip RefIpCommon RefAnon RefDeanon.

(* TIE A (function level): both GENERATED request functions answer with the history-free mapping from ANY memo satisfying the
   invariant and keep the invariant; by induction the same holds along every request history of the generated code *)
Theorem C03_generated_requests_are_history_free :
  forall (H : list bool -> bool) (py_call : pyval -> pyval -> PyLib.res) (clsname : list Z) (saltv lengthv fmtv salterv : pyval) (rest : list (pyval * pyval))
         (n B : nat) (seeds : list (list bool)),
  (forall b, py_call salterv (VList [saltv; VS b]) = Normal (VInt (if H b then 1 else 0)%Z)) ->
  forall d x bits, MemoProofs.Inv H n B seeds d -> List.length bits = n -> (B <= n)%nat ->
  py_format fmtv (VList [VInt x]) (VDict []) = Normal (VS bits) ->
  (forall y, py_int (VS (MemoProofs.AB H n B seeds bits)) (VInt 2) = Normal (VInt y) ->
     exists d', gen__BaseIpAnonymizer__anonymize py_call (S (List.length bits)) (mkself clsname saltv lengthv fmtv salterv (Z.of_nat B) rest d) (VInt x)
                = Normal (VTuple [VInt y; mkself clsname saltv lengthv fmtv salterv (Z.of_nat B) rest d']) /\ MemoProofs.Inv H n B seeds d') /\
  (forall y, py_int (VS (MemoProofs.DB H n B seeds bits)) (VInt 2) = Normal (VInt y) ->
     exists d', gen__BaseIpAnonymizer__deanonymize py_call (S (List.length bits)) (mkself clsname saltv lengthv fmtv salterv (Z.of_nat B) rest d) (VInt x)
                = Normal (VTuple [VInt y; mkself clsname saltv lengthv fmtv salterv (Z.of_nat B) rest d']) /\ MemoProofs.Inv H n B seeds d').
Proof.
  intros H py_call clsname saltv lengthv fmtv salterv rest n B seeds Hs d x bits I Ln HB Hf. split; intros y Hy.
  - exact (gen_anonymize_returns_image H py_call clsname saltv lengthv fmtv salterv rest n B seeds Hs d x bits y I Ln HB Hf Hy).
  - exact (gen_deanonymize_returns_preimage H py_call clsname saltv lengthv fmtv salterv rest n B seeds Hs d x bits y I Ln HB Hf Hy).
Qed.

Print Assumptions C03_generated_requests_are_history_free.
