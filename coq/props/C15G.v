(* C15G -- theorem of C15 (and of C12 for the loop over the lines) about the function-level code GENERATED on this run from /repo's source
   (coq/gen/G_fn_files.v) and refined to the model in coq/refine/RefIo.v.  Kept apart from props/C15.v: when a behaviour-preserving rewrite of
   the source makes the script fail, the property is still decided by the model theorems of props/C15.v and the correspondence run, and the
   check reports the function-level tie as not re-established (TIE-DEGRADED); see DESIGN.md section 4. *)
From Coq Require Import String.
From Coq Require Import List Bool Arith NArith ZArith.
Import ListNotations.
Require Import PyLib Str IpModel TextModel TotalProofs G_fn_files RefJun RefValue RefIo.

(* FileAnonymizer.anonymize_io translated from the source IS the model's anonymize_io: on every line the stages run in the fixed order secrets,
   IPv6, IPv4, sensitive words, AS numbers, each only when enabled and each on the output of the one before; the state (secret table, the two IP
   caches) is carried from line to line; exactly one line is written per line read, in order.  The secrets stage is the translated
   replace_matching_item; the other stages are answered by the model's stage functions through RefIo.io_call. *)
Theorem C15_generated_anonymize_io_is_the_model :
  forall (orc : oracle) (t4 t6 : anonymizer) (wa : option word_anonymizer) (asa : option as_anonymizer) (cls : list Z),
  table_bytes orc ->
  forall (fuel : nat) (f : file_anonymizer) (lines : list str) (outs0 : list pyval) (f' : file_anonymizer) (outs : list str),
  ok_fa t4 t6 wa asa f -> (io_need orc f lines <= fuel)%nat ->
  TextModel.anonymize_io orc f lines = Done (f', outs) ->
  gen_FileAnonymizer__anonymize_io (io_call orc t4 t6 wa asa) fuel (enc_fa cls f) (VList (map vstr lines)) (VList outs0)
  = Normal (VTuple [VNone; enc_fa cls f'; VList (outs0 ++ map vstr outs)]).
Proof. exact gen_anonymize_io_refines. Qed.

(* the premise ok_fa is met by any file anonymizer taken with its own IP anonymizers as the run's templates, whenever its secret table (if any)
   has unique keys and byte-string values -- e.g. the empty table the constructor creates *)
Theorem C15G_premises_are_met :
  forall (f : file_anonymizer) (d4 d6 : anonymizer), (forall lk, fa_pwd f = Some lk -> table_bytes lk /\ keys_unique lk) ->
  ok_fa (match fa_a4 f with Some a => a | None => d4 end) (match fa_a6 f with Some a => a | None => d6 end) (fa_words f) (fa_as f) f.
Proof. exact ok_fa_self. Qed.

Print Assumptions C15_generated_anonymize_io_is_the_model.
Print Assumptions C15G_premises_are_met.
