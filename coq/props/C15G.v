(* C15G -- theorem of C15 (and of C12 for the loop over the lines) about the function-level code GENERATED on this run from /repo's source
   (coq/gen/G_fn_files.v) and refined to the model in coq/refine/RefIo.v.  Kept apart from props/C15.v: when a behaviour-preserving rewrite of
   the source makes the script fail, the property is still decided by the model theorems of props/C15.v and the correspondence run, and the
   check reports the function-level tie as not re-established (TIE-DEGRADED); see DESIGN.md section 4. *)
From Coq Require Import String.
From Coq Require Import List Bool Arith NArith ZArith.
Import ListNotations.
Require Import PyLib Str IpModel TextModel TotalProofs G_fn_files G_fn_files2 G_fn_files3 RefJun RefValue RefIo RefPipeline RefFaInit.

(* FileAnonymizer.anonymize_io translated from the source IS the model's anonymize_io: on every line the stages run in the fixed order secrets,
   IPv6, IPv4, sensitive words, AS numbers, each only when enabled and each on the output of the one before; the state (secret table, the two IP
   caches) is carried from line to line; exactly one line is written per line read, in order.  The secrets stage is the translated
   replace_matching_item; the other stages are answered by the model's stage functions through RefIo.io_call. *)
Theorem C15_generated_anonymize_io_is_the_model :
  forall (orc : oracle) (t4 t6 : anonymizer) (wa : option word_anonymizer) (asa : option as_anonymizer) (cls : list Z),
  table_bytes orc ->
  forall (fuel : nat) (f : file_anonymizer) (lines : list str) (outs0 : list pyval) (f' : file_anonymizer) (outs : list str),
  ok_fa t4 t6 wa asa f -> (io_need orc f lines <= fuel)%nat ->
  TextModel.anonymize_io orc f lines = Done (f', outs) ->
  gen_FileAnonymizer__anonymize_io (io_call orc t4 t6 wa asa) fuel (enc_fa cls f) (VList (map vstr lines)) (VList outs0)
  = Normal (VTuple [VNone; enc_fa cls f'; VList (outs0 ++ map vstr outs)]).
Proof. exact gen_anonymize_io_refines. Qed.

(* the premise ok_fa is met by any file anonymizer taken with its own IP anonymizers as the run's templates, whenever its secret table (if any)
   has unique keys and byte-string values -- e.g. the empty table the constructor creates *)
Theorem C15G_premises_are_met :
  forall (f : file_anonymizer) (d4 d6 : anonymizer), (forall lk, fa_pwd f = Some lk -> table_bytes lk /\ keys_unique lk) ->
  ok_fa (match fa_a4 f with Some a => a | None => d4 end) (match fa_a6 f with Some a => a | None => d6 end) (fa_words f) (fa_as f) f.
Proof. exact ok_fa_self. Qed.

(* ... and the same with NOTHING of the pipeline left uninterpreted but the IP anonymizers' own methods, passlib and the regex engine: the translated
   anonymize_io calling the translated replace_matching_item (with the translated _anonymize_value, $9$ codec, format classifier, enclosing text),
   the translated anonymize_ip_addr / _anonymize_match for both families, the translated SensitiveWordAnonymizer.anonymize (with its replacement
   cache, state d) and the translated anonymize_as_numbers, under ONE dispatcher (RefPipeline.U) that meets every stage's contract.
   io_ascii: the lines that reach the words stage are ASCII (the model's case folding), stated along the model's run. *)
Theorem C15_generated_pipeline_is_the_model :
  forall (orc : oracle) (t4 t6 : anonymizer) (wa : option word_anonymizer) (asa : option as_anonymizer) (cls clsw clsa : list Z) (rw saltva : pyval),
  table_bytes orc ->
  forall (fuel : nat) (f : file_anonymizer) (lines : list str) (outs0 : list pyval) (d : list (pyval * pyval)) (f' : file_anonymizer) (outs : list str),
  ok2 t4 t6 wa asa f d -> (io_need orc f lines <= fuel)%nat -> io_ascii orc f lines ->
  TextModel.anonymize_io orc f lines = Done (f', outs) ->
  exists d', gen_FileAnonymizer__anonymize_io_all (U orc t4 t6 wa asa) fuel (enc_fa2 cls clsw clsa rw saltva f d) (VList (map vstr lines)) (VList outs0)
             = Normal (VTuple [VNone; enc_fa2 cls clsw clsa rw saltva f' d'; VList (outs0 ++ map vstr outs)]) /\ ok2 t4 t6 wa asa f' d'.
Proof. exact gen_pipeline_refines. Qed.

(* FileAnonymizer.__init__ translated from the source (G_fn_files3.v): which stages an option set switches on.  For EVERY dispatcher and whatever its
   constructors answer (a value or an exception) at exactly the arguments the source passes: the sensitive-word anonymizer is built iff a word list is
   given (from the words, the salt and default + user reserved words), both IP anonymizers iff anon_ip or undo (IPv4 from salt, prefixes, networks and
   the v4 host bits; IPv6 from salt and the v6 host bits), the AS anonymizer iff a list is given, in that order, the first failure ending the
   construction; the pattern table and an empty secret table are present iff anon_pwd; nothing else is set. *)
Theorem C15_generated_constructor_switches_on_exactly_the_requested_stages :
  forall (pc : pyval -> pyval -> PyLib.res) (cls : list Z) (pwd ip undo : bool) (salt : str) (ws asn pv pn b4 b6 crv : pyval)
         (res : option (list pyval)) (dres : list pyval) (Aw A4 A6 Aa : answer) (fuel : nat),
  pc (VFun (of_string "generate_default_sensitive_item_regexes")) (VTuple [VList []; VDict []]) = Normal crv ->
  pc (VFun (of_string "default_reserved_words")) (VList []) = Normal (VList dres) ->
  pc (VFun (of_string "SensitiveWordAnonymizer")) (VTuple [VList [ws; vstr salt; VList (Rl res dres)]; VDict []]) = to_res Aw ->
  pc (VFun (of_string "IpAnonymizer")) (VTuple [VList [vstr salt; pv; pn]; VDict [(S_ "preserve_suffix", b4)]]) = to_res A4 ->
  pc (VFun (of_string "IpV6Anonymizer")) (VTuple [VList [vstr salt]; VDict [(S_ "preserve_suffix", b6)]]) = to_res A6 ->
  pc (VFun (of_string "AsNumberAnonymizer")) (VTuple [VList [asn; vstr salt]; VDict []]) = to_res Aa ->
  gen_FileAnonymizer____init__ pc fuel (VObj cls []) (VBool pwd) (VBool ip) (vstr salt) ws (VBool undo) asn (oenc VList res) pv pn b4 b6
  = built cls pwd ip undo salt ws asn crv (Rl res dres) Aw A4 A6 Aa.
Proof. exact gen_fa_init_refines. Qed.

(* ... and with the constructors answered by the model's, the object it builds is the encoding of what the model's fa_init builds: the starting point
   of the two theorems above *)
Theorem C15_generated_constructor_is_the_model :
  forall (pc : pyval -> pyval -> PyLib.res) (cls : list Z) (o : options) (pv pn b4 b6 : pyval) (f : file_anonymizer) (fuel : nat),
  pc (VFun (of_string "generate_default_sensitive_item_regexes")) (VTuple [VList []; VDict []]) = Normal CR ->
  pc (VFun (of_string "default_reserved_words")) (VList []) = Normal (vres G_text_consts.RESERVED_WORDS) ->
  pc (VFun (of_string "SensitiveWordAnonymizer")) (VTuple [VList [ws_val o; vstr (o_salt o); vres (reserved_of o)]; VDict []]) = to_res (ans_words o) ->
  pc (VFun (of_string "IpAnonymizer")) (VTuple [VList [vstr (o_salt o); pv; pn]; VDict [(S_ "preserve_suffix", b4)]]) = to_res (ans_ip4 o) ->
  pc (VFun (of_string "IpV6Anonymizer")) (VTuple [VList [vstr (o_salt o)]; VDict [(S_ "preserve_suffix", b6)]]) = to_res (ans_ip6 o) ->
  pc (VFun (of_string "AsNumberAnonymizer")) (VTuple [VList [asn_val o; vstr (o_salt o)]; VDict []]) = to_res (ans_as o) ->
  fa_init o = Done f ->
  gen_FileAnonymizer____init__ pc fuel (VObj cls []) (VBool (o_pwd o)) (VBool (o_ip o)) (vstr (o_salt o)) (ws_val o) (VBool (o_undo o)) (asn_val o)
      (oenc VList (option_map (map vstr) (o_reserved o))) pv pn b4 b6
  = Normal (VTuple [VNone; enc_fa cls f]).
Proof. exact gen_fa_init_is_the_model. Qed.

Print Assumptions C15_generated_anonymize_io_is_the_model.
Print Assumptions C15_generated_pipeline_is_the_model.
Print Assumptions C15G_premises_are_met.
Print Assumptions C15_generated_constructor_switches_on_exactly_the_requested_stages.
Print Assumptions C15_generated_constructor_is_the_model.
