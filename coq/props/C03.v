(* C03 -- the mapping is a pure function of salt and options, not of history. *)
From Coq Require Import String.
From Coq Require Import List Bool Arith ZArith.
Import ListNotations.
Require Import PPCore PPHost Memo MemoProofs.

Section C03.
Variable H : bits -> bool.
Variables n B : nat.
Variable seeds : list bits.

(* every finite sequence of anonymize/undo requests (every interleaving, every repetition) on a freshly
   constructed anonymizer answers each request with the history-free function `pure`; nothing raises *)
Theorem C03_every_history_returns_the_pure_mapping :
  forall ops, Forall (fun o => op_len o = n) ops ->
  exists d0 d', Memo.init seeds = Ok d0 /\
                MemoProofs.run H n B d0 ops = Ok (d', map (MemoProofs.pure H n B seeds) ops).
Proof. exact (MemoProofs.fresh_history H n B seeds). Qed.

(* ... and from any state the machine can be in, so runs may be split and continued in any way *)
Theorem C03_any_reachable_memo_state_is_invisible :
  forall ops d, MemoProofs.Inv H n B seeds d -> Forall (fun o => op_len o = n) ops ->
  exists d', MemoProofs.run H n B d ops = Ok (d', map (MemoProofs.pure H n B seeds) ops) /\ MemoProofs.Inv H n B seeds d'.
Proof. exact (MemoProofs.history_independent H n B seeds). Qed.

(* two different histories containing the same request give it the same answer *)
Corollary C03_answer_independent_of_context :
  forall pre1 pre2 post1 post2 o,
  Forall (fun o => op_len o = n) (pre1 ++ o :: post1) -> Forall (fun o => op_len o = n) (pre2 ++ o :: post2) ->
  exists d0 d1 d2 r1 r2, Memo.init seeds = Ok d0 /\
    MemoProofs.run H n B d0 (pre1 ++ o :: post1) = Ok (d1, r1) /\
    MemoProofs.run H n B d0 (pre2 ++ o :: post2) = Ok (d2, r2) /\
    nth_error r1 (length pre1) = nth_error r2 (length pre2).
Proof.
  intros pre1 pre2 post1 post2 o H1 H2.
  destruct (MemoProofs.fresh_history H n B seeds _ H1) as (d0 & d1 & E0 & E1).
  destruct (MemoProofs.fresh_history H n B seeds _ H2) as (d0' & d2 & E0' & E2).
  rewrite E0 in E0'. injection E0' as <-.
  exists d0, d1, d2, (map (MemoProofs.pure H n B seeds) (pre1 ++ o :: post1)), (map (MemoProofs.pure H n B seeds) (pre2 ++ o :: post2)).
  repeat split; auto.
  rewrite !map_app. simpl. rewrite !nth_error_app2 by (rewrite map_length; auto).
  rewrite !map_length, !Nat.sub_diag. reflexivity.
Qed.
End C03.

Example C03_instance :
  let H := fun h : bits => Nat.odd (length h) in
  exists d, MemoProofs.run H 3 1 [([], [])] [Deanon [true; true; false]; Anon [false; true; true]; Anon [true; false; false]]
            = Ok (d, [[true; false; false]; [false; false; true]; [true; true; false]]).
Proof. vm_compute. eexists. reflexivity. Qed.

Print Assumptions C03_every_history_returns_the_pure_mapping.
Print Assumptions C03_any_reachable_memo_state_is_invisible.
Print Assumptions C03_answer_independent_of_context.
