(* C12G -- what C12 says about the loop over the lines, on the function-level code GENERATED on this run (coq/gen/G_fn_files.v, refined in
   coq/refine/RefIo.v).  Kept apart from props/C12.v (see DESIGN.md section 4). *)
From Coq Require Import String.
From Coq Require Import List Bool Arith NArith ZArith.
Import ListNotations.
Require Import PyLib Str IpModel TextModel TotalProofs G_fn_files RefJun RefValue RefIo.

(* "The output has exactly the input's lines in the same order": the translated anonymize_io appends to what was already written exactly one
   string per input line, the i-th being the model's output for the i-th line *)
Theorem C12_generated_loop_writes_one_line_per_line :
  forall (orc : oracle) (t4 t6 : anonymizer) (wa : option word_anonymizer) (asa : option as_anonymizer) (cls : list Z),
  table_bytes orc ->
  forall (fuel : nat) (f : file_anonymizer) (lines : list str) (outs0 : list pyval) (f' : file_anonymizer) (outs : list str),
  ok_fa t4 t6 wa asa f -> (io_need orc f lines <= fuel)%nat ->
  TextModel.anonymize_io orc f lines = Done (f', outs) ->
  gen_FileAnonymizer__anonymize_io (io_call orc t4 t6 wa asa) fuel (enc_fa cls f) (VList (map vstr lines)) (VList outs0)
  = Normal (VTuple [VNone; enc_fa cls f'; VList (outs0 ++ map vstr outs)]) /\ length outs = length lines.
Proof.
  intros orc t4 t6 wa asa cls Ho fuel f lines outs0 f' outs Hok Hn E. split.
  - exact (gen_anonymize_io_refines orc t4 t6 wa asa cls Ho fuel f lines outs0 f' outs Hok Hn E).
  - exact (anonymize_io_length orc lines f f' outs E).
Qed.

Print Assumptions C12_generated_loop_writes_one_line_per_line.
