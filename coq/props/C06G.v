(* C06G -- theorems of C06 about the function-level code GENERATED on this run from /repo's source (coq/gen/G_fn_ip2.v) and refined to the model in
   coq/refine/RefIpLine.v.  Kept apart from props/C06.v: when a behaviour-preserving rewrite of the source makes the script fail, the property
   is still decided by the model theorems of props/C06.v and the correspondence run, and the check reports the function-level tie as not
   re-established (TIE-DEGRADED); see DESIGN.md section 4. *)
From Coq Require Import String.
From Coq Require Import List Bool Arith NArith ZArith.
Import ListNotations.
Require Import PyLib Str IpModel TextModel G_fn_ip2 RefJun RefIoBase RefIpLine.

(* _anonymize_match translated from the source is the model's ip_match: text that does not parse as an address, masks and preserved networks
   are returned as they were matched; anything else is replaced by the printed image (pre-image when undoing) and the cache is updated *)
Theorem C06_generated_anonymize_match_is_the_model :
  forall (v6 : bool) (t : anonymizer) (pc : pyval -> pyval -> PyLib.res) (hrx : pyval), ip_contract v6 t pc hrx ->
  forall (fuel : nat) (a : anonymizer) (m : str) (undo : bool), same_static t a ->
  match ip_match v6 undo (Done a) m with
  | (Done a', out) => gen__anonymize_match pc fuel (eip v6 a) (vstr m) (VBool undo) = Normal (VTuple [vstr out; eip v6 a']) /\ same_static t a'
  | (Raised _, _) => True
  end.
Proof. exact gen_anonymize_match_refines. Qed.

(* anonymize_ip_addr translated from the source is the model's anonymize_ip_line: every match of the address pattern, leftmost first, handed to
   _anonymize_match with the cache left by the previous one, the text between the matches copied *)
Theorem C06_generated_anonymize_ip_addr_is_the_model :
  forall (v6 : bool) (t : anonymizer) (pc : pyval -> pyval -> PyLib.res) (hrx : pyval), ip_contract v6 t pc hrx ->
  forall (fuel : nat) (a : anonymizer) (line : str) (undo : bool) (a' : anonymizer) (l : str), same_static t a ->
  anonymize_ip_line v6 undo a line = Done (a', l) ->
  gen_anonymize_ip_addr pc fuel (eip v6 a) (vstr line) (VBool undo) = Normal (VTuple [vstr l; eip v6 a']).
Proof. exact gen_anonymize_ip_addr_refines. Qed.

(* ip_contract says how the dispatcher answers the anonymizer's methods (with the MODEL's functions) and the pattern's finditer / group(0);
   the concrete dispatcher ip_call meets it *)
Theorem C06G_contract_is_met : forall (v6 : bool) (t : anonymizer), ip_contract v6 t (ip_call v6 t) HRX.
Proof. exact ip_call_contract. Qed.

Print Assumptions C06_generated_anonymize_match_is_the_model.
Print Assumptions C06_generated_anonymize_ip_addr_is_the_model.
Print Assumptions C06G_contract_is_met.
