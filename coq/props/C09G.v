(* C09G -- the theorems of C09 about the function-level code GENERATED on this run from /repo's source (coq/gen/G_fn_*.v) and refined to the
   model in coq/refine/*.v.  Kept apart from props/C09.v: when a behaviour-preserving rewrite of the source makes one of these scripts fail,
   the property is still decided by the model theorems of props/C09.v and the correspondence run, and the check reports the function-level
   tie as not re-established (TIE-DEGRADED) instead of raising an alarm; see DESIGN.md section 4. *)
From Coq Require Import String.
From Coq Require Import List Bool Arith NArith ZArith.
Import ListNotations.
Require Import Str IpText JunModel JunProofs G_rx G_text_consts TextModel TextProofs TextProofs2 Findings EncProofs.
Require PyLib G_fn_sir RefEncl.

Theorem C09_generated_extract_enclosing_text_is_the_model : forall (py_call : PyLib.pyval -> PyLib.pyval -> PyLib.res) (in_val head tail : str),
  G_fn_sir.gen__extract_enclosing_text py_call (S (length in_val)) (RefEncl.vstr in_val) (RefEncl.vstr head) (RefEncl.vstr tail)
  = (let '(h, v, t) := extract_enclosing in_val head tail in PyLib.Normal (PyLib.VTuple [RefEncl.vstr h; RefEncl.vstr v; RefEncl.vstr t])).
Proof. exact RefEncl.gen_extract_enclosing_refines. Qed.

Print Assumptions C09_generated_extract_enclosing_text_is_the_model.
