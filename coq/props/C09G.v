(* C09G -- the theorems of C09 about the function-level code GENERATED on this run from /repo's source (coq/gen/G_fn_*.v) and refined to the
   model in coq/refine/*.v.  Kept apart from props/C09.v: when a behaviour-preserving rewrite of the source makes one of these scripts fail,
   the property is still decided by the model theorems of props/C09.v and the correspondence run, and the check reports the function-level
   tie as not re-established (TIE-DEGRADED) instead of raising an alarm; see DESIGN.md section 4. *)
From Coq Require Import String.
From Coq Require Import List Bool Arith NArith ZArith.
Import ListNotations.
Require Import Str IpText JunModel JunProofs G_rx G_text_consts TextModel TextProofs TextProofs2 Findings EncProofs.
Require PyLib G_fn_sir G_fn_sir2 RefEncl RefJun RefValue TotalProofs.

Theorem C09_generated_extract_enclosing_text_is_the_model : forall (py_call : PyLib.pyval -> PyLib.pyval -> PyLib.res) (in_val head tail : str),
  G_fn_sir.gen__extract_enclosing_text py_call (S (length in_val)) (RefEncl.vstr in_val) (RefEncl.vstr head) (RefEncl.vstr tail)
  = (let '(h, v, t) := extract_enclosing in_val head tail in PyLib.Normal (PyLib.VTuple [RefEncl.vstr h; RefEncl.vstr v; RefEncl.vstr t])).
Proof. exact RefEncl.gen_extract_enclosing_refines. Qed.

(* ... for any sufficient fuel, which is how _anonymize_value calls it *)
Theorem C09_generated_extract_enclosing_text_is_the_model_for_any_fuel : forall (py_call : PyLib.pyval -> PyLib.pyval -> PyLib.res) (fuel : nat) (in_val head tail : str),
  (length in_val < fuel)%nat ->
  G_fn_sir.gen__extract_enclosing_text py_call fuel (RefEncl.vstr in_val) (RefEncl.vstr head) (RefEncl.vstr tail)
  = (let '(h, v, t) := extract_enclosing in_val head tail in PyLib.Normal (PyLib.VTuple [RefEncl.vstr h; RefEncl.vstr v; RefEncl.vstr t])).
Proof. exact RefEncl.gen_extract_enclosing_refines_fuel. Qed.

(* the translated _anonymize_value (refined to the model in refine/RefValue.v, premises as in C08G) returns the raw value itself or the enclosing text
   with a replacement in between -- "quotes, brackets and terminators around the secret are kept in place", on the translated code *)
Theorem C09_generated_anonymize_value_keeps_the_enclosing_text :
  forall (pc : PyLib.pyval -> PyLib.pyval -> PyLib.res) (orc : oracle), RefValue.passlib_answers_as_the_model pc orc ->
  forall (fuel : nat) (raw : str) (lookup : lookup_t) (reserved : list str) (salt out : str) (lookup' : lookup_t),
  (length raw < fuel)%nat -> TotalProofs.table_bytes lookup -> RefBase.keys_unique lookup ->
  (forall c, JunModel.encrypt (TotalProofs.anon0_of lookup) salt = JOk c -> (length c < fuel)%nat) ->
  anonymize_value orc raw lookup reserved salt = Done (out, lookup') ->
  G_fn_sir2.gen__anonymize_value pc fuel (RefJun.vstr raw) (RefBase.vlook lookup) (RefBase.vres reserved) (RefJun.vstr salt)
    = PyLib.Normal (PyLib.VTuple [RefJun.vstr out; RefBase.vlook lookup'])
  /\ (out = raw \/ exists repl, out = (fst (fst (extract_enclosing raw [] [])) ++ repl ++ snd (extract_enclosing raw [] []))%list).
Proof.
  intros pc orc Hp fuel raw lookup reserved salt out lookup' H1 H2 H3 H4 E. split.
  - exact (RefValue.gen_anonymize_value_is_the_model pc orc Hp fuel raw lookup reserved salt out lookup' H1 H2 H3 H4 E).
  - exact (anonymize_value_keeps_enclosing_text orc raw lookup reserved salt out lookup' E).
Qed.

Print Assumptions C09_generated_extract_enclosing_text_is_the_model.
Print Assumptions C09_generated_extract_enclosing_text_is_the_model_for_any_fuel.
Print Assumptions C09_generated_anonymize_value_keeps_the_enclosing_text.
