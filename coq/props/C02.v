(* C02 -- exact reversibility with the same salt and options, from a cold or a warm memo. *)
From Coq Require Import String.
From Coq Require Import List Bool Arith ZArith.
Import ListNotations.
Require Import PPCore PPHost Memo MemoProofs.

Section C02.
Variable H : bits -> bool.
Variables n B : nat.
Variable seeds : list bits.
Definition image (x : bits) : bits := MemoProofs.AB H n B seeds x.
Definition preimage (y : bits) : bits := MemoProofs.DB H n B seeds y.

Theorem C02_undo_of_image_is_original : forall x, preimage (image x) = x.
Proof. exact (MemoProofs.DB_AB H n B seeds). Qed.

Theorem C02_image_of_undone_is_input : forall y, image (preimage y) = y.
Proof. exact (MemoProofs.AB_DB H n B seeds). Qed.

(* a freshly constructed anonymizer (a new process that never saw the originals) satisfies the memo invariant *)
Theorem C02_cold_instance_invariant : exists d0, Memo.init seeds = Ok d0 /\ MemoProofs.Inv H n B seeds d0.
Proof. exact (MemoProofs.init_ok H n B seeds). Qed.

(* from ANY memo state satisfying the invariant -- cold, or filled by any earlier mix of requests -- the code's
   deanonymize returns `preimage`, its anonymize returns `image`, no request raises, the invariant is kept *)
Theorem C02_code_undo_from_any_reachable_state :
  forall ops d, MemoProofs.Inv H n B seeds d -> Forall (fun o => op_len o = n) ops ->
  exists d', MemoProofs.run H n B d ops = Ok (d', map (MemoProofs.pure H n B seeds) ops) /\ MemoProofs.Inv H n B seeds d'.
Proof. exact (MemoProofs.history_independent H n B seeds). Qed.
End C02.

Example C02_instance :
  let H := fun h : bits => Nat.odd (length h) in
  MemoProofs.DB H 4 1 [[true; false]] (MemoProofs.AB H 4 1 [[true; false]] [false; true; true; false]) = [false; true; true; false].
Proof. vm_compute. reflexivity. Qed.

Print Assumptions C02_undo_of_image_is_original.
Print Assumptions C02_image_of_undone_is_input.
Print Assumptions C02_cold_instance_invariant.
Print Assumptions C02_code_undo_from_any_reachable_state.
