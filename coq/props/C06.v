(* C06 -- address substitution in text is complete and exact.
   Proved here: (1) for EVERY regex of the supported subset a substitution replaces exactly the spans finditer yields, which are
   non-empty, ordered and disjoint, and every character of a match belongs to a consuming class of the pattern (lib/RxFacts.v);
   (2) on the IPv4 / IPv6 patterns GENERATED from the source on this run, a match covers only digits and dots / only address characters,
   so whitespace, terminators, other punctuation and (for IPv4) letters are never part of a replaced span.
   NOT proved (decided by the exhaustive short-string sweep and the token-scanner oracle of the check): that the matched spans are
   exactly the standalone valid tokens. *)
From Coq Require Import String.
From Coq Require Import List Bool Arith NArith ZArith.
Import ListNotations.
Require Import Str Rx RxFacts RxSub IpModel G_rx TextModel TextProofs.
Require RxDen RxLang Ipv4Token RxSubFacts.

Theorem C06_matches_are_nonempty_ordered_disjoint :
  forall (s : list chr) (r : re), nullable r = false -> forall fuel i, spans_ok i (finditer s fuel r i).
Proof. exact finditer_spans. Qed.

Theorem C06_every_matched_character_belongs_to_the_pattern_alphabet :
  forall (s : list chr) (r : re) fuel i a b, In (a, b) (finditer s fuel r i) -> covered s (alpha r) a b.
Proof. exact finditer_alphabet. Qed.

Theorem C06_engine_returns_the_first_match_in_priority_order :
  forall (s : list chr) (r : re) i c k, m s r i c k = first_some k (ms s r i c).
Proof. exact m_is_first_of_ms. Qed.

Theorem C06_ipv4_spans_contain_only_digits_and_dots :
  forall (s : list chr) i c j c' p x, In (j, c') (ms s IPV4_RX i c) -> (i <= p < j)%nat -> nth_error s p = Some x -> (x = 46 \/ (48 <= x <= 57))%N.
Proof. exact ipv4_match_covers_only_digits_and_dots. Qed.

Theorem C06_generated_address_patterns_alphabets :
  forallb (cset_within V4_CHARS) (alpha IPV4_RX) = true /\ forallb (cset_within V6_CHARS) (alpha IPV6_RX) = true
  /\ nullable IPV4_RX = false /\ nullable IPV6_RX = false.
Proof. repeat split; vm_compute; reflexivity. Qed.

(* the model on a concrete line: IPv4 tail replaced as a whole, glued ".5" left, non-address and MAC left alone *)
Example C06_instance :
  match anonymize_ip_line true false (ip6_init (fun _ => true) 0) (lit "x ::ffff:1.2.3.4 1::1.5 fe80:%x 00:11:22:33:44:55") with
  | Done (_, l) => l = lit "x ffff:ffff:ffff:ffff:ffff:0:fefd:fcfb fffe:ffff:ffff:ffff:ffff:ffff:ffff:fffe.5 fe80:%x 00:11:22:33:44:55"
  | Raised _ => False end.
Proof. vm_compute. reflexivity. Qed.

(* What the GENERATED IPv4 pattern can match, for EVERY line and position (model/Ipv4Token.v, through the declarative reading of the engine in lib/RxDen.v and
   lib/RxLang.v): a span the engine reports starts at the beginning of the line or after a character that is neither an ASCII letter, a digit nor '.',
   ends at the end of the line or before such a character, and holds exactly four parts separated by '.', each any number of '0' followed by one of
   d, dd, 1dd, 20d-24d, 250-255.  Hence an address-like string with an octet above 255, with the wrong number of parts, or glued to letters, digits or
   further dots is never replaced as a whole -- the "left unchanged" half of the property for IPv4, as a theorem.  (That every standalone valid token IS
   matched -- the other half -- involves which match the backtracking engine prefers and is decided by the token-scanner search, not proved.) *)
Theorem C06_generated_ipv4_pattern_matches_only_standalone_dotted_quads :
  forall (s : list chr) (i : nat) (c : caps) (j : nat) (c' : caps), (i <= length s)%nat ->
  In (j, c') (ms s IPV4_RX i c) ->
  (i = 0%nat \/ ((1 <= i)%nat /\ exists x, nth_error s (i - 1) = Some x /\ Ipv4Token.enclosing x)) /\
  (eol s j = true \/ exists x, nth_error s j = Some x /\ Ipv4Token.enclosing x) /\
  Ipv4Token.dotted_quad (RxLang.sub s i j).
Proof. exact Ipv4Token.ipv4_match_is_a_standalone_dotted_quad. Qed.

Theorem C06_ipv4_search_finds_only_standalone_dotted_quads :
  forall (s : list chr) (n i a b : nat) (c : caps), (i + n <= length s)%nat ->
  search_from s n IPV4_RX i = Some (a, b, c) ->
  (a = 0%nat \/ ((1 <= a)%nat /\ exists x, nth_error s (a - 1) = Some x /\ Ipv4Token.enclosing x)) /\
  (eol s b = true \/ exists x, nth_error s b = Some x /\ Ipv4Token.enclosing x) /\
  Ipv4Token.dotted_quad (RxLang.sub s a b).
Proof. exact Ipv4Token.ipv4_search_finds_only_standalone_dotted_quads. Qed.

(* ... and the span is a WHOLE token: every character in it is a digit or a dot (none of them a delimiter), the characters on both sides (if any) are
   delimiters: a maximal run of token characters.  A replacement therefore leaves no fragment of the original address behind, and a match never
   starts or ends inside a longer token. *)
Theorem C06_ipv4_match_is_a_whole_token :
  forall (s : list chr) (i : nat) (c : caps) (j : nat) (c' : caps), (i <= length s)%nat ->
  In (j, c') (ms s IPV4_RX i c) ->
  Forall (fun x => in_cset x Ipv4Token.ENC = false) (RxLang.sub s i j) /\
  (i = 0%nat \/ exists x, nth_error s (i - 1) = Some x /\ in_cset x Ipv4Token.ENC = true) /\
  (eol s j = true \/ exists x, nth_error s j = Some x /\ in_cset x Ipv4Token.ENC = true).
Proof. exact Ipv4Token.ipv4_match_is_a_whole_token. Qed.

(* the generated IPv6 pattern: every match starts at the line start or after a character that is neither an ASCII letter, a digit nor ':' (nor one of the
   four characters that fold onto ASCII letters under IGNORECASE), and ends at the line end or before such a character -- never glued to further
   hextets or colons.  (The twelve alternatives of its core are not characterised: which address forms they accept is decided by the scanner search;
   known finding D1b lives there.) *)
Theorem C06_ipv6_match_is_delimited :
  forall (s : list chr) (i : nat) (c : caps) (j : nat) (c' : caps),
  In (j, c') (ms s IPV6_RX i c) ->
  (i = 0%nat \/ ((1 <= i)%nat /\ exists x, nth_error s (i - 1) = Some x /\ in_cset x cs9 = true)) /\
  (eol s j = true \/ exists x, nth_error s j = Some x /\ in_cset x cs9 = true).
Proof. exact Ipv4Token.ipv6_match_is_delimited. Qed.

(* The other half for IPv4: a standalone dotted quad IS replaced, as a whole.  If a text of the shape above (four parts of 0* followed by d | dd | 1dd | 20d-24d |
   250-255, separated by dots) stands at position i, preceded by the line start or a delimiter and followed by the line end or a delimiter, then the engine's
   match at i -- its FIRST choice among all the ways the backtracking matcher can succeed, which is what re.sub replaces -- exists and ends exactly at the end of
   the token.  (lib/RxLang.lang_ms: for anchor-free patterns every occurrence of a string of the language is among the successes the engine lists; the engine's
   choice then follows from the whole-token theorem above.)  Together with the theorems above: at a token start the pattern matches iff the token is a valid
   dotted quad, and then it matches all of it. *)
Theorem C06_a_standalone_dotted_quad_is_matched_as_a_whole :
  forall (s t : list chr) (i : nat),
  Ipv4Token.dotted_quad t -> RxLang.occ s t i -> (i <= length s)%nat ->
  (i = 0%nat \/ ((1 <= i)%nat /\ exists x, nth_error s (i - 1) = Some x /\ in_cset x Ipv4Token.ENC = true)) ->
  (eol s (i + length t) = true \/ exists x, nth_error s (i + length t) = Some x /\ in_cset x Ipv4Token.ENC = true) ->
  exists c', match_at s IPV4_RX i = Some ((i + length t)%nat, c').
Proof. exact Ipv4Token.ipv4_engine_replaces_the_whole_token. Qed.

(* Over a whole line: the leftmost-first scan under re.finditer / re.sub (RxFacts.finditer, started anywhere at or before the token with enough fuel) reports
   EVERY standalone dotted quad of the line, with its exact extent, and reports nothing but standalone dotted quads.  The spans the IPv4 pass rewrites are thus
   exactly the standalone valid dotted-quad tokens of the line -- both halves of the property for IPv4, for every line. *)
Theorem C06_finditer_reports_every_standalone_dotted_quad :
  forall (s t : list chr) (a : nat),
  Ipv4Token.dotted_quad t -> RxLang.occ s t a -> (a + length t <= length s)%nat ->
  (a = 0%nat \/ ((1 <= a)%nat /\ exists x, nth_error s (a - 1) = Some x /\ in_cset x Ipv4Token.ENC = true)) ->
  (eol s (a + length t) = true \/ exists x, nth_error s (a + length t) = Some x /\ in_cset x Ipv4Token.ENC = true) ->
  forall fuel i : nat, (i <= a)%nat -> (a - i < fuel)%nat -> In (a, (a + length t)%nat) (finditer s fuel IPV4_RX i).
Proof. exact Ipv4Token.ipv4_finditer_reports_every_standalone_dotted_quad. Qed.

Theorem C06_finditer_reports_only_standalone_dotted_quads :
  forall (s : list chr) (fuel i a b : nat), (i <= length s)%nat ->
  In (a, b) (finditer s fuel IPV4_RX i) ->
  (a = 0%nat \/ ((1 <= a)%nat /\ exists x, nth_error s (a - 1) = Some x /\ Ipv4Token.enclosing x)) /\
  (eol s b = true \/ exists x, nth_error s b = Some x /\ Ipv4Token.enclosing x) /\
  Ipv4Token.dotted_quad (RxLang.sub s a b).
Proof. exact Ipv4Token.ipv4_finditer_reports_only_standalone_dotted_quads. Qed.

(* ... put together for the IPv4 pass over a line s with any callback (RxSubFacts.sub_loop_is_stitch: what sub writes is the text between finditer's spans, copied,
   with one replacement per span): the pass rewrites exactly the standalone dotted quads of the line -- its spans are standalone dotted quads, every standalone
   dotted quad is one of its spans with its exact extent -- and copies every other character. *)
Theorem C06_ipv4_pass_rewrites_exactly_the_standalone_dotted_quads :
  forall (St : Type) (s : list chr) (cb : St -> nat -> nat -> caps -> St * list chr) (st : St),
  let spans := finditer s (S (length s)) IPV4_RX 0 in
  snd (RxSub.sub_loop s (S (length s)) IPV4_RX cb st 0) = RxSub.stitch s 0 spans (RxSubFacts.sub_reps s (S (length s)) IPV4_RX cb st 0) /\
  (forall a b, In (a, b) spans -> Ipv4Token.dotted_quad (RxLang.sub s a b) /\
     (a = 0%nat \/ ((1 <= a)%nat /\ exists x, nth_error s (a - 1) = Some x /\ Ipv4Token.enclosing x)) /\
     (eol s b = true \/ exists x, nth_error s b = Some x /\ Ipv4Token.enclosing x)) /\
  (forall t a, Ipv4Token.dotted_quad t -> RxLang.occ s t a -> (a + length t <= length s)%nat ->
     (a = 0%nat \/ ((1 <= a)%nat /\ exists x, nth_error s (a - 1) = Some x /\ in_cset x Ipv4Token.ENC = true)) ->
     (eol s (a + length t) = true \/ exists x, nth_error s (a + length t) = Some x /\ in_cset x Ipv4Token.ENC = true) ->
     In (a, (a + length t)%nat) spans).
Proof.
  intros St s cb st spans. split; [|split].
  - apply RxSubFacts.sub_loop_is_stitch. reflexivity.
  - intros a b H. destruct (Ipv4Token.ipv4_finditer_reports_only_standalone_dotted_quads s (S (length s)) 0 a b (Nat.le_0_l _) H) as (A & B & Q). auto.
  - intros t a Q O L B A. apply (Ipv4Token.ipv4_finditer_reports_every_standalone_dotted_quad s t a Q O L B A); [apply Nat.le_0_l|].
    assert (t <> []) by (destruct Q as (z1 & o1 & z2 & o2 & z3 & o3 & z4 & o4 & -> & _); destruct z1; [destruct o1|]; discriminate).
    destruct t; [contradiction|]. cbn [length] in L. Lia.lia.
Qed.

(* ... and over a whole line: every span the IPv6 pass rewrites is delimited on both sides; what lies outside the spans is copied (C12_substitution_copies_unmatched_text) *)
Theorem C06_ipv6_finditer_spans_are_delimited :
  forall (s : list chr) (fuel i a b : nat),
  In (a, b) (finditer s fuel IPV6_RX i) ->
  (a = 0%nat \/ ((1 <= a)%nat /\ exists x, nth_error s (a - 1) = Some x /\ in_cset x cs9 = true)) /\
  (eol s b = true \/ exists x, nth_error s b = Some x /\ in_cset x cs9 = true).
Proof. exact Ipv4Token.ipv6_finditer_spans_are_delimited. Qed.

Theorem C06_dotted_quad_parts_are_numerals_up_to_255 :
  forall t : list chr, Ipv4Token.octet_core t -> (Ipv4Token.dec_value t <= 255)%N /\ Forall Ipv4Token.dig t.
Proof. exact Ipv4Token.octet_core_value. Qed.

Print Assumptions C06_matches_are_nonempty_ordered_disjoint.
Print Assumptions C06_every_matched_character_belongs_to_the_pattern_alphabet.
Print Assumptions C06_engine_returns_the_first_match_in_priority_order.
Print Assumptions C06_ipv4_spans_contain_only_digits_and_dots.
Print Assumptions C06_generated_address_patterns_alphabets.
Print Assumptions C06_generated_ipv4_pattern_matches_only_standalone_dotted_quads.
Print Assumptions C06_ipv4_search_finds_only_standalone_dotted_quads.
Print Assumptions C06_dotted_quad_parts_are_numerals_up_to_255.
Print Assumptions C06_ipv4_match_is_a_whole_token.
Print Assumptions C06_ipv6_match_is_delimited.
Print Assumptions C06_a_standalone_dotted_quad_is_matched_as_a_whole.
Print Assumptions C06_finditer_reports_every_standalone_dotted_quad.
Print Assumptions C06_finditer_reports_only_standalone_dotted_quads.
Print Assumptions C06_ipv4_pass_rewrites_exactly_the_standalone_dotted_quads.
Print Assumptions C06_ipv6_finditer_spans_are_delimited.
