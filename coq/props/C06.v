(* C06 -- address substitution in text is complete and exact.
   Proved here: (1) for EVERY regex of the supported subset a substitution replaces exactly the spans finditer yields, which are
   non-empty, ordered and disjoint, and every character of a match belongs to a consuming class of the pattern (lib/RxFacts.v);
   (2) on the IPv4 / IPv6 patterns GENERATED from the source on this run, a match covers only digits and dots / only address characters,
   so whitespace, terminators, other punctuation and (for IPv4) letters are never part of a replaced span.
   NOT proved (decided by the exhaustive short-string sweep and the token-scanner oracle of the check): that the matched spans are
   exactly the standalone valid tokens. *)
From Coq Require Import String.
From Coq Require Import List Bool Arith NArith ZArith.
Import ListNotations.
Require Import Str Rx RxFacts RxSub IpModel G_rx TextModel TextProofs.

Theorem C06_matches_are_nonempty_ordered_disjoint :
  forall (s : list chr) (r : re), nullable r = false -> forall fuel i, spans_ok i (finditer s fuel r i).
Proof. exact finditer_spans. Qed.

Theorem C06_every_matched_character_belongs_to_the_pattern_alphabet :
  forall (s : list chr) (r : re) fuel i a b, In (a, b) (finditer s fuel r i) -> covered s (alpha r) a b.
Proof. exact finditer_alphabet. Qed.

Theorem C06_engine_returns_the_first_match_in_priority_order :
  forall (s : list chr) (r : re) i c k, m s r i c k = first_some k (ms s r i c).
Proof. exact m_is_first_of_ms. Qed.

Theorem C06_ipv4_spans_contain_only_digits_and_dots :
  forall (s : list chr) i c j c' p x, In (j, c') (ms s IPV4_RX i c) -> (i <= p < j)%nat -> nth_error s p = Some x -> (x = 46 \/ (48 <= x <= 57))%N.
Proof. exact ipv4_match_covers_only_digits_and_dots. Qed.

Theorem C06_generated_address_patterns_alphabets :
  forallb (cset_within V4_CHARS) (alpha IPV4_RX) = true /\ forallb (cset_within V6_CHARS) (alpha IPV6_RX) = true
  /\ nullable IPV4_RX = false /\ nullable IPV6_RX = false.
Proof. repeat split; vm_compute; reflexivity. Qed.

(* the model on a concrete line: IPv4 tail replaced as a whole, glued ".5" left, non-address and MAC left alone *)
Example C06_instance :
  match anonymize_ip_line true false (ip6_init (fun _ => true) 0) (lit "x ::ffff:1.2.3.4 1::1.5 fe80:%x 00:11:22:33:44:55") with
  | Done (_, l) => l = lit "x ffff:ffff:ffff:ffff:ffff:0:fefd:fcfb fffe:ffff:ffff:ffff:ffff:ffff:ffff:fffe.5 fe80:%x 00:11:22:33:44:55"
  | Raised _ => False end.
Proof. vm_compute. reflexivity. Qed.

Print Assumptions C06_matches_are_nonempty_ordered_disjoint.
Print Assumptions C06_every_matched_character_belongs_to_the_pattern_alphabet.
Print Assumptions C06_engine_returns_the_first_match_in_priority_order.
Print Assumptions C06_ipv4_spans_contain_only_digits_and_dots.
Print Assumptions C06_generated_address_patterns_alphabets.
