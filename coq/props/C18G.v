(* C18G -- the theorems of C18 about the function-level code GENERATED on this run from /repo's source (coq/gen/G_fn_*.v) and refined to the
   model in coq/refine/*.v.  Kept apart from props/C18.v: when a behaviour-preserving rewrite of the source makes one of these scripts fail,
   the property is still decided by the model theorems of props/C18.v and the correspondence run, and the check reports the function-level
   tie as not re-established (TIE-DEGRADED) instead of raising an alarm; see DESIGN.md section 4. *)
From Coq Require Import String.
From Coq Require Import List Bool Arith NArith.
Import ListNotations.
Require Import Str G_juniper JunModel JunProofs PyLib G_fn_jun RefJun RefJunEnc RefJunDec.

(* TIE A, whole function: juniper_nonrandom_encrypt GENERATED on this run from the source -- salt defaulting, mapping a salt character outside the
   alphabet onto it, the prefix, the loop over the plaintext with its row selection and previous-character threading -- returns exactly the
   model's ciphertext, for every plaintext over 0..255 and every salt string, whatever dispatcher and fuel it is given *)
Theorem C18_generated_encrypt_is_the_model :
  forall (pc : pyval -> pyval -> PyLib.res) (fuel : nat) (plain salt : str), Forall (fun c => (c < 256)%N) plain ->
  exists crypt, encrypt plain salt = JOk crypt /\ gen_juniper_nonrandom_encrypt pc fuel (vstr plain) (vstr salt) = Normal (vstr crypt).
Proof. exact gen_encrypt_refines. Qed.
(* ... and juniper_decrypt GENERATED on this run -- the VALID pattern through the regex engine, the prefix handling, the fuelled while loop, the
   inner loop over each nibble, _gap and _gap_decode -- returns the model's plaintext, or raises ValueError exactly when the model refuses,
   for EVERY string and any fuel above the length of the input *)
Theorem C18_generated_decrypt_is_the_model :
  forall (pc : pyval -> pyval -> PyLib.res) (fuel : nat) (crypt : str), (length crypt < fuel)%nat ->
  match decrypt crypt with
  | JOk p => gen_juniper_decrypt pc fuel (vstr crypt) = Normal (vstr p)
  | JValueError => exists m, gen_juniper_decrypt pc fuel (vstr crypt) = Exc (ValueError m)
  | _ => False
  end.
Proof. exact gen_decrypt_refines. Qed.
(* the property stated on the translated code alone *)
Theorem C18_generated_code_round_trips :
  forall (pc : pyval -> pyval -> PyLib.res) (fuel fuel' : nat) (plain salt : str),
  Forall (fun c => (c < 256)%N) plain -> (plain <> [] \/ extra_of_salt salt = Some 3%N) ->
  exists crypt, gen_juniper_nonrandom_encrypt pc fuel (vstr plain) (vstr salt) = Normal (vstr crypt) /\
                ((length crypt < fuel')%nat -> gen_juniper_decrypt pc fuel' (vstr crypt) = Normal (vstr plain)).
Proof. exact generated_round_trip. Qed.

Print Assumptions C18_generated_encrypt_is_the_model.
Print Assumptions C18_generated_decrypt_is_the_model.
Print Assumptions C18_generated_code_round_trips.
