(* C01G -- the theorems of C01 about the function-level code GENERATED on this run from /repo's source (coq/gen/G_fn_*.v) and refined to the
   model in coq/refine/*.v.  Kept apart from props/C01.v: when a behaviour-preserving rewrite of the source makes one of these scripts fail,
   the property is still decided by the model theorems of props/C01.v and the correspondence run, and the check reports the function-level
   tie as not re-established (TIE-DEGRADED) instead of raising an alarm; see DESIGN.md section 4. *)
From Coq Require Import String.
From Coq Require Import List Bool Arith ZArith.
Import ListNotations.
Require Import PPCore PPHost Memo MemoProofs PyLib G_fn_ip RefIpCommon RefAnon.
Require Import Str IpModel RefDeanon RefInit RefHash RefEndToEnd.

(* TIE A (function level): the Gallina code GENERATED on this run from _BaseIpAnonymizer.anonymize / _anonymize_bits, started on any
   memo satisfying the invariant, returns the pure image and re-establishes the invariant -- for every salter H that the
   function-valued field implements.  (py_format / py_int at the two edges are library models, taken as given at the point of use.) *)
Theorem C01_generated_anonymize_returns_the_pure_image :
  forall (H : list bool -> bool) (py_call : pyval -> pyval -> PyLib.res) (clsname : list Z) (saltv lengthv fmtv salterv : pyval) (rest : list (pyval * pyval))
         (n B : nat) (seeds : list (list bool)),
  (forall b, py_call salterv (VList [saltv; VS b]) = Normal (VInt (if H b then 1 else 0)%Z)) ->
  forall d x bits y, MemoProofs.Inv H n B seeds d -> List.length bits = n -> (B <= n)%nat ->
  py_format fmtv (VList [VInt x]) (VDict []) = Normal (VS bits) ->
  py_int (VS (MemoProofs.AB H n B seeds bits)) (VInt 2) = Normal (VInt y) ->
  exists d', gen__BaseIpAnonymizer__anonymize py_call (S (List.length bits)) (mkself clsname saltv lengthv fmtv salterv (Z.of_nat B) rest d) (VInt x)
             = Normal (VTuple [VInt y; mkself clsname saltv lengthv fmtv salterv (Z.of_nat B) rest d']) /\ MemoProofs.Inv H n B seeds d'.
Proof. exact gen_anonymize_returns_image. Qed.
Theorem C01_generated_pipeline_computes_the_prefix_preserving_image :
  forall (salt : str) (clsname : list Z) (salterv : pyval) (B : nat) (Ps : list (list bool)),
  utf8 salt <> None ->
  forall fuel (strs : list pyval) (pa : option (list pyval)) (nets : list pyval) (kw : pyval),
  kw_lookup kw "salter" (VFun (of_string "_generate_bit_from_hash")) = salterv ->
  kw_lookup kw "preserve_suffix" VNone = VInt (Z.of_nat B) ->
  Forall2 (fun a n => ip_network a = Normal n) (pa_items pa) nets ->
  Forall2 subnet_bits (strs ++ pa_items pa) Ps ->
  (B <= 32)%nat ->
  let H := salter_md5 salt in
  let saltv := VStr (map Z.of_N salt) in
  let obj := fun d => mkself clsname saltv (VInt 32%Z) fmt32 salterv (Z.of_nat B) (rest_of nets) d in
  exists d0,
    gen_IpAnonymizer____init__ DriverFn.md5_call fuel (VObj clsname []) saltv (VList strs) (pa_val pa) kw = Normal (VTuple [VNone; obj d0])
    /\ MemoProofs.Inv H 32 B Ps d0
    /\ forall d x bits y, MemoProofs.Inv H 32 B Ps d -> List.length bits = 32%nat ->
         py_format fmt32 (VList [VInt x]) (VDict []) = Normal (VS bits) ->
         (py_int (VS (MemoProofs.AB H 32 B Ps bits)) (VInt 2%Z) = Normal (VInt y) ->
            exists d', gen__BaseIpAnonymizer__anonymize DriverFn.md5_call (S (List.length bits)) (obj d) (VInt x)
                       = Normal (VTuple [VInt y; obj d']) /\ MemoProofs.Inv H 32 B Ps d')
         /\
         (py_int (VS (MemoProofs.DB H 32 B Ps bits)) (VInt 2%Z) = Normal (VInt y) ->
            exists d', gen__BaseIpAnonymizer__deanonymize DriverFn.md5_call (S (List.length bits)) (obj d) (VInt x)
                       = Normal (VTuple [VInt y; obj d']) /\ MemoProofs.Inv H 32 B Ps d').
Proof. intros salt clsname salterv B Ps Hs. exact (generated_constructor_then_requests salt clsname salterv B Ps Hs). Qed.

Print Assumptions C01_generated_pipeline_computes_the_prefix_preserving_image.
Print Assumptions C01_generated_anonymize_returns_the_pure_image.
