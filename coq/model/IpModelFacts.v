(* Integer-level reading of the bit-string theorems: network membership by shifting (what should_anonymize and the
   property text use) is "has the network's leading bits as a prefix" (what the theorems of Pinned.v speak about),
   and the integer <-> bit-string conversions used by the model are inverse to each other. *)
From Coq Require Import List Bool Arith NArith ZArith Lia ZifyBool ZifyNat ZifyN.
Import ListNotations.
Require Import PPCore Memo Str Mask IpModel.
Local Open Scope N_scope.

Lemma bits_of_N_length n x : length (bits_of_N n x) = n.
Proof. induction n; simpl; auto. Qed.

(* is_prefix of the first l bits  <->  the l most significant of the n low bits agree *)
Lemma is_prefix_firstn_bits : forall n l a x, (l <= n)%nat ->
  (is_prefix (firstn l (bits_of_N n a)) (bits_of_N n x) = true <->
   forall j, (n - l <= j < n)%nat -> N.testbit a (N.of_nat j) = N.testbit x (N.of_nat j)).
Proof.
  induction n as [|n IH]; intros l a x Hl.
  - assert (l = 0)%nat by lia. subst. simpl. split; auto. intros _ j Hj. lia.
  - destruct l as [|l].
    + simpl. split; auto. intros _ j Hj. lia.
    + cbn [bits_of_N firstn is_prefix]. rewrite andb_true_iff, (IH l a x ltac:(lia)). split.
      * intros [E Hrest] j Hj. destruct (Nat.eq_dec j n) as [->|Hne].
        -- apply Bool.eqb_prop in E. exact E.
        -- apply Hrest. lia.
      * intros Hall. split.
        -- rewrite (Hall n ltac:(lia)). apply Bool.eqb_reflx.
        -- intros j Hj. apply Hall. lia.
Qed.

Theorem in_net_iff_prefix : forall (x a : N) (l : nat), x < 2 ^ 32 -> a < 2 ^ 32 -> (l <= 32)%nat ->
  (in_net x (a, l) = true <-> is_prefix (prefix_bits 32 (a, l)) (fmt_bits 32 x) = true).
Proof.
  intros x a l Hx Ha Hl. unfold in_net, prefix_bits, fmt_bits. cbn [fst snd].
  rewrite (is_prefix_firstn_bits 32 l a x Hl). rewrite N.eqb_eq. split.
  - intros E j Hj. apply (f_equal (fun v => N.testbit v (N.of_nat (j - (32 - l))))) in E.
    rewrite !N.shiftr_spec' in E. replace (N.of_nat (j - (32 - l)) + N.of_nat (32 - l)) with (N.of_nat j) in E by lia. auto.
  - intros Hall. apply N.bits_inj. intros k. rewrite !N.shiftr_spec'.
    destruct (N.lt_ge_cases (k + N.of_nat (32 - l)) 32) as [Hlt|Hge].
    + specialize (Hall (N.to_nat (k + N.of_nat (32 - l))) ltac:(lia)). rewrite N2Nat.id in Hall. auto.
    + assert (Hb : forall v, v < 2 ^ 32 -> N.testbit v (k + N.of_nat (32 - l)) = false).
      { intros v Hv. destruct (N.eq_dec v 0) as [->|Hnz]; [apply N.bits_0|]. apply N.bits_above_log2.
        apply N.lt_le_trans with 32; [apply N.log2_lt_pow2; lia|lia]. }
      now rewrite (Hb x Hx), (Hb a Ha).
Qed.

(* N_of_bits (bits_of_N n x) = x for x < 2^n: the model's integer interface loses nothing *)
Lemma N_of_bits_app (b : list bool) acc : fold_left (fun a (x : bool) => 2 * a + (if x then 1 else 0)) b acc
  = acc * 2 ^ N.of_nat (length b) + N_of_bits b.
Proof.
  unfold N_of_bits. revert acc. induction b as [|c b IH]; intros acc; cbn [fold_left length].
  - simpl. lia.
  - rewrite IH. rewrite (IH (2 * 0 + _)). rewrite Nat2N.inj_succ, N.pow_succ_r'. lia.
Qed.
Lemma mod_succ_pow2 n x : x mod (2 ^ N.of_nat n * 2) = x mod 2 ^ N.of_nat n + 2 ^ N.of_nat n * N.b2n (N.testbit x (N.of_nat n)).
Proof. rewrite N.mod_mul_r by (try apply N.pow_nonzero; lia). now rewrite N.testbit_spec'. Qed.
Lemma N_of_bits_mod : forall n x, N_of_bits (bits_of_N n x) = x mod 2 ^ N.of_nat n.
Proof.
  induction n as [|n IH]; intros x.
  - cbn. now rewrite N.mod_1_r.
  - cbn [bits_of_N]. unfold N_of_bits. cbn [fold_left]. rewrite N_of_bits_app, bits_of_N_length, IH.
    rewrite Nat2N.inj_succ, N.pow_succ_r', (N.mul_comm 2 (2 ^ N.of_nat n)), mod_succ_pow2.
    destruct (N.testbit x (N.of_nat n)); cbn [N.b2n]; lia.
Qed.
Theorem N_of_bits_of_N : forall n x, x < 2 ^ N.of_nat n -> N_of_bits (bits_of_N n x) = x.
Proof. intros n x Hx. rewrite N_of_bits_mod. now apply N.mod_small. Qed.

(* the integer-level model requests are the bit-level mapping read as numbers *)
Theorem anonymize_int_is_image : forall (a : anonymizer) (x : N) a' y,
  anonymize_int a x = Ok (a', y) ->
  exists d' r, Memo.anonymize (a_H a) (a_n a) (a_B a) (a_cache a) (fmt_bits (a_n a) x) = Ok (d', r) /\ y = N_of_bits r /\ x < 2 ^ N.of_nat (a_n a).
Proof.
  intros a x a' y. unfold anonymize_int, in_range.
  destruct (N.ltb_spec x (2 ^ N.of_nat (a_n a))) as [Hlt|Hge]; cbn [negb]; [|discriminate].
  destruct (Memo.anonymize (a_H a) (a_n a) (a_B a) (a_cache a) (fmt_bits (a_n a) x)) as [[d r]|]; [|discriminate].
  intros [= <- <-]. eauto.
Qed.
Print Assumptions in_net_iff_prefix.
Print Assumptions N_of_bits_of_N.
