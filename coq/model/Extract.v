(* Extraction of the executable model for the correspondence check and the search stage.
   ExtrOcamlBasic only (bool, option, unit, list, prod, sumbool mapped to OCaml's); numbers stay inductive.
   No Extract Constant.  Extracted code is never used to establish a theorem. *)
From Coq Require Import Extraction ExtrOcamlBasic.
Require Import Driver.
Extraction Language OCaml.
Extraction "model.ml" run_case.
