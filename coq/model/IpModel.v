(* Executable model of netconan/ip_anonymization.py at the integer level:
   _BaseIpAnonymizer (any width), IpAnonymizer (seeding, _is_mask, should_anonymize), IpV6Anonymizer,
   _generate_bit_from_hash.  The memo machine itself is lib/Memo.v (the one the theorems are about). *)
From Coq Require Import List Bool Arith NArith Lia.
Import ListNotations.
Require Import PPCore Memo Md5 Str Mask.
Local Open Scope N_scope.

(* _generate_bit_from_hash(salt, string): int(md5((salt+string).encode()).hexdigest()[-1], 16) & 1 *)
Definition hash_bit (salt : str) (s : str) : option bool :=
  match utf8 (salt ++ s) with
  | Some bytes => Some (N.odd (nth 15 (md5 bytes) 0))
  | None => None
  end.
Definition salter_md5 (salt : str) (h : bits) : bool :=
  match hash_bit salt (str_of_bits h) with Some b => b | None => false end.

(* a synthetic salter given as the list of prefixes whose flip bit is 1 *)
Definition salter_tab (ones : list str) (h : bits) : bool := mem_str (str_of_bits h) ones.

(* "{:0<n>b}".format(x) for 0 <= x < 2^n *)
Definition fmt_bits (n : nat) (x : N) : bits := bits_of_N n x.

Record anonymizer := {
  a_n : nat; a_B : nat; a_H : bits -> bool;
  a_cache : bidict;
  a_nets : list (N * nat)          (* _preserve_addresses: (network address, prefix length), IPv4 only *)
}.
Definition with_cache (a : anonymizer) (d : bidict) : anonymizer :=
  {| a_n := a_n a; a_B := a_B a; a_H := a_H a; a_cache := d; a_nets := a_nets a |}.

Definition in_range (a : anonymizer) (x : N) : bool := x <? 2 ^ N.of_nat (a_n a).

Definition anonymize_int (a : anonymizer) (x : N) : res (anonymizer * N) :=
  if negb (in_range a x) then Err else
  match Memo.anonymize (a_H a) (a_n a) (a_B a) (a_cache a) (fmt_bits (a_n a) x) with
  | Ok (d, y) => Ok (with_cache a d, N_of_bits y)
  | Err => Err
  end.
Definition deanonymize_int (a : anonymizer) (y : N) : res (anonymizer * N) :=
  if negb (in_range a y) then Err else
  match Memo.deanonymize (a_H a) (a_n a) (a_B a) (a_cache a) (fmt_bits (a_n a) y) with
  | Ok (d, x) => Ok (with_cache a d, N_of_bits x)
  | Err => Err
  end.

(* _BaseIpAnonymizer.__init__ *)
Definition base_init (n B : nat) (H : bits -> bool) : anonymizer :=
  {| a_n := n; a_B := B; a_H := H; a_cache := [([], [])]; a_nets := [] |}.

(* IpAnonymizer.__init__: networks are given already parsed, (address, prefixlen);
   preserve_prefixes.extend(preserve_addresses) then the seeding loop in list order *)
Definition prefix_bits (n : nat) (net : N * nat) : bits := firstn (snd net) (fmt_bits n (fst net)).
Definition ip4_init (H : bits -> bool) (B : nat) (prefixes addresses : list (N * nat)) : res anonymizer :=
  match Memo.seed_all [([], [])] (map (prefix_bits 32) (prefixes ++ addresses)) with
  | Ok d => Ok {| a_n := 32; a_B := B; a_H := H; a_cache := d; a_nets := addresses |}
  | Err => Err
  end.
Definition ip6_init (H : bits -> bool) (B : nat) : anonymizer := base_init 128 B H.

(* ip in network *)
Definition in_net (x : N) (net : N * nat) : bool :=
  N.eqb (N.shiftr x (N.of_nat (32 - snd net))) (N.shiftr (fst net) (N.of_nat (32 - snd net))).
Definition should_anonymize4 (a : anonymizer) (x : N) : bool :=
  negb (is_mask x || existsb (in_net x) (a_nets a)).

(* dump_to_file: entries of full length, in insertion order, as integers *)
Definition dump (a : anonymizer) : list (N * N) :=
  map (fun kv => (N_of_bits (fst kv), N_of_bits (snd kv)))
      (filter (fun kv => Nat.eqb (length (fst kv)) (a_n a)) (a_cache a)).

(* the default preserved prefixes, written from the property text: classes A-E and the RFC 1918 blocks *)
Definition ipv4 (a b c d : N) : N := ((a * 256 + b) * 256 + c) * 256 + d.
Definition spec_classes : list (N * nat) := [(ipv4 0 0 0 0, 1%nat); (ipv4 128 0 0 0, 2%nat); (ipv4 192 0 0 0, 3%nat); (ipv4 224 0 0 0, 4%nat)].
Definition spec_rfc1918 : list (N * nat) := [(ipv4 10 0 0 0, 8%nat); (ipv4 172 16 0 0, 12%nat); (ipv4 192 168 0 0, 16%nat)].
Definition spec_default_prefixes := spec_classes ++ spec_rfc1918.
