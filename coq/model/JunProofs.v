(* C18: the $9$ codec model round-trips for every plaintext over 0..255 and EVERY salt string.
   Facts about the generated tables are decided by vm_compute (finite sweeps, bounds stated) and lifted with forallb_forall. *)
From Coq Require Import List Bool Arith NArith ZArith Lia ZifyBool ZifyNat ZifyN.
Import ListNotations.
Require Import Str G_juniper JunModel.
Ltac Zify.zify_post_hook ::= Z.to_euclidean_division_equations.
Local Open Scope N_scope.

Definition inA (c : N) : bool := existsb (N.eqb c) NUM_ALPHA.
Definition bytes256 : list N := map N.of_nat (seq 0 256).

(* ---- the per-character sweep: 7 rows x 65 previous characters x 256 code points ---- *)
Definition char_ok (row : list N) (p c : N) : bool :=
  match gap_encode c p row with
  | None => false
  | Some out =>
      Nat.eqb (length out) (length row) && negb (Nat.eqb (length row) 0) &&
      forallb inA out &&
      match dec_gaps p out with
      | None => false
      | Some gs => Nat.eqb (length gs) (length row) && Z.eqb ((dot gs row) mod 256) (Z.of_N c)
      end
  end.
(* stated without an intermediate constant: the kernel must never be asked to convert the sweep lazily *)
Lemma sweep_true : forallb (fun row => forallb (fun p => forallb (fun c => char_ok row p c) bytes256) NUM_ALPHA) ENCODING = true.
Proof. vm_compute. reflexivity. Qed.

(* ---- table facts ---- *)
Definition extra_ok (c : N) : bool :=
  match assoc EXTRA c with
  | Some e => (e <=? 3) && Nat.eqb (length (fixedc e)) (N.to_nat e) && forallb inA (fixedc e)
  | None => false end.
Lemma tables_facts :
  rows_nonzero = true /\ rows_nonempty = true /\ (alen =? 65) = true /\ Nat.leb 3 (length (row_at 0)) = true /\
  (* every alphabet character has an EXTRA entry e <= 3 with _fixedc(e) of length e inside the alphabet *)
  forallb extra_ok NUM_ALPHA = true /\
  (* keys of EXTRA are alphabet characters *)
  forallb (fun kv => inA (fst kv)) EXTRA = true /\
  (* NUM_ALPHA[i] for every i < 65 is an alphabet character *)
  forallb (fun i => inA (chr_at (N.of_nat i))) (seq 0 65) = true /\
  negb (Nat.eqb (length (fixedc 1)) 0) = true /\ Nat.eqb (length MAGIC) 3 = true /\ negb (Nat.eqb (length ENCODING) 0) = true.
Proof. vm_compute. repeat split; reflexivity. Qed.

Lemma inA_In c : inA c = true <-> In c NUM_ALPHA.
Proof. unfold inA. rewrite existsb_exists. split.
  - intros [x [Hin E]]. apply N.eqb_eq in E. now subst.
  - intros Hin. exists c. split; auto. apply N.eqb_refl. Qed.
Lemma in_bytes c : c < 256 -> In c bytes256.
Proof. intros Hc. unfold bytes256. apply in_map_iff. exists (N.to_nat c). split; [lia|]. apply in_seq. lia. Qed.

Lemma row_in pos : In (row_at pos) ENCODING.
Proof. unfold row_at. apply nth_In. apply Nat.mod_upper_bound.
  destruct tables_facts as (_ & _ & _ & _ & _ & _ & _ & _ & _ & T).
  destruct (length ENCODING); [discriminate|auto]. Qed.

Lemma char_facts pos p c : inA p = true -> c < 256 ->
  exists out gs, gap_encode c p (row_at pos) = Some out /\ length out = length (row_at pos) /\ length (row_at pos) <> O /\
                 forallb inA out = true /\ dec_gaps p out = Some gs /\ length gs = length (row_at pos) /\
                 ((dot gs (row_at pos)) mod 256)%Z = Z.of_N c.
Proof.
  intros Hp Hc. pose proof sweep_true as S.
  rewrite forallb_forall in S. specialize (S _ (row_in pos)). rewrite forallb_forall in S.
  specialize (S p (proj1 (inA_In p) Hp)). rewrite forallb_forall in S. specialize (S c (in_bytes c Hc)).
  unfold char_ok in S. destruct (gap_encode c p (row_at pos)) as [out|]; [|discriminate].
  repeat rewrite andb_true_iff in S. destruct S as [[[L1 L2] A] D].
  destruct (dec_gaps p out) as [gs|] eqn:Dg; [|discriminate]. apply andb_true_iff in D as [D1 D2].
  exists out, gs.
  split; [reflexivity|]. split; [now apply Nat.eqb_eq|]. split; [intros E; rewrite E in L2; discriminate|].
  split; [exact A|]. split; [exact Dg|]. split; [now apply Nat.eqb_eq|now apply Z.eqb_eq].
Qed.

Lemma last_app_nonempty {A} (a b : list A) d d' : b <> [] -> last (a ++ b) d = last b d'.
Proof. intros Hb. induction a as [|x a IH]; simpl.
  - destruct b; [contradiction|]. clear Hb. revert a. induction b as [|y b IHb]; intros a; simpl; auto. destruct b; auto. apply (IHb y).
  - destruct (a ++ b) eqn:E; [destruct a, b; try discriminate; contradiction|]. exact IH. Qed.
Lemma last_inA (l : str) d : forallb inA l = true -> inA d = true -> inA (last l d) = true.
Proof. induction l as [|a l IH]; simpl; auto. intros H Hd. apply andb_true_iff in H as [Ha Hl]. destruct l; auto. Qed.

(* ---- the loops: what the encoder appends, the decoder consumes, one plaintext character per iteration ---- *)
Lemma loops_roundtrip : forall plain pos prev crypt,
  Forall (fun c => c < 256) plain -> inA prev = true ->
  exists tail, enc_loop pos prev plain crypt = JOk (crypt ++ tail) /\ forallb inA tail = true /\
               (plain <> [] -> (length (row_at pos) <= length tail)%nat) /\
               forall fuel dec, (length tail < fuel)%nat -> length dec = pos ->
                                dec_loop fuel prev tail dec = JOk (dec ++ plain).
Proof.
  induction plain as [|c r IH]; intros pos prev crypt Hall Hp.
  - exists []. cbn [enc_loop]. rewrite app_nil_r. repeat split; auto.
    + intros C; contradiction.
    + intros fuel dec Hf _. destruct fuel; [simpl in Hf; lia|]. cbn [dec_loop]. now rewrite app_nil_r.
  - inversion Hall as [|? ? Hc Hr]; subst.
    destruct (char_facts pos prev c Hp Hc) as (out & gs & E & L & Lnz & A & Dg & Lg & Dd).
    cbn [enc_loop]. rewrite E.
    assert (Hout : out <> []) by (intros ->; simpl in L; lia).
    assert (Hl : last (crypt ++ out) 0 = last out prev) by (apply last_app_nonempty; exact Hout).
    rewrite Hl.
    destruct (IH (S pos) (last out prev) (crypt ++ out) Hr (last_inA out prev A Hp)) as (tail & Et & At & Lt & Hdec).
    exists (out ++ tail). rewrite Et, <- app_assoc. split; [reflexivity|]. split; [rewrite forallb_app, A, At; reflexivity|].
    split; [intros _; rewrite app_length; lia|].
    intros fuel dec Hf Hd. destruct fuel as [|fuel]; [lia|]. cbn [dec_loop].
    assert (Hf' : (length out + length tail < S fuel)%nat) by (rewrite <- app_length; exact Hf). clear Hf.
    destruct (out ++ tail) eqn:Eo; [destruct out; [contradiction|discriminate]|]. rewrite <- Eo. clear Eo.
    rewrite Hd.
    assert (Ef : firstn (length (row_at pos)) (out ++ tail) = out).
    { rewrite <- L. replace (length out) with (length out + 0)%nat by lia. rewrite firstn_app_2. simpl. now rewrite app_nil_r. }
    assert (Es : skipn (length (row_at pos)) (out ++ tail) = tail).
    { rewrite <- L. rewrite skipn_app, skipn_all, Nat.sub_diag. reflexivity. }
    rewrite Ef, Es, Dg, Lg, Nat.eqb_refl. cbn [negb]. rewrite Dd, N2Z.id.
    rewrite Hdec.
    + now rewrite <- app_assoc.
    + lia.
    + rewrite app_length, Hd. simpl. lia.
Qed.

Lemma starts_with_app (p x : str) : starts_with p (p ++ x) = true.
Proof. induction p; simpl; auto. now rewrite N.eqb_refl. Qed.
Lemma skipn_len_app {A} (p x : list A) : skipn (length p) (p ++ x) = x.
Proof. induction p; simpl; auto. Qed.

(* the salt character actually used is always an alphabet character with a proper EXTRA entry *)
Lemma salt_char_ok s :
  let s' := match assoc EXTRA s with Some _ => s | None => chr_at (s mod alen) end in
  inA s' = true /\ exists e, assoc EXTRA s' = Some e /\ e <= 3 /\ length (fixedc e) = N.to_nat e /\ forallb inA (fixedc e) = true.
Proof.
  destruct tables_facts as (_ & _ & Hal & _ & Hex & Hkeys & Hchr & _ & _ & _).
  cbv zeta.
  assert (Hin : forall c, inA c = true -> exists e, assoc EXTRA c = Some e /\ e <= 3 /\ length (fixedc e) = N.to_nat e /\ forallb inA (fixedc e) = true).
  { intros c Hc. rewrite forallb_forall in Hex. specialize (Hex c (proj1 (inA_In c) Hc)). unfold extra_ok in Hex.
    destruct (assoc EXTRA c) as [e|]; [|discriminate]. repeat rewrite andb_true_iff in Hex. destruct Hex as [[H1 H2] H3].
    exists e. repeat split; auto. - now apply N.leb_le. - now apply Nat.eqb_eq. }
  destruct (assoc EXTRA s) as [e|] eqn:E.
  - assert (Hs : inA s = true).
    { rewrite forallb_forall in Hkeys. clear - E Hkeys. induction EXTRA as [|[k v] l IH]; simpl in *; [discriminate|].
      destruct (N.eqb s k) eqn:Ek. + apply N.eqb_eq in Ek. subst. apply (Hkeys (k, v)). now left.
      + apply IH; auto. }
    split; auto.
  - assert (Hs : inA (chr_at (s mod alen)) = true).
    { apply N.eqb_eq in Hal. rewrite forallb_forall in Hchr. specialize (Hchr (N.to_nat (s mod alen))).
      rewrite N2Nat.id in Hchr. apply Hchr. apply in_seq. rewrite Hal. lia. }
    split; auto.
Qed.

Definition extra_of_salt (salt : str) : option N :=
  match (match salt with [] => fixedc 1 | _ => salt end) with
  | [] => None
  | s :: _ => assoc EXTRA (match assoc EXTRA s with Some _ => s | None => chr_at (s mod alen) end)
  end.

Definition wellformed (crypt : str) : Prop :=
  exists rest, crypt = MAGIC ++ rest /\ rest <> [] /\ forallb inA rest = true.

Theorem encrypt_decrypt_roundtrip : forall plain salt,
  Forall (fun c => c < 256) plain ->
  exists crypt, encrypt plain salt = JOk crypt /\ wellformed crypt /\
                ((plain <> [] \/ extra_of_salt salt = Some 3) -> decrypt crypt = JOk plain).
Proof.
  intros plain salt Hall.
  destruct tables_facts as (Hnz & Hne & _ & Hrow0 & _ & _ & _ & Hf1n & HM & _).
  unfold encrypt, extra_of_salt. rewrite Hnz. cbn [negb].
  set (salt1 := match salt with [] => fixedc 1 | _ => salt end).
  assert (Hs1 : salt1 <> []).
  { unfold salt1. destruct salt; [|discriminate]. intros E. rewrite E in Hf1n. discriminate. }
  destruct salt1 as [|s rest1]; [contradiction|].
  destruct (salt_char_ok s) as (Hs' & e & Ee & He & Lf & Af). cbv zeta in Hs', Ee.
  set (s' := match assoc EXTRA s with Some _ => s | None => chr_at (s mod alen) end) in *.
  rewrite Ee.
  destruct (loops_roundtrip plain 0 s' (MAGIC ++ [s'] ++ fixedc e) Hall Hs') as (tail & Et & At & Lt & Hdec).
  exists ((MAGIC ++ [s'] ++ fixedc e) ++ tail). split; [exact Et|]. split.
  - exists ((s' :: fixedc e) ++ tail). split; [now rewrite <- !app_assoc|]. split; [discriminate|].
    simpl. rewrite Hs'. rewrite forallb_app, Af, At. reflexivity.
  - intros Hguard. unfold decrypt. rewrite Hne, Hnz. cbn [andb negb].
    replace ((MAGIC ++ [s'] ++ fixedc e) ++ tail) with (MAGIC ++ (s' :: fixedc e ++ tail)) by (now rewrite <- !app_assoc).
    assert (Hvalid : valid (MAGIC ++ s' :: fixedc e ++ tail) = true).
    { unfold valid. rewrite starts_with_app, skipn_len_app. cbn [andb].
      apply andb_true_iff. split.
      - apply Nat.leb_le. simpl. rewrite app_length, Lf.
        destruct Hguard as [Hp|H3].
        + specialize (Lt Hp). apply Nat.leb_le in Hrow0. lia.
        + injection H3 as ->. simpl. lia.
      - change (forallb inA (s' :: fixedc e ++ tail) = true). cbn [forallb]. rewrite Hs', forallb_app, Af, At. reflexivity. }
    rewrite Hvalid. cbn [negb]. rewrite skipn_len_app. rewrite Ee.
    replace (N.to_nat e) with (length (fixedc e)) by exact Lf. rewrite skipn_len_app.
    apply (Hdec (S (length tail)) []); auto.
Qed.

(* the guard is needed: the unchanged code does not round-trip the empty plaintext under a salt of family > 0
   (its own decoder requires four characters after the magic) -- known finding D17 *)
Theorem empty_plaintext_refuted :
  exists salt crypt, encrypt [] salt = JOk crypt /\ decrypt crypt = JValueError.
Proof. exists [66], (MAGIC ++ [66; 110; 101]). vm_compute. split; reflexivity. Qed.

Lemma in_firstn' {A} (x : A) k l : In x (firstn k l) -> In x l.
Proof. revert l; induction k; intros [|a l]; simpl; try tauto. intros [H|H]; auto. Qed.
Lemma in_skipn' {A} (x : A) k l : In x (skipn k l) -> In x l.
Proof. revert l; induction k; intros [|a l]; simpl; try tauto. intros H; auto. Qed.

(* decrypt never fails in any way other than ValueError *)
Theorem decrypt_refuses_with_value_error : forall crypt, (exists p, decrypt crypt = JOk p) \/ decrypt crypt = JValueError.
Proof.
  intros crypt. destruct tables_facts as (Hnz & Hne & _ & _ & Hex & _ & _ & _ & HM & _).
  unfold decrypt. rewrite Hne, Hnz. cbn [andb negb].
  destruct (valid crypt) eqn:V; [|right; reflexivity]. cbn [negb].
  unfold valid in V. apply andb_true_iff in V as [V1 V2]. apply andb_true_iff in V2 as [V2 V3].
  destruct (skipn (length MAGIC) crypt) as [|first chars] eqn:Es; [simpl in V2; discriminate|].
  simpl in V3. apply andb_true_iff in V3 as [Vf Vc]. fold (inA first) in Vf.
  rewrite forallb_forall in Hex. specialize (Hex first (proj1 (inA_In first) Vf)). unfold extra_ok in Hex.
  destruct (assoc EXTRA first) as [e|]; [|discriminate].
  (* the loop: every character is an alphabet character, so _gap never raises; only the size check can fail *)
  assert (Hloop : forall fuel prev cs dec, inA prev = true -> forallb inA cs = true ->
            (exists p, dec_loop fuel prev cs dec = JOk p) \/ dec_loop fuel prev cs dec = JValueError).
  { induction fuel as [|fuel IH]; intros prev cs dec Hp Hcs; [left; eexists; reflexivity|].
    cbn [dec_loop]. destruct cs as [|c0 cs0] eqn:Ecs; [left; eexists; reflexivity|]. rewrite <- Ecs in *. clear Ecs c0 cs0.
    assert (Hg : forall nib p, inA p = true -> forallb inA nib = true -> exists gs, dec_gaps p nib = Some gs /\ length gs = length nib).
    { induction nib as [|x nib IHn]; intros p Hp' Hn; [exists []; auto|]. simpl in Hn. apply andb_true_iff in Hn as [Hx Hn].
      cbn [dec_gaps]. 
      assert (Hi : forall q, inA q = true -> exists i, idx q = Some i).
      { intros q Hq. pose proof sweep_true as S. rewrite forallb_forall in S.
        specialize (S _ (row_in 0)). rewrite forallb_forall in S. specialize (S q (proj1 (inA_In q) Hq)).
        rewrite forallb_forall in S. specialize (S 0 (in_bytes 0 ltac:(lia))). unfold char_ok, gap_encode in S.
        destruct (gaps 0 (row_at 0)) as [|g gs'] eqn:Eg.
        - exfalso. pose proof (char_facts 0 q 0 Hq ltac:(lia)) as (o & g' & E1 & L1 & Lnz & _). unfold gap_encode in E1. rewrite Eg in E1. simpl in E1. injection E1 as <-. simpl in L1. lia.
        - cbn [enc_chars] in S. destruct (idx q) as [i|]; [eauto|discriminate]. }
      destruct (Hi p Hp') as [ip ->]. destruct (Hi x Hx) as [ix ->]. destruct (IHn x Hx Hn) as (gs & -> & Lgs).
      eexists. split; [reflexivity|]. simpl. now rewrite Lgs. }
    set (k := length (row_at (length dec))).
    assert (Hnib : forallb inA (firstn k cs) = true).
    { rewrite forallb_forall in *. intros x Hx. apply Hcs. eapply in_firstn'; eauto. }
    destruct (Hg (firstn k cs) prev Hp Hnib) as (gs & -> & Lgs).
    destruct (Nat.eqb (length gs) k); cbn [negb]; [|right; reflexivity].
    apply IH.
    - apply last_inA; auto.
    - rewrite forallb_forall in *. intros x Hx. apply Hcs. eapply in_skipn'; eauto. }
  apply Hloop; auto.
  rewrite forallb_forall in *. intros x Hx. apply Vc. eapply in_skipn'; eauto.
Qed.
