(* What the GENERATED IPv4 pattern (gen/G_rx.v: IPV4_RX, the AST CPython's parser makes of ip_anonymization.IPv4_PATTERN on this run) can match, read off
   through the engine's declarative semantics (lib/RxDen.v, lib/RxLang.v): every span the engine reports is a standalone dotted quad --
   preceded by the start of the line or a character that is neither an ASCII letter, a digit nor '.', followed by such a character or the end of the
   line, and made of exactly four parts separated by '.', each part any number of '0' followed by a decimal numeral of one to three digits with value
   at most 255.  So: an octet above 255, a wrong number of parts, a token glued to letters, digits or further dots is never matched as a whole. *)
From Coq Require Import List Arith NArith Bool Lia.
Import ListNotations.
Require Import Rx RxFacts RxComplete RxDen RxLang G_rx.

Definition ENC : cset := CRanges false [(0%N, 45%N); (47%N, 47%N); (58%N, 64%N); (91%N, 96%N); (123%N, 1114111%N)].
Definition cr (a b : N) : cset := CRanges false [(a, b)].
Definition Z0 : re := Rep true (Chr (cr 48 48)) 0 None.
Definition OCT (k : nat) : re :=
  Alt (Seq (Chr (cr 50 50)) (Seq (Chr (cr 53 53)) (Chr (cr 48 53))))
      (Seq (Rep true (Grp k (Alt (Seq (Chr (cr 50 50)) (Chr (cr 48 52))) (Seq (Rep true (Chr (cr 49 49)) 0 (Some 1)) (Chr (cr 48 57))))) 0 (Some 1)) (Chr (cr 48 57))).
Definition CORE : re := Seq (Rep true (Grp 2 (Seq Z0 (Seq (Grp 3 (OCT 4)) (Chr (cr 46 46))))) 3 (Some 3)) (Seq Z0 (Grp 5 (OCT 6))).
Definition LB : re := Alt (Look false false 0 Bol) (Look false false 1 (Chr ENC)).
Definition LA : re := Look true false 0 (Alt (Chr ENC) Eol).
(* the generated AST is this one (checked by computation on every run: a change of the pattern in the source changes the left-hand side) *)
Lemma generated_ipv4_pattern_shape : IPV4_RX = Seq LB (Seq (Grp 1 CORE) (Seq Eps LA)).
Proof. reflexivity. Qed.

Definition dig (d : N) : Prop := (48 <= d <= 57)%N.
Definition zeros (t : list chr) : Prop := Forall (fun x => x = 48%N) t.
(* a decimal numeral 0..255 without superfluous digits beyond three: d, dd, 1dd, 20d-24d, 250-255 *)
Definition octet_core (t : list chr) : Prop :=
  match t with
  | [d] => dig d
  | [a; b] => dig a /\ dig b
  | [a; b; c] => (a = 49 /\ dig b /\ dig c)%N \/ (a = 50 /\ 48 <= b <= 52 /\ dig c)%N \/ (a = 50 /\ b = 53 /\ 48 <= c <= 53)%N
  | _ => False
  end.
Definition dotted_quad (t : list chr) : Prop :=
  exists z1 o1 z2 o2 z3 o3 z4 o4,
    t = (z1 ++ o1 ++ [46%N]) ++ (z2 ++ o2 ++ [46%N]) ++ (z3 ++ o3 ++ [46%N]) ++ z4 ++ o4 /\
    zeros z1 /\ zeros z2 /\ zeros z3 /\ zeros z4 /\ octet_core o1 /\ octet_core o2 /\ octet_core o3 /\ octet_core o4.

Lemma in_cr a b x : in_cset x (cr a b) = true -> (a <= x <= b)%N.
Proof. unfold cr. cbn [in_cset existsb fst snd xorb]. rewrite orb_false_r. destruct (N.leb_spec a x), (N.leb_spec x b); cbn [andb]; intro Hx; try discriminate; lia. Qed.

Ltac inv_lang :=
  repeat match goal with
  | H : lang (Seq _ _) _ |- _ => inversion H; subst; clear H
  | H : lang (Alt _ _) _ |- _ => inversion H; subst; clear H
  | H : lang (Grp _ _) _ |- _ => inversion H; subst; clear H
  | H : lang (Chr _) _ |- _ => inversion H; subst; clear H
  | H : lang Eps _ |- _ => inversion H; subst; clear H
  | H : in_cset _ (cr _ _) = true |- _ => apply in_cr in H
  end.

Lemma lang_opt1 g a t : lang (Rep g a 0 (Some 1)) t -> t = [] \/ lang a t.
Proof.
  intro H. inversion H as [| | | | |g' a' lo' hi' ts F L B|]; subst. specialize (B 1 eq_refl (Nat.le_0_l _)).
  destruct ts as [|t1 [|t2 ts]]; cbn [length] in B; [now left| |lia]. right. cbn [concat]. rewrite app_nil_r. now inversion F.
Qed.
Lemma lang_zeros t : lang Z0 t -> zeros t.
Proof. intro H. apply lang_rep_chr in H as [H _]. unfold zeros. eapply Forall_impl; [|exact H]. intros x Hx. apply in_cr in Hx. lia. Qed.

Lemma lang_octet k t : lang (OCT k) t -> octet_core t.
Proof.
  unfold OCT. intro H. inversion H; subst; clear H.
  - inv_lang. cbn [app octet_core]. unfold dig. right. right. lia.
  - match goal with H : lang (Seq _ _) _ |- _ => inversion H; subst; clear H end.
    match goal with H : lang (Rep _ _ 0 (Some 1)) _ |- _ => apply lang_opt1 in H; destruct H as [->|H] end.
    + inv_lang. cbn [app octet_core]. unfold dig. lia.
    + match goal with H : lang (Grp _ _) _ |- _ => inversion H; subst; clear H end. match goal with H : lang (Alt _ _) _ |- _ => inversion H; subst; clear H end.
      * inv_lang. cbn [app octet_core]. unfold dig. right. left. lia.
      * match goal with H : lang (Seq _ _) _ |- _ => inversion H; subst; clear H end.
        match goal with H : lang (Rep _ _ 0 (Some 1)) _ |- _ => apply lang_opt1 in H; destruct H as [->|H] end; inv_lang; cbn [app octet_core]; unfold dig; [lia|left; lia].
Qed.

Lemma lang_part t : lang (Grp 2 (Seq Z0 (Seq (Grp 3 (OCT 4)) (Chr (cr 46 46))))) t -> exists z o, t = z ++ o ++ [46%N] /\ zeros z /\ octet_core o.
Proof.
  intro H. inversion H; subst; clear H.
  match goal with H : lang (Seq Z0 _) _ |- _ => inversion H; subst; clear H end.
  match goal with H : lang (Seq (Grp 3 _) _) _ |- _ => inversion H; subst; clear H end.
  match goal with H : lang (Grp 3 _) _ |- _ => inversion H; subst; clear H end.
  match goal with H : lang (Chr _) _ |- _ => inversion H; subst; clear H end.
  match goal with H : in_cset _ _ = true |- _ => apply in_cr in H end.
  match goal with H : (46 <= ?x <= 46)%N |- _ => assert (x = 46%N) by lia; subst x end.
  match goal with Hz : lang Z0 ?z, Ho : lang (OCT 4) ?o |- _ => exists z, o; split; [reflexivity|]; split; [exact (lang_zeros _ Hz)|exact (lang_octet 4 _ Ho)] end.
Qed.
Theorem lang_core_is_dotted_quad t : lang CORE t -> dotted_quad t.
Proof.
  unfold CORE. intro H. inversion H; subst; clear H.
  match goal with H : lang (Rep _ _ 3 (Some 3)) _ |- _ => inversion H as [| | | | |g' a' lo' hi' ts F L B|]; subst; clear H end.
  specialize (B 3 eq_refl (le_n _)).
  destruct ts as [|p1 [|p2 [|p3 [|p4 ts]]]]; cbn [length] in L, B; try lia.
  inversion F as [|? ? F1 F']; subst. inversion F' as [|? ? F2 F'']; subst. inversion F'' as [|? ? F3 _]; subst.
  destruct (lang_part _ F1) as (z1 & o1 & -> & Z1 & O1). destruct (lang_part _ F2) as (z2 & o2 & -> & Z2 & O2). destruct (lang_part _ F3) as (z3 & o3 & -> & Z3 & O3).
  match goal with H : lang (Seq Z0 _) _ |- _ => inversion H; subst; clear H end.
  match goal with H : lang (Grp 5 _) _ |- _ => inversion H; subst; clear H end.
  match goal with Hz : lang Z0 ?z4, Ho : lang (OCT 6) ?o4 |- _ =>
    exists z1, o1, z2, o2, z3, o3, z4, o4; split; [cbn [concat]; rewrite app_nil_r; rewrite <- !app_assoc; reflexivity|];
    repeat split; try assumption; [exact (lang_zeros _ Hz)|exact (lang_octet 6 _ Ho)] end.
Qed.

(* every match the engine reports for the generated IPv4 pattern is a standalone dotted quad *)
Definition enclosing (x : chr) : Prop := in_cset x ENC = true.
Theorem ipv4_match_is_a_standalone_dotted_quad (s : list chr) i c j c' : i <= length s ->
  In (j, c') (ms s IPV4_RX i c) ->
  (i = 0 \/ (1 <= i /\ exists x, nth_error s (i - 1) = Some x /\ enclosing x)) /\
  (eol s j = true \/ exists x, nth_error s j = Some x /\ enclosing x) /\
  dotted_quad (sub s i j).
Proof.
  intros Hi H. apply ms_den in H. rewrite generated_ipv4_pattern_shape in H.
  inversion H as [| |a b i0 j1 k D1 D2| | | | | | | | | |]; subst; clear H.
  inversion D2 as [| |a b i0 j2 k D3 D4| | | | | | | | | |]; subst; clear D2.
  inversion D4 as [| |a b i0 j3 k D5 D6| | | | | | | | | |]; subst; clear D4.
  inversion D5; subst; clear D5.
  assert (j1 = i).
  { unfold LB in D1. inversion D1; subst; match goal with D : den _ (Look _ _ _ _) _ _ |- _ => inversion D; subst end; reflexivity. }
  subst j1.
  assert (j3 = j). { unfold LA in D6. inversion D6; subst; reflexivity. } subst j3.
  split; [|split].
  - unfold LB in D1. inversion D1; subst.
    + left. match goal with D : den _ (Look false false 0 Bol) _ _ |- _ => inversion D; subst end.
      match goal with D : den _ Bol _ _ |- _ => inversion D; subst end. lia.
    + right. match goal with D : den _ (Look false false 1 _) _ _ |- _ => inversion D; subst end. split; [assumption|].
      match goal with D : den _ (Chr ENC) _ _ |- _ => inversion D; subst end. eexists. split; [eassumption|assumption].
  - unfold LA in D6. inversion D6; subst. match goal with D : den _ (Alt _ _) _ _ |- _ => inversion D; subst end.
    + right. match goal with D : den _ (Chr ENC) _ _ |- _ => inversion D; subst end. eexists. split; [eassumption|assumption].
    + left. match goal with D : den _ Eol _ _ |- _ => inversion D; subst end. assumption.
  - inversion D3; subst. apply lang_core_is_dotted_quad. apply den_lang; [assumption|reflexivity|exact Hi].
Qed.

(* ... hence every span the leftmost search (the primitive under re.search / finditer / sub) finds for it *)
Lemma search_from_le (s : list chr) r : forall n i a b c, search_from s n r i = Some (a, b, c) -> a <= i + n.
Proof.
  induction n as [|n IH]; intros i a b c; cbn [search_from]; destruct (match_at s r i) as [[j cj]|]; try discriminate.
  - intros [= <- <- <-]. lia.
  - intros [= <- <- <-]. lia.
  - intro H. apply IH in H. lia.
Qed.
Theorem ipv4_search_finds_only_standalone_dotted_quads (s : list chr) n i a b c : i + n <= length s ->
  search_from s n IPV4_RX i = Some (a, b, c) ->
  (a = 0 \/ (1 <= a /\ exists x, nth_error s (a - 1) = Some x /\ enclosing x)) /\
  (eol s b = true \/ exists x, nth_error s b = Some x /\ enclosing x) /\
  dotted_quad (sub s a b).
Proof.
  intros Hn H. pose proof (search_from_le s _ _ _ _ _ _ H) as Ha. apply search_from_ge in H as [_ M]. apply match_at_in in M.
  apply (ipv4_match_is_a_standalone_dotted_quad s a [] b c); [lia|exact M].
Qed.

(* what a dotted quad is worth: each part is a numeral of value at most 255 (stated on the numeral after its leading zeros) *)
Definition dec_value (t : list chr) : N := fold_left (fun acc d => 10 * acc + (d - 48))%N t 0%N.
Lemma octet_core_value t : octet_core t -> (dec_value t <= 255)%N /\ Forall dig t.
Proof.
  destruct t as [|a [|b [|c [|d t]]]]; cbn [octet_core]; try contradiction; unfold dig, dec_value; cbn [fold_left].
  - intro H. split; [lia|repeat constructor; lia].
  - intros [H1 H2]. split; [lia|repeat constructor; lia].
  - intros [(-> & H2 & H3)|[(-> & H2 & H3)|(-> & -> & H3)]]; (split; [lia|repeat constructor; lia]).
Qed.
(* non-vacuity: the characterisation admits what it should and excludes what it should *)
Example dotted_quad_example : dotted_quad [49;48;46;48;48;49;46;50;53;53;46;48]%N.    (* "10.001.255.0" *)
Proof.
  exists [], [49;48]%N, [48;48]%N, [49]%N, [], [50;53;53]%N, [], [48]%N. unfold zeros. cbn [octet_core app]. unfold dig.
  split; [reflexivity|]. split; [constructor|]. split; [repeat constructor|]. split; [constructor|]. split; [constructor|].
  split; [lia|]. split; [lia|]. split; [right; right; lia|lia].
Qed.

(* ... and it is a WHOLE token: all its characters are digits or dots, none of which is a delimiter, while the characters on both sides (if any) are
   delimiters -- the span is a maximal run of token characters, so a replacement leaves no fragment of the original behind *)
Lemma zeros_chars z : zeros z -> Forall (fun x => dig x \/ x = 46%N) z.
Proof. unfold zeros, dig. intro H. eapply Forall_impl; [|exact H]. intros x ->. left. lia. Qed.
Lemma octet_chars t : octet_core t -> Forall (fun x => dig x \/ x = 46%N) t.
Proof. intro H. destruct (octet_core_value t H) as [_ F]. eapply Forall_impl; [|exact F]. intros x Hx. now left. Qed.
Lemma dotted_quad_chars t : dotted_quad t -> Forall (fun x => dig x \/ x = 46%N) t.
Proof.
  intros (z1 & o1 & z2 & o2 & z3 & o3 & z4 & o4 & -> & Z1 & Z2 & Z3 & Z4 & O1 & O2 & O3 & O4).
  assert (D : Forall (fun x => dig x \/ x = 46%N) [46%N]) by (constructor; [now right|constructor]).
  repeat (apply Forall_app; split); auto using zeros_chars, octet_chars.
Qed.
Lemma token_char_not_enclosing x : dig x \/ x = 46%N -> in_cset x ENC = false.
Proof.
  unfold dig, ENC. cbn [in_cset existsb fst snd xorb]. intros [H| ->]; [|reflexivity].
  repeat match goal with |- context [(?a <=? x)%N] => destruct (N.leb_spec a x) | |- context [(x <=? ?a)%N] => destruct (N.leb_spec x a) end; cbn [andb orb]; try reflexivity; lia.
Qed.
Theorem ipv4_match_is_a_whole_token (s : list chr) i c j c' : i <= length s ->
  In (j, c') (ms s IPV4_RX i c) ->
  Forall (fun x => in_cset x ENC = false) (sub s i j) /\
  (i = 0 \/ exists x, nth_error s (i - 1) = Some x /\ in_cset x ENC = true) /\
  (eol s j = true \/ exists x, nth_error s j = Some x /\ in_cset x ENC = true).
Proof.
  intros Hi H. destruct (ipv4_match_is_a_standalone_dotted_quad s i c j c' Hi H) as (A & B & Q).
  split; [|split].
  - eapply Forall_impl; [|exact (dotted_quad_chars _ Q)]. intros x. apply token_char_not_enclosing.
  - destruct A as [->|(_ & x & Hx & Ex)]; [now left|right; eauto].
  - exact B.
Qed.

(* ---- the same boundary reading for the generated IPv6 pattern (its core, twelve alternatives, is not characterised here) ---- *)
Definition LBe (enc : cset) : re := Alt (Look false false 0 Bol) (Look false false 1 (Chr enc)).
Definition LAe (enc : cset) : re := Look true false 0 (Alt (Chr enc) Eol).
Lemma delimited_match (s : list chr) (enc : cset) (core : re) i c j c' :
  In (j, c') (ms s (Seq (LBe enc) (Seq core (LAe enc))) i c) ->
  (i = 0 \/ (1 <= i /\ exists x, nth_error s (i - 1) = Some x /\ in_cset x enc = true)) /\
  (eol s j = true \/ exists x, nth_error s j = Some x /\ in_cset x enc = true) /\
  den s core i j.
Proof.
  intro H. apply ms_den in H.
  inversion H as [| |a b i0 j1 k D1 D2| | | | | | | | | |]; subst; clear H.
  inversion D2 as [| |a b i0 j2 k D3 D4| | | | | | | | | |]; subst; clear D2.
  assert (j1 = i). { unfold LBe in D1. inversion D1; subst; match goal with D : den _ (Look _ _ _ _) _ _ |- _ => inversion D; subst end; reflexivity. } subst j1.
  assert (j2 = j). { unfold LAe in D4. inversion D4; subst; reflexivity. } subst j2.
  split; [|split; [|exact D3]].
  - unfold LBe in D1. inversion D1; subst.
    + left. match goal with D : den _ (Look false false 0 Bol) _ _ |- _ => inversion D; subst end.
      match goal with D : den _ Bol _ _ |- _ => inversion D; subst end. lia.
    + right. match goal with D : den _ (Look false false 1 _) _ _ |- _ => inversion D; subst end. split; [assumption|].
      match goal with D : den _ (Chr enc) _ _ |- _ => inversion D; subst end. eexists. split; [eassumption|assumption].
  - unfold LAe in D4. inversion D4; subst. match goal with D : den _ (Alt _ _) _ _ |- _ => inversion D; subst end.
    + right. match goal with D : den _ (Chr enc) _ _ |- _ => inversion D; subst end. eexists. split; [eassumption|assumption].
    + left. match goal with D : den _ Eol _ _ |- _ => inversion D; subst end. assumption.
Qed.
Lemma generated_ipv6_pattern_shape : exists core, IPV6_RX = Seq (LBe cs9) (Seq (Grp 1 core) (LAe cs9)).
Proof. eexists. reflexivity. Qed.
Theorem ipv6_match_is_delimited (s : list chr) i c j c' :
  In (j, c') (ms s IPV6_RX i c) ->
  (i = 0 \/ (1 <= i /\ exists x, nth_error s (i - 1) = Some x /\ in_cset x cs9 = true)) /\
  (eol s j = true \/ exists x, nth_error s j = Some x /\ in_cset x cs9 = true).
Proof.
  destruct generated_ipv6_pattern_shape as (core & E). rewrite E. intro H.
  destruct (delimited_match s cs9 _ i c j c' H) as (A & B & _). split; assumption.
Qed.

(* ======== the other half: a standalone dotted quad IS matched, as a whole (through the engine's completeness for anchor-free patterns, RxLang.lang_ms) ======== *)
Lemma cr_in a b x : (a <= x <= b)%N -> in_cset x (cr a b) = true.
Proof. intro H. unfold cr. cbn [in_cset existsb fst snd xorb]. rewrite orb_false_r. destruct (N.leb_spec a x), (N.leb_spec x b); cbn [andb]; try reflexivity; lia. Qed.
Lemma lang_rep_chars g cs lo hi (t : list chr) : Forall (fun x => in_cset x cs = true) t -> lo <= length t -> (forall h, hi = Some h -> lo <= h -> length t <= h) ->
  lang (Rep g (Chr cs) lo hi) t.
Proof.
  intros F L B. assert (E : t = concat (map (fun x => [x]) t)) by (clear; induction t as [|x t IH]; cbn [map concat app]; [reflexivity|now rewrite <- IH]).
  rewrite E. constructor; [|now rewrite map_length|now rewrite map_length].
  apply Forall_forall. intros u Hu. apply in_map_iff in Hu as (x & <- & Hx). constructor. rewrite Forall_forall in F. now apply F.
Qed.
Lemma lang_of_zeros z : zeros z -> lang Z0 z.
Proof. intro H. apply lang_rep_chars; [|lia|discriminate]. eapply Forall_impl; [|exact H]. intros x ->. apply cr_in. lia. Qed.
Lemma lang_opt_none g a : lang (Rep g a 0 (Some 1)) [].
Proof. change (@nil chr) with (concat (@nil (list chr))). constructor; [constructor|cbn; lia|cbn; intros; lia]. Qed.
Lemma lang_opt_some g a t : lang a t -> lang (Rep g a 0 (Some 1)) t.
Proof. intro H. replace t with (concat [t]) by (cbn; apply app_nil_r). constructor; [repeat constructor; exact H|cbn; lia|cbn; intros h [= <-] _; lia]. Qed.
Lemma lang_of_octet k o : octet_core o -> lang (OCT k) o.
Proof.
  unfold OCT, octet_core, dig. destruct o as [|a [|b [|c [|d o]]]]; try contradiction.
  - intro H. apply LAltR. change [a] with ([] ++ [a]). constructor; [apply lang_opt_none|constructor; apply cr_in; lia].
  - intros [Ha Hb]. apply LAltR. change [a; b] with ([a] ++ [b]). constructor; [|constructor; apply cr_in; lia].
    apply lang_opt_some. constructor. apply LAltR. change [a] with ([] ++ [a]). constructor; [apply lang_opt_none|constructor; apply cr_in; lia].
  - intros [(-> & Hb & Hc)|[(-> & Hb & Hc)|(-> & -> & Hc)]].
    + apply LAltR. change [49%N; b; c] with ([49%N; b] ++ [c]). constructor; [|constructor; apply cr_in; lia].
      apply lang_opt_some. constructor. apply LAltR. change [49%N; b] with ([49%N] ++ [b]). constructor; [|constructor; apply cr_in; lia].
      apply lang_opt_some. constructor. apply cr_in. lia.
    + apply LAltR. change [50%N; b; c] with ([50%N; b] ++ [c]). constructor; [|constructor; apply cr_in; lia].
      apply lang_opt_some. constructor. apply LAltL. change [50%N; b] with ([50%N] ++ [b]). constructor; constructor; apply cr_in; lia.
    + apply LAltL. change [50%N; 53%N; c] with ([50%N] ++ [53%N] ++ [c]). constructor; [constructor; apply cr_in; lia|]. constructor; constructor; apply cr_in; lia.
Qed.
Lemma lang_of_part z o : zeros z -> octet_core o -> lang (Grp 2 (Seq Z0 (Seq (Grp 3 (OCT 4)) (Chr (cr 46 46))))) (z ++ o ++ [46%N]).
Proof. intros Hz Ho. constructor. constructor; [now apply lang_of_zeros|]. constructor; [constructor; now apply lang_of_octet|constructor; apply cr_in; lia]. Qed.
Theorem dotted_quad_is_in_the_core_language t : dotted_quad t -> lang CORE t.
Proof.
  intros (z1 & o1 & z2 & o2 & z3 & o3 & z4 & o4 & -> & Z1 & Z2 & Z3 & Z4 & O1 & O2 & O3 & O4). unfold CORE.
  replace ((z1 ++ o1 ++ [46%N]) ++ (z2 ++ o2 ++ [46%N]) ++ (z3 ++ o3 ++ [46%N]) ++ z4 ++ o4)
    with (concat [z1 ++ o1 ++ [46%N]; z2 ++ o2 ++ [46%N]; z3 ++ o3 ++ [46%N]] ++ (z4 ++ o4)) by (cbn [concat]; rewrite app_nil_r, <- !app_assoc; reflexivity).
  constructor.
  - apply LRep; [|cbn; lia|cbn; intros h [= <-] _; lia].
    constructor; [now apply lang_of_part|constructor; [now apply lang_of_part|constructor; [now apply lang_of_part|constructor]]].
  - constructor; [now apply lang_of_zeros|constructor; now apply lang_of_octet].
Qed.

Lemma ms_LB (s : list chr) i c : (i = 0 \/ (1 <= i /\ exists x, nth_error s (i - 1) = Some x /\ in_cset x ENC = true)) -> In (i, c) (ms s LB i c).
Proof.
  intros [->|(Hi & x & Hx & Ex)]; unfold LB; cbn [ms]; apply in_or_app.
  - left. cbn [Nat.leb Nat.sub Nat.eqb existsb fst xorb orb]. now left.
  - right. replace (Nat.leb 1 i) with true by (symmetry; apply Nat.leb_le; exact Hi). rewrite Hx, Ex. cbn [existsb fst orb xorb].
    replace (Nat.eqb (S (i - 1)) i) with true by (symmetry; apply Nat.eqb_eq; lia). now left.
Qed.
Lemma ms_LA (s : list chr) j c : (eol s j = true \/ exists x, nth_error s j = Some x /\ in_cset x ENC = true) -> In (j, c) (ms s LA j c).
Proof.
  intro H. unfold LA. cbn [ms].
  assert (E : existsb (fun _ : nat * caps => true) ((match nth_error s j with Some x => if in_cset x ENC then [(S j, c)] else [] | None => [] end) ++ (if eol s j then [(j, c)] else [])) = true).
  { destruct H as [H|(x & Hx & Ex)]; [rewrite H; rewrite existsb_app; cbn [existsb]; now rewrite orb_true_r|rewrite Hx, Ex; reflexivity]. }
  rewrite E. now left.
Qed.
Lemma wfr_core : wfr CORE = true. Proof. reflexivity. Qed.
Lemma pure_core : pure CORE = true. Proof. reflexivity. Qed.

Theorem ipv4_token_is_matched (s : list chr) (t : list chr) i c :
  dotted_quad t -> occ s t i ->
  (i = 0 \/ (1 <= i /\ exists x, nth_error s (i - 1) = Some x /\ in_cset x ENC = true)) ->
  (eol s (i + length t) = true \/ exists x, nth_error s (i + length t) = Some x /\ in_cset x ENC = true) ->
  exists c', In (i + length t, c') (ms s IPV4_RX i c).
Proof.
  intros Q O B A. rewrite generated_ipv4_pattern_shape.
  destruct (lang_ms s CORE pure_core wfr_core t i c (dotted_quad_is_in_the_core_language t Q) O) as (c1 & H1).
  eexists. cbn [ms]. apply in_flat_map. exists (i, c). split; [now apply ms_LB|]. cbn [fst snd].
  apply in_flat_map. eexists (i + length t, _). split.
  - apply in_map_iff. exists (i + length t, c1). split; [reflexivity|exact H1].
  - cbn [fst snd]. apply in_flat_map. eexists (i + length t, _). split; [now left|]. cbn [fst snd]. apply ms_LA. exact A.
Qed.

(* ... and every match starting at the token's first character covers exactly the token: the engine's first choice (what re.sub replaces) is the whole token *)
Lemma nth_firstn_lt {A} : forall n k (l : list A), k < n -> nth_error (firstn n l) k = nth_error l k.
Proof. induction n as [|n IH]; intros k l H; [lia|]. destruct l as [|y l]; [now destruct k|]. destruct k; cbn [firstn nth_error]; [reflexivity|apply IH; lia]. Qed.
Lemma in_sub (s : list chr) i j k x : i <= k -> k < j -> j <= length s -> nth_error s k = Some x -> In x (sub s i j).
Proof.
  intros H1 H2 H3 Hx. unfold sub. apply (nth_error_In _ (k - i)). rewrite nth_firstn_lt by lia.
  rewrite nth_error_skipn. now replace (i + (k - i)) with k by lia.
Qed.
Lemma nl_enclosing : in_cset 10%N ENC = true. Proof. reflexivity. Qed.
Theorem ipv4_match_at_a_token_covers_exactly_the_token (s : list chr) (t : list chr) i c :
  dotted_quad t -> occ s t i -> i <= length s ->
  (eol s (i + length t) = true \/ exists x, nth_error s (i + length t) = Some x /\ in_cset x ENC = true) ->
  forall j c', In (j, c') (ms s IPV4_RX i c) -> j = i + length t.
Proof.
  intros Q O Hi A j c' H.
  pose proof (ms_den s _ _ _ _ _ H) as D. destruct (den_bounds s _ _ _ D) as [Hij Hj]. specialize (Hj Hi).
  destruct (ipv4_match_is_a_whole_token s i c j c' Hi H) as (F & _ & R). rewrite Forall_forall in F.
  pose proof (dotted_quad_chars t Q) as Ct. rewrite Forall_forall in Ct.
  destruct (Nat.lt_trichotomy j (i + length t)) as [Hlt|[->|Hgt]]; [exfalso| reflexivity |exfalso].
  - (* the match would end inside the token: the next character is a token character *)
    destruct (nth_error t (j - i)) as [x|] eqn:Ex; [|apply nth_error_None in Ex; lia].
    pose proof (O _ _ Ex) as Sx. replace (i + (j - i)) with j in Sx by lia.
    pose proof (token_char_not_enclosing x (Ct x (nth_error_In _ _ Ex))) as Nx.
    destruct R as [R|(y & Hy & Ey)]; [|congruence].
    unfold eol, Rx.slen in R. apply orb_true_iff in R as [R|R]; [apply Nat.eqb_eq in R; assert (j < length s) by (apply nth_error_Some; congruence); lia|].
    apply andb_true_iff in R as [_ R]. rewrite Sx in R. destruct x as [|p]; [discriminate|]. destruct p as [p|p|]; try discriminate; destruct p as [p|p|]; try discriminate;
      destruct p as [p|p|]; try discriminate; destruct p as [p|p|]; try discriminate.
  - (* the match would run past the token: it would contain the delimiter after the token *)
    destruct A as [A|(y & Hy & Ey)].
    + unfold eol, Rx.slen in A. apply orb_true_iff in A as [A|A]; [apply Nat.eqb_eq in A; lia|]. apply andb_true_iff in A as [A1 A2]. apply Nat.eqb_eq in A1.
      destruct (nth_error s (i + length t)) as [y|] eqn:Hy; [|discriminate].
      assert (y = 10%N) by (destruct y as [|p]; [discriminate|]; destruct p as [p|p|]; try discriminate; destruct p as [p|p|]; try discriminate;
                            destruct p as [p|p|]; try discriminate; destruct p as [p|p|]; try discriminate; reflexivity). subst y.
      pose proof (F _ (in_sub s i j (i + length t) 10%N ltac:(lia) Hgt Hj Hy)) as N10. rewrite nl_enclosing in N10. discriminate.
    + pose proof (F _ (in_sub s i j (i + length t) y ltac:(lia) Hgt Hj Hy)) as Ny. congruence.
Qed.

Theorem ipv4_engine_replaces_the_whole_token (s : list chr) (t : list chr) i :
  dotted_quad t -> occ s t i -> i <= length s ->
  (i = 0 \/ (1 <= i /\ exists x, nth_error s (i - 1) = Some x /\ in_cset x ENC = true)) ->
  (eol s (i + length t) = true \/ exists x, nth_error s (i + length t) = Some x /\ in_cset x ENC = true) ->
  exists c', match_at s IPV4_RX i = Some (i + length t, c').
Proof.
  intros Q O Hi B A. destruct (ipv4_token_is_matched s t i [] Q O B A) as (c1 & H1).
  unfold match_at. rewrite m_is_first_of_ms.
  destruct (ms s IPV4_RX i []) as [|[j cj] l] eqn:E; [destruct H1|]. cbn [first_some].
  assert (j = i + length t) by (apply (ipv4_match_at_a_token_covers_exactly_the_token s t i [] Q O Hi A j cj); rewrite E; now left).
  subst j. now exists cj.
Qed.

(* ======== over a whole line: finditer (the leftmost-first scan under re.finditer / re.sub) reports every standalone dotted quad, with its exact extent ======== *)
Lemma search_from_first (s : list chr) r : forall n i a b c, search_from s n r i = Some (a, b, c) -> forall p, i <= p < a -> match_at s r p = None.
Proof.
  induction n as [|n IH]; intros i a b c H p Hp; cbn [search_from] in H; destruct (match_at s r i) as [[j cj]|] eqn:E.
  - injection H as <- <- <-. lia.
  - discriminate.
  - injection H as <- <- <-. lia.
  - destruct (Nat.eq_dec p i) as [->|]; [exact E|]. apply (IH (S i) a b c H). lia.
Qed.
Lemma search_from_finds (s : list chr) r : forall n i a b c, match_at s r a = Some (b, c) -> i <= a -> a <= i + n ->
  exists a' b' c', search_from s n r i = Some (a', b', c') /\ a' <= a.
Proof.
  induction n as [|n IH]; intros i a b c M Hia Han; cbn [search_from].
  - assert (a = i) by lia. subst a. rewrite M. eauto.
  - destruct (match_at s r i) as [[j cj]|] eqn:E; [eauto|].
    destruct (Nat.eq_dec a i) as [->|]; [congruence|]. destruct (IH (S i) a b c M ltac:(lia) ltac:(lia)) as (a' & b' & c' & H & Hle). eauto.
Qed.

Theorem ipv4_finditer_reports_every_standalone_dotted_quad (s : list chr) (t : list chr) a :
  dotted_quad t -> occ s t a -> a + length t <= length s ->
  (a = 0 \/ (1 <= a /\ exists x, nth_error s (a - 1) = Some x /\ in_cset x ENC = true)) ->
  (eol s (a + length t) = true \/ exists x, nth_error s (a + length t) = Some x /\ in_cset x ENC = true) ->
  forall fuel i, i <= a -> a - i < fuel -> In (a, a + length t) (finditer s fuel IPV4_RX i).
Proof.
  intros Q O Hlen B A.
  assert (Ha : a <= length s) by lia.
  destruct (ipv4_engine_replaces_the_whole_token s t a Q O Ha B A) as (c0 & M).
  assert (Ht : t <> []). { destruct Q as (z1 & o1 & z2 & o2 & z3 & o3 & z4 & o4 & -> & _). destruct z1; [destruct o1|]; discriminate. }
  induction fuel as [|fuel IH]; intros i Hi Hf; [lia|]. cbn [finditer].
  destruct (search_from_finds s IPV4_RX (Rx.slen s - i) i a _ _ M Hi ltac:(unfold Rx.slen; lia)) as (p & q & cq & S & Hpa).
  rewrite S. pose proof (search_from_ge s _ _ _ _ _ _ S) as [Hip Mp].
  destruct (Nat.eq_dec p a) as [->|Hne].
  - rewrite M in Mp. injection Mp as <- <-. now left.
  - (* an earlier match: a whole token that ends before a *)
    right. assert (Hp : p <= length s) by lia.
    pose proof (match_at_in s _ _ _ _ Mp) as Hin.
    destruct (ipv4_match_is_a_whole_token s p [] q cq Hp Hin) as (F & _ & _). rewrite Forall_forall in F.
    pose proof (ms_den s _ _ _ _ _ Hin) as D. destruct (den_bounds s _ _ _ D) as [Hpq Hq]. specialize (Hq Hp).
    assert (Hlt : p < q). { destruct (ms_mono s _ _ _ _ _ Hin) as [_ Sm]. apply Sm. reflexivity. }
    assert (Hqa : q <= a).
    { destruct (Nat.le_gt_cases q a) as [|Hgt]; [assumption|exfalso].
      destruct B as [->|(H1 & x & Hx & Ex)]; [lia|].
      pose proof (F _ (in_sub s p q (a - 1) x ltac:(lia) ltac:(lia) Hq Hx)) as Nx. congruence. }
    replace (Nat.eqb p q) with false by (symmetry; apply Nat.eqb_neq; lia).
    apply IH; lia.
Qed.

Theorem ipv4_finditer_reports_only_standalone_dotted_quads (s : list chr) : forall fuel i a b, i <= length s ->
  In (a, b) (finditer s fuel IPV4_RX i) ->
  (a = 0 \/ (1 <= a /\ exists x, nth_error s (a - 1) = Some x /\ enclosing x)) /\
  (eol s b = true \/ exists x, nth_error s b = Some x /\ enclosing x) /\
  dotted_quad (sub s a b).
Proof.
  induction fuel as [|fuel IH]; intros i a b Hi H; cbn [finditer] in H; [destruct H|].
  destruct (search_from s (Rx.slen s - i) IPV4_RX i) as [[[p q] cq]|] eqn:S; [|destruct H].
  pose proof (search_from_le s _ _ _ _ _ _ S) as Hp. unfold Rx.slen in Hp.
  destruct H as [[= <- <-]|H].
  - apply (ipv4_search_finds_only_standalone_dotted_quads s (Rx.slen s - i) i p q cq); [unfold Rx.slen; lia|exact S].
  - pose proof (search_from_ge s _ _ _ _ _ _ S) as [_ Mp]. pose proof (match_at_in s _ _ _ _ Mp) as Hin.
    pose proof (ms_den s _ _ _ _ _ Hin) as D. destruct (den_bounds s _ _ _ D) as [Hpq Hq]. specialize (Hq ltac:(lia)).
    destruct (ms_mono s _ _ _ _ _ Hin) as [_ Sm]. specialize (Sm eq_refl).
    replace (Nat.eqb p q) with false in H by (symmetry; apply Nat.eqb_neq; lia).
    apply (IH q a b Hq H).
Qed.

Theorem ipv6_finditer_spans_are_delimited (s : list chr) : forall fuel i a b,
  In (a, b) (finditer s fuel IPV6_RX i) ->
  (a = 0 \/ (1 <= a /\ exists x, nth_error s (a - 1) = Some x /\ in_cset x cs9 = true)) /\
  (eol s b = true \/ exists x, nth_error s b = Some x /\ in_cset x cs9 = true).
Proof.
  induction fuel as [|fuel IH]; intros i a b H; cbn [finditer] in H; [destruct H|].
  destruct (search_from s (Rx.slen s - i) IPV6_RX i) as [[[p q] cq]|] eqn:S; [|destruct H].
  pose proof (search_from_ge s _ _ _ _ _ _ S) as [_ Mp]. pose proof (match_at_in s _ _ _ _ Mp) as Hin.
  destruct H as [[= <- <-]|H]; [exact (ipv6_match_is_delimited s p [] q cq Hin)|]. exact (IH _ a b H).
Qed.
