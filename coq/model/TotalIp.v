(* C14, address stage: anonymize_ip_line never raises on an anonymizer whose memo satisfies the invariant (every state reachable from the
   constructors), for every line of text; it re-establishes the invariant.  Needs: the parsers only return numbers of the family's width. *)
From Coq Require Import String.
From Coq Require Import List Bool Arith NArith ZArith Lia.
Import ListNotations.
Require Import Str Rx RxFacts RxSub IpText Memo MemoProofs IpModel IpModelFacts G_rx TextModel TextProofs.
Local Open Scope N_scope.

(* ---- parsers stay inside the address space ---- *)
Lemma parse_octet_bound s v : parse_octet s = Some v -> v <= 255.
Proof.
  unfold parse_octet. destruct s as [|c0 s']; [discriminate|].
  destruct (negb (forallb is_digit (c0 :: s'))); [discriminate|]. destruct (Nat.ltb 3 (length (c0 :: s'))); [discriminate|].
  destruct (negb (str_eqb (c0 :: s') [48]) && N.eqb c0 48); [discriminate|].
  destruct (parse_dec (c0 :: s')) as [w|]; [|discriminate]. destruct (255 <? w) eqn:E; [discriminate|]. intros [= <-]. apply N.ltb_ge in E. exact E.
Qed.
Lemma parse4_bound s x : parse4 s = Some x -> x < 2 ^ 32.
Proof.
  unfold parse4. destruct (existsb (N.eqb 47) s); [discriminate|]. destruct s as [|c s']; [discriminate|].
  destruct (map parse_octet (split_on 46 (c :: s'))) as [|[a|] [|[b|] [|[c1|] [|[d|] [|? ?]]]]] eqn:E; try discriminate.
  intros [= <-].
  assert (Ha : In (Some a) (map parse_octet (split_on 46 (c :: s')))) by (rewrite E; cbn; tauto).
  assert (Hb : In (Some b) (map parse_octet (split_on 46 (c :: s')))) by (rewrite E; cbn; tauto).
  assert (Hc : In (Some c1) (map parse_octet (split_on 46 (c :: s')))) by (rewrite E; cbn; tauto).
  assert (Hd : In (Some d) (map parse_octet (split_on 46 (c :: s')))) by (rewrite E; cbn; tauto).
  apply in_map_iff in Ha as (? & Ha & _), Hb as (? & Hb & _), Hc as (? & Hc & _), Hd as (? & Hd & _).
  apply parse_octet_bound in Ha, Hb, Hc, Hd. change (2 ^ 32) with 4294967296. lia.
Qed.

Lemma hex_val_bound c v : hex_val c = Some v -> v < 16.
Proof. unfold hex_val. destruct ((48 <=? c) && (c <=? 57)) eqn:E1; [intros [= <-]; lia|]. destruct ((97 <=? c) && (c <=? 102)) eqn:E2; [intros [= <-]; lia|].
  destruct ((65 <=? c) && (c <=? 70)) eqn:E3; [intros [= <-]; lia|discriminate]. Qed.
Lemma parse_hex_aux_bound : forall s acc v m, parse_hex_aux s acc = Some v -> acc < 16 ^ m -> v < 16 ^ (m + N.of_nat (length s)).
Proof.
  induction s as [|c s IH]; intros acc v m H Ha; cbn [parse_hex_aux length] in *.
  - injection H as <-. now rewrite N.add_0_r.
  - destruct (hex_val c) as [d|] eqn:Ed; [|discriminate]. apply hex_val_bound in Ed.
    replace (m + N.of_nat (S (length s))) with ((m + 1) + N.of_nat (length s)) by lia.
    apply (IH _ _ _ H). rewrite N.pow_add_r. change (16 ^ 1) with 16. lia.
Qed.
Lemma parse_hextet_bound s v : parse_hextet s = Some v -> v < 65536.
Proof.
  unfold parse_hextet. destruct s as [|c s']; [discriminate|]. destruct (Nat.ltb 4 (length (c :: s'))) eqn:E; [discriminate|]. apply Nat.ltb_ge in E.
  intros H. pose proof (parse_hex_aux_bound _ 0 v 0 H ltac:(reflexivity)) as B. eapply N.lt_le_trans; [exact B|].
  change 65536 with (16 ^ 4). apply N.pow_le_mono_r; lia.
Qed.
Lemma hextets_value_bound : forall hs acc v m, hextets_value hs acc = Some v -> acc < 65536 ^ m -> v < 65536 ^ (m + N.of_nat (length hs)).
Proof.
  induction hs as [|h hs IH]; intros acc v m H Ha; cbn [hextets_value length] in *.
  - injection H as <-. now rewrite N.add_0_r.
  - destruct (parse_hextet h) as [d|] eqn:Ed; [|discriminate]. apply parse_hextet_bound in Ed.
    replace (m + N.of_nat (S (length hs))) with ((m + 1) + N.of_nat (length hs)) by lia.
    apply (IH _ _ _ H). rewrite N.pow_add_r. change (65536 ^ 1) with 65536. lia.
Qed.
Lemma pow65536_mono a b : a <= b -> 65536 ^ a <= 65536 ^ b. Proof. intro H. apply N.pow_le_mono_r; lia. Qed.

Lemma parse6_noscope_bound s x : parse6_noscope s = Some x -> x < 2 ^ 128.
Proof.
  unfold parse6_noscope. destruct s as [|c0 s0]; [discriminate|]. set (s := c0 :: s0).
  destruct (Nat.ltb (length (split_on 58 s)) 3); [discriminate|].
  destruct (if existsb (N.eqb 46) (last (split_on 58 s) []) then _ else Some (split_on 58 s)) as [parts|]; [|discriminate].
  destruct (Nat.ltb 9 (length parts)) eqn:E9; [discriminate|].
  destruct (inner_empty_indices parts) as [|skip [|? ?]]; [| |discriminate].
  - destruct (negb (Nat.eqb (length parts) 8)) eqn:E8; [discriminate|]. apply negb_false_iff, Nat.eqb_eq in E8.
    intros H. pose proof (hextets_value_bound parts 0 x 0 H ltac:(reflexivity)) as B. rewrite E8 in B. exact B.
  - cbv zeta.
    set (fe := is_empty (hd [1] parts)). set (le := is_empty (last parts [1])).
    set (hi := if fe then (skip - 1)%nat else skip). set (lo := if le then (length parts - skip - 1 - 1)%nat else (length parts - skip - 1)%nat).
    destruct (fe && negb (Nat.eqb hi 0)); [discriminate|]. destruct (le && negb (Nat.eqb lo 0)); [discriminate|].
    destruct (Nat.ltb 7 (hi + lo)) eqn:E7; [discriminate|]. apply Nat.ltb_ge in E7.
    destruct (hextets_value (firstn hi parts) 0) as [vhi|] eqn:Ehi; [|discriminate].
    destruct (hextets_value (skipn (length parts - lo) parts) (vhi * 65536 ^ N.of_nat (8 - (hi + lo)))) as [v|] eqn:Elo; [|discriminate].
    intros [= <-].
    pose proof (hextets_value_bound _ 0 vhi 0 Ehi ltac:(reflexivity)) as Bhi. rewrite N.add_0_l in Bhi.
    assert (Bhi' : vhi < 65536 ^ N.of_nat hi).
    { eapply N.lt_le_trans; [exact Bhi|]. apply pow65536_mono. rewrite firstn_length. lia. }
    assert (Bacc : vhi * 65536 ^ N.of_nat (8 - (hi + lo)) < 65536 ^ (N.of_nat hi + N.of_nat (8 - (hi + lo)))).
    { rewrite N.pow_add_r. apply N.mul_lt_mono_pos_r; [apply N.neq_0_lt_0; apply N.pow_nonzero; discriminate|exact Bhi']. }
    pose proof (hextets_value_bound _ _ v _ Elo Bacc) as B.
    eapply N.lt_le_trans; [exact B|]. change (2 ^ 128) with (65536 ^ 8). apply pow65536_mono. rewrite skipn_length. lia.
Qed.
Lemma parse6_bound s x : parse6 s = Some x -> x < 2 ^ 128.
Proof.
  unfold parse6. destruct (existsb (N.eqb 47) s); [discriminate|]. destruct (split_on 37 s) as [|a [|sc [|? ?]]]; try discriminate.
  - apply parse6_noscope_bound.
  - destruct (is_empty sc); [discriminate|apply parse6_noscope_bound].
Qed.

(* ---- the anonymizer's memo invariant is kept by every request, and no request fails ---- *)
Definition WF (n : nat) (a : anonymizer) : Prop := a_n a = n /\ exists seeds, MemoProofs.Inv (a_H a) (a_n a) (a_B a) seeds (a_cache a).

Lemma anonymize_int_total n a x : WF n a -> x < 2 ^ N.of_nat n -> exists a' y, anonymize_int a x = Ok (a', y) /\ WF n a'.
Proof.
  intros [En (seeds & I)] Hx. unfold anonymize_int, in_range. rewrite En. replace (x <? 2 ^ N.of_nat n) with true by (symmetry; apply N.ltb_lt; exact Hx). cbn [negb].
  destruct (MemoProofs.anonymize_ok (a_H a) n (a_B a) seeds (a_cache a) (fmt_bits n x)) as (d' & E & I'); [apply bits_of_N_length|rewrite <- En; exact I|].
  rewrite E. do 2 eexists. split; [reflexivity|]. split; [exact En|]. exists seeds. cbn [with_cache a_H a_n a_B a_cache]. rewrite En. exact I'.
Qed.
Lemma deanonymize_int_total n a x : WF n a -> x < 2 ^ N.of_nat n -> exists a' y, deanonymize_int a x = Ok (a', y) /\ WF n a'.
Proof.
  intros [En (seeds & I)] Hx. unfold deanonymize_int, in_range. rewrite En. replace (x <? 2 ^ N.of_nat n) with true by (symmetry; apply N.ltb_lt; exact Hx). cbn [negb].
  destruct (MemoProofs.deanonymize_ok (a_H a) n (a_B a) seeds (a_cache a) (fmt_bits n x)) as (d' & E & I'); [apply bits_of_N_length|rewrite <- En; exact I|].
  rewrite E. do 2 eexists. split; [reflexivity|]. split; [exact En|]. exists seeds. cbn [with_cache a_H a_n a_B a_cache]. rewrite En. exact I'.
Qed.

Lemma make_addr4_bound m x : make_addr4 m = Some x -> x < 2 ^ 32.
Proof. unfold make_addr4. destruct (sub_fn m DROP_ZEROS_RX _ true) as [[[|] t]|]; try discriminate. apply parse4_bound. Qed.

Definition good (v6 : bool) (st : outcome anonymizer) : Prop := exists a, st = Done a /\ WF (if v6 then 128 else 32)%nat a.
Lemma ip_match_good v6 undo st m : good v6 st -> good v6 (fst (ip_match v6 undo st m)).
Proof.
  intros (a & -> & W). unfold ip_match.
  destruct (if v6 then parse6 m else make_addr4 m) as [x|] eqn:Ep; [|exists a; auto].
  destruct (negb (if v6 then true else should_anonymize4 a x)); [exists a; auto|].
  assert (Hx : x < 2 ^ N.of_nat (if v6 then 128 else 32)%nat).
  { destruct v6; [apply parse6_bound in Ep|apply make_addr4_bound in Ep]; exact Ep. }
  destruct undo.
  - destruct (deanonymize_int_total _ a x W Hx) as (a' & y & -> & W'). cbn [fst]. exists a'. auto.
  - destruct (anonymize_int_total _ a x W Hx) as (a' & y & -> & W'). cbn [fst]. exists a'. auto.
Qed.

Lemma sub_loop_invariant {St} (P : St -> Prop) s r (cb : St -> nat -> nat -> caps -> St * list chr) :
  (forall st a b c, P st -> P (fst (cb st a b c))) -> forall fuel st i, P st -> P (fst (sub_loop s fuel r cb st i)).
Proof.
  intros Hcb. induction fuel as [|fuel IH]; intros st i Hst; cbn [sub_loop]; [exact Hst|].
  destruct (search_from s (slen s - i) r i) as [[[a b] c]|]; [|exact Hst].
  specialize (Hcb st a b c Hst). destruct (cb st a b c) as [st1 rep]. cbn [fst] in Hcb.
  specialize (IH st1 b Hcb). destruct (sub_loop s fuel r cb st1 b) as [st2 rest]. exact IH.
Qed.

Theorem anonymize_ip_line_never_raises : forall (v6 undo : bool) (a : anonymizer) (line : str), WF (if v6 then 128 else 32)%nat a ->
  exists a' out, anonymize_ip_line v6 undo a line = Done (a', out) /\ WF (if v6 then 128 else 32)%nat a'.
Proof.
  intros v6 undo a line W. unfold anonymize_ip_line, sub_fn.
  assert (Hn : nullable (if v6 then IPV6_RX else IPV4_RX) = false).
  { pose proof generated_patterns_non_nullable as G. unfold all_sub_patterns_non_nullable in G.
    apply andb_prop in G as [G _]. apply andb_prop in G as [G _]. apply andb_prop in G as [G4 G6].
    destruct v6; [apply negb_true_iff in G6|apply negb_true_iff in G4]; assumption. }
  rewrite Hn.
  pose proof (sub_loop_invariant (good v6) line (if v6 then IPV6_RX else IPV4_RX) (fun st i j _ => ip_match v6 undo st (substr line i j))
                (fun (st : outcome anonymizer) (a0 b : nat) (c : caps) (H : good v6 st) => ip_match_good v6 undo st (substr line a0 b) H) (S (slen line)) (Done a) 0%nat (ex_intro _ a (conj eq_refl W))) as G.
  destruct (sub_loop line (S (slen line)) _ _ (Done a) 0) as [st l]. cbn [fst] in G. destruct G as (a' & -> & W'). eauto.
Qed.
Print Assumptions anonymize_ip_line_never_raises.
