(* C14, one line through the whole pipeline: process_line never raises from a well-formed FileAnonymizer state, and re-establishes it.
   The only outcomes other than a line are (a) the passlib oracle table of the case lacks an entry (ORACLE-MISS: not a behaviour of netconan) and
   (b) UnicodeEncodeError in the sensitive-word stage, which is what Python itself raises when text containing lone surrogates is hashed; on valid text
   (vtext) the word stage is total as well (TotalWords.anonymize_words_line_never_raises). *)
From Coq Require Import String.
From Coq Require Import List Bool Arith NArith ZArith Lia.
Import ListNotations.
Require Import Str Rx RxFacts RxSub IpText IpModel AsModel TextModel TextProofs TotalProofs TotalIp TotalWords TotalAs.
Local Open Scope N_scope.

Definition FWF (f : file_anonymizer) : Prop :=
  (forall lk, fa_pwd f = Some lk -> table_bytes lk) /\
  (forall a, fa_a4 f = Some a -> WF 32 a) /\ (forall a, fa_a6 f = Some a -> WF 128 a) /\
  (forall w, fa_words f = Some w -> nullable (w_regex w) = false) /\
  (forall a, fa_as f = Some a -> exists nums salt, as_init nums salt = Done a /\ nums <> []).

Definition benign (e : str) : Prop := e = lit "ORACLE-MISS" \/ e = lit "UnicodeEncodeError".
Definition okline {A} (P : A -> Prop) (o : outcome A) : Prop := match o with Done a => P a | Raised e => benign e end.
Lemma okline_bind {A B} (Q : A -> Prop) (P : B -> Prop) (m : outcome A) (f : A -> outcome B) :
  okline Q m -> (forall a, Q a -> okline P (f a)) -> okline P (obind m f).
Proof. destruct m as [a|e]; cbn; intros H1 H2; [apply H2; exact H1|exact H1]. Qed.
Lemma okres_okline {A} (P : A -> Prop) o : okres P o -> okline P o.
Proof. destruct o; cbn; [auto|]. intros ->. left. reflexivity. Qed.

Lemma word_token_outcome a w : nullable (w_regex a) = false -> okline (fun _ => True) (anonymize_word_token a w).
Proof.
  intros Hn. unfold anonymize_word_token. destruct (mem_str _ _); [exact I|]. unfold sub_fn. rewrite Hn.
  destruct (sub_loop _ _ _ _ _ _) as [[|] t]; cbn; [exact I|right; reflexivity].
Qed.
Lemma omap_outcome {A B} (f : A -> outcome B) l : (forall x, okline (fun _ => True) (f x)) -> okline (fun _ => True) (omap f l).
Proof.
  intros H. induction l as [|x l IH]; cbn [omap]; [exact I|].
  apply (okline_bind (fun _ => True)); [apply H|]. intros y _. apply (okline_bind (fun _ => True)); [exact IH|]. intros; exact I.
Qed.
Lemma words_line_outcome a line : nullable (w_regex a) = false -> okline (fun _ => True) (anonymize_words_line a line).
Proof.
  intros Hn. unfold anonymize_words_line. destruct (search line (w_regex a)); [|exact I]. unfold split_line. cbv zeta.
  apply (okline_bind (fun _ => True)); [apply omap_outcome; intro; apply word_token_outcome; exact Hn|]. intros; exact I.
Qed.

Theorem process_line_never_raises : forall orc f line, table_bytes orc -> FWF f ->
  okline (fun r => FWF (fst r)) (process_line orc f line).
Proof.
  intros orc f line Ho (Wp & W4 & W6 & Ww & Wa). unfold process_line.
  (* secrets *)
  apply (okline_bind (fun s1 : option lookup_t * str => forall lk, fst s1 = Some lk -> table_bytes lk)).
  { destruct (fa_pwd f) as [lk|] eqn:Ep; [|cbn; intros lk0 H; discriminate].
    apply (okline_bind (fun r => table_bytes (snd r))); [apply okres_okline; apply replace_matching_item_never_raises; [exact Ho|exact (Wp lk eq_refl)]|].
    intros [l lk'] Hlk. cbn. intros lk0 [= <-]. exact Hlk. }
  intros [pwd' l1] Hp.
  (* IPv6 *)
  apply (okline_bind (fun s2 : option anonymizer * str => forall a, fst s2 = Some a -> WF 128 a)).
  { destruct (fa_a6 f) as [a|] eqn:E6; [|cbn; intros a0 H; discriminate].
    destruct (anonymize_ip_line_never_raises true (fa_undo f) a l1 (W6 a eq_refl)) as (a' & out & -> & W'). cbn. intros a0 [= <-]. exact W'. }
  intros [a6' l2] H6.
  (* IPv4 *)
  apply (okline_bind (fun s3 : option anonymizer * str => forall a, fst s3 = Some a -> WF 32 a)).
  { destruct (fa_a4 f) as [a|] eqn:E4; [|cbn; intros a0 H; discriminate].
    destruct (anonymize_ip_line_never_raises false (fa_undo f) a l2 (W4 a eq_refl)) as (a' & out & -> & W'). cbn. intros a0 [= <-]. exact W'. }
  intros [a4' l3] H4.
  (* words *)
  apply (okline_bind (fun _ : str => True)).
  { destruct (fa_words f) as [w|] eqn:Ew; [apply words_line_outcome; exact (Ww w eq_refl)|exact I]. }
  intros l4 _.
  (* AS numbers *)
  apply (okline_bind (fun _ : str => True)).
  { destruct (fa_as f) as [a|] eqn:Ea; [|exact I]. destruct (Wa a eq_refl) as (nums & salt & Hi & Hne).
    destruct (anonymize_as_line_never_raises nums salt a l4 Hi Hne) as (out & ->). exact I. }
  intros l5 _. cbn [okline fst]. unfold FWF, with_state. cbn [fa_pwd fa_a4 fa_a6 fa_words fa_as]. cbn [fst] in Hp, H6, H4. split; [exact Hp|]. split; [exact H4|]. split; [exact H6|]. split; [exact Ww|exact Wa].
Qed.

(* every text: anonymize_io over any number of lines *)
Theorem anonymize_io_never_raises : forall orc lines f, table_bytes orc -> FWF f -> okline (fun r => FWF (fst r)) (anonymize_io orc f lines).
Proof.
  intros orc. induction lines as [|l lines IH]; intros f Ho W; cbn [anonymize_io]; [exact W|].
  apply (okline_bind (fun r => FWF (fst r))); [apply process_line_never_raises; assumption|]. intros [f1 o1] W1.
  apply (okline_bind (fun r => FWF (fst r))); [apply IH; assumption|]. intros [f2 o2] W2. exact W2.
Qed.
Print Assumptions process_line_never_raises.
Print Assumptions anonymize_io_never_raises.

(* the state FileAnonymizer.__init__ builds is well formed (word and AS-number lists, when given, non-empty: the model's domain) *)
Require Import Memo MemoProofs SortProofs.
Lemma ip4_init_WF H B prefixes addresses a : ip4_init H B prefixes addresses = Ok a -> WF 32 a.
Proof.
  unfold ip4_init. destruct (Memo.seed_all _ _) as [d|] eqn:E; [|discriminate]. intros [= <-]. split; [reflexivity|].
  exists (map (prefix_bits 32) (prefixes ++ addresses)). cbn [a_H a_n a_B a_cache].
  destruct (MemoProofs.init_ok H 32 B (map (prefix_bits 32) (prefixes ++ addresses))) as (d0 & E0 & I0).
  unfold Memo.init in E0. rewrite E in E0. injection E0 as <-. exact I0.
Qed.
Lemma ip6_init_WF H B : WF 128 (ip6_init H B).
Proof.
  split; [reflexivity|]. exists []. cbn [ip6_init base_init a_H a_n a_B a_cache].
  destruct (MemoProofs.init_ok H 128 B []) as (d0 & E0 & I0). cbn in E0. injection E0 as <-. exact I0.
Qed.

Lemma word_init_nonnullable words salt reserved w : words <> [] -> word_init words salt reserved = Done w -> nullable (w_regex w) = false.
Proof.
  intros Hne. unfold word_init. destruct (negb (forallb word_safe words)) eqn:Es; [discriminate|]. apply negb_false_iff in Es. intros [= <-]. cbn [w_regex nullable].
  destruct (sort_words_spec (map lower_str words)) as [_ Hin].
  apply nullable_alt_icase.
  - destruct words as [|w0 ws]; [contradiction|]. intro E. assert (H : In (lower_str w0) (sort_words (map lower_str (w0 :: ws)))) by (apply Hin; left; reflexivity).
    rewrite E in H. exact H.
  - apply Forall_forall. intros x Hx. apply Hin in Hx. apply in_map_iff in Hx as (w1 & <- & Hw1). rewrite forallb_forall in Es. specialize (Es w1 Hw1).
    unfold word_safe in Es. apply andb_prop in Es as [Es _]. destruct w1; [discriminate|]. unfold lower_str. discriminate.
Qed.

Theorem fa_init_well_formed : forall o f, fa_init o = Done f -> o_words o <> Some [] -> o_asnums o <> Some [] -> FWF f.
Proof.
  intros o f. unfold fa_init. intros H Hw Ha.
  destruct (match o_words o with Some ws => _ | None => Done None end) as [wa|] eqn:Ewa; [|discriminate]. cbn [obind] in H.
  destruct (if o_ip o || o_undo o then _ else Done (None, None)) as [a46|] eqn:E46; [|discriminate]. cbn [obind] in H.
  destruct (match o_asnums o with Some ns => _ | None => Done None end) as [asa|] eqn:Easa; [|discriminate]. cbn [obind] in H.
  destruct (utf8 (o_salt o)); [|discriminate]. injection H as <-. unfold FWF. cbn [fa_pwd fa_a4 fa_a6 fa_words fa_as].
  split; [|split; [|split; [|split]]].
  - intros lk. destruct (o_pwd o); [intros [= <-]; constructor|discriminate].
  - intros a Hs. destruct (o_ip o || o_undo o); [|injection E46 as <-; discriminate].
    destruct (ip4_init _ _ _ _) as [a4|] eqn:E4; [|discriminate]. injection E46 as <-. cbn [fst] in Hs. injection Hs as <-. exact (ip4_init_WF _ _ _ _ _ E4).
  - intros a Hs. destruct (o_ip o || o_undo o); [|injection E46 as <-; discriminate].
    destruct (ip4_init _ _ _ _) as [a4|] eqn:E4; [|discriminate]. injection E46 as <-. cbn [snd] in Hs. injection Hs as <-. apply ip6_init_WF.
  - intros w ->. destruct (o_words o) as [ws|]; [|discriminate].
    destruct (word_init ws (o_salt o) _) as [x|] eqn:Ei; [|discriminate]. cbn [obind] in Ewa. injection Ewa as <-.
    eapply word_init_nonnullable; [|exact Ei]. intro E. apply Hw. now rewrite E.
  - intros a ->. destruct (o_asnums o) as [ns|]; [|discriminate].
    destruct (as_init ns (o_salt o)) as [x|] eqn:Ei; [|discriminate]. cbn [obind] in Easa. injection Easa as <-.
    exists ns, (o_salt o). split; [exact Ei|]. intro E. apply Ha. now rewrite E.
Qed.

(* together: a FileAnonymizer built by the constructor processes ANY text without raising (up to the two benign outcomes named above) *)
Corollary constructed_anonymizer_processes_every_text : forall orc o f lines, table_bytes orc ->
  fa_init o = Done f -> o_words o <> Some [] -> o_asnums o <> Some [] ->
  okline (fun r => FWF (fst r)) (anonymize_io orc f lines).
Proof. intros orc o f lines Ho Hi Hw Ha. apply anonymize_io_never_raises; [exact Ho|]. exact (fa_init_well_formed o f Hi Hw Ha). Qed.
Print Assumptions constructed_anonymizer_processes_every_text.
