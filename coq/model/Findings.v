(* Statements of the listed properties that are FALSE of the faithful model, each with a concrete witness evaluated by the kernel
   (vm_compute).  The same witness, replayed on the implementation by the check of the property, is the known finding. *)
From Coq Require Import String.
From Coq Require Import List Bool Arith NArith ZArith.
Import ListNotations.
Require Import Str Rx RxFacts RxSub JunModel TextModel G_rx G_text_consts.
Local Open Scope N_scope.

Definition is_done_with {A} (o : outcome A) (P : A -> bool) : bool := match o with Done a => P a | _ => false end.
Definition jun_of (plain salt : str) : str := match JunModel.encrypt plain salt with JOk c => c | _ => [] end.

(* D18 (C09): "all-digit stays all-digit" fails for the history  $9$-encryption of 1234, then the clear text 1234:
   the second value is found in the lookup under the decrypted plaintext of the first and receives the TEXT pseudonym stored there *)
Definition d18_run (clear salt : str) : outcome (str * str) :=
  x <- anonymize_value [] (jun_of clear salt) [] [] salt ;;
  y <- anonymize_value [] clear (snd x) [] salt ;;
  Done (fst x, fst y).
Theorem numeric_after_its_juniper_encryption_refuted :
  exists clear salt r9 r, check_format clear = F_NUMERIC /\ d18_run clear salt = Done (r9, r) /\ check_format r <> F_NUMERIC.
Proof.
  exists (lit "1234"), (lit "s"). 
  destruct (d18_run (lit "1234") (lit "s")) as [[r9 r]|e] eqn:E; vm_compute in E; [|discriminate].
  exists r9, r. injection E as <- <-. split; [vm_compute; reflexivity|]. split; [reflexivity|]. vm_compute. discriminate.
Qed.
(* the same history in the other order keeps the format: clear text first, then its encryption *)
Example clear_then_juniper_keeps_formats :
  is_done_with (x <- anonymize_value [] (lit "1234") [] [] (lit "s") ;;
                y <- anonymize_value [] (jun_of (lit "1234") (lit "s")) (snd x) [] (lit "s") ;; Done (fst x, fst y))
               (fun p => (check_format (fst p) =? F_NUMERIC) && (check_format (snd p) =? F_JUNIPER)) = true.
Proof. vm_compute. reflexivity. Qed.
Print Assumptions numeric_after_its_juniper_encryption_refuted.

(* ---------------------------------------------------------------- the other listed findings, on the faithful model *)
Definition rmi (line : str) : outcome (str * lookup_t) := replace_matching_item [] RESERVED_WORDS (lit "s") line [].

(* D11 (C07): an all-digit password followed by another word is left in place (it is taken for the optional level number and
   the word after it is replaced instead) *)
Theorem numeric_password_followed_by_a_word_survives_refuted :
  exists out lk, rmi (lit "password 12345 foo") = Done (out, lk) /\ out = lit "password 12345 netconanRemoved0".
Proof. eexists. eexists. split; [vm_compute; reflexivity|reflexivity]. Qed.

(* D12 (C07): a $1$ hash after 'enable secret level 15 5' survives: the earlier pattern captured the reserved word 'level' *)
Theorem hash_after_reserved_word_capture_survives_refuted :
  exists line, rmi line = Done (line, []) /\ line = lit "enable secret level 15 5 $1$abcd$0rN7R8PKwC30AsCGA77vy.".
Proof. exists (lit "enable secret level 15 5 $1$abcd$0rN7R8PKwC30AsCGA77vy."). split; [vm_compute|]; reflexivity. Qed.

(* D13 (C08): two different secrets matched by ONE pattern on one line receive the same replacement (and 'level 3' is dropped) *)
Theorem two_matches_of_one_pattern_get_one_replacement_refuted :
  exists out lk, rmi (lit "password foo1 then password level 3 bar2") = Done (out, lk) /\
                 out = lit "password netconanRemoved0 then password netconanRemoved0".
Proof. eexists. eexists. split; [vm_compute; reflexivity|reflexivity]. Qed.
Print Assumptions numeric_password_followed_by_a_word_survives_refuted.
Print Assumptions hash_after_reserved_word_capture_survives_refuted.
Print Assumptions two_matches_of_one_pattern_get_one_replacement_refuted.

(* D19 (C07): two community commands on one line: only the last community string is replaced *)
Theorem first_of_two_communities_survives_refuted :
  exists out lk, rmi (lit "snmp-server community FIRSTsecret RO ; snmp-server community SECONDsecret RW") = Done (out, lk) /\
                 out = lit "snmp-server community FIRSTsecret RO ; snmp-server community netconanRemoved0 RW".
Proof. eexists. eexists. split; [vm_compute; reflexivity|reflexivity]. Qed.
Print Assumptions first_of_two_communities_survives_refuted.
