(* What the AS-number pattern can match (the model's as_rx: the template of AsNumberAnonymizer._generate_as_number_regex around the listed numerals),
   through the declarative reading of the regex engine (lib/RxDen.v, lib/RxLang.v): for EVERY list of numerals, every line and every position, a span
   the engine reports holds exactly one of the listed numerals, starts at the line start or after a non-digit, and ends at the line end or before a
   non-digit.  So a listed number is only ever replaced as a whole number, never inside a longer run of digits. *)
From Coq Require Import List Arith NArith Bool Lia.
Import ListNotations.
Require Import Str Rx RxFacts RxComplete RxDen RxLang TextModel.

Lemma lang_lit (n t : list chr) : lang (lit_rx n) t -> t = n.
Proof.
  revert t. induction n as [|c n IH]; intros t H; cbn [lit_rx fold_right] in H.
  - now inversion H.
  - inversion H as [| |a b t1 t2 H1 H2| | | |]; subst. inversion H1 as [|cs x Hx| | | | |]; subst. fold (lit_rx n) in H2. rewrite (IH _ H2).
    cbn [in_cset existsb fst snd xorb] in Hx. rewrite orb_false_r in Hx. destruct (N.leb_spec c x), (N.leb_spec x c); cbn [andb] in Hx; try discriminate.
    assert (x = c) by lia. now subst.
Qed.
Lemma pure_lit n : pure (lit_rx n) = true.
Proof. induction n as [|c n IH]; cbn [lit_rx fold_right pure]; [reflexivity|]. fold (lit_rx n). now rewrite IH. Qed.
Lemma lang_alt_of (nums : list (list chr)) t : nums <> [] -> lang (alt_of (map lit_rx nums)) t -> In t nums.
Proof.
  induction nums as [|n [|m nums] IH]; intros Hne H; [contradiction| |].
  - cbn [map alt_of] in H. left. symmetry. now apply lang_lit.
  - cbn [map alt_of] in H. inversion H; subst.
    + left. symmetry. now apply lang_lit.
    + right. apply IH; [discriminate|assumption].
Qed.
Lemma pure_alt_of (nums : list (list chr)) : pure (alt_of (map lit_rx nums)) = true.
Proof. induction nums as [|n [|m nums] IH]; cbn [map alt_of pure]; [reflexivity|apply pure_lit|]. rewrite pure_lit. exact IH. Qed.

Theorem as_match_is_a_listed_whole_number (s : list chr) (nums : list (list chr)) i c j c' : nums <> [] -> i <= length s ->
  In (j, c') (ms s (as_rx nums) i c) ->
  In (sub s i j) nums /\
  (i = 0 \/ (1 <= i /\ exists x, nth_error s (i - 1) = Some x /\ in_cset x NOT_DIGIT = true)) /\
  (eol s j = true \/ exists x, nth_error s j = Some x /\ in_cset x NOT_DIGIT = true).
Proof.
  intros Hne Hi H. apply ms_den in H. unfold as_rx in H.
  inversion H as [| |a b i0 j1 k D1 D2| | | | | | | | | |]; subst; clear H.
  inversion D2 as [| |a b i0 j2 k D3 D4| | | | | | | | | |]; subst; clear D2.
  assert (j1 = i). { inversion D1; subst; match goal with D : den _ (Look _ _ _ _) _ _ |- _ => inversion D; subst end; reflexivity. } subst j1.
  assert (j2 = j). { inversion D4; subst; reflexivity. } subst j2.
  split; [|split].
  - inversion D3; subst. apply lang_alt_of; [exact Hne|]. apply den_lang; [assumption|apply pure_alt_of|exact Hi].
  - inversion D1; subst.
    + right. match goal with D : den _ (Look false false 1 _) _ _ |- _ => inversion D; subst end. split; [assumption|].
      match goal with D : den _ (Chr NOT_DIGIT) _ _ |- _ => inversion D; subst end. eexists. split; [eassumption|assumption].
    + left. match goal with D : den _ (Look false false 0 Bol) _ _ |- _ => inversion D; subst end.
      match goal with D : den _ Bol _ _ |- _ => inversion D; subst end. lia.
  - inversion D4; subst. match goal with D : den _ (Alt _ _) _ _ |- _ => inversion D; subst end.
    + right. match goal with D : den _ (Chr NOT_DIGIT) _ _ |- _ => inversion D; subst end. eexists. split; [eassumption|assumption].
    + left. match goal with D : den _ Eol _ _ |- _ => inversion D; subst end. assumption.
Qed.

(* ======== the other half: a listed numeral standing as a whole number IS matched, as a whole ======== *)
Require Ipv4Token TextProofs.
Lemma lang_lit_self (n : list chr) : lang (lit_rx n) n.
Proof.
  induction n as [|c n IH]; cbn [lit_rx fold_right]; [constructor|]. fold (lit_rx n). change (c :: n) with ([c] ++ n). constructor; [|exact IH].
  constructor. cbn [in_cset existsb fst snd xorb]. rewrite orb_false_r, N.leb_refl. reflexivity.
Qed.
Lemma lang_alt_in (nums : list (list chr)) n : In n nums -> lang (alt_of (map lit_rx nums)) n.
Proof.
  induction nums as [|m [|m2 nums] IH]; intro H; [destruct H| |].
  - destruct H as [<-|[]]. cbn [map alt_of]. apply lang_lit_self.
  - cbn [map alt_of]. destruct H as [<-|H]; [apply LAltL, lang_lit_self|apply LAltR, IH, H].
Qed.
Lemma wfr_lit n : wfr (lit_rx n) = true.
Proof. induction n as [|c n IH]; cbn [lit_rx fold_right wfr]; [reflexivity|]. fold (lit_rx n). exact IH. Qed.
Lemma wfr_alt_of (nums : list (list chr)) : wfr (alt_of (map lit_rx nums)) = true.
Proof. induction nums as [|n [|m nums] IH]; cbn [map alt_of wfr]; [reflexivity|apply wfr_lit|]. rewrite wfr_lit. exact IH. Qed.

Lemma ms_LA_nd (s : list chr) j c : (eol s j = true \/ exists x, nth_error s j = Some x /\ in_cset x NOT_DIGIT = true) ->
  In (j, c) (ms s (Look true false 0 (Alt (Chr NOT_DIGIT) Eol)) j c).
Proof.
  intro H. cbn [ms].
  assert (E : existsb (fun _ : nat * caps => true) ((match nth_error s j with Some x => if in_cset x NOT_DIGIT then [(S j, c)] else [] | None => [] end) ++ (if eol s j then [(j, c)] else [])) = true).
  { destruct H as [H|(x & Hx & Ex)]; [rewrite H; rewrite existsb_app; cbn [existsb]; now rewrite orb_true_r|rewrite Hx, Ex; reflexivity]. }
  rewrite E. now left.
Qed.

Theorem as_token_is_matched (s : list chr) (nums : list (list chr)) (n : list chr) i c :
  In n nums -> occ s n i ->
  (i = 0 \/ (1 <= i /\ exists x, nth_error s (i - 1) = Some x /\ in_cset x NOT_DIGIT = true)) ->
  (eol s (i + length n) = true \/ exists x, nth_error s (i + length n) = Some x /\ in_cset x NOT_DIGIT = true) ->
  exists c', In (i + length n, c') (ms s (as_rx nums) i c).
Proof.
  intros Hin O B A. unfold as_rx.
  destruct (lang_ms s _ (pure_alt_of nums) (wfr_alt_of nums) n i c (lang_alt_in nums n Hin) O) as (c1 & H1).
  eexists. cbn [ms]. apply in_flat_map. exists (i, c). split.
  - apply in_or_app. destruct B as [->|(Hi & x & Hx & Ex)].
    + right. cbn [Nat.leb Nat.sub Nat.eqb existsb fst xorb orb]. now left.
    + left. replace (Nat.leb 1 i) with true by (symmetry; apply Nat.leb_le; exact Hi). rewrite Hx, Ex. cbn [existsb fst orb xorb].
      replace (Nat.eqb (S (i - 1)) i) with true by (symmetry; apply Nat.eqb_eq; lia). now left.
  - cbn [fst snd]. apply in_flat_map. eexists (i + length n, _). split.
    + apply in_map_iff. exists (i + length n, c1). split; [reflexivity|exact H1].
    + cbn [fst snd]. apply ms_LA_nd. exact A.
Qed.

(* ASCII digits are not \D *)
Lemma digit_is_not_nondigit x : is_digit x = true -> in_cset x NOT_DIGIT = false.
Proof.
  unfold is_digit. intro H. apply andb_true_iff in H as [H1 H2]. apply N.leb_le in H1, H2.
  assert (Hx : In x [48;49;50;51;52;53;54;55;56;57]%N).
  { assert (E : (x = 48 \/ x = 49 \/ x = 50 \/ x = 51 \/ x = 52 \/ x = 53 \/ x = 54 \/ x = 55 \/ x = 56 \/ x = 57)%N) by lia. cbn [In]. intuition. }
  cbn [In] in Hx. repeat (destruct Hx as [<-|Hx]; [vm_compute; reflexivity|]). destruct Hx.
Qed.
Lemma nl_is_nondigit : in_cset 10%N NOT_DIGIT = true. Proof. vm_compute. reflexivity. Qed.

Theorem as_match_at_a_listed_number_covers_exactly_it (s : list chr) (nums : list (list chr)) (n : list chr) i c :
  nums <> [] -> Forall (fun m => forallb is_digit m = true) nums -> In n nums -> occ s n i -> i <= length s ->
  (eol s (i + length n) = true \/ exists x, nth_error s (i + length n) = Some x /\ in_cset x NOT_DIGIT = true) ->
  forall j c', In (j, c') (ms s (as_rx nums) i c) -> j = i + length n.
Proof.
  intros Hne Hd Hin O Hi A j c' H.
  pose proof (ms_den s _ _ _ _ _ H) as D. destruct (den_bounds s _ _ _ D) as [Hij Hj]. specialize (Hj Hi).
  destruct (as_match_is_a_listed_whole_number s nums i c j c' Hne Hi H) as (M & _ & R).
  rewrite Forall_forall in Hd. pose proof (Hd _ M) as Dm. pose proof (Hd _ Hin) as Dn. rewrite forallb_forall in Dm, Dn.
  destruct (Nat.lt_trichotomy j (i + length n)) as [Hlt|[->|Hgt]]; [exfalso|reflexivity|exfalso].
  - destruct (nth_error n (j - i)) as [x|] eqn:Ex; [|apply nth_error_None in Ex; lia].
    pose proof (O _ _ Ex) as Sx. replace (i + (j - i)) with j in Sx by lia.
    pose proof (digit_is_not_nondigit x (Dn x (nth_error_In _ _ Ex))) as Nx.
    destruct R as [R|(y & Hy & Ey)]; [|congruence].
    unfold eol, Rx.slen in R. apply orb_true_iff in R as [R|R]; [apply Nat.eqb_eq in R; assert (j < length s) by (apply nth_error_Some; congruence); lia|].
    apply andb_true_iff in R as [_ R]. rewrite Sx in R.
    assert (x = 10%N) by (destruct x as [|p]; [discriminate|]; destruct p as [p|p|]; try discriminate; destruct p as [p|p|]; try discriminate;
                          destruct p as [p|p|]; try discriminate; destruct p as [p|p|]; try discriminate; reflexivity). subst x.
    rewrite nl_is_nondigit in Nx. discriminate.
  - destruct A as [A|(y & Hy & Ey)].
    + unfold eol, Rx.slen in A. apply orb_true_iff in A as [A|A]; [apply Nat.eqb_eq in A; lia|]. apply andb_true_iff in A as [A1 A2]. apply Nat.eqb_eq in A1.
      destruct (nth_error s (i + length n)) as [y|] eqn:Hy; [|discriminate].
      assert (y = 10%N) by (destruct y as [|p]; [discriminate|]; destruct p as [p|p|]; try discriminate; destruct p as [p|p|]; try discriminate;
                            destruct p as [p|p|]; try discriminate; destruct p as [p|p|]; try discriminate; reflexivity). subst y.
      pose proof (Dm _ (Ipv4Token.in_sub s i j (i + length n) 10%N ltac:(lia) Hgt Hj Hy)) as N10. discriminate.
    + pose proof (digit_is_not_nondigit y (Dm _ (Ipv4Token.in_sub s i j (i + length n) y ltac:(lia) Hgt Hj Hy))) as Ny. congruence.
Qed.

Theorem as_engine_replaces_the_whole_number (s : list chr) (nums : list (list chr)) (n : list chr) i :
  Forall (fun m => forallb is_digit m = true) nums -> In n nums -> occ s n i -> i <= length s ->
  (i = 0 \/ (1 <= i /\ exists x, nth_error s (i - 1) = Some x /\ in_cset x NOT_DIGIT = true)) ->
  (eol s (i + length n) = true \/ exists x, nth_error s (i + length n) = Some x /\ in_cset x NOT_DIGIT = true) ->
  exists c', match_at s (as_rx nums) i = Some (i + length n, c').
Proof.
  intros Hd Hin O Hi B A. destruct (as_token_is_matched s nums n i [] Hin O B A) as (c1 & H1).
  assert (Hne : nums <> []) by (intros ->; destruct Hin).
  unfold match_at. rewrite m_is_first_of_ms.
  destruct (ms s (as_rx nums) i []) as [|[j cj] l] eqn:E; [destruct H1|]. cbn [first_some].
  assert (j = i + length n) by (apply (as_match_at_a_listed_number_covers_exactly_it s nums n i [] Hne Hd Hin O Hi A j cj); rewrite E; now left).
  subst j. now exists cj.
Qed.

(* ======== over a whole line: finditer reports every listed whole number, with its exact extent, and nothing else ======== *)
Theorem as_finditer_reports_every_listed_whole_number (s : list chr) (nums : list (list chr)) (n : list chr) a :
  Forall (fun m => forallb is_digit m = true) nums -> Forall (fun m => m <> []) nums -> In n nums -> occ s n a -> a + length n <= length s ->
  (a = 0 \/ (1 <= a /\ exists x, nth_error s (a - 1) = Some x /\ in_cset x NOT_DIGIT = true)) ->
  (eol s (a + length n) = true \/ exists x, nth_error s (a + length n) = Some x /\ in_cset x NOT_DIGIT = true) ->
  forall fuel i, i <= a -> a - i < fuel -> In (a, a + length n) (finditer s fuel (as_rx nums) i).
Proof.
  intros Hd Hnn Hin O Hlen B A.
  assert (Ha : a <= length s) by lia.
  assert (Hne : nums <> []) by (intros ->; destruct Hin).
  destruct (as_engine_replaces_the_whole_number s nums n a Hd Hin O Ha B A) as (c0 & M).
  assert (Hnull : nullable (as_rx nums) = false) by (apply TextProofs.as_regex_non_nullable; assumption).
  induction fuel as [|fuel IH]; intros i Hi Hf; [lia|]. cbn [finditer].
  destruct (Ipv4Token.search_from_finds s (as_rx nums) (Rx.slen s - i) i a _ _ M Hi ltac:(unfold Rx.slen; lia)) as (p & q & cq & S & Hpa).
  rewrite S. pose proof (search_from_ge s _ _ _ _ _ _ S) as [Hip Mp].
  destruct (Nat.eq_dec p a) as [->|Hnpa].
  - rewrite M in Mp. injection Mp as <- <-. now left.
  - right. assert (Hp : p <= length s) by lia.
    pose proof (match_at_in s _ _ _ _ Mp) as Hm.
    destruct (as_match_is_a_listed_whole_number s nums p [] q cq Hne Hp Hm) as (Mq & _ & _).
    pose proof (ms_den s _ _ _ _ _ Hm) as D. destruct (den_bounds s _ _ _ D) as [Hpq Hq]. specialize (Hq Hp).
    assert (Hlt : p < q). { destruct (ms_mono s _ _ _ _ _ Hm) as [_ Sm]. now apply Sm. }
    assert (Hqa : q <= a).
    { destruct (Nat.le_gt_cases q a) as [|Hgt]; [assumption|exfalso].
      destruct B as [->|(H1 & x & Hx & Ex)]; [lia|].
      rewrite Forall_forall in Hd. pose proof (Hd _ Mq) as Dq. rewrite forallb_forall in Dq.
      pose proof (digit_is_not_nondigit x (Dq _ (Ipv4Token.in_sub s p q (a - 1) x ltac:(lia) ltac:(lia) Hq Hx))) as Nx. congruence. }
    replace (Nat.eqb p q) with false by (symmetry; apply Nat.eqb_neq; lia).
    apply IH; lia.
Qed.

Theorem as_finditer_reports_only_listed_whole_numbers (s : list chr) (nums : list (list chr)) : nums <> [] -> Forall (fun m => m <> []) nums ->
  forall fuel i a b, i <= length s -> In (a, b) (finditer s fuel (as_rx nums) i) ->
  In (sub s a b) nums /\
  (a = 0 \/ (1 <= a /\ exists x, nth_error s (a - 1) = Some x /\ in_cset x NOT_DIGIT = true)) /\
  (eol s b = true \/ exists x, nth_error s b = Some x /\ in_cset x NOT_DIGIT = true).
Proof.
  intros Hne Hnn. assert (Hnull : nullable (as_rx nums) = false) by (apply TextProofs.as_regex_non_nullable; assumption).
  induction fuel as [|fuel IH]; intros i a b Hi H; cbn [finditer] in H; [destruct H|].
  destruct (search_from s (Rx.slen s - i) (as_rx nums) i) as [[[p q] cq]|] eqn:S; [|destruct H].
  pose proof (Ipv4Token.search_from_le s _ _ _ _ _ _ S) as Hp. unfold Rx.slen in Hp.
  pose proof (search_from_ge s _ _ _ _ _ _ S) as [_ Mp]. pose proof (match_at_in s _ _ _ _ Mp) as Hm.
  destruct H as [[= <- <-]|H].
  - apply (as_match_is_a_listed_whole_number s nums p [] q cq Hne ltac:(lia) Hm).
  - pose proof (ms_den s _ _ _ _ _ Hm) as D. destruct (den_bounds s _ _ _ D) as [Hpq Hq]. specialize (Hq ltac:(lia)).
    destruct (ms_mono s _ _ _ _ _ Hm) as [_ Sm]. specialize (Sm Hnull).
    replace (Nat.eqb p q) with false in H by (symmetry; apply Nat.eqb_neq; lia).
    apply (IH q a b Hq H).
Qed.

(* ======== the model's template against what CPython's parser makes of the pattern text the source builds, on a sample list ======== *)
Require RxNorm G_rx.
From Coq Require Import String.
Local Open Scope string_scope.
Definition AS_SAMPLE : list (list chr) := [lit "12"; lit "345"; lit "12345"].
Theorem as_template_is_what_python_compiles_on_a_sample (s : list chr) i c :
  ms s (as_rx AS_SAMPLE) i c = ms s G_rx.AS_SAMPLE_RX i c.
Proof.
  assert (E : RxNorm.norm (as_rx AS_SAMPLE) = RxNorm.norm G_rx.AS_SAMPLE_RX) by (vm_compute; reflexivity).
  transitivity (ms s (RxNorm.norm (as_rx AS_SAMPLE)) i c); [symmetry; apply RxNorm.ms_norm|]. rewrite E. apply RxNorm.ms_norm.
Qed.
