(* What the AS-number pattern can match (the model's as_rx: the template of AsNumberAnonymizer._generate_as_number_regex around the listed numerals),
   through the declarative reading of the regex engine (lib/RxDen.v, lib/RxLang.v): for EVERY list of numerals, every line and every position, a span
   the engine reports holds exactly one of the listed numerals, starts at the line start or after a non-digit, and ends at the line end or before a
   non-digit.  So a listed number is only ever replaced as a whole number, never inside a longer run of digits. *)
From Coq Require Import List Arith NArith Bool Lia.
Import ListNotations.
Require Import Str Rx RxFacts RxComplete RxDen RxLang TextModel.

Lemma lang_lit (n t : list chr) : lang (lit_rx n) t -> t = n.
Proof.
  revert t. induction n as [|c n IH]; intros t H; cbn [lit_rx fold_right] in H.
  - now inversion H.
  - inversion H as [| |a b t1 t2 H1 H2| | | |]; subst. inversion H1 as [|cs x Hx| | | | |]; subst. fold (lit_rx n) in H2. rewrite (IH _ H2).
    cbn [in_cset existsb fst snd xorb] in Hx. rewrite orb_false_r in Hx. destruct (N.leb_spec c x), (N.leb_spec x c); cbn [andb] in Hx; try discriminate.
    assert (x = c) by lia. now subst.
Qed.
Lemma pure_lit n : pure (lit_rx n) = true.
Proof. induction n as [|c n IH]; cbn [lit_rx fold_right pure]; [reflexivity|]. fold (lit_rx n). now rewrite IH. Qed.
Lemma lang_alt_of (nums : list (list chr)) t : nums <> [] -> lang (alt_of (map lit_rx nums)) t -> In t nums.
Proof.
  induction nums as [|n [|m nums] IH]; intros Hne H; [contradiction| |].
  - cbn [map alt_of] in H. left. symmetry. now apply lang_lit.
  - cbn [map alt_of] in H. inversion H; subst.
    + left. symmetry. now apply lang_lit.
    + right. apply IH; [discriminate|assumption].
Qed.
Lemma pure_alt_of (nums : list (list chr)) : pure (alt_of (map lit_rx nums)) = true.
Proof. induction nums as [|n [|m nums] IH]; cbn [map alt_of pure]; [reflexivity|apply pure_lit|]. rewrite pure_lit. exact IH. Qed.

Theorem as_match_is_a_listed_whole_number (s : list chr) (nums : list (list chr)) i c j c' : nums <> [] -> i <= length s ->
  In (j, c') (ms s (as_rx nums) i c) ->
  In (sub s i j) nums /\
  (i = 0 \/ (1 <= i /\ exists x, nth_error s (i - 1) = Some x /\ in_cset x NOT_DIGIT = true)) /\
  (eol s j = true \/ exists x, nth_error s j = Some x /\ in_cset x NOT_DIGIT = true).
Proof.
  intros Hne Hi H. apply ms_den in H. unfold as_rx in H.
  inversion H as [| |a b i0 j1 k D1 D2| | | | | | | | | |]; subst; clear H.
  inversion D2 as [| |a b i0 j2 k D3 D4| | | | | | | | | |]; subst; clear D2.
  assert (j1 = i). { inversion D1; subst; match goal with D : den _ (Look _ _ _ _) _ _ |- _ => inversion D; subst end; reflexivity. } subst j1.
  assert (j2 = j). { inversion D4; subst; reflexivity. } subst j2.
  split; [|split].
  - inversion D3; subst. apply lang_alt_of; [exact Hne|]. apply den_lang; [assumption|apply pure_alt_of|exact Hi].
  - inversion D1; subst.
    + right. match goal with D : den _ (Look false false 1 _) _ _ |- _ => inversion D; subst end. split; [assumption|].
      match goal with D : den _ (Chr NOT_DIGIT) _ _ |- _ => inversion D; subst end. eexists. split; [eassumption|assumption].
    + left. match goal with D : den _ (Look false false 0 Bol) _ _ |- _ => inversion D; subst end.
      match goal with D : den _ Bol _ _ |- _ => inversion D; subst end. lia.
  - inversion D4; subst. match goal with D : den _ (Alt _ _) _ _ |- _ => inversion D; subst end.
    + right. match goal with D : den _ (Chr NOT_DIGIT) _ _ |- _ => inversion D; subst end. eexists. split; [eassumption|assumption].
    + left. match goal with D : den _ Eol _ _ |- _ => inversion D; subst end. assumption.
Qed.
