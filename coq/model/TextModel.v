(* Executable model of netconan's per-line pipeline:
   sensitive_item_removal.py (replace_matching_item, _anonymize_value, _check_sensitive_item_format, _extract_enclosing_text,
   _split_line, SensitiveWordAnonymizer, AsNumberAnonymizer, anonymize_as_numbers), ip_anonymization.py (_anonymize_match,
   anonymize_ip_addr, make_addr), anonymize_files.py (FileAnonymizer.__init__, anonymize_io).
   Regex ASTs, constant tables and the reserved-word list are the GENERATED ones (gen/G_rx.v, gen/G_text_consts.v). *)
From Coq Require Import String.
From Coq Require Import List Bool Arith NArith ZArith Lia.
Import ListNotations.
Require Import Str Rx RxFacts RxSub Md5 Memo Mask IpModel IpText JunModel AsModel G_rx G_text_consts G_juniper G_ip_consts.
Require PyLib G_fn_sir.
Local Open Scope N_scope.

(* outcome of anything that can raise in Python *)
Inductive outcome (A : Type) := Done (a : A) | Raised (what : str).
Arguments Done {A}. Arguments Raised {A}.
Definition obind {A B} (x : outcome A) (f : A -> outcome B) : outcome B :=
  match x with Done a => f a | Raised w => Raised w end.
Notation "x <- m ;; k" := (obind m (fun x => k)) (at level 61, m at next level, right associativity).

(* ------------------------------------------------------------------ _split_line *)
Definition split_line (line : str) : str * list str * str :=
  let ls := lstrip line in
  let leading := match ls with [] => [] | _ => firstn (length line - length ls) line end in   (* line[:-len(lstrip)]; -0 gives "" *)
  (leading, split_ws line, skipn (length (rstrip line)) line).

(* ------------------------------------------------------------------ _extract_enclosing_text (iterative form) *)
Definition strip_heads (val head : str) : str * str :=
  fold_left (fun '(v, h) t => if starts_with t v then (skipn (length t) v, h ++ t) else (v, h)) ENCLOSING_HEAD (val, head).
Definition strip_tails (val tail : str) : str * str :=
  fold_left (fun '(v, tl) t => if ends_with t v then (firstn (length v - length t) v, t ++ tl) else (v, tl)) ENCLOSING_TAIL (val, tail).
Fixpoint extract_enclosing_aux (fuel : nat) (val head tail : str) : str * str * str :=
  match fuel with
  | O => (head, val, tail)
  | S f => let '(v1, h1) := strip_heads val head in
           let '(v2, t1) := strip_tails v1 tail in
           if str_eqb v2 val then (h1, v2, t1) else extract_enclosing_aux f v2 h1 t1
  end.
Definition extract_enclosing (in_val head tail : str) : str * str * str :=
  extract_enclosing_aux (S (length in_val)) in_val head tail.

(* ------------------------------------------------------------------ _check_sensitive_item_format *)
(* the function is generated from the source (gen/G_fn_sir.v); here only the marshalling of its argument and result *)
Definition check_format (val : str) : N :=
  match G_fn_sir.gen__check_sensitive_item_format (fun _ _ => PyLib.Exc PyLib.Unsupported) 1%nat (PyLib.VStr (map Z.of_N val)) with
  | PyLib.Normal (PyLib.VInt z) => Z.to_N z
  | _ => 0
  end.
Definition fmt_code (i : N) : N := match JunModel.assoc FORMAT_ENUM i with Some v => v | None => 0 end.
Definition F_TYPE7 := fmt_code 0. Definition F_NUMERIC := fmt_code 1. Definition F_HEX := fmt_code 2.
Definition F_MD5 := fmt_code 3. Definition F_TEXT := fmt_code 4. Definition F_SHA512 := fmt_code 5. Definition F_JUNIPER := fmt_code 6.

(* ------------------------------------------------------------------ encoders of the pseudonym *)
Definition ascii_bytes (s : str) : list N := s.    (* the pseudonym is ASCII: .encode() is the identity on code points *)
Definition to_decimal_of_bytes (s : str) : str := show_dec (fold_left (fun acc b => 256 * acc + b) (ascii_bytes s) 0).
(* passlib cisco_type7.using(salt=9).hash(s): "09" ++ upper-case hex of s[i] xor key[(9+i) mod 53] *)
Definition TYPE7_KEY : str := lit "dsfd;kfoA,.iyewrkldJKDHSUBsgvca69834ncxv9873254k;fg87".
Definition upper_hex_digit (d : N) : N := if d <? 10 then 48 + d else 55 + d.
Definition type7_hash (salt : N) (s : str) : str :=
  [48 + salt / 10; 48 + salt mod 10] ++
  flat_map (fun '(i, c) => let b := N.lxor c (nth (N.to_nat ((salt + N.of_nat i) mod 53)) TYPE7_KEY 0) in
                           [upper_hex_digit (b / 16); upper_hex_digit (b mod 16)])
           (combine (seq 0 (length s)) s).

(* passlib md5_crypt / sha512_crypt are ORACLES: a table (key -> value) supplied with the case.
   key = "m<saltsize>:<pseudonym>" or "s:<pseudonym>" *)
Definition oracle := list (str * str).
Fixpoint olookup (o : oracle) (k : str) : option str :=
  match o with [] => None | (k', v) :: r => if str_eqb k k' then Some v else olookup r k end.

Definition lookup_t := list (str * str).
Fixpoint lget (l : lookup_t) (k : str) : option str :=
  match l with [] => None | (k', v) :: r => if str_eqb k k' then Some v else lget r k end.
Definition lset (l : lookup_t) (k v : str) : lookup_t :=
  if match lget l k with Some _ => true | None => false end
  then map (fun kv => if str_eqb (fst kv) k then (k, v) else kv) l
  else l ++ [(k, v)].

Definition jun_decrypt_opt (val : str) : outcome (option str) :=
  match JunModel.decrypt val with
  | JOk p => Done (Some p)
  | JValueError => Done None                               (* except ValueError: pass *)
  | JKeyError => Raised (lit "KeyError") | JIndexError => Raised (lit "IndexError") | JBadTable => Raised (lit "BadTable")
  end.
Definition jun_encrypt_o (plain salt : str) : outcome str :=
  match JunModel.encrypt plain salt with
  | JOk c => Done c
  | JValueError => Raised (lit "ValueError") | JKeyError => Raised (lit "KeyError")
  | JIndexError => Raised (lit "IndexError") | JBadTable => Raised (lit "BadTable")
  end.

(* ------------------------------------------------------------------ _anonymize_value *)
Definition anonymize_value (orc : oracle) (raw_val : str) (lookup : lookup_t) (reserved : list str) (salt : str)
  : outcome (str * lookup_t) :=
  let '(sens_head, val, sens_tail) := extract_enclosing raw_val [] [] in
  if mem_str val reserved then Done (raw_val, lookup)
  else if is_empty val then Done (raw_val, lookup)
  else
    decrypted <- (if starts_with MAGIC val then jun_decrypt_opt val else Done None) ;;
    match lget lookup val with
    | Some anon => Done (sens_head ++ anon ++ sens_tail, lookup)
    | None =>
      match (match decrypted with Some d => lget lookup d | None => None end) with
      | Some stored =>
          anon <- jun_encrypt_o stored salt ;;
          Done (sens_head ++ anon ++ sens_tail, lookup)
      | None =>
          let anon0 := lit "netconanRemoved" ++ show_dec (N.of_nat (length lookup)) in
          let fmt := check_format val in
          a1 <- Done (if fmt =? F_TYPE7 then type7_hash 9 anon0 else anon0) ;;
          a2 <- Done (if fmt =? F_NUMERIC then to_decimal_of_bytes a1 else a1) ;;
          a3 <- Done (if fmt =? F_HEX then hex_of_bytes (ascii_bytes a2) else a2) ;;
          a4 <- (if fmt =? F_MD5 then
                   let old_salt := nth 2 (split_on 36 val) [] in
                   let size := N.min (N.of_nat (length old_salt)) 8 in
                   match olookup orc (lit "m" ++ show_dec size ++ [58] ++ a3) with
                   | Some h => Done h | None => Raised (lit "ORACLE-MISS") end
                 else Done a3) ;;
          a5 <- (if fmt =? F_SHA512 then
                   match olookup orc (lit "s:" ++ a4) with Some h => Done h | None => Raised (lit "ORACLE-MISS") end
                 else Done a4) ;;
          a6 <- (if fmt =? F_JUNIPER then jun_encrypt_o a5 salt else Done a5) ;;
          lookup' <- (match decrypted with
                      | Some d => if is_empty d then Done (lset lookup val a6)
                                  else match JunModel.decrypt a6 with
                                       | JOk p => Done (lset lookup d p)
                                       | JValueError => Raised (lit "ValueError") | _ => Raised (lit "KeyError") end
                      | None => Done (lset lookup val a6) end) ;;
          Done (sens_head ++ a6 ++ sens_tail, lookup')
      end
    end.

(* ------------------------------------------------------------------ replace_matching_item *)
(* one regex of a group applied to output_line; returns None when it does not match *)
Definition apply_item (orc : oracle) (reserved : list str) (salt : str) (item : re * option nat * option nat)
                      (output_line : str) (lookup : lookup_t) : option (outcome (str * lookup_t * bool)) :=
  let '(rx, num, pidx) := item in
  match search output_line rx with
  | None => None
  | Some (a, b, c) =>
      Some (match num with
            | None =>      (* scrub: every match replaced by the fixed message; stop this group *)
                match sub_fn output_line rx (fun (st : unit) _ _ _ => (st, LINE_SCRUBBED_MESSAGE)) tt with
                | Some (_, l) => Done (l, lookup, true)
                | None => Raised (lit "NULLABLE-PATTERN")
                end
            | Some n =>
                let prefix := match pidx with
                              | Some p => match group output_line a b c p with Some t => Some t | None => None end
                              | None => Some [] end in
                match prefix, group output_line a b c n with
                | Some pre, Some secret =>
                    r <- anonymize_value orc secret lookup reserved salt ;;
                    let '(anon, lookup') := r in
                    match sub_fn output_line rx (fun (st : unit) _ _ _ => (st, pre ++ anon)) tt with
                    | Some (_, l) => Done (l, lookup', false)
                    | None => Raised (lit "NULLABLE-PATTERN")
                    end
                | _, _ => Raised (lit "TypeError")        (* a group that did not participate is None in Python *)
                end
            end)
  end.
Fixpoint apply_group (orc : oracle) (reserved : list str) (salt : str) (grp : list (re * option nat * option nat))
                     (output_line : str) (lookup : lookup_t) (found : bool) : outcome (str * lookup_t * bool) :=
  match grp with
  | [] => Done (output_line, lookup, found)
  | item :: rest =>
      match apply_item orc reserved salt item output_line lookup with
      | None => apply_group orc reserved salt rest output_line lookup found
      | Some r => x <- r ;;
                  let '(l, lk, stop) := x in
                  if stop then Done (l, lk, true) else apply_group orc reserved salt rest l lk true
      end
  end.
Fixpoint apply_groups (orc : oracle) (reserved : list str) (salt : str) (groups : list (list (re * option nat * option nat)))
                      (output_line : str) (lookup : lookup_t) : outcome (str * lookup_t) :=
  match groups with
  | [] => Done (output_line, lookup)
  | g :: rest => x <- apply_group orc reserved salt g output_line lookup false ;;
                 let '(l, lk, found) := x in
                 if found then Done (l, lk) else apply_groups orc reserved salt rest l lk
  end.
Definition replace_matching_item (orc : oracle) (reserved : list str) (salt : str) (input_line : str) (lookup : lookup_t)
  : outcome (str * lookup_t) :=
  let '(leading, words, trailing) := split_line input_line in
  let '(leading', output_line, trailing') := extract_enclosing (join [32] words) leading trailing in
  x <- apply_groups orc reserved salt PWD_REGEXES output_line lookup ;;
  let '(l, lk) := x in Done (leading' ++ l ++ trailing', lk).

(* ------------------------------------------------------------------ IP addresses in text *)
Definition make_addr4 (m : str) : option N :=
  (* IpAnonymizer._DROP_ZEROS_PATTERN.sub(r"\1.\2.\3.\4", addr_str) then IPv4Address *)
  match sub_fn m DROP_ZEROS_RX
          (fun (st : bool) a b c =>
             match group m a b c 1, group m a b c 2, group m a b c 3, group m a b c 4 with
             | Some g1, Some g2, Some g3, Some g4 => (st, g1 ++ [46] ++ g2 ++ [46] ++ g3 ++ [46] ++ g4)
             | _, _, _, _ => (false, [])
             end) true with
  | Some (true, t) => parse4 t
  | _ => None
  end.

Definition ip_match (v6 : bool) (undo : bool) (st : outcome anonymizer) (m : str) : outcome anonymizer * str :=
  match st with
  | Raised w => (st, m)
  | Done a =>
      match (if v6 then parse6 m else make_addr4 m) with
      | None => (st, m)                                        (* not an address after all: left as is *)
      | Some x =>
          if negb (if v6 then true else should_anonymize4 a x) then (st, m)
          else match (if undo then deanonymize_int a x else anonymize_int a x) with
               | Ok (a', y) => (Done a', if v6 then print6 y else print4 y)
               | Err => (Raised (lit "BidictError"), m)
               end
      end
  end.
Definition anonymize_ip_line (v6 undo : bool) (a : anonymizer) (line : str) : outcome (anonymizer * str) :=
  match sub_fn line (if v6 then IPV6_RX else IPV4_RX)
          (fun st i j _ => ip_match v6 undo st (substr line i j)) (Done a) with
  | Some (Done a', l) => Done (a', l)
  | Some (Raised w, _) => Raised w
  | None => Raised (lit "NULLABLE-PATTERN")
  end.

(* ------------------------------------------------------------------ AS numbers *)
Definition lit_rx (s : str) : re := fold_right (fun c acc => Seq (Chr (CRanges false [(c, c)])) acc) Eps s.
Fixpoint alt_of (l : list re) : re := match l with [] => Eps | [x] => x | x :: r => Alt x (alt_of r) end.
Definition NOT_DIGIT : cset := CRanges false CS_NOT_DIGIT.
(* r"(?:(?<=\D)|(?<=^))({})(?=\D|$)".format("|".join(as_numbers)) for numerals made of ASCII digits *)
Definition as_rx (nums : list str) : re :=
  Seq (Alt (Look false false 1 (Chr NOT_DIGIT)) (Look false false 0 Bol))
      (Seq (Grp 1 (alt_of (map lit_rx nums))) (Look true false 0 (Alt (Chr NOT_DIGIT) Eol))).
Record as_anonymizer := { as_regex : re; as_map : list (str * str) }.
Definition as_init (nums : list str) (salt : str) : outcome as_anonymizer :=
  if negb (forallb all_digits nums) then Raised (lit "OUT-OF-MODEL-DOMAIN")      (* int() accepts more than ASCII digits *)
  else
    let fix build (l : list str) : outcome (list (str * str)) :=
      match l with
      | [] => Done []
      | n :: r => match as_replacement_text salt n with
                  | Some (AsOk v) => t <- build r ;; Done ((n, show_dec (Z.to_N v)) :: t)
                  | Some AsValueError => Raised (lit "ValueError")
                  | Some AsNone => Raised (lit "TypeError")
                  | None => Raised (lit "UnicodeEncodeError")
                  end
      end in
    m <- build nums ;; Done {| as_regex := as_rx nums; as_map := m |}.
Definition anonymize_as_line (a : as_anonymizer) (line : str) : outcome str :=
  match sub_fn line (as_regex a)
          (fun (st : bool) i j _ => match lget (as_map a) (substr line i j) with Some v => (st, v) | None => (false, []) end) true with
  | Some (true, l) => Done l
  | Some (false, _) => Raised (lit "KeyError")
  | None => Raised (lit "NULLABLE-PATTERN")
  end.

(* ------------------------------------------------------------------ sensitive words *)
Definition icase_cset (c : N) : cset :=
  CRanges false (match find (fun kv => N.eqb (fst kv) c) ICASE_ASCII with Some (_, rs) => rs | None => [(c, c)] end).
Definition lit_icase_rx (s : str) : re := fold_right (fun c acc => Seq (Chr (icase_cset c)) acc) Eps s.
(* sorted(words, key=lambda w: (-len(w), w)) on a duplicate-free list *)
Fixpoint str_ltb (a b : str) : bool :=
  match a, b with
  | _, [] => false
  | [], _ :: _ => true
  | x :: a', y :: b' => if x <? y then true else if y <? x then false else str_ltb a' b'
  end.
Definition word_before (a b : str) : bool :=
  if Nat.ltb (length b) (length a) then true else if Nat.ltb (length a) (length b) then false else str_ltb a b.
Fixpoint insert_word (w : str) (l : list str) : list str :=
  match l with [] => [w] | x :: r => if word_before w x then w :: l else x :: insert_word w r end.
Definition dedup (l : list str) : list str := fold_left (fun acc w => if mem_str w acc then acc else acc ++ [w]) l [].
Definition sort_words (l : list str) : list str := fold_left (fun acc w => insert_word w acc) (dedup l) [].
Definition word_safe (w : str) : bool :=      (* model domain: ASCII letters, digits, '-', '_' (no regex metacharacters, ASCII case folding) *)
  negb (is_empty w) && forallb (fun c => ((48 <=? c) && (c <=? 57)) || ((65 <=? c) && (c <=? 90)) || ((97 <=? c) && (c <=? 122)) || (c =? 45) || (c =? 95)) w.
Record word_anonymizer := { w_regex : re; w_conflicting : list str; w_salt : str }.
Definition word_init (words : list str) (salt : str) (reserved : list str) : outcome word_anonymizer :=
  if negb (forallb word_safe words) then Raised (lit "OUT-OF-MODEL-DOMAIN")
  else
    let ws := sort_words (map lower_str words) in
    let res := map lower_str reserved in
    Done {| w_regex := Grp 1 (alt_of (map lit_icase_rx ws));
            w_conflicting := filter (fun r => existsb (fun w => contains w r) ws) res;
            w_salt := salt |}.
Definition word_pseudonym (salt matched : str) : outcome str :=
  match utf8 (salt ++ matched) with
  | Some bytes => Done (firstn ANON_SENSITIVE_WORD_LEN (hex_of_bytes (md5 bytes)))
  | None => Raised (lit "UnicodeEncodeError")
  end.
Definition anonymize_word_token (a : word_anonymizer) (w : str) : outcome str :=
  if mem_str (lower_str w) (w_conflicting a) then Done w        (* w.lower() in self.conflicting_words; ASCII tokens only *)
  else match sub_fn w (w_regex a)
               (fun (st : bool) i j _ => match word_pseudonym (w_salt a) (substr w i j) with Done p => (st, p) | Raised _ => (false, []) end) true with
       | Some (true, t) => Done t
       | Some (false, _) => Raised (lit "UnicodeEncodeError")
       | None => Raised (lit "NULLABLE-PATTERN")
       end.
Fixpoint omap {A B} (f : A -> outcome B) (l : list A) : outcome (list B) :=
  match l with [] => Done [] | x :: r => y <- f x ;; t <- omap f r ;; Done (y :: t) end.
Definition anonymize_words_line (a : word_anonymizer) (line : str) : outcome str :=
  match search line (w_regex a) with
  | None => Done line
  | Some _ =>
      let '(leading, words, trailing) := split_line line in
      ws <- omap (anonymize_word_token a) words ;;
      Done (leading ++ join [32] ws ++ trailing)
  end.

(* ------------------------------------------------------------------ FileAnonymizer *)
Record options := {
  o_pwd : bool; o_ip : bool; o_undo : bool; o_salt : str;
  o_words : option (list str); o_asnums : option (list str); o_reserved : option (list str);
  o_prefixes : option (list (N * nat)); o_networks : option (list (N * nat));
  o_b4 : nat; o_b6 : nat                  (* preserve_suffix_v4 / v6; None is 0 *)
}.
Record file_anonymizer := {
  fa_undo : bool; fa_salt : str;
  fa_pwd : option lookup_t;               (* compiled_regexes/pwd_lookup present *)
  fa_reserved : list str;
  fa_a4 : option anonymizer; fa_a6 : option anonymizer;
  fa_words : option word_anonymizer; fa_as : option as_anonymizer
}.
Definition fa_init (o : options) : outcome file_anonymizer :=
  let reserved := match o_reserved o with Some r => RESERVED_WORDS ++ r | None => RESERVED_WORDS end in
  wa <- (match o_words o with Some ws => x <- word_init ws (o_salt o) reserved ;; Done (Some x) | None => Done None end) ;;
  a46 <- (if o_ip o || o_undo o then
            match ip4_init (salter_md5 (o_salt o)) (o_b4 o)
                           (match o_prefixes o with Some p => p | None => G_ip_consts.DEFAULT_PRESERVED_PREFIXES end)
                           (match o_networks o with Some n => n | None => [] end) with
            | Ok a4 => Done (Some a4, Some (ip6_init (salter_md5 (o_salt o)) (o_b6 o)))
            | Err => Raised (lit "BidictError")
            end
          else Done (None, None)) ;;
  asa <- (match o_asnums o with Some ns => x <- as_init ns (o_salt o) ;; Done (Some x) | None => Done None end) ;;
  match utf8 (o_salt o) with
  | None => Raised (lit "OUT-OF-MODEL-DOMAIN")
  | Some _ =>
  Done {| fa_undo := o_undo o; fa_salt := o_salt o;
          fa_pwd := if o_pwd o then Some [] else None;
          fa_reserved := reserved;
          fa_a4 := fst a46; fa_a6 := snd a46; fa_words := wa; fa_as := asa |}
  end.

Definition with_state (f : file_anonymizer) (pwd : option lookup_t) (a4 a6 : option anonymizer) : file_anonymizer :=
  {| fa_undo := fa_undo f; fa_salt := fa_salt f; fa_pwd := pwd; fa_reserved := fa_reserved f;
     fa_a4 := a4; fa_a6 := a6; fa_words := fa_words f; fa_as := fa_as f |}.

(* one iteration of the loop of anonymize_io: the five stages in the order of the source *)
Definition process_line (orc : oracle) (f : file_anonymizer) (line : str) : outcome (file_anonymizer * str) :=
  s1 <- (match fa_pwd f with
         | Some lk => x <- replace_matching_item orc (fa_reserved f) (fa_salt f) line lk ;; Done (Some (snd x), fst x)
         | None => Done (None, line) end) ;;
  let '(pwd', l1) := s1 in
  s2 <- (match fa_a6 f with
         | Some a => x <- anonymize_ip_line true (fa_undo f) a l1 ;; Done (Some (fst x), snd x)
         | None => Done (None, l1) end) ;;
  let '(a6', l2) := s2 in
  s3 <- (match fa_a4 f with
         | Some a => x <- anonymize_ip_line false (fa_undo f) a l2 ;; Done (Some (fst x), snd x)
         | None => Done (None, l2) end) ;;
  let '(a4', l3) := s3 in
  l4 <- (match fa_words f with Some w => anonymize_words_line w l3 | None => Done l3 end) ;;
  l5 <- (match fa_as f with Some a => anonymize_as_line a l4 | None => Done l4 end) ;;
  Done (with_state f pwd' a4' a6', l5).

Fixpoint anonymize_io (orc : oracle) (f : file_anonymizer) (lines : list str) : outcome (file_anonymizer * list str) :=
  match lines with
  | [] => Done (f, [])
  | l :: r => x <- process_line orc f l ;;
              y <- anonymize_io orc (fst x) r ;;
              Done (fst y, snd x :: snd y)
  end.

(* dump_to_file of both anonymizers, IPv4 first *)
Definition dump_lines (f : file_anonymizer) : list str :=
  (match fa_a4 f with Some a => map (fun p => print4 (fst p) ++ [9] ++ print4 (snd p) ++ [10]) (dump a) | None => [] end) ++
  (match fa_a6 f with Some a => map (fun p => print6 (fst p) ++ [9] ++ print6 (snd p) ++ [10]) (dump a) | None => [] end).
