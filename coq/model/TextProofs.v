(* Theorems about the executable per-line pipeline model (model/TextModel.v) and the GENERATED regex ASTs. *)
From Coq Require Import String.
From Coq Require Import List Bool Arith NArith ZArith Lia.
Import ListNotations.
Require Import Str Rx RxFacts RxSub Md5 Memo Mask IpModel IpText JunModel AsModel G_rx G_text_consts G_juniper G_ip_consts TextModel.
Local Open Scope N_scope.

(* ---------------------------------------------------------------- C12 / C16: one line out per line in, in order *)
Theorem anonymize_io_length : forall orc lines f f' outs,
  anonymize_io orc f lines = Done (f', outs) -> length outs = length lines.
Proof.
  induction lines as [|l r IH]; intros f f' outs; cbn [anonymize_io].
  - intros [= <- <-]. reflexivity.
  - destruct (process_line orc f l) as [[f1 o1]|w] eqn:E1; cbn [obind]; [|discriminate].
    cbn [fst snd]. destruct (anonymize_io orc f1 r) as [[f2 outs2]|w] eqn:E2; cbn [obind]; [|discriminate].
    intros [= <- <-]. cbn [snd length]. f_equal. eapply IH; eauto.
Qed.

(* locality: output line k is determined by input line k and the state left by the lines before it (a prefix of the text
   is processed the same way whatever follows) *)
Theorem anonymize_io_prefix : forall orc l1 l2 f f' outs,
  anonymize_io orc f (l1 ++ l2) = Done (f', outs) ->
  exists f1, anonymize_io orc f l1 = Done (f1, firstn (length l1) outs) /\ anonymize_io orc f1 l2 = Done (f', skipn (length l1) outs).
Proof.
  induction l1 as [|l r IH]; intros l2 f f' outs; cbn [app anonymize_io].
  - intros E. exists f. split; [reflexivity|exact E].
  - destruct (process_line orc f l) as [[fa oa]|w] eqn:E1; cbn [obind]; [|discriminate]. cbn [fst snd].
    destruct (anonymize_io orc fa (r ++ l2)) as [[fb outsb]|w] eqn:E2; cbn [obind]; [|discriminate].
    intros [= <- <-]. cbn [snd fst]. destruct (IH _ _ _ _ E2) as (f1 & Ea & Eb). exists f1.
    rewrite Ea. cbn [obind fst snd length firstn skipn]. split; [reflexivity|exact Eb].
Qed.

(* ---------------------------------------------------------------- C14: every pattern handed to sub is non-nullable, so
   "NULLABLE-PATTERN" is never raised and every substitution makes progress (decided on the generated ASTs) *)
Definition all_sub_patterns_non_nullable : bool :=
  negb (nullable IPV4_RX) && negb (nullable IPV6_RX) && negb (nullable DROP_ZEROS_RX) &&
  forallb (fun g => forallb (fun it => negb (nullable (fst (fst it)))) g) PWD_REGEXES.
Theorem generated_patterns_non_nullable : all_sub_patterns_non_nullable = true.
Proof. vm_compute. reflexivity. Qed.

Lemma nullable_lit_rx s : s <> [] -> nullable (lit_rx s) = false.
Proof. destruct s; [contradiction|]. reflexivity. Qed.
Lemma nullable_alt_lits (l : list str) : l <> [] -> Forall (fun s => s <> []) l -> nullable (alt_of (map lit_rx l)) = false.
Proof.
  induction l as [|a l IH]; intros Hn Hall; [contradiction|]. inversion Hall as [|? ? Ha Hl]; subst.
  destruct l as [|b l']; cbn [map alt_of]; [apply nullable_lit_rx; auto|].
  cbn [nullable]. rewrite (nullable_lit_rx a Ha). cbn [orb]. apply IH; [discriminate|auto].
Qed.
Theorem as_regex_non_nullable nums : nums <> [] -> Forall (fun s => s <> []) nums -> nullable (as_rx nums) = false.
Proof. intros Hn Hall. unfold as_rx. cbn [nullable]. rewrite (nullable_alt_lits nums Hn Hall). reflexivity. Qed.

(* ---------------------------------------------------------------- C06 / C12: the characters an address match can cover.
   Every character class in consuming position of the generated IPv4 pattern contains only ASCII digits and '.';
   for the IPv6 pattern only ASCII letters/digits, ':', '.', '%' and the two non-ASCII code points that the
   case-insensitive classes of this interpreter add (U+0130, U+0131, U+017F, U+212A).  With RxFacts.match_alphabet this bounds
   what a replaced span can contain: never whitespace, a line terminator or other punctuation. *)
Definition range_within (allowed : list (N * N)) (r : N * N) : bool :=
  existsb (fun a => (fst a <=? fst r) && (snd r <=? snd a)) allowed.
Definition cset_within (allowed : list (N * N)) (c : cset) : bool :=
  match c with CRanges neg rs => negb neg && forallb (range_within allowed) rs end.
Definition V4_CHARS : list (N * N) := [(46, 46); (48, 57)].
Definition V6_CHARS : list (N * N) := [(37, 37); (46, 46); (48, 58); (65, 90); (97, 122); (304, 305); (383, 383); (8490, 8490)].
Theorem ipv4_pattern_alphabet : forallb (cset_within V4_CHARS) (alpha IPV4_RX) = true.
Proof. vm_compute. reflexivity. Qed.
Theorem ipv6_pattern_alphabet : forallb (cset_within V6_CHARS) (alpha IPV6_RX) = true.
Proof. vm_compute. reflexivity. Qed.

Lemma in_cset_within allowed c x : cset_within allowed c = true -> in_cset x c = true ->
  existsb (fun a => (fst a <=? x) && (x <=? snd a)) allowed = true.
Proof.
  destruct c as [neg rs]. cbn [cset_within in_cset]. intros Hw Hin. apply andb_true_iff in Hw as [Hn Hw].
  destruct neg; [discriminate|]. cbn [xorb] in Hin.
  destruct (existsb (fun r : N * N => (fst r <=? x) && (x <=? snd r)) rs) eqn:Hex; [clear Hin; rename Hex into Hin|discriminate].
  apply existsb_exists in Hin as [r [Hr Hx]]. rewrite forallb_forall in Hw. specialize (Hw r Hr).
  unfold range_within in Hw. apply existsb_exists in Hw as [a [Ha Hra]]. apply existsb_exists. exists a. split; auto.
  apply andb_true_iff in Hx as [X1 X2]. apply andb_true_iff in Hra as [R1 R2].
  apply N.leb_le in X1, X2, R1, R2. apply andb_true_iff. split; apply N.leb_le; lia.
Qed.

(* every character inside a span matched by the IPv4 pattern is a digit or a dot -- for every line *)
Theorem ipv4_match_covers_only_digits_and_dots : forall (s : list chr) i c j c' p x,
  In (j, c') (ms s IPV4_RX i c) -> (i <= p < j)%nat -> nth_error s p = Some x ->
  (x = 46 \/ (48 <= x <= 57)).
Proof.
  intros s i c j c' p x Hin Hp Hx.
  destruct (match_alphabet s IPV4_RX i c j c' Hin p Hp) as (y & cs & Ey & Hcs & Hy).
  rewrite Hx in Ey. injection Ey as <-.
  pose proof ipv4_pattern_alphabet as A. rewrite forallb_forall in A. specialize (A cs Hcs).
  pose proof (in_cset_within _ _ _ A Hy) as E. cbn [V4_CHARS existsb fst snd] in E.
  rewrite orb_false_r in E. apply orb_true_iff in E as [E|E]; apply andb_true_iff in E as [E1 E2]; apply N.leb_le in E1, E2; lia.
Qed.

(* ---------------------------------------------------------------- C15: the line pipeline is the composition of the five
   single-feature stages, in the order secrets, IPv6, IPv4, words, AS numbers, each acting on its own state component *)
Definition stage_pwd (orc : oracle) (f : file_anonymizer) (line : str) : outcome (option lookup_t * str) :=
  match fa_pwd f with
  | Some lk => x <- replace_matching_item orc (fa_reserved f) (fa_salt f) line lk ;; Done (Some (snd x), fst x)
  | None => Done (None, line) end.
Definition stage_ip (v6 : bool) (undo : bool) (a : option anonymizer) (line : str) : outcome (option anonymizer * str) :=
  match a with
  | Some an => x <- anonymize_ip_line v6 undo an line ;; Done (Some (fst x), snd x)
  | None => Done (None, line) end.
Definition stage_words (w : option word_anonymizer) (line : str) : outcome str :=
  match w with Some wa => anonymize_words_line wa line | None => Done line end.
Definition stage_as (a : option as_anonymizer) (line : str) : outcome str :=
  match a with Some aa => anonymize_as_line aa line | None => Done line end.

Theorem process_line_is_composition_of_stages : forall orc f line,
  process_line orc f line =
    (s1 <- stage_pwd orc f line ;;
     s2 <- stage_ip true (fa_undo f) (fa_a6 f) (snd s1) ;;
     s3 <- stage_ip false (fa_undo f) (fa_a4 f) (snd s2) ;;
     l4 <- stage_words (fa_words f) (snd s3) ;;
     l5 <- stage_as (fa_as f) l4 ;;
     Done (with_state f (fst s1) (fst s3) (fst s2), l5)).
Proof.
  intros orc f line. unfold process_line, stage_pwd, stage_ip, stage_words, stage_as.
  destruct (fa_pwd f) as [lk|].
  - destruct (replace_matching_item orc (fa_reserved f) (fa_salt f) line lk) as [[l1 lk1]|w]; cbn [obind fst snd]; [|reflexivity].
    destruct (fa_a6 f) as [a6|].
    + destruct (anonymize_ip_line true (fa_undo f) a6 l1) as [[a6' l2]|w]; cbn [obind fst snd]; [|reflexivity].
      destruct (fa_a4 f) as [a4|].
      * destruct (anonymize_ip_line false (fa_undo f) a4 l2) as [[a4' l3]|w]; cbn [obind fst snd]; reflexivity.
      * cbn [obind fst snd]. reflexivity.
    + cbn [obind fst snd]. destruct (fa_a4 f) as [a4|].
      * destruct (anonymize_ip_line false (fa_undo f) a4 l1) as [[a4' l3]|w]; cbn [obind fst snd]; reflexivity.
      * cbn [obind fst snd]. reflexivity.
  - cbn [obind fst snd]. destruct (fa_a6 f) as [a6|].
    + destruct (anonymize_ip_line true (fa_undo f) a6 line) as [[a6' l2]|w]; cbn [obind fst snd]; [|reflexivity].
      destruct (fa_a4 f) as [a4|].
      * destruct (anonymize_ip_line false (fa_undo f) a4 l2) as [[a4' l3]|w]; cbn [obind fst snd]; reflexivity.
      * cbn [obind fst snd]. reflexivity.
    + cbn [obind fst snd]. destruct (fa_a4 f) as [a4|].
      * destruct (anonymize_ip_line false (fa_undo f) a4 line) as [[a4' l3]|w]; cbn [obind fst snd]; reflexivity.
      * cbn [obind fst snd]. reflexivity.
Qed.

(* a single-feature anonymizer is the combined one with the other components switched off; its line function is exactly that stage *)
Definition only (f : file_anonymizer) (pwd ip6 ip4 words asn : bool) : file_anonymizer :=
  {| fa_undo := fa_undo f; fa_salt := fa_salt f; fa_pwd := if pwd then fa_pwd f else None; fa_reserved := fa_reserved f;
     fa_a4 := if ip4 then fa_a4 f else None; fa_a6 := if ip6 then fa_a6 f else None;
     fa_words := if words then fa_words f else None; fa_as := if asn then fa_as f else None |}.
Definition out_line {A} (x : outcome (A * str)) : outcome str := match x with Done p => Done (snd p) | Raised w => Raised w end.
Theorem single_feature_runs_are_the_stages : forall orc f line,
  out_line (process_line orc (only f true false false false false) line) = out_line (stage_pwd orc f line) /\
  out_line (process_line orc (only f false true false false false) line) = out_line (stage_ip true (fa_undo f) (fa_a6 f) line) /\
  out_line (process_line orc (only f false false true false false) line) = out_line (stage_ip false (fa_undo f) (fa_a4 f) line) /\
  out_line (process_line orc (only f false false false true false) line) = stage_words (fa_words f) line /\
  out_line (process_line orc (only f false false false false true) line) = stage_as (fa_as f) line.
Proof.
  intros orc f line. rewrite !process_line_is_composition_of_stages.
  unfold only, stage_pwd, stage_ip, stage_words, stage_as. cbn [fa_pwd fa_a6 fa_a4 fa_words fa_as fa_undo fa_salt fa_reserved].
  repeat split.
  - destruct (fa_pwd f) as [lk|]; cbn [obind fst snd out_line]; [|reflexivity].
    destruct (replace_matching_item orc (fa_reserved f) (fa_salt f) line lk) as [[l1 lk1]|w]; reflexivity.
  - destruct (fa_a6 f) as [a|]; cbn [obind fst snd out_line]; [|reflexivity].
    destruct (anonymize_ip_line true (fa_undo f) a line) as [[a' l]|w]; reflexivity.
  - destruct (fa_a4 f) as [a|]; cbn [obind fst snd out_line]; [|reflexivity].
    destruct (anonymize_ip_line false (fa_undo f) a line) as [[a' l]|w]; reflexivity.
  - cbn [obind fst snd]. destruct (fa_words f) as [w|]; cbn [obind out_line]; [|reflexivity].
    destruct (anonymize_words_line w line); reflexivity.
  - cbn [obind fst snd]. destruct (fa_as f) as [a|]; cbn [obind out_line]; [|reflexivity].
    destruct (anonymize_as_line a line); reflexivity.
Qed.
