(* C14: the secrets-stage value function never raises (model/TotalProofs.v): classification of $9$ values by the generated format function,
   byte-string invariant of the lookup, and totality of anonymize_value up to a missing passlib-oracle entry. *)
From Coq Require Import String.
From Coq Require Import List Bool Arith NArith ZArith Lia.
Import ListNotations.
Require Import Str Rx RxFacts RxSub RxComplete PyLib PyRe G_fn_sir G_rx G_text_consts G_juniper IpText JunModel JunProofs TextModel EncProofs.
Local Open Scope N_scope.

Lemma map_to_of (s : list N) : map Z.to_N (map Z.of_N s) = s.
Proof. induction s as [|c s IH]; cbn; [reflexivity|]. now rewrite N2Z.id, IH. Qed.

(* Tactics that decide, for a value whose first characters are known, whether a generated pattern matches from the start -- by walking the
   pattern's head: anchor, single class characters (hit / miss), a mandatory class repetition (miss), and finally the shape
   "class characters to the end of the text".  They read the class sets and the pattern from the goal, so they do not depend on how the
   generator numbers them or on the order in which the source tests the patterns. *)
Ltac auto_hit := match goal with |- context [ms ?v (Seq (Chr ?cs) ?r) ?i ?c] =>
  let x := eval cbv in (nth_error v i) in match x with Some ?y => rewrite (ms_seq_chr_hit v cs r i c y eq_refl eq_refl) end end.
Ltac auto_miss := match goal with |- context [ms ?v (Seq (Chr ?cs) ?r) ?i ?c] =>
  let x := eval cbv in (nth_error v i) in match x with Some ?y => rewrite (ms_seq_chr_miss v cs r i c y eq_refl eq_refl) end end.
Ltac auto_rmiss := match goal with |- context [ms ?v (Seq (Rep ?g (Chr ?cs) (S ?lo) ?hi) ?r) ?i ?c] =>
  let x := eval cbv in (nth_error v i) in match x with Some ?y => rewrite (ms_seq_rep1_miss v g cs lo hi r i c y eq_refl eq_refl) end end.

Lemma no_success_no_match val r : ms val r 0%nat [] = [] -> match_start val r = None.
Proof. intros Hr. unfold match_start, match_at. rewrite m_is_first_of_ms, Hr. reflexivity. Qed.
Lemma head_success_match val r p rest : ms val r 0%nat [] = p :: rest -> match_start val r = Some p.
Proof. intros Hr. unfold match_start, match_at. rewrite m_is_first_of_ms, Hr. reflexivity. Qed.

(* a value "$9$" ++ body, body non-empty over the $9$ alphabet, is classified as juniper type 9 by the generated function *)
Theorem dollar9_is_classified_juniper : forall body, body <> [] -> Forall (fun c => In c NUM_ALPHA) body ->
  check_format (36 :: 57 :: 36 :: body) = F_JUNIPER.
Proof.
  intros body Hne Hall. unfold check_format, gen__check_sensitive_item_format, re_match_ast.
  set (val := 36 :: 57 :: 36 :: body).
  assert (Hlen : (3 < length val)%nat) by (unfold val; destruct body; [congruence|]; cbn [length]; lia).
  assert (Hfrom : forall cs, forallb (fun c => in_cset c cs) NUM_ALPHA = true -> all_from val cs 3).
  { intros cs Hcs j x Hj Hx. unfold val in Hx. do 3 (destruct j as [|j]; [lia|]). cbn [nth_error] in Hx.
    rewrite forallb_forall in Hcs. apply Hcs. rewrite Forall_forall in Hall. apply Hall. eapply nth_error_In. exact Hx. }
  repeat (cbn [bind bindS truthy]; rewrite ?map_to_of;
    match goal with |- context [match_start val ?R] =>
      first
      [ let H := fresh "Mnone" in
        assert (H : match_start val R = None)
          by (apply no_success_no_match; unfold R; rewrite ms_seq_bol; repeat auto_hit; first [auto_miss|auto_rmiss]; reflexivity);
        rewrite H
      | let H := fresh "Msome" in
        assert (H : exists p, match_start val R = Some p)
          by (unfold R; rewrite ?ms_seq_bol;
              match goal with |- exists p, match_start val ?r = Some p =>
                assert (Hms : exists rest, ms val r 0%nat [] = (length val, []) :: rest);
                [ rewrite ms_seq_bol; repeat auto_hit;
                  match goal with |- context [ms val (Seq (Rep true (Chr ?cs) 1 None) Eol) 3%nat []] =>
                    destruct (rep1_then_eol_head val cs 3 [] Hlen (Hfrom cs ltac:(vm_compute; reflexivity))) as (rest0 & ->) end;
                  cbn [app]; eexists; reflexivity
                | destruct Hms as (rest & Hms); eexists; exact (head_success_match val r _ rest Hms) ]
              end);
        destruct H as (? & ->) ]
    end).
  rewrite ?map_to_of. cbn [bind bindS truthy call]. reflexivity.
Qed.
Print Assumptions dollar9_is_classified_juniper.

(* ------------------------------------------------------------------------------------------------------------------------------
   _anonymize_value never raises: for every raw value, lookup, reserved list and salt the model returns a result, or reports that the
   passlib oracle table supplied with the case lacks the entry it asked for; and it keeps every stored replacement a byte string. *)
Definition bytes (x : str) : Prop := Forall (fun c => c < 256) x.
Definition table_bytes (l : list (str * str)) : Prop := Forall (fun kv => bytes (snd kv)) l.

Lemma lget_bytes l k v : table_bytes l -> lget l k = Some v -> bytes v.
Proof. induction l as [|[k' v'] l IH]; cbn; [discriminate|]. intros H. inversion H; subst. destruct (str_eqb k k'); [intros [= <-]; assumption|apply IH; assumption]. Qed.
Lemma olookup_bytes l k v : table_bytes l -> olookup l k = Some v -> bytes v.
Proof. induction l as [|[k' v'] l IH]; cbn; [discriminate|]. intros H. inversion H; subst. destruct (str_eqb k k'); [intros [= <-]; assumption|apply IH; assumption]. Qed.
Lemma lset_bytes l k v : table_bytes l -> bytes v -> table_bytes (lset l k v).
Proof.
  intros Hl Hv. unfold lset. destruct (lget l k).
  - unfold table_bytes in *. rewrite Forall_forall in *. intros kv Hin. apply in_map_iff in Hin as (kv0 & <- & Hin0).
    destruct (str_eqb (fst kv0) k); [exact Hv|apply Hl; exact Hin0].
  - apply Forall_app. split; [exact Hl|]. constructor; [exact Hv|constructor].
Qed.

Lemma alphabet_small : forallb (fun c => c <? 256) NUM_ALPHA = true. Proof. vm_compute. reflexivity. Qed.
Lemma magic_is : MAGIC = [36; 57; 36]. Proof. vm_compute. reflexivity. Qed.

Lemma starts_with_split p s : starts_with p s = true -> s = p ++ skipn (length p) s.
Proof. revert s; induction p as [|a p IH]; intros s H; [reflexivity|]. destruct s as [|b s]; [discriminate|]. cbn in H. apply andb_prop in H as [E H].
  apply N.eqb_eq in E. subst. cbn. f_equal. apply IH. exact H. Qed.

(* a value that juniper_decrypt accepts is "$9$" + non-empty text over the $9$ alphabet *)
Lemma decrypt_ok_shape val d : JunModel.decrypt val = JOk d ->
  exists body, val = 36 :: 57 :: 36 :: body /\ body <> [] /\ Forall (fun c => In c NUM_ALPHA) body.
Proof.
  unfold JunModel.decrypt. destruct (negb (rows_nonempty && rows_nonzero)); [discriminate|].
  destruct (valid val) eqn:V; [|discriminate]. intros _. unfold valid in V. apply andb_prop in V as [V1 V2]. apply andb_prop in V2 as [V2 V3].
  exists (skipn (length MAGIC) val). split; [|split].
  - rewrite (starts_with_split _ _ V1) at 1. rewrite magic_is. reflexivity.
  - intro E. rewrite E in V2. discriminate.
  - apply Forall_forall. intros c Hc. rewrite forallb_forall in V3. specialize (V3 c Hc). apply existsb_exists in V3 as (x & Hx & E). apply N.eqb_eq in E. subst. exact Hx.
Qed.
Lemma decrypt_ok_is_juniper val d : JunModel.decrypt val = JOk d -> check_format val = F_JUNIPER.
Proof.
  intro H. destruct (decrypt_ok_shape val d H) as (body & -> & Hne & Hall). apply dollar9_is_classified_juniper; assumption.
Qed.
Lemma alphabet_bytes x : Forall (fun c => In c NUM_ALPHA) x -> bytes x.
Proof. pose proof alphabet_small as A. rewrite forallb_forall in A. intro H. eapply Forall_impl; [|exact H]. cbn beta. intros c Hc. apply N.ltb_lt. apply A. exact Hc. Qed.
Lemma encrypt_bytes plain salt c : JunModel.encrypt plain salt = JOk c -> bytes plain -> bytes c.
Proof.
  intros E Hp. destruct (encrypt_decrypt_roundtrip plain salt Hp) as (c' & E' & (rest & Ec & _ & Hr) & _).
  assert (Hc : c = MAGIC ++ rest) by congruence. rewrite Hc.
  apply Forall_app. split.
  - rewrite magic_is. repeat constructor.
  - apply alphabet_bytes. apply Forall_forall. intros x Hx. rewrite forallb_forall in Hr. apply inA_In. apply Hr. exact Hx.
Qed.

Lemma fmt_codes_distinct : NoDup [F_TYPE7; F_NUMERIC; F_HEX; F_MD5; F_TEXT; F_SHA512; F_JUNIPER].
Proof. vm_compute. repeat constructor; cbn; intuition discriminate. Qed.
Lemma juniper_is_no_other_format :
  (F_JUNIPER =? F_TYPE7) = false /\ (F_JUNIPER =? F_NUMERIC) = false /\ (F_JUNIPER =? F_HEX) = false /\ (F_JUNIPER =? F_MD5) = false /\ (F_JUNIPER =? F_SHA512) = false /\ (F_JUNIPER =? F_JUNIPER) = true.
Proof. vm_compute. repeat split; reflexivity. Qed.

Definition anon0_of (lookup : lookup_t) : str := lit "netconanRemoved" ++ show_dec (N.of_nat (length lookup)).
Lemma anon0_bytes lookup : bytes (anon0_of lookup).
Proof. eapply Forall_impl; [|apply (pseudonym_bytes (length lookup))]. cbn beta. intros; lia. Qed.
Lemma anon0_nonempty lookup : anon0_of lookup <> []. Proof. discriminate. Qed.
Lemma type7_bytes s : bytes s -> bytes (type7_hash 9 s).
Proof.
  intro H. destruct (type7_encoding_shape s H) as (rest & -> & Hr & _). constructor; [reflexivity|]. constructor; [reflexivity|].
  apply Forall_forall. intros c Hc. rewrite forallb_forall in Hr. specialize (Hr c Hc). unfold is_hex_upper in Hr. lia.
Qed.
Lemma decimal_bytes s : bytes (to_decimal_of_bytes s).
Proof.
  pose proof (numeric_encoding_all_digits s) as H. unfold all_digits in H. apply andb_prop in H as [_ H]. rewrite forallb_forall in H.
  apply Forall_forall. intros c Hc. specialize (H c Hc). unfold is_digit in H. lia.
Qed.
Lemma hex_bytes s : bytes s -> bytes (hex_of_bytes (ascii_bytes s)).
Proof.
  intro H. destruct (hex_encoding_shape s H) as [Hh _]. rewrite forallb_forall in Hh. apply Forall_forall. intros c Hc. specialize (Hh c Hc). unfold is_hex_lower in Hh. lia.
Qed.

Definition okres {A} (P : A -> Prop) (o : outcome A) : Prop := match o with Done a => P a | Raised e => e = lit "ORACLE-MISS" end.
Lemma okres_bind {A B} (Q : A -> Prop) (P : B -> Prop) (m : outcome A) (f : A -> outcome B) :
  okres Q m -> (forall a, Q a -> okres P (f a)) -> okres P (obind m f).
Proof. destruct m as [a|e]; cbn; intros H1 H2; [apply H2; exact H1|exact H1]. Qed.

Lemma obind_done {A B} (x : A) (f : A -> outcome B) : obind (Done x) f = f x. Proof. reflexivity. Qed.

Theorem anonymize_value_never_raises : forall orc raw lookup reserved salt,
  table_bytes orc -> table_bytes lookup ->
  okres (fun r => table_bytes (snd r)) (anonymize_value orc raw lookup reserved salt).
Proof.
  intros orc raw lookup reserved salt Ho Hl. unfold anonymize_value.
  destruct (extract_enclosing raw [] []) as [[sens_head val] sens_tail].
  destruct (mem_str val reserved); [exact Hl|]. destruct (is_empty val); [exact Hl|].
  assert (Hdec : exists od, (if starts_with MAGIC val then jun_decrypt_opt val else Done None) = Done od /\ (forall d, od = Some d -> JunModel.decrypt val = JOk d)).
  { destruct (starts_with MAGIC val).
    - unfold jun_decrypt_opt. destruct (decrypt_refuses_with_value_error val) as [[p Ep]|Ev].
      + rewrite Ep. exists (Some p). split; [reflexivity|]. intros d [= <-]. reflexivity.
      + rewrite Ev. exists None. split; [reflexivity|discriminate].
    - exists None. split; [reflexivity|discriminate]. }
  destruct Hdec as (od & -> & Hod). rewrite obind_done.
  destruct (lget lookup val) as [anon|]; [exact Hl|].
  destruct (match od with Some d => lget lookup d | None => None end) as [stored|] eqn:Est.
  - destruct od as [d|]; [|discriminate]. pose proof (lget_bytes _ _ _ Hl Est) as Hb.
    unfold jun_encrypt_o. destruct (encrypt_decrypt_roundtrip stored salt Hb) as (c & -> & _). rewrite obind_done. exact Hl.
  - fold (anon0_of lookup). set (fmt := check_format val).
    pose proof (anon0_bytes lookup) as B0.
    destruct juniper_is_no_other_format as (J1 & J2 & J3 & J4 & J5 & J6).
    set (Q := fun a : str => bytes a /\ (fmt = F_JUNIPER -> a = anon0_of lookup)).
    apply (okres_bind Q).
    { split; [destruct (fmt =? F_TYPE7); [apply type7_bytes|]; exact B0|]. intros ->. rewrite J1. reflexivity. }
    intros a1 [B1 E1]. apply (okres_bind Q).
    { split; [destruct (fmt =? F_NUMERIC); [apply decimal_bytes|exact B1]|]. intros E. rewrite E, J2. apply E1. exact E. }
    intros a2 [B2 E2]. apply (okres_bind Q).
    { split; [destruct (fmt =? F_HEX); [apply hex_bytes|]; exact B2|]. intros E. rewrite E, J3. apply E2. exact E. }
    intros a3 [B3 E3]. apply (okres_bind Q).
    { destruct (fmt =? F_MD5) eqn:Em.
      - destruct (olookup orc _) as [h|] eqn:Eo; [|reflexivity]. split; [exact (olookup_bytes _ _ _ Ho Eo)|]. intros E. rewrite E, J4 in Em. discriminate.
      - split; [exact B3|exact E3]. }
    intros a4 [B4 E4]. apply (okres_bind Q).
    { destruct (fmt =? F_SHA512) eqn:Em.
      - destruct (olookup orc _) as [h|] eqn:Eo; [|reflexivity]. split; [exact (olookup_bytes _ _ _ Ho Eo)|]. intros E. rewrite E, J5 in Em. discriminate.
      - split; [exact B4|exact E4]. }
    intros a5 [B5 E5].
    (* a6 *)
    apply (okres_bind (fun a6 => bytes a6 /\ (fmt = F_JUNIPER -> JunModel.decrypt a6 = JOk (anon0_of lookup)))).
    { destruct (fmt =? F_JUNIPER) eqn:Ej.
      - apply N.eqb_eq in Ej. unfold jun_encrypt_o. destruct (encrypt_decrypt_roundtrip a5 salt B5) as (c & Ec & _ & Hrt). rewrite Ec. cbn [okres]. split.
        + exact (encrypt_bytes _ _ _ Ec B5).
        + intros _. rewrite (E5 Ej) in Hrt. apply Hrt. left. apply anon0_nonempty.
      - split; [exact B5|]. intros E. rewrite E, J6 in Ej. discriminate. }
    intros a6 [B6 D6]. apply (okres_bind table_bytes).
    { destruct od as [d|].
      - destruct (is_empty d); [exact (lset_bytes _ _ _ Hl B6)|].
        rewrite (D6 (decrypt_ok_is_juniper val d (Hod d eq_refl))). cbn [okres]. apply lset_bytes; [exact Hl|exact B0].
      - exact (lset_bytes _ _ _ Hl B6). }
    intros lk' Hlk. exact Hlk.
Qed.
Print Assumptions anonymize_value_never_raises.

(* ------------------------------------------------------------------------------------------------------------------------------
   replace_matching_item (the whole secrets stage of a line) never raises: every generated line pattern is non-nullable and the groups it reads
   (the secret, the kept prefix) lie on every path of their pattern, so they have participated in every match (lib/RxGroups.v). *)
Require Import RxGroups.
Definition item_ok (it : re * option nat * option nat) : bool :=
  let '(rx, num, pidx) := it in
  negb (nullable rx) &&
  (match num with Some (S n) => always_part (S n) rx | _ => true end) &&
  (match pidx with Some (S p) => always_part (S p) rx | _ => true end).
Theorem generated_line_patterns_read_only_participating_groups : forallb (forallb item_ok) PWD_REGEXES = true.
Proof. vm_compute. reflexivity. Qed.

Lemma group_defined s a b c n r i c0 : In (b, c) (ms s r i c0) -> match n with O => True | S _ => always_part n r = true end -> group s a b c n <> None.
Proof.
  intros Hin Hp. destruct n as [|n]; [discriminate|]. unfold group.
  pose proof (always_part_sound s r (S n) Hp i c0 b c Hin) as Hh. unfold has in Hh.
  destruct (cap_lookup c (S n)) as [[x y]|]; [discriminate|contradiction].
Qed.

Definition ok3 (r : str * lookup_t * bool) : Prop := table_bytes (snd (fst r)).
Lemma apply_item_ok orc reserved salt it line lookup : item_ok it = true -> table_bytes orc -> table_bytes lookup ->
  match apply_item orc reserved salt it line lookup with None => True | Some r => okres ok3 r end.
Proof.
  intros Hit Ho Hl. unfold apply_item. destruct it as [[rx num] pidx]. cbn [item_ok] in Hit.
  apply andb_prop in Hit as [Hit Hp]. apply andb_prop in Hit as [Hnul Hn]. apply negb_true_iff in Hnul.
  destruct (search line rx) as [[[a b] c]|] eqn:Es; [|exact I].
  assert (Hin : In (b, c) (ms line rx a [])).
  { unfold search in Es. apply search_from_ge in Es as [_ Em]. apply match_at_in. exact Em. }
  destruct num as [n|].
  - assert (Hpre : exists pre, match pidx with Some p => match group line a b c p with Some t => Some t | None => None end | None => Some [] end = Some pre).
    { destruct pidx as [p|]; [|eexists; reflexivity].
      destruct (group line a b c p) eqn:Eg; [eexists; reflexivity|]. exfalso. revert Eg. eapply group_defined; [exact Hin|]. destruct p; [exact I|exact Hp]. }
    destruct Hpre as (pre & ->).
    destruct (group line a b c n) as [secret|] eqn:Eg.
    + apply (okres_bind (fun r => table_bytes (snd r))); [apply anonymize_value_never_raises; assumption|].
      intros [anon lk'] Hlk. unfold sub_fn. rewrite Hnul. cbn [okres ok3 fst snd]. destruct (sub_loop _ _ _ _ _ _). exact Hlk.
    + exfalso. revert Eg. eapply group_defined; [exact Hin|]. destruct n; [exact I|exact Hn].
  - unfold sub_fn. rewrite Hnul. destruct (sub_loop _ _ _ _ _ _). exact Hl.
Qed.

Lemma apply_group_ok orc reserved salt : table_bytes orc -> forall grp line lookup found, forallb item_ok grp = true -> table_bytes lookup ->
  okres ok3 (apply_group orc reserved salt grp line lookup found).
Proof.
  intros Ho. induction grp as [|it grp IH]; intros line lookup found Hg Hl; cbn [apply_group]; [exact Hl|].
  cbn [forallb] in Hg. apply andb_prop in Hg as [Hit Hg].
  pose proof (apply_item_ok orc reserved salt it line lookup Hit Ho Hl) as Hi.
  destruct (apply_item orc reserved salt it line lookup) as [r|]; [|apply IH; assumption].
  apply (okres_bind ok3); [exact Hi|]. intros [[l lk] stop] Hlk. destruct stop; [exact Hlk|]. apply IH; assumption.
Qed.
Lemma apply_groups_ok orc reserved salt : table_bytes orc -> forall groups line lookup, forallb (forallb item_ok) groups = true -> table_bytes lookup ->
  okres (fun r => table_bytes (snd r)) (apply_groups orc reserved salt groups line lookup).
Proof.
  intros Ho. induction groups as [|g groups IH]; intros line lookup Hg Hl; cbn [apply_groups]; [exact Hl|].
  cbn [forallb] in Hg. apply andb_prop in Hg as [Hg1 Hg2].
  apply (okres_bind ok3); [apply apply_group_ok; assumption|]. intros [[l lk] found] Hlk. destruct found; [exact Hlk|]. apply IH; assumption.
Qed.

Theorem replace_matching_item_never_raises : forall orc reserved salt line lookup,
  table_bytes orc -> table_bytes lookup ->
  okres (fun r => table_bytes (snd r)) (replace_matching_item orc reserved salt line lookup).
Proof.
  intros orc reserved salt line lookup Ho Hl. unfold replace_matching_item.
  destruct (split_line line) as [[leading words] trailing]. destruct (extract_enclosing _ leading trailing) as [[leading' output_line] trailing'].
  apply (okres_bind (fun r => table_bytes (snd r))); [apply apply_groups_ok; [exact Ho|exact generated_line_patterns_read_only_participating_groups|exact Hl]|].
  intros [l lk] Hlk. exact Hlk.
Qed.
Print Assumptions replace_matching_item_never_raises.
