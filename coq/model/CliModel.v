(* Executable model of netconan.netconan.main on the record of PARSED arguments (argparse/configargparse are not modelled):
   validation, list splitting, --preserve-private-addresses merge, the "nothing enabled" branch, and the call of anonymize_files
   with every argument resolved to its parameter name. *)
From Coq Require Import String.
From Coq Require Import List Bool Arith NArith.
Import ListNotations.
Require Import Str G_cli_consts.
Local Open Scope N_scope.

Record args := {
  a_input : str; a_output : str;
  a_ips : bool; a_pwd : bool; a_undo : bool; a_private : bool;
  a_salt : option str; a_dump : option str;
  a_asnums : option str; a_reserved : option str; a_words : option str;
  a_prefixes : option str;            (* argparse default: the joined default list *)
  a_addresses : option str;
  a_hostbits : nat
}.
Record call := {
  c_input : str; c_output : str; c_pwd : bool; c_ip : bool; c_salt : option str; c_dump : option str;
  c_words : option (list str); c_undo : bool; c_asnums : option (list str); c_reserved : option (list str);
  c_prefixes : option (list str); c_networks : option (list str); c_b4 : nat; c_b6 : nat
}.
Inductive main_result := MRaise (exn : str) | MNoCall | MCall (c : call).

Definition is_nil (s : str) : bool := match s with [] => true | _ => false end.
Definition split_commas (o : option str) : option (list str) := option_map (split_on 44) o.
Definition truthy_list (o : option (list str)) : bool := match o with Some (_ :: _) => true | _ => false end.

Definition main_model (a : args) : main_result :=
  if is_nil (a_input a) then MRaise (lit "ValueError")
  else if is_nil (a_output a) then MRaise (lit "ValueError")
  else if a_undo a && a_ips a then MRaise (lit "ValueError")
  else if a_undo a && (match a_salt a with None => true | Some _ => false end) then MRaise (lit "ValueError")
  else if (match a_dump a with Some _ => true | None => false end) && negb (a_ips a) then MRaise (lit "ValueError")
  else
    let as_numbers := split_commas (a_asnums a) in
    let reserved := split_commas (a_reserved a) in
    let words := split_commas (a_words a) in
    let prefixes := split_commas (a_prefixes a) in
    let addresses0 := split_commas (a_addresses a) in
    let addresses := if a_private a then Some (match addresses0 with None => RFC_1918_TXT | Some l => l ++ RFC_1918_TXT end) else addresses0 in
    if negb (truthy_list as_numbers || truthy_list words || a_pwd a || a_ips a || a_undo a) then MNoCall
    else MCall {| c_input := a_input a; c_output := a_output a; c_pwd := a_pwd a; c_ip := a_ips a; c_salt := a_salt a; c_dump := a_dump a;
                  c_words := words; c_undo := a_undo a; c_asnums := as_numbers; c_reserved := reserved;
                  c_prefixes := prefixes; c_networks := addresses; c_b4 := a_hostbits a; c_b6 := a_hostbits a |}.

(* ---------------- C19 on the model ---------------- *)
Definition is_call (r : main_result) : bool := match r with MCall _ => true | _ => false end.

Theorem invalid_combinations_rejected_before_any_call : forall a,
  (a_undo a = true /\ a_ips a = true) \/ (a_undo a = true /\ a_salt a = None) \/ (a_dump a <> None /\ a_ips a = false)
  \/ a_input a = [] \/ a_output a = [] ->
  exists e, main_model a = MRaise e.
Proof.
  intros a H. unfold main_model.
  destruct (a_input a) as [|i0 ir] eqn:Ei; [eexists; reflexivity|]. cbn [is_nil].
  destruct (a_output a) as [|o0 or] eqn:Eo; [eexists; reflexivity|]. cbn [is_nil].
  destruct H as [[H1 H2]|[[H1 H2]|[[H1 H2]|[H|H]]]]; try discriminate.
  - rewrite H1, H2. eexists; reflexivity.
  - rewrite H1, H2. destruct (a_ips a); eexists; reflexivity.
  - rewrite H2. destruct (a_undo a) eqn:Eu; cbn [andb].
    + destruct (a_salt a); [|eexists; reflexivity]. destruct (a_dump a); [eexists; reflexivity|contradiction].
    + destruct (a_dump a); [eexists; reflexivity|contradiction].
Qed.

Theorem nothing_enabled_nothing_written : forall a,
  a_ips a = false -> a_pwd a = false -> a_undo a = false -> a_asnums a = None -> a_words a = None ->
  is_call (main_model a) = false.
Proof.
  intros a H1 H2 H3 H4 H5. unfold main_model. rewrite H1, H2, H3, H4, H5. cbn.
  destruct (is_nil (a_input a)); [reflexivity|]. destruct (is_nil (a_output a)); [reflexivity|].
  destruct (a_dump a); reflexivity.
Qed.

(* --preserve-private-addresses behaves exactly as listing the three RFC 1918 networks after the user's preserved addresses *)
Definition with_private (a : args) (p : bool) (addrs : option str) : args :=
  {| a_input := a_input a; a_output := a_output a; a_ips := a_ips a; a_pwd := a_pwd a; a_undo := a_undo a; a_private := p;
     a_salt := a_salt a; a_dump := a_dump a; a_asnums := a_asnums a; a_reserved := a_reserved a; a_words := a_words a;
     a_prefixes := a_prefixes a; a_addresses := addrs; a_hostbits := a_hostbits a |}.
Definition rfc1918_joined : str := join [44] RFC_1918_TXT.

Theorem host_bits_reach_both_families : forall a c, main_model a = MCall c -> c_b4 c = a_hostbits a /\ c_b6 c = a_hostbits a.
Proof.
  intros a c. unfold main_model.
  repeat match goal with |- context [if ?b then _ else _] => destruct b end; try discriminate;
  intros [= <-]; split; reflexivity.
Qed.

Theorem private_flag_adds_rfc1918 : forall a c, a_private a = true -> main_model a = MCall c ->
  c_networks c = Some (match split_commas (a_addresses a) with None => RFC_1918_TXT | Some l => l ++ RFC_1918_TXT end).
Proof.
  intros a c Hp. unfold main_model. rewrite Hp.
  repeat match goal with |- context [if ?b then _ else _] => destruct b end; try discriminate;
  intros [= <-]; reflexivity.
Qed.

(* the defaults READ FROM THE SOURCE: 8 host bits, the class + RFC 1918 prefix list, every other option off / None *)
Theorem documented_defaults :
  CLI_DEFAULT_HOST_BITS = 8%nat /\ split_on 44 CLI_DEFAULT_PREFIXES = DEFAULT_PREFIXES_TXT /\ CLI_DEFAULTS_NONE = true /\ CLI_DEFAULTS_FALSE = true
  /\ DEFAULT_PREFIXES_TXT = map lit ["0.0.0.0/1"; "128.0.0.0/2"; "192.0.0.0/3"; "224.0.0.0/4"; "10.0.0.0/8"; "172.16.0.0/12"; "192.168.0.0/16"]%string
  /\ RFC_1918_TXT = map lit ["10.0.0.0/8"; "172.16.0.0/12"; "192.168.0.0/16"]%string.
Proof. vm_compute. repeat split; reflexivity. Qed.
