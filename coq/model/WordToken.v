(* What the sensitive-word pattern can match (the model's w_regex: the alternation of the listed words, lower-cased and sorted, each letter widened to
   its case variants by the GENERATED table of CPython's IGNORECASE folding, gen/G_rx.v ICASE_ASCII), through the declarative reading of the regex
   engine (lib/RxDen.v, lib/RxLang.v): for every word list, line and position, a span the engine reports is, character by character, a case variant of
   ONE of the listed words; on ASCII text: its lower-cased form IS that word.  So the word stage only ever replaces (case variants of) listed words. *)
From Coq Require Import List Arith NArith Bool Lia.
Import ListNotations.
Require Import Str Rx RxFacts RxComplete RxDen RxLang G_rx TextModel AsToken.
Require SortProofs.

Definition folds_to (x c : N) : Prop := in_cset x (icase_cset c) = true.
Lemma lang_lit_icase (w t : list chr) : lang (lit_icase_rx w) t -> Forall2 folds_to t w.
Proof.
  revert t. induction w as [|c w IH]; intros t H; cbn [lit_icase_rx fold_right] in H.
  - inversion H. constructor.
  - inversion H as [| |a b t1 t2 H1 H2| | | |]; subst. inversion H1 as [|cs x Hx| | | | |]; subst. fold (lit_icase_rx w) in H2.
    cbn [app]. constructor; [exact Hx|exact (IH _ H2)].
Qed.
Lemma pure_lit_icase w : pure (lit_icase_rx w) = true.
Proof. induction w as [|c w IH]; cbn [lit_icase_rx fold_right pure]; [reflexivity|]. fold (lit_icase_rx w). now rewrite IH. Qed.
Lemma lang_alt_icase (ws : list (list chr)) t : ws <> [] -> lang (alt_of (map lit_icase_rx ws)) t -> exists w, In w ws /\ Forall2 folds_to t w.
Proof.
  induction ws as [|n [|m ws] IH]; intros Hne H; [contradiction| |].
  - cbn [map alt_of] in H. exists n. split; [now left|now apply lang_lit_icase].
  - cbn [map alt_of] in H. inversion H; subst.
    + exists n. split; [now left|now apply lang_lit_icase].
    + destruct IH as (w & Hin & F); [discriminate|assumption|]. exists w. split; [now right|exact F].
Qed.
Lemma pure_alt_icase (ws : list (list chr)) : pure (alt_of (map lit_icase_rx ws)) = true.
Proof. induction ws as [|n [|m ws] IH]; cbn [map alt_of pure]; [reflexivity|apply pure_lit_icase|]. rewrite pure_lit_icase. exact IH. Qed.

Theorem word_match_is_a_case_variant_of_a_listed_word (s : list chr) (words reserved : list str) (salt : str) (a : word_anonymizer) i c j c' :
  word_init words salt reserved = Done a -> words <> [] -> i <= length s ->
  In (j, c') (ms s (w_regex a) i c) ->
  exists w, In w (map lower_str words) /\ Forall2 folds_to (sub s i j) w.
Proof.
  intros E Hne Hi H. unfold word_init in E. destruct (forallb word_safe words); cbn [negb] in E; [|discriminate]. injection E as <-. cbn [w_regex] in H.
  apply ms_den in H. inversion H; subst.
  assert (Hs : sort_words (map lower_str words) <> []).
  { destruct words as [|w0 ws]; [contradiction|]. intro E0. assert (Hin : In (lower_str w0) (sort_words (map lower_str (w0 :: ws)))) by (apply (proj2 (SortProofs.sort_words_spec _)); now left).
    rewrite E0 in Hin. destruct Hin. }
  match goal with D : den _ (alt_of _) _ _ |- _ => apply den_lang in D; [|apply pure_alt_icase|exact Hi]; destruct (lang_alt_icase _ _ Hs D) as (w & Hin & F) end.
  exists w. split; [now apply (proj2 (SortProofs.sort_words_spec _))|exact F].
Qed.

(* the generated folding table on ASCII: x folds to c exactly when they are equal up to ASCII letter case (finite: 128 x 128, by evaluation) *)
Definition ascii_codes : list N := map N.of_nat (seq 0 128).
Lemma in_ascii_codes x : (x < 128)%N -> In x ascii_codes.
Proof. intro H. unfold ascii_codes. apply in_map_iff. exists (N.to_nat x). split; [apply N2Nat.id|]. apply in_seq. lia. Qed.
Lemma folding_table_on_ascii :
  forallb (fun c => forallb (fun x => Bool.eqb (in_cset x (icase_cset c)) (N.eqb (lower_ascii x) (lower_ascii c))) ascii_codes) ascii_codes = true.
Proof. vm_compute. reflexivity. Qed.
Lemma folds_to_ascii x c : (x < 128)%N -> (c < 128)%N -> folds_to x c -> lower_ascii x = lower_ascii c.
Proof.
  intros Hx Hc F. pose proof folding_table_on_ascii as T. rewrite forallb_forall in T. specialize (T c (in_ascii_codes c Hc)).
  rewrite forallb_forall in T. specialize (T x (in_ascii_codes x Hx)). unfold folds_to in F. rewrite F in T.
  apply Bool.eqb_prop in T. symmetry in T. now apply N.eqb_eq in T.
Qed.

(* ======== the model's word alternation against what CPython's parser makes of the pattern text the source builds, on a sample list ======== *)
Require RxNorm.
From Coq Require Import String.
Local Open Scope string_scope.
Definition WORD_SAMPLE : list str := [lit "ab"; lit "Cde"; lit "k-s_9"].
Theorem word_template_is_what_python_compiles_on_a_sample (s : list chr) i c :
  match word_init WORD_SAMPLE (lit "s") [] with
  | Done a => ms s (w_regex a) i c = ms s WORD_SAMPLE_RX i c
  | Raised _ => False
  end.
Proof.
  destruct (word_init WORD_SAMPLE (lit "s") []) as [a|e] eqn:E; [|vm_compute in E; discriminate].
  assert (En : RxNorm.norm (w_regex a) = RxNorm.norm WORD_SAMPLE_RX) by (vm_compute in E; injection E as <-; vm_compute; reflexivity).
  transitivity (ms s (RxNorm.norm (w_regex a)) i c); [symmetry; apply RxNorm.ms_norm|]. rewrite En. apply RxNorm.ms_norm.
Qed.

(* ======== the other half: every occurrence of a case variant of a listed word is matched ======== *)
Require RxSub Ipv4Token.
Lemma lang_lit_icase_self (w t : list chr) : Forall2 folds_to t w -> lang (lit_icase_rx w) t.
Proof.
  induction 1 as [|x c t w Hx _ IH]; cbn [lit_icase_rx fold_right]; [constructor|]. fold (lit_icase_rx w). change (x :: t) with ([x] ++ t)%list.
  constructor; [constructor; exact Hx|exact IH].
Qed.
Lemma lang_alt_icase_in (ws : list (list chr)) w t : In w ws -> Forall2 folds_to t w -> lang (alt_of (map lit_icase_rx ws)) t.
Proof.
  induction ws as [|m [|m2 ws] IH]; intros H F; [destruct H| |].
  - destruct H as [<-|[]]. cbn [map alt_of]. now apply lang_lit_icase_self.
  - cbn [map alt_of]. destruct H as [<-|H]; [apply LAltL; now apply lang_lit_icase_self|apply LAltR, IH; assumption].
Qed.
Lemma wfr_lit_icase w : wfr (lit_icase_rx w) = true.
Proof. induction w as [|c w IH]; cbn [lit_icase_rx fold_right wfr]; [reflexivity|]. fold (lit_icase_rx w). exact IH. Qed.
Lemma wfr_alt_icase (ws : list (list chr)) : wfr (alt_of (map lit_icase_rx ws)) = true.
Proof. induction ws as [|n [|m ws] IH]; cbn [map alt_of wfr]; [reflexivity|apply wfr_lit_icase|]. rewrite wfr_lit_icase. exact IH. Qed.

Theorem word_occurrence_is_matched (s : list chr) (words reserved : list str) (salt : str) (a : word_anonymizer) (w t : list chr) i c :
  word_init words salt reserved = Done a -> In w (map lower_str words) -> Forall2 folds_to t w -> occ s t i ->
  exists j c', In (j, c') (ms s (w_regex a) i c).
Proof.
  intros E Hin F O. unfold word_init in E. destruct (forallb word_safe words); cbn [negb] in E; [|discriminate]. injection E as <-. cbn [w_regex].
  assert (Hs : In w (sort_words (map lower_str words))) by (now apply (proj2 (SortProofs.sort_words_spec _))).
  destruct (lang_ms s _ (pure_alt_icase _) (wfr_alt_icase _) t i c (lang_alt_icase_in _ w t Hs F) O) as (c1 & H1).
  do 2 eexists. cbn [ms]. apply in_map_iff. eexists (_, c1). split; [reflexivity|exact H1].
Qed.

(* hence the leftmost search over a token that contains such an occurrence finds a match: the token is rewritten (unless it is a reserved word, which the
   stage tests first) *)
Theorem word_occurrence_makes_the_pattern_match (s : list chr) (words reserved : list str) (salt : str) (a : word_anonymizer) (w t : list chr) i :
  word_init words salt reserved = Done a -> In w (map lower_str words) -> w <> [] -> Forall2 folds_to t w -> occ s t i ->
  RxSub.search s (w_regex a) <> None.
Proof.
  intros E Hin Hw F O. destruct (word_occurrence_is_matched s words reserved salt a w t i [] E Hin F O) as (j & c' & H).
  assert (Ht : t <> []) by (inversion F; subst; [contradiction|discriminate]).
  assert (Hi : i <= List.length s) by (pose proof (occ_len s _ _ O Ht); lia).
  assert (M : exists p, match_at s (w_regex a) i = Some p).
  { unfold match_at. rewrite m_is_first_of_ms. destruct (ms s _ i []) as [|p l]; [destruct H|]. cbn [first_some]. eauto. }
  destruct M as ([b cb] & M). unfold RxSub.search.
  destruct (Ipv4Token.search_from_finds s _ (Rx.slen s) 0 i b cb M ltac:(lia) ltac:(unfold Rx.slen; lia)) as (a' & b' & c'' & S & _). rewrite S. discriminate.
Qed.
