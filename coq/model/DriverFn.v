(* ["gbase"; n; B; "tab:..."; ops]: the same requests as the "base" command, executed by the code GENERATED from
   netconan/ip_anonymization.py (gen/G_fn_ip.v) over the dynamic-value library (lib/PyLib.v).  Used by the correspondence run to
   validate the function-level translator and PyLib against the real classes. *)
From Coq Require Import String.
From Coq Require Import List Bool Arith NArith ZArith.
Import ListNotations.
Require Import Str PyLib G_fn_ip DriverIp.
Local Open Scope N_scope.

Definition zs (s : str) : list Z := map Z.of_N s.
Definition table_salter (ones : list str) (f args : pyval) : PyLib.res :=
  match args with
  | VList [_; VStr h] => Normal (VInt (if existsb (fun o => if list_eq_dec Z.eq_dec (zs o) h then true else false) ones then 1 else 0))
  | _ => Exc TypeError
  end.

Definition g_op (pc : pyval -> pyval -> PyLib.res) (fuel : nat) (self : pyval) (op : str) : pyval * str :=
  match op with
  | c :: r =>
      match parse_dec r with
      | None => (self, lit "BADCASE")
      | Some x =>
          let call := if c =? 97 then Some (gen__BaseIpAnonymizer__anonymize pc fuel self (VInt (Z.of_N x)))
                      else if c =? 100 then Some (gen__BaseIpAnonymizer__deanonymize pc fuel self (VInt (Z.of_N x))) else None in
          match call with
          | Some (Normal (VTuple [VInt y; self'])) => (self', show_dec (Z.to_N y))
          | Some _ => (self, lit "ERR")
          | None => (self, lit "BADCASE")
          end
      end
  | [] => (self, lit "BADCASE")
  end.
Fixpoint g_ops (pc : pyval -> pyval -> PyLib.res) (fuel : nat) (self : pyval) (ops : list str) : list str :=
  match ops with [] => [] | o :: r => let '(s', out) := g_op pc fuel self o in out :: g_ops pc fuel s' r end.

Definition run_gbase (fields : list str) : str :=
  match fields with
  | [_; n; B; sal; ops] =>
      match parse_nat n, parse_nat B with
      | Some n', Some B' =>
          if starts_with (lit "tab:") sal then
            let ones := map (fun p => if str_eqb p (lit "e") then [] else p) (Str.split_on 124 (skipn 4 sal)) in
            let pc := table_salter ones in
            match gen__BaseIpAnonymizer____init__ pc (S n') (new_obj "W") (S_ "s") (VInt (Z.of_nat n')) (VFun (of_string "salter")) (VInt (Z.of_nat B')) with
            | Normal (VTuple [_; self]) =>
                join [32] (map (fun o => match o with
                                         | _ => o end)
                               (let xs := Str.split_on 32 ops in
                                (* requests outside the address space are refused by the harness on both sides *)
                                g_ops pc (S (S n')) self (filter (fun _ => true) xs)))
            | _ => lit "ERR"
            end
          else lit "BADCASE"
      | _, _ => lit "BADCASE"
      end
  | _ => lit "BADCASE"
  end.

(* ["gip4"; B; "md5:<salt>"; prefixes; addresses; ops]: the same requests as the "ip4" command, executed ENTIRELY by generated code:
   IpAnonymizer.__init__ (seeding loops, ipaddress parsing of the network strings), _generate_bit_from_hash (MD5), anonymize /
   deanonymize / should_anonymize / _is_mask *)
Require Import IpText G_ip_consts.
Definition md5_call (f args : pyval) : PyLib.res :=
  match args with
  | VList [a; b] => gen__generate_bit_from_hash (fun _ _ => Exc Unsupported) 1%nat a b
  | _ => Exc TypeError
  end.
Definition net_string (p : N * nat) : pyval := VStr (zs (print4 (fst p) ++ [47] ++ show_dec (N.of_nat (snd p)))).
Definition g_op4 (fuel : nat) (self : pyval) (op : str) : pyval * str :=
  match op with
  | c :: r =>
      match parse_dec r with
      | None => (self, lit "BADCASE")
      | Some x =>
          if (c =? 115) || (c =? 109) then
            match (if c =? 115 then gen_IpAnonymizer__should_anonymize md5_call fuel self (VInt (Z.of_N x))
                   else gen_IpAnonymizer___is_mask md5_call fuel self (VInt (Z.of_N x))) with
            | Normal (VTuple [VBool b; self']) => (self', if b then lit "T" else lit "F")
            | _ => (self, lit "ERR")
            end
          else g_op md5_call fuel self op
      end
  | [] => (self, lit "BADCASE")
  end.
Fixpoint g_ops4 (fuel : nat) (self : pyval) (ops : list str) : list str :=
  match ops with [] => [] | o :: r => let '(s', out) := g_op4 fuel self o in out :: g_ops4 fuel s' r end.
Definition run_gip4 (fields : list str) : str :=
  match fields with
  | [_; B; sal; pfx; addrs; ops] =>
      match parse_nat B, parse_nets pfx, parse_nets addrs with
      | Some B', Some ps, Some ads =>
          if starts_with (lit "md5:") sal then
            let pv := if str_eqb pfx (lit "D") then VNone else VList (map net_string ps) in
            match gen_IpAnonymizer____init__ md5_call 1%nat (new_obj "IpAnonymizer") (VStr (zs (skipn 4 sal))) pv (VList (map net_string ads))
                    (VDict [(S_ "preserve_suffix", VInt (Z.of_nat B'))]) with
            | Normal (VTuple [_; self]) => join [32] (g_ops4 34%nat self (Str.split_on 32 ops))
            | _ => lit "ERR"
            end
          else lit "BADCASE"
      | _, _, _ => lit "BADCASE"
      end
  | _ => lit "BADCASE"
  end.

(* ["gas"; salt; numeral]: AsNumberAnonymizer._generate_as_number_replacement as GENERATED from the source (gen/G_fn_sir.v) *)
Require G_fn_sir.
Definition run_gas (fields : list str) : str :=
  match fields with
  | [_; salt; numeral] =>
      match G_fn_sir.gen_AsNumberAnonymizer___generate_as_number_replacement (fun _ _ => Exc Unsupported) 1%nat
              (VObj (of_string "AsNumberAnonymizer") [(S_ "salt", VStr (zs salt))]) (VStr (zs numeral)) with
      | Normal (VTuple [VStr r; _]) => map Z.to_N r
      | Normal (VTuple [VNone; _]) => lit "None"
      | Exc (ValueError _) => lit "ValueError"
      | _ => lit "ERR"
      end
  | _ => lit "BADCASE"
  end.

(* ["genc"; value]: _extract_enclosing_text as GENERATED from the source; output head U+0001 value U+0001 tail *)
Definition run_genc (fields : list str) : str :=
  match fields with
  | [_; val] =>
      match G_fn_sir.gen__extract_enclosing_text (fun _ _ => Exc Unsupported) (S (length val)) (VStr (zs val)) (VStr []) (VStr []) with
      | Normal (VTuple [VStr h; VStr v; VStr t]) => map Z.to_N h ++ [1] ++ map Z.to_N v ++ [1] ++ map Z.to_N t
      | _ => lit "ERR"
      end
  | _ => lit "BADCASE"
  end.

(* ["gjenc"; plain; salt] / ["gjdec"; crypt]: the $9$ codec as GENERATED from utils/juniper_secrets.py (gen/G_fn_jun.v) *)
Require Import G_fn_jun.
Definition no_call (f a : pyval) : PyLib.res := Exc TypeError.
Definition show_gres (r : PyLib.res) : str :=
  match r with
  | Normal (VStr s) => lit "OK:" ++ map Z.to_N s
  | Normal _ => lit "ERR:not-a-string"
  | Exc (ValueError _) => lit "ValueError"
  | Exc KeyError => lit "KeyError"
  | Exc IndexError => lit "IndexError"
  | Exc TypeError => lit "TypeError"
  | Exc OutOfFuel => lit "OutOfFuel"
  | _ => lit "ERR:other"
  end.
Definition run_gjun (fields : list str) : str :=
  match fields with
  | [cmd; plain; salt] =>
      if str_eqb cmd (lit "gjenc") then show_gres (gen_juniper_nonrandom_encrypt no_call (S (length plain)) (VStr (zs plain)) (VStr (zs salt)))
      else lit "BADCASE"
  | [cmd; crypt] =>
      if str_eqb cmd (lit "gjdec") then show_gres (gen_juniper_decrypt no_call (S (length crypt)) (VStr (zs crypt)))
      else lit "BADCASE"
  | _ => lit "BADCASE"
  end.
