(* ["gbase"; n; B; "tab:..."; ops]: the same requests as the "base" command, executed by the code GENERATED from
   netconan/ip_anonymization.py (gen/G_fn_ip.v) over the dynamic-value library (lib/PyLib.v).  Used by the correspondence run to
   validate the function-level translator and PyLib against the real classes. *)
From Coq Require Import String.
From Coq Require Import List Bool Arith NArith ZArith.
Import ListNotations.
Require Import Str PyLib G_fn_ip DriverIp.
Local Open Scope N_scope.

Definition zs (s : str) : list Z := map Z.of_N s.
Definition table_salter (ones : list str) (f args : pyval) : PyLib.res :=
  match args with
  | VList [_; VStr h] => Normal (VInt (if existsb (fun o => if list_eq_dec Z.eq_dec (zs o) h then true else false) ones then 1 else 0))
  | _ => Exc TypeError
  end.

Definition g_op (pc : pyval -> pyval -> PyLib.res) (fuel : nat) (self : pyval) (op : str) : pyval * str :=
  match op with
  | c :: r =>
      match parse_dec r with
      | None => (self, lit "BADCASE")
      | Some x =>
          let call := if c =? 97 then Some (gen__BaseIpAnonymizer__anonymize pc fuel self (VInt (Z.of_N x)))
                      else if c =? 100 then Some (gen__BaseIpAnonymizer__deanonymize pc fuel self (VInt (Z.of_N x))) else None in
          match call with
          | Some (Normal (VTuple [VInt y; self'])) => (self', show_dec (Z.to_N y))
          | Some _ => (self, lit "ERR")
          | None => (self, lit "BADCASE")
          end
      end
  | [] => (self, lit "BADCASE")
  end.
Fixpoint g_ops (pc : pyval -> pyval -> PyLib.res) (fuel : nat) (self : pyval) (ops : list str) : list str :=
  match ops with [] => [] | o :: r => let '(s', out) := g_op pc fuel self o in out :: g_ops pc fuel s' r end.

Definition run_gbase (fields : list str) : str :=
  match fields with
  | [_; n; B; sal; ops] =>
      match parse_nat n, parse_nat B with
      | Some n', Some B' =>
          if starts_with (lit "tab:") sal then
            let ones := map (fun p => if str_eqb p (lit "e") then [] else p) (Str.split_on 124 (skipn 4 sal)) in
            let pc := table_salter ones in
            match gen__BaseIpAnonymizer____init__ pc (S n') (new_obj "W") (S_ "s") (VInt (Z.of_nat n')) (VFun (of_string "salter")) (VInt (Z.of_nat B')) with
            | Normal (VTuple [_; self]) =>
                join [32] (map (fun o => match o with
                                         | _ => o end)
                               (let xs := Str.split_on 32 ops in
                                (* requests outside the address space are refused by the harness on both sides *)
                                g_ops pc (S (S n')) self (filter (fun _ => true) xs)))
            | _ => lit "ERR"
            end
          else lit "BADCASE"
      | _, _ => lit "BADCASE"
      end
  | _ => lit "BADCASE"
  end.
