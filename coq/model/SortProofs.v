(* C13: the order of the sensitive-word alternation does not depend on the order in which the words are presented
   (Python builds it from a set, whose iteration order depends on PYTHONHASHSEED): sort_words is a function of the SET of words. *)
From Coq Require Import String.
From Coq Require Import List Bool Arith NArith Lia Sorting.Sorted.
Import ListNotations.
Require Import Str TextModel.
Local Open Scope N_scope.

(* ---- lexicographic order on strings ---- *)
Lemma str_ltb_irrefl a : str_ltb a a = false.
Proof. induction a as [|x a IH]; [reflexivity|]. cbn [str_ltb]. rewrite N.ltb_irrefl. exact IH. Qed.
Lemma str_ltb_trans : forall a b c, str_ltb a b = true -> str_ltb b c = true -> str_ltb a c = true.
Proof.
  induction a as [|x a IH]; intros [|y b] [|z c] H1 H2; cbn [str_ltb] in *; try discriminate; auto.
  destruct (N.ltb_spec x y) as [Lxy|Gxy].
  - destruct (N.ltb_spec y z) as [Lyz|Gyz].
    + replace (x <? z) with true by (symmetry; apply N.ltb_lt; lia). reflexivity.
    + destruct (N.ltb_spec z y) as [Lzy|Gzy]; [discriminate|]. assert (y = z) by lia. subst. replace (x <? z) with true by (symmetry; apply N.ltb_lt; lia). reflexivity.
  - destruct (N.ltb_spec y x) as [Lyx|Gyx]; [discriminate|]. assert (x = y) by lia. subst.
    destruct (N.ltb_spec y z) as [Lyz|Gyz]; [reflexivity|].
    destruct (N.ltb_spec z y) as [Lzy|Gzy]; [discriminate|]. eapply IH; eauto.
Qed.
Lemma str_ltb_total : forall a b, a <> b -> str_ltb a b = true \/ str_ltb b a = true.
Proof.
  induction a as [|x a IH]; intros b Hne; destruct b as [|y b].
  - congruence.
  - left. reflexivity.
  - right. reflexivity.
  - cbn [str_ltb]. destruct (N.ltb_spec x y); [now left|]. destruct (N.ltb_spec y x); [now right|].
    assert (x = y) by lia. subst. apply IH. congruence.
Qed.

(* ---- the key (-len(w), w) ---- *)
Definition lt (a b : str) : Prop := word_before a b = true.
Lemma lt_irrefl a : ~ lt a a.
Proof. unfold lt, word_before. rewrite Nat.ltb_irrefl, str_ltb_irrefl. discriminate. Qed.
Lemma lt_trans a b c : lt a b -> lt b c -> lt a c.
Proof.
  unfold lt, word_before. intros H1 H2.
  destruct (Nat.ltb_spec (length b) (length a)) as [L1|L1]; destruct (Nat.ltb_spec (length c) (length b)) as [L2|L2];
  destruct (Nat.ltb_spec (length c) (length a)) as [L3|L3]; try lia; try reflexivity.
  - destruct (Nat.ltb_spec (length b) (length c)); [discriminate|lia].
  - destruct (Nat.ltb_spec (length a) (length b)); [discriminate|lia].
  - destruct (Nat.ltb_spec (length a) (length b)) as [L4|L4]; [discriminate|].
    destruct (Nat.ltb_spec (length b) (length c)) as [L5|L5]; [discriminate|].
    destruct (Nat.ltb_spec (length a) (length c)) as [L6|L6]; [lia|]. eapply str_ltb_trans; eauto.
Qed.
Lemma lt_total a b : a <> b -> lt a b \/ lt b a.
Proof.
  unfold lt, word_before. intros Hne.
  destruct (Nat.ltb_spec (length b) (length a)); [now left|].
  destruct (Nat.ltb_spec (length a) (length b)); [now right|].
  now apply str_ltb_total.
Qed.

(* ---- insertion keeps the list strictly sorted and adds exactly the word ---- *)
Lemma insert_in w l x : In x (insert_word w l) <-> x = w \/ In x l.
Proof.
  induction l as [|y l IH]; cbn [insert_word]; [simpl; intuition|].
  destruct (word_before w y); simpl; [intuition|]. rewrite IH. intuition.
Qed.
Lemma insert_sorted w l : StronglySorted lt l -> ~ In w l -> StronglySorted lt (insert_word w l).
Proof.
  induction l as [|y l IH]; intros Hs Hn; cbn [insert_word]; [repeat constructor|].
  inversion Hs as [|? ? Hs' Hall]; subst.
  destruct (word_before w y) eqn:E.
  - constructor; [exact Hs|]. constructor; [exact E|]. rewrite Forall_forall in *. intros z Hz. eapply lt_trans; [exact E|auto].
  - assert (Hyw : lt y w).
    { destruct (lt_total w y) as [C|C]; [intros ->; apply Hn; now left|unfold lt in C; congruence|exact C]. }
    constructor; [apply IH; auto; intros C; apply Hn; now right|].
    rewrite Forall_forall in *. intros z Hz. apply insert_in in Hz as [->|Hz]; auto.
Qed.

(* ---- dedup ---- *)
Lemma dedup_spec l : forall acc, NoDup acc ->
  NoDup (fold_left (fun acc w => if mem_str w acc then acc else acc ++ [w]) l acc) /\
  forall x, In x (fold_left (fun acc w => if mem_str w acc then acc else acc ++ [w]) l acc) <-> In x acc \/ In x l.
Proof.
  induction l as [|w l IH]; intros acc Hnd; cbn [fold_left]; [split; [exact Hnd|intros x; simpl; intuition]|].
  destruct (mem_str w acc) eqn:E.
  - destruct (IH acc Hnd) as [N1 I1]. split; [exact N1|]. intros x. rewrite I1. simpl.
    unfold mem_str in E. apply existsb_exists in E as [y [Hy Ey]]. apply str_eqb_eq in Ey. subst y. intuition (subst; auto).
  - assert (Hn : ~ In w acc).
    { intros C. assert (mem_str w acc = true) by (unfold mem_str; apply existsb_exists; exists w; split; auto; apply str_eqb_refl). congruence. }
    assert (Hnd' : NoDup (acc ++ [w])).
    { clear - Hnd Hn. induction acc as [|a acc IHa]; simpl; [constructor; [intros []|constructor]|].
      inversion Hnd; subst. constructor.
      - intros C. apply in_app_or in C as [C|[C|[]]]; auto. subst. apply Hn. now left.
      - apply IHa; auto. intros C. apply Hn. now right. }
    destruct (IH _ Hnd') as [N1 I1]. split; [exact N1|]. intros x. rewrite I1, in_app_iff. simpl. intuition.
Qed.

(* ---- sort_words: strictly sorted, same elements as its input ---- *)
Lemma fold_insert_spec l : forall acc, StronglySorted lt acc -> NoDup l -> (forall x, In x l -> ~ In x acc) ->
  StronglySorted lt (fold_left (fun acc w => insert_word w acc) l acc) /\
  forall x, In x (fold_left (fun acc w => insert_word w acc) l acc) <-> In x acc \/ In x l.
Proof.
  induction l as [|w l IH]; intros acc Hs Hnd Hdis; cbn [fold_left]; [split; [exact Hs|intros x; simpl; intuition]|].
  inversion Hnd as [|? ? Hw Hnd']; subst.
  destruct (IH (insert_word w acc)) as [S1 I1].
  - apply insert_sorted; auto. apply Hdis. now left.
  - exact Hnd'.
  - intros x Hx C. apply insert_in in C as [->|C]; [contradiction|]. apply (Hdis x); auto. now right.
  - split; [exact S1|]. intros x. rewrite I1, insert_in. simpl. intuition.
Qed.
Theorem sort_words_spec l : StronglySorted lt (sort_words l) /\ forall x, In x (sort_words l) <-> In x l.
Proof.
  unfold sort_words, dedup. destruct (dedup_spec l [] (NoDup_nil _)) as [Nd Id].
  destruct (fold_insert_spec _ [] (SSorted_nil _) Nd (fun x _ C => C)) as [S1 I1].
  split; [exact S1|]. intros x. rewrite I1, Id. simpl. intuition.
Qed.

(* two strictly sorted lists with the same elements are equal *)
Lemma sorted_unique : forall l1 l2, StronglySorted lt l1 -> StronglySorted lt l2 -> (forall x, In x l1 <-> In x l2) -> l1 = l2.
Proof.
  induction l1 as [|a l1 IH]; intros [|b l2] S1 S2 Hin.
  - reflexivity.
  - exfalso. apply (proj2 (Hin b)). now left.
  - exfalso. apply (proj1 (Hin a)). now left.
  - inversion S1 as [|? ? S1' F1]; inversion S2 as [|? ? S2' F2]; subst. rewrite Forall_forall in F1, F2.
    assert (a = b).
    { destruct (proj1 (Hin a) (or_introl eq_refl)) as [E|Ha]; [auto|].
      destruct (proj2 (Hin b) (or_introl eq_refl)) as [E|Hb]; [auto|].
      exfalso. apply (lt_irrefl a). eapply lt_trans; [apply F1; exact Hb|apply F2; exact Ha]. }
    subst b. f_equal. apply IH; auto. intros x. split; intros Hx.
    + destruct (proj1 (Hin x) (or_intror Hx)) as [E|H']; auto. subst. exfalso. exact (lt_irrefl _ (F1 _ Hx)).
    + destruct (proj2 (Hin x) (or_intror Hx)) as [E|H']; auto. subst. exfalso. exact (lt_irrefl _ (F2 _ Hx)).
Qed.

Theorem sort_words_depends_only_on_the_set_of_words :
  forall l1 l2, (forall w, In w l1 <-> In w l2) -> sort_words l1 = sort_words l2.
Proof.
  intros l1 l2 H. destruct (sort_words_spec l1) as [S1 I1]. destruct (sort_words_spec l2) as [S2 I2].
  apply sorted_unique; auto. intros x. rewrite I1, I2. apply H.
Qed.
Print Assumptions sort_words_depends_only_on_the_set_of_words.
