(* Single entry point for the correspondence check: one case = list of string fields -> one result string. *)
From Coq Require Import String.
From Coq Require Import List Bool Arith NArith.
Import ListNotations.
Require Import Str DriverIp DriverJun.
Local Open Scope N_scope.

Definition run_case (fields : list str) : str :=
  match fields with
  | cmd :: _ =>
      if mem_str cmd [lit "base"; lit "ip4"; lit "ip6"] then run_ip fields
      else if mem_str cmd [lit "jenc"; lit "jdec"] then run_jun fields
      else lit "BADCMD"
  | [] => lit "BADCMD"
  end.
