(* Single entry point for the correspondence check: one case = list of string fields -> one result string. *)
From Coq Require Import String.
From Coq Require Import List Bool Arith NArith.
Import ListNotations.
Require Import Str DriverIp DriverJun DriverText DriverCli DriverFn.
Local Open Scope N_scope.

Definition run_case (fields : list str) : str :=
  match fields with
  | cmd :: _ =>
      if mem_str cmd [lit "base"; lit "ip4"; lit "ip6"] then run_ip fields
      else if mem_str cmd [lit "jenc"; lit "jdec"] then run_jun fields
      else if str_eqb cmd (lit "pipe") then run_pipe fields
      else if str_eqb cmd (lit "asr") then run_asr fields
      else if str_eqb cmd (lit "mainm") then run_mainm fields
      else if str_eqb cmd (lit "gbase") then run_gbase fields
      else if str_eqb cmd (lit "gip4") then run_gip4 fields
      else if str_eqb cmd (lit "gas") then run_gas fields
      else if str_eqb cmd (lit "genc") then run_genc fields
      else if mem_str cmd [lit "gjenc"; lit "gjdec"] then run_gjun fields
      else lit "BADCMD"
  | [] => lit "BADCMD"
  end.
