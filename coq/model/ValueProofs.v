(* _anonymize_value on the executable model: a FRESH replacement is a function of the lookup's size, the value's format class and
   (for md5-crypt) its salt length only -- never of the value's content (C07); a later request for the same value hits the lookup and
   returns the stored replacement (C08). *)
From Coq Require Import String.
From Coq Require Import List Bool Arith NArith ZArith Lia.
Import ListNotations.
Require Import Str IpText Rx RxFacts RxSub G_rx G_text_consts G_juniper JunModel TextModel.
Local Open Scope N_scope.

Definition md5_salt_size (val : str) : N := N.min (N.of_nat (length (nth 2 (split_on 36 val) []))) 8.

(* clear-text values (not $9$): two values of the same class met by lookups of the same size that do not know them get the SAME replacement text *)
Theorem fresh_replacement_depends_only_on_class_and_counter :
  forall orc reserved salt raw1 raw2 lk1 lk2 h t v1 v2,
  extract_enclosing raw1 [] [] = (h, v1, t) -> extract_enclosing raw2 [] [] = (h, v2, t) ->
  mem_str v1 reserved = false -> mem_str v2 reserved = false -> is_empty v1 = false -> is_empty v2 = false ->
  starts_with MAGIC v1 = false -> starts_with MAGIC v2 = false ->
  check_format v1 = check_format v2 -> md5_salt_size v1 = md5_salt_size v2 ->
  lget lk1 v1 = None -> lget lk2 v2 = None -> length lk1 = length lk2 ->
  match anonymize_value orc raw1 lk1 reserved salt, anonymize_value orc raw2 lk2 reserved salt with
  | Done (o1, lk1'), Done (o2, lk2') => o1 = o2 /\ length lk1' = length lk2' /\ length lk1' = S (length lk1)
  | Raised w1, Raised w2 => w1 = w2
  | _, _ => False
  end.
Proof.
  intros orc reserved salt raw1 raw2 lk1 lk2 h t v1 v2 E1 E2 R1 R2 N1 N2 M1 M2 F S G1 G2 L.
  unfold anonymize_value. rewrite E1, E2, R1, R2, N1, N2, M1, M2. cbn [obind]. rewrite G1, G2. cbn [obind].
  rewrite <- F. fold (md5_salt_size v1). fold (md5_salt_size v2). rewrite <- S, <- L.
  set (anon0 := (lit "netconanRemoved" ++ show_dec (N.of_nat (length lk1)))%list).
  set (a1 := if check_format v1 =? F_TYPE7 then type7_hash 9 anon0 else anon0).
  set (a2 := if check_format v1 =? F_NUMERIC then to_decimal_of_bytes a1 else a1).
  set (a3 := if check_format v1 =? F_HEX then hex_of_bytes (ascii_bytes a2) else a2).
  destruct (check_format v1 =? F_MD5).
  - destruct (olookup orc (lit "m" ++ show_dec (md5_salt_size v1) ++ [58] ++ a3)%list) as [hh|]; cbn [obind]; [|reflexivity].
    destruct (check_format v1 =? F_SHA512).
    + destruct (olookup orc (lit "s:" ++ hh)%list) as [h5|]; cbn [obind]; [|reflexivity].
      destruct (check_format v1 =? F_JUNIPER).
      * destruct (jun_encrypt_o h5 salt) as [a6|w]; cbn [obind]; [|reflexivity]. unfold lset. rewrite G1, G2. rewrite !app_length. cbn. repeat split; lia.
      * cbn [obind]. unfold lset. rewrite G1, G2. rewrite !app_length. cbn. repeat split; lia.
    + cbn [obind]. destruct (check_format v1 =? F_JUNIPER).
      * destruct (jun_encrypt_o hh salt) as [a6|w]; cbn [obind]; [|reflexivity]. unfold lset. rewrite G1, G2. rewrite !app_length. cbn. repeat split; lia.
      * cbn [obind]. unfold lset. rewrite G1, G2. rewrite !app_length. cbn. repeat split; lia.
  - cbn [obind]. destruct (check_format v1 =? F_SHA512).
    + destruct (olookup orc (lit "s:" ++ a3)%list) as [h5|]; cbn [obind]; [|reflexivity].
      destruct (check_format v1 =? F_JUNIPER).
      * destruct (jun_encrypt_o h5 salt) as [a6|w]; cbn [obind]; [|reflexivity]. unfold lset. rewrite G1, G2. rewrite !app_length. cbn. repeat split; lia.
      * cbn [obind]. unfold lset. rewrite G1, G2. rewrite !app_length. cbn. repeat split; lia.
    + cbn [obind]. destruct (check_format v1 =? F_JUNIPER).
      * destruct (jun_encrypt_o a3 salt) as [a6|w]; cbn [obind]; [|reflexivity]. unfold lset. rewrite G1, G2. rewrite !app_length. cbn. repeat split; lia.
      * cbn [obind]. unfold lset. rewrite G1, G2. rewrite !app_length. cbn. repeat split; lia.
Qed.

(* a value the lookup knows gets the stored replacement back, the lookup is not touched (consistency within a run) *)
Theorem known_value_gets_its_stored_replacement :
  forall orc reserved salt raw lk h v t anon,
  extract_enclosing raw [] [] = (h, v, t) -> mem_str v reserved = false -> is_empty v = false -> starts_with MAGIC v = false ->
  lget lk v = Some anon ->
  anonymize_value orc raw lk reserved salt = Done ((h ++ anon ++ t)%list, lk).
Proof.
  intros orc reserved salt raw lk h v t anon E R N M G.
  unfold anonymize_value. rewrite E, R, N, M. cbn [obind]. rewrite G. reflexivity.
Qed.

(* and the stored replacement is exactly what the first request returned *)
Lemma lget_lset_same l k v : lget (lset l k v) k = Some v.
Proof.
  unfold lset. destruct (lget l k) eqn:G.
  - induction l as [|[k0 v0] l IH]; [discriminate|]. cbn [lget map fst] in *. destruct (str_eqb k k0) eqn:E.
    + cbn [lget]. rewrite (proj2 (str_eqb_eq k0 k) ltac:(symmetry; now apply str_eqb_eq)) . cbn [lget]. rewrite str_eqb_refl. reflexivity.
    + assert (E' : str_eqb k0 k = false).
      { destruct (str_eqb k0 k) eqn:X; auto. apply str_eqb_eq in X. subst. rewrite str_eqb_refl in E. discriminate. }
      rewrite E'. cbn [lget]. rewrite E. now apply IH.
  - induction l as [|[k0 v0] l IH]; cbn [app lget]; [now rewrite str_eqb_refl|].
    cbn [lget] in G. destruct (str_eqb k k0); [discriminate|]. now apply IH.
Qed.
Print Assumptions fresh_replacement_depends_only_on_class_and_counter.
Print Assumptions known_value_gets_its_stored_replacement.
