(* Executable model of AsNumberAnonymizer._generate_as_number_replacement over the GENERATED boundary table,
   and the block-preservation theorem for EVERY hash value (C11). *)
From Coq Require Import List Bool Arith NArith ZArith Lia.
Import ListNotations.
Require Import Str Md5 G_as_num.
Local Open Scope Z_scope.

Inductive asres := AsOk (r : Z) | AsValueError | AsNone.

(* for next_block_begin in _AS_NUM_BOUNDARIES: if as_number < next_block_begin: return hash % (next - begin) + begin *)
Fixpoint as_loop (h asn block_begin : Z) (bs : list Z) : option Z :=
  match bs with
  | [] => None                                  (* falls off the loop: Python returns None *)
  | nb :: r => if asn <? nb then Some (h mod (nb - block_begin) + block_begin) else as_loop h asn nb r
  end.
Definition as_repl (h asn : Z) : asres :=
  if (asn <? 0) || (4294967295 <? asn) then AsValueError
  else match as_loop h asn 0 AS_NUM_BOUNDARIES with Some r => AsOk r | None => AsNone end.

(* int(md5((salt + as_number).encode()).hexdigest(), 16): the digest read as a big-endian integer *)
Definition hash_int (salt numeral : str) : option Z :=
  match utf8 (salt ++ numeral) with
  | Some bytes => Some (fold_left (fun acc b => 256 * acc + Z.of_N b) (md5 bytes) 0)
  | None => None
  end.
(* the replacement text for a numeral made of ASCII digits *)
Definition as_replacement_text (salt numeral : str) : option asres :=
  match parse_dec numeral, hash_int salt numeral with
  | Some n, Some h => Some (as_repl h (Z.of_N n))
  | _, _ => None
  end.

(* block function written from the property text *)
Definition block (a : Z) : Z :=
  if a <=? 64511 then 0 else if a <=? 65535 then 1 else if a <=? 4199999999 then 2 else 3.

Theorem as_block_preserved h asn : 0 <= h -> 0 <= asn <= 4294967295 ->
  exists r, as_repl h asn = AsOk r /\ 0 <= r <= 4294967295 /\ block r = block asn.
Proof.
  intros Hh Ha. unfold as_repl.
  destruct ((asn <? 0) || (4294967295 <? asn)) eqn:E; [apply orb_true_iff in E; lia|]. clear E.
  unfold AS_NUM_BOUNDARIES. cbn [as_loop].
  destruct (asn <? 0) eqn:E0; [lia|].
  destruct (asn <? 64512) eqn:E1.
  { eexists. split; [reflexivity|]. pose proof (Z.mod_pos_bound h (64512 - 0) ltac:(lia)). unfold block.
    destruct (asn <=? 64511) eqn:?; [|lia]. destruct (h mod (64512 - 0) + 0 <=? 64511) eqn:?; lia. }
  destruct (asn <? 65536) eqn:E2.
  { eexists. split; [reflexivity|]. pose proof (Z.mod_pos_bound h (65536 - 64512) ltac:(lia)). unfold block.
    destruct (asn <=? 64511) eqn:?; [lia|]. destruct (asn <=? 65535) eqn:?; [|lia].
    destruct (h mod (65536 - 64512) + 64512 <=? 64511) eqn:?; [lia|]. destruct (h mod (65536 - 64512) + 64512 <=? 65535) eqn:?; lia. }
  destruct (asn <? 4200000000) eqn:E3.
  { eexists. split; [reflexivity|]. pose proof (Z.mod_pos_bound h (4200000000 - 65536) ltac:(lia)). unfold block.
    destruct (asn <=? 64511) eqn:?; [lia|]. destruct (asn <=? 65535) eqn:?; [lia|]. destruct (asn <=? 4199999999) eqn:?; [|lia].
    destruct (h mod (4200000000 - 65536) + 65536 <=? 64511) eqn:?; [lia|]. destruct (h mod (4200000000 - 65536) + 65536 <=? 65535) eqn:?; [lia|].
    destruct (h mod (4200000000 - 65536) + 65536 <=? 4199999999) eqn:?; lia. }
  destruct (asn <? 4294967296) eqn:E4; [|lia].
  { eexists. split; [reflexivity|]. pose proof (Z.mod_pos_bound h (4294967296 - 4200000000) ltac:(lia)). unfold block.
    destruct (asn <=? 64511) eqn:?; [lia|]. destruct (asn <=? 65535) eqn:?; [lia|]. destruct (asn <=? 4199999999) eqn:?; [lia|].
    destruct (h mod (4294967296 - 4200000000) + 4200000000 <=? 64511) eqn:?; [lia|]. destruct (h mod (4294967296 - 4200000000) + 4200000000 <=? 65535) eqn:?; [lia|].
    destruct (h mod (4294967296 - 4200000000) + 4200000000 <=? 4199999999) eqn:?; lia. }
Qed.

Theorem as_out_of_range_rejected h asn : asn < 0 \/ 4294967295 < asn -> as_repl h asn = AsValueError.
Proof. intros H. unfold as_repl. destruct ((asn <? 0) || (4294967295 <? asn)) eqn:E; auto. apply orb_false_iff in E. lia. Qed.

(* the hash value is never negative, so the theorem above applies to every salt and numeral *)
Lemma hash_int_nonneg salt numeral h : hash_int salt numeral = Some h -> 0 <= h.
Proof.
  unfold hash_int. destruct (utf8 (salt ++ numeral)); [|discriminate]. intros [= <-].
  assert (G : forall bs acc, 0 <= acc -> 0 <= fold_left (fun acc b => 256 * acc + Z.of_N b) bs acc).
  { intros bs. induction bs as [|x bs IHbs]; intros acc Hacc; [exact Hacc|]. cbn [fold_left]. apply IHbs. lia. }
  apply G. lia.
Qed.

(* both ends of every replacement range are reachable: non-vacuity of the hash quantifier *)
Example as_range_ends : as_repl 0 65000 = AsOk 64512 /\ as_repl 1023 65000 = AsOk 65535 /\ as_repl 1024 65000 = AsOk 64512
                        /\ as_repl 64511 7 = AsOk 64511 /\ as_repl 64512 7 = AsOk 0.
Proof. vm_compute. repeat split; reflexivity. Qed.
