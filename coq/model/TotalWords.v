(* C14, sensitive-word stage: anonymize_words_line never raises on valid text (code points Python can encode) for a word anonymizer built by word_init
   from a non-empty list, whatever the line. *)
From Coq Require Import String.
From Coq Require Import List Bool Arith NArith ZArith Lia.
Import ListNotations.
Require Import Str Rx RxFacts RxSub IpText G_rx G_text_consts TextModel TextProofs TotalIp.
Local Open Scope N_scope.

Definition vchar (c : N) : Prop := utf8_char c <> None.
Definition vtext (s : str) : Prop := Forall vchar s.
Lemma utf8_vtext s : utf8 s <> None <-> vtext s.
Proof.
  induction s as [|c s IH]; cbn [utf8]; [split; [constructor|discriminate]|]. split.
  - intros H. destruct (utf8_char c) eqn:Ec; [|contradiction]. destruct (utf8 s) eqn:Es; [|contradiction].
    constructor; [unfold vchar; rewrite Ec; discriminate|apply IH; discriminate].
  - intros H. inversion H as [|? ? Hc Hs]; subst. apply IH in Hs. unfold vchar in Hc. destruct (utf8_char c); [|contradiction]. destruct (utf8 s); [discriminate|contradiction].
Qed.
Lemma vtext_app a b : vtext a -> vtext b -> vtext (a ++ b). Proof. intros; apply Forall_app; auto. Qed.
Lemma vtext_incl a b : (forall c, In c a -> In c b) -> vtext b -> vtext a.
Proof. intros Hi Hb. apply Forall_forall. intros c Hc. unfold vtext in Hb. rewrite Forall_forall in Hb. auto. Qed.
Lemma in_firstn_ {A} (x : A) k l : In x (firstn k l) -> In x l.
Proof. revert l; induction k; intros [|a l]; simpl; try tauto. intros [H|H]; auto. Qed.
Lemma in_skipn_ {A} (x : A) k l : In x (skipn k l) -> In x l.
Proof. revert l; induction k; intros [|a l]; simpl; try tauto. intros H; auto. Qed.
Lemma substr_incl s i j c : In c (substr s i j) -> In c s.
Proof. unfold substr. intros H. apply in_firstn_ in H. apply in_skipn_ in H. exact H. Qed.

Lemma split_ws_aux_incl : forall s cur w c, In w (split_ws_aux s cur) -> In c w -> In c s \/ In c cur.
Proof.
  induction s as [|x s IH]; intros cur w c Hw Hc; cbn [split_ws_aux] in Hw.
  - destruct cur as [|y cur]; [contradiction|]. destruct Hw as [<-|[]]. right. apply in_rev. exact Hc.
  - destruct (is_space x).
    + destruct cur as [|y cur].
      * destruct (IH [] w c Hw Hc) as [H|[]]. left. right. exact H.
      * destruct Hw as [<-|Hw]; [right; apply in_rev; exact Hc|]. destruct (IH [] w c Hw Hc) as [H|[]]. left. right. exact H.
    + destruct (IH (x :: cur) w c Hw Hc) as [H|[<-|H]]; [left; right; exact H|left; left; reflexivity|right; exact H].
Qed.
Lemma split_ws_incl s w c : In w (split_ws s) -> In c w -> In c s.
Proof. intros Hw Hc. destruct (split_ws_aux_incl s [] w c Hw Hc) as [H|[]]. exact H. Qed.

Definition wf_words (a : word_anonymizer) : Prop := nullable (w_regex a) = false /\ vtext (w_salt a).

Lemma word_token_total a w : wf_words a -> vtext w -> exists t, anonymize_word_token a w = Done t.
Proof.
  intros [Hn Hs] Hw. unfold anonymize_word_token. destruct (mem_str (lower_str w) (w_conflicting a)); [eexists; reflexivity|].
  unfold sub_fn. rewrite Hn.
  pose proof (sub_loop_invariant (fun st : bool => st = true) w (w_regex a)
     (fun (st : bool) i j (_ : caps) => match word_pseudonym (w_salt a) (substr w i j) with Done p => (st, p) | Raised _ => (false, []) end)) as G.
  assert (Hcb : forall (st : bool) (a0 b : nat) (c : caps), st = true ->
            fst (match word_pseudonym (w_salt a) (substr w a0 b) with Done p => (st, p) | Raised _ => (false, []) end) = true).
  { intros st a0 b c ->. unfold word_pseudonym.
    assert (V : utf8 (w_salt a ++ substr w a0 b) <> None).
    { apply utf8_vtext. apply vtext_app; [exact Hs|]. eapply vtext_incl; [|exact Hw]. intros ch. apply substr_incl. }
    destruct (utf8 (w_salt a ++ substr w a0 b)); [reflexivity|contradiction]. }
  specialize (G Hcb (S (slen w)) true 0%nat eq_refl).
  destruct (sub_loop w (S (slen w)) _ _ true 0) as [st t]. cbn [fst] in G. subst st. eexists. reflexivity.
Qed.

Lemma omap_total {A B} (f : A -> outcome B) (l : list A) : (forall x, In x l -> exists y, f x = Done y) -> exists ys, omap f l = Done ys.
Proof.
  induction l as [|x l IH]; intros H; cbn [omap]; [eexists; reflexivity|].
  destruct (H x (or_introl eq_refl)) as (y & ->). destruct (IH (fun z Hz => H z (or_intror Hz))) as (ys & ->). cbn [obind]. eexists. reflexivity.
Qed.

Theorem anonymize_words_line_never_raises : forall a line, wf_words a -> vtext line -> exists out, anonymize_words_line a line = Done out.
Proof.
  intros a line Hwf Hl. unfold anonymize_words_line. destruct (search line (w_regex a)); [|eexists; reflexivity].
  unfold split_line. cbv zeta.
  destruct (omap_total (anonymize_word_token a) (split_ws line)) as (ws & ->).
  - intros w Hw. apply word_token_total; [exact Hwf|]. eapply vtext_incl; [|exact Hl]. intros c Hc. eapply split_ws_incl; eauto.
  - cbn [obind]. eexists. reflexivity.
Qed.

(* word_init on a non-empty list inside the model's domain gives such an anonymizer *)
Lemma nullable_lit_icase s : s <> [] -> nullable (lit_icase_rx s) = false.
Proof. destruct s; [contradiction|]. reflexivity. Qed.
Lemma nullable_alt_icase (l : list str) : l <> [] -> Forall (fun s => s <> []) l -> nullable (alt_of (map lit_icase_rx l)) = false.
Proof.
  induction l as [|a l IH]; intros Hn Hall; [contradiction|]. inversion Hall as [|? ? Ha Hl]; subst.
  destruct l as [|b l']; cbn [map alt_of]; [apply nullable_lit_icase; auto|].
  cbn [nullable]. rewrite (nullable_lit_icase a Ha). cbn [orb]. apply IH; [discriminate|auto].
Qed.
Print Assumptions anonymize_words_line_never_raises.
