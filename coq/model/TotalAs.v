(* C14, AS-number stage: anonymize_as_line never raises for an anonymizer built by as_init: every span the pattern matches is one of the listed numerals,
   and each of them has an entry in the replacement map. *)
From Coq Require Import String.
From Coq Require Import List Bool Arith NArith ZArith Lia.
Import ListNotations.
Require Import Str Rx RxFacts RxSub IpText G_rx G_text_consts AsModel TextModel TextProofs.
Local Open Scope N_scope.

Lemma sub_loop_invariant_on_matches {St} (P : St -> Prop) s r (cb : St -> nat -> nat -> caps -> St * list chr) :
  (forall st a b c, In (b, c) (ms s r a []) -> P st -> P (fst (cb st a b c))) -> forall fuel st i, P st -> P (fst (sub_loop s fuel r cb st i)).
Proof.
  intros Hcb. induction fuel as [|fuel IH]; intros st i Hst; cbn [sub_loop]; [exact Hst|].
  destruct (search_from s (slen s - i) r i) as [[[a b] c]|] eqn:Es; [|exact Hst].
  apply search_from_ge in Es as [_ Em]. apply match_at_in in Em.
  specialize (Hcb st a b c Em Hst). destruct (cb st a b c) as [st1 rep]. cbn [fst] in Hcb.
  specialize (IH st1 b Hcb). destruct (sub_loop s fuel r cb st1 b) as [st2 rest]. exact IH.
Qed.

Lemma skipn_nth_cons {A} (l : list A) : forall i x, nth_error l i = Some x -> skipn i l = x :: skipn (S i) l.
Proof. induction l as [|a l IH]; intros [|i] x H; cbn in *; try discriminate; [injection H as ->; reflexivity|]. apply IH. exact H. Qed.

Section Spans.
Variable s : list chr.
Lemma lit_rx_span : forall w i c j c', In (j, c') (ms s (lit_rx w) i c) -> j = (i + length w)%nat /\ substr s i j = w.
Proof.
  induction w as [|x w IH]; intros i c j c' Hin; cbn [lit_rx fold_right] in Hin.
  - cbn [ms] in Hin. destruct Hin as [E|[]]. inversion E; subst. split; [cbn; lia|]. unfold substr. rewrite Nat.sub_diag. reflexivity.
  - change (fold_right (fun c0 acc => Seq (Chr (CRanges false [(c0, c0)])) acc) Eps w) with (lit_rx w) in Hin.
    cbn [ms] in Hin. apply in_flat_map in Hin as [[p cp] [H1 H2]]. cbn [fst snd] in H2.
    destruct (nth_error s i) as [y|] eqn:En; [|contradiction].
    destruct (in_cset y (CRanges false [(x, x)])) eqn:Ec; [|contradiction]. destruct H1 as [E|[]]. inversion E; subst p cp.
    destruct (IH _ _ _ _ H2) as [Ej Es]. split; [cbn [length]; lia|].
    assert (y = x). { cbn in Ec. destruct (N.leb_spec x y), (N.leb_spec y x); cbn in Ec; try discriminate; lia. }
    subst y. unfold substr in *. replace (j - i)%nat with (S (j - S i)) by lia.
    rewrite (skipn_nth_cons s i x En). cbn [firstn]. f_equal. exact Es.
Qed.

Lemma alt_lits_span : forall ws i c j c', In (j, c') (ms s (alt_of (map lit_rx ws)) i c) -> ws <> [] -> exists w, In w ws /\ substr s i j = w.
Proof.
  induction ws as [|w ws IH]; intros i c j c' Hin Hne; [contradiction|].
  destruct ws as [|w2 ws'].
  - cbn [map alt_of] in Hin. exists w. split; [left; reflexivity|]. exact (proj2 (lit_rx_span w i c j c' Hin)).
  - cbn [map alt_of] in Hin. change (alt_of (lit_rx w2 :: map lit_rx ws')) with (alt_of (map lit_rx (w2 :: ws'))) in Hin.
    cbn [ms] in Hin. apply in_app_or in Hin as [Hin|Hin].
    + exists w. split; [left; reflexivity|]. exact (proj2 (lit_rx_span w i c j c' Hin)).
    + destruct (IH i c j c' Hin ltac:(discriminate)) as (w' & Hw & E). exists w'. split; [right; exact Hw|exact E].
Qed.
Lemma look_pos ahead neg w a i c j c' : In (j, c') (ms s (Look ahead neg w a) i c) -> j = i /\ c' = c.
Proof. cbn [ms]. destruct (xorb neg _); [|contradiction]. intros [E|[]]. inversion E; auto. Qed.

Lemma ms_seq_eq a b i c : ms s (Seq a b) i c = flat_map (fun p => ms s b (fst p) (snd p)) (ms s a i c). Proof. reflexivity. Qed.
Lemma ms_alt_eq a b i c : ms s (Alt a b) i c = ms s a i c ++ ms s b i c. Proof. reflexivity. Qed.
Lemma ms_grp_eq n a i c : ms s (Grp n a) i c = map (fun p => (fst p, (n,(i,fst p)) :: snd p)) (ms s a i c). Proof. reflexivity. Qed.

(* a match of the AS pattern spans exactly one of the listed numerals *)
Lemma as_rx_span nums a b c : nums <> [] -> In (b, c) (ms s (as_rx nums) a []) -> In (substr s a b) nums.
Proof.
  intros Hne Hin. unfold as_rx in Hin. rewrite ms_seq_eq in Hin.
  apply in_flat_map in Hin as [[p1 c1] [H1 H2]]. cbn [fst snd] in H2. rewrite ms_alt_eq in H1.
  assert (Ep : p1 = a). { apply in_app_or in H1 as [H1|H1]; apply look_pos in H1; tauto. }
  subst p1. rewrite ms_seq_eq in H2. apply in_flat_map in H2 as [[p2 c2] [H2 H3]]. cbn [fst snd] in H3. rewrite ms_grp_eq in H2.
  apply in_map_iff in H2 as [[p3 c3] [E H2]]. cbn [fst snd] in E. inversion E; subst p2 c2. clear E.
  apply look_pos in H3 as [-> _].
  destruct (alt_lits_span nums a c1 p3 c3 H2 Hne) as (w & Hw & ->). exact Hw.
Qed.
End Spans.

Lemma build_map_has salt : forall nums m,
  (fix build (l : list str) : outcome (list (str * str)) :=
      match l with
      | [] => Done []
      | n :: r => match as_replacement_text salt n with
                  | Some (AsOk v) => t <- build r ;; Done ((n, show_dec (Z.to_N v)) :: t)
                  | Some AsValueError => Raised (lit "ValueError")
                  | Some AsNone => Raised (lit "TypeError")
                  | None => Raised (lit "UnicodeEncodeError")
                  end
      end) nums = Done m -> forall n, In n nums -> lget m n <> None.
Proof.
  induction nums as [|x nums IH]; intros m Hb n Hn; [contradiction|].
  destruct (as_replacement_text salt x) as [[v| |]|]; try discriminate.
  match type of Hb with obind ?B _ = _ => destruct B as [t|] eqn:Et; [|discriminate] end.
  cbn [obind] in Hb. injection Hb as <-. cbn [lget]. destruct (str_eqb n x) eqn:E; [discriminate|].
  destruct Hn as [->|Hn]; [rewrite str_eqb_refl in E; discriminate|]. exact (IH t eq_refl n Hn).
Qed.

Theorem anonymize_as_line_never_raises : forall nums salt a line, as_init nums salt = Done a -> nums <> [] -> exists out, anonymize_as_line a line = Done out.
Proof.
  intros nums salt a line Hi Hne. unfold as_init in Hi. destruct (negb (forallb all_digits nums)) eqn:Ed; [discriminate|]. apply negb_false_iff in Ed.
  match type of Hi with obind ?B _ = _ => destruct B as [m|] eqn:Em; [|discriminate] end. cbn [obind] in Hi. injection Hi as <-.
  unfold anonymize_as_line. cbn [as_regex as_map]. unfold sub_fn.
  assert (Hn : nullable (as_rx nums) = false).
  { apply as_regex_non_nullable; [exact Hne|]. apply Forall_forall. intros x Hx. rewrite forallb_forall in Ed. specialize (Ed x Hx). unfold all_digits in Ed. destruct x; [discriminate|discriminate]. }
  rewrite Hn.
  pose proof (sub_loop_invariant_on_matches (fun st : bool => st = true) line (as_rx nums)
     (fun (st : bool) i j (_ : caps) => match lget m (substr line i j) with Some v => (st, v) | None => (false, []) end)) as G.
  assert (Hcb : forall (st : bool) (a0 b : nat) (c : caps), In (b, c) (ms line (as_rx nums) a0 []) -> st = true ->
            fst (match lget m (substr line a0 b) with Some v => (st, v) | None => (false, []) end) = true).
  { intros st a0 b c Hin ->. pose proof (build_map_has salt nums m Em _ (as_rx_span line nums a0 b c Hne Hin)) as Hl.
    destruct (lget m (substr line a0 b)); [reflexivity|contradiction]. }
  specialize (G Hcb (S (slen line)) true 0%nat eq_refl).
  destruct (sub_loop line (S (slen line)) _ _ true 0) as [st t]. cbn [fst] in G. subst st. eexists. reflexivity.
Qed.
Print Assumptions anonymize_as_line_never_raises.
