(* command interpreter for the line pipeline:
   ["pipe"; flags; salt; words; asnums; reserved; prefixes; networks; b4; b6; oracle; line_1; ...; line_n]
     flags    : subset of "p" (anon_pwd) "a" (anon_ip) "u" (undo) "d" (append the IP map dump)
     words/asnums/reserved : "N" for None, otherwise "L" followed by the items separated by U+0001 ("L" alone = one empty item)
     prefixes / networks   : "-" none given (None), otherwise as in DriverIp ("D", "P", int/len;...)
     oracle   : entries key U+0002 value, separated by U+0001
   result: output lines joined by U+0003 (then U+0004 and the dump lines when "d"); "RAISED:<what>" if construction or a line raised *)
From Coq Require Import String.
From Coq Require Import List Bool Arith NArith ZArith.
Import ListNotations.
Require Import Str IpModel DriverIp TextModel G_ip_consts.
Local Open Scope N_scope.

Definition parse_optlist (s : str) : option (list str) :=
  match s with
  | 78 :: _ => None
  | 76 :: r => Some (split_on 1 r)
  | _ => None
  end.
Definition parse_oracle (s : str) : oracle :=
  match s with
  | [] => []
  | _ => flat_map (fun e => match split_on 2 e with [k; v] => [(k, v)] | _ => [] end) (split_on 1 s)
  end.
Definition has (c : N) (s : str) : bool := existsb (N.eqb c) s.

Definition run_pipe (fields : list str) : str :=
  match fields with
  | _ :: flags :: salt :: words :: asnums :: reserved :: pfx :: nets :: b4 :: b6 :: orc :: lines =>
      match parse_nat b4, parse_nat b6,
            (if str_eqb pfx (lit "-") then Some None else option_map Some (parse_nets pfx)),
            (if str_eqb nets (lit "-") then Some None else option_map Some (parse_nets nets)) with
      | Some B4, Some B6, Some P, Some Nn =>
          let o := {| o_pwd := has 112 flags; o_ip := has 97 flags; o_undo := has 117 flags; o_salt := salt;
                      o_words := parse_optlist words; o_asnums := parse_optlist asnums; o_reserved := parse_optlist reserved;
                      o_prefixes := P; o_networks := Nn; o_b4 := B4; o_b6 := B6 |} in
          match fa_init o with
          | Raised w => lit "RAISED:init:" ++ w
          | Done f =>
              match anonymize_io (parse_oracle orc) f lines with
              | Raised w => lit "RAISED:" ++ w
              | Done (f', outs) =>
                  join [3] outs ++ (if has 100 flags then [4] ++ join [] (dump_lines f') else [])
              end
          end
      | _, _, _, _ => lit "BADCASE"
      end
  | _ => lit "BADCASE"
  end.

(* ["asr"; h; asn]: _generate_as_number_replacement with the hash value forced to h *)
Require Import AsModel.
Definition run_asr (fields : list str) : str :=
  match fields with
  | [_; h; asn] =>
      match parse_dec h, parse_dec asn with
      | Some h', Some a =>
          match as_repl (Z.of_N h') (Z.of_N a) with
          | AsOk r => lit "OK:" ++ show_dec (Z.to_N r)
          | AsValueError => lit "ValueError"
          | AsNone => lit "None"
          end
      | _, _ => lit "BADCASE"
      end
  | _ => lit "BADCASE"
  end.
