(* ["mainm"; input; output; flags(a p u P); salt; dump; asnums; reserved; words; prefixes; addresses; hostbits]
   optional strings: "N" = None, "L<text>" = the text.  Output in the format of tools/impl_run.py run_main. *)
From Coq Require Import String.
From Coq Require Import List Bool Arith NArith.
Import ListNotations.
Require Import Str CliModel DriverIp.
Local Open Scope N_scope.

Definition opt_str (s : str) : option str := match s with 76 :: r => Some r | _ => None end.
Definition show_bool (b : bool) : str := if b then lit "True" else lit "False".
Definition show_optstr (o : option str) : str := match o with Some s => s | None => lit "None" end.
Definition show_optlist (o : option (list str)) : str := match o with Some l => [91] ++ join [44] l ++ [93] | None => lit "None" end.
Definition has (c : N) (s : str) : bool := existsb (N.eqb c) s.

Definition run_mainm (fields : list str) : str :=
  match fields with
  | [_; inp; outp; flags; salt; dump; asn; res; words; pfx; addrs; hb] =>
      match parse_nat hb with
      | None => lit "BADCASE"
      | Some h =>
          let a := {| a_input := inp; a_output := outp; a_ips := has 97 flags; a_pwd := has 112 flags; a_undo := has 117 flags; a_private := has 80 flags;
                      a_salt := opt_str salt; a_dump := opt_str dump; a_asnums := opt_str asn; a_reserved := opt_str res; a_words := opt_str words;
                      a_prefixes := opt_str pfx; a_addresses := opt_str addrs; a_hostbits := h |} in
          match main_model a with
          | MRaise e => lit "RAISED:" ++ e
          | MNoCall => lit "NOCALL"
          | MCall c =>
              lit "CALL anon_ip=" ++ show_bool (c_ip c) ++ lit " anon_pwd=" ++ show_bool (c_pwd c) ++ lit " as_numbers=" ++ show_optlist (c_asnums c)
              ++ lit " dumpfile=" ++ show_optstr (c_dump c) ++ lit " input_path=" ++ c_input c ++ lit " output_path=" ++ c_output c
              ++ lit " preserve_networks=" ++ show_optlist (c_networks c) ++ lit " preserve_prefixes=" ++ show_optlist (c_prefixes c)
              ++ lit " preserve_suffix_v4=" ++ show_dec (N.of_nat (c_b4 c)) ++ lit " preserve_suffix_v6=" ++ show_dec (N.of_nat (c_b6 c))
              ++ lit " reserved_words=" ++ show_optlist (c_reserved c) ++ lit " salt=" ++ show_optstr (c_salt c)
              ++ lit " sensitive_words=" ++ show_optlist (c_words c) ++ lit " undo_ip_anon=" ++ show_bool (c_undo c)
          end
      end
  | _ => lit "BADCASE"
  end.
