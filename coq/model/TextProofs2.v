(* More theorems about model/TextModel.v: the enclosing-text split is a partition (C09), the secrets and words stages keep the
   line's leading and trailing whitespace (C12). *)
From Coq Require Import String.
From Coq Require Import List Bool Arith NArith ZArith Lia.
Import ListNotations.
Require Import Str IpText Rx RxFacts RxSub G_rx G_text_consts TextModel.
Local Open Scope N_scope.

(* ---------------- Str facts ---------------- *)
Lemma starts_with_split (t v : str) : starts_with t v = true -> v = t ++ skipn (length t) v.
Proof.
  revert v; induction t as [|a t IH]; intros v H; [reflexivity|].
  destruct v as [|b v]; [discriminate|]. cbn [starts_with] in H. apply andb_true_iff in H as [E H].
  apply N.eqb_eq in E. subst b. cbn [length skipn app]. f_equal. now apply IH.
Qed.
Lemma ends_with_split (t v : str) : ends_with t v = true -> v = firstn (length v - length t) v ++ t.
Proof.
  unfold ends_with. intros H. apply starts_with_split in H.
  rewrite rev_length in H. apply (f_equal (@rev N)) in H. rewrite rev_involutive, rev_app_distr, rev_involutive in H.
  rewrite H at 1. f_equal.
  rewrite skipn_rev, rev_involutive. reflexivity.
Qed.

(* ---------------- _extract_enclosing_text: head ++ value ++ tail is the input with the given head / tail around it ---------------- *)
Lemma strip_heads_partition_gen (heads : list str) : forall val head v h,
  fold_left (fun '(v, h) t => if starts_with t v then (skipn (length t) v, h ++ t) else (v, h)) heads (val, head) = (v, h) ->
  h ++ v = head ++ val /\ exists x, h = head ++ x.
Proof.
  induction heads as [|t heads IH]; intros val head v h; cbn [fold_left].
  - intros [= <- <-]. split; [reflexivity|]. exists []. now rewrite app_nil_r.
  - destruct (starts_with t val) eqn:E.
    + intros H. apply IH in H as [H1 [x Hx]]. split.
      * rewrite H1, <- app_assoc. f_equal. symmetry. now apply starts_with_split.
      * exists (t ++ x). now rewrite Hx, app_assoc.
    + apply IH.
Qed.
Lemma strip_tails_partition_gen (tails : list str) : forall val tail v tl,
  fold_left (fun '(v, tl) t => if ends_with t v then (firstn (length v - length t) v, t ++ tl) else (v, tl)) tails (val, tail) = (v, tl) ->
  v ++ tl = val ++ tail /\ exists y, tl = y ++ tail.
Proof.
  induction tails as [|t tails IH]; intros val tail v tl; cbn [fold_left].
  - intros [= <- <-]. split; [reflexivity|]. exists []. reflexivity.
  - destruct (ends_with t val) eqn:E.
    + intros H. apply IH in H as [H1 [y Hy]]. split.
      * rewrite H1, app_assoc. f_equal. symmetry. now apply ends_with_split.
      * exists (y ++ t). now rewrite Hy, app_assoc.
    + apply IH.
Qed.

Theorem extract_enclosing_aux_partition : forall fuel val head tail h v t,
  extract_enclosing_aux fuel val head tail = (h, v, t) ->
  h ++ v ++ t = head ++ val ++ tail /\ (exists x, h = head ++ x) /\ (exists y, t = y ++ tail).
Proof.
  induction fuel as [|fuel IH]; intros val head tail h v t; cbn [extract_enclosing_aux].
  - intros [= <- <- <-]. repeat split; [exists []; now rewrite app_nil_r|exists []; reflexivity].
  - unfold strip_heads, strip_tails.
    destruct (fold_left (fun '(v, h) t => if starts_with t v then (skipn (length t) v, h ++ t) else (v, h)) ENCLOSING_HEAD (val, head)) as [v1 h1] eqn:E1.
    destruct (fold_left (fun '(v, tl) t => if ends_with t v then (firstn (length v - length t) v, t ++ tl) else (v, tl)) ENCLOSING_TAIL (v1, tail)) as [v2 t1] eqn:E2.
    apply strip_heads_partition_gen in E1 as [P1 [x Hx]]. apply strip_tails_partition_gen in E2 as [P2 [y Hy]].
    assert (Pall : h1 ++ v2 ++ t1 = head ++ val ++ tail).
    { rewrite P2. rewrite app_assoc, P1. now rewrite <- app_assoc. }
    destruct (str_eqb v2 val).
    + intros [= <- <- <-]. repeat split; eauto.
    + intros H. apply IH in H as (Q & [x' Hx'] & [y' Hy']). split; [now rewrite Q|]. split.
      * exists (x ++ x'). now rewrite Hx', Hx, app_assoc.
      * exists (y' ++ y). now rewrite Hy', Hy, app_assoc.
Qed.

(* C09: quotes, brackets and terminators stripped from around the value are put back exactly: raw = head ++ value ++ tail *)
Theorem C09_enclosing_text_partition : forall raw h v t, extract_enclosing raw [] [] = (h, v, t) -> h ++ v ++ t = raw.
Proof. intros raw h v t E. apply extract_enclosing_aux_partition in E as [P _]. now rewrite P, app_nil_r. Qed.

(* ... and a replaced value keeps them: the result of _anonymize_value is head ++ replacement ++ tail, or the raw value itself *)
Theorem anonymize_value_keeps_enclosing_text : forall orc raw lookup reserved salt out lookup',
  anonymize_value orc raw lookup reserved salt = Done (out, lookup') ->
  out = raw \/ exists repl, out = fst (fst (extract_enclosing raw [] [])) ++ repl ++ snd (extract_enclosing raw [] []).
Proof.
  intros orc raw lookup reserved salt out lookup'. unfold anonymize_value.
  destruct (extract_enclosing raw [] []) as [[h v] t]. cbn [fst snd].
  destruct (mem_str v reserved); [intros [= <- <-]; now left|].
  destruct (is_empty v); [intros [= <- <-]; now left|].
  destruct (if starts_with G_juniper.MAGIC v then jun_decrypt_opt v else Done None) as [decrypted|w]; cbn [obind]; [|discriminate].
  destruct (lget lookup v) as [anon|].
  - intros [= <- <-]. right. eauto.
  - destruct (match decrypted with Some d => lget lookup d | None => None end) as [stored|].
    + destruct (jun_encrypt_o stored salt) as [a|w]; cbn [obind]; [|discriminate]. intros [= <- <-]. right. eauto.
    + cbn [obind].
      repeat match goal with
             | |- context [obind (if ?c then _ else _) _] => destruct c
             | |- context [obind (match ?x with Some _ => _ | None => _ end) _] => destruct x
             | |- context [obind (Done _) _] => cbn [obind]
             | |- context [obind (Raised _) _] => cbn [obind]
             | |- context [obind (jun_encrypt_o ?a ?b) _] => destruct (jun_encrypt_o a b)
             | |- context [match JunModel.decrypt ?a with _ => _ end] => destruct (JunModel.decrypt a)
             end; try discriminate; intros [= <- <-]; right; eauto.
Qed.

(* ---------------- _split_line ---------------- *)
Lemma lstrip_suffix (s : str) : exists k, lstrip s = skipn k s /\ (k <= length s)%nat /\ forallb is_space (firstn k s) = true.
Proof.
  induction s as [|c s IH]; [exists O; repeat split; auto|].
  cbn [lstrip]. destruct (is_space c) eqn:E.
  - destruct IH as (k & E1 & L & W). exists (S k). cbn [skipn firstn forallb length]. rewrite E. repeat split; auto; lia.
  - exists O. repeat split; auto; cbn; lia.
Qed.

(* C12: the secrets stage returns the input's leading whitespace, some body, the input's trailing whitespace *)
Theorem C12_secrets_stage_keeps_the_edges : forall orc reserved salt line lookup out lookup',
  replace_matching_item orc reserved salt line lookup = Done (out, lookup') ->
  exists body, out = fst (fst (split_line line)) ++ body ++ snd (split_line line).
Proof.
  intros orc reserved salt line lookup out lookup'. unfold replace_matching_item.
  destruct (split_line line) as [[leading words] trailing]. cbn [fst snd].
  destruct (extract_enclosing (join [32] words) leading trailing) as [[l' ol] t'] eqn:E.
  apply extract_enclosing_aux_partition in E as (_ & [x Hx] & [y Hy]).
  destruct (apply_groups orc reserved salt PWD_REGEXES ol lookup) as [[l lk]|w]; cbn [obind]; [|discriminate].
  intros [= <- <-]. exists (x ++ l ++ y). rewrite Hx, Hy. now rewrite <- !app_assoc.
Qed.

(* C12: so does the sensitive-word stage (when it rewrites the line at all; otherwise the line is returned as is) *)
Theorem C12_words_stage_keeps_the_edges : forall a line out,
  anonymize_words_line a line = Done out ->
  out = line \/ exists body, out = fst (fst (split_line line)) ++ body ++ snd (split_line line).
Proof.
  intros a line out. unfold anonymize_words_line.
  destruct (search line (w_regex a)); [|intros [= <-]; now left].
  destruct (split_line line) as [[leading words] trailing]. cbn [fst snd].
  destruct (omap (anonymize_word_token a) words) as [ws|w]; cbn [obind]; [|discriminate].
  intros [= <-]. right. eauto.
Qed.

(* the edges really are the line's own: leading is a whitespace prefix of the line, trailing a suffix *)
Lemma split_line_leading (line : str) :
  fst (fst (split_line line)) = [] \/ exists k, (k <= length line)%nat /\ fst (fst (split_line line)) = firstn k line /\ forallb is_space (firstn k line) = true.
Proof.
  unfold split_line. cbv zeta. cbn [fst snd]. destruct (lstrip_suffix line) as (k & E & L & W).
  destruct (lstrip line) as [|c r] eqn:El; [now left|]. right. exists k. split; [exact L|]. split; [|exact W].
  f_equal. rewrite E, skipn_length. lia.
Qed.
Theorem split_line_edges : forall line,
  (exists rest, line = fst (fst (split_line line)) ++ rest) /\ forallb is_space (fst (fst (split_line line))) = true /\
  (exists front, line = front ++ snd (split_line line)).
Proof.
  intros line. split; [|split].
  - destruct (split_line_leading line) as [E|(k & L & E & W)]; rewrite E; [exists line; reflexivity|].
    exists (skipn k line). symmetry. apply firstn_skipn.
  - destruct (split_line_leading line) as [E|(k & L & E & W)]; rewrite E; [reflexivity|exact W].
  - unfold split_line. cbv zeta. cbn [fst snd]. exists (firstn (length (rstrip line)) line). symmetry. apply firstn_skipn.
Qed.
Print Assumptions C09_enclosing_text_partition.
Print Assumptions anonymize_value_keeps_enclosing_text.
Print Assumptions C12_secrets_stage_keeps_the_edges.
Print Assumptions C12_words_stage_keeps_the_edges.
Print Assumptions split_line_edges.
