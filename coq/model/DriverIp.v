(* String-level command interpreter for the IP integer-level model (used by the correspondence check,
   both extracted to OCaml and under vm_compute). *)
From Coq Require Import String.
From Coq Require Import List Bool Arith NArith Lia.
Import ListNotations.
Require Import PPCore Memo Md5 Str Mask IpModel G_ip_consts.
Local Open Scope N_scope.

Definition ERR : str := lit "ERR".
Definition BAD : str := lit "BADCASE".

Definition parse_nat (s : str) : option nat := option_map N.to_nat (parse_dec s).

(* salter spec: "md5:<salt>" or "tab:<p>|<p>|..." where the empty prefix is written "e" *)
Definition parse_salter (s : str) : option (bits -> bool) :=
  if starts_with (lit "md5:") s then
    let salt := skipn 4 s in
    match utf8 salt with Some _ => Some (salter_md5 salt) | None => None end
  else if starts_with (lit "tab:") s then
    let ps := split_on 124 (skipn 4 s) in
    Some (salter_tab (map (fun p => if str_eqb p (lit "e") then [] else p) ps))
  else None.

(* network list: "None" or "-" (empty list) or "addr/len;addr/len" with addr a decimal integer *)
Definition parse_net (s : str) : option (N * nat) :=
  match split_on 47 s with
  | [a; l] => match parse_dec a, parse_nat l with Some a', Some l' => Some (a', l') | _, _ => None end
  | _ => None
  end.
Fixpoint sequence {A} (l : list (option A)) : option (list A) :=
  match l with [] => Some [] | x :: r => match x, sequence r with Some a, Some b => Some (a :: b) | _, _ => None end end.
Definition parse_net_item (s : str) : option (list (N * nat)) :=
  if str_eqb s (lit "D") then Some DEFAULT_PRESERVED_PREFIXES            (* preserve_prefixes=None *)
  else if str_eqb s (lit "P") then Some RFC_1918_NETWORKS                 (* --preserve-private-addresses *)
  else option_map (fun x => [x]) (parse_net s).
Definition parse_nets (s : str) : option (list (N * nat)) :=
  if str_eqb s (lit "-") then Some []
  else option_map (@concat _) (sequence (map parse_net_item (split_on 59 s))).

Definition show_pair (p : N * N) : str := show_dec (fst p) ++ [58] ++ show_dec (snd p).

(* ops: a<int> anonymize, d<int> deanonymize, s<int> should_anonymize, m<int> _is_mask, D dump *)
Definition run_op (a : anonymizer) (op : str) : anonymizer * str :=
  match op with
  | 97 :: r => match parse_dec r with
               | Some x => match anonymize_int a x with Ok (a', y) => (a', show_dec y) | Err => (a, ERR) end
               | None => (a, BAD) end
  | 100 :: r => match parse_dec r with
                | Some x => match deanonymize_int a x with Ok (a', y) => (a', show_dec y) | Err => (a, ERR) end
                | None => (a, BAD) end
  | 115 :: r => match parse_dec r with
                | Some x => (a, if should_anonymize4 a x then lit "T" else lit "F")
                | None => (a, BAD) end
  | 109 :: r => match parse_dec r with
                | Some x => (a, if is_mask x then lit "T" else lit "F")
                | None => (a, BAD) end
  | [68] => (a, join [44] (map show_pair (dump a)))
  | _ => (a, BAD)
  end.
Fixpoint run_ops (a : anonymizer) (ops : list str) : list str :=
  match ops with
  | [] => []
  | o :: r => let '(a', out) := run_op a o in out :: run_ops a' r
  end.

(* fields: ["base"; n; B; salter; ops]  |  ["ip4"; B; salter; prefixes; addresses; ops]  |  ["ip6"; B; salter; ops] *)
Definition run_ip (fields : list str) : str :=
  match fields with
  | [cmd; n; B; sal; ops] =>
      if str_eqb cmd (lit "base") then
        match parse_nat n, parse_nat B, parse_salter sal with
        | Some n', Some B', Some H => join [32] (run_ops (base_init n' B' H) (split_on 32 ops))
        | _, _, _ => BAD
        end
      else BAD
  | [cmd; B; sal; ops] =>
      if str_eqb cmd (lit "ip6") then
        match parse_nat B, parse_salter sal with
        | Some B', Some H => join [32] (run_ops (ip6_init H B') (split_on 32 ops))
        | _, _ => BAD
        end
      else BAD
  | [cmd; B; sal; pfx; addrs; ops] =>
      if str_eqb cmd (lit "ip4") then
        match parse_nat B, parse_salter sal, parse_nets pfx, parse_nets addrs with
        | Some B', Some H, Some ps, Some ads =>
            match ip4_init H B' ps ads with
            | Ok a => join [32] (run_ops a (split_on 32 ops))
            | Err => ERR
            end
        | _, _, _, _ => BAD
        end
      else BAD
  | _ => BAD
  end.
