(* command interpreter for the $9$ codec model:  ["jenc"; plain; salt]  ["jdec"; crypt] *)
From Coq Require Import String.
From Coq Require Import List Bool Arith NArith.
Import ListNotations.
Require Import Str JunModel.
Local Open Scope N_scope.

Definition show_jres (r : jres) : str :=
  match r with
  | JOk s => lit "OK:" ++ s
  | JValueError => lit "ValueError"
  | JKeyError => lit "KeyError"
  | JIndexError => lit "IndexError"
  | JBadTable => lit "BadTable"
  end.

Definition run_jun (fields : list str) : str :=
  match fields with
  | [cmd; plain; salt] => if str_eqb cmd (lit "jenc") then show_jres (encrypt plain salt) else lit "BADCASE"
  | [cmd; crypt] => if str_eqb cmd (lit "jdec") then show_jres (decrypt crypt) else lit "BADCASE"
  | _ => lit "BADCASE"
  end.
