(* C09, encoders of the pseudonym: for EVERY pseudonym number (no bound) the decimal, hexadecimal and type-7 encodings used by
   _anonymize_value have the shape of their class *)
From Coq Require Import String.
From Coq Require Import List Bool Arith NArith ZArith Lia.
From Coq Require Import ZifyBool ZifyNat ZifyN.
Import ListNotations.
Require Import Str TextModel.
Local Open Scope N_scope.
Ltac Zify.zify_post_hook ::= Z.to_euclidean_division_equations.

Definition is_hex_lower (c : N) : bool := ((48 <=? c) && (c <=? 57) || (97 <=? c) && (c <=? 102)).
Definition is_hex_upper (c : N) : bool := ((48 <=? c) && (c <=? 57) || (65 <=? c) && (c <=? 70)).
Definition pseudonym (n : nat) : str := lit "netconanRemoved" ++ show_dec (N.of_nat n).

Lemma show_dec_aux_digits fuel : forall x acc, forallb is_digit acc = true -> forallb is_digit (show_dec_aux fuel x acc) = true.
Proof.
  induction fuel as [|f IH]; intros x acc Ha; cbn [show_dec_aux]; [exact Ha|].
  assert (Hd : forallb is_digit ((48 + x mod 10) :: acc) = true).
  { cbn [forallb]. rewrite Ha, andb_true_r. unfold is_digit. lia. }
  destruct (x <? 10); [exact Hd|]. apply IH. exact Hd.
Qed.
Lemma show_dec_aux_nonempty fuel : forall x acc, acc <> [] -> show_dec_aux fuel x acc <> [].
Proof. induction fuel as [|f IH]; intros x acc Ha; cbn [show_dec_aux]; [exact Ha|]. destruct (x <? 10); [discriminate|]. apply IH. discriminate. Qed.
Theorem show_dec_all_digits x : all_digits (show_dec x) = true.
Proof.
  unfold all_digits, show_dec. apply andb_true_intro. split.
  - cbn [show_dec_aux]. destruct (x <? 10); [reflexivity|].
    destruct (show_dec_aux (N.to_nat (N.log2 x)) (x / 10) [48 + x mod 10]) eqn:E; [|reflexivity].
    exfalso. revert E. apply show_dec_aux_nonempty. discriminate.
  - apply show_dec_aux_digits. reflexivity.
Qed.
(* numeric class: the decimal rendering of ANY byte string is all digits *)
Theorem numeric_encoding_all_digits s : all_digits (to_decimal_of_bytes s) = true.
Proof. apply show_dec_all_digits. Qed.

Lemma digit_lt_256 c : is_digit c = true -> c < 256. Proof. unfold is_digit. lia. Qed.
Lemma pseudonym_bytes n : Forall (fun c => c < 128) (pseudonym n).
Proof.
  unfold pseudonym. apply Forall_app. split.
  - vm_compute. repeat constructor.
  - pose proof (show_dec_all_digits (N.of_nat n)) as H. unfold all_digits in H. apply andb_prop in H. destruct H as [_ H].
    rewrite forallb_forall in H. apply Forall_forall. intros c Hc. specialize (H c Hc). unfold is_digit in H. lia.
Qed.

Lemma hex_digit_lower d : d < 16 -> is_hex_lower (hex_digit d) = true.
Proof. intro H. unfold hex_digit, is_hex_lower. destruct (d <? 10) eqn:E; lia. Qed.
(* hexadecimal class: lower-case hex digits, two per byte *)
Theorem hex_encoding_shape bs : Forall (fun c => c < 256) bs ->
  forallb is_hex_lower (hex_of_bytes bs) = true /\ length (hex_of_bytes bs) = (2 * length bs)%nat.
Proof.
  induction 1 as [|b bs Hb _ [IH1 IH2]]; [split; reflexivity|].
  unfold hex_of_bytes in *. cbn [flat_map app forallb length]. rewrite IH1, IH2. split; [|lia].
  rewrite !hex_digit_lower; [reflexivity| |]; lia.
Qed.

Lemma upper_hex_digit_ok d : d < 16 -> is_hex_upper (upper_hex_digit d) = true.
Proof. intro H. unfold upper_hex_digit, is_hex_upper. destruct (d <? 10) eqn:E; lia. Qed.
Lemma log2_lt8 a : a < 256 -> N.log2 a < 8.
Proof. intro H. destruct (N.eq_dec a 0) as [->|Hn]; [reflexivity|]. apply (proj1 (N.log2_lt_pow2 a 8 ltac:(lia))). exact H. Qed.
Lemma lxor_lt_256 a b : a < 256 -> b < 256 -> N.lxor a b < 256.
Proof.
  intros Ha Hb. destruct (N.eq_dec (N.lxor a b) 0) as [E|E]; [rewrite E; reflexivity|].
  apply (proj2 (N.log2_lt_pow2 (N.lxor a b) 8 ltac:(lia))).
  pose proof (N.log2_lxor a b) as L. pose proof (log2_lt8 a Ha). pose proof (log2_lt8 b Hb). lia.
Qed.
Lemma key_lt_256 k : nth k TYPE7_KEY 0 < 256.
Proof.
  destruct (Nat.lt_ge_cases k (length TYPE7_KEY)) as [H|H].
  - assert (F : Forall (fun c => c < 256) TYPE7_KEY) by (vm_compute; repeat constructor).
    rewrite Forall_forall in F. apply F. apply nth_In. exact H.
  - rewrite nth_overflow by exact H. lia.
Qed.
Lemma type7_body_shape salt : forall (s : str) (k : nat), Forall (fun c => c < 256) s ->
  let body := flat_map (fun '(i, c) => let b := N.lxor c (nth (N.to_nat ((salt + N.of_nat i) mod 53)) TYPE7_KEY 0) in
                                       [upper_hex_digit (b / 16); upper_hex_digit (b mod 16)]) (combine (seq k (length s)) s) in
  forallb is_hex_upper body = true /\ length body = (2 * length s)%nat.
Proof.
  induction s as [|c s IH]; intros k Hs; [split; reflexivity|].
  inversion Hs as [|? ? Hc Hs']; subst. cbn [length seq combine flat_map app forallb].
  destruct (IH (S k) Hs') as [IH1 IH2]. cbn zeta in IH1, IH2. rewrite IH1, IH2. split; [|cbn [length]; lia].
  pose proof (lxor_lt_256 c (nth (N.to_nat ((salt + N.of_nat k) mod 53)) TYPE7_KEY 0) Hc (key_lt_256 _)) as L.
  rewrite !upper_hex_digit_ok; [reflexivity| |]; lia.
Qed.
(* type 7 class: "09" then upper-case hex digits, two per character: what IOS and every decoder accept *)
Theorem type7_encoding_shape s : Forall (fun c => c < 256) s ->
  exists rest, type7_hash 9 s = 48 :: 57 :: rest /\ forallb is_hex_upper rest = true /\ length rest = (2 * length s)%nat.
Proof.
  intro Hs. unfold type7_hash. eexists. split; [reflexivity|]. exact (type7_body_shape 9 s 0%nat Hs).
Qed.

Theorem pseudonym_encodings_have_their_shape (n : nat) :
  all_digits (to_decimal_of_bytes (pseudonym n)) = true /\
  forallb is_hex_lower (hex_of_bytes (pseudonym n)) = true /\
  exists rest, type7_hash 9 (pseudonym n) = 48 :: 57 :: rest /\ forallb is_hex_upper rest = true /\ length rest = (2 * length (pseudonym n))%nat.
Proof.
  assert (B : Forall (fun c => c < 256) (pseudonym n)).
  { eapply Forall_impl; [|apply pseudonym_bytes]. cbn beta. intros; lia. }
  split; [apply numeric_encoding_all_digits|]. split; [apply (hex_encoding_shape _ B)|]. apply (type7_encoding_shape _ B).
Qed.
Print Assumptions pseudonym_encodings_have_their_shape.
