(* The two catch-all patterns of the secrets stage (the last two of the GENERATED table: an optional double quote, then $9$ resp. $1$, then one or more
   characters that are neither white space, a semicolon nor a double quote; behind the common look-behind -not glued to a word character or a hyphen-):
   for EVERY line, a hash-shaped token -- $9$ or $1$ followed by at least one such character -- standing at the line start or after a character that is
   neither a word character nor a hyphen IS matched by its pattern, whatever else the line holds (the pattern needs no keyword).  So such a token can only
   escape replacement if an EARLIER pattern group claimed the line. *)
From Coq Require Import List Arith NArith Bool Lia.
Import ListNotations.
Require Import Str Rx RxFacts RxComplete RxDen RxLang RxSub G_rx.
Require Ipv4Token.

Definition PRE : re := Alt (Look false false 1 (Chr cs21)) (Alt (Look false false 2 (Seq (Chr cs21) (Chr cs22))) (Alt (Look false false 0 Bol) (Look false false 1 (Seq Bol (Chr cs22))))).
Definition HASH (d : cset) : re := Seq (Rep true (Chr cs40) 0 (Some 1)) (Seq (Chr cs18) (Seq (Chr d) (Seq (Chr cs18) (Rep true (Chr cs73) 1 None)))).
Lemma shape_53 : PWD_RX_53_0 = Seq PRE (Grp 1 (HASH cs19)). Proof. reflexivity. Qed.
Lemma shape_54 : PWD_RX_54_0 = Seq PRE (Grp 1 (HASH cs6)). Proof. reflexivity. Qed.

Lemma ms_PRE (s : list chr) i c : (i = 0 \/ (1 <= i /\ exists x, nth_error s (i - 1) = Some x /\ in_cset x cs21 = true)) -> In (i, c) (ms s PRE i c).
Proof.
  intros [->|(Hi & x & Hx & Ex)]; unfold PRE; cbn [ms].
  - apply in_or_app. right. apply in_or_app. right. apply in_or_app. left. cbn [Nat.leb Nat.sub Nat.eqb existsb fst xorb orb]. now left.
  - apply in_or_app. left. replace (Nat.leb 1 i) with true by (symmetry; apply Nat.leb_le; exact Hi). rewrite Hx, Ex. cbn [existsb fst orb xorb].
    replace (Nat.eqb (S (i - 1)) i) with true by (symmetry; apply Nat.eqb_eq; lia). now left.
Qed.
Lemma lang_HASH (d : cset) (dc : chr) (body : list chr) : in_cset dc d = true -> body <> [] -> Forall (fun x => in_cset x cs73 = true) body ->
  lang (HASH d) ([36%N; dc; 36%N] ++ body).
Proof.
  intros Hd Hb F. unfold HASH. change ([36%N; dc; 36%N] ++ body) with ([] ++ [36%N] ++ [dc] ++ [36%N] ++ body).
  constructor; [apply Ipv4Token.lang_opt_none|].
  constructor; [constructor; reflexivity|]. constructor; [constructor; exact Hd|]. constructor; [constructor; reflexivity|].
  apply Ipv4Token.lang_rep_chars; [exact F|destruct body; [contradiction|cbn; lia]|discriminate].
Qed.

Theorem hash_shaped_token_is_matched (s : list chr) (d : cset) (dc : chr) (body : list chr) i c :
  in_cset dc d = true -> body <> [] -> Forall (fun x => in_cset x cs73 = true) body -> occ s ([36%N; dc; 36%N] ++ body) i ->
  (i = 0 \/ (1 <= i /\ exists x, nth_error s (i - 1) = Some x /\ in_cset x cs21 = true)) ->
  exists j c', In (j, c') (ms s (Seq PRE (Grp 1 (HASH d))) i c).
Proof.
  intros Hd Hb F O B.
  destruct (lang_ms s (HASH d) eq_refl eq_refl _ i c (lang_HASH d dc body Hd Hb F) O) as (c1 & H1).
  do 2 eexists. cbn [ms]. apply in_flat_map. exists (i, c). split; [now apply ms_PRE|]. cbn [fst snd].
  apply in_map_iff. eexists (_, c1). split; [reflexivity|exact H1].
Qed.

(* hence the leftmost search over the line finds a match of the pattern: the line is claimed by this group at the latest *)
Theorem juniper_shaped_token_makes_the_catch_all_match (s : list chr) (body : list chr) i :
  body <> [] -> Forall (fun x => in_cset x cs73 = true) body -> occ s ([36; 57; 36]%N ++ body) i ->
  (i = 0 \/ (1 <= i /\ exists x, nth_error s (i - 1) = Some x /\ in_cset x cs21 = true)) ->
  search s PWD_RX_53_0 <> None.
Proof.
  intros Hb F O B. rewrite shape_53.
  destruct (hash_shaped_token_is_matched s cs19 57%N body i [] eq_refl Hb F O B) as (j & c' & H).
  assert (Hi : i <= length s). { assert (Hn : [36; 57; 36]%N ++ body <> []) by discriminate. pose proof (occ_len s _ _ O Hn). lia. }
  assert (M : exists p, match_at s (Seq PRE (Grp 1 (HASH cs19))) i = Some p).
  { unfold match_at. rewrite m_is_first_of_ms. destruct (ms s _ i []) as [|p l]; [destruct H|]. cbn [first_some]. eauto. }
  destruct M as ([b cb] & M). unfold search.
  destruct (Ipv4Token.search_from_finds s _ (Rx.slen s) 0 i b cb M ltac:(lia) ltac:(unfold Rx.slen; lia)) as (a' & b' & c'' & S & _). rewrite S. discriminate.
Qed.

Theorem md5_crypt_shaped_token_makes_the_catch_all_match (s : list chr) (body : list chr) i :
  body <> [] -> Forall (fun x => in_cset x cs73 = true) body -> occ s ([36; 49; 36]%N ++ body) i ->
  (i = 0 \/ (1 <= i /\ exists x, nth_error s (i - 1) = Some x /\ in_cset x cs21 = true)) ->
  search s PWD_RX_54_0 <> None.
Proof.
  intros Hb F O B. rewrite shape_54.
  destruct (hash_shaped_token_is_matched s cs6 49%N body i [] eq_refl Hb F O B) as (j & c' & H).
  assert (Hi : i <= length s). { assert (Hn : [36; 49; 36]%N ++ body <> []) by discriminate. pose proof (occ_len s _ _ O Hn). lia. }
  assert (M : exists p, match_at s (Seq PRE (Grp 1 (HASH cs6))) i = Some p).
  { unfold match_at. rewrite m_is_first_of_ms. destruct (ms s _ i []) as [|p l]; [destruct H|]. cbn [first_some]. eauto. }
  destruct M as ([b cb] & M). unfold search.
  destruct (Ipv4Token.search_from_finds s _ (Rx.slen s) 0 i b cb M ltac:(lia) ltac:(unfold Rx.slen; lia)) as (a' & b' & c'' & S & _). rewrite S. discriminate.
Qed.
