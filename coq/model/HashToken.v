(* The two catch-all patterns of the secrets stage (the last two of the GENERATED table: an optional double quote, then $9$ resp. $1$, then one or more
   characters that are neither white space, a semicolon nor a double quote; behind the common look-behind -not glued to a word character or a hyphen-):
   for EVERY line, a hash-shaped token -- $9$ or $1$ followed by at least one such character -- standing at the line start or after a character that is
   neither a word character nor a hyphen IS matched by its pattern, whatever else the line holds (the pattern needs no keyword).  So such a token can only
   escape replacement if an EARLIER pattern group claimed the line. *)
From Coq Require Import List Arith NArith Bool Lia.
Import ListNotations.
Require Import Str Rx RxFacts RxComplete RxDen RxLang RxSub G_rx.
Require Ipv4Token.

Definition PRE : re := Alt (Look false false 1 (Chr cs21)) (Alt (Look false false 2 (Seq (Chr cs21) (Chr cs22))) (Alt (Look false false 0 Bol) (Look false false 1 (Seq Bol (Chr cs22))))).
Definition HASH (d : cset) : re := Seq (Rep true (Chr cs40) 0 (Some 1)) (Seq (Chr cs18) (Seq (Chr d) (Seq (Chr cs18) (Rep true (Chr cs73) 1 None)))).
Lemma shape_53 : PWD_RX_53_0 = Seq PRE (Grp 1 (HASH cs19)). Proof. reflexivity. Qed.
Lemma shape_54 : PWD_RX_54_0 = Seq PRE (Grp 1 (HASH cs6)). Proof. reflexivity. Qed.

Lemma ms_PRE (s : list chr) i c : (i = 0 \/ (1 <= i /\ exists x, nth_error s (i - 1) = Some x /\ in_cset x cs21 = true)) -> In (i, c) (ms s PRE i c).
Proof.
  intros [->|(Hi & x & Hx & Ex)]; unfold PRE; cbn [ms].
  - apply in_or_app. right. apply in_or_app. right. apply in_or_app. left. cbn [Nat.leb Nat.sub Nat.eqb existsb fst xorb orb]. now left.
  - apply in_or_app. left. replace (Nat.leb 1 i) with true by (symmetry; apply Nat.leb_le; exact Hi). rewrite Hx, Ex. cbn [existsb fst orb xorb].
    replace (Nat.eqb (S (i - 1)) i) with true by (symmetry; apply Nat.eqb_eq; lia). now left.
Qed.
Lemma lang_HASH (d : cset) (dc : chr) (body : list chr) : in_cset dc d = true -> body <> [] -> Forall (fun x => in_cset x cs73 = true) body ->
  lang (HASH d) ([36%N; dc; 36%N] ++ body).
Proof.
  intros Hd Hb F. unfold HASH. change ([36%N; dc; 36%N] ++ body) with ([] ++ [36%N] ++ [dc] ++ [36%N] ++ body).
  constructor; [apply Ipv4Token.lang_opt_none|].
  constructor; [constructor; reflexivity|]. constructor; [constructor; exact Hd|]. constructor; [constructor; reflexivity|].
  apply Ipv4Token.lang_rep_chars; [exact F|destruct body; [contradiction|cbn; lia]|discriminate].
Qed.

Theorem hash_shaped_token_is_matched (s : list chr) (d : cset) (dc : chr) (body : list chr) i c :
  in_cset dc d = true -> body <> [] -> Forall (fun x => in_cset x cs73 = true) body -> occ s ([36%N; dc; 36%N] ++ body) i ->
  (i = 0 \/ (1 <= i /\ exists x, nth_error s (i - 1) = Some x /\ in_cset x cs21 = true)) ->
  exists j c', In (j, c') (ms s (Seq PRE (Grp 1 (HASH d))) i c).
Proof.
  intros Hd Hb F O B.
  destruct (lang_ms s (HASH d) eq_refl eq_refl _ i c (lang_HASH d dc body Hd Hb F) O) as (c1 & H1).
  do 2 eexists. cbn [ms]. apply in_flat_map. exists (i, c). split; [now apply ms_PRE|]. cbn [fst snd].
  apply in_map_iff. eexists (_, c1). split; [reflexivity|exact H1].
Qed.

(* hence the leftmost search over the line finds a match of the pattern: the line is claimed by this group at the latest *)
Theorem juniper_shaped_token_makes_the_catch_all_match (s : list chr) (body : list chr) i :
  body <> [] -> Forall (fun x => in_cset x cs73 = true) body -> occ s ([36; 57; 36]%N ++ body) i ->
  (i = 0 \/ (1 <= i /\ exists x, nth_error s (i - 1) = Some x /\ in_cset x cs21 = true)) ->
  search s PWD_RX_53_0 <> None.
Proof.
  intros Hb F O B. rewrite shape_53.
  destruct (hash_shaped_token_is_matched s cs19 57%N body i [] eq_refl Hb F O B) as (j & c' & H).
  assert (Hi : i <= length s). { assert (Hn : [36; 57; 36]%N ++ body <> []) by discriminate. pose proof (occ_len s _ _ O Hn). lia. }
  assert (M : exists p, match_at s (Seq PRE (Grp 1 (HASH cs19))) i = Some p).
  { unfold match_at. rewrite m_is_first_of_ms. destruct (ms s _ i []) as [|p l]; [destruct H|]. cbn [first_some]. eauto. }
  destruct M as ([b cb] & M). unfold search.
  destruct (Ipv4Token.search_from_finds s _ (Rx.slen s) 0 i b cb M ltac:(lia) ltac:(unfold Rx.slen; lia)) as (a' & b' & c'' & S & _). rewrite S. discriminate.
Qed.

Theorem md5_crypt_shaped_token_makes_the_catch_all_match (s : list chr) (body : list chr) i :
  body <> [] -> Forall (fun x => in_cset x cs73 = true) body -> occ s ([36; 49; 36]%N ++ body) i ->
  (i = 0 \/ (1 <= i /\ exists x, nth_error s (i - 1) = Some x /\ in_cset x cs21 = true)) ->
  search s PWD_RX_54_0 <> None.
Proof.
  intros Hb F O B. rewrite shape_54.
  destruct (hash_shaped_token_is_matched s cs6 49%N body i [] eq_refl Hb F O B) as (j & c' & H).
  assert (Hi : i <= length s). { assert (Hn : [36; 49; 36]%N ++ body <> []) by discriminate. pose proof (occ_len s _ _ O Hn). lia. }
  assert (M : exists p, match_at s (Seq PRE (Grp 1 (HASH cs6))) i = Some p).
  { unfold match_at. rewrite m_is_first_of_ms. destruct (ms s _ i []) as [|p l]; [destruct H|]. cbn [first_some]. eauto. }
  destruct M as ([b cb] & M). unfold search.
  destruct (Ipv4Token.search_from_finds s _ (Rx.slen s) 0 i b cb M ltac:(lia) ltac:(unfold Rx.slen; lia)) as (a' & b' & c'' & S & _). rewrite S. discriminate.
Qed.

(* ======== every pattern of the GENERATED secrets table starts with the same look-behind: a secrets match never begins in the middle of a word ======== *)
Lemma every_line_pattern_starts_with_the_look_behind : Forall (fun it : re * option nat * option nat => exists r, fst (fst it) = Seq PRE r) (concat PWD_REGEXES).
Proof. unfold PWD_REGEXES. cbn [concat app]. repeat (constructor; [eexists; reflexivity|]). constructor. Qed.

Lemma space_only x : in_cset x cs22 = true -> x = 32%N.
Proof. cbn [cs22 in_cset existsb fst snd xorb]. rewrite orb_false_r. destruct (N.leb_spec 32 x), (N.leb_spec x 32); cbn [andb]; intro Hx; try discriminate; lia. Qed.
Lemma den_chr_inv (s : list chr) cs i j : den s (Chr cs) i j -> j = S i /\ exists x, nth_error s i = Some x /\ in_cset x cs = true.
Proof. intro D. inversion D; subst. split; [reflexivity|eauto]. Qed.

Theorem secrets_match_starts_at_a_word_boundary (s : list chr) (it : re * option nat * option nat) i c j c' :
  In it (concat PWD_REGEXES) -> In (j, c') (ms s (fst (fst it)) i c) ->
  i = 0 \/ (1 <= i /\ exists x, nth_error s (i - 1) = Some x /\ (in_cset x cs21 = true \/ x = 32%N)).
Proof.
  intros Hin H. pose proof every_line_pattern_starts_with_the_look_behind as F. rewrite Forall_forall in F. destruct (F it Hin) as (r & E). rewrite E in H.
  apply ms_den in H. inversion H as [| |a b i0 j1 k D1 D2| | | | | | | | | |]; subst; clear H D2.
  assert (Hlb : forall w a, den s (Look false false w a) i j1 -> j1 = i /\ w <= i /\ den s a (i - w) i) by (intros w a D; inversion D; subst; auto).
  unfold PRE in D1.
  inversion D1 as [| | |a b i0 j0 Da|a b i0 j0 Db| | | | | | | |]; subst; clear D1.
  - destruct (Hlb _ _ Da) as (_ & Hw & D). apply den_chr_inv in D as (_ & x & Hx & Ex). right. split; [exact Hw|]. exists x. split; [exact Hx|now left].
  - inversion Db as [| | |a b i0 j0 Da2|a b i0 j0 Db2| | | | | | | |]; subst; clear Db.
    + destruct (Hlb _ _ Da2) as (_ & Hw & D). inversion D as [| |a' b' i1 j2 k1 E1 E2| | | | | | | | | |]; subst.
      apply den_chr_inv in E1 as (-> & _). apply den_chr_inv in E2 as (Ej & x & Hx & Ex). apply space_only in Ex. subst x.
      right. split; [lia|]. exists 32%N. split; [|now right]. replace (i - 1) with (S (i - 2)) by lia. exact Hx.
    + inversion Db2 as [| | |a b i0 j0 Da3|a b i0 j0 Db3| | | | | | | |]; subst; clear Db2.
      * destruct (Hlb _ _ Da3) as (_ & _ & D). inversion D; subst. left. lia.
      * destruct (Hlb _ _ Db3) as (_ & Hw & D). inversion D as [| |a' b' i1 j2 k1 E1 E2| | | | | | | | | |]; subst.
        inversion E1; subst. apply den_chr_inv in E2 as (Ej & x & Hx & Ex). apply space_only in Ex. subst x.
        right. split; [exact Hw|]. exists 32%N. split; [|now right]. replace (i - 1) with 0 by lia. exact Hx.
Qed.
