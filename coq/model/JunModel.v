(* Executable model of netconan/utils/juniper_secrets.py over the GENERATED tables (gen/G_juniper.v).
   Python failure modes are explicit outcomes (no totalised shortcuts): ValueError, KeyError, IndexError. *)
From Coq Require Import List Bool Arith NArith ZArith Lia.
Import ListNotations.
Require Import Str G_juniper.
Local Open Scope N_scope.

Inductive jres := JOk (s : str) | JValueError | JKeyError | JIndexError | JBadTable.

Fixpoint assoc (l : list (N * N)) (k : N) : option N :=
  match l with [] => None | (k', v) :: r => if N.eqb k k' then Some v else assoc r k end.

Definition alen : N := N.of_nat (length NUM_ALPHA).
Definition idx (c : N) : option N := assoc ALPHA_NUM c.                 (* ALPHA_NUM[c], KeyError if absent *)
Definition chr_at (i : N) : N := nth (N.to_nat i) NUM_ALPHA 0.          (* NUM_ALPHA[i] for i < alen *)
Definition in_alpha (c : N) : bool := match idx c with Some _ => true | None => false end.
Definition fixedc (count : N) : str := nth (N.to_nat count) FIXEDC [].  (* _fixedc: "" for any other count *)

(* ---- _gap_encode(pc, prev, enc) ---- *)
Fixpoint gaps_rev (v : N) (renc : list N) : list N :=      (* for mod in reversed(enc): gaps.insert(0, v // mod); v %= mod *)
  match renc with [] => [] | m :: r => (v / m) :: gaps_rev (v mod m) r end.
Definition gaps (v : N) (enc : list N) : list N := rev (gaps_rev v (rev enc)).
Fixpoint enc_chars (prev : N) (gs : list N) : option str :=
  match gs with
  | [] => Some []
  | g :: r => match idx prev with
              | None => None
              | Some ip => let c := chr_at ((g + ip + 1) mod alen) in
                           match enc_chars c r with Some t => Some (c :: t) | None => None end
              end
  end.
Definition gap_encode (pc prev : N) (enc : list N) : option str := enc_chars prev (gaps pc enc).

Definition row_at (pos : nat) : list N := nth (Nat.modulo pos (length ENCODING)) ENCODING [].
Definition rows_nonzero : bool := forallb (fun r => forallb (fun m => negb (m =? 0)) r) ENCODING && negb (Nat.eqb (length ENCODING) 0).

(* the for-loop of juniper_nonrandom_encrypt; crypt accumulates, prev = crypt[-1] *)
Fixpoint enc_loop (pos : nat) (prev : N) (plain : str) (crypt : str) : jres :=
  match plain with
  | [] => JOk crypt
  | p :: r => match gap_encode p prev (row_at pos) with
              | None => JKeyError
              | Some out => let crypt' := crypt ++ out in enc_loop (S pos) (last crypt' 0) r crypt'
              end
  end.

Definition encrypt (plain salt : str) : jres :=
  if negb rows_nonzero then JBadTable else
  let salt1 := match salt with [] => fixedc 1 | _ => salt end in        (* if not salt: salt = _fixedc(1) *)
  match salt1 with
  | [] => JIndexError                                                     (* salt[0] *)
  | s :: _ =>
      let s' := match assoc EXTRA s with Some _ => s | None => chr_at (s mod alen) end in
      match assoc EXTRA s' with
      | None => JKeyError
      | Some e => enc_loop 0 s' plain (MAGIC ++ [s'] ++ fixedc e)
      end
  end.

(* ---- juniper_decrypt ---- *)
(* VALID = ^\$9\$[alphabet]{4,}\Z  (hand-written reading of the pattern; compared with re.search by the correspondence run) *)
Definition valid (crypt : str) : bool :=
  starts_with MAGIC crypt &&
  let rest := skipn (length MAGIC) crypt in
  (Nat.leb 4 (length rest)) && forallb (fun c => existsb (N.eqb c) NUM_ALPHA) rest.

Local Open Scope Z_scope.
Fixpoint dec_gaps (prev : N) (nib : str) : option (list Z) :=      (* _gap(prev, c) chained *)
  match nib with
  | [] => Some []
  | c :: r => match idx prev, idx c, dec_gaps c r with
              | Some ip, Some ic, Some t => Some (((Z.of_N ic - Z.of_N ip + Z.of_N alen) mod Z.of_N alen - 1) :: t)
              | _, _, _ => None
              end
  end.
Fixpoint dot (a : list Z) (b : list N) : Z :=
  match a, b with x :: a', y :: b' => x * Z.of_N y + dot a' b' | _, _ => 0 end.

Fixpoint dec_loop (fuel : nat) (prev : N) (chars : str) (decrypt : str) : jres :=
  match fuel with
  | O => JOk decrypt      (* unreachable: fuel = S (length chars) and every iteration consumes >= 1 char (rows non-empty) *)
  | S fuel' =>
      match chars with
      | [] => JOk decrypt
      | _ => let decode := row_at (length decrypt) in
             let k := length decode in
             let nib := firstn k chars in
             match dec_gaps prev nib with
             | None => JKeyError
             | Some gs =>
                 if negb (Nat.eqb (length gs) k) then JValueError      (* "Nibble and decode size not the same!" *)
                 else dec_loop fuel' (last nib prev) (skipn k chars) (decrypt ++ [Z.to_N ((dot gs decode) mod 256)])
             end
      end
  end.
Local Close Scope Z_scope.

Definition rows_nonempty : bool := forallb (fun r => negb (Nat.eqb (length r) 0)) ENCODING.

Definition decrypt (crypt : str) : jres :=
  if negb (rows_nonempty && rows_nonzero) then JBadTable else
  if negb (valid crypt) then JValueError else
  match skipn (length MAGIC) crypt with
  | [] => JIndexError
  | first :: chars =>
      match assoc EXTRA first with
      | None => JKeyError
      | Some e => let chars' := skipn (N.to_nat e) chars in dec_loop (S (length chars')) first chars' []
      end
  end.
