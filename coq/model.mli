
val xorb : bool -> bool -> bool

val negb : bool -> bool

type nat =
| O
| S of nat

val option_map : ('a1 -> 'a2) -> 'a1 option -> 'a2 option

val fst : ('a1 * 'a2) -> 'a1

val snd : ('a1 * 'a2) -> 'a2

val length : 'a1 list -> nat

val app : 'a1 list -> 'a1 list -> 'a1 list

type comparison =
| Eq
| Lt
| Gt

val compOpp : comparison -> comparison

val pred : nat -> nat

val add : nat -> nat -> nat

val mul : nat -> nat -> nat

val sub : nat -> nat -> nat

val divmod : nat -> nat -> nat -> nat -> nat * nat

val div : nat -> nat -> nat

val modulo : nat -> nat -> nat

val eqb : bool -> bool -> bool

module Nat :
 sig
  val sub : nat -> nat -> nat

  val eqb : nat -> nat -> bool

  val leb : nat -> nat -> bool

  val ltb : nat -> nat -> bool

  val divmod : nat -> nat -> nat -> nat -> nat * nat

  val modulo : nat -> nat -> nat
 end

type positive =
| XI of positive
| XO of positive
| XH

type n =
| N0
| Npos of positive

type z =
| Z0
| Zpos of positive
| Zneg of positive

module Pos :
 sig
  type mask =
  | IsNul
  | IsPos of positive
  | IsNeg
 end

module Coq_Pos :
 sig
  val succ : positive -> positive

  val add : positive -> positive -> positive

  val add_carry : positive -> positive -> positive

  val pred_double : positive -> positive

  val pred_N : positive -> n

  type mask = Pos.mask =
  | IsNul
  | IsPos of positive
  | IsNeg

  val succ_double_mask : mask -> mask

  val double_mask : mask -> mask

  val double_pred_mask : positive -> mask

  val sub_mask : positive -> positive -> mask

  val sub_mask_carry : positive -> positive -> mask

  val mul : positive -> positive -> positive

  val iter : ('a1 -> 'a1) -> 'a1 -> positive -> 'a1

  val pow : positive -> positive -> positive

  val div2 : positive -> positive

  val div2_up : positive -> positive

  val size : positive -> positive

  val compare_cont : comparison -> positive -> positive -> comparison

  val compare : positive -> positive -> comparison

  val eqb : positive -> positive -> bool

  val coq_Nsucc_double : n -> n

  val coq_Ndouble : n -> n

  val coq_lor : positive -> positive -> positive

  val coq_land : positive -> positive -> n

  val ldiff : positive -> positive -> n

  val coq_lxor : positive -> positive -> n

  val shiftl : positive -> n -> positive

  val testbit : positive -> n -> bool

  val iter_op : ('a1 -> 'a1 -> 'a1) -> positive -> 'a1 -> 'a1

  val to_nat : positive -> nat

  val of_succ_nat : nat -> positive

  val eq_dec : positive -> positive -> bool
 end

module N :
 sig
  val succ_double : n -> n

  val double : n -> n

  val succ_pos : n -> positive

  val add : n -> n -> n

  val sub : n -> n -> n

  val mul : n -> n -> n

  val compare : n -> n -> comparison

  val eqb : n -> n -> bool

  val leb : n -> n -> bool

  val ltb : n -> n -> bool

  val min : n -> n -> n

  val div2 : n -> n

  val even : n -> bool

  val odd : n -> bool

  val pow : n -> n -> n

  val log2 : n -> n

  val pos_div_eucl : positive -> n -> n * n

  val div_eucl : n -> n -> n * n

  val div : n -> n -> n

  val modulo : n -> n -> n

  val coq_lor : n -> n -> n

  val coq_land : n -> n -> n

  val ldiff : n -> n -> n

  val coq_lxor : n -> n -> n

  val shiftl : n -> n -> n

  val shiftr : n -> n -> n

  val testbit : n -> n -> bool

  val to_nat : n -> nat

  val of_nat : nat -> n
 end

val hd : 'a1 -> 'a1 list -> 'a1

val nth : nat -> 'a1 list -> 'a1 -> 'a1

val nth_error : 'a1 list -> nat -> 'a1 option

val last : 'a1 list -> 'a1 -> 'a1

val removelast : 'a1 list -> 'a1 list

val rev : 'a1 list -> 'a1 list

val concat : 'a1 list list -> 'a1 list

val list_eq_dec : ('a1 -> 'a1 -> bool) -> 'a1 list -> 'a1 list -> bool

val map : ('a1 -> 'a2) -> 'a1 list -> 'a2 list

val flat_map : ('a1 -> 'a2 list) -> 'a1 list -> 'a2 list

val fold_left : ('a1 -> 'a2 -> 'a1) -> 'a2 list -> 'a1 -> 'a1

val fold_right : ('a2 -> 'a1 -> 'a1) -> 'a1 -> 'a2 list -> 'a1

val existsb : ('a1 -> bool) -> 'a1 list -> bool

val forallb : ('a1 -> bool) -> 'a1 list -> bool

val filter : ('a1 -> bool) -> 'a1 list -> 'a1 list

val find : ('a1 -> bool) -> 'a1 list -> 'a1 option

val combine : 'a1 list -> 'a2 list -> ('a1 * 'a2) list

val firstn : nat -> 'a1 list -> 'a1 list

val skipn : nat -> 'a1 list -> 'a1 list

val seq : nat -> nat -> nat list

val repeat : 'a1 -> nat -> 'a1 list

module Z :
 sig
  val double : z -> z

  val succ_double : z -> z

  val pred_double : z -> z

  val pos_sub : positive -> positive -> z

  val add : z -> z -> z

  val opp : z -> z

  val pred : z -> z

  val sub : z -> z -> z

  val mul : z -> z -> z

  val pow_pos : z -> positive -> z

  val pow : z -> z -> z

  val compare : z -> z -> comparison

  val leb : z -> z -> bool

  val ltb : z -> z -> bool

  val eqb : z -> z -> bool

  val to_nat : z -> nat

  val to_N : z -> n

  val of_nat : nat -> z

  val of_N : n -> z

  val pos_div_eucl : positive -> z -> z * z

  val div_eucl : z -> z -> z * z

  val div : z -> z -> z

  val modulo : z -> z -> z

  val div2 : z -> z

  val log2 : z -> z

  val shiftl : z -> z -> z

  val shiftr : z -> z -> z

  val coq_land : z -> z -> z

  val coq_lxor : z -> z -> z

  val eq_dec : z -> z -> bool

  val ones : z -> z
 end

type ascii =
| Ascii of bool * bool * bool * bool * bool * bool * bool * bool

val eqb0 : ascii -> ascii -> bool

val n_of_digits : bool list -> n

val n_of_ascii : ascii -> n

type string =
| EmptyString
| String of ascii * string

val eqb1 : string -> string -> bool

val list_ascii_of_string : string -> ascii list

type str = n list

val str_eqb : str -> str -> bool

val mem_str : str -> str list -> bool

val split_on_aux : n -> str -> str -> str list

val split_on : n -> str -> str list

val join : str -> str list -> str

val is_digit : n -> bool

val all_digits : str -> bool

val parse_dec : str -> n option

val show_dec_aux : nat -> n -> str -> str

val show_dec : n -> str

val str_of_bits : bool list -> str

val bits_of_N : nat -> n -> bool list

val n_of_bits : bool list -> n

val hex_digit : n -> n

val hex_of_bytes : n list -> str

val utf8_char : n -> n list option

val utf8 : str -> n list option

val starts_with : str -> str -> bool

val ends_with : str -> str -> bool

val is_space : n -> bool

val lstrip : str -> str

val rstrip : str -> str

val split_ws_aux : str -> str -> str list

val split_ws : str -> str list

val lower_ascii : n -> n

val lower_str : str -> str

val contains_aux : nat -> str -> str -> bool

val contains : str -> str -> bool

val lit : string -> str

type bits = bool list

val beq : bits -> bits -> bool

type bidict = (bits * bits) list

val bget : bidict -> bits -> bits option

val binv : bidict -> bits -> bits option

type 'a res =
| Ok of 'a
| Err

val bput : bidict -> bits -> bits -> bidict res

val g_anon : (bits -> bool) -> nat -> bidict -> bits -> (bidict * bits) res

val g_deanon : (bits -> bool) -> nat -> bidict -> bits -> (bidict * bits) res

val anonymize :
  (bits -> bool) -> nat -> nat -> bidict -> bits -> (bidict * bits) res

val deanonymize :
  (bits -> bool) -> nat -> nat -> bidict -> bits -> (bidict * bits) res

val seed_one : nat -> bidict -> bits -> nat -> bidict res

val seed_all : bidict -> bits list -> bidict res

val m32 : n

val w : n -> n

val rotl : n -> n -> n

val notw : n -> n

val ks : n list

val ss : n list

val nthN : n list -> nat -> n

val le_bytes : nat -> n -> n list

val pad : n list -> n list

val words : nat -> n list -> n list

val chunks : nat -> n list -> n list list

val step : n list -> (((n * n) * n) * n) -> nat -> ((n * n) * n) * n

val block : (((n * n) * n) * n) -> n list -> ((n * n) * n) * n

val md5 : n list -> n list

val is_mask : n -> bool

val hash_bit : str -> str -> bool option

val salter_md5 : str -> bits -> bool

val salter_tab : str list -> bits -> bool

val fmt_bits : nat -> n -> bits

type anonymizer = { a_n : nat; a_B : nat; a_H : (bits -> bool);
                    a_cache : bidict; a_nets : (n * nat) list }

val with_cache : anonymizer -> bidict -> anonymizer

val in_range : anonymizer -> n -> bool

val anonymize_int : anonymizer -> n -> (anonymizer * n) res

val deanonymize_int : anonymizer -> n -> (anonymizer * n) res

val base_init : nat -> nat -> (bits -> bool) -> anonymizer

val prefix_bits : nat -> (n * nat) -> bits

val ip4_init :
  (bits -> bool) -> nat -> (n * nat) list -> (n * nat) list -> anonymizer res

val ip6_init : (bits -> bool) -> nat -> anonymizer

val in_net : n -> (n * nat) -> bool

val should_anonymize4 : anonymizer -> n -> bool

val dump : anonymizer -> (n * n) list

val rFC_1918_NETWORKS : (n * nat) list

val dEFAULT_PRESERVED_PREFIXES : (n * nat) list

val eRR : str

val bAD : str

val parse_nat : str -> nat option

val parse_salter : str -> (bits -> bool) option

val parse_net : str -> (n * nat) option

val sequence : 'a1 option list -> 'a1 list option

val parse_net_item : str -> (n * nat) list option

val parse_nets : str -> (n * nat) list option

val show_pair : (n * n) -> str

val run_op : anonymizer -> str -> anonymizer * str

val run_ops : anonymizer -> str list -> str list

val run_ip : str list -> str

val mAGIC : n list

val nUM_ALPHA : n list

val aLPHA_NUM : (n * n) list

val eXTRA : (n * n) list

val eNCODING : n list list

val fIXEDC : n list list

type jres =
| JOk of str
| JValueError
| JKeyError
| JIndexError
| JBadTable

val assoc : (n * n) list -> n -> n option

val alen : n

val idx : n -> n option

val chr_at : n -> n

val fixedc : n -> str

val gaps_rev : n -> n list -> n list

val gaps : n -> n list -> n list

val enc_chars : n -> n list -> str option

val gap_encode : n -> n -> n list -> str option

val row_at : nat -> n list

val rows_nonzero : bool

val enc_loop : nat -> n -> str -> str -> jres

val encrypt : str -> str -> jres

val valid : str -> bool

val dec_gaps : n -> str -> z list option

val dot : z list -> n list -> z

val dec_loop : nat -> n -> str -> str -> jres

val rows_nonempty : bool

val decrypt : str -> jres

val show_jres : jres -> str

val run_jun : str list -> str

type chr = n

type cset =
| CRanges of bool * (n * n) list

val in_cset : chr -> cset -> bool

type re =
| Eps
| Chr of cset
| Seq of re * re
| Alt of re * re
| Rep of bool * re * nat * nat option
| Bol
| Eol
| Eos
| Look of bool * bool * nat * re
| Grp of nat * re

type caps = (nat * (nat * nat)) list

type r = (nat * caps) option

val slen : chr list -> nat

val eol : chr list -> nat -> bool

val m : chr list -> re -> nat -> caps -> ((nat * caps) -> r) -> r

val nullable : re -> bool

val match_at : chr list -> re -> nat -> (nat * caps) option

val search_from : chr list -> nat -> re -> nat -> ((nat * nat) * caps) option

val substr : chr list -> nat -> nat -> chr list

val search : chr list -> re -> ((nat * nat) * caps) option

val match_start : chr list -> re -> (nat * caps) option

val cap_lookup : caps -> nat -> (nat * nat) option

val group : chr list -> nat -> nat -> caps -> nat -> chr list option

val sub_loop :
  chr list -> nat -> re -> ('a1 -> nat -> nat -> caps -> 'a1 * chr list) ->
  'a1 -> nat -> 'a1 * chr list

val sub_fn :
  chr list -> re -> ('a1 -> nat -> nat -> caps -> 'a1 * chr list) -> 'a1 ->
  ('a1 * chr list) option

val parse_octet : str -> n option

val parse4 : str -> n option

val print4 : n -> str

val hex_val : n -> n option

val parse_hex_aux : str -> n -> n option

val parse_hextet : str -> n option

val show_hex_aux : nat -> n -> str -> str

val show_hex : n -> str

val hextets_value : str list -> n -> n option

val is_empty : str -> bool

val inner_empty_indices : str list -> nat list

val parse6_noscope : str -> n option

val parse6 : str -> n option

val hextets_of : n -> n list

val best_run : n list -> nat -> nat -> nat -> nat -> nat -> nat * nat

val print6 : n -> str

val aS_NUM_BOUNDARIES : z list

type asres =
| AsOk of z
| AsValueError
| AsNone

val as_loop : z -> z -> z -> z list -> z option

val as_repl : z -> z -> asres

val hash_int : str -> str -> z option

val as_replacement_text : str -> str -> asres option

val cs0 : cset

val cs1 : cset

val cs2 : cset

val cs3 : cset

val cs4 : cset

val cs5 : cset

val cs6 : cset

val cs7 : cset

val cs8 : cset

val cs9 : cset

val cs10 : cset

val cs11 : cset

val cs12 : cset

val cs13 : cset

val cs14 : cset

val cs15 : cset

val cs16 : cset

val cs17 : cset

val cs18 : cset

val cs19 : cset

val cs21 : cset

val cs22 : cset

val cs23 : cset

val cs24 : cset

val cs25 : cset

val cs26 : cset

val cs27 : cset

val cs28 : cset

val cs29 : cset

val cs30 : cset

val cs31 : cset

val cs32 : cset

val cs33 : cset

val cs34 : cset

val cs35 : cset

val cs36 : cset

val cs37 : cset

val cs38 : cset

val cs39 : cset

val cs40 : cset

val cs41 : cset

val cs42 : cset

val cs43 : cset

val cs44 : cset

val cs45 : cset

val cs46 : cset

val cs47 : cset

val cs48 : cset

val cs49 : cset

val cs50 : cset

val cs51 : cset

val cs52 : cset

val cs53 : cset

val cs54 : cset

val cs55 : cset

val cs56 : cset

val cs57 : cset

val cs58 : cset

val cs59 : cset

val cs60 : cset

val cs61 : cset

val cs62 : cset

val cs63 : cset

val cs64 : cset

val cs65 : cset

val cs66 : cset

val cs67 : cset

val cs68 : cset

val cs69 : cset

val cs70 : cset

val cs71 : cset

val cs72 : cset

val cs73 : cset

val iPV4_RX : re

val iPV6_RX : re

val dROP_ZEROS_RX : re

val pWD_RX_0_0 : re

val pWD_RX_1_0 : re

val pWD_RX_2_0 : re

val pWD_RX_3_0 : re

val pWD_RX_4_0 : re

val pWD_RX_5_0 : re

val pWD_RX_6_0 : re

val pWD_RX_7_0 : re

val pWD_RX_8_0 : re

val pWD_RX_9_0 : re

val pWD_RX_10_0 : re

val pWD_RX_11_0 : re

val pWD_RX_12_0 : re

val pWD_RX_13_0 : re

val pWD_RX_14_0 : re

val pWD_RX_15_0 : re

val pWD_RX_16_0 : re

val pWD_RX_17_0 : re

val pWD_RX_18_0 : re

val pWD_RX_19_0 : re

val pWD_RX_20_0 : re

val pWD_RX_21_0 : re

val pWD_RX_22_0 : re

val pWD_RX_23_0 : re

val pWD_RX_24_0 : re

val pWD_RX_25_0 : re

val pWD_RX_25_1 : re

val pWD_RX_26_0 : re

val pWD_RX_27_0 : re

val pWD_RX_28_0 : re

val pWD_RX_28_1 : re

val pWD_RX_29_0 : re

val pWD_RX_30_0 : re

val pWD_RX_31_0 : re

val pWD_RX_32_0 : re

val pWD_RX_33_0 : re

val pWD_RX_34_0 : re

val pWD_RX_35_0 : re

val pWD_RX_36_0 : re

val pWD_RX_37_0 : re

val pWD_RX_38_0 : re

val pWD_RX_39_0 : re

val pWD_RX_40_0 : re

val pWD_RX_41_0 : re

val pWD_RX_42_0 : re

val pWD_RX_43_0 : re

val pWD_RX_44_0 : re

val pWD_RX_45_0 : re

val pWD_RX_46_0 : re

val pWD_RX_47_0 : re

val pWD_RX_48_0 : re

val pWD_RX_49_0 : re

val pWD_RX_50_0 : re

val pWD_RX_51_0 : re

val pWD_RX_52_0 : re

val pWD_RX_53_0 : re

val pWD_RX_54_0 : re

val pWD_REGEXES : ((re * nat option) * nat option) list list

val fORMAT_ENUM : (n * n) list

val iCASE_ASCII : (n * (n * n) list) list

val cS_NOT_DIGIT : (n * n) list

val lINE_SCRUBBED_MESSAGE : n list

val eNCLOSING_HEAD : n list list

val eNCLOSING_TAIL : n list list

val aNON_SENSITIVE_WORD_LEN : nat

val rESERVED_WORDS : n list list

type exn =
| TypeError
| IndexError
| KeyError
| ValueError of z list
| AttributeError
| DuplicationError
| OutOfFuel
| Unsupported

type pyval =
| VNone
| VBool of bool
| VInt of z
| VStr of z list
| VList of pyval list
| VTuple of pyval list
| VDict of (pyval * pyval) list
| VBidict of (pyval * pyval) list
| VBidictInv of (pyval * pyval) list
| VObj of z list * (pyval * pyval) list
| VFun of z list
| VAddr of z * z
| VNet of z * z * z

type 'a ctl =
| Normal of 'a
| Ret of pyval
| Exc of exn
| Brk of 'a
| Cont of 'a

type res0 = pyval ctl

val bind : 'a1 ctl -> ('a1 -> 'a2 ctl) -> 'a2 ctl

val bindS : 'a1 ctl -> ('a1 -> 'a1 ctl) -> 'a1 ctl

val of_string : string -> z list

val s_ : string -> pyval

val veq : pyval -> pyval -> bool

val is_none : pyval -> bool

val truthy : pyval -> bool

val intop : (z -> z -> z) -> pyval -> pyval -> res0

val py_add : pyval -> pyval -> res0

val py_sub : pyval -> pyval -> res0

val py_mul : pyval -> pyval -> res0

val py_xor : pyval -> pyval -> res0

val py_and : pyval -> pyval -> res0

val py_rshift : pyval -> pyval -> res0

val py_floordiv : pyval -> pyval -> res0

val py_mod : pyval -> pyval -> res0

val py_neg : pyval -> res0

val py_eq : pyval -> pyval -> res0

val py_ne : pyval -> pyval -> res0

val py_not : pyval -> res0

val py_len : pyval -> res0

val norm_idx : nat -> z -> nat option

val dict_get : (pyval * pyval) list -> pyval -> pyval option

val dict_inv : (pyval * pyval) list -> pyval -> pyval option

val dict_set : (pyval * pyval) list -> pyval -> pyval -> (pyval * pyval) list

val py_getitem : pyval -> pyval -> res0

val py_get : pyval -> pyval -> res0

val bidict_put :
  (pyval * pyval) list -> pyval -> pyval -> (pyval * pyval) list ctl

val py_setitem : pyval -> pyval -> pyval -> res0

val clamp : nat -> z option -> nat -> nat

val slice : 'a1 list -> z option -> z option -> 'a1 list

val optZ : pyval -> z option ctl

val py_slice : pyval -> pyval -> pyval -> res0

val py_getattr : pyval -> string -> res0

val py_setattr : pyval -> string -> pyval -> res0

val digit_val : z -> z option

val parse_int : z -> z -> z list -> z option

val py_int : pyval -> pyval -> res0

val digits_rev : nat -> z -> z -> z list

val dchar : z -> z

val nat_str : z -> z -> z list

val py_str : pyval -> res0

val py_format_bin : pyval -> pyval -> res0

val py_iter : pyval -> pyval list ctl

val py_range : pyval -> res0

val py_list : pyval -> res0

val py_list_extend : pyval -> pyval -> res0

val py_any : pyval -> res0

val unpack2 : pyval -> (pyval * pyval) ctl

val py_for : pyval list -> (pyval -> 'a1 -> 'a1 ctl) -> 'a1 -> 'a1 ctl

val call : unit ctl -> res0

val kw_lookup : pyval -> string -> pyval -> pyval

val split_on0 : z -> z list -> z list -> z list list

val parse_octet0 : z list -> z option

val parse_v4 : z list -> z option

val ip_network : pyval -> res0

val ip_address : pyval -> res0

val py_in : pyval -> pyval -> res0

val new_obj : string -> pyval

val new_bidict : pyval -> res0

val fmt_field : z list -> pyval -> res0

val take_until : z -> z list -> z list -> (z list * z list) option

val py_format_go :
  nat -> z list -> pyval list -> (pyval * pyval) list -> z list -> z list ctl

val py_format : pyval -> pyval -> pyval -> res0

val py_while : nat -> ('a1 -> bool ctl) -> ('a1 -> 'a1 ctl) -> 'a1 -> 'a1 ctl

val py_ord : pyval -> res0

val py_chr : pyval -> res0

val py_enumerate : pyval -> res0

val py_reversed : pyval -> res0

val py_sum : pyval -> res0

val py_zip : pyval -> pyval -> res0

val py_format_str : pyval -> res0

val py_list_append : pyval -> pyval -> res0

val py_list_insert : pyval -> pyval -> pyval -> res0

val zprefix : z list -> z list -> bool

val py_startswith : pyval -> pyval -> res0

val py_endswith : pyval -> pyval -> res0

val py_lt : pyval -> pyval -> res0

val py_gt : pyval -> pyval -> res0

val re_search_ast : re -> pyval -> res0

val re_match_ast : re -> pyval -> res0

val py_md5_hexdigest : pyval -> res0

val g__PASSWORD_ENCLOSING_HEAD_TEXT : pyval

val g__PASSWORD_ENCLOSING_TAIL_TEXT : pyval

val cs20 : cset

val cs74 : cset

val cs75 : cset

val cs76 : cset

val cs77 : cset

val cs78 : cset

val cs79 : cset

val cs80 : cset

val rX_LIT0 : re

val rX_LIT1 : re

val rX_LIT2 : re

val rX_LIT3 : re

val rX_LIT4 : re

val rX_LIT5 : re

val gen_AsNumberAnonymizer___generate_as_number_replacement :
  (pyval -> pyval -> res0) -> nat -> pyval -> pyval -> res0

val gen__check_sensitive_item_format :
  (pyval -> pyval -> res0) -> nat -> pyval -> res0

val gen__extract_enclosing_text :
  (pyval -> pyval -> res0) -> nat -> pyval -> pyval -> pyval -> res0

type 'a outcome =
| Done of 'a
| Raised of str

val obind : 'a1 outcome -> ('a1 -> 'a2 outcome) -> 'a2 outcome

val split_line : str -> (str * str list) * str

val strip_heads : str -> str -> str * str

val strip_tails : str -> str -> str * str

val extract_enclosing_aux : nat -> str -> str -> str -> (str * str) * str

val extract_enclosing : str -> str -> str -> (str * str) * str

val check_format : str -> n

val fmt_code : n -> n

val f_TYPE7 : n

val f_NUMERIC : n

val f_HEX : n

val f_MD5 : n

val f_SHA512 : n

val f_JUNIPER : n

val ascii_bytes : str -> n list

val to_decimal_of_bytes : str -> str

val tYPE7_KEY : str

val upper_hex_digit : n -> n

val type7_hash : n -> str -> str

type oracle = (str * str) list

val olookup : oracle -> str -> str option

type lookup_t = (str * str) list

val lget : lookup_t -> str -> str option

val lset : lookup_t -> str -> str -> lookup_t

val jun_decrypt_opt : str -> str option outcome

val jun_encrypt_o : str -> str -> str outcome

val anonymize_value :
  oracle -> str -> lookup_t -> str list -> str -> (str * lookup_t) outcome

val apply_item :
  oracle -> str list -> str -> ((re * nat option) * nat option) -> str ->
  lookup_t -> ((str * lookup_t) * bool) outcome option

val apply_group :
  oracle -> str list -> str -> ((re * nat option) * nat option) list -> str
  -> lookup_t -> bool -> ((str * lookup_t) * bool) outcome

val apply_groups :
  oracle -> str list -> str -> ((re * nat option) * nat option) list list ->
  str -> lookup_t -> (str * lookup_t) outcome

val replace_matching_item :
  oracle -> str list -> str -> str -> lookup_t -> (str * lookup_t) outcome

val make_addr4 : str -> n option

val ip_match :
  bool -> bool -> anonymizer outcome -> str -> anonymizer outcome * str

val anonymize_ip_line :
  bool -> bool -> anonymizer -> str -> (anonymizer * str) outcome

val lit_rx : str -> re

val alt_of : re list -> re

val nOT_DIGIT : cset

val as_rx : str list -> re

type as_anonymizer = { as_regex : re; as_map : (str * str) list }

val as_init : str list -> str -> as_anonymizer outcome

val anonymize_as_line : as_anonymizer -> str -> str outcome

val icase_cset : n -> cset

val lit_icase_rx : str -> re

val str_ltb : str -> str -> bool

val word_before : str -> str -> bool

val insert_word : str -> str list -> str list

val dedup : str list -> str list

val sort_words : str list -> str list

val word_safe : str -> bool

type word_anonymizer = { w_regex : re; w_conflicting : str list; w_salt : str }

val word_init : str list -> str -> str list -> word_anonymizer outcome

val word_pseudonym : str -> str -> str outcome

val anonymize_word_token : word_anonymizer -> str -> str outcome

val omap : ('a1 -> 'a2 outcome) -> 'a1 list -> 'a2 list outcome

val anonymize_words_line : word_anonymizer -> str -> str outcome

type options = { o_pwd : bool; o_ip : bool; o_undo : bool; o_salt : str;
                 o_words : str list option; o_asnums : str list option;
                 o_reserved : str list option;
                 o_prefixes : (n * nat) list option;
                 o_networks : (n * nat) list option; o_b4 : nat; o_b6 : 
                 nat }

type file_anonymizer = { fa_undo : bool; fa_salt : str;
                         fa_pwd : lookup_t option; fa_reserved : str list;
                         fa_a4 : anonymizer option;
                         fa_a6 : anonymizer option;
                         fa_words : word_anonymizer option;
                         fa_as : as_anonymizer option }

val fa_init : options -> file_anonymizer outcome

val with_state :
  file_anonymizer -> lookup_t option -> anonymizer option -> anonymizer
  option -> file_anonymizer

val process_line :
  oracle -> file_anonymizer -> str -> (file_anonymizer * str) outcome

val anonymize_io :
  oracle -> file_anonymizer -> str list -> (file_anonymizer * str list)
  outcome

val dump_lines : file_anonymizer -> str list

val parse_optlist : str -> str list option

val parse_oracle : str -> oracle

val has : n -> str -> bool

val run_pipe : str list -> str

val run_asr : str list -> str

val rFC_1918_TXT : n list list

type args = { a_input : str; a_output : str; a_ips : bool; a_pwd : bool;
              a_undo : bool; a_private : bool; a_salt : str option;
              a_dump : str option; a_asnums : str option;
              a_reserved : str option; a_words : str option;
              a_prefixes : str option; a_addresses : str option;
              a_hostbits : nat }

type call0 = { c_input : str; c_output : str; c_pwd : bool; c_ip : bool;
               c_salt : str option; c_dump : str option;
               c_words : str list option; c_undo : bool;
               c_asnums : str list option; c_reserved : str list option;
               c_prefixes : str list option; c_networks : str list option;
               c_b4 : nat; c_b6 : nat }

type main_result =
| MRaise of str
| MNoCall
| MCall of call0

val is_nil : str -> bool

val split_commas : str option -> str list option

val truthy_list : str list option -> bool

val main_model : args -> main_result

val opt_str : str -> str option

val show_bool : bool -> str

val show_optstr : str option -> str

val show_optlist : str list option -> str

val has0 : n -> str -> bool

val run_mainm : str list -> str

val gen__BaseIpAnonymizer____init__ :
  (pyval -> pyval -> res0) -> nat -> pyval -> pyval -> pyval -> pyval ->
  pyval -> res0

val gen__BaseIpAnonymizer___anonymize_bits :
  (pyval -> pyval -> res0) -> nat -> pyval -> pyval -> res0

val gen__BaseIpAnonymizer__anonymize :
  (pyval -> pyval -> res0) -> nat -> pyval -> pyval -> res0

val gen__BaseIpAnonymizer___deanonymize_bits :
  (pyval -> pyval -> res0) -> nat -> pyval -> pyval -> res0

val gen__BaseIpAnonymizer__deanonymize :
  (pyval -> pyval -> res0) -> nat -> pyval -> pyval -> res0

val gen_IpAnonymizer____init__ :
  (pyval -> pyval -> res0) -> nat -> pyval -> pyval -> pyval -> pyval ->
  pyval -> res0

val gen_IpAnonymizer___is_mask :
  (pyval -> pyval -> res0) -> nat -> pyval -> pyval -> res0

val gen_IpAnonymizer__should_anonymize :
  (pyval -> pyval -> res0) -> nat -> pyval -> pyval -> res0

val gen__generate_bit_from_hash :
  (pyval -> pyval -> res0) -> nat -> pyval -> pyval -> res0

val g_MAGIC : pyval

val g_EXTRA : pyval

val g_ENCODING : pyval

val g_ALPHA_NUM : pyval

val g_NUM_ALPHA : pyval

val cs81 : cset

val cs82 : cset

val cs83 : cset

val rX_VALID : re

val gen__nibble : (pyval -> pyval -> res0) -> nat -> pyval -> pyval -> res0

val gen__gap : (pyval -> pyval -> res0) -> nat -> pyval -> pyval -> res0

val gen__gap_decode :
  (pyval -> pyval -> res0) -> nat -> pyval -> pyval -> res0

val gen_juniper_decrypt : (pyval -> pyval -> res0) -> nat -> pyval -> res0

val gen__fixedc : (pyval -> pyval -> res0) -> nat -> pyval -> res0

val gen__gap_encode :
  (pyval -> pyval -> res0) -> nat -> pyval -> pyval -> pyval -> res0

val gen_juniper_nonrandom_encrypt :
  (pyval -> pyval -> res0) -> nat -> pyval -> pyval -> res0

val zs : str -> z list

val table_salter : str list -> pyval -> pyval -> res0

val g_op : (pyval -> pyval -> res0) -> nat -> pyval -> str -> pyval * str

val g_ops : (pyval -> pyval -> res0) -> nat -> pyval -> str list -> str list

val run_gbase : str list -> str

val md5_call : pyval -> pyval -> res0

val net_string : (n * nat) -> pyval

val g_op4 : nat -> pyval -> str -> pyval * str

val g_ops4 : nat -> pyval -> str list -> str list

val run_gip4 : str list -> str

val run_gas : str list -> str

val run_genc : str list -> str

val no_call : pyval -> pyval -> res0

val show_gres : res0 -> str

val run_gjun : str list -> str

val run_case : str list -> str
