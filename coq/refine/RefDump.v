(* _BaseIpAnonymizer.dump_to_file and _ip_to_str as GENERATED from the source (gen/G_fn_ip3.v) against the model's dump (model/IpModel.v) and
   dump_lines (model/TextModel.v): the entries of the cache whose key has the full length of the family, in insertion order, one line
   "<original>\t<replacement>\n" each, both addresses printed by the subclass's make_addr_from_int (a call of the py_call parameter: any
   dispatcher that prints the integer as the model does), appended to what the file already holds; the anonymizer is not changed.
   The object is the one _BaseIpAnonymizer.__init__ builds (RefIpCommon.mkself), the cache the model's bidict. *)
From Coq Require Import String.
From Coq Require Import List ZArith NArith Bool Arith Lia.
Import ListNotations.
Require Import PyLib PyLib2 Str Memo IpModel TextModel G_fn_ip3 RefJun RefIpCommon.
Require MemoProofs.
Notation vstr := RefJun.vstr.

Lemma parse_bits (b : list bool) (acc : N) :
  parse_int 2 (Z.of_N acc) (enc b) = Some (Z.of_N (fold_left (fun a (x : bool) => 2 * a + (if x then 1 else 0))%N b acc)).
Proof.
  revert acc. induction b as [|x b IH]; intros acc; cbn [enc map parse_int fold_left]; [reflexivity|].
  change (map encb b) with (enc b).
  destruct x; cbn [encb digit_val Z.leb Z.compare Pos.compare Pos.compare_cont andb Z.sub Z.add Z.opp Z.pos_sub Z.succ_double Z.pred_double Z.double Pos.pred_double Z.ltb].
  - replace (Z.of_N acc * 2 + 1)%Z with (Z.of_N (2 * acc + 1)) by lia. apply IH.
  - replace (Z.of_N acc * 2 + 0)%Z with (Z.of_N (2 * acc + 0)) by lia. apply IH.
Qed.
Lemma int_bits (b : list bool) : b <> [] -> py_int (VS b) (VInt 2) = Normal (VInt (Z.of_N (N_of_bits b))).
Proof.
  intro Hb. unfold VS, py_int. destruct (enc b) as [|c r] eqn:E; [destruct b; [contradiction|discriminate]|]. rewrite <- E.
  change 0%Z with (Z.of_N 0). now rewrite parse_bits.
Qed.

Section D.
Variables (clsname : list Z) (saltv fmtv salterv : pyval) (Bz : Z) (rest : list (pyval * pyval)).
Variable n : nat.                                    (* the family's width: self.length *)
Variable pr : N -> str.                              (* how the family prints an address *)
Variable py_call : pyval -> pyval -> PyLib.res.
Notation mk := (mkself clsname saltv (VInt (Z.of_nat n)) fmtv salterv Bz rest).
Hypothesis Hpr : forall o y, py_call (VFun (of_string "make_addr_from_int")) (VList [o; VInt (Z.of_N y)]) = Normal (vstr (pr y)).

Definition dump_line (kv : N * N) : str := pr (fst kv) ++ [9%N] ++ pr (snd kv) ++ [10%N].
Definition full (kv : list bool * list bool) : bool := Nat.eqb (List.length (fst kv)) n.

Lemma gen_ip_to_str fuel o (b : list bool) : b <> [] ->
  gen__BaseIpAnonymizer___ip_to_str py_call fuel o (VS b) = Normal (vstr (pr (N_of_bits b))).
Proof. intro Hb. unfold gen__BaseIpAnonymizer___ip_to_str. rewrite (int_bits b Hb). cbn [PyLib.bind]. rewrite Hpr. reflexivity. Qed.

Lemma get_length d : py_getattr (mk d) "length" = Normal (VInt (Z.of_nat n)). Proof. reflexivity. Qed.

(* the generator expression: the full-length entries, in order *)
Lemma select_loop (f : pyval -> list pyval -> ctl (list pyval)) :
  (forall k v acc, f (VTuple [VS k; VS v]) acc = Normal (if Nat.eqb (List.length k) n then acc ++ [VTuple [VS k; VS v]] else acc)%list) ->
  forall (d : Memo.bidict) (acc : list pyval),
  py_for (map (fun kv => VTuple [VS (fst kv); VS (snd kv)]) d) f acc
  = Normal (acc ++ map (fun kv => VTuple [VS (fst kv); VS (snd kv)]) (filter full d))%list.
Proof.
  intros Hf. induction d as [|[k v] d IH]; intros acc; cbn [map py_for filter fst snd]; [now rewrite app_nil_r|].
  rewrite Hf. unfold full at 1. cbn [fst]. destruct (Nat.eqb (List.length k) n).
  - rewrite IH. cbn [map]. now rewrite <- app_assoc.
  - apply IH.
Qed.
Lemma select_body o k v acc : py_getattr o "length" = Normal (VInt (Z.of_nat n)) ->
  PyLib.bind (unpack2 (VTuple [VS k; VS v])) (fun p_ => let '(v_bits, v_anon_bits) := p_ in
       PyLib.bind (py_len v_bits) (fun t4 => PyLib.bind (py_getattr o "length") (fun t5 => PyLib.bind (py_eq t4 t5) (fun t6 =>
       if truthy t6 then Normal (acc ++ [VTuple [v_bits; v_anon_bits]])%list else Normal acc))))
  = Normal (if Nat.eqb (List.length k) n then acc ++ [VTuple [VS k; VS v]] else acc)%list.
Proof.
  intro HL. cbn [unpack2 PyLib.bind]. unfold VS at 1. cbn [py_len PyLib.bind]. rewrite HL. cbn [PyLib.bind py_eq veq truthy]. rewrite enc_length.
  destruct (Nat.eqb_spec (List.length k) n) as [E|E].
  - now rewrite E, Z.eqb_refl.
  - destruct (Z.eqb_spec (Z.of_nat (List.length k)) (Z.of_nat n)) as [E'|E']; [lia|reflexivity].
Qed.

Lemma format_line (a b : str) :
  py_format (VStr [123;125;9;123;125;10]%Z) (VList [vstr a; vstr b]) (VDict []) = Normal (vstr (a ++ [9%N] ++ b ++ [10%N])).
Proof.
  unfold py_format, RefJun.vstr. cbn [List.length py_format_go take_until Z.eqb Pos.eqb rev app fmt_field PyLib.bind].
  rewrite !map_app. cbn [map app Z.of_N]. rewrite !map_app. cbn [map]. now rewrite <- !app_assoc.
Qed.

(* the loop that writes *)
Lemma write_loop fuel (o ips : pyval) (d : list (list bool * list bool)) : Forall (fun kv => fst kv <> [] /\ snd kv <> []) d ->
  forall (outs : list pyval) vb va vi van, exists vb' va' vi' van',
  py_for (map (fun kv => VTuple [VS (fst kv); VS (snd kv)]) d)
    (fun x_ '(v_self, v_file_out, v_ips, v_bits, v_anon_bits, v_ip, v_anon) =>
       PyLib.bind (unpack2 x_) (fun p_ => let '(v_bits, v_anon_bits) := p_ in
       PyLib.bind (gen__BaseIpAnonymizer___ip_to_str py_call fuel v_self v_bits) (fun t8 => let v_ip := t8 in
       PyLib.bind (gen__BaseIpAnonymizer___ip_to_str py_call fuel v_self v_anon_bits) (fun t9 => let v_anon := t9 in
       PyLib.bind (py_format (VStr [123;125;9;123;125;10]%Z) (VList [v_ip;v_anon]) (VDict [])) (fun t10 =>
       PyLib.bind (py_list_append v_file_out t10) (fun t11 => let v_file_out := t11 in
       Normal (v_self, v_file_out, v_ips, v_bits, v_anon_bits, v_ip, v_anon)))))))
    (o, VList outs, ips, vb, va, vi, van)
  = Normal (o, VList (outs ++ map (fun kv => vstr (dump_line (N_of_bits (fst kv), N_of_bits (snd kv)))) d)%list, ips, vb', va', vi', van').
Proof.
  induction 1 as [|[k v] d [Hk Hv] Hd IH]; intros outs vb va vi van; cbn [map py_for fst snd] in *.
  - rewrite app_nil_r. now exists vb, va, vi, van.
  - cbn [unpack2 PyLib.bind]. rewrite (gen_ip_to_str fuel o k Hk), (gen_ip_to_str fuel o v Hv). cbn [PyLib.bind].
    rewrite format_line. cbn [PyLib.bind py_list_append].
    destruct (IH (outs ++ [vstr (pr (N_of_bits k) ++ [9%N] ++ pr (N_of_bits v) ++ [10%N])])%list (VS k) (VS v) (vstr (pr (N_of_bits k))) (vstr (pr (N_of_bits v))))
      as (vb' & va' & vi' & van' & E).
    rewrite E. exists vb', va', vi', van'. unfold dump_line at 2. cbn [fst snd]. now rewrite <- app_assoc.
Qed.

(* dump_to_file *)
Theorem gen_dump_to_file_refines : (0 < n)%nat -> forall fuel (d : Memo.bidict) (outs0 : list pyval),
  Forall (fun kv => List.length (fst kv) = List.length (snd kv)) d ->
  gen__BaseIpAnonymizer__dump_to_file py_call fuel (mk d) (VList outs0)
  = Normal (VTuple [VNone; mk d; VList (outs0 ++ map (fun kv => vstr (dump_line (N_of_bits (fst kv), N_of_bits (snd kv)))) (filter full d))]).
Proof.
  intros Hn fuel d outs0 Hlen. unfold gen__BaseIpAnonymizer__dump_to_file.
  rewrite get_cache. cbn [PyLib.bind py_items py_iter]. unfold encD at 1. rewrite map_map. cbn [fst snd].
  rewrite (select_loop _ (fun k v acc => select_body (mk d) k v acc (get_length d)) d []).
  cbn [PyLib.bind app py_iter].
  assert (Hne : Forall (fun kv : list bool * list bool => fst kv <> [] /\ snd kv <> []) (filter full d)).
  { apply Forall_forall. intros [k v] Hin. apply filter_In in Hin. destruct Hin as [Hin Hf]. unfold full in Hf. cbn [fst snd] in *.
    apply Nat.eqb_eq in Hf. rewrite Forall_forall in Hlen. specialize (Hlen _ Hin). cbn [fst snd] in Hlen.
    split; intros ->; cbn [List.length] in *; lia. }
  destruct (write_loop fuel (mk d) (VList (map (fun kv => VTuple [VS (fst kv); VS (snd kv)]) (filter full d))) (filter full d) Hne outs0 VNone VNone VNone VNone)
    as (vb' & va' & vi' & van' & E).
  match type of E with _ = ?rhs => match goal with |- context [py_for ?l ?f ?st] => assert (E' : py_for l f st = rhs) by exact E; rewrite E' end end.
  reflexivity.
Qed.
End D.

(* ... stated on the model: the generated dump_to_file of an anonymizer in a state the memo invariant describes (every state reachable from the
   constructor, C03) appends exactly the model's dump, one printed line per pair *)
Theorem gen_dump_to_file_is_the_model (clsname : list Z) (saltv fmtv salterv : pyval) (Bz : Z) (rest : list (pyval * pyval))
        (pr : N -> str) (py_call : pyval -> pyval -> PyLib.res) :
  (forall o y, py_call (VFun (of_string "make_addr_from_int")) (VList [o; VInt (Z.of_N y)]) = Normal (vstr (pr y))) ->
  forall (a : anonymizer) (seeds : list (list bool)), (0 < a_n a)%nat -> MemoProofs.Inv (a_H a) (a_n a) (a_B a) seeds (a_cache a) ->
  forall fuel (outs0 : list pyval),
  gen__BaseIpAnonymizer__dump_to_file py_call fuel (mkself clsname saltv (VInt (Z.of_nat (a_n a))) fmtv salterv Bz rest (a_cache a)) (VList outs0)
  = Normal (VTuple [VNone; mkself clsname saltv (VInt (Z.of_nat (a_n a))) fmtv salterv Bz rest (a_cache a);
                    VList (outs0 ++ map (fun p => vstr (pr (fst p) ++ [9%N] ++ pr (snd p) ++ [10%N])) (dump a))]).
Proof.
  intros Hpr a seeds Hn (_ & I1 & _) fuel outs0.
  rewrite (gen_dump_to_file_refines clsname saltv fmtv salterv Bz rest (a_n a) pr py_call Hpr Hn fuel (a_cache a) outs0).
  - unfold dump. rewrite map_map. reflexivity.
  - apply Forall_forall. intros [k v] Hin. cbn [fst snd]. rewrite (I1 k v Hin). symmetry. apply MemoProofs.A'_len.
Qed.
