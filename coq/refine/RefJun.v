(* The per-character functions GENERATED from utils/juniper_secrets.py (_gap_encode, _gap, _gap_decode) against the hand model
   (model/JunModel.v), decided by a finite sweep over everything they can be applied to in a round trip:
   7 table rows x 65 previous characters x 256 code points.  (The loops around them -- arbitrary length -- are compared by the
   correspondence run: generated code vs implementation vs hand model.) *)
From Coq Require Import String.
From Coq Require Import List ZArith NArith Bool.
Import ListNotations.
Require Import PyLib Str G_juniper JunModel G_fn_jun.
Local Open Scope N_scope.

Definition nocall (f a : pyval) : PyLib.res := Exc TypeError.
Definition vrow (row : list N) : pyval := VList (map (fun m => VInt (Z.of_N m)) row).
Definition vch (c : N) : pyval := VStr [Z.of_N c].
Definition vstr (s : list N) : pyval := VStr (map Z.of_N s).

(* generated _gap_encode = model gap_encode *)
Definition enc_agrees (row : list N) (p c : N) : bool :=
  match gen__gap_encode nocall 1%nat (vch c) (vch p) (vrow row), gap_encode c p row with
  | Normal (VStr o), Some out => if list_eq_dec Z.eq_dec o (map Z.of_N out) then true else false
  | _, _ => false
  end.
(* generated _gap chained over the nibble + generated _gap_decode give back the character *)
Fixpoint gen_gaps (prev : N) (nib : list N) : option (list pyval) :=
  match nib with
  | [] => Some []
  | x :: r => match gen__gap nocall 1%nat (vch prev) (vch x), gen_gaps x r with
              | Normal g, Some t => Some (g :: t) | _, _ => None end
  end.
Definition dec_agrees (row : list N) (p c : N) : bool :=
  match gap_encode c p row with
  | Some out => match gen_gaps p out with
                | Some gs => match gen__gap_decode nocall 1%nat (VList gs) (vrow row) with
                             | Normal (VStr [z]) => Z.eqb z (Z.of_N c) | _ => false end
                | None => false end
  | None => false
  end.
Definition bytes256 : list N := map N.of_nat (seq 0 256).
Theorem generated_per_character_functions_agree_with_the_model :
  forallb (fun row => forallb (fun p => forallb (fun c => enc_agrees row p c && dec_agrees row p c) bytes256) NUM_ALPHA) ENCODING = true.
Proof. vm_compute. reflexivity. Qed.

(* the generated _fixedc and the generated validity test on a few fixed points (examples, not the claim) *)
Example generated_examples :
  gen_juniper_nonrandom_encrypt nocall 9%nat (vstr (lit "mySecret")) (vstr (lit "Q")) = Normal (vstr (lit "$9$QnetF/thSeWXNApBESy8LdbsYJD")) /\
  gen_juniper_decrypt nocall 40%nat (vstr (lit "$9$QnetF/thSeWXNApBESy8LdbsYJD")) = Normal (vstr (lit "mySecret")) /\
  (exists m, gen_juniper_decrypt nocall 40%nat (vstr (lit "$9$Babc")) = Exc (ValueError m)).
Proof. split; [|split]; [vm_compute; reflexivity|vm_compute; reflexivity|eexists; vm_compute; reflexivity]. Qed.
Print Assumptions generated_per_character_functions_agree_with_the_model.
