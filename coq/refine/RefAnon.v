(* Refinement of the GENERATED _BaseIpAnonymizer._anonymize_bits and .anonymize (gen/G_fn_ip.v) to lib/Memo.v *)
From Coq Require Import List ZArith String Lia Bool.
Require Import PyLib G_fn_ip PPCore Memo RefIpCommon.
Import ListNotations.
Local Open Scope Z_scope.
Local Open Scope list_scope.

Section Sim.
Variable H : list bool -> bool.
Variable py_call : pyval -> pyval -> PyLib.res.
Variables (clsname:list Z) (saltv lengthv fmtv salterv:pyval) (rest:list (pyval*pyval)).
Variable n B : nat.
Notation mkself := (RefIpCommon.mkself clsname saltv lengthv fmtv salterv (Z.of_nat B) rest).
Hypothesis salter_spec : forall b, py_call salterv (VList [saltv; VS b]) = Normal (VInt (if H b then 1 else 0)).

Lemma salter_spec' b : py_call salterv (VList [saltv; VS b]) = Normal (VInt (b2z (H b))).
Proof. apply salter_spec. Qed.

(* the scripts below only say WHERE the model's case splits are and WHICH facts about the context may be used; the order of the
   statements in the generated body, and how it is divided into helper methods, is left to py_norm *)
Theorem gen_anonymize_bits_simulates : forall fuel d b d' r,
  Memo.g_anon H fuel d b = Memo.Ok (d', r) ->
  gen__BaseIpAnonymizer___anonymize_bits py_call fuel (mkself d) (VS b) = Normal (VTuple [VS r; mkself d']).
Proof.
  induction fuel as [|fuel IH]; intros d b d' r E; [discriminate|].
  cbn [Memo.g_anon] in E. cbn [gen__BaseIpAnonymizer___anonymize_bits]. py_norm.
  destruct (Memo.bget d b) as [r0|] eqn:G.
  - injection E as <- <-. py_norm. reflexivity.
  - destruct (rev b) as [|l rh] eqn:Er; [discriminate|].
    assert (Eb : b = rev rh ++ [l]) by (rewrite <- (rev_involutive b), Er; reflexivity).
    set (h := rev rh) in *. subst b.
    destruct (Memo.g_anon H fuel d h) as [[d1 r1]|] eqn:E1; [|discriminate].
    destruct (Memo.bput d1 (h ++ [l]) (r1 ++ [xorb (H h) l])) as [d2|] eqn:E2; [|discriminate].
    injection E as <- <-.
    py_norm_with ltac:(first [rewrite salter_spec' | rewrite (IH _ _ _ _ E1) | rewrite (put_enc _ _ _ _ E2)]).
    reflexivity.
Qed.

(* the two library conversions at the edges of anonymize/deanonymize are taken as given at the point of use
   (PyLib's py_format / py_int are library models validated by the correspondence run) *)
Theorem gen_anonymize_simulates : forall d x bits d' r y,
  List.length bits = n -> (B <= n)%nat ->
  py_format fmtv (VList [VInt x]) (VDict []) = Normal (VS bits) ->
  py_int (VS r) (VInt 2) = Normal (VInt y) ->
  Memo.anonymize H n B d bits = Memo.Ok (d', r) ->
  gen__BaseIpAnonymizer__anonymize py_call (S (List.length bits)) (mkself d) (VInt x) = Normal (VTuple [VInt y; mkself d']).
Proof.
  intros d x bits d' r y Ln HBn Hfmt Hint E. subst n.
  unfold Memo.anonymize in E.
  remember (S (List.length bits)) as fu eqn:Efu.
  unfold gen__BaseIpAnonymizer__anonymize.
  destruct (Nat.eqb B 0) eqn:EB.
  - apply Nat.eqb_eq in EB. assert (Z0 : (Z.of_nat B =? 0) = true) by (apply Z.eqb_eq; lia).
    py_norm_with ltac:(first [rewrite Hfmt | rewrite Z0 | rewrite (gen_anonymize_bits_simulates _ _ _ _ _ E) | rewrite Hint]).
    reflexivity.
  - apply Nat.eqb_neq in EB. assert (Z0 : (Z.of_nat B =? 0) = false) by (apply Z.eqb_neq; lia).
    destruct (Memo.g_anon H fu d (firstn (List.length bits - B) bits)) as [[d1 r1]|] eqn:E1; [|discriminate].
    destruct (Memo.bput d1 bits (r1 ++ skipn (List.length bits - B) bits)) as [d2|] eqn:E2; [|discriminate].
    injection E as <- <-.
    py_norm_with ltac:(first [rewrite Hfmt | rewrite Z0 | rewrite (gen_anonymize_bits_simulates _ _ _ _ _ E1)
                             | rewrite (put_enc _ _ _ _ E2) | rewrite Hint]).
    reflexivity.
Qed.

End Sim.
Print Assumptions gen_anonymize_bits_simulates.
Print Assumptions gen_anonymize_simulates.

(* end to end for the forward direction: on ANY memo state satisfying the invariant (in particular every state reachable from the
   constructor by any request history) the generated anonymize returns the pure image and re-establishes the invariant *)
Require Import MemoProofs.
Theorem gen_anonymize_returns_image :
  forall (H : list bool -> bool) (py_call : pyval -> pyval -> PyLib.res) (clsname : list Z) (saltv lengthv fmtv salterv : pyval) (rest : list (pyval * pyval))
         (n B : nat) (seeds : list (list bool)),
  (forall b, py_call salterv (VList [saltv; VS b]) = Normal (VInt (if H b then 1 else 0))) ->
  forall d x bits y, MemoProofs.Inv H n B seeds d -> List.length bits = n -> (B <= n)%nat ->
  py_format fmtv (VList [VInt x]) (VDict []) = Normal (VS bits) ->
  py_int (VS (MemoProofs.AB H n B seeds bits)) (VInt 2) = Normal (VInt y) ->
  exists d', gen__BaseIpAnonymizer__anonymize py_call (S (List.length bits)) (mkself clsname saltv lengthv fmtv salterv (Z.of_nat B) rest d) (VInt x)
             = Normal (VTuple [VInt y; mkself clsname saltv lengthv fmtv salterv (Z.of_nat B) rest d']) /\ MemoProofs.Inv H n B seeds d'.
Proof.
  intros H py_call clsname saltv lengthv fmtv salterv rest n B seeds Hs d x bits y I Ln HB Hf Hi.
  destruct (MemoProofs.anonymize_ok H n B seeds d bits Ln I) as (d' & E & I').
  exists d'. split; auto.
  exact (gen_anonymize_simulates H py_call clsname saltv lengthv fmtv salterv rest n B Hs d x bits d' _ y Ln HB Hf Hi E).
Qed.
Print Assumptions gen_anonymize_returns_image.
