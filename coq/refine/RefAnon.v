(* Refinement of the GENERATED _BaseIpAnonymizer._anonymize_bits and .anonymize (gen/G_fn_ip.v) to lib/Memo.v *)
From Coq Require Import List ZArith String Lia Bool.
Require Import PyLib G_fn_ip PPCore Memo RefIpCommon.
Import ListNotations.
Local Open Scope Z_scope.
Local Open Scope list_scope.

Section Sim.
Variable H : list bool -> bool.
Variable py_call : pyval -> pyval -> PyLib.res.
Variables (clsname:list Z) (saltv lengthv fmtv salterv:pyval) (rest:list (pyval*pyval)).
Variable n B : nat.
Notation mkself := (RefIpCommon.mkself clsname saltv lengthv fmtv salterv (Z.of_nat B) rest).
Hypothesis salter_spec : forall b, py_call salterv (VList [saltv; VS b]) = Normal (VInt (if H b then 1 else 0)).

Theorem gen_anonymize_bits_simulates : forall fuel d b d' r,
  Memo.g_anon H fuel d b = Memo.Ok (d', r) ->
  gen__BaseIpAnonymizer___anonymize_bits py_call fuel (mkself d) (VS b) = Normal (VTuple [VS r; mkself d']).
Proof.
  induction fuel as [|fuel IH]; intros d b d' r E; [discriminate|].
  cbn [Memo.g_anon] in E. cbn [gen__BaseIpAnonymizer___anonymize_bits].
  rewrite get_cache. cbn [bind py_get]. rewrite dict_get_enc.
  destruct (Memo.bget d b) as [r0|] eqn:G; cbn [option_map].
  - injection E as <- <-. reflexivity.
  - cbn [is_none negb truthy bindS bind py_neg].
    destruct (rev b) as [|l rh] eqn:Er; [discriminate|].
    assert (Eb : b = rev rh ++ [l]) by (rewrite <- (rev_involutive b), Er; reflexivity).
    set (h := rev rh) in *. subst b.
    destruct (Memo.g_anon H fuel d h) as [[d1 r1]|] eqn:E1; [|discriminate].
    destruct (Memo.bput d1 (h ++ [l]) (r1 ++ [xorb (H h) l])) as [d2|] eqn:E2; [|discriminate].
    injection E as <- <-.
    rewrite slice_VS. cbn [bind]. rewrite getitem_m1. cbn [bind]. rewrite int_encb. cbn [bind unpack2].
    rewrite get_salter. cbn [bind]. rewrite get_salt. cbn [bind]. rewrite salter_spec. fold (b2z (H h)). cbn [bind].
    rewrite (IH _ _ _ _ E1). cbn [bind unpack2].
    rewrite xor_b2z. cbn [bind]. rewrite str_b2z. cbn [bind]. rewrite add_VS. cbn [bind].
    rewrite get_cache. cbn [bind py_setitem]. rewrite (put_enc _ _ _ _ E2). cbn [bind].
    rewrite set_cache. cbn [bind]. reflexivity.
Qed.

(* the two library conversions at the edges of anonymize/deanonymize are taken as given at the point of use
   (PyLib's py_format / py_int are library models validated by the correspondence run) *)
Theorem gen_anonymize_simulates : forall d x bits d' r y,
  List.length bits = n -> (B <= n)%nat ->
  py_format fmtv (VList [VInt x]) (VDict []) = Normal (VS bits) ->
  py_int (VS r) (VInt 2) = Normal (VInt y) ->
  Memo.anonymize H n B d bits = Memo.Ok (d', r) ->
  gen__BaseIpAnonymizer__anonymize py_call (S (List.length bits)) (mkself d) (VInt x) = Normal (VTuple [VInt y; mkself d']).
Proof.
  intros d x bits d' r y Ln HBn Hfmt Hint E.
  unfold gen__BaseIpAnonymizer__anonymize. rewrite get_fmt. cbn [bind]. rewrite Hfmt. cbn [bind].
  rewrite get_B. cbn [bind py_eq veq]. unfold Memo.anonymize in E.
  remember (S (List.length bits)) as fu eqn:Efu.
  destruct (Nat.eqb B 0) eqn:EB.
  - apply Nat.eqb_eq in EB. replace (Z.of_nat B =? 0) with true by (symmetry; apply Z.eqb_eq; lia). cbn [truthy bindS bind].
    rewrite (gen_anonymize_bits_simulates _ _ _ _ _ E). cbn [bind unpack2 bindS]. rewrite Hint. cbn [bind call]. reflexivity.
  - apply Nat.eqb_neq in EB. replace (Z.of_nat B =? 0) with false by (symmetry; apply Z.eqb_neq; lia). cbn [truthy bindS bind].
    destruct (Memo.g_anon H fu d (firstn (n - B) bits)) as [[d1 r1]|] eqn:E1; [|discriminate].
    destruct (Memo.bput d1 bits (r1 ++ skipn (n - B) bits)) as [d2|] eqn:E2; [|discriminate].
    injection E as <- <-.
    repeat rewrite get_B. cbn [bind py_neg].
    rewrite (pyslice_prefix bits B) by lia. cbn [bind]. rewrite (pyslice_suffix bits B) by lia. rewrite Ln. cbn [bind unpack2].
    rewrite (gen_anonymize_bits_simulates _ _ _ _ _ E1). cbn [bind unpack2]. rewrite add_VS_VS. cbn [bind].
    rewrite get_cache. cbn [bind py_setitem]. rewrite (put_enc _ _ _ _ E2). cbn [bind].
    rewrite set_cache. cbn [bind bindS]. rewrite Hint. cbn [bind call]. reflexivity.
Qed.

End Sim.
Print Assumptions gen_anonymize_bits_simulates.
Print Assumptions gen_anonymize_simulates.

(* end to end for the forward direction: on ANY memo state satisfying the invariant (in particular every state reachable from the
   constructor by any request history) the generated anonymize returns the pure image and re-establishes the invariant *)
Require Import MemoProofs.
Theorem gen_anonymize_returns_image :
  forall (H : list bool -> bool) (py_call : pyval -> pyval -> PyLib.res) (clsname : list Z) (saltv lengthv fmtv salterv : pyval) (rest : list (pyval * pyval))
         (n B : nat) (seeds : list (list bool)),
  (forall b, py_call salterv (VList [saltv; VS b]) = Normal (VInt (if H b then 1 else 0))) ->
  forall d x bits y, MemoProofs.Inv H n B seeds d -> List.length bits = n -> (B <= n)%nat ->
  py_format fmtv (VList [VInt x]) (VDict []) = Normal (VS bits) ->
  py_int (VS (MemoProofs.AB H n B seeds bits)) (VInt 2) = Normal (VInt y) ->
  exists d', gen__BaseIpAnonymizer__anonymize py_call (S (List.length bits)) (mkself clsname saltv lengthv fmtv salterv (Z.of_nat B) rest d) (VInt x)
             = Normal (VTuple [VInt y; mkself clsname saltv lengthv fmtv salterv (Z.of_nat B) rest d']) /\ MemoProofs.Inv H n B seeds d'.
Proof.
  intros H py_call clsname saltv lengthv fmtv salterv rest n B seeds Hs d x bits y I Ln HB Hf Hi.
  destruct (MemoProofs.anonymize_ok H n B seeds d bits Ln I) as (d' & E & I').
  exists d'. split; auto.
  exact (gen_anonymize_simulates H py_call clsname saltv lengthv fmtv salterv rest n B Hs d x bits d' _ y Ln HB Hf Hi E).
Qed.
Print Assumptions gen_anonymize_returns_image.
