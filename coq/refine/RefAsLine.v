(* anonymize_as_numbers, AsNumberAnonymizer.anonymize and get_as_number_pattern as GENERATED from the source (gen/G_fn_sir2.v) against the model's
   anonymize_as_line: pattern.sub with a callback, through refine/RefSub.v *)
From Coq Require Import String.
From Coq Require Import List ZArith NArith Bool Arith Lia.
Import ListNotations.
Require Import PyLib PyLib2 Str Rx RxFacts RxSub TextModel G_fn_sir2 RefJun RefStr RefBase RefSub.
Notation vstr := RefJun.vstr.

Definition enc_as (cls : list Z) (saltv rh : pyval) (a : as_anonymizer) : pyval :=
  VObj cls [(S_ "salt", saltv); (S_ "as_num_regex", rh); (S_ "as_num_map", vlook (as_map a))].
Definition as_cb (a : as_anonymizer) (line : str) (st : bool) (i j : nat) (_ : caps) : bool * list chr :=
  match lget (as_map a) (substr line i j) with Some v => (st, v) | None => (false, []) end.
Lemma as_cb_all_found a line : forall ms st reps, run_cb (as_cb a line) st ms = (true, reps) ->
  st = true /\ Forall2 (fun m rep => lget (as_map a) (substr line (fst (fst m)) (snd (fst m))) = Some rep) ms reps.
Proof.
  induction ms as [|[[i j] c] ms IH]; intros st reps; cbn [run_cb].
  - intros [= -> <-]. split; [reflexivity|constructor].
  - unfold as_cb at 1. destruct (lget (as_map a) (substr line i j)) as [v|] eqn:El.
    + destruct (run_cb (as_cb a line) st ms) as [st2 reps'] eqn:Er. intros [= -> <-]. destruct (IH st reps' Er) as [-> HF]. split; [reflexivity|]. constructor; [exact El|exact HF].
    + destruct (run_cb (as_cb a line) false ms) as [st2 reps'] eqn:Er. intros [= -> <-]. destruct (IH false reps' Er) as [Hf _]. discriminate.
Qed.

Theorem gen_anonymize_as_numbers_refines_for pc cls saltv rh fuel (a : as_anonymizer) line l :
  sub_contract pc rh (as_regex a) -> anonymize_as_line a line = Done l ->
  gen_anonymize_as_numbers pc fuel (enc_as cls saltv rh a) (vstr line) = Normal (vstr l).
Proof.
  intros Hc. unfold anonymize_as_line, sub_fn. destruct (nullable (as_regex a)); [discriminate|].
  fold (as_cb a line). rewrite sub_loop_fold.
  set (ms := matches line (S (slen line)) (as_regex a) 0). destruct (run_cb (as_cb a line) true ms) as [st reps] eqn:Er.
  destruct st; [|discriminate]. intros [= <-].
  destruct (as_cb_all_found a line ms true reps Er) as [_ HF].
  unfold gen_anonymize_as_numbers, gen_AsNumberAnonymizer__get_as_number_pattern.
  assert (G1 : py_getattr (enc_as cls saltv rh a) "as_num_regex" = Normal rh) by reflexivity. rewrite G1.
  cbn [PyLib.bind call unpack2]. rewrite (proj1 Hc line). fold (slen line). fold ms. cbn [PyLib.bind py_iter].
  match goal with |- context [py_for _ ?b _] => set (B := b) end.
  assert (Hloop : forall ms0 reps0 acc j, Forall2 (fun m rep => lget (as_map a) (substr line (fst (fst m)) (snd (fst m))) = Some rep) ms0 reps0 ->
            exists j', py_for (map (enc_match line rh) ms0) B (enc_as cls saltv rh a, vstr line, rh, j, VList acc)
                       = Normal (enc_as cls saltv rh a, vstr line, rh, j', VList (acc ++ map vstr reps0))).
  { intros ms0 reps0 acc j HF0. revert acc j. induction HF0 as [|[[i j0] c] rep ms0 reps0 Hm _ IH]; intros acc j; cbn [map py_for].
    - rewrite app_nil_r. eauto.
    - cbn [fst snd] in Hm. unfold B at 1. cbv beta iota. cbn [enc_match].
      replace (py_getitem (VTuple [VInt (Z.of_nat i); VInt (Z.of_nat j0); VTuple [rh; vstr line; VInt (Z.of_nat i); VInt (Z.of_nat j0)]]) (VInt 2))
        with (@Normal pyval (VTuple [rh; vstr line; VInt (Z.of_nat i); VInt (Z.of_nat j0)])) by reflexivity.
      cbn [PyLib.bind]. rewrite (proj2 Hc). cbn [PyLib.bind]. unfold gen_AsNumberAnonymizer__anonymize.
      assert (G2 : py_getattr (enc_as cls saltv rh a) "as_num_map" = Normal (vlook (as_map a))) by reflexivity. rewrite G2. cbn [PyLib.bind].
      rewrite (py_getitem_vlook _ _ _ Hm). cbn [PyLib.bind call unpack2 py_list_append].
      destruct (IH (acc ++ [vstr rep]) (VTuple [rh; vstr line; VInt (Z.of_nat i); VInt (Z.of_nat j0)])) as (j' & Ej). rewrite Ej. exists j'. now rewrite <- app_assoc. }
  change (matches line (S (Datatypes.length line)) (as_regex a) 0) with ms. destruct (Hloop ms reps [] VNone HF) as (j' & El). rewrite El. cbn [PyLib.bind app].
  rewrite py_stitch_refines.
  - reflexivity.
  - pose proof (run_cb_length (as_cb a line) ms true) as Hlen. rewrite Er in Hlen. exact Hlen.
Qed.

Theorem gen_anonymize_as_numbers_refines rx_of cls saltv rh fuel (a : as_anonymizer) line l :
  rx_of rh = Some (as_regex a) -> anonymize_as_line a line = Done l ->
  gen_anonymize_as_numbers (sub_call rx_of) fuel (enc_as cls saltv rh a) (vstr line) = Normal (vstr l).
Proof. intro Hrx. apply gen_anonymize_as_numbers_refines_for. now apply sub_call_contract. Qed.

