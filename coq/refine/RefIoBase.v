(* Encodings shared by the refinements of the IP stage and of anonymize_io: an IP anonymizer object is represented by its cache (eip), the word / AS
   anonymizers by tokens where they are uninterpreted; the cache decodes back to the model's; anonymize_ip_line only changes the cache.  Nothing here
   mentions a function translated from the source. *)
From Coq Require Import String.
From Coq Require Import List ZArith NArith Bool Arith Lia.
Import ListNotations.
Require Import PyLib PyLib2 Str IpText Rx RxFacts RxSub G_rx Memo IpModel TextModel RefJun RefIpCommon.
Notation vstr := RefJun.vstr.

(* ---- the cache of an IP anonymizer as a Python value, and back ---- *)
Definition dbits (v : pyval) : list bool := match v with VStr s => map (Z.eqb 49) s | _ => [] end.
Definition decD (l : list (pyval * pyval)) : Memo.bidict := map (fun kv => (dbits (fst kv), dbits (snd kv))) l.
Lemma dbits_VS b : dbits (VS b) = b.
Proof. unfold VS, enc, dbits. rewrite map_map. induction b as [|x b IH]; cbn [map]; [reflexivity|]. rewrite IH. destruct x; reflexivity. Qed.
Lemma decD_encD d : decD (encD d) = d.
Proof. unfold decD, encD. induction d as [|[k v] d IH]; cbn [map fst snd]; [reflexivity|]. now rewrite !dbits_VS, IH. Qed.

(* ---- anonymize_ip_addr only changes the cache of the anonymizer it is given ---- *)
Definition same_static (t a : anonymizer) : Prop := a = with_cache t (a_cache a).
Lemma same_static_refl_cache t d : same_static t (with_cache t d). Proof. reflexivity. Qed.
Lemma sub_loop_state {St} (s : str) (P : St -> Prop) r (cb : St -> nat -> nat -> caps -> St * list chr) :
  (forall st a b c, P st -> P (fst (cb st a b c))) -> forall fuel st i, P st -> P (fst (sub_loop s fuel r cb st i)).
Proof.
  intros Hcb. induction fuel as [|fuel IH]; intros st i Hst; cbn [sub_loop]; [exact Hst|].
  destruct (search_from s (slen s - i) r i) as [[[a b] c]|]; [|exact Hst].
  specialize (Hcb st a b c Hst). destruct (cb st a b c) as [st1 rep]. cbn [fst] in Hcb.
  specialize (IH st1 b Hcb). destruct (sub_loop s fuel r cb st1 b) as [st2 rest]. exact IH.
Qed.
Lemma ip_line_static t v6 undo a l a' l' : same_static t a -> anonymize_ip_line v6 undo a l = Done (a', l') -> same_static t a'.
Proof.
  intros Ha. unfold anonymize_ip_line, sub_fn. destruct (nullable (if v6 then IPV6_RX else IPV4_RX)); [discriminate|].
  assert (Hcb : forall (st : outcome anonymizer) i j (c : caps), (forall x, st = Done x -> same_static t x) ->
                 forall x, fst (ip_match v6 undo st (substr l i j)) = Done x -> same_static t x).
  { intros st i j c Hst. unfold ip_match. destruct st as [x|w]; [|intros y [=]].
    destruct (if v6 then parse6 (substr l i j) else make_addr4 (substr l i j)) as [n|]; [|exact Hst].
    destruct (negb (if v6 then true else should_anonymize4 x n)); [exact Hst|].
    unfold anonymize_int, deanonymize_int.
    destruct undo; (destruct (negb (in_range x n)); [intros y [=]|]).
    - destruct (Memo.deanonymize _ _ _ _ _) as [[d y]|]; cbn [fst]; [|intros z [=]]. intros z [= <-]. rewrite (Hst x eq_refl). reflexivity.
    - destruct (Memo.anonymize _ _ _ _ _) as [[d y]|]; cbn [fst]; [|intros z [=]]. intros z [= <-]. rewrite (Hst x eq_refl). reflexivity. }
  pose proof (sub_loop_state l (fun st : outcome anonymizer => forall x, st = Done x -> same_static t x) (if v6 then IPV6_RX else IPV4_RX)
                (fun st i j _ => ip_match v6 undo st (substr l i j)) (fun st a0 b c => Hcb st a0 b c) (S (slen l)) (Done a) 0%nat ltac:(intros x [= <-]; exact Ha)) as Hinv.
  cbv beta in Hinv.
  destruct (sub_loop l (S (slen l)) (if v6 then IPV6_RX else IPV4_RX) (fun st i j _ => ip_match v6 undo st (substr l i j)) (Done a) 0) as [[x|w] out]; [|discriminate].
  intros [= <- <-]. exact (Hinv x eq_refl).
Qed.

(* ---- the dispatcher for anonymize_io: the three stages that are not translated (regex callbacks) answered by the MODEL's stage functions;
        everything else as sir_call.  Static parts of the run are parameters: the templates of the two IP anonymizers (everything but the
        cache), the word anonymizer and the AS-number anonymizer (immutable in the model). ---- *)
Definition eip (v6 : bool) (a : anonymizer) : pyval := VTuple [VBool v6; VBidict (encD (a_cache a))].
Definition TOKW : pyval := VStr [87%Z].
Definition TOKA : pyval := VStr [65%Z].
