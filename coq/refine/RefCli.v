(* Refinement of the GENERATED netconan.main (gen/G_fn_cli.v) to the model main_model (model/CliModel.v) on the record of parsed arguments.
   The argument parser and anonymize_files are uninterpreted calls (the py_call parameter): the parser returns the namespace object; anonymize_files
   is instantiated so that the FIRST call of it ends the run returning its argument tuple -- the observable the model calls MCall. *)
From Coq Require Import String.
From Coq Require Import List ZArith NArith Bool Lia.
Require Import PyLib G_fn_cli Str G_cli_consts CliModel.
Import ListNotations.
Local Open Scope Z_scope.

Definition zs (s : str) : list Z := map Z.of_N s.
Definition vstr (s : str) : pyval := VStr (zs s).
Definition vopt (o : option str) : pyval := match o with Some s => vstr s | None => VNone end.
Definition vlist (l : list str) : pyval := VList (map vstr l).
Definition voptlist (o : option (list str)) : pyval := match o with Some l => vlist l | None => VNone end.

(* the namespace object _parse_args returns *)
Definition vargs (a : args) (log_level : pyval) : pyval :=
  VObj (of_string "Namespace")
    [(S_ "input", vstr (a_input a)); (S_ "output", vstr (a_output a)); (S_ "log_level", log_level);
     (S_ "undo", VBool (a_undo a)); (S_ "anonymize_ips", VBool (a_ips a)); (S_ "anonymize_passwords", VBool (a_pwd a));
     (S_ "preserve_private_addresses", VBool (a_private a));
     (S_ "salt", vopt (a_salt a)); (S_ "dump_ip_map", vopt (a_dump a)); (S_ "as_numbers", vopt (a_asnums a));
     (S_ "reserved_words", vopt (a_reserved a)); (S_ "sensitive_words", vopt (a_words a));
     (S_ "preserve_prefixes", vopt (a_prefixes a)); (S_ "preserve_addresses", vopt (a_addresses a));
     (S_ "preserve_host_bits", VInt (Z.of_nat (a_hostbits a)))].

(* what anonymize_files is called with, as the tuple (positional list, keyword dict) the generated code builds *)
Definition vcall (c : call) : pyval :=
  VTuple [VList [vstr (c_input c); vstr (c_output c); VBool (c_pwd c); VBool (c_ip c); vopt (c_salt c); vopt (c_dump c); voptlist (c_words c);
                 VBool (c_undo c); voptlist (c_asnums c); voptlist (c_reserved c); voptlist (c_prefixes c); voptlist (c_networks c)];
          VDict [(S_ "preserve_suffix_v4", VInt (Z.of_nat (c_b4 c))); (S_ "preserve_suffix_v6", VInt (Z.of_nat (c_b6 c)))]].

Definition oracle (a : args) (lv : pyval) (f x : pyval) : PyLib.res :=
  match f with
  | VFun n => if list_eq_dec Z.eq_dec n (of_string "_parse_args") then Normal (vargs a lv)
              else if list_eq_dec Z.eq_dec n (of_string "anonymize_files") then Ret x
              else Exc Unsupported
  | _ => Exc TypeError
  end.


Lemma split_aux_corr : forall (s cur : str), PyLib.split_on 44 (zs cur) (zs s) = map zs (Str.split_on_aux 44%N s cur).
Proof.
  induction s as [|c s IH]; intros cur; cbn [zs map PyLib.split_on Str.split_on_aux].
  - unfold zs. now rewrite map_rev.
  - destruct (N.eqb_spec c 44%N) as [->|Hn].
    + cbn [Z.eqb Z.of_N Pos.eqb]. change (44 =? 44) with true. cbn [map]. unfold zs at 1. rewrite <- map_rev. f_equal. exact (IH []).
    + replace (Z.of_N c =? 44) with false by (symmetry; apply Z.eqb_neq; intro C; apply Hn; apply N2Z.inj; exact C). exact (IH (c :: cur)).
Qed.
Lemma py_split_vstr s : py_split1 (vstr s) 44 = Normal (vlist (Str.split_on 44%N s)).
Proof. unfold py_split1, vstr, vlist, Str.split_on. rewrite (split_aux_corr s [] : PyLib.split_on 44 [] (zs s) = _). now rewrite map_map. Qed.

Section Getters.
Variables (a : args) (lv : pyval).
Notation ns := (vargs a lv).
Lemma g_input : py_getattr ns "input" = Normal (vstr (a_input a)). Proof. reflexivity. Qed.
Lemma g_output : py_getattr ns "output" = Normal (vstr (a_output a)). Proof. reflexivity. Qed.
Lemma g_log : py_getattr ns "log_level" = Normal lv. Proof. reflexivity. Qed.
Lemma g_undo : py_getattr ns "undo" = Normal (VBool (a_undo a)). Proof. reflexivity. Qed.
Lemma g_ips : py_getattr ns "anonymize_ips" = Normal (VBool (a_ips a)). Proof. reflexivity. Qed.
Lemma g_pwd : py_getattr ns "anonymize_passwords" = Normal (VBool (a_pwd a)). Proof. reflexivity. Qed.
Lemma g_priv : py_getattr ns "preserve_private_addresses" = Normal (VBool (a_private a)). Proof. reflexivity. Qed.
Lemma g_salt : py_getattr ns "salt" = Normal (vopt (a_salt a)). Proof. reflexivity. Qed.
Lemma g_dump : py_getattr ns "dump_ip_map" = Normal (vopt (a_dump a)). Proof. reflexivity. Qed.
Lemma g_asn : py_getattr ns "as_numbers" = Normal (vopt (a_asnums a)). Proof. reflexivity. Qed.
Lemma g_res : py_getattr ns "reserved_words" = Normal (vopt (a_reserved a)). Proof. reflexivity. Qed.
Lemma g_words : py_getattr ns "sensitive_words" = Normal (vopt (a_words a)). Proof. reflexivity. Qed.
Lemma g_pfx : py_getattr ns "preserve_prefixes" = Normal (vopt (a_prefixes a)). Proof. reflexivity. Qed.
Lemma g_addr : py_getattr ns "preserve_addresses" = Normal (vopt (a_addresses a)). Proof. reflexivity. Qed.
Lemma g_hb : py_getattr ns "preserve_host_bits" = Normal (VInt (Z.of_nat (a_hostbits a))). Proof. reflexivity. Qed.
End Getters.

Lemma rfc1918_are : VList [VStr [49;48;46;48;46;48;46;48;47;56]; VStr [49;55;50;46;49;54;46;48;46;48;47;49;50]; VStr [49;57;50;46;49;54;56;46;48;46;48;47;49;54]] = vlist RFC_1918_TXT.
Proof. reflexivity. Qed.

Definition observed (r : main_result) (got : PyLib.res) : Prop :=
  match r with
  | MRaise _ => exists m, got = Exc (ValueError m)
  | MNoCall => got = Normal VNone
  | MCall c => got = Normal (vcall c)
  end.

Lemma truthy_vlist_split s : truthy (vlist (Str.split_on 44%N s)) = true.
Proof. unfold Str.split_on. destruct s as [|c s]; [reflexivity|]. cbn [Str.split_on_aux]. destruct (N.eqb c 44); [reflexivity|].
  assert (H : forall s cur, Str.split_on_aux 44%N s cur <> []) by (induction s0 as [|x s0 IH]; intros cur; cbn; [discriminate|destruct (N.eqb x 44); [discriminate|apply IH]]).
  specialize (H s [c]). destruct (Str.split_on_aux 44%N s [c]); [contradiction|reflexivity]. Qed.

Lemma truthy_vlist_split' s : negb (Nat.eqb (List.length (map vstr (Str.split_on 44%N s))) 0) = true. Proof. exact (truthy_vlist_split s). Qed.
Lemma split_nonempty s : Str.split_on 44%N s <> []. Proof. pose proof (truthy_vlist_split s) as H. intro E. rewrite E in H. discriminate. Qed.
Lemma truthy_list_split s : truthy_list (Some (Str.split_on 44%N s)) = true. Proof. pose proof (split_nonempty s). cbn. destruct (Str.split_on 44%N s); [contradiction|reflexivity]. Qed.
Lemma truthy_list_none : truthy_list None = false. Proof. reflexivity. Qed.
Lemma is_none_vstr s : is_none (vstr s) = false. Proof. reflexivity. Qed.
Lemma is_none_vlist l : is_none (vlist l) = false. Proof. reflexivity. Qed.
Lemma py_add_vlist l r : py_add (vlist l) (vlist r) = Normal (vlist (l ++ r)). Proof. unfold vlist. cbn [py_add]. now rewrite map_app. Qed.
Lemma is_none_voptlist o : is_none (voptlist o) = match o with None => true | Some _ => false end. Proof. destruct o; reflexivity. Qed.
Lemma truthy_vbool b : truthy (VBool b) = b. Proof. reflexivity. Qed.
Lemma truthy_vstr_cons c s : truthy (vstr (c :: s)) = true. Proof. reflexivity. Qed.
Lemma truthy_vstr_nil : truthy (vstr []) = false. Proof. reflexivity. Qed.
Lemma opt_block {S} (o : option str) (mk : pyval -> S) (K : S -> ctl S) :
  bindS (if negb (is_none (vopt o)) then (bind (py_split1 (vopt o) 44) (fun t => Normal (mk t))) else Normal (mk VNone)) K
  = K (mk (voptlist (split_commas o))).
Proof. destruct o as [s|]; cbn [vopt is_none negb truthy bind bindS split_commas option_map voptlist]; [rewrite py_split_vstr|]; reflexivity. Qed.
Lemma opt_block_expr {S} (o : option str) (K : pyval -> ctl S) :
  bind (if negb (is_none (vopt o)) then (bind (py_split1 (vopt o) 44) (fun t => Normal t)) else Normal VNone) K = K (voptlist (split_commas o)).
Proof. destruct o as [s|]; cbn [vopt is_none negb truthy bind bindS split_commas option_map voptlist]; [rewrite py_split_vstr|]; reflexivity. Qed.
Lemma truthy_voptlist_split o : truthy (voptlist (split_commas o)) = truthy_list (split_commas o).
Proof. destruct o as [s|]; cbn [split_commas option_map voptlist truthy_list truthy]; [|reflexivity]. rewrite truthy_vlist_split.
  unfold Str.split_on. destruct s as [|c s]; [reflexivity|]. cbn [Str.split_on_aux]. destruct (N.eqb c 44); [reflexivity|].
  assert (H : forall s cur, Str.split_on_aux 44%N s cur <> []) by (induction s0 as [|x s0 IH]; intros cur; cbn; [discriminate|destruct (N.eqb x 44); [discriminate|apply IH]]).
  specialize (H s [c]). destruct (Str.split_on_aux 44%N s [c]); [contradiction|reflexivity]. Qed.

Ltac cli_norm a lv :=
  repeat first
    [ progress cbn [bind bindS truthy py_not is_none negb PyLib.call vopt voptlist andb orb py_any py_iter existsb py_list py_add observed app map
                    split_commas option_map is_nil List.length Nat.eqb]
    | rewrite (g_input a lv) | rewrite (g_output a lv) | rewrite (g_log a lv) | rewrite (g_undo a lv) | rewrite (g_ips a lv) | rewrite (g_pwd a lv)
    | rewrite (g_priv a lv) | rewrite (g_salt a lv) | rewrite (g_dump a lv) | rewrite (g_asn a lv) | rewrite (g_res a lv) | rewrite (g_words a lv)
    | rewrite (g_pfx a lv) | rewrite (g_addr a lv) | rewrite (g_hb a lv) | rewrite py_split_vstr | rewrite truthy_list_split | rewrite truthy_list_none | rewrite rfc1918_are | rewrite truthy_vlist_split | rewrite truthy_vlist_split' | rewrite truthy_vstr_cons | rewrite truthy_vstr_nil | rewrite is_none_vstr | rewrite is_none_vlist | rewrite py_add_vlist | rewrite is_none_voptlist | rewrite truthy_voptlist_split | rewrite truthy_vbool
    | match goal with H : _ a = _ |- _ => rewrite H end ].

Theorem gen_main_refines : forall (a : args) (lv argv : pyval) (fuel : nat),
  observed (main_model a) (gen_main (oracle a lv) fuel argv).
Proof.
  intros a lv argv fuel. unfold gen_main, main_model.
  change (oracle a lv (VFun (of_string "_parse_args")) (VTuple [VList [argv]; VDict []])) with (Normal (vargs a lv)).
  cli_norm a lv.
  destruct (a_input a) as [|i0 ir] eqn:Ei; cli_norm a lv; [eexists; reflexivity|].
  destruct (a_output a) as [|o0 or] eqn:Eo; cli_norm a lv; [eexists; reflexivity|].
  destruct (a_undo a) eqn:Eu; destruct (a_ips a) eqn:Ep; destruct (a_salt a) as [salt|] eqn:Es; destruct (a_dump a) as [dump|] eqn:Ed;
    cli_norm a lv; try (eexists; reflexivity).
  (* the five optional comma-separated lists: each block collapses without a case split *)
  all: repeat (match goal with
               | |- context [bindS (if negb (is_none (vopt ?o)) then bind (py_split1 (vopt ?o) 44) (fun t => Normal (@?mk t)) else Normal _) ?K] => rewrite (opt_block o mk K)
               | |- context [bind (if negb (is_none (vopt ?o)) then bind (py_split1 (vopt ?o) 44) (fun t => Normal t) else Normal VNone) ?K] => rewrite (opt_block_expr o K)
               end; cli_norm a lv).
  all: destruct (a_private a) eqn:Ev; [destruct (a_addresses a) as [adr|] eqn:Ey|]; cli_norm a lv.
  (* whether anything is enabled: by the three remaining atoms (in whatever form the source combines them) *)
  all: destruct (a_asnums a) as [asn|] eqn:Ea; destruct (a_words a) as [wds|] eqn:Ew; destruct (a_pwd a) eqn:Epw.
  all: repeat first
         [ progress cbn [negb orb andb bind bindS truthy PyLib.call observed is_none split_commas option_map voptlist vopt]
         | rewrite truthy_list_split | rewrite truthy_list_none | rewrite truthy_vlist_split | rewrite truthy_vlist_split' | rewrite truthy_vbool
         | progress change (oracle a lv (VFun (of_string "anonymize_files")) ?x) with (Ret x) ].
  all: cbn [vcall c_input c_output c_pwd c_ip c_salt c_dump c_words c_undo c_asnums c_reserved c_prefixes c_networks c_b4 c_b6 vopt voptlist split_commas option_map].
  all: reflexivity.
Qed.
Print Assumptions gen_main_refines.

(* what C19 states, about the generated main: invalid option combinations are refused before anonymize_files is reached, nothing enabled means no call *)
Corollary gen_main_rejects_invalid_combinations : forall (a : args) (lv argv : pyval) (fuel : nat),
  (a_undo a = true /\ a_ips a = true) \/ (a_undo a = true /\ a_salt a = None) \/ (a_dump a <> None /\ a_ips a = false) \/ a_input a = [] \/ a_output a = [] ->
  exists m, gen_main (oracle a lv) fuel argv = Exc (ValueError m).
Proof.
  intros a lv argv fuel H. pose proof (gen_main_refines a lv argv fuel) as G.
  destruct (invalid_combinations_rejected_before_any_call a H) as (e & E). rewrite E in G. exact G.
Qed.

