(* Whole-function refinement of the GENERATED juniper_decrypt (gen/G_fn_jun.v) to JunModel.decrypt, for EVERY string:
   - the generated VALID pattern against the model's hand-written reading `valid` (through the regex engine's semantics),
   - the generated _nibble, _gap (65 x 65 sweep) and _gap_decode (any gap list against any row),
   - the inner for-loop over the nibble and the outer fuelled while-loop against dec_gaps / dec_loop,
   - the prefix handling (MAGIC, first character, EXTRA).
   The generated function raises ValueError exactly when the model refuses, and returns the model's plaintext otherwise,
   whatever dispatcher it is given and for any fuel larger than the length of the input. *)
From Coq Require Import String.
From Coq Require Import List ZArith NArith Bool Arith Lia.
Import ListNotations.
Require Import PyLib PyRe Str Rx RxFacts RxSub RxComplete G_juniper JunModel JunProofs G_fn_jun RefJun RefJunEnc.
Require Export RefStr.

Lemma cs0_only x : in_cset x cs0 = true -> x = 36%N.
Proof. unfold in_cset, cs0. cbn [existsb fst snd xorb orb]. intro H. destruct (N.leb_spec 36 x), (N.leb_spec x 36); cbn in H; try discriminate; lia. Qed.
Lemma cs1_only x : in_cset x cs1 = true -> x = 57%N.
Proof. unfold in_cset, cs1. cbn [existsb fst snd xorb orb]. intro H. destruct (N.leb_spec 57 x), (N.leb_spec x 57); cbn in H; try discriminate; lia. Qed.

Lemma cs2_is_alphabet x : in_cset x cs2 = inA x.
Proof.
  destruct (N.ltb_spec x 123) as [L|L].
  - assert (H : forallb (fun y => Bool.eqb (in_cset y cs2) (inA y)) (map N.of_nat (seq 0 123)) = true) by (vm_compute; reflexivity).
    rewrite forallb_forall in H. apply eqb_prop. apply H. apply in_map_iff. exists (N.to_nat x). split; [lia|]. apply in_seq. lia.
  - assert (A : in_cset x cs2 = false).
    { unfold in_cset, cs2. cbn [existsb fst snd xorb]. repeat match goal with |- context [N.leb ?a ?b] => destruct (N.leb_spec a b) end; try reflexivity; lia. }
    rewrite A. symmetry. unfold inA. apply not_true_is_false. intro H. apply existsb_exists in H as (y & Hy & E). apply N.eqb_eq in E. subst y.
    assert (F : forallb (fun y => N.ltb y 123) NUM_ALPHA = true) by (vm_compute; reflexivity).
    rewrite forallb_forall in F. apply F in Hy. apply N.ltb_lt in Hy. lia.
Qed.

Lemma magic_is : MAGIC = [36;57;36]%N. Proof. reflexivity. Qed.

Lemma valid_then_match (s : str) : valid s = true -> exists p, match_at s RX_VALID 0 = Some p.
Proof.
  unfold valid. rewrite magic_is. intro V. apply andb_prop in V as [V1 V2]. cbv zeta in V2. apply andb_prop in V2 as [V2 V3].
  destruct s as [|a [|b [|c rest]]]; cbn [starts_with] in V1; try discriminate.
  rewrite andb_true_r in V1. apply andb_prop in V1 as [Ea V1]. apply andb_prop in V1 as [Eb Ec].
  apply N.eqb_eq in Ea, Eb, Ec. subst a b c.
  cbn [length skipn] in V2, V3. apply Nat.leb_le in V2.
  set (s := (36 :: 57 :: 36 :: rest)%N). unfold match_at. rewrite m_is_first_of_ms. unfold RX_VALID.
  rewrite ms_seq_bol, app_nil_r.
  rewrite (ms_seq_chr_hit s cs0 _ 0 [] 36%N eq_refl eq_refl), app_nil_r.
  rewrite (ms_seq_chr_hit s cs1 _ 1 [] 57%N eq_refl eq_refl), app_nil_r.
  rewrite (ms_seq_chr_hit s cs0 _ 2 [] 36%N eq_refl eq_refl), app_nil_r.
  match goal with |- context [ms s (Seq (Rep true (Chr cs2) 4 None) Eos) 3 []] =>
    change (ms s (Seq (Rep true (Chr cs2) 4 None) Eos) 3 []) with (flat_map (fun p => ms s Eos (fst p) (snd p)) (ms s (Rep true (Chr cs2) 4 None) 3 [])) end.
  rewrite ms_rep.
  destruct (repn_then_eos_head s cs2 4 3 []) as (r & ->).
  - unfold s. cbn [length]. unfold chr in *. lia.
  - intros j x Hj Hx. rewrite cs2_is_alphabet. destruct j as [|[|[|j]]]; try lia. unfold s in Hx. cbn [nth_error] in Hx.
    rewrite forallb_forall in V3. apply V3. eapply nth_error_In; eauto.
  - cbn [first_some]. eauto.
Qed.

Lemma match_then_valid (s : str) a p : match_at s RX_VALID a = Some p -> valid s = true.
Proof.
  intro M. destruct p as [b c]. apply match_at_in in M. unfold RX_VALID in M.
  apply ms_seq_in in M as (p0 & H0 & M). cbn [ms] in H0. destruct (Nat.eqb a 0) eqn:Ea; [|exfalso; exact H0]. apply Nat.eqb_eq in Ea. subst a.
  destruct H0 as [<-|[]]. cbn [fst snd] in M.
  apply ms_seq_in in M as (p1 & H1 & M). apply ms_chr_in in H1 as (x1 & N1 & C1 & ->). apply cs0_only in C1. subst x1. cbn [fst snd] in M.
  apply ms_seq_in in M as (p2 & H2 & M). apply ms_chr_in in H2 as (x2 & N2 & C2 & ->). apply cs1_only in C2. subst x2. cbn [fst snd] in M.
  apply ms_seq_in in M as (p3 & H3 & M). apply ms_chr_in in H3 as (x3 & N3 & C3 & ->). apply cs0_only in C3. subst x3. cbn [fst snd] in M.
  apply ms_seq_in in M as ([j c4] & H4 & M). cbn [fst snd ms] in M. unfold Rx.slen in M. match type of M with context [if ?bb then _ else _] => destruct bb eqn:Ej end; [|exfalso; exact M]. apply Nat.eqb_eq in Ej. subst j.
  pose proof (match_alphabet _ _ _ _ _ _ H4) as Cov. cbn [alpha] in Cov.
  rewrite ms_rep in H4. apply mandc_chr_ge in H4.
  destruct s as [|a [|b0 [|c0 rest]]]; cbn [nth_error] in N1, N2, N3; try discriminate.
  injection N1 as ->. injection N2 as ->. injection N3 as ->.
  unfold valid. rewrite magic_is. cbn [starts_with length skipn]. rewrite !N.eqb_refl. cbn [andb]. cbn [length] in H4.
  unfold chr in *. apply andb_true_intro. split; [apply Nat.leb_le; lia|].
  apply forallb_forall. intros x Hx. apply In_nth_error in Hx as (k & Hk).
  assert (Hlt : (k < length rest)%nat) by (apply nth_error_Some; congruence).
  destruct (Cov (3 + k)%nat) as (y & cs & Ny & Hcs & Hy); [cbn [length]; lia|].
  change (nth_error rest k = Some y) in Ny. rewrite Hk in Ny. injection Ny as <-. destruct Hcs as [<-|[]]. change (inA x = true). rewrite <- cs2_is_alphabet. exact Hy.
Qed.

Theorem search_valid (s : str) : (match search s RX_VALID with Some _ => true | None => false end) = valid s.
Proof.
  destruct (valid s) eqn:V.
  - destruct (valid_then_match s V) as (p & M). unfold search. destruct (Rx.slen s); cbn [search_from]; rewrite M; destruct p; reflexivity.
  - destruct (search s RX_VALID) as [[[a b] c]|] eqn:E; [|reflexivity]. unfold search in E. apply search_from_ge in E as [_ M].
    apply match_then_valid in M. congruence.
Qed.

Lemma nibble_spec pc fuel chars k :
  gen__nibble pc fuel (vstr chars) (VInt (Z.of_nat k)) = Normal (VTuple [vstr (firstn k chars); vstr (skipn k chars)]).
Proof. unfold gen__nibble. rewrite py_slice_to. cbn [bind]. rewrite py_slice_from. reflexivity. Qed.

(* the generated _gap on every pair of alphabet characters (65 x 65, evaluated by the kernel) *)
Definition gap_agrees (p c : N) : bool :=
  match idx p, idx c, gen__gap nocall 1%nat (vch p) (vch c) with
  | Some ip, Some ic, Normal (VInt g) => Z.eqb g ((Z.of_N ic - Z.of_N ip + Z.of_N alen) mod Z.of_N alen - 1)
  | _, _, _ => false end.
Lemma gap_sweep : forallb (fun p => forallb (gap_agrees p) NUM_ALPHA) NUM_ALPHA = true.
Proof. vm_compute. reflexivity. Qed.
Lemma gen_gap_point pc fuel p c : inA p = true -> inA c = true ->
  exists ip ic, idx p = Some ip /\ idx c = Some ic /\
    gen__gap pc fuel (vch p) (vch c) = Normal (VInt ((Z.of_N ic - Z.of_N ip + Z.of_N alen) mod Z.of_N alen - 1)).
Proof.
  intros Hp Hc. apply inA_In in Hp, Hc. pose proof gap_sweep as S. rewrite forallb_forall in S. specialize (S p Hp). rewrite forallb_forall in S. specialize (S c Hc).
  change (gen__gap pc fuel (vch p) (vch c)) with (gen__gap nocall 1%nat (vch p) (vch c)).
  unfold gap_agrees in S. destruct (idx p) as [ip|]; [|discriminate]. destruct (idx c) as [ic|]; [|discriminate].
  destruct (gen__gap nocall 1%nat (vch p) (vch c)) as [v| | | |]; try discriminate. destruct v; try discriminate.
  apply Z.eqb_eq in S. subst. eauto.
Qed.

(* the generated _gap_decode on any list of gaps against any row *)
Fixpoint prods (a : list Z) (b : list N) : list Z := match a, b with x :: a', y :: b' => (x * Z.of_N y)%Z :: prods a' b' | _, _ => [] end.
Lemma dot_prods a b : dot a b = fold_right Z.add 0%Z (prods a b).
Proof. revert b; induction a as [|x a IH]; intros [|y b]; cbn [dot prods fold_right]; try reflexivity. now rewrite IH. Qed.
Lemma sum_fold l : forall z, fold_left (fun acc x => a <- acc ;; py_add a x) (map VInt l) (Normal (VInt z)) = Normal (VInt (z + fold_right Z.add 0%Z l)).
Proof. induction l as [|x l IH]; intro z; cbn [map fold_left fold_right bind py_add]; [f_equal; f_equal; lia|]. rewrite IH. f_equal. f_equal. lia. Qed.
Lemma mul_for (F := fun (x_ : pyval) (acc_ : list pyval) => p_ <- unpack2 x_ ;; let '(v_g, v_d) := p_ in t6 <- py_mul v_g v_d ;; Normal (acc_ ++ [t6])%list) :
  forall a b acc, py_for (map (fun p => VTuple [fst p; snd p]) (combine (map VInt a) (map (fun m => VInt (Z.of_N m)) b))) F acc = Normal (acc ++ map VInt (prods a b)).
Proof.
  induction a as [|x a IH]; intros [|y b] acc; cbn [map combine py_for prods]; try (now rewrite app_nil_r).
  unfold F at 1. cbn [unpack2 bind fst snd py_mul intop]. rewrite IH. rewrite <- app_assoc. reflexivity.
Qed.
Lemma gap_decode_spec pc fuel gs row :
  gen__gap_decode pc fuel (VList (map VInt gs)) (vrow row) =
  if Nat.eqb (length gs) (length row) then Normal (vch (Z.to_N ((dot gs row) mod 256))) else Exc (ValueError (of_string "Nibble and decode size not the same!")).
Proof.
  unfold gen__gap_decode, vrow. cbn [py_len bind py_ne veq]. rewrite !map_length.
  destruct (Nat.eqb_spec (length gs) (length row)) as [E|E].
  - rewrite E, Z.eqb_refl. cbn [negb truthy bindS]. unfold py_zip. cbn [py_iter bind]. rewrite mul_for. cbn [bind app].
    unfold py_sum. cbn [py_iter bind]. rewrite sum_fold. cbn [bind py_mod]. cbn [Z.eqb]. rewrite <- dot_prods. cbn [Z.add].
    assert (R : (0 <= dot gs row mod 256 < 256)%Z) by (apply Z.mod_pos_bound; lia).
    cbn [bind]. unfold py_chr. cbv beta iota.
    match goal with |- context [andb ?a ?b] => replace (andb a b) with true by (symmetry; apply andb_true_intro; split; [apply Z.leb_le|apply Z.ltb_lt]; lia) end.
    cbn [bind call]. unfold vch. rewrite Z2N.id by lia. reflexivity.
  - replace (Z.of_nat (length gs) =? Z.of_nat (length row))%Z with false by (symmetry; apply Z.eqb_neq; lia). cbn [negb truthy bindS bind call]. reflexivity.
Qed.

Definition T11 : Type := (pyval * pyval * pyval * pyval * pyval * pyval * pyval * pyval * pyval * pyval * pyval)%type.
Definition gapz (ip ic : N) : Z := ((Z.of_N ic - Z.of_N ip + Z.of_N alen) mod Z.of_N alen - 1)%Z.

Lemma forallb_skipn {A} (f : A -> bool) k l : forallb f l = true -> forallb f (skipn k l) = true.
Proof. rewrite !forallb_forall. intros H x Hx. apply H. eapply in_skipn'; eauto. Qed.

(* the inner loop: for i, _ in enumerate(nibble): gaps.append(_gap(prev, nibble[i])); prev = nibble[i] *)
Lemma gaps_loop (a1 a2 a4 a5 a7 a8 : pyval) (nib : str) (ibody : pyval -> T11 -> ctl T11) :
  (forall k c prev gs0 a6 ai, nth_error nib k = Some c -> inA prev = true -> inA c = true ->
     exists ip ic, idx prev = Some ip /\ idx c = Some ic /\
       ibody (VTuple [VInt (Z.of_nat k); vch c]) (a1, a2, vch prev, a4, a5, a6, a7, a8, VList gs0, vstr nib, ai)
       = Normal (a1, a2, vch c, a4, a5, vch c, a7, a8, VList (gs0 ++ [VInt (gapz ip ic)]), vstr nib, VInt (Z.of_nat k))) ->
  forall suf pre prev gs0 a6 ai, nib = pre ++ suf -> forallb inA suf = true -> inA prev = true ->
  exists gs b6 bi, dec_gaps prev suf = Some gs /\ length gs = length suf /\
    py_for (map (fun p => VTuple [VInt (Z.of_nat (fst p)); vch (snd p)]) (combine (seq (length pre) (length suf)) suf)) ibody
           (a1, a2, vch prev, a4, a5, a6, a7, a8, VList gs0, vstr nib, ai)
    = Normal (a1, a2, vch (last suf prev), a4, a5, b6, a7, a8, VList (gs0 ++ map VInt gs), vstr nib, bi).
Proof.
  intros Hstep. induction suf as [|c r IH]; intros pre prev gs0 a6 ai En Hs Hp.
  - exists [], a6, ai. cbn [dec_gaps length map combine seq py_for last]. rewrite app_nil_r. auto.
  - cbn [forallb] in Hs. apply andb_prop in Hs as [Hc Hr].
    assert (Nk : nth_error nib (length pre) = Some c) by (rewrite En, nth_error_app2, Nat.sub_diag by lia; reflexivity).
    destruct (Hstep (length pre) c prev gs0 a6 ai Nk Hp Hc) as (ip & ic & Eip & Eic & Eb).
    destruct (IH (pre ++ [c]) c (gs0 ++ [VInt (gapz ip ic)]) (vch c) (VInt (Z.of_nat (length pre)))) as (gs & b6 & bi & Eg & Lg & Ef).
    { rewrite <- app_assoc. exact En. } { exact Hr. } { exact Hc. }
    exists (gapz ip ic :: gs), b6, bi. split; [|split].
    + cbn [dec_gaps]. rewrite Eip, Eic, Eg. reflexivity.
    + cbn [length]. now rewrite Lg.
    + cbn [length seq combine map py_for fst snd]. rewrite Eb.
      rewrite app_length in Ef. cbn [length] in Ef. rewrite Nat.add_1_r in Ef. rewrite Ef.
      assert (El : last (c :: r) prev = last r c).
      { destruct r as [|n0 r']; [reflexivity|]. apply (last_app_nonempty [c] (n0 :: r') prev c). discriminate. }
      rewrite El. cbn [map]. rewrite <- app_assoc. reflexivity.
Qed.

(* the outer loop: while chars: ... against dec_loop *)
Lemma dec_loop_refines (a1 a5 : pyval) (cond : T11 -> ctl bool) (body : T11 -> ctl T11) :
  (forall x1 x2 x3 x4 x5 x6 x7 x8 x9 x10 x11, cond (x1, x2, x3, x4, x5, x6, x7, x8, x9, x10, x11) = Normal (truthy x2)) ->
  (forall chars prev dec a6 a7 a8 a9 a10 a11, chars <> [] -> forallb inA chars = true -> inA prev = true ->
     let decode := row_at (length dec) in let k := length decode in let nib := firstn k chars in
     exists gs, dec_gaps prev nib = Some gs /\ length gs = length nib /\
       if Nat.eqb (length gs) k
       then exists b6 b7 b8 b9 b10 b11, body (a1, vstr chars, vch prev, vstr dec, a5, a6, a7, a8, a9, a10, a11)
            = Normal (a1, vstr (skipn k chars), vch (last nib prev), vstr (dec ++ [Z.to_N ((dot gs decode) mod 256)]), a5, b6, b7, b8, b9, b10, b11)
       else exists m, body (a1, vstr chars, vch prev, vstr dec, a5, a6, a7, a8, a9, a10, a11) = Exc (ValueError m)) ->
  forall n fuelW chars prev dec a6 a7 a8 a9 a10 a11,
  (length chars < n)%nat -> (length chars < fuelW)%nat -> forallb inA chars = true -> inA prev = true ->
  match dec_loop n prev chars dec with
  | JOk p => exists prev' b6 b7 b8 b9 b10 b11,
      py_while fuelW cond body (a1, vstr chars, vch prev, vstr dec, a5, a6, a7, a8, a9, a10, a11)
      = Normal (a1, vstr [], vch prev', vstr p, a5, b6, b7, b8, b9, b10, b11)
  | JValueError => exists m, py_while fuelW cond body (a1, vstr chars, vch prev, vstr dec, a5, a6, a7, a8, a9, a10, a11) = Exc (ValueError m)
  | _ => False
  end.
Proof.
  intros Hcond Hbody. induction n as [|n IH]; intros fuelW chars prev dec a6 a7 a8 a9 a10 a11 Ln Lf Hc Hp; [lia|].
  destruct fuelW as [|fuelW]; [lia|]. destruct chars as [|c0 r0].
  - cbn [dec_loop py_while]. rewrite Hcond. cbn. do 7 eexists. reflexivity.
  - cbn [dec_loop py_while]. rewrite Hcond. remember (c0 :: r0) as chars eqn:Ech.
    assert (Hne : chars <> []) by (rewrite Ech; discriminate).
    replace (truthy (vstr chars)) with true by (rewrite Ech; reflexivity).
    destruct (Hbody chars prev dec a6 a7 a8 a9 a10 a11 Hne Hc Hp) as (gs & Eg & Lg & Hb). cbv zeta in Eg, Lg, Hb.
    rewrite Eg.
    destruct (Nat.eqb (length gs) (length (row_at (length dec)))) eqn:Ek; cbn [negb].
    + destruct Hb as (b6 & b7 & b8 & b9 & b10 & b11 & Eb). rewrite Eb.
      apply Nat.eqb_eq in Ek.
      assert (Hk : (0 < length (row_at (length dec)))%nat).
      { destruct tables_facts as (_ & Hne' & _). unfold rows_nonempty in Hne'. rewrite forallb_forall in Hne'. specialize (Hne' _ (row_in (length dec))).
        destruct (length (row_at (length dec))); [discriminate|lia]. }
      assert (Lk : (length (row_at (length dec)) <= length chars)%nat).
      { rewrite <- Ek, Lg, firstn_length. lia. }
      apply IH.
      * rewrite skipn_length. lia.
      * rewrite skipn_length. lia.
      * now apply forallb_skipn.
      * apply last_inA; [now apply forallb_firstn|exact Hp].
    + destruct Hb as (m & Eb). rewrite Eb. eauto.
Qed.

Lemma re_search_valid crypt : re_search_ast RX_VALID (vstr crypt) = Normal (if valid crypt then VBool true else VNone).
Proof. unfold re_search_ast, vstr. rewrite to_of_N. rewrite <- search_valid. destruct (search crypt RX_VALID); reflexivity. Qed.

Theorem gen_decrypt_refines pc fuel crypt : (length crypt < fuel)%nat ->
  match decrypt crypt with
  | JOk p => gen_juniper_decrypt pc fuel (vstr crypt) = Normal (vstr p)
  | JValueError => exists m, gen_juniper_decrypt pc fuel (vstr crypt) = Exc (ValueError m)
  | _ => False
  end.
Proof.
  intro Hfuel. remember (gen_juniper_decrypt pc fuel (vstr crypt)) as G eqn:EG. unfold gen_juniper_decrypt in EG. unfold decrypt.
  destruct tables_facts as (Hnz & Hne & _ & _ & Hex & _). rewrite Hnz, Hne. cbn [andb negb].
  destruct crypt as [|c0 cr] eqn:Ecr.
  - cbn in EG. cbn. eexists. exact EG.
  - rewrite <- Ecr in *.
    assert (E1 : py_not (vstr crypt) = Normal (VBool false)) by (rewrite Ecr; reflexivity).
    rewrite E1 in EG. cbn [bind truthy] in EG. rewrite re_search_valid in EG. cbn [bind] in EG.
    destruct (valid crypt) eqn:V; cbn [negb].
    2:{ cbn [py_not truthy negb bind bindS call] in EG. eexists. exact EG. }
    cbn [py_not truthy negb bind bindS] in EG.
    (* the shape of a valid string *)
    unfold valid in V. apply andb_prop in V as [V1 V2]. cbv zeta in V2. apply andb_prop in V2 as [V2 V3]. apply Nat.leb_le in V2.
    rewrite magic_is_g, py_len_vstr in EG. cbn [bind] in EG. rewrite py_slice_from in EG. cbn [bind] in EG.
    destruct (skipn (length MAGIC) crypt) as [|f chars] eqn:Erest; [cbn [length] in V2; lia|].
    cbn [forallb] in V3. apply andb_prop in V3 as [Hf Hchars]. fold (inA f) in Hf. change (forallb inA chars = true) in Hchars.
    change (VInt 1) with (VInt (Z.of_nat 1)) in EG. rewrite (nibble_spec pc fuel (f :: chars) 1) in EG. cbn [bind unpack2 firstn skipn] in EG.
    rewrite forallb_forall in Hex. pose proof (Hex f (proj1 (inA_In f) Hf)) as Xf. unfold extra_ok in Xf.
    destruct (assoc EXTRA f) as [e|] eqn:Ee; [|discriminate].
    rewrite <- vch_is_vstr, (py_getitem_extra f e Ee) in EG. cbn [bind] in EG. rewrite <- (N_nat_Z e), nibble_spec in EG. cbn [bind unpack2] in EG.
    change (VStr []) with (vstr []) in EG.
    set (chars' := skipn (N.to_nat e) chars) in *.
    match type of EG with context [py_while fuel ?cnd ?bdy _] => pose proof (dec_loop_refines (vstr crypt) (vch f) cnd bdy) as L end.
    lapply L; [clear L; intro L | intros; reflexivity].
    lapply L; [clear L; intro L | ].
    2:{ clear L EG. intros chs prev dec a6 a7 a8 a9 a10 a11 Hne' Hc Hp. cbv zeta. cbv beta iota.
        set (row := row_at (length dec)). set (k := length row). set (nib := firstn k chs).
        assert (EL7 : py_len g_ENCODING = Normal (VInt 7)) by reflexivity.
        assert (ELr : py_len (vrow row) = Normal (VInt (Z.of_nat k))) by (unfold vrow; cbn [py_len]; now rewrite map_length).
        match goal with |- context [py_for _ ?ib _] => set (IB := ib) end.
        match goal with IB := ?ib |- _ =>
          destruct (gaps_loop (vstr crypt) (vstr (skipn k chs)) (vstr dec) (vch f) (vrow row) (VInt (Z.of_nat k)) nib IB) with (suf := nib) (pre := @nil N) (prev := prev) (gs0 := @nil pyval) (a6 := a6) (ai := a11)
            as (gs & b6 & bi & Eg & Lg & Ef) end.
        { intros j c prev0 gs0 a6' ai Nj Hp0 Hc0. destruct (gen_gap_point pc fuel prev0 c Hp0 Hc0) as (ip & ic & Eip & Eic & Egp).
          exists ip, ic. split; [exact Eip|split; [exact Eic|]]. unfold IB. cbv beta iota. cbn [unpack2 bind]. rewrite (py_getitem_vstr_nat nib j c Nj). cbn [bind]. rewrite Egp. cbn [bind py_list_append]. reflexivity. }
        { reflexivity. } { subst nib. now apply forallb_firstn. } { exact Hp. }
        exists gs. split; [exact Eg|split; [exact Lg|]]. cbn [length] in Ef. unfold T11 in *.
        destruct (Nat.eqb (length gs) k) eqn:Ek.
        - do 6 eexists. rewrite py_len_vstr; cbn [bind]; rewrite EL7; cbn [bind py_mod Z.eqb]; rewrite row_at_getitem; fold row; cbn [bind]; rewrite ELr; cbn [bind]; rewrite nibble_spec; fold nib; cbn [bind unpack2]; rewrite py_enumerate_vstr; cbn [bind py_iter]; subst IB; rewrite Ef; cbn [bindS app]; rewrite gap_decode_spec; fold k; rewrite Ek; cbn [bind]. rewrite vch_is_vstr, py_add_vstr. cbn [bind]. reflexivity.
        - eexists. rewrite py_len_vstr; cbn [bind]; rewrite EL7; cbn [bind py_mod Z.eqb]; rewrite row_at_getitem; fold row; cbn [bind]; rewrite ELr; cbn [bind]; rewrite nibble_spec; fold nib; cbn [bind unpack2]; rewrite py_enumerate_vstr; cbn [bind py_iter]; subst IB; rewrite Ef; cbn [bindS app]; rewrite gap_decode_spec; fold k; rewrite Ek; cbn [bind]. reflexivity. }
    assert (Hlt : (length chars' < fuel)%nat).
    { subst chars'. rewrite skipn_length. pose proof (f_equal (@length N) Erest) as HL. rewrite skipn_length in HL. cbn [length] in HL. lia. }
    specialize (L (S (length chars')) fuel chars' f [] (vstr (firstn (N.to_nat e) chars)) VNone VNone VNone VNone VNone ltac:(lia) Hlt (forallb_skipn _ _ _ Hchars) Hf).
    unfold T11 in L. destruct (dec_loop (S (length chars')) f chars' []); try contradiction.
    + destruct L as (prev' & b6 & b7 & b8 & b9 & b10 & b11 & EL). rewrite EL in EG. cbn [bindS bind call] in EG. exact EG.
    + destruct L as (m & EL). rewrite EL in EG. cbn [bindS bind call] in EG. eauto.
Qed.

(* the property on the generated code itself: what the translated encrypt returns, the translated decrypt maps back *)
Theorem generated_round_trip pc fuel fuel' (plain salt : str) :
  Forall (fun c => (c < 256)%N) plain -> (plain <> [] \/ extra_of_salt salt = Some 3%N) ->
  exists crypt, gen_juniper_nonrandom_encrypt pc fuel (vstr plain) (vstr salt) = Normal (vstr crypt) /\
                ((length crypt < fuel')%nat -> gen_juniper_decrypt pc fuel' (vstr crypt) = Normal (vstr plain)).
Proof.
  intros Hb Hne. destruct (gen_encrypt_refines pc fuel plain salt Hb) as (crypt & Ee & Eg).
  destruct (encrypt_decrypt_roundtrip plain salt Hb) as (crypt' & Ee' & _ & Hd). rewrite Ee in Ee'. injection Ee' as <-.
  exists crypt. split; [exact Eg|]. intro Hf. pose proof (gen_decrypt_refines pc fuel' crypt Hf) as R. rewrite (Hd Hne) in R. exact R.
Qed.

