(* Refinement of the GENERATED constructors (gen/G_fn_ip.v: _BaseIpAnonymizer.__init__, IpAnonymizer.__init__ with its seeding loop)
   to the seeding model of lib/Memo.v: the object the generated constructor builds is mkself over exactly the memo Memo.init computes,
   hence (MemoProofs.init_ok) a state satisfying the invariant, hence (RefAnon/RefDeanon) every later request is answered by the pure image. *)
From Coq Require Import List ZArith String Lia Bool.
Require Import PyLib G_fn_ip PPCore Memo RefIpCommon.
Import ListNotations.
Local Open Scope Z_scope.
Local Open Scope list_scope.

Lemma py_for_invariant {S} (body : pyval -> S -> ctl S) (R : nat -> S -> Prop) :
  forall (items : list pyval) (k : nat) (s0 : S),
  R k s0 ->
  (forall i x s, nth_error items i = Some x -> R (k + i)%nat s -> exists s', body x s = Normal s' /\ R (Datatypes.S (k + i)) s') ->
  exists s', py_for items body s0 = Normal s' /\ R (k + List.length items)%nat s'.
Proof.
  induction items as [|x r IH]; intros k s0 H0 Hstep; cbn [py_for List.length].
  - exists s0. rewrite Nat.add_0_r. auto.
  - destruct (Hstep 0%nat x s0 eq_refl) as (s1 & E1 & R1); [rewrite Nat.add_0_r; exact H0|].
    rewrite E1. rewrite Nat.add_0_r in R1.
    destruct (IH (Datatypes.S k) s1 R1) as (s' & E & R').
    + intros i y s Hn HR. specialize (Hstep (Datatypes.S i) y s Hn). rewrite Nat.add_succ_r in Hstep. exact (Hstep HR).
    + exists s'. split; [exact E|]. rewrite Nat.add_succ_r. exact R'.
Qed.

Definition fmt32 : pyval := VStr (of_string "{:032b}").

Section Init.
Variable py_call : pyval -> pyval -> PyLib.res.
Variables (clsname : list Z) (saltv salterv : pyval) (B : nat).

Lemma base_init_result fuel :
  gen__BaseIpAnonymizer____init__ py_call fuel (VObj clsname []) saltv (VInt 32) salterv (VInt (Z.of_nat B))
  = Normal (VTuple [VNone; mkself clsname saltv (VInt 32) fmt32 salterv (Z.of_nat B) [] [([], [])]]).
Proof. reflexivity. Qed.
End Init.

Lemma slice_firstn {X} (x : list X) (k : nat) : slice x None (Some (Z.of_nat k)) = firstn k x.
Proof.
  unfold slice, clamp. cbv zeta. assert (E0 : (Z.of_nat k <? 0) = false) by (apply Z.ltb_ge; apply Nat2Z.is_nonneg). rewrite !E0.
  destruct (Z.of_nat (List.length x) <? Z.of_nat k) eqn:E.
  - apply Z.ltb_lt in E. apply Nat2Z.inj_lt in E. cbn [skipn]. rewrite Nat.sub_0_r. rewrite (firstn_all2 (n:=k) x) by (apply Nat.lt_le_incl; exact E). rewrite firstn_all2 by apply Nat.le_refl. reflexivity.
  - cbn [skipn]. rewrite Nat.sub_0_r. now rewrite Nat2Z.id.
Qed.
Lemma pyslice_firstn bits k : py_slice (VS bits) VNone (VInt (Z.of_nat k)) = Normal (VS (firstn k bits)).
Proof. unfold py_slice. cbn [optZ bind]. unfold VS. rewrite slice_firstn. unfold enc. now rewrite firstn_map. Qed.
Lemma len_VS b : py_len (VS b) = Normal (VInt (Z.of_nat (List.length b))).
Proof. unfold VS, py_len. now rewrite enc_length. Qed.
Lemma add_VS0 a : py_add (VS a) (VStr [48]) = Normal (VS (a ++ [false])). Proof. exact (add_VS a false). Qed.
Lemma add_VS1 a : py_add (VS a) (VStr [49]) = Normal (VS (a ++ [true])). Proof. exact (add_VS a true). Qed.

Lemma Forall2_nth_error {X Y} (R : X -> Y -> Prop) : forall l1 l2, Forall2 R l1 l2 -> forall i x, nth_error l1 i = Some x -> exists y, nth_error l2 i = Some y /\ R x y.
Proof. induction 1 as [|a b l1 l2 Hab _ IH]; intros [|i] x Hx; try discriminate; cbn in *.
  - injection Hx as <-. eauto. - apply IH. exact Hx. Qed.
Lemma seed_all_skipn d Ps i P d0 : nth_error Ps i = Some P -> Memo.seed_all d (skipn i Ps) = Memo.Ok d0 ->
  exists d1, Memo.seed_one (List.length P) d P 0 = Memo.Ok d1 /\ Memo.seed_all d1 (skipn (S i) Ps) = Memo.Ok d0.
Proof.
  revert i. induction Ps as [|Q Ps IH]; intros [|i] Hn H; try discriminate; cbn in *.
  - injection Hn as ->. destruct (Memo.seed_one (List.length P) d P 0) as [d1|]; [|discriminate]. eauto.
  - apply (IH i Hn H).
Qed.
Lemma nth_range k i : (i < k)%nat -> nth_error (map (fun i => VInt (Z.of_nat i)) (seq 0 k)) i = Some (VInt (Z.of_nat i)).
Proof. intro H. rewrite nth_error_map. rewrite nth_error_nth' with (d:=0%nat) by (rewrite seq_length; exact H). rewrite seq_nth by exact H. reflexivity. Qed.

Lemma Forall2_len {X Y} (R : X -> Y -> Prop) l1 l2 : Forall2 R l1 l2 -> List.length l1 = List.length l2.
Proof. induction 1; cbn; congruence. Qed.
Lemma nth_error_Some_lt {X} (l : list X) i x : nth_error l i = Some x -> (i < List.length l)%nat.
Proof. intro H. apply nth_error_Some. congruence. Qed.

Definition subnet_bits (s : pyval) (P : list bool) : Prop :=
  exists net addr z full,
    ip_network s = Normal net /\ py_getattr net "network_address" = Normal addr /\ py_int addr VNone = Normal (VInt z) /\
    py_format fmt32 (VList [VInt z]) (VDict []) = Normal (VS full) /\
    py_getattr net "prefixlen" = Normal (VInt (Z.of_nat (List.length P))) /\ P = firstn (List.length P) full.

Section Init2.
Variable py_call : pyval -> pyval -> PyLib.res.
Variables (clsname : list Z) (saltv salterv : pyval) (B : nat).
Notation mk := (mkself clsname saltv (VInt 32) fmt32 salterv (Z.of_nat B)).
Definition rest0 : list (pyval * pyval) := [(S_ "_preserve_addresses", VList [])].
Lemma set_pa d : py_setattr (mk [] d) "_preserve_addresses" (VList []) = Normal (mk rest0 d). Proof. reflexivity. Qed.

Definition pa_val (pa : option (list pyval)) : pyval := match pa with None => VNone | Some l => VList l end.
Definition pa_items (pa : option (list pyval)) : list pyval := match pa with None => [] | Some l => l end.
Definition rest_of (nets : list pyval) : list (pyval * pyval) := [(S_ "_preserve_addresses", VList nets)].
Lemma set_pa2 d nets : py_setattr (mk rest0 d) "_preserve_addresses" (VList nets) = Normal (mk (rest_of nets) d). Proof. reflexivity. Qed.

Theorem gen_init_seeds : forall fuel (strs : list pyval) (pa : option (list pyval)) (nets : list pyval) (Ps : list (list bool)) (kw : pyval) d0,
  kw_lookup kw "salter" (VFun (of_string "_generate_bit_from_hash")) = salterv ->
  kw_lookup kw "preserve_suffix" VNone = VInt (Z.of_nat B) ->
  Forall2 (fun a n => ip_network a = Normal n) (pa_items pa) nets ->
  Forall2 subnet_bits (strs ++ pa_items pa) Ps ->
  Memo.init Ps = Memo.Ok d0 ->
  gen_IpAnonymizer____init__ py_call fuel (VObj clsname []) saltv (VList strs) (pa_val pa) kw
  = Normal (VTuple [VNone; mk (rest_of nets) d0]).
Proof.
  intros fuel strs pa nets Ps kw d0 Hs Hb Hn HF Hinit.
  unfold gen_IpAnonymizer____init__. rewrite Hs, Hb. rewrite base_init_result.
  cbn [bind unpack2 is_none truthy bindS negb]. rewrite set_pa. cbn [bind].
  destruct pa as [addrs|]; cbn [pa_val pa_items is_none negb truthy bindS bind py_iter] in *.
  1: { (* the comprehension building _preserve_addresses *)
    match goal with |- context [py_for addrs ?body ?s0] =>
      destruct (py_for_invariant body (fun j acc => acc = firstn j nets) addrs 0%nat s0) as (accF & EA & ->)
    end.
    - reflexivity.
    - intros i a acc Ha ->. cbn [Nat.add]. destruct (Forall2_nth_error _ _ _ Hn i a Ha) as (nn & Hnn & En).
      rewrite En. cbn [bind]. eexists. split; [reflexivity|].
      clear - Hnn. revert i Hnn. induction nets as [|q nets IH]; intros [|i] Hnn; try discriminate; cbn in *.
      + injection Hnn as ->. reflexivity.
      + f_equal. apply IH. exact Hnn.
    - rewrite EA. cbn [bind Nat.add]. rewrite firstn_all2 by (rewrite <- (Forall2_len _ _ _ Hn); apply Nat.le_refl).
      rewrite set_pa2. cbn [bind py_list_extend py_iter]. cbn [bindS bind py_iter].
      (* the two nested seeding loops, whatever else the object carries (rest), whatever list is walked and whatever the preserved-address argument was *)
      match goal with |- context [py_for ?allstrs ?body ?s0] =>
        match s0 with (mkself _ _ _ _ _ _ ?rest _, _, _, ?pav, _, _, _, _, _, _, _) =>
        destruct (py_for_invariant body
          (fun j s => exists dj a6 a7 a8 a9 a10 a11, s = (mk rest dj, saltv, VList allstrs, pav, kw, a6, a7, a8, a9, a10, a11) /\ Memo.seed_all dj (skipn j Ps) = Memo.Ok d0)
          allstrs 0%nat s0) as (sF & EF & (dF & b6 & b7 & b8 & b9 & b10 & b11 & -> & HdF)) end
      end.
      + do 7 eexists. split; [reflexivity|exact Hinit].
      + intros i x s Hx (dj & a6 & a7 & a8 & a9 & a10 & a11 & -> & Hj). cbn [Nat.add] in *.
        destruct (Forall2_nth_error _ _ _ HF i x Hx) as (P & HP & (net & addr & z & full & E1 & E2 & E3 & E4 & E5 & E6)).
        destruct (seed_all_skipn _ _ _ _ _ HP Hj) as (d1 & Hone & Hrest).
        py_norm_with ltac:(first [rewrite E1 | rewrite E2 | rewrite E3 | rewrite E4 | rewrite E5 | rewrite pyslice_firstn]).
        rewrite <- E6. py_norm_with ltac:(rewrite len_VS). cbn [py_range bind py_iter]. rewrite Nat2Z.id.
        match goal with |- context [py_for ?items ?body ?s0] =>
          match s0 with (mkself _ _ _ _ _ _ ?rest _, _, ?pp, ?pav, _, _, _, _, _, _, _) =>
          destruct (py_for_invariant body
            (fun k s => exists dk p9 p10, s = (mk rest dk, saltv, pp, pav, kw, x, net, VS P, p9, p10, a11)
                        /\ Memo.seed_one (List.length P - k) dk P k = Memo.Ok d1)
            items 0%nat s0) as (sI & EI & (dI & q9 & q10 & -> & HdI)) end
        end.
        * do 3 eexists. split; [reflexivity|]. rewrite Nat.sub_0_r. exact Hone.
        * intros k y s Hy (dk & p9 & p10 & -> & Hk). cbn [Nat.add] in *.
          assert (Hlt : (k < List.length P)%nat) by (apply nth_error_Some_lt in Hy; rewrite map_length, seq_length in Hy; exact Hy).
          rewrite nth_range in Hy by exact Hlt. injection Hy as <-.
          replace (List.length P - k)%nat with (S (List.length P - S k)) in Hk by lia. cbn [Memo.seed_one] in Hk.
          destruct (Memo.bput dk (firstn k P ++ [false]) (firstn k P ++ [false])) as [da|] eqn:Ea; [|discriminate].
          destruct (Memo.bput da (firstn k P ++ [true]) (firstn k P ++ [true])) as [db|] eqn:Eb; [|discriminate].
          py_norm_with ltac:(first [rewrite pyslice_firstn | rewrite add_VS0 | rewrite add_VS1 | rewrite (put_enc _ _ _ _ Ea) | rewrite (put_enc _ _ _ _ Eb)]).
          eexists. split; [reflexivity|]. do 3 eexists. split; [reflexivity|exact Hk].
        * rewrite EI. cbn [bindS]. rewrite map_length, seq_length, Nat.add_0_l, Nat.sub_diag in HdI. cbn [Memo.seed_one] in HdI. injection HdI as ->.
          eexists. split; [reflexivity|]. do 7 eexists. split; [reflexivity|exact Hrest].
      + rewrite EF. cbn [bindS bind call]. rewrite Nat.add_0_l in HdF. rewrite skipn_all2 in HdF.
        * cbn [Memo.seed_all] in HdF. injection HdF as ->. reflexivity.
        * rewrite (Forall2_len _ _ _ HF). apply Nat.le_refl. }
  assert (Enets : nets = []) by (inversion Hn; reflexivity). subst nets. rewrite app_nil_r in HF. change rest0 with (rest_of []).
  match goal with |- context [py_for ?allstrs ?body ?s0] =>
    match s0 with (mkself _ _ _ _ _ _ ?rest _, _, _, ?pav, _, _, _, _, _, _, _) =>
    destruct (py_for_invariant body
      (fun j s => exists dj a6 a7 a8 a9 a10 a11, s = (mk rest dj, saltv, VList allstrs, pav, kw, a6, a7, a8, a9, a10, a11) /\ Memo.seed_all dj (skipn j Ps) = Memo.Ok d0)
      allstrs 0%nat s0) as (sF & EF & (dF & b6 & b7 & b8 & b9 & b10 & b11 & -> & HdF)) end
  end.
  + do 7 eexists. split; [reflexivity|exact Hinit].
  + intros i x s Hx (dj & a6 & a7 & a8 & a9 & a10 & a11 & -> & Hj). cbn [Nat.add] in *.
    destruct (Forall2_nth_error _ _ _ HF i x Hx) as (P & HP & (net & addr & z & full & E1 & E2 & E3 & E4 & E5 & E6)).
    destruct (seed_all_skipn _ _ _ _ _ HP Hj) as (d1 & Hone & Hrest).
    py_norm_with ltac:(first [rewrite E1 | rewrite E2 | rewrite E3 | rewrite E4 | rewrite E5 | rewrite pyslice_firstn]).
    rewrite <- E6. py_norm_with ltac:(rewrite len_VS). cbn [py_range bind py_iter]. rewrite Nat2Z.id.
    match goal with |- context [py_for ?items ?body ?s0] =>
      match s0 with (mkself _ _ _ _ _ _ ?rest _, _, ?pp, ?pav, _, _, _, _, _, _, _) =>
      destruct (py_for_invariant body
        (fun k s => exists dk p9 p10, s = (mk rest dk, saltv, pp, pav, kw, x, net, VS P, p9, p10, a11)
                    /\ Memo.seed_one (List.length P - k) dk P k = Memo.Ok d1)
        items 0%nat s0) as (sI & EI & (dI & q9 & q10 & -> & HdI)) end
    end.
    * do 3 eexists. split; [reflexivity|]. rewrite Nat.sub_0_r. exact Hone.
    * intros k y s Hy (dk & p9 & p10 & -> & Hk). cbn [Nat.add] in *.
      assert (Hlt : (k < List.length P)%nat) by (apply nth_error_Some_lt in Hy; rewrite map_length, seq_length in Hy; exact Hy).
      rewrite nth_range in Hy by exact Hlt. injection Hy as <-.
      replace (List.length P - k)%nat with (S (List.length P - S k)) in Hk by lia. cbn [Memo.seed_one] in Hk.
      destruct (Memo.bput dk (firstn k P ++ [false]) (firstn k P ++ [false])) as [da|] eqn:Ea; [|discriminate].
      destruct (Memo.bput da (firstn k P ++ [true]) (firstn k P ++ [true])) as [db|] eqn:Eb; [|discriminate].
      py_norm_with ltac:(first [rewrite pyslice_firstn | rewrite add_VS0 | rewrite add_VS1 | rewrite (put_enc _ _ _ _ Ea) | rewrite (put_enc _ _ _ _ Eb)]).
      eexists. split; [reflexivity|]. do 3 eexists. split; [reflexivity|exact Hk].
    * rewrite EI. cbn [bindS]. rewrite map_length, seq_length, Nat.add_0_l, Nat.sub_diag in HdI. cbn [Memo.seed_one] in HdI. injection HdI as ->.
      eexists. split; [reflexivity|]. do 7 eexists. split; [reflexivity|exact Hrest].
  + rewrite EF. cbn [bindS bind call]. rewrite Nat.add_0_l in HdF. rewrite skipn_all2 in HdF.
    * cbn [Memo.seed_all] in HdF. injection HdF as ->. reflexivity.
    * rewrite (Forall2_len _ _ _ HF). apply Nat.le_refl.
Qed.
End Init2.

Print Assumptions gen_init_seeds.

(* the object the generated constructor builds satisfies the memo invariant of the model with exactly the prefixes the caller listed
   (plus the preserved networks): so every later request on it is answered by the pure image (RefAnon.gen_anonymize_returns_image) and
   everything proved about pinned prefixes (Pinned.v) applies to the generated code *)
Require Import MemoProofs.
Theorem gen_constructor_establishes_the_invariant :
  forall (H : list bool -> bool) (py_call : pyval -> pyval -> PyLib.res) (clsname : list Z) (saltv salterv : pyval) (B : nat) fuel
         (strs : list pyval) (pa : option (list pyval)) (nets : list pyval) (Ps : list (list bool)) (kw : pyval),
  kw_lookup kw "salter" (VFun (of_string "_generate_bit_from_hash")) = salterv ->
  kw_lookup kw "preserve_suffix" VNone = VInt (Z.of_nat B) ->
  Forall2 (fun a n => ip_network a = Normal n) (pa_items pa) nets ->
  Forall2 subnet_bits (strs ++ pa_items pa) Ps ->
  exists d0,
    gen_IpAnonymizer____init__ py_call fuel (VObj clsname []) saltv (VList strs) (pa_val pa) kw
    = Normal (VTuple [VNone; mkself clsname saltv (VInt 32) fmt32 salterv (Z.of_nat B) (rest_of nets) d0])
    /\ MemoProofs.Inv H 32 B Ps d0.
Proof.
  intros H py_call clsname saltv salterv B fuel strs pa nets Ps kw Hs Hb Hn HF.
  destruct (MemoProofs.init_ok H 32 B Ps) as (d0 & E0 & I0).
  exists d0. split; [|exact I0].
  exact (gen_init_seeds py_call clsname saltv salterv B fuel strs pa nets Ps kw d0 Hs Hb Hn HF E0).
Qed.
Print Assumptions gen_constructor_establishes_the_invariant.

(* non-vacuity: the default prefix list of the source satisfies subnet_bits with the class and RFC 1918 prefixes *)
Example subnet_bits_of_a_default_prefix : subnet_bits (VStr (of_string "172.16.0.0/12")) [true;false;true;false;true;true;false;false;false;false;false;true].
Proof. unfold subnet_bits. do 3 eexists. exists [true;false;true;false;true;true;false;false;false;false;false;true;false;false;false;false;false;false;false;false;false;false;false;false;false;false;false;false;false;false;false;false].
  split; [reflexivity|]. split; [reflexivity|]. split; [reflexivity|]. split; [vm_compute; reflexivity|]. split; reflexivity. Qed.
