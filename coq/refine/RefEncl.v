(* Refinement of the GENERATED _extract_enclosing_text (gen/G_fn_sir.v) to the model's extract_enclosing (model/TextModel.v):
   the theorems about the enclosing-text partition (C09) therefore speak about the code as translated on this run. *)
From Coq Require Import String.
From Coq Require Import List ZArith NArith Bool Lia.
Require Import PyLib G_fn_sir Str G_text_consts TextModel.
Import ListNotations.
Local Open Scope Z_scope.

Definition zs (s : str) : list Z := map Z.of_N s.
Definition vstr (s : str) : pyval := VStr (zs s).

Lemma zs_app a b : zs (a ++ b) = zs a ++ zs b. Proof. apply map_app. Qed.
Lemma zs_length a : List.length (zs a) = List.length a. Proof. apply map_length. Qed.
Lemma zprefix_starts (p s : str) : zprefix (zs p) (zs s) = starts_with p s.
Proof.
  revert s. induction p as [|a p IH]; intros [|b s]; cbn; try reflexivity. rewrite IH. f_equal.
  destruct (N.eqb_spec a b) as [->|Hn]; [apply Z.eqb_refl|]. apply Z.eqb_neq. intro C. apply N2Z.inj in C. contradiction.
Qed.
Lemma zs_rev a : zs (rev a) = rev (zs a). Proof. apply map_rev. Qed.

Lemma py_startswith_vstr v t : py_startswith (vstr v) (vstr t) = Normal (VBool (starts_with t v)).
Proof. unfold py_startswith, vstr. now rewrite zprefix_starts. Qed.
Lemma py_endswith_vstr v t : py_endswith (vstr v) (vstr t) = Normal (VBool (ends_with t v)).
Proof. unfold py_endswith, vstr, ends_with. now rewrite <- !zs_rev, zprefix_starts. Qed.
Lemma py_add_vstr a b : py_add (vstr a) (vstr b) = Normal (vstr (a ++ b)).
Proof. unfold vstr. cbn [py_add]. now rewrite zs_app. Qed.
Lemma py_len_vstr a : py_len (vstr a) = Normal (VInt (Z.of_nat (List.length a))).
Proof. unfold vstr, py_len. now rewrite zs_length. Qed.

Lemma slice_from {X} (x : list X) (k : nat) : slice x (Some (Z.of_nat k)) None = skipn k x.
Proof.
  unfold slice, clamp. cbv zeta. assert (E0 : (Z.of_nat k <? 0) = false) by (apply Z.ltb_ge; apply Nat2Z.is_nonneg). rewrite !E0.
  destruct (Z.of_nat (List.length x) <? Z.of_nat k) eqn:E.
  - apply Z.ltb_lt in E. apply Nat2Z.inj_lt in E. rewrite Nat.sub_diag. cbn [firstn]. symmetry. apply skipn_all2. lia.
  - rewrite Nat2Z.id. apply Z.ltb_ge in E. apply Nat2Z.inj_le in E. apply firstn_all2. rewrite skipn_length. lia.
Qed.
Lemma py_slice_from v k : py_slice (vstr v) (VInt (Z.of_nat k)) VNone = Normal (vstr (skipn k v)).
Proof. unfold py_slice, vstr. cbn [optZ bind]. rewrite slice_from. unfold zs. now rewrite skipn_map. Qed.
Lemma slice_upto_neg {X} (x : list X) (k : nat) : (0 < k <= List.length x)%nat -> slice x None (Some (- Z.of_nat k)) = firstn (List.length x - k) x.
Proof.
  intros Hk. unfold slice, clamp. cbv zeta.
  replace (- Z.of_nat k <? 0) with true by (symmetry; apply Z.ltb_lt; lia).
  replace (- Z.of_nat k + Z.of_nat (List.length x) <? 0) with false by (symmetry; apply Z.ltb_ge; lia).
  replace (Z.of_nat (List.length x) <? - Z.of_nat k + Z.of_nat (List.length x)) with false by (symmetry; apply Z.ltb_ge; lia).
  replace (Z.to_nat (- Z.of_nat k + Z.of_nat (List.length x)) - 0)%nat with (List.length x - k)%nat by lia. reflexivity.
Qed.
Lemma py_slice_upto_neg v k : (0 < k <= List.length v)%nat -> py_slice (vstr v) VNone (VInt (- Z.of_nat k)) = Normal (vstr (firstn (List.length v - k) v)).
Proof. intros Hk. unfold py_slice, vstr. cbn [optZ bind]. rewrite slice_upto_neg by (rewrite zs_length; exact Hk). rewrite zs_length. unfold zs. now rewrite firstn_map. Qed.

Lemma starts_with_length p s : starts_with p s = true -> (List.length p <= List.length s)%nat.
Proof. revert s; induction p as [|a p IH]; intros [|b s] H; cbn in *; try lia; try discriminate. apply andb_prop in H as [_ H]. apply IH in H. lia. Qed.
Lemma ends_with_length p s : ends_with p s = true -> (List.length p <= List.length s)%nat.
Proof. unfold ends_with. intro H. apply starts_with_length in H. now rewrite !rev_length in H. Qed.

(* a loop over a literal list, with a relation between the model's accumulator and the loop state *)
Lemma py_for_rel {S A X} (R : A -> S -> Prop) (g : A -> X -> A) (enc : X -> pyval) (body : pyval -> S -> ctl S) :
  forall l, (forall x a st, In x l -> R a st -> exists st', body (enc x) st = Normal st' /\ R (g a x) st') ->
  forall a st, R a st -> exists st', py_for (map enc l) body st = Normal st' /\ R (fold_left g l a) st'.
Proof.
  induction l as [|x l IH]; intros Hb a st HR; cbn [map py_for fold_left]; [eauto|].
  destruct (Hb x a st (or_introl eq_refl) HR) as (st1 & -> & R1). apply IH; [|exact R1]. intros y b s Hy. apply Hb. right. exact Hy.
Qed.

Lemma veq_vstr a b : veq (vstr a) (vstr b) = str_eqb a b.
Proof.
  unfold vstr. cbn [veq]. destruct (list_eq_dec Z.eq_dec (zs a) (zs b)) as [E|E].
  - assert (a = b). { revert b E. induction a as [|x a IH]; intros [|y b] E; cbn in *; try discriminate; [reflexivity|]. injection E as E1 E2. apply N2Z.inj in E1. subst. f_equal. auto. }
    subst. symmetry. apply str_eqb_refl.
  - destruct (str_eqb a b) eqn:Es; [|reflexivity]. exfalso. apply E. f_equal. apply str_eqb_eq. exact Es.
Qed.

Lemma heads_are : g__PASSWORD_ENCLOSING_HEAD_TEXT = VList (map vstr ENCLOSING_HEAD). Proof. reflexivity. Qed.
Lemma tails_are : g__PASSWORD_ENCLOSING_TAIL_TEXT = VList (map vstr ENCLOSING_TAIL). Proof. reflexivity. Qed.

Definition hstep (a : str * str) (t : str) : str * str := let '(v, h) := a in if starts_with t v then (skipn (List.length t) v, h ++ t)%list else (v, h).
Definition tstep (a : str * str) (t : str) : str * str := let '(v, tl) := a in if ends_with t v then (firstn (List.length v - List.length t) v, t ++ tl)%list else (v, tl).
Lemma fold_left_ext_ {A B} (f g : A -> B -> A) : (forall a b, f a b = g a b) -> forall l a, fold_left f l a = fold_left g l a.
Proof. intros H l. induction l as [|x l IH]; intros a; cbn; [reflexivity|]. rewrite H. apply IH. Qed.
Lemma strip_heads_fold val head : strip_heads val head = fold_left hstep ENCLOSING_HEAD (val, head).
Proof. unfold strip_heads. apply fold_left_ext_. intros [v h] t. reflexivity. Qed.
Lemma strip_tails_fold val tail : strip_tails val tail = fold_left tstep ENCLOSING_TAIL (val, tail).
Proof. unfold strip_tails. apply fold_left_ext_. intros [v h] t. reflexivity. Qed.

(* each pass only shortens the value, and leaves it as it was or strictly shorter *)
Definition shrunk (v v' : str) : Prop := v' = v \/ (List.length v' < List.length v)%nat.
Lemma shrunk_trans a b c : shrunk a b -> shrunk b c -> shrunk a c.
Proof. intros [->|H1] [->|H2]; unfold shrunk; auto. right. lia. Qed.
Lemma hstep_shrunk v h t : t <> [] -> shrunk v (fst (hstep (v, h) t)).
Proof.
  intro Ht. cbn [hstep]. destruct (starts_with t v) eqn:E; [|left; reflexivity]. right. cbn [fst]. rewrite skipn_length.
  apply starts_with_length in E. destruct t; [contradiction|]. cbn [List.length] in *. lia.
Qed.
Lemma tstep_shrunk v h t : t <> [] -> shrunk v (fst (tstep (v, h) t)).
Proof.
  intro Ht. cbn [tstep]. destruct (ends_with t v) eqn:E; [|left; reflexivity]. right. cbn [fst]. rewrite firstn_length.
  apply ends_with_length in E. destruct t; [contradiction|]. cbn [List.length] in *. lia.
Qed.
Lemma fold_shrunk (step : str * str -> str -> str * str) (l : list str) :
  (forall v h t, In t l -> shrunk v (fst (step (v, h) t))) -> forall v h, shrunk v (fst (fold_left step l (v, h))).
Proof.
  induction l as [|t l IH]; intros Hs v h; cbn [fold_left]; [left; reflexivity|].
  destruct (step (v, h) t) as [v1 h1] eqn:E. eapply shrunk_trans; [|apply IH; intros; apply Hs; right; assumption].
  specialize (Hs v h t (or_introl eq_refl)). rewrite E in Hs. exact Hs.
Qed.
Lemma heads_nonempty : forallb (fun t => match t with [] => false | _ => true end) ENCLOSING_HEAD = true. Proof. reflexivity. Qed.
Lemma tails_nonempty : forallb (fun t => match t with [] => false | _ => true end) ENCLOSING_TAIL = true. Proof. reflexivity. Qed.

Lemma nonempty_of (l : list str) : forallb (fun t => match t with [] => false | _ => true end) l = true -> forall t, In t l -> t <> [].
Proof. intros H t Hin. rewrite forallb_forall in H. specialize (H t Hin). destruct t; [discriminate|discriminate]. Qed.

Theorem gen_extract_enclosing_refines_any_fuel : forall (py_call : pyval -> pyval -> PyLib.res) (fuel : nat) (in_val head tail : str),
  (List.length in_val < fuel)%nat ->
  gen__extract_enclosing_text py_call fuel (vstr in_val) (vstr head) (vstr tail)
  = (let '(h, v, t) := extract_enclosing_aux fuel in_val head tail in Normal (VTuple [vstr h; vstr v; vstr t])).
Proof.
  intros pc fuel in_val head tail Hfuel. unfold gen__extract_enclosing_text.
  rewrite heads_are, tails_are.
  match goal with |- context [py_while ?fu0 ?cond ?body ?s0] =>
    assert (Hw : forall f v h t pv ht tt, (List.length v < f)%nat ->
      py_while f cond body (vstr in_val, vstr h, vstr t, vstr v, pv, ht, tt)
      = (let '(h', v', t') := extract_enclosing_aux f v h t in Ret (VTuple [vstr h'; vstr v'; vstr t'])))
  end.
  { induction f as [|f IH]; intros v h t pv ht tt Hlen; [lia|].
    cbn [py_while truthy extract_enclosing_aux].
    destruct (strip_heads v h) as [v1 h1] eqn:E1. destruct (strip_tails v1 t) as [v2 t1] eqn:E2.
    rewrite strip_heads_fold in E1. rewrite strip_tails_fold in E2.
    cbn [PyLib.bind py_iter].
    (* the pass over the head texts *)
    match goal with |- context [py_for (map vstr ENCLOSING_HEAD) ?b ?s] =>
      destruct (py_for_rel (fun (a : str * str) st => exists x6, st = (vstr in_val, vstr (snd a), vstr t, vstr (fst a), vstr v, x6, tt)) hstep vstr b ENCLOSING_HEAD) with (a := (v, h)) (st := s)
        as (st1 & Est1 & (x6 & Hst1))
    end.
    - intros x [v0 h0] st _ (y6 & ->). cbn [fst snd hstep]. rewrite py_startswith_vstr. cbn [PyLib.bind truthy PyLib.bindS].
      destruct (starts_with x v0); cbn [PyLib.bind PyLib.bindS fst snd].
      + rewrite py_add_vstr. cbn [PyLib.bind]. rewrite py_len_vstr. cbn [PyLib.bind]. rewrite py_slice_from. cbn [PyLib.bind PyLib.bindS]. eexists. split; [reflexivity|]. eexists. reflexivity.
      + eexists. split; [reflexivity|]. eexists. reflexivity.
    - eexists. reflexivity.
    - unfold str in *. rewrite Est1. rewrite E1 in Hst1. cbn [fst snd] in Hst1. subst st1. cbn [PyLib.bindS PyLib.bind py_iter].
      (* the pass over the tail texts *)
      match goal with |- context [py_for (map vstr ENCLOSING_TAIL) ?b ?s] =>
        destruct (py_for_rel (fun (a : str * str) st => exists x7, st = (vstr in_val, vstr h1, vstr (snd a), vstr (fst a), vstr v, x6, x7)) tstep vstr b ENCLOSING_TAIL) with (a := (v1, t)) (st := s)
          as (st2 & Est2 & (x7 & Hst2))
      end.
      + intros x [v0 t0] st Hx (y7 & ->). cbn [fst snd tstep]. rewrite py_endswith_vstr. cbn [PyLib.bind truthy PyLib.bindS].
        destruct (ends_with x v0) eqn:Ee; cbn [PyLib.bind PyLib.bindS fst snd].
        * rewrite py_add_vstr. cbn [PyLib.bind]. rewrite py_len_vstr. cbn [PyLib.bind py_neg].
          pose proof (nonempty_of _ tails_nonempty x Hx) as Hne. pose proof (ends_with_length _ _ Ee) as Hle.
          rewrite py_slice_upto_neg by (destruct x; [contradiction|]; cbn [List.length] in *; lia).
          cbn [PyLib.bind PyLib.bindS]. eexists. split; [reflexivity|]. eexists. reflexivity.
        * eexists. split; [reflexivity|]. eexists. reflexivity.
      + eexists. reflexivity.
      + unfold str in *. rewrite Est2. rewrite E2 in Hst2. cbn [fst snd] in Hst2. subst st2. cbn [PyLib.bindS PyLib.bind py_eq].
        rewrite veq_vstr. destruct (str_eqb v2 v) eqn:Eq; cbn [truthy PyLib.bindS PyLib.bind].
        * reflexivity.
        * apply IH.
          assert (S1 : shrunk v v1).
          { pose proof (fold_shrunk hstep ENCLOSING_HEAD (fun a b c Hc => hstep_shrunk a b c (nonempty_of _ heads_nonempty c Hc)) v h) as Hs. unfold str in *. rewrite E1 in Hs. exact Hs. }
          assert (S2 : shrunk v1 v2).
          { pose proof (fold_shrunk tstep ENCLOSING_TAIL (fun a b c Hc => tstep_shrunk a b c (nonempty_of _ tails_nonempty c Hc)) v1 t) as Hs. unfold str in *. rewrite E2 in Hs. exact Hs. }
          destruct (shrunk_trans _ _ _ S1 S2) as [->|Hlt]; [rewrite str_eqb_refl in Eq; discriminate|lia]. }
  specialize (Hw fuel in_val head tail VNone VNone VNone Hfuel).
  cbn [PyLib.bindS PyLib.bind]. rewrite Hw.
  destruct (extract_enclosing_aux fuel in_val head tail) as [[h' v'] t']. reflexivity.
Qed.

Theorem gen_extract_enclosing_refines : forall (py_call : pyval -> pyval -> PyLib.res) (in_val head tail : str),
  gen__extract_enclosing_text py_call (S (List.length in_val)) (vstr in_val) (vstr head) (vstr tail)
  = (let '(h, v, t) := extract_enclosing in_val head tail in Normal (VTuple [vstr h; vstr v; vstr t])).
Proof. intros pc in_val head tail. apply gen_extract_enclosing_refines_any_fuel. lia. Qed.

(* the model's own fuel is irrelevant once it exceeds the length of the value (each round strictly shortens it or stops) *)
Lemma extract_enclosing_aux_fuel : forall f f' v h t, (List.length v < f)%nat -> (List.length v < f')%nat ->
  extract_enclosing_aux f v h t = extract_enclosing_aux f' v h t.
Proof.
  induction f as [|f IH]; intros f' v h t Hf Hf'; [lia|]. destruct f' as [|f']; [lia|]. cbn [extract_enclosing_aux].
  destruct (strip_heads v h) as [v1 h1] eqn:E1. destruct (strip_tails v1 t) as [v2 t1] eqn:E2.
  destruct (str_eqb v2 v) eqn:Eq; [reflexivity|].
  rewrite strip_heads_fold in E1. rewrite strip_tails_fold in E2.
  assert (S1 : shrunk v v1).
  { pose proof (fold_shrunk hstep ENCLOSING_HEAD (fun a b c Hc => hstep_shrunk a b c (nonempty_of _ heads_nonempty c Hc)) v h) as Hs. unfold str in *. rewrite E1 in Hs. exact Hs. }
  assert (S2 : shrunk v1 v2).
  { pose proof (fold_shrunk tstep ENCLOSING_TAIL (fun a b c Hc => tstep_shrunk a b c (nonempty_of _ tails_nonempty c Hc)) v1 t) as Hs. unfold str in *. rewrite E2 in Hs. exact Hs. }
  destruct (shrunk_trans _ _ _ S1 S2) as [->|Hlt]; [rewrite str_eqb_refl in Eq; discriminate|]. apply IH; lia.
Qed.
Theorem gen_extract_enclosing_refines_fuel : forall (py_call : pyval -> pyval -> PyLib.res) (fuel : nat) (in_val head tail : str),
  (List.length in_val < fuel)%nat ->
  gen__extract_enclosing_text py_call fuel (vstr in_val) (vstr head) (vstr tail)
  = (let '(h, v, t) := extract_enclosing in_val head tail in Normal (VTuple [vstr h; vstr v; vstr t])).
Proof.
  intros pc fuel in_val head tail Hf. rewrite gen_extract_enclosing_refines_any_fuel by exact Hf. unfold extract_enclosing.
  rewrite (extract_enclosing_aux_fuel fuel (S (List.length in_val))) by lia. reflexivity.
Qed.
Print Assumptions gen_extract_enclosing_refines.
