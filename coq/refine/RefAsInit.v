(* AsNumberAnonymizer.__init__ with _generate_as_number_regex and _generate_as_number_replacement_map as GENERATED from the source (gen/G_fn_sir3.v)
   against the model's as_init (model/TextModel.v): the pattern text handed to re.compile (a call of the py_call parameter) is the template around
   the numbers joined by "|", in the order given; the replacement map holds, for each listed numeral in list order, the replacement the (separately
   refined, RefAs) _generate_as_number_replacement computes, a repeated numeral keeping its first position; the object has exactly salt, pattern, map. *)
From Coq Require Import String.
From Coq Require Import List ZArith NArith Bool Arith Lia.
Import ListNotations.
Require Import PyLib Str Md5 AsModel TextModel G_fn_sir G_fn_sir3 RefJun RefBase RefAs.
Notation vstr := RefJun.vstr.

(* "|".join(numbers): a local copy of the helper (so that this file does not depend on the refinement of unrelated functions) *)
Lemma join_strs_vstr sep : forall l, join_strs (map Z.of_N sep) (map vstr l) = Some (map Z.of_N (join sep l)).
Proof.
  induction l as [|x [|y l] IH]; [reflexivity|reflexivity|].
  cbn [map join_strs join] in *. unfold RefJun.vstr in *. rewrite IH. now rewrite !map_app.
Qed.
Lemma py_join_vstr sep l : py_join (vstr sep) (VList (map vstr l)) = Normal (vstr (join sep l)).
Proof. unfold py_join, RefJun.vstr at 1. cbn [py_iter PyLib.bind]. now rewrite join_strs_vstr. Qed.

(* the unit holds its own copy of the translated _generate_as_number_replacement: the same function as the one RefAs speaks about *)
Lemma same_replacement : G_fn_sir3.gen_AsNumberAnonymizer___generate_as_number_replacement = G_fn_sir.gen_AsNumberAnonymizer___generate_as_number_replacement.
Proof. reflexivity. Qed.

(* the model's map builder, as a top-level function *)
Fixpoint as_build (salt : str) (l : list str) : outcome (list (str * str)) :=
  match l with
  | [] => Done []
  | n :: r => match as_replacement_text salt n with
              | Some (AsOk v) => match as_build salt r with Done t => Done ((n, show_dec (Z.to_N v)) :: t) | Raised e => Raised e end
              | Some AsValueError => Raised (lit "ValueError")
              | Some AsNone => Raised (lit "TypeError")
              | None => Raised (lit "UnicodeEncodeError")
              end
  end.
Lemma as_init_build nums salt : forallb all_digits nums = true ->
  as_init nums salt = match as_build salt nums with Done m => Done {| as_regex := as_rx nums; as_map := m |} | Raised e => Raised e end.
Proof.
  intro H. unfold as_init. rewrite H. cbn [negb].
  match goal with |- obind (?F nums) _ = _ => assert (EF : forall l, F l = as_build salt l) end.
  { induction l as [|n r IH]; cbn [as_build]; [reflexivity|]. destruct (as_replacement_text salt n) as [[v| |]|]; try reflexivity. rewrite IH. destruct (as_build salt r); reflexivity. }
  rewrite EF. destruct (as_build salt nums); reflexivity.
Qed.

Definition table_of (m : list (str * str)) : lookup_t := fold_left (fun l kv => lset l (fst kv) (snd kv)) m [].
Definition AS_TEMPLATE_HEAD : str := lit "(?:(?<=\D)|(?<=^))(".
Definition AS_TEMPLATE_TAIL : str := lit ")(?=\D|$)".
Definition as_pattern_text (nums : list str) : str := AS_TEMPLATE_HEAD ++ join [124%N] nums ++ AS_TEMPLATE_TAIL.

Section A.
Variable pc : pyval -> pyval -> PyLib.res.
Variable cls : list Z.
Variable salt : str.

(* the object while it is being built: salt first, then the pattern, then the map *)
Definition self1 (rxv : pyval) : pyval := VObj cls [(S_ "salt", vstr salt); (S_ "as_num_regex", rxv)].

(* one numeral *)
Lemma gen_one fuel (self : pyval) (n : str) : py_getattr self "salt" = Normal (vstr salt) ->
  match as_replacement_text salt n with
  | Some (AsOk v) => G_fn_sir3.gen_AsNumberAnonymizer___generate_as_number_replacement pc fuel self (vstr n) = Normal (VTuple [vstr (show_dec (Z.to_N v)); self])
  | Some AsValueError => exists m, G_fn_sir3.gen_AsNumberAnonymizer___generate_as_number_replacement pc fuel self (vstr n) = Exc (ValueError m)
  | Some AsNone => G_fn_sir3.gen_AsNumberAnonymizer___generate_as_number_replacement pc fuel self (vstr n) = Normal (VTuple [VNone; self])
  | None => True
  end.
Proof.
  intro Hs. rewrite same_replacement. unfold as_replacement_text.
  destruct (parse_dec n) as [x|] eqn:Ep; [|exact I]. destruct (hash_int salt n) as [h|] eqn:Eh; [|exact I].
  pose proof (gen_as_replacement_refines pc fuel self salt n x h Hs Ep Eh) as G. change (VStr (zs n)) with (vstr n) in G.
  destruct (as_repl h (Z.of_N x)) as [r| |] eqn:Er; try exact G.
  (* the replacement is a natural number: printed the same way by both sides *)
  assert (Hr : (0 <= r)%Z).
  { unfold as_repl in Er. destruct ((Z.of_N x <? 0)%Z || (4294967295 <? Z.of_N x)%Z) eqn:Eb; [discriminate|].
    apply orb_false_iff in Eb. destruct Eb as [_ Eb]. apply Z.ltb_ge in Eb.
    destruct (as_block_preserved h (Z.of_N x) (hash_int_nonneg _ _ _ Eh) ltac:(lia)) as (r' & E' & Rr & _).
    unfold as_repl in E'. rewrite orb_false_intro in E' by (apply Z.ltb_ge; lia). rewrite Er in E'. injection E' as <-. lia. }
  rewrite G. unfold RefJun.vstr at 1. rewrite <- nat_str_show, Z2N.id by exact Hr. reflexivity.
Qed.

Definition fill (lk : lookup_t) (m : list (str * str)) : lookup_t := fold_left (fun l kv => lset l (fst kv) (snd kv)) m lk.

(* the dict comprehension *)
Lemma map_loop fuel (self allv : pyval) : py_getattr self "salt" = Normal (vstr salt) ->
  forall (l : list str) (m : list (str * str)) (lk : lookup_t) (last : pyval), keys_unique lk -> as_build salt l = Done m ->
  exists last',
  py_for (map vstr l)
    (fun x_ '(v_self, v_as_numbers, v_as_num, v_acc_) => let v_as_num := x_ in
       PyLib.bind (G_fn_sir3.gen_AsNumberAnonymizer___generate_as_number_replacement pc fuel v_self v_as_num) (fun t2 =>
       PyLib.bind (unpack2 t2) (fun p_ => let '(t3, v_self) := p_ in
       PyLib.bind (py_setitem v_acc_ v_as_num t3) (fun t4 => let v_acc_ := t4 in Normal (v_self, v_as_numbers, v_as_num, v_acc_)))))
    (self, allv, last, vlook lk)
  = Normal (self, allv, last', vlook (fill lk m)) /\ keys_unique (fill lk m).
Proof.
  intro Hs. induction l as [|n r IH]; intros m lk last Hu E; cbn [as_build map py_for] in *.
  - injection E as <-. exists last. split; [reflexivity|exact Hu].
  - pose proof (gen_one fuel self n Hs) as G1.
    destruct (as_replacement_text salt n) as [[v| |]|]; try discriminate.
    destruct (as_build salt r) as [t|] eqn:Er; [|discriminate]. injection E as <-.
    rewrite G1. cbn [PyLib.bind unpack2]. rewrite (py_setitem_vlook lk n (show_dec (Z.to_N v)) Hu). cbn [PyLib.bind].
    destruct (IH t (lset lk n (show_dec (Z.to_N v))) (vstr n) (lset_keys_unique lk n _ Hu) eq_refl) as (last' & El & Hu').
    exists last'. split; [exact El|exact Hu'].
Qed.

(* the pattern text *)
Lemma pattern_text (nums : list str) :
  PyLib.bind (py_join (VStr [124%Z]) (VList (map vstr nums))) (fun t1 =>
    py_format (VStr [40;63;58;40;63;60;61;92;68;41;124;40;63;60;61;94;41;41;40;123;125;41;40;63;61;92;68;124;36;41]%Z) (VList [t1]) (VDict []))
  = Normal (vstr (as_pattern_text nums)).
Proof.
  change (VStr [124%Z]) with (vstr [124%N]). rewrite py_join_vstr. cbn [PyLib.bind].
  unfold py_format, RefJun.vstr. cbn [List.length py_format_go take_until Z.eqb Pos.eqb rev app fmt_field PyLib.bind].
  unfold as_pattern_text, AS_TEMPLATE_HEAD, AS_TEMPLATE_TAIL. rewrite !map_app. cbn [map lit app Z.of_N]. rewrite <- !app_assoc. reflexivity.
Qed.

(* __init__ *)
Theorem gen_as_init_refines fuel (nums : list str) (rxv : pyval) (m : list (str * str)) :
  pc (VFun (of_string "re.compile")) (VTuple [VList [vstr (as_pattern_text nums)]; VDict []]) = Normal rxv ->
  as_build salt nums = Done m ->
  G_fn_sir3.gen_AsNumberAnonymizer____init__ pc fuel (VObj cls []) (VList (map vstr nums)) (vstr salt)
  = Normal (VTuple [VNone; VObj cls [(S_ "salt", vstr salt); (S_ "as_num_regex", rxv); (S_ "as_num_map", vlook (fill [] m))]]).
Proof.
  intros Hrx E.
  unfold G_fn_sir3.gen_AsNumberAnonymizer____init__, G_fn_sir3.gen_AsNumberAnonymizer___generate_as_number_regex, G_fn_sir3.gen_AsNumberAnonymizer___generate_as_number_replacement_map.
  cbn [py_setattr dict_set PyLib.bind].
  pose proof (pattern_text nums) as P.
  destruct (py_join (VStr [124%Z]) (VList (map vstr nums))) as [t1| | | |] eqn:Ej; cbn [PyLib.bind] in P; try discriminate.
  cbn [PyLib.bind]. rewrite P. cbn [PyLib.bind]. rewrite Hrx. cbn [PyLib.bind].
  replace (veq (S_ "as_num_regex") (S_ "salt")) with false by reflexivity.
  cbn [call PyLib.bind unpack2 py_iter].
  destruct (map_loop fuel (self1 rxv) (VList (map vstr nums)) eq_refl nums m [] VNone (NoDup_nil _) E) as (last' & El & _).
  match type of El with _ = ?rhs => match goal with |- context [py_for ?l ?f ?st] => assert (El' : py_for l f st = rhs) by exact El; rewrite El' end end.
  reflexivity.
Qed.
End A.

(* ... stated on the model's constructor: for a list of distinct ASCII-digit numerals, whenever as_init builds an anonymizer the translated __init__ builds
   the object RefAsLine.enc_as encodes (the one the translated anonymize_as_numbers is refined on), its pattern being what re.compile answered for the
   pattern text; for a list with repetitions the map is the same association with each numeral at its first position (fill) *)
Lemma lget_app_none l k m : lget l k = None -> lget (l ++ m) k = lget m k.
Proof. induction l as [|[k' v'] l IH]; cbn [lget app]; [reflexivity|]. destruct (str_eqb k k'); [discriminate|exact IH]. Qed.
Lemma notin_lget_none l k : ~ In k (map fst l) -> lget l k = None.
Proof.
  induction l as [|[k' v'] l IH]; cbn [lget map fst In]; [reflexivity|]. intro H. destruct (str_eqb k k') eqn:E.
  - apply str_eqb_eq in E. subst. exfalso. apply H. now left.
  - apply IH. intro Hin. apply H. now right.
Qed.
Lemma fill_distinct m : forall lk, NoDup (map fst lk ++ map fst m) -> fill lk m = lk ++ m.
Proof.
  induction m as [|[k v] m IH]; intros lk H; cbn [fill fold_left fst snd]; [now rewrite app_nil_r|].
  fold (fill (lset lk k v) m). cbn [map fst] in H.
  assert (Hk : ~ In k (map fst lk)). { intro Hin. apply NoDup_remove_2 in H. apply H. apply in_or_app. now left. }
  unfold lset. rewrite (notin_lget_none lk k Hk). rewrite IH.
  - now rewrite <- app_assoc.
  - rewrite map_app. cbn [map fst]. rewrite <- app_assoc. exact H.
Qed.
Lemma as_build_keys salt : forall l m, as_build salt l = Done m -> map fst m = l.
Proof.
  induction l as [|n r IH]; intros m; cbn [as_build]; [intros [= <-]; reflexivity|].
  destruct (as_replacement_text salt n) as [[v| |]|]; try discriminate. destruct (as_build salt r) as [t|]; [|discriminate].
  intros [= <-]. cbn [map fst]. f_equal. now apply IH.
Qed.

Theorem gen_as_init_is_the_model (pc : pyval -> pyval -> PyLib.res) (cls : list Z) (salt : str) (fuel : nat) (nums : list str) (rxv : pyval) (a : as_anonymizer) :
  pc (VFun (of_string "re.compile")) (VTuple [VList [vstr (as_pattern_text nums)]; VDict []]) = Normal rxv ->
  NoDup nums -> as_init nums salt = Done a ->
  G_fn_sir3.gen_AsNumberAnonymizer____init__ pc fuel (VObj cls []) (VList (map vstr nums)) (vstr salt)
  = Normal (VTuple [VNone; VObj cls [(S_ "salt", vstr salt); (S_ "as_num_regex", rxv); (S_ "as_num_map", vlook (as_map a))]]) /\ as_regex a = as_rx nums.
Proof.
  intros Hrx Hnd E.
  destruct (forallb all_digits nums) eqn:Hd; [|unfold as_init in E; rewrite Hd in E; discriminate].
  rewrite (as_init_build nums salt Hd) in E. destruct (as_build salt nums) as [m|] eqn:Eb; [|discriminate]. injection E as <-. cbn [as_map as_regex].
  split; [|reflexivity].
  rewrite (gen_as_init_refines pc cls salt fuel nums rxv m Hrx Eb). rewrite (fill_distinct m []); [reflexivity|].
  cbn [map app]. now rewrite (as_build_keys salt nums m Eb).
Qed.
