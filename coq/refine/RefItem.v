(* sensitive_item_removal.replace_matching_item and _split_line as GENERATED from the source (gen/G_fn_sir2.v) against the model (model/TextModel.v):
   for every line, table and salt, whenever the model's replace_matching_item returns (out, table'), the translated function -- the split into
   leading white space / words / trailing white space, the enclosing text, the outer loop over pattern groups with its break, the inner loop
   over (pattern, group number) pairs with its continue / break / match_found flag, the "prefix" group, the call of the translated
   _anonymize_value, the two kinds of substitution -- returns exactly those.
   Compiled patterns and match objects are opaque to the translated code; their methods (search, groupdict, group, sub) are calls of the py_call
   parameter.  Here that parameter is a concrete dispatcher (sir_call) written over the regex engine and the model's passlib oracle: a
   compiled pattern is its index in a table of model items, a match object the pair (pattern, text).  The fuel premise (rmi_need) is an
   artefact of translating while loops: the largest bound any call on this run needs. *)
From Coq Require Import String.
From Coq Require Import List ZArith NArith Bool Arith Lia.
Import ListNotations.
Require Import PyLib PyLib2 PyRe Str IpText Rx RxFacts RxSub G_rx G_text_consts G_juniper JunModel JunProofs TextModel TextProofs2 TotalProofs G_fn_jun G_fn_sir G_fn_sir2 RefJun RefJunEnc RefJunDec RefEncl RefValue.
Require Export RefSplit.
Notation vstr := RefJun.vstr.

(* ---- "for every sufficiently large fuel" forms (fuel is an artefact of the translation of while loops) ---- *)
Theorem gen_anonymize_value_eventually pc orc : passlib_answers_as_the_model pc orc ->
  forall raw lookup reserved salt out lookup', table_bytes lookup -> keys_unique lookup ->
  anonymize_value orc raw lookup reserved salt = Done (out, lookup') ->
  exists F, forall fuel, (F <= fuel)%nat ->
    gen__anonymize_value pc fuel (vstr raw) (vlook lookup) (vres reserved) (vstr salt) = Normal (VTuple [vstr out; vlook lookup']).
Proof.
  intros Hp raw lookup reserved salt out lookup' Hb Hu E.
  exists (S (length raw + match JunModel.encrypt (anon0_of lookup) salt with JOk c => length c | _ => 0 end)). intros fuel Hf.
  apply (gen_anonymize_value_is_the_model pc orc Hp fuel raw lookup reserved salt out lookup'); try assumption; [lia|].
  intros c Ec. rewrite Ec in Hf. lia.
Qed.

(* ---- the dispatcher: passlib (as the model's oracle) and the methods of compiled patterns / match objects (through the regex engine) ----
   a compiled pattern is represented by its index in a table of model items; a match object by (pattern, text): its groups are recomputed *)
Definition item : Type := (re * option nat * option nat)%type.
Definition to_str (z : list Z) : str := map Z.to_N z.
Definition name_is (n : list Z) (s : string) : bool := if list_eq_dec Z.eq_dec n (of_string s) then true else false.
Section D.
Variable orc : oracle.
Variable tbl : list item.
Definition re_of (v : pyval) : option item := match v with VInt k => if (k <? 0)%Z then None else nth_error tbl (Z.to_nat k) | _ => None end.
Definition group_of (ro : pyval) (l : list Z) (key : pyval) : PyLib.res :=
  match re_of ro with
  | Some (rx, _, pidx) =>
      match (match key with VInt n => if (n <? 0)%Z then None else Some (Z.to_nat n) | VStr _ => pidx | _ => None end), search (to_str l) rx with
      | Some n, Some (a, b, c) => match group (to_str l) a b c n with Some t => Normal (vstr t) | None => Normal VNone end
      | _, _ => Exc IndexError
      end
  | None => Exc TypeError
  end.
Definition sub_of (ro : pyval) (rep l : list Z) : PyLib.res :=
  match re_of ro with
  | Some (rx, _, _) => match sub_fn (to_str l) rx (fun (st : unit) _ _ _ => (st, to_str rep)) tt with Some (_, o) => Normal (vstr o) | None => Exc Unsupported end
  | None => Exc TypeError
  end.
Definition sir_call (f a : pyval) : PyLib.res :=
  match f with
  | VFun n =>
      if name_is n "search" then
        match a with VList [ro; VStr l] => match re_of ro with Some (rx, _, _) => match search (to_str l) rx with Some _ => Normal (VTuple [ro; VStr l]) | None => Normal VNone end | None => Exc TypeError end
                   | _ => Exc TypeError end
      else if name_is n "groupdict" then
        match a with VList [VTuple [ro; VStr l]] => match re_of ro with Some (_, _, pidx) => Normal (VDict (match pidx with Some _ => [(S_ "prefix", VNone)] | None => [] end)) | None => Exc TypeError end
                   | _ => Exc TypeError end
      else if name_is n "group" then
        match a with VList [VTuple [ro; VStr l]; key] => group_of ro l key | _ => Exc TypeError end
      else if name_is n "sub" || name_is n "sub_const" then
        match a with VList [ro; VStr rep; VStr l] => sub_of ro rep l | _ => Exc TypeError end
      else if name_is n "cisco_type7.using.hash" then
        match a with VTuple [VList [VStr x]; VDict [(_, VInt 9)]] => Normal (vstr (type7_hash 9 (to_str x))) | _ => Exc TypeError end
      else if name_is n "md5_crypt.using.hash" then
        match a with VTuple [VList [VStr x]; VDict [(_, VStr z)]] =>
            match olookup orc (lit "m" ++ show_dec (N.of_nat (length z)) ++ [58%N] ++ to_str x) with Some h => Normal (vstr h) | None => Exc (ValueError []) end
        | _ => Exc TypeError end
      else if name_is n "sha512_crypt.using.hash" then
        match a with VTuple [VList [VStr x]; VDict [_; _]] =>
            match olookup orc (lit "s:" ++ to_str x) with Some h => Normal (vstr h) | None => Exc (ValueError []) end
        | _ => Exc TypeError end
      else Exc TypeError
  | _ => Exc TypeError
  end.

Lemma to_str_vstr s : to_str (map Z.of_N s) = s. Proof. apply to_of_N. Qed.
Lemma sir_passlib : passlib_answers_as_the_model sir_call orc.
Proof.
  split; [|split].
  - intro x. unfold RefJun.vstr at 1. cbn. now rewrite to_str_vstr.
  - intros x n. unfold RefJun.vstr at 1 2. cbn. now rewrite to_str_vstr, map_length, repeat_length.
  - intro x. unfold RefJun.vstr at 1 2. cbn. now rewrite to_str_vstr.
Qed.
Lemma call_search ro l : sir_call (VFun (of_string "search")) (VList [ro; vstr l]) =
  match re_of ro with Some (rx, _, _) => match search l rx with Some _ => Normal (VTuple [ro; vstr l]) | None => Normal VNone end | None => Exc TypeError end.
Proof. unfold RefJun.vstr. cbn. rewrite to_str_vstr. reflexivity. Qed.
Lemma call_groupdict ro l : sir_call (VFun (of_string "groupdict")) (VList [VTuple [ro; vstr l]]) =
  match re_of ro with Some (_, _, pidx) => Normal (VDict (match pidx with Some _ => [(S_ "prefix", VNone)] | None => [] end)) | None => Exc TypeError end.
Proof. reflexivity. Qed.
Lemma call_group ro l key : sir_call (VFun (of_string "group")) (VList [VTuple [ro; vstr l]; key]) = group_of ro (map Z.of_N l) key.
Proof. reflexivity. Qed.
Lemma call_sub ro rep l : sir_call (VFun (of_string "sub")) (VList [ro; vstr rep; vstr l]) = sub_of ro (map Z.of_N rep) (map Z.of_N l).
Proof. reflexivity. Qed.
Lemma call_sub_const ro rep l : sir_call (VFun (of_string "sub_const")) (VList [ro; vstr rep; vstr l]) = sub_of ro (map Z.of_N rep) (map Z.of_N l).
Proof. reflexivity. Qed.
End D.

(* a dispatcher that answers these names as sir_call does (it may serve other names too: the stages of anonymize_io in RefIo.v) *)
Definition sir_names : list string := ["search"; "groupdict"; "group"; "sub"; "sub_const"; "cisco_type7.using.hash"; "md5_crypt.using.hash"; "sha512_crypt.using.hash"]%string.
(* ... on the arguments replace_matching_item passes to search and group: a pattern is VInt k, a match object (VInt k, text) *)
Definition sir_shape (s : string) (a : pyval) : Prop :=
  if String.eqb s "search" then exists z l, a = VList [VInt z; VStr l]
  else if String.eqb s "group" then exists z l key, a = VList [VTuple [VInt z; VStr l]; key]
  else True.
Definition agrees_with_sir_call (pc : pyval -> pyval -> PyLib.res) (orc : oracle) (tbl : list item) : Prop :=
  forall s a, In s sir_names -> sir_shape s a -> pc (VFun (of_string s)) a = sir_call orc tbl (VFun (of_string s)) a.
Lemma sir_call_agrees orc tbl : agrees_with_sir_call (sir_call orc tbl) orc tbl. Proof. intros s a _ _. reflexivity. Qed.
Lemma agrees_passlib pc orc tbl : agrees_with_sir_call pc orc tbl -> passlib_answers_as_the_model pc orc.
Proof.
  intro H. destruct (sir_passlib orc tbl) as (A & B & C). split; [|split]; intros.
  - rewrite H by (cbn; tauto). apply A.
  - rewrite H by (cbn; tauto). apply B.
  - rewrite H by (cbn; tauto). apply C.
Qed.

(* ---- replace_matching_item ---- *)
Definition vnum (o : option nat) : pyval := match o with Some n => VInt (Z.of_nat n) | None => VNone end.
Definition enc_item (ki : nat * item) : pyval := VTuple [VInt (Z.of_nat (fst ki)); vnum (snd (fst (snd ki)))].
Definition enc_group (g : list (nat * item)) : pyval := VList (map enc_item g).
Definition consistent (tbl : list item) (g : list (nat * item)) : Prop := Forall (fun ki => nth_error tbl (fst ki) = Some (snd ki)) g.
Definition T16 : Type := (pyval * pyval * pyval * pyval * pyval * pyval * pyval * pyval * pyval * pyval * pyval * pyval * pyval * pyval * pyval * pyval)%type.

(* replace_matching_item of the model, over any list of groups (the model instantiates it with the generated PWD_REGEXES) *)
Definition rmi_model (orc : oracle) (reserved : list str) (salt : str) (groups : list (list item)) (input_line : str) (lookup : lookup_t) : outcome (str * lookup_t) :=
  let '(leading, words, trailing) := split_line input_line in
  let '(leading', output_line, trailing') := extract_enclosing (join [32%N] words) leading trailing in
  obind (apply_groups orc reserved salt groups output_line lookup) (fun x => let '(l, lk) := x in Done (leading' ++ l ++ trailing', lk)).
Lemma rmi_model_is orc reserved salt line lookup : replace_matching_item orc reserved salt line lookup = rmi_model orc reserved salt PWD_REGEXES line lookup.
Proof. reflexivity. Qed.

(* the fuel the translated while loops need along this run (an artefact of the translation: Python has no fuel) *)
Definition value_need (raw : str) (lookup : lookup_t) (salt : str) : nat :=
  S (length raw + match JunModel.encrypt (anon0_of lookup) salt with JOk c => length c | _ => 0 end).
Definition item_need (salt : str) (it : item) (line : str) (lookup : lookup_t) : nat :=
  let '(rx, num, _) := it in
  match search line rx, num with
  | Some (a, b, c), Some n => match group line a b c n with Some secret => value_need secret lookup salt | None => 0 end
  | _, _ => 0 end.
Fixpoint group_need (orc : oracle) (reserved : list str) (salt : str) (grp : list item) (line : str) (lookup : lookup_t) : nat :=
  match grp with
  | [] => 0
  | it :: rest => Nat.max (item_need salt it line lookup)
      (match apply_item orc reserved salt it line lookup with
       | None => group_need orc reserved salt rest line lookup
       | Some (Done (l, lk, stop)) => if stop then 0 else group_need orc reserved salt rest l lk
       | Some (Raised _) => 0 end)
  end.
Fixpoint groups_need (orc : oracle) (reserved : list str) (salt : str) (groups : list (list item)) (line : str) (lookup : lookup_t) : nat :=
  match groups with
  | [] => 0
  | g :: rest => Nat.max (group_need orc reserved salt g line lookup)
      (match apply_group orc reserved salt g line lookup false with
       | Done (l, lk, found) => if found then 0 else groups_need orc reserved salt rest l lk
       | Raised _ => 0 end)
  end.
Definition rmi_need (orc : oracle) (reserved : list str) (salt : str) (groups : list (list item)) (input_line : str) (lookup : lookup_t) : nat :=
  let '(leading, words, trailing) := split_line input_line in
  let '(_, output_line, _) := extract_enclosing (join [32%N] words) leading trailing in
  Nat.max (S (length (join [32%N] words))) (groups_need orc reserved salt groups output_line lookup).

Lemma re_of_nat tbl k : re_of tbl (VInt (Z.of_nat k)) = nth_error tbl k.
Proof. unfold re_of. replace (Z.of_nat k <? 0)%Z with false by (symmetry; apply Z.ltb_ge; lia). now rewrite Nat2Z.id. Qed.
Lemma encl_vstr3 pc fuel v h t : (length v < fuel)%nat ->
  gen__extract_enclosing_text pc fuel (vstr v) (vstr h) (vstr t) = (let '(h', v', t') := extract_enclosing v h t in Normal (VTuple [vstr h'; vstr v'; vstr t'])).
Proof. exact (gen_extract_enclosing_refines_fuel pc fuel v h t). Qed.

Lemma bind_assoc {A B C} (m : ctl A) (f : A -> ctl B) (g : B -> ctl C) : PyLib.bind (PyLib.bind m f) g = PyLib.bind m (fun x => PyLib.bind (f x) g).
Proof. destruct m; reflexivity. Qed.
Lemma scrub_msg_is : g__LINE_SCRUBBED_MESSAGE = vstr LINE_SCRUBBED_MESSAGE. Proof. reflexivity. Qed.
Lemma value_need_ok pc orc fuel secret lk reserved salt anon lk' : passlib_answers_as_the_model pc orc ->
  table_bytes lk -> keys_unique lk -> (value_need secret lk salt <= fuel)%nat -> anonymize_value orc secret lk reserved salt = Done (anon, lk') ->
  gen__anonymize_value pc fuel (vstr secret) (vlook lk) (vres reserved) (vstr salt) = Normal (VTuple [vstr anon; vlook lk']).
Proof.
  intros Hp Hb Hu Hn E. unfold value_need in Hn.
  apply (gen_anonymize_value_is_the_model pc orc Hp fuel secret lk reserved salt anon lk'); try assumption; [lia|].
  intros c Ec. rewrite Ec in Hn. lia.
Qed.

Theorem gen_rmi_refines pc orc tbl (groups : list (list (nat * item))) reserved salt line lookup out lookup' fuel :
  agrees_with_sir_call pc orc tbl ->
  Forall (consistent tbl) groups -> table_bytes orc -> table_bytes lookup -> keys_unique lookup ->
  (rmi_need orc reserved salt (map (map snd) groups) line lookup <= fuel)%nat ->
  rmi_model orc reserved salt (map (map snd) groups) line lookup = Done (out, lookup') ->
  gen_replace_matching_item pc fuel (VList (map enc_group groups)) (vstr line) (vlook lookup) (vstr salt) (vres reserved)
  = Normal (VTuple [vstr out; vlook lookup']).
Proof.
  intros Hag Hcons Horc Hbytes Huniq.
  assert (pcall_search : forall z l, pc (VFun (of_string "search")) (VList [VInt z; vstr l]) =
            match re_of tbl (VInt z) with Some (rx, _, _) => match search l rx with Some _ => Normal (VTuple [VInt z; vstr l]) | None => Normal VNone end | None => Exc TypeError end)
    by (intros; rewrite Hag; [apply call_search|cbn; tauto|unfold RefJun.vstr; cbn; eauto]).
  assert (pcall_groupdict : forall z l, pc (VFun (of_string "groupdict")) (VList [VTuple [VInt z; vstr l]]) =
            match re_of tbl (VInt z) with Some (_, _, pidx) => Normal (VDict (match pidx with Some _ => [(S_ "prefix", VNone)] | None => [] end)) | None => Exc TypeError end)
    by (intros; rewrite Hag by (cbn; tauto); apply call_groupdict).
  assert (pcall_group : forall z l key, pc (VFun (of_string "group")) (VList [VTuple [VInt z; vstr l]; key]) = group_of tbl (VInt z) (map Z.of_N l) key)
    by (intros; rewrite Hag; [apply call_group|cbn; tauto|unfold RefJun.vstr; cbn; eauto]).
  assert (pcall_sub : forall z rep l, pc (VFun (of_string "sub")) (VList [VInt z; vstr rep; vstr l]) = sub_of tbl (VInt z) (map Z.of_N rep) (map Z.of_N l))
    by (intros; rewrite Hag by (cbn; tauto); apply call_sub).
  assert (pcall_sub_const : forall z rep l, pc (VFun (of_string "sub_const")) (VList [VInt z; vstr rep; vstr l]) = sub_of tbl (VInt z) (map Z.of_N rep) (map Z.of_N l))
    by (intros; rewrite Hag by (cbn; tauto); apply call_sub_const).
  pose proof (agrees_passlib pc orc tbl Hag) as Hpl. unfold rmi_need, rmi_model, gen_replace_matching_item.
  rewrite gen_split_line_refines. destruct (split_line line) as [[leading words] trailing].
  cbn [PyLib.bind unpack3]. change (VStr [32%Z]) with (vstr [32%N]). rewrite py_join_vstr. cbn [PyLib.bind].
  destruct (extract_enclosing (join [32%N] words) leading trailing) as [[leading' oline] trailing'] eqn:Eenc.
  intro Hfuel. rewrite encl_vstr3 by lia. rewrite Eenc. cbn [PyLib.bind unpack3 py_iter].
  match goal with |- _ -> call (PyLib.bind (PyLib.bindS (py_for _ ?ob _) ?K) ?K2) = _ => set (OB := ob); set (KK := K); set (KK2 := K2) end.
  match (eval unfold OB in OB) with context [py_for _ ?ib _] => set (IB := ib) in * end.
  pose (S1 := fun (a6 : pyval) (ln : str) (lk : lookup_t) (j11 j12 j13 j14 j15 j16 : pyval) =>
          (VList (map enc_group groups), vstr line, vlook lk, vstr salt, vres reserved, a6, vstr leading', VList (map vstr words), vstr trailing', vstr ln, j11, j12, j13, j14, j15, j16)).
  pose (S0 := fun (a6 : pyval) (ln : str) (lk : lookup_t) (fd : bool) (j12 j13 j14 j15 j16 : pyval) => S1 a6 ln lk (VBool fd) j12 j13 j14 j15 j16).
  (* one (pattern, group number) pair *)
  assert (Hitem : forall k it ln lk fd a6 j12 j13 j14 j15 j16, nth_error tbl k = Some it -> table_bytes lk -> keys_unique lk -> (item_need salt it ln lk <= fuel)%nat ->
    match apply_item orc reserved salt it ln lk with
    | None => exists b12 b13 b14 b15 b16, IB (enc_item (k, it)) (S0 a6 ln lk fd j12 j13 j14 j15 j16) = Cont (S0 a6 ln lk fd b12 b13 b14 b15 b16)
    | Some (Done (l, lk', stop)) =>
        (exists b12 b13 b14 b15 b16, IB (enc_item (k, it)) (S0 a6 ln lk fd j12 j13 j14 j15 j16)
           = if stop then Brk (S0 a6 l lk' true b12 b13 b14 b15 b16) else Normal (S0 a6 l lk' true b12 b13 b14 b15 b16))
        /\ table_bytes lk' /\ keys_unique lk'
    | Some (Raised _) => True
    end).
  { intros k [[rx num] pidx] ln lk fd a6 j12 j13 j14 j15 j16 Hnth Hb Hu Hneed. unfold apply_item, item_need in *. subst IB S0 S1. cbv beta iota.
    cbn [enc_item fst snd unpack2 PyLib.bind]. rewrite pcall_search, re_of_nat, Hnth.
    destruct (search ln rx) as [[[a b] c]|] eqn:Es.
    2:{ cbn [PyLib.bind is_none truthy PyLib.bindS]. do 5 eexists. reflexivity. }
    cbn [PyLib.bind is_none truthy PyLib.bindS].
    destruct num as [n|]; cbn [vnum is_none truthy PyLib.bindS PyLib.bind].
    2:{ rewrite scrub_msg_is, pcall_sub. unfold sub_of. rewrite re_of_nat, Hnth, !to_str_vstr.
        pose (cbm := fun (st : unit) (_ _ : nat) (_ : caps) => (st, LINE_SCRUBBED_MESSAGE : list chr)).
        repeat match goal with |- context [sub_fn ln rx ?cb tt] => lazymatch cb with cbm => fail | _ => change cb with cbm end end.
        destruct (sub_fn ln rx cbm tt) as [[u l]|]; [|exact I].
        cbn [PyLib.bind PyLib.bindS]. split; [do 5 eexists; reflexivity|split; assumption]. }
    rewrite pcall_groupdict, re_of_nat, Hnth. cbn [PyLib.bind].
    (* the text before the secret ("prefix" group, when the pattern has one) *)
    assert (Epre : exists vp, PyLib.bind (py_in (VStr [112;114;101;102;105;120]%Z) (VDict match pidx with Some _ => [(S_ "prefix", VNone)] | None => [] end))
               (fun t13 => if truthy t13 then PyLib.bind (pc (VFun (of_string "group")) (VList [VTuple [VInt (Z.of_nat k); vstr ln]; VStr [112;114;101;102;105;120]%Z])) (fun t14 => Normal t14) else Normal (VStr [])) = Normal vp
             /\ match (match pidx with Some p => match group ln a b c p with Some t => Some t | None => None end | None => Some [] end) with Some pre => vp = vstr pre | None => vp = VNone end).
    { destruct pidx as [p|].
      - replace (py_in (VStr [112;114;101;102;105;120]%Z) (VDict [(S_ "prefix", VNone)])) with (@Normal pyval (VBool true)) by reflexivity.
        cbn [PyLib.bind truthy]. rewrite pcall_group. unfold group_of. rewrite re_of_nat, Hnth, to_str_vstr, Es.
        destruct (group ln a b c p); cbn [PyLib.bind]; eexists; split; reflexivity.
      - cbn. eexists. split; reflexivity. }
    destruct Epre as (vp & Evp & Hvp).
    match goal with |- match ?M with _ => _ end => destruct (match pidx with Some p => match group ln a b c p with Some t => Some t | None => None end | None => Some [] end) as [pre|] eqn:Epr end; [|exact I].
    subst vp.
    destruct (group ln a b c n) as [secret|] eqn:Egn; [|exact I].
    destruct (anonymize_value orc secret lk reserved salt) as [[anon lk']|] eqn:Eav; cbn [obind]; [|exact I].
    pose (cbm := fun (st : unit) (_ _ : nat) (_ : caps) => (st, (pre ++ anon)%list : list chr)).
    repeat match goal with |- context [sub_fn ln rx ?cb tt] => lazymatch cb with cbm => fail | _ => change cb with cbm end end.
    destruct (sub_fn ln rx cbm tt) as [[u l]|] eqn:Esub; [|exact I].
    destruct (table_invariants_preserved orc secret lk reserved salt anon lk' Horc Hb Hu Eav) as [Hb' Hu'].
    split; [|split; assumption].
    do 5 eexists.
    match goal with |- PyLib.bind ?m (fun t13 => PyLib.bind (@?f t13) ?g) = _ => rewrite <- (bind_assoc m f g) end.
    rewrite Evp. cbn [PyLib.bind]. rewrite pcall_group. unfold group_of. rewrite re_of_nat, Hnth, to_str_vstr, Es.
    replace (Z.of_nat n <? 0)%Z with false by (symmetry; apply Z.ltb_ge; lia). rewrite Nat2Z.id, Egn. cbn [PyLib.bind].

    rewrite (value_need_ok pc orc fuel secret lk reserved salt anon lk' Hpl Hb Hu Hneed Eav). cbn [PyLib.bind unpack2].
    rewrite RefStr.py_add_vstr. cbn [PyLib.bind]. rewrite pcall_sub_const. unfold sub_of. rewrite re_of_nat, Hnth, !to_str_vstr.
    repeat match goal with |- context [sub_fn ln rx ?cb tt] => lazymatch cb with cbm => fail | _ => change cb with cbm end end.
    rewrite Esub. cbn [PyLib.bind]. reflexivity. }
  (* the inner loop over one group *)
  assert (Hgroup : forall grp ln lk fd a6 j12 j13 j14 j15 j16, consistent tbl grp -> table_bytes lk -> keys_unique lk ->
    (group_need orc reserved salt (map snd grp) ln lk <= fuel)%nat ->
    match apply_group orc reserved salt (map snd grp) ln lk fd with
    | Done (l, lk', fd') => (exists b12 b13 b14 b15 b16, py_for (map enc_item grp) IB (S0 a6 ln lk fd j12 j13 j14 j15 j16) = Normal (S0 a6 l lk' fd' b12 b13 b14 b15 b16))
                            /\ table_bytes lk' /\ keys_unique lk'
    | Raised _ => True
    end).
  { induction grp as [|[k it] grp IH]; intros ln lk fd a6 j12 j13 j14 j15 j16 Hc Hb Hu Hneed; cbn [map snd apply_group py_for group_need] in *.
    - split; [do 5 eexists; reflexivity|split; assumption].
    - inversion Hc as [|? ? Hk Hc']; subst. cbn [fst snd] in Hk.
      pose proof (Hitem k it ln lk fd a6 j12 j13 j14 j15 j16 Hk Hb Hu ltac:(lia)) as Hi.
      destruct (apply_item orc reserved salt it ln lk) as [[[[l lk1] stop]|w]|] eqn:Eai; cbn [obind].
      + destruct Hi as ((b12 & b13 & b14 & b15 & b16 & Eib) & Hb1 & Hu1). rewrite Eib. destruct stop.
        * split; [do 5 eexists; reflexivity|split; assumption].
        * apply IH; try assumption. lia.
      + exact I.
      + destruct Hi as (b12 & b13 & b14 & b15 & b16 & Eib). rewrite Eib. apply IH; try assumption. lia. }
  (* one group of the outer loop: reset the flag, run the inner loop, stop when something matched *)
  assert (Hog : forall g ln lk a6 j11 j12 j13 j14 j15 j16, consistent tbl g -> table_bytes lk -> keys_unique lk ->
    (group_need orc reserved salt (map snd g) ln lk <= fuel)%nat ->
    match apply_group orc reserved salt (map snd g) ln lk false with
    | Done (l, lk', fd') => (exists b12 b13 b14 b15 b16, OB (enc_group g) (S1 a6 ln lk j11 j12 j13 j14 j15 j16)
                               = if fd' then Brk (S1 (enc_group g) l lk' (VBool fd') b12 b13 b14 b15 b16) else Normal (S1 (enc_group g) l lk' (VBool fd') b12 b13 b14 b15 b16))
                            /\ table_bytes lk' /\ keys_unique lk'
    | Raised _ => True
    end).
  { intros g ln lk a6 j11 j12 j13 j14 j15 j16 Hc Hb Hu Hneed.
    pose proof (Hgroup g ln lk false (enc_group g) j12 j13 j14 j15 j16 Hc Hb Hu Hneed) as Hg.
    destruct (apply_group orc reserved salt (map snd g) ln lk false) as [[[l lk1] fd']|w]; [|exact I].
    destruct Hg as ((b12 & b13 & b14 & b15 & b16 & Eg) & Hb1 & Hu1). split; [|split; assumption].
    exists b12, b13, b14, b15, b16. unfold OB, S1. cbv beta iota. cbn [enc_group py_iter PyLib.bind].
    unfold S0, S1 in Eg. rewrite Eg. cbn [PyLib.bindS truthy]. destruct fd'; reflexivity. }
  (* the outer loop *)
  assert (Hgroups : forall gs ln lk a6 j11 j12 j13 j14 j15 j16, Forall (consistent tbl) gs -> table_bytes lk -> keys_unique lk ->
    (groups_need orc reserved salt (map (map snd) gs) ln lk <= fuel)%nat ->
    match apply_groups orc reserved salt (map (map snd) gs) ln lk with
    | Done (l, lk') => exists a6' b11 b12 b13 b14 b15 b16, py_for (map enc_group gs) OB (S1 a6 ln lk j11 j12 j13 j14 j15 j16) = Normal (S1 a6' l lk' b11 b12 b13 b14 b15 b16)
    | Raised _ => True
    end).
  { induction gs as [|g gs IH]; intros ln lk a6 j11 j12 j13 j14 j15 j16 Hc Hb Hu Hneed; cbn [map apply_groups py_for groups_need] in *.
    - do 7 eexists. reflexivity.
    - inversion Hc as [|? ? Hg Hc']; subst.
      pose proof (Hog g ln lk a6 j11 j12 j13 j14 j15 j16 Hg Hb Hu ltac:(lia)) as Ho.
      destruct (apply_group orc reserved salt (map snd g) ln lk false) as [[[l lk1] fd']|w] eqn:Eag; cbn [obind]; [|exact I].
      destruct Ho as ((b12 & b13 & b14 & b15 & b16 & Eo) & Hb1 & Hu1). rewrite Eo. destruct fd'.
      + do 7 eexists. reflexivity.
      + apply IH; try assumption. lia. }
  pose proof (Hgroups groups oline lookup VNone VNone VNone VNone VNone VNone VNone Hcons Hbytes Huniq ltac:(lia)) as Hall.
  destruct (apply_groups orc reserved salt (map (map snd) groups) oline lookup) as [[l lk]|w]; cbn [obind]; [|discriminate].
  destruct Hall as (a6' & b11 & b12 & b13 & b14 & b15 & b16 & Eall). intros [= <- <-].
  unfold S1 in Eall. rewrite Eall. unfold KK, KK2. cbn [PyLib.bindS PyLib.bind]. rewrite RefStr.py_add_vstr. cbn [PyLib.bind]. rewrite RefStr.py_add_vstr. cbn [PyLib.bind call].
  now rewrite <- app_assoc.
Qed.

(* the generated table of patterns: every (pattern, group number) pair labelled with its position in the flattened table *)
Fixpoint index_groups (k : nat) (gs : list (list item)) : list (list (nat * item)) :=
  match gs with [] => [] | g :: r => combine (seq k (length g)) g :: index_groups (k + length g) r end.
Lemma map_snd_combine_seq {A} k (g : list A) : map snd (combine (seq k (length g)) g) = g.
Proof. revert k; induction g as [|x g IH]; intro k; cbn [length seq combine map snd]; [reflexivity|]. now rewrite IH. Qed.
Lemma index_groups_snd : forall gs k, map (map snd) (index_groups k gs) = gs.
Proof. induction gs as [|g gs IH]; intro k; cbn [index_groups map]; [reflexivity|]. now rewrite map_snd_combine_seq, IH. Qed.
Lemma consistent_seq pre (g : list item) post : consistent (pre ++ g ++ post) (combine (seq (length pre) (length g)) g).
Proof.
  revert pre; induction g as [|x g IH]; intro pre; cbn [length seq combine]; [constructor|]. constructor.
  - cbn [fst snd]. rewrite nth_error_app2 by lia. now rewrite Nat.sub_diag.
  - specialize (IH (pre ++ [x])). rewrite app_length in IH. cbn [length] in IH. rewrite Nat.add_1_r in IH. rewrite <- app_assoc in IH. exact IH.
Qed.
Lemma index_groups_consistent : forall gs pre, Forall (consistent (pre ++ concat gs)) (index_groups (length pre) gs).
Proof.
  induction gs as [|g gs IH]; intro pre; cbn [index_groups concat]; [constructor|]. constructor; [apply consistent_seq|].
  specialize (IH (pre ++ g)). rewrite app_length, <- app_assoc in IH. exact IH.
Qed.

Theorem gen_replace_matching_item_is_the_model orc reserved salt line lookup out lookup' fuel :
  table_bytes orc -> table_bytes lookup -> keys_unique lookup ->
  (rmi_need orc reserved salt PWD_REGEXES line lookup <= fuel)%nat ->
  replace_matching_item orc reserved salt line lookup = Done (out, lookup') ->
  gen_replace_matching_item (sir_call orc (concat PWD_REGEXES)) fuel (VList (map enc_group (index_groups 0 PWD_REGEXES))) (vstr line) (vlook lookup) (vstr salt) (vres reserved)
  = Normal (VTuple [vstr out; vlook lookup']).
Proof.
  intros Ho Hb Hu Hn E. rewrite rmi_model_is in E.
  apply (gen_rmi_refines (sir_call orc (concat PWD_REGEXES)) orc (concat PWD_REGEXES) (index_groups 0 PWD_REGEXES) reserved salt line lookup out lookup' fuel (sir_call_agrees _ _)); try assumption.
  all: try (now rewrite index_groups_snd).
  exact (index_groups_consistent PWD_REGEXES []).
Qed.

Theorem gen_replace_matching_item_is_the_model_for pc orc reserved salt line lookup out lookup' fuel :
  agrees_with_sir_call pc orc (concat PWD_REGEXES) ->
  table_bytes orc -> table_bytes lookup -> keys_unique lookup ->
  (rmi_need orc reserved salt PWD_REGEXES line lookup <= fuel)%nat ->
  replace_matching_item orc reserved salt line lookup = Done (out, lookup') ->
  gen_replace_matching_item pc fuel (VList (map enc_group (index_groups 0 PWD_REGEXES))) (vstr line) (vlook lookup) (vstr salt) (vres reserved)
  = Normal (VTuple [vstr out; vlook lookup']).
Proof.
  intros Hag Ho Hb Hu Hn E. rewrite rmi_model_is in E.
  apply (gen_rmi_refines pc orc (concat PWD_REGEXES) (index_groups 0 PWD_REGEXES) reserved salt line lookup out lookup' fuel Hag); try assumption.
  all: try (now rewrite index_groups_snd).
  exact (index_groups_consistent PWD_REGEXES []).
Qed.
