(* sensitive_item_removal._split_line as GENERATED from the source (gen/G_fn_sir2.v) against the model's split_line, and " ".join on encoded strings.  Kept
   apart from the refinement of replace_matching_item (RefItem.v) so that what speaks about the word stage only does not depend on it. *)
From Coq Require Import String.
From Coq Require Import List ZArith NArith Bool Arith Lia.
Import ListNotations.
Require Import PyLib PyLib2 Str TextModel G_fn_sir2 RefJun RefStr.
Notation vstr := RefJun.vstr.

Lemma slice_upto_neg {X} (x : list X) (k : nat) : (0 < k <= List.length x)%nat -> slice x None (Some (- Z.of_nat k)%Z) = firstn (List.length x - k) x.
Proof.
  intros Hk. unfold slice, clamp. cbv zeta.
  replace (- Z.of_nat k <? 0)%Z with true by (symmetry; apply Z.ltb_lt; lia).
  replace (- Z.of_nat k + Z.of_nat (List.length x) <? 0)%Z with false by (symmetry; apply Z.ltb_ge; lia).
  replace (Z.of_nat (List.length x) <? - Z.of_nat k + Z.of_nat (List.length x))%Z with false by (symmetry; apply Z.ltb_ge; lia).
  replace (Z.to_nat (- Z.of_nat k + Z.of_nat (List.length x)) - 0)%nat with (List.length x - k)%nat by lia. reflexivity.
Qed.

(* ---- _split_line ---- *)
Lemma lstrip_length s : (length (lstrip s) <= length s)%nat.
Proof. induction s as [|c s IH]; cbn [lstrip length]; [lia|]. destruct (is_space c); cbn [length]; lia. Qed.
Lemma rstrip_length s : (length (rstrip s) <= length s)%nat.
Proof. unfold rstrip. rewrite rev_length. etransitivity; [apply lstrip_length|]. now rewrite rev_length. Qed.
Lemma py_lstrip_vstr s : py_lstrip (vstr s) = Normal (vstr (lstrip s)). Proof. unfold py_lstrip, RefJun.vstr. now rewrite to_of_N. Qed.
Lemma py_rstrip_vstr s : py_rstrip (vstr s) = Normal (vstr (rstrip s)). Proof. unfold py_rstrip, RefJun.vstr. now rewrite to_of_N. Qed.
Lemma py_split_ws_vstr s : py_split_ws (vstr s) = Normal (VList (map vstr (split_ws s))). Proof. unfold py_split_ws, RefJun.vstr. now rewrite to_of_N. Qed.
Lemma slice_neg_vstr v k : (0 < k <= length v)%nat -> py_slice (vstr v) VNone (VInt (- Z.of_nat k)) = Normal (vstr (firstn (length v - k) v)).
Proof. intros Hk. unfold py_slice, RefJun.vstr. cbn [optZ PyLib.bind]. rewrite slice_upto_neg by (rewrite map_length; exact Hk). rewrite map_length. now rewrite firstn_map. Qed.
Lemma slice_zero_vstr v : py_slice (vstr v) VNone (VInt 0) = Normal (vstr []).
Proof. change (VInt 0) with (VInt (Z.of_nat 0)). now rewrite py_slice_to. Qed.

Lemma gen_split_line_refines pc fuel line :
  gen__split_line pc fuel (vstr line) = (let '(l, w, t) := split_line line in Normal (VTuple [vstr l; VList (map vstr w); vstr t])).
Proof.
  unfold gen__split_line, split_line. rewrite py_lstrip_vstr. cbn [PyLib.bind]. rewrite py_len_vstr. cbn [PyLib.bind py_neg].
  pose proof (lstrip_length line) as Hl.
  assert (E1 : py_slice (vstr line) VNone (VInt (- Z.of_nat (length (lstrip line))))
               = Normal (vstr (match lstrip line with [] => [] | _ => firstn (length line - length (lstrip line)) line end))).
  { destruct (lstrip line) as [|c r] eqn:El; [exact (slice_zero_vstr line)|]. rewrite <- El in *. apply slice_neg_vstr. rewrite El in *. cbn [length] in *. lia. }
  rewrite E1. cbn [PyLib.bind]. rewrite py_split_ws_vstr. cbn [PyLib.bind]. rewrite py_rstrip_vstr. cbn [PyLib.bind].
  rewrite py_len_vstr. cbn [PyLib.bind]. rewrite py_slice_from. reflexivity.
Qed.

(* " ".join(words) *)
Lemma join_strs_vstr sep : forall l, join_strs (map Z.of_N sep) (map vstr l) = Some (map Z.of_N (join sep l)).
Proof.
  induction l as [|x [|y l] IH]; [reflexivity|reflexivity|].
  cbn [map join_strs join] in *. unfold RefJun.vstr in *. rewrite IH. now rewrite !map_app.
Qed.
Lemma py_join_vstr sep l : py_join (vstr sep) (VList (map vstr l)) = Normal (vstr (join sep l)).
Proof. unfold py_join, RefJun.vstr at 1. cbn [py_iter PyLib.bind]. now rewrite join_strs_vstr. Qed.

