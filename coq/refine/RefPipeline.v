(* The whole per-line pipeline as TRANSLATED code: FileAnonymizer.anonymize_io (gen/G_fn_files2.v) calling the translated replace_matching_item,
   anonymize_ip_addr (twice), SensitiveWordAnonymizer.anonymize and anonymize_as_numbers, against the model's anonymize_io.  One dispatcher (U)
   serves every uninterpreted call of all these units: methods of compiled patterns and match objects through the regex engine, passlib through
   the model's oracle, the IP anonymizers' own methods (refined separately in RefAnon / RefDeanon / RefShould / RefMask) through the model's
   functions.  It is shown to meet the contract each stage's refinement theorem asks for; the theorems compose. *)
From Coq Require Import String.
From Coq Require Import List ZArith NArith Bool Arith Lia.
Import ListNotations.
Require Import PyLib PyLib2 PyRe Str IpText Rx RxFacts RxSub G_rx G_text_consts Memo IpModel TextModel TotalProofs G_fn_sir2 G_fn_ip2 G_fn_files2
               RefJun RefJunDec RefIpCommon RefValue RefItem RefSub RefWord RefAsLine RefIpLine RefWordsLine RefIo.
Notation vstr := RefJun.vstr.

Section U.
Variable orc : oracle.
Variables t4 t6 : anonymizer.
Variable wa : option word_anonymizer.
Variable asa : option as_anonymizer.
Definition H4 : pyval := VStr [82%Z; 52%Z].
Definition H6 : pyval := VStr [82%Z; 54%Z].
Definition HW : pyval := VStr [87%Z].
Definition HA : pyval := VStr [65%Z].
Definition hip (v6 : bool) : pyval := if v6 then H6 else H4.
Definition rx_of_U (h : pyval) : option re :=
  match h with
  | VStr [82%Z; 52%Z] => Some IPV4_RX
  | VStr [82%Z; 54%Z] => Some IPV6_RX
  | VStr [87%Z] => option_map w_regex wa
  | VStr [65%Z] => option_map as_regex asa
  | _ => None
  end.
Definition is_ip_name (n : list Z) : bool := nm n "make_addr" || nm n "should_anonymize" || nm n "anonymize" || nm n "deanonymize" || nm n "make_addr_from_int".
Definition U (f a : pyval) : PyLib.res :=
  match f with
  | VFun n =>
      if nm n "search" then
        match a with
        | VList (VInt _ :: _) => sir_call orc RefIo.tbl f a
        | VList [h; VStr l] => match rx_of_U h with Some rx => match search (to_strz l) rx with Some _ => Normal (VBool true) | None => Normal VNone end | None => Exc TypeError end
        | _ => Exc TypeError end
      else if nm n "group" then
        match a with VList (VTuple [_; _] :: _) => sir_call orc RefIo.tbl f a | _ => sub_call rx_of_U f a end
      else if nm n "finditer" then sub_call rx_of_U f a
      else if nm n "get_addr_pattern" then match a with VList [VTuple [VBool v6; _]] => Normal (hip v6) | _ => Exc TypeError end
      else if is_ip_name n then
        match a with VList (VTuple [VBool v6; _] :: _) => ip_call v6 (if v6 then t6 else t4) f a | _ => Exc TypeError end
      else sir_call orc RefIo.tbl f a
  | _ => Exc TypeError
  end.

Lemma U_agrees : agrees_with_sir_call U orc RefIo.tbl.
Proof.
  intros s a Hin Hsh. cbn in Hin.
  destruct Hin as [<-|Hin]; [destruct Hsh as (z & l & ->); reflexivity|].
  destruct Hin as [<-|Hin]; [reflexivity|].
  destruct Hin as [<-|Hin]; [destruct Hsh as (z & l & key & ->); reflexivity|].
  repeat (destruct Hin as [<-|Hin]; [reflexivity|]). destruct Hin.
Qed.

(* the contracts of the other stages *)
Lemma U_ip (v6 : bool) : ip_contract v6 (if v6 then t6 else t4) U (hip v6).
Proof.
  destruct (ip_call_contract v6 (if v6 then t6 else t4)) as (C1 & C2 & C3 & C4 & C5 & _ & _ & _).
  refine (conj _ (conj _ (conj _ (conj _ (conj _ (conj _ (conj _ _))))))); intros.
  - exact (C1 a m).
  - exact (C2 a x H).
  - exact (C3 a x H).
  - exact (C4 a x H).
  - exact (C5 a y).
  - reflexivity.
  - change (U (VFun (of_string "finditer")) ?x) with (sub_call rx_of_U (VFun (of_string "finditer")) x). apply call_finditer. destruct v6; reflexivity.
  - change (U (VFun (of_string "group")) ?x) with (sub_call rx_of_U (VFun (of_string "group")) x). destruct v6; apply call_group0.
Qed.
Lemma U_words w : wa = Some w -> words_contract HW w U.
Proof.
  intro Hw. split; [|split]; intros.
  - unfold RefJun.vstr. cbn. rewrite Hw. cbn [option_map]. now rewrite to_strz_vstr.
  - change (U (VFun (of_string "finditer")) ?x) with (sub_call rx_of_U (VFun (of_string "finditer")) x). apply call_finditer. cbn. now rewrite Hw.
  - change (U (VFun (of_string "group")) ?x) with (sub_call rx_of_U (VFun (of_string "group")) x). apply call_group0.
Qed.
Lemma U_as x : asa = Some x -> sub_contract U HA (as_regex x).
Proof.
  intro Ha. split; intros.
  - change (U (VFun (of_string "finditer")) ?x) with (sub_call rx_of_U (VFun (of_string "finditer")) x). apply call_finditer. cbn. now rewrite Ha.
  - change (U (VFun (of_string "group")) ?x) with (sub_call rx_of_U (VFun (of_string "group")) x). apply call_group0.
Qed.
End U.

Section C.
Variable orc : oracle.
Variables t4 t6 : anonymizer.
Variable wa : option word_anonymizer.
Variable asa : option as_anonymizer.
Variables (cls clsw clsa : list Z) (rw saltva : pyval).
Hypothesis Horc : table_bytes orc.
Notation pc := (U orc t4 t6 wa asa).
Definition WO (w : word_anonymizer) (d : list (pyval * pyval)) : pyval := wobj clsw rw HW (vres (w_conflicting w)) (w_salt w) d.
Definition AO (x : as_anonymizer) : pyval := enc_as clsa saltva HA x.
Definition enc_fa2 (f : file_anonymizer) (d : list (pyval * pyval)) : pyval :=
  obj cls (VBool (fa_undo f)) (oenc (eip false) (fa_a4 f)) (oenc (eip true) (fa_a6 f)) (oenc AO (fa_as f)) (oenc (fun w => WO w d) (fa_words f))
      (oenc (fun _ => CR) (fa_pwd f)) (oenc vlook (fa_pwd f)) (vstr (fa_salt f)) (vres (fa_reserved f)).
Definition ok2 (f : file_anonymizer) (d : list (pyval * pyval)) : Prop :=
  ok_fa t4 t6 wa asa f /\ (forall w, wa = Some w -> cache_ok (w_salt w) d).

(* the line that reaches the words stage is ASCII (the model's case folding): stated along the model's own run *)
Definition line_words_ascii (f : file_anonymizer) (line : str) : Prop :=
  match (match fa_pwd f with Some lk => obind (replace_matching_item orc (fa_reserved f) (fa_salt f) line lk) (fun x => Done (Some (snd x), fst x)) | None => Done (None, line) end) with
  | Done (_, l1) =>
      match (match fa_a6 f with Some a => obind (anonymize_ip_line true (fa_undo f) a l1) (fun x => Done (Some (fst x), snd x)) | None => Done (None, l1) end) with
      | Done (_, l2) =>
          match (match fa_a4 f with Some a => obind (anonymize_ip_line false (fa_undo f) a l2) (fun x => Done (Some (fst x), snd x)) | None => Done (None, l2) end) with
          | Done (_, l3) => fa_words f <> None -> ascii l3
          | Raised _ => True end
      | Raised _ => True end
  | Raised _ => True end.
Fixpoint io_ascii (f : file_anonymizer) (lines : list str) : Prop :=
  match lines with
  | [] => True
  | l :: r => line_words_ascii f l /\ match process_line orc f l with Done (f', _) => io_ascii f' r | Raised _ => True end
  end.

Lemma none_WO w d : is_none (WO w d) = false. Proof. reflexivity. Qed.
Lemma none_AO x : is_none (AO x) = false. Proof. reflexivity. Qed.

Theorem gen_pipeline_refines fuel (f : file_anonymizer) (lines : list str) (outs0 : list pyval) d f' outs :
  ok2 f d -> (io_need orc f lines <= fuel)%nat -> io_ascii f lines ->
  TextModel.anonymize_io orc f lines = Done (f', outs) ->
  exists d', gen_FileAnonymizer__anonymize_io_all pc fuel (enc_fa2 f d) (VList (map vstr lines)) (VList outs0)
             = Normal (VTuple [VNone; enc_fa2 f' d'; VList (outs0 ++ map vstr outs)]) /\ ok2 f' d'.
Proof.
  unfold gen_FileAnonymizer__anonymize_io_all. cbn [py_iter PyLib.bind].
  match goal with |- _ -> _ -> _ -> _ -> exists d', call (PyLib.bind (PyLib.bindS (py_for _ ?b _) ?K) ?K2) = _ /\ _ => set (B := b); set (KK := K); set (KK2 := K2) end.
  assert (Hstep : forall g dd line acc j4 j5 g' out, ok2 g dd -> (line_need orc g line <= fuel)%nat -> line_words_ascii g line -> process_line orc g line = Done (g', out) ->
            exists dd', B (vstr line) (enc_fa2 g dd, VList (map vstr lines), VList acc, j4, j5)
                        = Normal (enc_fa2 g' dd', VList (map vstr lines), VList (acc ++ [vstr out]), vstr line, vstr out) /\ ok2 g' dd').
  { intros [gu gs gp gr g4 g6 gw ga] dd line acc j4 j5 g' out ((H4 & H6 & Hw & Ha & Hp) & Hc) Hneed Hasc E.
    unfold line_need, line_words_ascii, process_line, enc_fa2 in *. cbn [fa_undo fa_salt fa_pwd fa_reserved fa_a4 fa_a6 fa_words fa_as] in *. subst B. cbv beta iota.
    (* 1. secrets *)
    destruct gp as [lk|]; cbn [oenc] in *;
    [ destruct (Hp lk eq_refl) as [Hb Hu];
      destruct (replace_matching_item orc gr gs line lk) as [[l1 lk1]|] eqn:Ermi; cbn [obind fst snd] in E, Hasc; [|discriminate];
      go; rewrite none_CR; go; rewrite none_vlook; go;
      unfold CR; rewrite (gen_replace_matching_item_is_the_model_for pc orc gr gs line lk l1 lk1 fuel (U_agrees orc t4 t6 wa asa) Horc Hb Hu Hneed Ermi); go;
      destruct (rmi_inv orc gr gs line lk l1 lk1 Horc Hb Hu Ermi) as [Hb1 Hu1]
    | cbn [obind] in E, Hasc; go ].
    (* 2. IPv6, 3. IPv4 *)
    all: destruct g6 as [a6|]; cbn [oenc] in *;
      [ rewrite ?none_eip; go;
        match type of E with context [anonymize_ip_line true ?uu ?aa ?l] => destruct (anonymize_ip_line true uu aa l) as [[a6' l2]|] eqn:E6 end; cbn [obind fst snd] in E, Hasc; [|discriminate];
        rewrite (gen_anonymize_ip_addr_refines true t6 pc (hip true) (U_ip orc t4 t6 wa asa true) fuel a6 _ _ a6' l2 (H6 a6 eq_refl) E6); go;
        pose proof (ip_line_static t6 true _ a6 _ a6' l2 (H6 a6 eq_refl) E6) as H6'
      | cbn [obind] in E, Hasc; go ].
    all: destruct g4 as [a4|]; cbn [oenc] in *;
      [ rewrite ?none_eip; go;
        match type of E with context [anonymize_ip_line false ?uu ?aa ?l] => destruct (anonymize_ip_line false uu aa l) as [[a4' l3]|] eqn:E4 end; cbn [obind fst snd] in E, Hasc; [|discriminate];
        rewrite (gen_anonymize_ip_addr_refines false t4 pc (hip false) (U_ip orc t4 t6 wa asa false) fuel a4 _ _ a4' l3 (H4 a4 eq_refl) E4); go;
        pose proof (ip_line_static t4 false _ a4 _ a4' l3 (H4 a4 eq_refl) E4) as H4'
      | cbn [obind] in E, Hasc; go ].
    (* 4. sensitive words: the translated stage; the replacement cache moves on *)
    all: destruct gw as [w|]; cbn [oenc] in *;
      [ change (is_none (WO w dd)) with false; go;
        match type of E with context [anonymize_words_line ?ww ?l] => destruct (anonymize_words_line ww l) as [l4|] eqn:E5 end; cbn [obind] in E; [|discriminate];
        match type of E5 with anonymize_words_line _ ?l = _ =>
          destruct (gen_words_anonymize_refines clsw rw HW w pc (U_words orc t4 t6 wa asa w (eq_sym Hw)) fuel l l4 dd (Hc w (eq_sym Hw)) (Hasc ltac:(discriminate)) E5) as (dd1 & Ew & Hc1) end;
        unfold WO; rewrite Ew; go; fold (WO w dd1)
      | cbn [obind] in E; go; pose (dd1 := dd) ].
    (* 5. AS numbers *)
    all: destruct ga as [x|]; cbn [oenc] in *;
      [ change (is_none (AO x)) with false; go;
        match type of E with context [anonymize_as_line ?xx ?l] => destruct (anonymize_as_line xx l) as [l5|] eqn:E7 end; cbn [obind] in E; [|discriminate];
        match type of E7 with anonymize_as_line _ ?l = _ =>
          unfold AO; rewrite (gen_anonymize_as_numbers_refines_for pc clsa saltva HA fuel x l l5 (U_as orc t4 t6 wa asa x (eq_sym Ha)) E7) end; go; fold (AO x)
      | cbn [obind] in E; go ].
    all: unfold py_ne; go; match goal with |- context [if ?c then _ else _] => destruct c end; go; cbn [py_list_append]; go; injection E as <- <-; exists dd1; (split; [reflexivity|]).
    all: unfold ok2, ok_fa, with_state; cbn [fa_undo fa_salt fa_pwd fa_reserved fa_a4 fa_a6 fa_words fa_as]; repeat split; try assumption; try reflexivity;
      try (match goal with H : Some _ = Some _ |- _ => injection H as <- end; assumption); try (match goal with H : None = Some _ |- _ => discriminate H end).
    all: try (intros ? [= <-]; try assumption; try (split; assumption)); try (intros ? [=]).
    all: try (match goal with Hx : wa = Some ?w0 |- cache_ok _ _ =>
                first [ rewrite <- Hw in Hx; injection Hx as <-; exact Hc1 | rewrite <- Hw in Hx; discriminate Hx | subst dd1; exact (Hc _ Hx) ] end).
  }
  assert (Hloop : forall ls g dd acc j4 j5 g' outs', ok2 g dd -> (io_need orc g ls <= fuel)%nat -> io_ascii g ls -> TextModel.anonymize_io orc g ls = Done (g', outs') ->
            exists dd' j4' j5', py_for (map vstr ls) B (enc_fa2 g dd, VList (map vstr lines), VList acc, j4, j5)
                            = Normal (enc_fa2 g' dd', VList (map vstr lines), VList (acc ++ map vstr outs'), j4', j5') /\ ok2 g' dd').
  { induction ls as [|l ls IH]; intros g dd acc j4 j5 g' outs' Hok Hneed Hasc E; cbn [map py_for TextModel.anonymize_io io_need io_ascii] in *.
    - injection E as <- <-. rewrite app_nil_r. eauto.
    - destruct Hasc as [Hasc1 Hasc2].
      destruct (process_line orc g l) as [[g1 o1]|w] eqn:Epl; cbn [obind fst snd] in E; [|discriminate].
      destruct (TextModel.anonymize_io orc g1 ls) as [[g2 os]|w] eqn:Eio; cbn [obind fst snd] in E; [|discriminate]. injection E as <- <-.
      destruct (Hstep g dd l acc j4 j5 g1 o1 Hok ltac:(lia) Hasc1 Epl) as (dd1 & Eb & Hok1). rewrite Eb.
      destruct (IH g1 dd1 (acc ++ [vstr o1]) (vstr l) (vstr o1) g2 os Hok1 ltac:(lia) Hasc2 Eio) as (dd' & j4' & j5' & El & Hok2). rewrite El.
      exists dd', j4', j5'. split; [|exact Hok2]. cbn [map]. rewrite <- app_assoc. reflexivity. }
  intros Hok Hneed Hasc E. destruct (Hloop lines f d outs0 VNone VNone f' outs Hok Hneed Hasc E) as (d' & j4' & j5' & El & Hok'). rewrite El. exists d'. split; [reflexivity|exact Hok'].
Qed.
End C.
