(* pattern.sub(callback, line) in the translated code: the py_call parameter lists the matches, the translated callback is run on each in turn
   (threading whatever it updates), py_stitch assembles the result.  Here: the list of matches of the regex engine, sub_loop as a fold over it,
   py_stitch against the model's stitching. *)
From Coq Require Import String.
From Coq Require Import List ZArith NArith Bool Arith Lia.
Import ListNotations.
Require Import PyLib PyLib2 Str Rx RxFacts RxSub RefJun RefStr.
Notation vstr := RefJun.vstr.

Section M.
Variable s : str.
(* the matches sub visits, for a non-nullable pattern: leftmost first, each search resumes at the end of the previous match *)
Fixpoint matches (fuel : nat) (r : re) (i : nat) : list (nat * nat * caps) :=
  match fuel with
  | O => []
  | S f => match search_from s (slen s - i) r i with None => [] | Some (a, b, c) => (a, b, c) :: matches f r b end
  end.
Fixpoint stitch3 (i : nat) (ms : list (nat * nat * caps)) (reps : list str) : str :=
  match ms, reps with
  | (a, b, _) :: ms', rep :: reps' => substr s i a ++ rep ++ stitch3 b ms' reps'
  | _, _ => skipn i s
  end.
Fixpoint run_cb {St} (cb : St -> nat -> nat -> caps -> St * list chr) (st : St) (ms : list (nat * nat * caps)) : St * list str :=
  match ms with
  | [] => (st, [])
  | (a, b, c) :: ms' => let '(st1, rep) := cb st a b c in let '(st2, reps) := run_cb cb st1 ms' in (st2, rep :: reps)
  end.
Lemma sub_loop_fold {St} r (cb : St -> nat -> nat -> caps -> St * list chr) : forall fuel st i,
  sub_loop s fuel r cb st i = (let '(st', reps) := run_cb cb st (matches fuel r i) in (st', stitch3 i (matches fuel r i) reps)).
Proof.
  induction fuel as [|fuel IH]; intros st i; cbn [sub_loop matches run_cb stitch3]; [reflexivity|].
  destruct (search_from s (slen s - i) r i) as [[[a b] c]|]; cbn [run_cb stitch3]; [|reflexivity].
  destruct (cb st a b c) as [st1 rep]. rewrite IH. destruct (run_cb cb st1 (matches fuel r b)) as [st2 reps]. reflexivity.
Qed.
Lemma run_cb_length {St} (cb : St -> nat -> nat -> caps -> St * list chr) : forall ms st, length (snd (run_cb cb st ms)) = length ms.
Proof. induction ms as [|[[a b] c] ms IH]; intro st; cbn [run_cb]; [reflexivity|]. destruct (cb st a b c) as [st1 rep]. specialize (IH st1). destruct (run_cb cb st1 ms). cbn [snd length] in *. now rewrite IH. Qed.

(* the match records handed to the translated code: (start, end, match object); the match object carries what group(0) needs *)
Definition enc_match (h : pyval) (m : nat * nat * caps) : pyval :=
  let '(a, b, _) := m in VTuple [VInt (Z.of_nat a); VInt (Z.of_nat b); VTuple [h; vstr s; VInt (Z.of_nat a); VInt (Z.of_nat b)]].
Lemma stitch_refines h : forall ms reps i, length reps = length ms ->
  stitch_z (map Z.of_N s) i (map (enc_match h) ms) (map vstr reps) = Some (map Z.of_N (stitch3 i ms reps)).
Proof.
  induction ms as [|[[a b] c] ms IH]; intros [|rep reps] i Hl; cbn [length] in Hl; try discriminate; cbn [map stitch_z stitch3 enc_match].
  - now rewrite skipn_map.
  - unfold RefJun.vstr at 1. rewrite !Nat2Z.id, IH by lia. unfold substr. rewrite !map_app, skipn_map, firstn_map. reflexivity.
Qed.
Lemma py_stitch_refines h ms reps : length reps = length ms ->
  py_stitch (vstr s) (VList (map (enc_match h) ms)) (VList (map vstr reps)) = Normal (vstr (stitch3 0 ms reps)).
Proof. intro Hl. unfold py_stitch, RefJun.vstr at 1. rewrite stitch_refines by exact Hl. reflexivity. Qed.
End M.

(* the dispatcher part shared by the translated sub-with-callback functions: finditer over a table of patterns, group(0) of a match object *)
Definition to_strz (z : list Z) : str := map Z.to_N z.
Definition sub_call (rx_of : pyval -> option re) (f a : pyval) : PyLib.res :=
  match f with
  | VFun n =>
      if (if list_eq_dec Z.eq_dec n (of_string "finditer") then true else false) then
        match a with
        | VList [h; VStr l] => match rx_of h with
                               | Some rx => Normal (VList (map (enc_match (to_strz l) h) (matches (to_strz l) (S (length l)) rx 0)))
                               | None => Exc TypeError end
        | _ => Exc TypeError end
      else if (if list_eq_dec Z.eq_dec n (of_string "group") then true else false) then
        match a with
        | VList [VTuple [_; VStr l; VInt a; VInt b]; VInt 0] => Normal (vstr (substr (to_strz l) (Z.to_nat a) (Z.to_nat b)))
        | _ => Exc TypeError end
      else Exc TypeError
  | _ => Exc TypeError
  end.
Lemma to_strz_vstr s : to_strz (map Z.of_N s) = s. Proof. apply to_of_N. Qed.
Lemma call_finditer rx_of h rx l : rx_of h = Some rx ->
  sub_call rx_of (VFun (of_string "finditer")) (VList [h; vstr l]) = Normal (VList (map (enc_match l h) (matches l (S (length l)) rx 0))).
Proof. intro H. unfold RefJun.vstr. cbn. rewrite H, to_strz_vstr, map_length. reflexivity. Qed.
Lemma call_group0 rx_of h l a b :
  sub_call rx_of (VFun (of_string "group")) (VList [VTuple [h; vstr l; VInt (Z.of_nat a); VInt (Z.of_nat b)]; VInt 0]) = Normal (vstr (substr l a b)).
Proof. unfold RefJun.vstr at 1. cbn. now rewrite to_strz_vstr, !Nat2Z.id. Qed.

(* what the translated sub-with-callback code uses of the dispatcher, for the pattern behind the handle h *)
Definition sub_contract (pc : pyval -> pyval -> PyLib.res) (h : pyval) (rx : re) : Prop :=
  (forall l, pc (VFun (of_string "finditer")) (VList [h; vstr l]) = Normal (VList (map (enc_match l h) (matches l (S (length l)) rx 0)))) /\
  (forall l a b, pc (VFun (of_string "group")) (VList [VTuple [h; vstr l; VInt (Z.of_nat a); VInt (Z.of_nat b)]; VInt 0]) = Normal (vstr (substr l a b))).
Lemma sub_call_contract rx_of h rx : rx_of h = Some rx -> sub_contract (sub_call rx_of) h rx.
Proof. intro H. split; intros; [now apply call_finditer|apply call_group0]. Qed.

