(* FileAnonymizer.anonymize_io as GENERATED from the source (gen/G_fn_files.v) against the model's anonymize_io / process_line (model/TextModel.v):
   for every list of input lines and every state of the file anonymizer, whenever the model returns (state', output lines) the translated loop
   returns exactly that state and has written exactly those lines, in order, one per input line -- the five stages applied in the order of the
   source (secrets, IPv6, IPv4, sensitive words, AS numbers), each only when its anonymizer is present, each on the previous stage's output,
   the secret table and the two IP caches threaded from line to line.
   The secrets stage is the translated replace_matching_item (RefItem.v).  The other three stages use regex callbacks and are not translated:
   they are calls of the py_call parameter, answered here (io_call) by the MODEL's stage functions; an IP anonymizer object is represented by its
   cache (decoded back by the dispatcher; the rest of it is a parameter of the run and provably untouched), the word and AS anonymizers, which
   the model never changes, by tokens.  File objects are lists of strings: readlines() is the list, write(x) appends. *)
From Coq Require Import String.
From Coq Require Import List ZArith NArith Bool Arith Lia.
Import ListNotations.
Require Import PyLib PyLib2 PyRe Str IpText Rx RxFacts RxSub G_rx G_text_consts Memo IpModel TextModel TotalProofs G_fn_sir2 G_fn_files RefJun RefJunDec RefIpCommon RefValue RefItem.
Require Export RefIoBase.
Notation vstr := RefJun.vstr.
Section IO.
Variable orc : oracle.
Variables t4 t6 : anonymizer.
Variable wa : option word_anonymizer.
Variable asa : option as_anonymizer.
Definition tbl := concat PWD_REGEXES.
Definition CR : pyval := VList (map enc_group (index_groups 0 PWD_REGEXES)).
Definition io_call (f a : pyval) : PyLib.res :=
  match f with
  | VFun n =>
      if name_is n "anonymize_ip_addr" then
        match a with
        | VList [VTuple [VBool v6; VBidict l]; VStr ln; VBool undo] =>
            match anonymize_ip_line v6 undo (with_cache (if v6 then t6 else t4) (decD l)) (to_str ln) with
            | Done (a', l') => Normal (VTuple [vstr l'; eip v6 a']) | Raised _ => Exc (ValueError []) end
        | _ => Exc TypeError end
      else if name_is n "anonymizer_sensitive_word.anonymize" then
        match wa with
        | Some w => match a with
                    | VList [tok; VStr ln] => match anonymize_words_line w (to_str ln) with Done l' => Normal (VTuple [vstr l'; tok]) | Raised _ => Exc (ValueError []) end
                    | _ => Exc TypeError end
        | None => Exc TypeError end
      else if name_is n "anonymize_as_numbers" then
        match asa with
        | Some x => match a with
                    | VList [tok; VStr ln] => match anonymize_as_line x (to_str ln) with Done l' => Normal (VTuple [vstr l'; tok]) | Raised _ => Exc (ValueError []) end
                    | _ => Exc TypeError end
        | None => Exc TypeError end
      else sir_call orc tbl f a
  | _ => Exc TypeError
  end.
Lemma io_agrees : agrees_with_sir_call io_call orc tbl.
Proof. intros s a Hin _. cbn in Hin. repeat (destruct Hin as [<-|Hin]; [reflexivity|]). destruct Hin. Qed.
Lemma io_ip (v6 : bool) a l undo : same_static (if v6 then t6 else t4) a ->
  io_call (VFun (of_string "anonymize_ip_addr")) (VList [eip v6 a; vstr l; VBool undo]) =
  match anonymize_ip_line v6 undo a l with Done (a', l') => Normal (VTuple [vstr l'; eip v6 a']) | Raised _ => Exc (ValueError []) end.
Proof. intro Hs. unfold eip, RefJun.vstr at 1. cbn. rewrite decD_encD, to_str_vstr, <- Hs. reflexivity. Qed.
Lemma io_words w l tok : wa = Some w ->
  io_call (VFun (of_string "anonymizer_sensitive_word.anonymize")) (VList [tok; vstr l]) =
  match anonymize_words_line w l with Done l' => Normal (VTuple [vstr l'; tok]) | Raised _ => Exc (ValueError []) end.
Proof. intro H. unfold RefJun.vstr at 1. cbn. rewrite to_str_vstr, H. reflexivity. Qed.
Lemma io_as x l tok : asa = Some x ->
  io_call (VFun (of_string "anonymize_as_numbers")) (VList [tok; vstr l]) =
  match anonymize_as_line x l with Done l' => Normal (VTuple [vstr l'; tok]) | Raised _ => Exc (ValueError []) end.
Proof. intro H. unfold RefJun.vstr at 1. cbn. rewrite to_str_vstr, H. reflexivity. Qed.

(* ---- the FileAnonymizer object ---- *)
Definition obj (cls : list Z) (u a4v a6v asv wv crv lkv sv rv : pyval) : pyval :=
  VObj cls [(S_ "undo_ip_anon", u); (S_ "anonymizer4", a4v); (S_ "anonymizer6", a6v); (S_ "anonymizer_as_num", asv); (S_ "anonymizer_sensitive_word", wv);
            (S_ "compiled_regexes", crv); (S_ "pwd_lookup", lkv); (S_ "salt", sv); (S_ "reserved_words", rv)].
Definition oenc {A} (e : A -> pyval) (o : option A) : pyval := match o with Some x => e x | None => VNone end.
Definition enc_fa (cls : list Z) (f : file_anonymizer) : pyval :=
  obj cls (VBool (fa_undo f)) (oenc (eip false) (fa_a4 f)) (oenc (eip true) (fa_a6 f)) (oenc (fun _ => TOKA) (fa_as f)) (oenc (fun _ => TOKW) (fa_words f))
      (oenc (fun _ => CR) (fa_pwd f)) (oenc vlook (fa_pwd f)) (vstr (fa_salt f)) (vres (fa_reserved f)).
Definition ok_fa (f : file_anonymizer) : Prop :=
  (forall a, fa_a4 f = Some a -> same_static t4 a) /\ (forall a, fa_a6 f = Some a -> same_static t6 a) /\ fa_words f = wa /\ fa_as f = asa /\
  (forall lk, fa_pwd f = Some lk -> table_bytes lk /\ keys_unique lk).
End IO.

(* replace_matching_item keeps the table invariants *)
Lemma apply_item_inv orc reserved salt it line lk l lk' stop : table_bytes orc -> table_bytes lk -> keys_unique lk ->
  apply_item orc reserved salt it line lk = Some (Done (l, lk', stop)) -> table_bytes lk' /\ keys_unique lk'.
Proof.
  intros Ho Hb Hu. destruct it as [[rx num] pidx]. unfold apply_item. destruct (search line rx) as [[[a b] c]|]; [|discriminate].
  destruct num as [n|].
  - destruct (match pidx with Some p => match group line a b c p with Some t => Some t | None => None end | None => Some [] end) as [pre|]; [|discriminate].
    destruct (group line a b c n) as [secret|]; [|discriminate].
    destruct (anonymize_value orc secret lk reserved salt) as [[anon lk1]|] eqn:Eav; cbn [obind]; [|discriminate].
    destruct (sub_fn line rx _ tt) as [[u0 l0]|]; [|discriminate]. intros [= _ <- _].
    exact (table_invariants_preserved orc secret lk reserved salt anon lk1 Ho Hb Hu Eav).
  - destruct (sub_fn line rx _ tt) as [[u0 l0]|]; [|discriminate]. intros [= _ <- _]. split; assumption.
Qed.
Lemma apply_group_inv orc reserved salt : table_bytes orc -> forall grp line lk fd l lk' fd', table_bytes lk -> keys_unique lk ->
  apply_group orc reserved salt grp line lk fd = Done (l, lk', fd') -> table_bytes lk' /\ keys_unique lk'.
Proof.
  intros Ho. induction grp as [|it grp IH]; intros line lk fd l lk' fd' Hb Hu; cbn [apply_group].
  - intros [= _ <- _]. split; assumption.
  - destruct (apply_item orc reserved salt it line lk) as [[[[l1 lk1] stop]|w]|] eqn:Eai; cbn [obind]; [| discriminate | apply IH; assumption].
    destruct (apply_item_inv orc reserved salt it line lk l1 lk1 stop Ho Hb Hu Eai) as [Hb1 Hu1].
    destruct stop; [intros [= _ <- _]; split; assumption|apply IH; assumption].
Qed.
Lemma apply_groups_inv orc reserved salt : table_bytes orc -> forall gs line lk l lk', table_bytes lk -> keys_unique lk ->
  apply_groups orc reserved salt gs line lk = Done (l, lk') -> table_bytes lk' /\ keys_unique lk'.
Proof.
  intros Ho. induction gs as [|g gs IH]; intros line lk l lk' Hb Hu; cbn [apply_groups].
  - intros [= _ <-]. split; assumption.
  - destruct (apply_group orc reserved salt g line lk false) as [[[l1 lk1] fd]|w] eqn:Eag; cbn [obind]; [|discriminate].
    destruct (apply_group_inv orc reserved salt Ho g line lk false l1 lk1 fd Hb Hu Eag) as [Hb1 Hu1].
    destruct fd; [intros [= _ <-]; split; assumption|apply IH; assumption].
Qed.
Lemma rmi_inv orc reserved salt line lk out lk' : table_bytes orc -> table_bytes lk -> keys_unique lk ->
  replace_matching_item orc reserved salt line lk = Done (out, lk') -> table_bytes lk' /\ keys_unique lk'.
Proof.
  intros Ho Hb Hu. unfold replace_matching_item. destruct (split_line line) as [[le ws] tr]. destruct (extract_enclosing _ le tr) as [[le' ol] tr'].
  destruct (apply_groups orc reserved salt PWD_REGEXES ol lk) as [[l lk1]|w] eqn:E; cbn [obind]; [|discriminate].
  intros [= _ <-]. exact (apply_groups_inv orc reserved salt Ho PWD_REGEXES ol lk l lk1 Hb Hu E).
Qed.

Section G.
Variables (cls : list Z) (u a4v a6v asv wv crv lkv sv rv : pyval).
Notation O := (obj cls u a4v a6v asv wv crv lkv sv rv).
Lemma get_undo : py_getattr O "undo_ip_anon" = Normal u. Proof. reflexivity. Qed.
Lemma get_a4 : py_getattr O "anonymizer4" = Normal a4v. Proof. reflexivity. Qed.
Lemma get_a6 : py_getattr O "anonymizer6" = Normal a6v. Proof. reflexivity. Qed.
Lemma get_as : py_getattr O "anonymizer_as_num" = Normal asv. Proof. reflexivity. Qed.
Lemma get_w : py_getattr O "anonymizer_sensitive_word" = Normal wv. Proof. reflexivity. Qed.
Lemma get_cr : py_getattr O "compiled_regexes" = Normal crv. Proof. reflexivity. Qed.
Lemma get_lk : py_getattr O "pwd_lookup" = Normal lkv. Proof. reflexivity. Qed.
Lemma get_s : py_getattr O "salt" = Normal sv. Proof. reflexivity. Qed.
Lemma get_r : py_getattr O "reserved_words" = Normal rv. Proof. reflexivity. Qed.
Lemma set_lk v : py_setattr O "pwd_lookup" v = Normal (obj cls u a4v a6v asv wv crv v sv rv). Proof. reflexivity. Qed.
Lemma set_a6 v : py_setattr O "anonymizer6" v = Normal (obj cls u a4v v asv wv crv lkv sv rv). Proof. reflexivity. Qed.
Lemma set_a4 v : py_setattr O "anonymizer4" v = Normal (obj cls u v a6v asv wv crv lkv sv rv). Proof. reflexivity. Qed.
Lemma set_w v : py_setattr O "anonymizer_sensitive_word" v = Normal (obj cls u a4v a6v asv v crv lkv sv rv). Proof. reflexivity. Qed.
Lemma set_as v : py_setattr O "anonymizer_as_num" v = Normal (obj cls u a4v a6v v wv crv lkv sv rv). Proof. reflexivity. Qed.
End G.

Lemma none_CR : is_none CR = false. Proof. reflexivity. Qed.
Lemma none_vlook lk : is_none (vlook lk) = false. Proof. reflexivity. Qed.
Lemma none_eip v a : is_none (eip v a) = false. Proof. reflexivity. Qed.
Ltac go := repeat first [rewrite get_cr | rewrite get_lk | rewrite get_s | rewrite get_r | rewrite get_a6 | rewrite get_a4 | rewrite get_undo | rewrite get_w | rewrite get_as
                        | rewrite set_lk | rewrite set_a6 | rewrite set_a4 | rewrite set_w | rewrite set_as | progress cbn [PyLib.bind PyLib.bindS unpack2 truthy negb is_none] ].

Definition line_need (orc : oracle) (f : file_anonymizer) (line : str) : nat :=
  match fa_pwd f with Some lk => rmi_need orc (fa_reserved f) (fa_salt f) PWD_REGEXES line lk | None => 0 end.
Fixpoint io_need (orc : oracle) (f : file_anonymizer) (lines : list str) : nat :=
  match lines with
  | [] => 0
  | l :: r => Nat.max (line_need orc f l) (match process_line orc f l with Done (f', _) => io_need orc f' r | Raised _ => 0 end)
  end.

Section T.
Variable orc : oracle.
Variables t4 t6 : anonymizer.
Variable wa : option word_anonymizer.
Variable asa : option as_anonymizer.
Notation pc := (io_call orc t4 t6 wa asa).
Notation OK := (ok_fa t4 t6 wa asa).
Variable cls : list Z.
Hypothesis Horc : table_bytes orc.

Theorem gen_anonymize_io_refines_ok fuel (f : file_anonymizer) (lines : list str) (outs0 : list pyval) f' outs :
  OK f -> (io_need orc f lines <= fuel)%nat ->
  TextModel.anonymize_io orc f lines = Done (f', outs) ->
  gen_FileAnonymizer__anonymize_io pc fuel (enc_fa cls f) (VList (map vstr lines)) (VList outs0)
  = Normal (VTuple [VNone; enc_fa cls f'; VList (outs0 ++ map vstr outs)]) /\ OK f'.
Proof.
  unfold gen_FileAnonymizer__anonymize_io. cbn [py_iter PyLib.bind].
  match goal with |- _ -> _ -> _ -> call (PyLib.bind (PyLib.bindS (py_for _ ?b _) ?K) ?K2) = _ /\ _ => set (B := b); set (KK := K); set (KK2 := K2) end.
  assert (Hstep : forall g line acc j4 j5 g' out, OK g -> (line_need orc g line <= fuel)%nat -> process_line orc g line = Done (g', out) ->
            B (vstr line) (enc_fa cls g, VList (map vstr lines), VList acc, j4, j5)
            = Normal (enc_fa cls g', VList (map vstr lines), VList (acc ++ [vstr out]), vstr line, vstr out) /\ OK g').
  { intros [gu gs gp gr g4 g6 gw ga] line acc j4 j5 g' out (H4 & H6 & Hw & Ha & Hp) Hneed E.
    unfold line_need, process_line, enc_fa in *. cbn [fa_undo fa_salt fa_pwd fa_reserved fa_a4 fa_a6 fa_words fa_as] in *. subst B. cbv beta iota.
    (* 1. secrets *)
    destruct gp as [lk|]; cbn [oenc] in *;
    [ destruct (Hp lk eq_refl) as [Hb Hu];
      destruct (replace_matching_item orc gr gs line lk) as [[l1 lk1]|] eqn:Ermi; cbn [obind fst snd] in E; [|discriminate];
      go; rewrite none_CR; go; rewrite none_vlook; go;
      unfold CR; rewrite (gen_replace_matching_item_is_the_model_for pc orc gr gs line lk l1 lk1 fuel (io_agrees orc t4 t6 wa asa) Horc Hb Hu Hneed Ermi); go;
      destruct (rmi_inv orc gr gs line lk l1 lk1 Horc Hb Hu Ermi) as [Hb1 Hu1]
    | cbn [obind] in E; go ].
    (* 2. IPv6, 3. IPv4 *)
    all: destruct g6 as [a6|]; cbn [oenc] in *;
      [ rewrite ?none_eip; go; rewrite io_ip by exact (H6 a6 eq_refl);
        match type of E with context [anonymize_ip_line true ?uu ?aa ?l] => destruct (anonymize_ip_line true uu aa l) as [[a6' l2]|] eqn:E6 end; cbn [obind fst snd] in E; [|discriminate];
        go; pose proof (ip_line_static t6 true gu a6 _ a6' l2 (H6 a6 eq_refl) E6) as H6'
      | cbn [obind] in E; go ].
    all: destruct g4 as [a4|]; cbn [oenc] in *;
      [ rewrite ?none_eip; go; rewrite io_ip by exact (H4 a4 eq_refl);
        match type of E with context [anonymize_ip_line false ?uu ?aa ?l] => destruct (anonymize_ip_line false uu aa l) as [[a4' l3]|] eqn:E4 end; cbn [obind fst snd] in E; [|discriminate];
        go; pose proof (ip_line_static t4 false gu a4 _ a4' l3 (H4 a4 eq_refl) E4) as H4'
      | cbn [obind] in E; go ].
    (* 4. sensitive words, 5. AS numbers *)
    all: destruct gw as [w|]; cbn [oenc] in *;
      [ change (is_none TOKW) with false; go; rewrite (io_words orc t4 t6 wa asa w _ TOKW (eq_sym Hw));
        match type of E with context [anonymize_words_line ?ww ?l] => destruct (anonymize_words_line ww l) as [l4|] eqn:E5 end; cbn [obind] in E; [|discriminate]; go
      | cbn [obind] in E; go ].
    all: destruct ga as [x|]; cbn [oenc] in *;
      [ change (is_none TOKA) with false; go; rewrite (io_as orc t4 t6 wa asa x _ TOKA (eq_sym Ha));
        match type of E with context [anonymize_as_line ?xx ?l] => destruct (anonymize_as_line xx l) as [l5|] eqn:E7 end; cbn [obind] in E; [|discriminate]; go
      | cbn [obind] in E; go ].
    all: unfold py_ne; go; match goal with |- context [if ?c then _ else _] => destruct c end; go; cbn [py_list_append]; go; injection E as <- <-; (split; [reflexivity|]).
    all: unfold ok_fa, with_state; cbn [fa_undo fa_salt fa_pwd fa_reserved fa_a4 fa_a6 fa_words fa_as]; repeat split; try assumption; try reflexivity; try (intros ? [= <-]; try assumption; try (split; assumption)); try (intros ? [=]);
      try (match goal with H : Some _ = Some _ |- _ => injection H as <- end; assumption); try (match goal with H : None = Some _ |- _ => discriminate H end).
  }
  assert (Hloop : forall ls g acc j4 j5 g' outs', OK g -> (io_need orc g ls <= fuel)%nat -> TextModel.anonymize_io orc g ls = Done (g', outs') ->
            exists j4' j5', py_for (map vstr ls) B (enc_fa cls g, VList (map vstr lines), VList acc, j4, j5)
                            = Normal (enc_fa cls g', VList (map vstr lines), VList (acc ++ map vstr outs'), j4', j5') /\ OK g').
  { induction ls as [|l ls IH]; intros g acc j4 j5 g' outs' Hok Hneed E; cbn [map py_for TextModel.anonymize_io io_need] in *.
    - injection E as <- <-. rewrite app_nil_r. eauto.
    - destruct (process_line orc g l) as [[g1 o1]|w] eqn:Epl; cbn [obind fst snd] in E; [|discriminate].
      destruct (TextModel.anonymize_io orc g1 ls) as [[g2 os]|w] eqn:Eio; cbn [obind fst snd] in E; [|discriminate]. injection E as <- <-.
      destruct (Hstep g l acc j4 j5 g1 o1 Hok ltac:(lia) Epl) as [Eb Hok1]. rewrite Eb.
      destruct (IH g1 (acc ++ [vstr o1]) (vstr l) (vstr o1) g2 os Hok1 ltac:(lia) Eio) as (j4' & j5' & El & Hok2). rewrite El.
      exists j4', j5'. cbn [map]. rewrite <- app_assoc. split; [reflexivity|exact Hok2]. }
  intros Hok Hneed E. destruct (Hloop lines f outs0 VNone VNone f' outs Hok Hneed E) as (j4' & j5' & El & Hok'). rewrite El. split; [reflexivity|exact Hok'].
Qed.
Theorem gen_anonymize_io_refines fuel (f : file_anonymizer) (lines : list str) (outs0 : list pyval) f' outs :
  OK f -> (io_need orc f lines <= fuel)%nat ->
  TextModel.anonymize_io orc f lines = Done (f', outs) ->
  gen_FileAnonymizer__anonymize_io pc fuel (enc_fa cls f) (VList (map vstr lines)) (VList outs0)
  = Normal (VTuple [VNone; enc_fa cls f'; VList (outs0 ++ map vstr outs)]).
Proof. intros Hok Hneed E. exact (proj1 (gen_anonymize_io_refines_ok fuel f lines outs0 f' outs Hok Hneed E)). Qed.
End T.

(* the premises are met by any file anonymizer taken with its own IP anonymizers as templates (in particular by what the constructor builds) *)
Lemma same_static_self a : same_static a a. Proof. destruct a; reflexivity. Qed.
Lemma ok_fa_self (f : file_anonymizer) (d4 d6 : anonymizer) :
  (forall lk, fa_pwd f = Some lk -> table_bytes lk /\ keys_unique lk) ->
  ok_fa (match fa_a4 f with Some a => a | None => d4 end) (match fa_a6 f with Some a => a | None => d6 end) (fa_words f) (fa_as f) f.
Proof.
  intro Hp. unfold ok_fa. repeat split; try reflexivity.
  - intros a E. rewrite E. apply same_static_self.
  - intros a E. rewrite E. apply same_static_self.
  - exact (proj1 (Hp lk H)).
  - exact (proj2 (Hp lk H)).
Qed.
Lemma anonymize_io_length orc : forall lines f f' outs, TextModel.anonymize_io orc f lines = Done (f', outs) -> length outs = length lines.
Proof.
  induction lines as [|l ls IH]; intros f f' outs; cbn [TextModel.anonymize_io]; [intros [= _ <-]; reflexivity|].
  destruct (process_line orc f l) as [[g o]|w]; cbn [obind fst snd]; [|discriminate].
  destruct (TextModel.anonymize_io orc g ls) as [[g2 os]|w] eqn:E; cbn [obind fst snd]; [|discriminate].
  intros [= _ <-]. cbn [length]. f_equal. exact (IH g g2 os E).
Qed.
