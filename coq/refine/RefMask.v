(* Refinement of the GENERATED IpAnonymizer._is_mask (gen/G_fn_ip.v) to lib/Mask.v's is_mask, for every non-negative argument:
   the characterisation theorem is_mask_spec therefore speaks about the code as translated on this run. *)
From Coq Require Import String.
From Coq Require Import List ZArith NArith Bool Lia.
Require Import PyLib G_fn_ip Mask.
Import ListNotations.
Local Open Scope Z_scope.

Lemma of_N_land a b : Z.land (Z.of_N a) (Z.of_N b) = Z.of_N (N.land a b).
Proof. destruct a, b; reflexivity. Qed.
Lemma of_N_lxor a b : Z.lxor (Z.of_N a) (Z.of_N b) = Z.of_N (N.lxor a b).
Proof. destruct a, b; reflexivity. Qed.
Lemma of_N_shiftr1 a : Z.shiftr (Z.of_N a) 1 = Z.of_N (N.shiftr a 1).
Proof. destruct a as [|[p|p|]]; reflexivity. Qed.

Theorem gen_is_mask_refines : forall (py_call : pyval -> pyval -> PyLib.res) (fuel : nat) (self : pyval) (x : N),
  gen_IpAnonymizer___is_mask py_call fuel self (VInt (Z.of_N x)) = Normal (VTuple [VBool (is_mask x); self]).
Proof.
  intros pc fuel self x. unfold gen_IpAnonymizer___is_mask, is_mask.
  cbn [py_rshift bind]. replace (1 <? 0) with false by reflexivity. cbn [bind py_xor py_and py_add py_eq intop veq call].
  change 1 with (Z.of_N 1%N). change 2147483647 with (Z.of_N 2147483647%N). change 4294967295 with (Z.of_N 4294967295%N).
  rewrite of_N_shiftr1, of_N_lxor, of_N_land, of_N_lxor, <- N2Z.inj_add, of_N_land.
  f_equal. f_equal. f_equal. f_equal.
  destruct (N.eqb_spec (N.land (N.land (N.lxor x (N.shiftr x 1)) 2147483647) (N.lxor 4294967295 (N.land (N.lxor x (N.shiftr x 1)) 2147483647) + 1)) (N.land (N.lxor x (N.shiftr x 1)) 2147483647)) as [E|E].
  - rewrite E. apply Z.eqb_refl.
  - apply Z.eqb_neq. intros C. apply N2Z.inj in C. contradiction.
Qed.
Print Assumptions gen_is_mask_refines.
