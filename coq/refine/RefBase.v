(* Helper facts relating the Python-library models (lib/PyLib.v, PyLib2.v) to the model's own string / table functions: tables as association lists
   (vlook), reserved-word lists (vres), decimal and hexadecimal text, ASCII.  Nothing here mentions a function translated from the source (only RefJun
   for the encoding vstr of a string), so a refinement file that needs these facts only does not depend on the refinement of unrelated functions. *)
From Coq Require Import String.
From Coq Require Import List ZArith NArith Bool Arith Lia.
Import ListNotations.
Require Import PyLib PyLib2 PyRe PyHash Str IpText Md5 Rx RxFacts RxSub G_rx G_text_consts G_juniper JunModel JunProofs TextModel TextProofs2 TotalProofs RefJun.
Notation vstr := RefJun.vstr.

Lemma to_of_N_b s : map Z.to_N (map Z.of_N s) = s.
Proof. induction s as [|x s IH]; cbn [map]; [reflexivity|]. now rewrite N2Z.id, IH. Qed.

Lemma veq_vstr_eqb a b : veq (vstr a) (vstr b) = str_eqb a b.
Proof.
  unfold RefJun.vstr. cbn [veq]. destruct (list_eq_dec Z.eq_dec (map Z.of_N a) (map Z.of_N b)) as [E|E].
  - assert (a = b). { revert b E. induction a as [|x a IH]; intros [|y b] E; cbn in *; try discriminate; [reflexivity|]. injection E as E1 E2. apply N2Z.inj in E1. subst. f_equal. auto. }
    subst. symmetry. apply str_eqb_refl.
  - destruct (str_eqb a b) eqn:Es; [|reflexivity]. exfalso. apply E. f_equal. apply str_eqb_eq. exact Es.
Qed.
Definition vlook (l : lookup_t) : pyval := VDict (map (fun kv => (vstr (fst kv), vstr (snd kv))) l).
Definition vres (l : list str) : pyval := VList (map vstr l).

Lemma dict_get_vlook l k : dict_get (map (fun kv => (vstr (fst kv), vstr (snd kv))) l) (vstr k) = option_map vstr (lget l k).
Proof. induction l as [|[k' v'] l IH]; cbn [map dict_get lget fst snd option_map]; [reflexivity|]. rewrite veq_vstr_eqb. destruct (str_eqb k k'); [reflexivity|exact IH]. Qed.
Lemma dict_get_vlook_none l : dict_get (map (fun kv => (vstr (fst kv), vstr (snd kv))) l) VNone = None.
Proof. induction l as [|[k' v'] l IH]; cbn [map dict_get fst snd]; [reflexivity|]. exact IH. Qed.
Lemma py_in_vres val reserved : py_in (vstr val) (vres reserved) = Normal (VBool (mem_str val reserved)).
Proof. unfold py_in, vres, mem_str. f_equal. f_equal. induction reserved as [|r l IH]; cbn [map existsb]; [reflexivity|]. now rewrite veq_vstr_eqb, IH. Qed.
Lemma py_not_vstr v : py_not (vstr v) = Normal (VBool (is_empty v)).
Proof. unfold py_not, RefJun.vstr. cbn [truthy]. rewrite map_length. destruct v; reflexivity. Qed.
Lemma truthy_vstr v : truthy (vstr v) = negb (is_empty v).
Proof. unfold RefJun.vstr. cbn [truthy]. rewrite map_length. destruct v; reflexivity. Qed.
Lemma py_in_vlook k l : py_in (vstr k) (vlook l) = Normal (VBool (match lget l k with Some _ => true | None => false end)).
Proof. unfold py_in, vlook. rewrite dict_get_vlook. destruct (lget l k); reflexivity. Qed.
Lemma py_getitem_vlook k l v : lget l k = Some v -> py_getitem (vlook l) (vstr k) = Normal (vstr v).
Proof. intro H. unfold py_getitem, vlook. unfold RefJun.vstr at 2. fold (vstr k). rewrite dict_get_vlook, H. reflexivity. Qed.
Lemma py_len_vlook l : py_len (vlook l) = Normal (VInt (Z.of_nat (length l))).
Proof. unfold vlook. cbn [py_len]. now rewrite map_length. Qed.

(* dict assignment against lset, for tables without duplicate keys (every table built by lset from the empty one) *)
Definition keys_unique (l : lookup_t) : Prop := NoDup (map fst l).
Lemma lget_none_notin l k : lget l k = None -> ~ In k (map fst l).
Proof. induction l as [|[k' v'] l IH]; cbn [lget map fst In]; [tauto|]. destruct (str_eqb k k') eqn:E; [discriminate|]. intros H [->|Hin]; [rewrite str_eqb_refl in E; discriminate|exact (IH H Hin)]. Qed.
Lemma lget_some_in l k v : lget l k = Some v -> In k (map fst l).
Proof. induction l as [|[k' v'] l IH]; cbn [lget map fst In]; [discriminate|]. destruct (str_eqb k k') eqn:E; [intros _; left; symmetry; now apply str_eqb_eq|intro H; right; exact (IH H)]. Qed.
Lemma map_id_notin (l : lookup_t) k v : ~ In k (map fst l) -> map (fun kv => if str_eqb (fst kv) k then (k, v) else kv) l = l.
Proof. induction l as [|[k' v'] l IH]; cbn [map fst In]; [reflexivity|]. intro H. destruct (str_eqb k' k) eqn:E; [exfalso; apply H; left; now apply str_eqb_eq|]. f_equal. apply IH. tauto. Qed.
Lemma dict_set_vlook l k v : keys_unique l ->
  dict_set (map (fun kv => (vstr (fst kv), vstr (snd kv))) l) (vstr k) (vstr v) = map (fun kv => (vstr (fst kv), vstr (snd kv))) (lset l k v).
Proof.
  unfold keys_unique, lset. induction l as [|[k' v'] l IH]; intro Hu; cbn [map fst snd dict_set lget]; [reflexivity|].
  inversion Hu as [|? ? Hnot Hu']; subst. rewrite veq_vstr_eqb. destruct (str_eqb k k') eqn:E.
  - apply str_eqb_eq in E. subst k'. cbn [map fst snd]. rewrite str_eqb_refl. cbn [fst snd]. f_equal. now rewrite map_id_notin.
  - specialize (IH Hu'). destruct (lget l k) eqn:El.
    + cbn [map fst snd]. assert (E' : str_eqb k' k = false). { destruct (str_eqb k' k) eqn:E2; [|reflexivity]. apply str_eqb_eq in E2. subst. rewrite str_eqb_refl in E. discriminate. }
      rewrite E'. cbn [fst snd]. f_equal. exact IH.
    + rewrite map_app in *. cbn [map fst snd app] in *. f_equal. exact IH.
Qed.
Lemma NoDup_snoc {A} (l : list A) x : NoDup l -> ~ In x l -> NoDup (l ++ [x]).
Proof. induction 1 as [|y l Hy Hl IH]; cbn [app]; intro Hx; [constructor; [tauto|constructor]|]. constructor; [rewrite in_app_iff; cbn [In] in *; intuition congruence|apply IH; cbn [In] in Hx; tauto]. Qed.
Lemma lset_keys_unique l k v : keys_unique l -> keys_unique (lset l k v).
Proof.
  unfold keys_unique, lset. intro Hu. destruct (lget l k) eqn:El.
  - replace (map fst (map (fun kv => if str_eqb (fst kv) k then (k, v) else kv) l)) with (map fst l); [exact Hu|].
    rewrite map_map. apply map_ext. intros [k' v']. cbn [fst]. destruct (str_eqb k' k) eqn:E; [apply str_eqb_eq in E; now subst|reflexivity].
  - rewrite map_app. cbn [map fst]. apply NoDup_snoc; [exact Hu|now apply lget_none_notin].
Qed.

(* decimal rendering: Python's str(int) in the library model against the model's show_dec *)
Lemma digits_show : forall f x acc,
  map Z.of_N (show_dec_aux f x acc) = (map dchar (rev (digits_rev f 10 (Z.of_N x))) ++ map Z.of_N acc)%list.
Proof.
  induction f as [|f IH]; intros x acc; cbn [show_dec_aux digits_rev]; [reflexivity|].
  assert (E10 : (Z.of_N x <? 10)%Z = (x <? 10)%N).
  { destruct (N.ltb_spec x 10); [apply Z.ltb_lt|apply Z.ltb_ge]; lia. }
  rewrite E10. destruct (N.ltb_spec x 10) as [L|L].
  - cbn [rev app map]. unfold dchar. replace (Z.of_N x <? 10)%Z with true by (symmetry; apply Z.ltb_lt; lia).
    rewrite N.mod_small by lia. f_equal. lia.
  - rewrite IH. cbn [rev map]. rewrite map_app, <- app_assoc. cbn [map app]. rewrite N2Z.inj_div. f_equal. f_equal.
    unfold dchar. assert (0 <= Z.of_N x mod 10 < 10)%Z by (apply Z.mod_pos_bound; lia).
    replace (Z.of_N x mod 10 <? 10)%Z with true by (symmetry; apply Z.ltb_lt; lia). rewrite N2Z.inj_add, N2Z.inj_mod. reflexivity.
Qed.
Lemma nat_str_show x : nat_str 10 (Z.of_N x) = map Z.of_N (show_dec x).
Proof.
  unfold nat_str, show_dec. rewrite digits_show. cbn [map]. rewrite app_nil_r.
  replace (Z.to_nat (Z.log2 (Z.of_N x))) with (N.to_nat (N.log2 x)); [reflexivity|].
  assert (EL : Z.log2 (Z.of_N x) = Z.of_N (N.log2 x)) by (destruct x as [|[p|p|]]; reflexivity). rewrite EL. lia.
Qed.
Lemma py_str_nat n : py_str (VInt (Z.of_nat n)) = Normal (vstr (show_dec (N.of_nat n))).
Proof. unfold py_str. replace (Z.of_nat n <? 0)%Z with false by (symmetry; apply Z.ltb_ge; lia). rewrite <- nat_N_Z, nat_str_show. reflexivity. Qed.

Lemma format_removed n :
  py_format (VStr [110;101;116;99;111;110;97;110;82;101;109;111;118;101;100;123;125]%Z) (VList [VInt (Z.of_nat n)]) (VDict [])
  = Normal (vstr (lit "netconanRemoved" ++ show_dec (N.of_nat n))).
Proof. unfold py_format. cbn -[py_str]. rewrite py_str_nat. cbn -[show_dec]. reflexivity. Qed.

(* the format classifier translated from the source (the one the model itself calls) always answers with one of the seven codes *)
Lemma utf8_ascii s : Forall (fun c => c < 128)%N s -> utf8 s = Some s.
Proof. induction 1 as [|c s Hc _ IH]; cbn [utf8]; [reflexivity|]. unfold utf8_char. replace (c <? 128)%N with true by (symmetry; now apply N.ltb_lt). now rewrite IH. Qed.
Lemma show_dec_aux_ascii : forall f x acc, Forall (fun c => c < 128)%N acc -> Forall (fun c => c < 128)%N (show_dec_aux f x acc).
Proof.
  induction f as [|f IH]; intros x acc Ha; cbn [show_dec_aux]; [exact Ha|].
  assert (H : Forall (fun c => c < 128)%N ((48 + x mod 10) :: acc)%N).
  { constructor; [|exact Ha]. assert (x mod 10 < 10)%N by (apply N.mod_upper_bound; discriminate). lia. }
  destruct (x <? 10)%N; [exact H|apply IH; exact H].
Qed.
Lemma anon0_ascii lookup : Forall (fun c => c < 128)%N (anon0_of lookup).
Proof. unfold anon0_of. apply Forall_app. split; [repeat constructor|]. unfold show_dec. apply show_dec_aux_ascii. constructor. Qed.

Lemma digit_val_hex d : (d < 16)%N -> digit_val (Z.of_N (hex_digit d)) = Some (Z.of_N d).
Proof.
  intro H. assert (E : forallb (fun d => match digit_val (Z.of_N (hex_digit d)) with Some v => Z.eqb v (Z.of_N d) | None => false end) (map N.of_nat (seq 0 16)) = true) by (vm_compute; reflexivity).
  rewrite forallb_forall in E. specialize (E d). lapply E; [|apply in_map_iff; exists (N.to_nat d); split; [lia|apply in_seq; lia]].
  destruct (digit_val (Z.of_N (hex_digit d))); [|discriminate]. intro Hz. apply Z.eqb_eq in Hz. now subst.
Qed.
Lemma parse_hex_bytes : forall bs acc, Forall (fun c => c < 256)%N bs ->
  parse_int 16 (Z.of_N acc) (map Z.of_N (hex_of_bytes bs)) = Some (Z.of_N (fold_left (fun a b => 256 * a + b)%N bs acc)).
Proof.
  induction bs as [|b bs IH]; intros acc Hb; [reflexivity|]. inversion Hb as [|? ? Hb1 Hb2]; subst.
  unfold hex_of_bytes. cbn [flat_map app map parse_int fold_left]. fold (hex_of_bytes bs).
  assert (b / 16 < 16)%N by (apply N.div_lt_upper_bound; lia). assert (b mod 16 < 16)%N by (apply N.mod_upper_bound; discriminate).
  rewrite !digit_val_hex by assumption.
  replace (Z.of_N (b / 16) <? 16)%Z with true by (symmetry; apply Z.ltb_lt; lia). replace (Z.of_N (b mod 16) <? 16)%Z with true by (symmetry; apply Z.ltb_lt; lia).
  replace ((Z.of_N acc * 16 + Z.of_N (b / 16)) * 16 + Z.of_N (b mod 16))%Z with (Z.of_N (256 * acc + b)).
  - apply IH. exact Hb2.
  - rewrite (N.div_mod b 16) at 1 by discriminate. lia.
Qed.
Lemma py_str_N x : py_str (VInt (Z.of_N x)) = Normal (vstr (show_dec x)).
Proof. unfold py_str. replace (Z.of_N x <? 0)%Z with false by (symmetry; apply Z.ltb_ge; lia). now rewrite nat_str_show. Qed.
Lemma b2a_hex_ascii s : Forall (fun c => c < 128)%N s -> py_b2a_hex_encode (vstr s) = Normal (vstr (hex_of_bytes s)).
Proof. intro H. unfold py_b2a_hex_encode, RefJun.vstr. rewrite to_of_N_b, (utf8_ascii s H). reflexivity. Qed.
Lemma hex_nonempty b bs : hex_of_bytes (b :: bs) <> []. Proof. discriminate. Qed.
Lemma numeric_of_ascii s : s <> [] -> Forall (fun c => c < 128)%N s ->
  PyLib.bind (py_b2a_hex_encode (vstr s)) (fun t24 => PyLib.bind (py_int t24 (VInt 16)) (fun t25 => py_str t25)) = Normal (vstr (to_decimal_of_bytes s)).
Proof.
  intros Hne Ha. rewrite (b2a_hex_ascii s Ha). cbn [PyLib.bind]. unfold py_int, RefJun.vstr at 1.
  destruct s as [|b bs]; [congruence|]. destruct (map Z.of_N (hex_of_bytes (b :: bs))) eqn:Eh; [discriminate|]. rewrite <- Eh.
  change 0%Z with (Z.of_N 0). rewrite parse_hex_bytes by (eapply Forall_impl; [|exact Ha]; intros; cbv beta in *; lia).
  cbn [PyLib.bind]. rewrite py_str_N. reflexivity.
Qed.

Lemma py_int_hex s : s <> [] -> Forall (fun c => c < 128)%N s ->
  py_int (vstr (hex_of_bytes s)) (VInt 16) = Normal (VInt (Z.of_N (fold_left (fun a b => 256 * a + b)%N s 0%N))).
Proof.
  intros Hne Ha. unfold py_int, RefJun.vstr.
  destruct s as [|b bs]; [congruence|]. destruct (map Z.of_N (hex_of_bytes (b :: bs))) eqn:Eh; [discriminate|]. rewrite <- Eh.
  change 0%Z with (Z.of_N 0). rewrite parse_hex_bytes by (eapply Forall_impl; [|exact Ha]; intros; cbv beta in *; lia). reflexivity.
Qed.

(* s.split("$") in the library model against the text model's split_on *)
Lemma split_same sep : forall s cur, PyLib.split_on (Z.of_N sep) (map Z.of_N cur) (map Z.of_N s) = map (map Z.of_N) (Str.split_on_aux sep s cur).
Proof.
  induction s as [|c s IH]; intro cur; cbn [map PyLib.split_on Str.split_on_aux]; [now rewrite map_rev|].
  replace (Z.of_N c =? Z.of_N sep)%Z with (c =? sep)%N by (destruct (N.eqb_spec c sep); [subst; symmetry; apply Z.eqb_refl|symmetry; apply Z.eqb_neq; lia]).
  destruct (c =? sep)%N; cbn [map]; [rewrite map_rev; f_equal; exact (IH [])|exact (IH (c :: cur))].
Qed.
Lemma py_split1_vstr s sep : py_split1 (vstr s) (Z.of_N sep) = Normal (VList (map vstr (Str.split_on sep s))).
Proof. unfold py_split1, RefJun.vstr, Str.split_on. change (@nil Z) with (map Z.of_N []). rewrite split_same, map_map. reflexivity. Qed.

(* a value classified as md5-crypt starts with "$1$" (read off the generated pattern through the regex semantics) *)
Lemma split_aux_nonempty sep : forall s cur, exists f fs, Str.split_on_aux sep s cur = f :: fs.
Proof. induction s as [|c s IH]; intro cur; cbn [Str.split_on_aux]; [eauto|]. destruct (c =? sep)%N; [eauto|apply IH]. Qed.

Definition vod (od : option str) : pyval := match od with Some d => vstr d | None => VNone end.

Lemma py_in_vod od lookup : py_in (vod od) (vlook lookup) = Normal (VBool (match (match od with Some d => lget lookup d | None => None end) with Some _ => true | None => false end)).
Proof. destruct od as [d|]; cbn [vod]; [apply py_in_vlook|]. unfold py_in, vlook. now rewrite dict_get_vlook_none. Qed.

Lemma py_setitem_vlook l k v : keys_unique l -> py_setitem (vlook l) (vstr k) (vstr v) = Normal (vlook (lset l k v)).
Proof. intro Hu. unfold py_setitem, vlook. now rewrite dict_set_vlook. Qed.
Lemma str_repeat_zero n : py_str_repeat (VStr [48%Z]) (VInt (Z.of_nat n)) = Normal (vstr (repeat 48%N n)).
Proof. unfold py_str_repeat, RefJun.vstr. rewrite Nat2Z.id. f_equal. f_equal. induction n as [|n IH]; cbn [repeat concat map app]; [reflexivity|]. now rewrite IH. Qed.

