(* Refinement of the GENERATED AsNumberAnonymizer._generate_as_number_replacement (gen/G_fn_sir.v) to the model as_repl / hash_int
   (model/AsModel.v): so as_block_preserved (every hash value, generated boundary table) speaks about the code translated on this run. *)
From Coq Require Import String.
From Coq Require Import List ZArith NArith Bool Lia.
Require Import PyLib PyHash G_fn_sir Str Md5 AsModel G_as_num.
Import ListNotations.
Local Open Scope Z_scope.

Definition zs (s : str) : list Z := map Z.of_N s.
Lemma map_to_of (s : list N) : map Z.to_N (map Z.of_N s) = s.
Proof. induction s as [|c s IH]; cbn; [reflexivity|]. now rewrite N2Z.id, IH. Qed.

(* int(<ASCII digits>) *)
Lemma parse_int_digits : forall (s : str) (acc : N), forallb is_digit s = true ->
  parse_int 10 (Z.of_N acc) (zs s) = Some (Z.of_N (fold_left (fun a c => 10 * a + (c - 48))%N s acc)).
Proof.
  induction s as [|c s IH]; intros acc H; cbn [zs map parse_int fold_left]; [reflexivity|].
  cbn [forallb] in H. apply andb_prop in H as [Hc Hs]. unfold is_digit in Hc. apply andb_prop in Hc as [H1 H2].
  apply N.leb_le in H1, H2. unfold digit_val.
  replace ((48 <=? Z.of_N c) && (Z.of_N c <=? 57)) with true by (symmetry; apply andb_true_intro; split; apply Z.leb_le; lia).
  replace (Z.of_N c - 48 <? 10) with true by (symmetry; apply Z.ltb_lt; lia).
  replace (Z.of_N acc * 10 + (Z.of_N c - 48)) with (Z.of_N (10 * acc + (c - 48))%N) by lia.
  apply IH. exact Hs.
Qed.
Lemma py_int_numeral (s : str) (n : N) : parse_dec s = Some n -> py_int (VStr (zs s)) VNone = Normal (VInt (Z.of_N n)).
Proof.
  unfold parse_dec, all_digits. destruct s as [|c s]; [discriminate|]. cbn [negb andb].
  destruct (forallb is_digit (c :: s)) eqn:E; [|discriminate]. intros [= <-].
  unfold py_int. cbn [zs map]. change (Z.of_N c :: map Z.of_N s) with (zs (c :: s)).
  change 0 with (Z.of_N 0). rewrite (parse_int_digits (c :: s) 0%N E). reflexivity.
Qed.

(* int(hexdigest, 16) = the digest read as a big-endian integer *)
Lemma hex_digit_val d : (d < 16)%N -> digit_val (Z.of_N (hex_digit d)) = Some (Z.of_N d).
Proof.
  intro H. assert (E : In d [0;1;2;3;4;5;6;7;8;9;10;11;12;13;14;15]%N).
  { destruct d as [|p]; [left; reflexivity|]. do 4 (destruct p as [p|p|]; try lia; cbn; try tauto). all: try (destruct p; lia). }
  cbn in E. repeat (destruct E as [<-|E]; [reflexivity|]). contradiction.
Qed.
Lemma parse_hex_bytes : forall (bs : list N) (acc : Z), Forall (fun b => (b < 256)%N) bs ->
  parse_int 16 acc (zs (hex_of_bytes bs)) = Some (fold_left (fun a b => 256 * a + Z.of_N b) bs acc).
Proof.
  induction bs as [|b bs IH]; intros acc H; [reflexivity|]. inversion H as [|? ? Hb Hbs]; subst.
  unfold hex_of_bytes. cbn [flat_map app zs map parse_int fold_left].
  rewrite (hex_digit_val (b / 16)) by (apply N.div_lt_upper_bound; lia).
  replace (Z.of_N (b / 16) <? 16) with true by (symmetry; apply Z.ltb_lt; assert (b / 16 < 16)%N by (apply N.div_lt_upper_bound; lia); lia).
  rewrite (hex_digit_val (b mod 16)) by (apply N.mod_upper_bound; lia).
  replace (Z.of_N (b mod 16) <? 16) with true by (symmetry; apply Z.ltb_lt; assert (b mod 16 < 16)%N by (apply N.mod_upper_bound; lia); lia).
  replace ((acc * 16 + Z.of_N (b / 16)) * 16 + Z.of_N (b mod 16)) with (256 * acc + Z.of_N b).
  - apply (IH _ Hbs).
  - rewrite N2Z.inj_div, N2Z.inj_mod. pose proof (Z.div_mod (Z.of_N b) 16 ltac:(lia)). lia.
Qed.
Lemma le_bytes_small n x : Forall (fun b => (b < 256)%N) (le_bytes n x).
Proof.
  unfold le_bytes. apply Forall_forall. intros b Hb. apply in_map_iff in Hb as (i & <- & _).
  change 255%N with (N.ones 8). rewrite N.land_ones. apply N.mod_upper_bound. discriminate.
Qed.
Lemma md5_bytes_small msg : Forall (fun b => (b < 256)%N) (md5 msg).
Proof. unfold md5. destruct (fold_left Md5.block _ _) as [[[a b] c] d]. repeat (apply Forall_app; split); apply le_bytes_small. Qed.
Lemma md5_nonempty msg : md5 msg <> [].
Proof. unfold md5. destruct (fold_left Md5.block _ _) as [[[a b] c] d]. discriminate. Qed.

Theorem gen_as_replacement_refines :
  forall (py_call : pyval -> pyval -> PyLib.res) (fuel : nat) (self : pyval) (salt numeral : str) (n : N) (h : Z),
  py_getattr self "salt" = Normal (VStr (zs salt)) ->
  parse_dec numeral = Some n -> hash_int salt numeral = Some h ->
  match as_repl h (Z.of_N n) with
  | AsOk r => gen_AsNumberAnonymizer___generate_as_number_replacement py_call fuel self (VStr (zs numeral)) = Normal (VTuple [VStr (nat_str 10 r); self])
  | AsValueError => exists m, gen_AsNumberAnonymizer___generate_as_number_replacement py_call fuel self (VStr (zs numeral)) = Exc (ValueError m)
  | AsNone => gen_AsNumberAnonymizer___generate_as_number_replacement py_call fuel self (VStr (zs numeral)) = Normal (VTuple [VNone; self])
  end.
Proof.
  intros pc fuel self salt numeral n h Hsalt Hn Hh.
  unfold hash_int in Hh. destruct (utf8 (salt ++ numeral)) as [bytes|] eqn:Eu; [|discriminate].
  assert (Eh : h = fold_left (fun acc b => 256 * acc + Z.of_N b) (md5 bytes) 0) by congruence. clear Hh.
  assert (Hhex : py_int (VStr (zs (hex_of_bytes (md5 bytes)))) (VInt 16) = Normal (VInt h)).
  { unfold py_int. destruct (zs (hex_of_bytes (md5 bytes))) eqn:Ez.
    - exfalso. pose proof (md5_nonempty bytes) as Hne. destruct (md5 bytes) as [|b0 bs0]; [congruence|]. discriminate.
    - rewrite <- Ez. rewrite (parse_hex_bytes _ 0 (md5_bytes_small bytes)). rewrite Eh. reflexivity. }
  assert (Hpos : 0 <= h) by (apply (hash_int_nonneg salt numeral); unfold hash_int; rewrite Eu, Eh; reflexivity).
  clear Eh.
  unfold gen_AsNumberAnonymizer___generate_as_number_replacement.
  rewrite Hsalt. cbn [bind py_add]. unfold py_md5_hexdigest.
  change (zs salt ++ zs numeral) with (map Z.of_N salt ++ map Z.of_N numeral). rewrite <- map_app, map_to_of, Eu. cbn [bind].
  change (map Z.of_N (hex_of_bytes (md5 bytes))) with (zs (hex_of_bytes (md5 bytes))). rewrite Hhex. cbn [bind]. rewrite (py_int_numeral _ _ Hn). cbn [bind py_lt py_gt].
  unfold as_repl. remember (Z.of_N n) as a eqn:Ea. assert (Ha : 0 <= a) by (subst a; lia). clear Ea Hn Hhex.
  replace (a <? 0) with false by (symmetry; apply Z.ltb_ge; lia). cbn [truthy bind orb].
  destruct (4294967295 <? a) eqn:Ebig; cbn [truthy bindS bind call].
  - eexists. reflexivity.
  - unfold AS_NUM_BOUNDARIES.
    (* closed library calls (slices / zips of the literal boundary list) are evaluated by the kernel, so the script does not depend on how the
       source walks the table (a running block_begin, zip(boundaries, boundaries[1:]), ...) *)
    Ltac as_eval := repeat match goal with
      | |- context [py_slice ?a ?b ?c] => let v := eval vm_compute in (py_slice a b c) in change (py_slice a b c) with v
      | |- context [py_zip ?a ?b] => let v := eval vm_compute in (py_zip a b) in change (py_zip a b) with v
      | |- context [py_getitem (VList ?a) (VInt ?k)] => let v := eval vm_compute in (py_getitem (VList a) (VInt k)) in
                                                      match v with Normal _ => change (py_getitem (VList a) (VInt k)) with v end
      end.
    Ltac as_step := as_eval; cbn [as_loop py_iter bind bindS py_for py_lt truthy py_sub py_mod py_add py_str intop call unpack2 py_bisect_right bisect_r option_map Z.of_nat Pos.of_succ_nat Pos.succ]; as_eval.
    as_step. replace (a <? 0) with false by (symmetry; apply Z.ltb_ge; lia). as_step.
    Ltac as_finish h := repeat first
      [ progress as_step
      | match goal with |- context [?p - ?q =? 0] => replace (p - q =? 0) with false by reflexivity end
      | match goal with |- context [h mod ?m + ?b <? 0] =>
          let H := fresh in pose proof (Z.mod_pos_bound h m ltac:(lia)) as H; replace (h mod m + b <? 0) with false by (symmetry; apply Z.ltb_ge; lia) end ];
      reflexivity.
    destruct (a <? 64512) eqn:E1; as_step; [as_finish h|].
    destruct (a <? 65536) eqn:E2; as_step; [as_finish h|].
    destruct (a <? 4200000000) eqn:E3; as_step; [as_finish h|].
    destruct (a <? 4294967296) eqn:E4; as_step; [as_finish h|].
    (* a >= 2^32 contradicts the range check above: unreachable whatever the code does here *)
    exfalso. apply Z.ltb_ge in E4, Ebig. lia.
Qed.
Print Assumptions gen_as_replacement_refines.

(* what C11 states, about the generated code: for every salt and every numeral in range the replacement is a number of the same block *)
Theorem gen_as_replacement_preserves_block :
  forall (py_call : pyval -> pyval -> PyLib.res) (fuel : nat) (self : pyval) (salt numeral : str) (n : N) (h : Z),
  py_getattr self "salt" = Normal (VStr (zs salt)) ->
  parse_dec numeral = Some n -> (n <= 4294967295)%N -> hash_int salt numeral = Some h ->
  exists r, gen_AsNumberAnonymizer___generate_as_number_replacement py_call fuel self (VStr (zs numeral)) = Normal (VTuple [VStr (nat_str 10 r); self])
            /\ 0 <= r <= 4294967295 /\ AsModel.block r = AsModel.block (Z.of_N n).
Proof.
  intros pc fuel self salt numeral n h Hs Hn Hr Hh.
  pose proof (gen_as_replacement_refines pc fuel self salt numeral n h Hs Hn Hh) as G.
  destruct (as_block_preserved h (Z.of_N n) (hash_int_nonneg _ _ _ Hh) ltac:(lia)) as (r & E & Rr & Br).
  rewrite E in G. exists r. auto.
Qed.
Print Assumptions gen_as_replacement_preserves_block.
