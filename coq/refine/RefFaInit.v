(* FileAnonymizer.__init__ as GENERATED from the source (gen/G_fn_files3.v): which anonymizers an option set switches on, what each constructor is
   handed, in which order they are built, and the object that results -- the object shape RefIo.obj that the refinement of anonymize_io starts from.
   The four class constructors, generate_default_sensitive_item_regexes and the module-level reserved-word set are calls of the py_call parameter;
   the theorem holds for every dispatcher and every answer (value or exception) it gives at exactly the arguments the source passes. *)
From Coq Require Import String.
From Coq Require Import List ZArith NArith Bool Arith Lia.
Import ListNotations.
Require Import PyLib PyLib2 Str IpModel TextModel G_fn_files3 RefJun RefValue RefIo.
Notation vstr := RefJun.vstr.

Inductive answer := Ans (v : pyval) | Fails (e : exn).
Definition to_res (a : answer) : PyLib.res := match a with Ans v => Normal v | Fails e => Exc e end.

Definition Rl (res : option (list pyval)) (dres : list pyval) : list pyval := match res with Some l => dres ++ l | None => dres end.

(* the constructors run in the order words, IPv4, IPv6, AS numbers, each only when its option asks for it; the first that fails ends the construction *)
Definition built (cls : list Z) (pwd ip undo : bool) (salt : str) (ws asn crv : pyval) (rl : list pyval) (Aw A4 A6 Aa : answer) : PyLib.res :=
  match (if is_none ws then Ans VNone else Aw) with Fails e => Exc e | Ans wv =>
  match (if ip || undo then A4 else Ans VNone) with Fails e => Exc e | Ans a4v =>
  match (if ip || undo then A6 else Ans VNone) with Fails e => Exc e | Ans a6v =>
  match (if is_none asn then Ans VNone else Aa) with Fails e => Exc e | Ans av =>
  Normal (VTuple [VNone; obj cls (VBool undo) a4v a6v av wv (if pwd then crv else VNone) (if pwd then VDict [] else VNone) (vstr salt) (VList rl)])
  end end end end.

(* pwd ip undo: the flags; ws asn pv pn b4 b6: sensitive_words, as_numbers, preserve_prefixes, preserve_networks, preserve_suffix_v4/v6, passed on as they
   are; res: reserved_words, None or a list; dres: what the module-level default set holds *)
Theorem gen_fa_init_refines (pc : pyval -> pyval -> PyLib.res) (cls : list Z) (pwd ip undo : bool) (salt : str) (ws asn pv pn b4 b6 crv : pyval)
        (res : option (list pyval)) (dres : list pyval) (Aw A4 A6 Aa : answer) (fuel : nat) :
  pc (VFun (of_string "generate_default_sensitive_item_regexes")) (VTuple [VList []; VDict []]) = Normal crv ->
  pc (VFun (of_string "default_reserved_words")) (VList []) = Normal (VList dres) ->
  pc (VFun (of_string "SensitiveWordAnonymizer")) (VTuple [VList [ws; vstr salt; VList (Rl res dres)]; VDict []]) = to_res Aw ->
  pc (VFun (of_string "IpAnonymizer")) (VTuple [VList [vstr salt; pv; pn]; VDict [(S_ "preserve_suffix", b4)]]) = to_res A4 ->
  pc (VFun (of_string "IpV6Anonymizer")) (VTuple [VList [vstr salt]; VDict [(S_ "preserve_suffix", b6)]]) = to_res A6 ->
  pc (VFun (of_string "AsNumberAnonymizer")) (VTuple [VList [asn; vstr salt]; VDict []]) = to_res Aa ->
  gen_FileAnonymizer____init__ pc fuel (VObj cls []) (VBool pwd) (VBool ip) (vstr salt) ws (VBool undo) asn (oenc VList res) pv pn b4 b6
  = built cls pwd ip undo salt ws asn crv (Rl res dres) Aw A4 A6 Aa.
Proof.
  intros Hcr Hdr Hw H4 H6 Ha.
  unfold gen_FileAnonymizer____init__, built.
  cbn in Hcr, Hdr, Hw, H4, H6, Ha.
  cbn.
  destruct pwd; rewrite ?Hcr; cbn; rewrite Hdr; cbn; (destruct res as [rl|]; cbn; rewrite ?Hdr; cbn; unfold Rl in *;
    (destruct (is_none ws) eqn:Ew; cbn; [|rewrite Hw; destruct Aw as [wv|e]; cbn; [|reflexivity]]);
    (destruct ip, undo; cbn; try (rewrite H4; destruct A4 as [a4v|e]; cbn; [|reflexivity]; rewrite H6; destruct A6 as [a6v|e]; cbn; [|reflexivity]));
    (destruct (is_none asn) eqn:Ea; cbn; [|rewrite Ha; destruct Aa as [av|e]; cbn; [|reflexivity]]); reflexivity).
Qed.

(* ... stated on the model: with the constructors answered by the model's constructors (their results encoded as RefIo encodes them: an IP anonymizer
   as its cache, the word / AS anonymizers as tokens, the pattern table as CR), whenever the model's fa_init builds f from an option record, the
   translated __init__ called with those options builds the encoding of f -- the object the refinement of anonymize_io (RefIo) starts from *)
Definition ws_val (o : options) : pyval := oenc (fun l => VList (map vstr l)) (o_words o).
Definition asn_val (o : options) : pyval := oenc (fun l => VList (map vstr l)) (o_asnums o).
Definition reserved_of (o : options) : list str := match o_reserved o with Some r => G_text_consts.RESERVED_WORDS ++ r | None => G_text_consts.RESERVED_WORDS end.
Definition ans_words (o : options) : answer :=
  match o_words o with Some l => match word_init l (o_salt o) (reserved_of o) with Done _ => Ans TOKW | Raised _ => Fails (ValueError []) end | None => Ans VNone end.
Definition ans_as (o : options) : answer :=
  match o_asnums o with Some l => match as_init l (o_salt o) with Done _ => Ans TOKA | Raised _ => Fails (ValueError []) end | None => Ans VNone end.
Definition ans_ip4 (o : options) : answer :=
  match ip4_init (salter_md5 (o_salt o)) (o_b4 o) (match o_prefixes o with Some p => p | None => G_ip_consts.DEFAULT_PRESERVED_PREFIXES end)
                 (match o_networks o with Some n => n | None => [] end) with
  | Memo.Ok a4 => Ans (eip false a4) | Memo.Err => Fails DuplicationError end.
Definition ans_ip6 (o : options) : answer := Ans (eip true (ip6_init (salter_md5 (o_salt o)) (o_b6 o))).

Theorem gen_fa_init_is_the_model (pc : pyval -> pyval -> PyLib.res) (cls : list Z) (o : options) (pv pn b4 b6 : pyval) (f : file_anonymizer) (fuel : nat) :
  pc (VFun (of_string "generate_default_sensitive_item_regexes")) (VTuple [VList []; VDict []]) = Normal CR ->
  pc (VFun (of_string "default_reserved_words")) (VList []) = Normal (vres G_text_consts.RESERVED_WORDS) ->
  pc (VFun (of_string "SensitiveWordAnonymizer")) (VTuple [VList [ws_val o; vstr (o_salt o); vres (reserved_of o)]; VDict []]) = to_res (ans_words o) ->
  pc (VFun (of_string "IpAnonymizer")) (VTuple [VList [vstr (o_salt o); pv; pn]; VDict [(S_ "preserve_suffix", b4)]]) = to_res (ans_ip4 o) ->
  pc (VFun (of_string "IpV6Anonymizer")) (VTuple [VList [vstr (o_salt o)]; VDict [(S_ "preserve_suffix", b6)]]) = to_res (ans_ip6 o) ->
  pc (VFun (of_string "AsNumberAnonymizer")) (VTuple [VList [asn_val o; vstr (o_salt o)]; VDict []]) = to_res (ans_as o) ->
  fa_init o = Done f ->
  gen_FileAnonymizer____init__ pc fuel (VObj cls []) (VBool (o_pwd o)) (VBool (o_ip o)) (vstr (o_salt o)) (ws_val o) (VBool (o_undo o)) (asn_val o)
      (oenc VList (option_map (map vstr) (o_reserved o))) pv pn b4 b6
  = Normal (VTuple [VNone; enc_fa cls f]).
Proof.
  intros Hcr Hdr Hw H4 H6 Ha E.
  unfold fa_init in E. cbv zeta in E. unfold ans_words, reserved_of, vres in *.
  set (RW := G_text_consts.RESERVED_WORDS) in *. clearbody RW.
  assert (HR : Rl (option_map (map vstr) (o_reserved o)) (map vstr RW) = map vstr (match o_reserved o with Some r => RW ++ r | None => RW end)).
  { unfold Rl. destruct (o_reserved o); cbn [option_map]; [now rewrite map_app|reflexivity]. }
  match type of Hw with _ = to_res ?aw =>
    assert (Hw' : pc (VFun (of_string "SensitiveWordAnonymizer")) (VTuple [VList [ws_val o; vstr (o_salt o); VList (Rl (option_map (map vstr) (o_reserved o)) (map vstr RW))]; VDict []]) = to_res aw)
      by (rewrite HR; exact Hw);
    rewrite (gen_fa_init_refines pc cls (o_pwd o) (o_ip o) (o_undo o) (o_salt o) (ws_val o) (asn_val o) pv pn b4 b6 CR
             (option_map (map vstr) (o_reserved o)) (map vstr RW) aw (ans_ip4 o) (ans_ip6 o) (ans_as o) fuel Hcr Hdr Hw' H4 H6 Ha) end.
  rewrite HR. unfold built.
  unfold ws_val, asn_val, ans_as, ans_ip4, ans_ip6 in *.
  destruct (o_words o) as [wl|]; cbn [oenc is_none] in *.
  - destruct (word_init wl (o_salt o) _) as [w|e]; cbn [obind] in E; [|discriminate].
    destruct (o_ip o || o_undo o).
    + destruct (ip4_init _ _ _ _) as [a4|]; cbn [obind] in E; [|discriminate].
      destruct (o_asnums o) as [al|]; cbn [oenc is_none obind] in *.
      * destruct (as_init al (o_salt o)) as [x|e]; cbn [obind] in E; [|discriminate]. destruct (utf8 (o_salt o)); [|discriminate]. injection E as <-. unfold enc_fa, vres; cbn [fa_undo fa_salt fa_pwd fa_reserved fa_a4 fa_a6 fa_words fa_as oenc fst snd]; destruct (o_pwd o); reflexivity.
      * destruct (utf8 (o_salt o)); [|discriminate]. injection E as <-. unfold enc_fa, vres; cbn [fa_undo fa_salt fa_pwd fa_reserved fa_a4 fa_a6 fa_words fa_as oenc fst snd]; destruct (o_pwd o); reflexivity.
    + cbn [obind] in E. destruct (o_asnums o) as [al|]; cbn [oenc is_none obind] in *.
      * destruct (as_init al (o_salt o)) as [x|e]; cbn [obind] in E; [|discriminate]. destruct (utf8 (o_salt o)); [|discriminate]. injection E as <-. unfold enc_fa, vres; cbn [fa_undo fa_salt fa_pwd fa_reserved fa_a4 fa_a6 fa_words fa_as oenc fst snd]; destruct (o_pwd o); reflexivity.
      * destruct (utf8 (o_salt o)); [|discriminate]. injection E as <-. unfold enc_fa, vres; cbn [fa_undo fa_salt fa_pwd fa_reserved fa_a4 fa_a6 fa_words fa_as oenc fst snd]; destruct (o_pwd o); reflexivity.
  - cbn [obind] in E. destruct (o_ip o || o_undo o).
    + destruct (ip4_init _ _ _ _) as [a4|]; cbn [obind] in E; [|discriminate].
      destruct (o_asnums o) as [al|]; cbn [oenc is_none obind] in *.
      * destruct (as_init al (o_salt o)) as [x|e]; cbn [obind] in E; [|discriminate]. destruct (utf8 (o_salt o)); [|discriminate]. injection E as <-. unfold enc_fa, vres; cbn [fa_undo fa_salt fa_pwd fa_reserved fa_a4 fa_a6 fa_words fa_as oenc fst snd]; destruct (o_pwd o); reflexivity.
      * destruct (utf8 (o_salt o)); [|discriminate]. injection E as <-. unfold enc_fa, vres; cbn [fa_undo fa_salt fa_pwd fa_reserved fa_a4 fa_a6 fa_words fa_as oenc fst snd]; destruct (o_pwd o); reflexivity.
    + cbn [obind] in E. destruct (o_asnums o) as [al|]; cbn [oenc is_none obind] in *.
      * destruct (as_init al (o_salt o)) as [x|e]; cbn [obind] in E; [|discriminate]. destruct (utf8 (o_salt o)); [|discriminate]. injection E as <-. unfold enc_fa, vres; cbn [fa_undo fa_salt fa_pwd fa_reserved fa_a4 fa_a6 fa_words fa_as oenc fst snd]; destruct (o_pwd o); reflexivity.
      * destruct (utf8 (o_salt o)); [|discriminate]. injection E as <-. unfold enc_fa, vres; cbn [fa_undo fa_salt fa_pwd fa_reserved fa_a4 fa_a6 fa_words fa_as oenc fst snd]; destruct (o_pwd o); reflexivity.
Qed.
