(* Refinement of the GENERATED _generate_bit_from_hash (gen/G_fn_ip.v) to the model's hash_bit (model/IpModel.v):
   int(md5((salt + string).encode()).hexdigest()[-1], 16) & 1  =  parity of the last MD5 byte *)
From Coq Require Import String.
From Coq Require Import List ZArith NArith Bool Lia.
Require Import PyLib PyHash G_fn_ip Str Md5 IpModel.
Import ListNotations.
Local Open Scope Z_scope.

Lemma md5_length msg : List.length (md5 msg) = 16%nat.
Proof. unfold md5. destruct (fold_left block _ _) as [[[a b] c] d]. reflexivity. Qed.

Lemma map_to_of (s : list N) : map Z.to_N (map Z.of_N s) = s.
Proof. induction s as [|c s IH]; cbn; [reflexivity|]. now rewrite N2Z.id, IH. Qed.

Lemma last_hex_digit (bs : list N) : List.length bs = 16%nat ->
  nth_error (map Z.of_N (hex_of_bytes bs)) 31 = Some (Z.of_N (hex_digit (nth 15 bs 0%N mod 16))).
Proof.
  intro H. do 16 (destruct bs as [|? bs]; [discriminate|]). destruct bs; [|discriminate]. reflexivity.
Qed.
Lemma hex_len (bs : list N) : List.length bs = 16%nat -> List.length (map Z.of_N (hex_of_bytes bs)) = 32%nat.
Proof. intro H. do 16 (destruct bs as [|? bs]; [discriminate|]). destruct bs; [|discriminate]. reflexivity. Qed.

Lemma parity_of_hex_digit (d : N) : (d < 16)%N ->
  py_int (VStr [Z.of_N (hex_digit d)]) (VInt 16) = Normal (VInt (Z.of_N d)).
Proof.
  intro H. assert (E : In d [0;1;2;3;4;5;6;7;8;9;10;11;12;13;14;15]%N).
  { destruct d as [|p]; [left; reflexivity|]. do 4 (destruct p as [p|p|]; try lia; cbn; try tauto). all: try (destruct p; lia). }
  cbn in E. repeat (destruct E as [<-|E]; [reflexivity|]). contradiction.
Qed.

Theorem gen_generate_bit_refines :
  forall (py_call : pyval -> pyval -> PyLib.res) (fuel : nat) (salt s : str) (b : bool),
  hash_bit salt s = Some b ->
  gen__generate_bit_from_hash py_call fuel (VStr (map Z.of_N salt)) (VStr (map Z.of_N s)) = Normal (VInt (if b then 1 else 0)).
Proof.
  intros pc fuel salt s b Hb. unfold hash_bit in Hb. unfold gen__generate_bit_from_hash.
  cbn [py_add bind]. unfold py_md5_hexdigest. rewrite <- map_app, map_to_of.
  destruct (utf8 (salt ++ s)) as [bytes|]; [|discriminate]. injection Hb as <-.
  cbn [bind py_neg py_getitem]. unfold norm_idx. rewrite (hex_len _ (md5_length bytes)).
  cbn [Z.ltb Z.compare Z.opp Z.add Z.of_nat Pos.of_succ_nat Pos.succ orb Z.leb Z.to_nat Pos.to_nat Pos.iter_op Nat.add Z.pos_sub Pos.pred_double].
  change (32 <=? 31) with false. change (Pos.to_nat 31) with 31%nat. cbv iota. rewrite (last_hex_digit _ (md5_length bytes)). cbn [bind].
  rewrite parity_of_hex_digit by (apply N.mod_upper_bound; discriminate). cbn [bind py_and intop call].
  f_equal. f_equal.
  set (x := nth 15 (md5 bytes) 0%N). 
  assert (Hodd : N.odd (x mod 16) = N.odd x).
  { rewrite <- !N.bit0_odd. change 16%N with (2 ^ 4)%N. rewrite (N.mod_pow2_bits_low x 4 0) by reflexivity. reflexivity. }
  rewrite <- Hodd. generalize (x mod 16)%N. intros [|[p|p|]]; reflexivity.
Qed.
Print Assumptions gen_generate_bit_refines.

(* the dispatcher the correspondence run uses for the generated classes (model/DriverFn.md5_call is this function): the salter field is
   called with (salt, bit string) and answers with the generated _generate_bit_from_hash.  For every salt Python can encode, that is the
   flip function salter_md5 of the typed model -- the hypothesis `salter_spec` of RefAnon/RefDeanon/RefInit, discharged. *)
Require Import RefIpCommon.
Require DriverFn.
Notation md5_call := DriverFn.md5_call.
Lemma utf8_bits (b : list bool) : utf8 (str_of_bits b) = Some (str_of_bits b).
Proof. induction b as [|x b IH]; cbn; [reflexivity|]. unfold str_of_bits in IH. rewrite IH. destruct x; reflexivity. Qed.
Lemma utf8_app a b : utf8 (a ++ b) = match utf8 a, utf8 b with Some x, Some y => Some (x ++ y) | _, _ => None end.
Proof.
  induction a as [|c a IH]; cbn.
  - destruct (utf8 b); reflexivity.
  - rewrite IH. destruct (utf8_char c); [|reflexivity]. destruct (utf8 a); [|reflexivity]. destruct (utf8 b); [|reflexivity]. now rewrite app_assoc.
Qed.
Lemma enc_is_str_of_bits b : enc b = map Z.of_N (str_of_bits b).
Proof. induction b as [|x b IH]; cbn; [reflexivity|]. unfold enc in IH. rewrite IH. destruct x; reflexivity. Qed.

Theorem md5_call_is_salter_md5 : forall (salt : str) (salterv : pyval) (b : list bool),
  utf8 salt <> None ->
  md5_call salterv (VList [VStr (map Z.of_N salt); VS b]) = Normal (VInt (if salter_md5 salt b then 1 else 0)).
Proof.
  intros salt salterv b Hs. unfold md5_call, VS. rewrite enc_is_str_of_bits.
  apply gen_generate_bit_refines. unfold salter_md5, hash_bit. rewrite utf8_app, utf8_bits.
  destruct (utf8 salt) as [sb|]; [reflexivity|contradiction].
Qed.
Print Assumptions md5_call_is_salter_md5.
