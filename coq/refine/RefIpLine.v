(* _anonymize_match and anonymize_ip_addr as GENERATED from the source (gen/G_fn_ip2.v) against the model's ip_match / anonymize_ip_line
   (model/TextModel.v): the text-level logic of the IP stage -- what the pattern matched is parsed (left alone if it is not an address), masks
   and preserved networks are left alone, the address is anonymized or de-anonymized according to the undo flag, the new address printed,
   every match of the line treated in turn with the anonymizer's cache carried along, the rest of the line copied.
   The anonymizer's own methods are calls of the py_call parameter here (they are refined separately: RefAnon, RefDeanon, RefShould, RefMask);
   the dispatcher ip_call answers them with the MODEL's functions; an anonymizer object is its cache (RefIoBase.eip), the rest is a parameter. *)
From Coq Require Import String.
From Coq Require Import List ZArith NArith Bool Arith Lia.
Import ListNotations.
Require Import PyLib PyLib2 Str IpText Rx RxFacts RxSub G_rx Memo IpModel TextModel G_fn_ip2 RefJun RefStr RefIpCommon RefBase RefSub RefIoBase.
Notation vstr := RefJun.vstr.

Section L.
Variable v6 : bool.
Variable t : anonymizer.           (* everything of the anonymizer but its cache *)
Definition HRX : pyval := VStr [82%Z].
Definition rx_of_ip (h : pyval) : option re := match h with VStr [82%Z] => Some (if v6 then IPV6_RX else IPV4_RX) | _ => None end.
Definition parse_ip (m : str) : option N := if v6 then parse6 m else make_addr4 m.
Definition print_ip (y : N) : str := if v6 then print6 y else print4 y.
Definition nm (n : list Z) (s : string) : bool := if list_eq_dec Z.eq_dec n (of_string s) then true else false.
Definition obj_of (v : pyval) : option anonymizer := match v with VTuple [VBool _; VBidict l] => Some (with_cache t (decD l)) | _ => None end.
Definition ip_call (f a : pyval) : PyLib.res :=
  match f with
  | VFun n =>
      if nm n "make_addr" then
        match a with VList [_; VStr m] => match parse_ip (to_strz m) with Some x => Normal (VAddr (if v6 then 6 else 4) (Z.of_N x)) | None => Exc (ValueError []) end
                   | _ => Exc TypeError end
      else if nm n "should_anonymize" then
        match a with VList [o; VInt x] => match obj_of o with Some an => Normal (VBool (if v6 then true else should_anonymize4 an (Z.to_N x))) | None => Exc TypeError end
                   | _ => Exc TypeError end
      else if nm n "anonymize" then
        match a with VList [o; VInt x] => match obj_of o with
                                          | Some an => match anonymize_int an (Z.to_N x) with Ok (an', y) => Normal (VTuple [VInt (Z.of_N y); eip v6 an']) | Err => Exc KeyError end
                                          | None => Exc TypeError end
                   | _ => Exc TypeError end
      else if nm n "deanonymize" then
        match a with VList [o; VInt x] => match obj_of o with
                                          | Some an => match deanonymize_int an (Z.to_N x) with Ok (an', y) => Normal (VTuple [VInt (Z.of_N y); eip v6 an']) | Err => Exc KeyError end
                                          | None => Exc TypeError end
                   | _ => Exc TypeError end
      else if nm n "make_addr_from_int" then
        match a with VList [_; VInt y] => Normal (vstr (print_ip (Z.to_N y))) | _ => Exc TypeError end
      else if nm n "get_addr_pattern" then Normal HRX
      else sub_call rx_of_ip f a
  | _ => Exc TypeError
  end.

Lemma obj_of_eip a : same_static t a -> obj_of (eip v6 a) = Some a.
Proof. intro H. unfold obj_of, eip. rewrite decD_encD. now rewrite <- H. Qed.
Lemma c_make_addr o m : ip_call (VFun (of_string "make_addr")) (VList [o; vstr m]) =
  match parse_ip m with Some x => Normal (VAddr (if v6 then 6 else 4) (Z.of_N x)) | None => Exc (ValueError []) end.
Proof. unfold RefJun.vstr. cbn. now rewrite to_strz_vstr. Qed.
Lemma c_should a x : same_static t a -> ip_call (VFun (of_string "should_anonymize")) (VList [eip v6 a; VInt (Z.of_N x)]) = Normal (VBool (if v6 then true else should_anonymize4 a x)).
Proof. intro H. cbn -[obj_of eip]. rewrite (obj_of_eip a H), N2Z.id. reflexivity. Qed.
Lemma c_anon a x : same_static t a -> ip_call (VFun (of_string "anonymize")) (VList [eip v6 a; VInt (Z.of_N x)]) =
  match anonymize_int a x with Ok (an', y) => Normal (VTuple [VInt (Z.of_N y); eip v6 an']) | Err => Exc KeyError end.
Proof. intro H. cbn -[obj_of eip anonymize_int]. rewrite (obj_of_eip a H), N2Z.id. reflexivity. Qed.
Lemma c_deanon a x : same_static t a -> ip_call (VFun (of_string "deanonymize")) (VList [eip v6 a; VInt (Z.of_N x)]) =
  match deanonymize_int a x with Ok (an', y) => Normal (VTuple [VInt (Z.of_N y); eip v6 an']) | Err => Exc KeyError end.
Proof. intro H. cbn -[obj_of eip deanonymize_int]. rewrite (obj_of_eip a H), N2Z.id. reflexivity. Qed.
Lemma c_from_int o y : ip_call (VFun (of_string "make_addr_from_int")) (VList [o; VInt (Z.of_N y)]) = Normal (vstr (print_ip y)).
Proof. cbn -[print_ip]. now rewrite N2Z.id. Qed.
Lemma c_pattern o : ip_call (VFun (of_string "get_addr_pattern")) (VList [o]) = Normal HRX. Proof. reflexivity. Qed.
Lemma c_finditer l : ip_call (VFun (of_string "finditer")) (VList [HRX; vstr l]) =
  Normal (VList (map (enc_match l HRX) (matches l (S (length l)) (if v6 then IPV6_RX else IPV4_RX) 0))).
Proof. change (ip_call (VFun (of_string "finditer")) (VList [HRX; vstr l])) with (sub_call rx_of_ip (VFun (of_string "finditer")) (VList [HRX; vstr l])). now apply call_finditer. Qed.
Lemma c_group0 h l a b : ip_call (VFun (of_string "group")) (VList [VTuple [h; vstr l; VInt (Z.of_nat a); VInt (Z.of_nat b)]; VInt 0]) = Normal (vstr (substr l a b)).
Proof. change (ip_call (VFun (of_string "group")) ?x) with (sub_call rx_of_ip (VFun (of_string "group")) x). apply call_group0. Qed.

(* what the two theorems below use of the dispatcher, so that they hold for any dispatcher that answers these calls this way *)
Definition ip_contract (pc : pyval -> pyval -> PyLib.res) (hrx : pyval) : Prop :=
  (forall a m, pc (VFun (of_string "make_addr")) (VList [eip v6 a; vstr m]) = match parse_ip m with Some x => Normal (VAddr (if v6 then 6 else 4) (Z.of_N x)) | None => Exc (ValueError []) end) /\
  (forall a x, same_static t a -> pc (VFun (of_string "should_anonymize")) (VList [eip v6 a; VInt (Z.of_N x)]) = Normal (VBool (if v6 then true else should_anonymize4 a x))) /\
  (forall a x, same_static t a -> pc (VFun (of_string "anonymize")) (VList [eip v6 a; VInt (Z.of_N x)]) =
     match anonymize_int a x with Ok (an', y) => Normal (VTuple [VInt (Z.of_N y); eip v6 an']) | Err => Exc KeyError end) /\
  (forall a x, same_static t a -> pc (VFun (of_string "deanonymize")) (VList [eip v6 a; VInt (Z.of_N x)]) =
     match deanonymize_int a x with Ok (an', y) => Normal (VTuple [VInt (Z.of_N y); eip v6 an']) | Err => Exc KeyError end) /\
  (forall a y, pc (VFun (of_string "make_addr_from_int")) (VList [eip v6 a; VInt (Z.of_N y)]) = Normal (vstr (print_ip y))) /\
  (forall a, pc (VFun (of_string "get_addr_pattern")) (VList [eip v6 a]) = Normal hrx) /\
  (forall l, pc (VFun (of_string "finditer")) (VList [hrx; vstr l]) = Normal (VList (map (enc_match l hrx) (matches l (S (length l)) (if v6 then IPV6_RX else IPV4_RX) 0)))) /\
  (forall l a b, pc (VFun (of_string "group")) (VList [VTuple [hrx; vstr l; VInt (Z.of_nat a); VInt (Z.of_nat b)]; VInt 0]) = Normal (vstr (substr l a b))).
Lemma ip_call_contract : ip_contract ip_call HRX.
Proof.
  refine (conj _ (conj _ (conj _ (conj _ (conj _ (conj _ (conj _ _))))))); intros.
  - apply c_make_addr.
  - now apply c_should.
  - now apply c_anon.
  - now apply c_deanon.
  - apply c_from_int.
  - apply c_pattern.
  - apply c_finditer.
  - apply c_group0.
Qed.

Section P.
Variable pc : pyval -> pyval -> PyLib.res.
Variable hrx : pyval.
Hypothesis Hpc : ip_contract pc hrx.
Let p_make_addr := proj1 Hpc.
Let p_should := proj1 (proj2 Hpc).
Let p_anon := proj1 (proj2 (proj2 Hpc)).
Let p_deanon := proj1 (proj2 (proj2 (proj2 Hpc))).
Let p_from_int := proj1 (proj2 (proj2 (proj2 (proj2 Hpc)))).
Let p_pattern := proj1 (proj2 (proj2 (proj2 (proj2 (proj2 Hpc))))).
Let p_finditer := proj1 (proj2 (proj2 (proj2 (proj2 (proj2 (proj2 Hpc)))))).
Let p_group0 := proj2 (proj2 (proj2 (proj2 (proj2 (proj2 (proj2 Hpc)))))).

(* one match *)
Lemma int_static a x a' y : same_static t a -> anonymize_int a x = Ok (a', y) -> same_static t a'.
Proof. intros H. unfold anonymize_int. destruct (negb (in_range a x)); [discriminate|]. destruct (Memo.anonymize _ _ _ _ _) as [[d z]|]; [|discriminate]. intros [= <- _]. rewrite H. reflexivity. Qed.
Lemma deint_static a x a' y : same_static t a -> deanonymize_int a x = Ok (a', y) -> same_static t a'.
Proof. intros H. unfold deanonymize_int. destruct (negb (in_range a x)); [discriminate|]. destruct (Memo.deanonymize _ _ _ _ _) as [[d z]|]; [|discriminate]. intros [= <- _]. rewrite H. reflexivity. Qed.

Theorem gen_anonymize_match_refines fuel a m (undo : bool) : same_static t a ->
  match ip_match v6 undo (Done a) m with
  | (Done a', out) => gen__anonymize_match pc fuel (eip v6 a) (vstr m) (VBool undo) = Normal (VTuple [vstr out; eip v6 a']) /\ same_static t a'
  | (Raised _, _) => True
  end.
Proof.
  intro Hs. unfold ip_match, gen__anonymize_match. fold (parse_ip m). rewrite p_make_addr.
  destruct (parse_ip m) as [x|]; cbn [PyLib.bind py_try_ve PyLib.bindS call].
  2:{ split; [reflexivity|exact Hs]. }
  cbn [py_int PyLib.bind]. rewrite (p_should a x Hs). cbn [PyLib.bind py_not truthy].
  destruct (if v6 then true else should_anonymize4 a x); cbn [negb PyLib.bindS truthy call].
  2:{ split; [reflexivity|exact Hs]. }
  destruct undo; cbn [truthy PyLib.bindS PyLib.bind].
  - rewrite (p_deanon a x Hs). destruct (deanonymize_int a x) as [[a' y]|] eqn:E; [|exact I]. cbn [PyLib.bind PyLib.bindS unpack2]. rewrite p_from_int. cbn [PyLib.bind py_str call]. unfold print_ip.
    split; [reflexivity|exact (deint_static a x a' y Hs E)].
  - rewrite (p_anon a x Hs). destruct (anonymize_int a x) as [[a' y]|] eqn:E; [|exact I]. cbn [PyLib.bind PyLib.bindS unpack2]. rewrite p_from_int. cbn [PyLib.bind py_str call]. unfold print_ip.
    split; [reflexivity|exact (int_static a x a' y Hs E)].
Qed.

(* the whole line *)
Definition ip_cb (undo : bool) (line : str) (st : outcome anonymizer) (i j : nat) (_ : caps) : outcome anonymizer * list chr := ip_match v6 undo st (substr line i j).
Lemma raised_absorbs undo line w : forall ms, fst (run_cb (ip_cb undo line) (Raised w) ms) = Raised w.
Proof. induction ms as [|[[i j] c] ms IH]; cbn [run_cb]; [reflexivity|]. unfold ip_cb at 1. cbn [ip_match]. destruct (run_cb (ip_cb undo line) (Raised w) ms) as [st2 reps]. exact IH. Qed.

Theorem gen_anonymize_ip_addr_refines fuel a line (undo : bool) a' l : same_static t a ->
  anonymize_ip_line v6 undo a line = Done (a', l) ->
  gen_anonymize_ip_addr pc fuel (eip v6 a) (vstr line) (VBool undo) = Normal (VTuple [vstr l; eip v6 a']).
Proof.
  intros Hs. unfold anonymize_ip_line, sub_fn. destruct (nullable (if v6 then IPV6_RX else IPV4_RX)); [discriminate|].
  change (fun (st : outcome anonymizer) (i j : nat) (_ : caps) => ip_match v6 undo st (substr line i j)) with (ip_cb undo line).
  rewrite sub_loop_fold. set (ms := matches line (S (slen line)) (if v6 then IPV6_RX else IPV4_RX) 0).
  destruct (run_cb (ip_cb undo line) (Done a) ms) as [st reps] eqn:Er. destruct st as [af|w]; [|discriminate]. intros [= <- <-].
  unfold gen_anonymize_ip_addr. rewrite (p_pattern a). cbn [PyLib.bind]. rewrite p_finditer. change (matches line (S (length line)) (if v6 then IPV6_RX else IPV4_RX) 0) with ms.
  cbn [PyLib.bind py_iter].
  match goal with |- context [py_for _ ?b _] => set (B := b) end.
  assert (Hloop : forall ms0 a0 af0 reps0 acc j, same_static t a0 -> run_cb (ip_cb undo line) (Done a0) ms0 = (Done af0, reps0) ->
            exists j', py_for (map (enc_match line hrx) ms0) B (eip v6 a0, vstr line, VBool undo, hrx, j, VList acc)
                       = Normal (eip v6 af0, vstr line, VBool undo, hrx, j', VList (acc ++ map vstr reps0))).
  { induction ms0 as [|[[i j0] c] ms0 IH]; intros a0 af0 reps0 acc j Hs0; cbn [run_cb map py_for].
    - intros [= <- <-]. rewrite app_nil_r. eauto.
    - unfold ip_cb at 1. pose proof (gen_anonymize_match_refines fuel a0 (substr line i j0) undo Hs0) as Hm.
      destruct (ip_match v6 undo (Done a0) (substr line i j0)) as [[a1|w] rep].
      2:{ pose proof (raised_absorbs undo line w ms0) as Hr. destruct (run_cb (ip_cb undo line) (Raised w) ms0) as [st2 reps2]. cbn [fst] in Hr. subst st2. discriminate. }
      destruct Hm as [Em Hs1]. destruct (run_cb (ip_cb undo line) (Done a1) ms0) as [st2 reps2] eqn:Er2. intros [= -> <-].
      unfold B at 1. cbv beta iota. cbn [enc_match].
      replace (py_getitem (VTuple [VInt (Z.of_nat i); VInt (Z.of_nat j0); VTuple [hrx; vstr line; VInt (Z.of_nat i); VInt (Z.of_nat j0)]]) (VInt 2))
        with (@Normal pyval (VTuple [hrx; vstr line; VInt (Z.of_nat i); VInt (Z.of_nat j0)])) by reflexivity.
      cbn [PyLib.bind]. rewrite p_group0. cbn [PyLib.bind]. rewrite Em. cbn [PyLib.bind unpack2 py_list_append].
      destruct (IH a1 af0 reps2 (acc ++ [vstr rep]) (VTuple [hrx; vstr line; VInt (Z.of_nat i); VInt (Z.of_nat j0)]) Hs1 Er2) as (j' & Ej). rewrite Ej.
      exists j'. cbn [map]. now rewrite <- app_assoc. }
  destruct (Hloop ms a af reps [] VNone Hs Er) as (j' & El). rewrite El. cbn [PyLib.bind app].
  rewrite py_stitch_refines.
  - reflexivity.
  - pose proof (run_cb_length (ip_cb undo line) ms (Done a)) as Hlen. rewrite Er in Hlen. exact Hlen.
Qed.
End P.

Theorem gen_anonymize_ip_addr_refines_concrete fuel a line (undo : bool) a' l : same_static t a ->
  anonymize_ip_line v6 undo a line = Done (a', l) ->
  gen_anonymize_ip_addr ip_call fuel (eip v6 a) (vstr line) (VBool undo) = Normal (VTuple [vstr l; eip v6 a']).
Proof. exact (gen_anonymize_ip_addr_refines ip_call HRX ip_call_contract fuel a line undo a' l). Qed.
End L.

