(* Helper facts about the regex engine on sequences / single characters and about the Python-library models of len, slices, indexing and enumerate
   on encoded strings.  Nothing here mentions a function translated from the source (only RefJun for the encoding vstr / vch), so a refinement file
   that needs these facts only does not depend on the refinement of unrelated functions. *)
From Coq Require Import String.
From Coq Require Import List ZArith NArith Bool Arith Lia.
Import ListNotations.
Require Import PyLib PyRe Str Rx RxFacts RxSub RxComplete G_juniper JunModel JunProofs RefJun.

Section V.
Variable s : list chr.
Notation slen := (length s).

Lemma ms_seq_in a b i c q : In q (ms s (Seq a b) i c) <-> exists p, In p (ms s a i c) /\ In q (ms s b (fst p) (snd p)).
Proof. cbn [ms]. apply in_flat_map. Qed.
Lemma ms_chr_in cs i c p : In p (ms s (Chr cs) i c) -> exists x, nth_error s i = Some x /\ in_cset x cs = true /\ p = (S i, c).
Proof. cbn [ms]. destruct (nth_error s i) as [x|]; [|intros []]. destruct (in_cset x cs) eqn:E; [|intros []]. intros [<-|[]]. eauto. Qed.

Lemma mandc_chr_ge g cs : forall lo hi i c j c', In (j,c') (mandc s g (Chr cs) lo hi i c) -> i + lo <= j.
Proof.
  induction lo as [|lo IH]; intros hi i c j c' H.
  - rewrite <- (ms_rep s g (Chr cs) 0 hi) in H. apply ms_mono in H. lia.
  - cbn [mandc] in H. apply in_flat_map in H as (p & Hp & Hq). apply ms_chr_in in Hp as (x & _ & _ & ->). cbn [fst snd] in Hq. apply IH in Hq. lia.
Qed.

Lemma repn_then_eos_head cs : forall lo i c, i + lo <= slen -> all_from s cs i ->
  exists rest, flat_map (fun p => ms s Eos (fst p) (snd p)) (mandc s true (Chr cs) lo None i c) = (slen, c) :: rest.
Proof.
  induction lo as [|lo IH]; intros i c Hi Hall.
  - cbn [mandc]. destruct (optc_class_greedy_head s cs (slen - i) (S slen) i c eq_refl ltac:(lia) ltac:(lia) Hall) as (rest & ->).
    cbn [flat_map fst snd ms]. unfold Rx.slen. rewrite Nat.eqb_refl. cbn [app]. eauto.
  - cbn [mandc ms option_map]. destruct (nth_error s i) as [x|] eqn:E; [|apply nth_error_None in E; lia].
    rewrite (Hall i x (le_n _) E). cbn [flat_map fst snd]. rewrite app_nil_r.
    apply IH; [lia|]. intros j y Hj Hy. apply (Hall j y); [lia|exact Hy].
Qed.
End V.

Lemma py_len_vstr s : py_len (vstr s) = Normal (VInt (Z.of_nat (length s))).
Proof. unfold vstr. cbn [py_len]. now rewrite map_length. Qed.

Lemma clamp_nat n k d : clamp n (Some (Z.of_nat k)) d = Nat.min k n.
Proof. assert (E : (Z.of_nat k <? 0)%Z = false) by (apply Z.ltb_ge; lia). unfold clamp. cbv zeta. rewrite !E. destruct (Z.ltb_spec (Z.of_nat n) (Z.of_nat k)); lia. Qed.
Lemma slice_from {A} (l : list A) k : slice l (Some (Z.of_nat k)) None = skipn k l.
Proof.
  unfold slice. cbv zeta. rewrite clamp_nat. cbn [clamp].
  destruct (Nat.le_gt_cases k (length l)).
  - rewrite Nat.min_l by lia. rewrite <- skipn_length. apply firstn_all.
  - rewrite Nat.min_r by lia. rewrite Nat.sub_diag. cbn [firstn]. symmetry. apply skipn_all2. lia.
Qed.
Lemma slice_to {A} (l : list A) k : slice l None (Some (Z.of_nat k)) = firstn k l.
Proof.
  unfold slice. cbv zeta. rewrite clamp_nat. cbn [clamp skipn]. rewrite Nat.sub_0_r.
  destruct (Nat.le_gt_cases k (length l)).
  - now rewrite Nat.min_l by lia.
  - rewrite Nat.min_r by lia. rewrite firstn_all. symmetry. apply firstn_all2. lia.
Qed.
Lemma py_slice_from s k : py_slice (vstr s) (VInt (Z.of_nat k)) VNone = Normal (vstr (skipn k s)).
Proof. unfold py_slice, vstr. cbn [optZ bind]. rewrite slice_from. now rewrite skipn_map. Qed.
Lemma py_slice_to s k : py_slice (vstr s) VNone (VInt (Z.of_nat k)) = Normal (vstr (firstn k s)).
Proof. unfold py_slice, vstr. cbn [optZ bind]. rewrite slice_to. now rewrite firstn_map. Qed.

Lemma forallb_firstn {A} (f : A -> bool) k l : forallb f l = true -> forallb f (firstn k l) = true.
Proof. rewrite !forallb_forall. intros H x Hx. apply H. eapply in_firstn'; eauto. Qed.
Lemma to_of_N s : map Z.to_N (map Z.of_N s) = s.
Proof. induction s as [|x s IH]; cbn [map]; [reflexivity|]. now rewrite N2Z.id, IH. Qed.
Lemma py_getitem_vstr_nat (l : str) (k : nat) c : nth_error l k = Some c -> py_getitem (vstr l) (VInt (Z.of_nat k)) = Normal (vch c).
Proof.
  intro H. assert (Hk : (k < length l)%nat) by (apply nth_error_Some; congruence).
  unfold py_getitem, vstr, norm_idx. rewrite map_length. cbv zeta.
  replace (Z.of_nat k <? 0)%Z with false by (symmetry; apply Z.ltb_ge; lia).
  replace ((Z.of_nat k <? 0)%Z || (Z.of_nat (length l) <=? Z.of_nat k)%Z) with false by (symmetry; apply orb_false_intro; [apply Z.ltb_ge|apply Z.leb_gt]; lia).
  rewrite Nat2Z.id, nth_error_map, H. reflexivity.
Qed.
Lemma combine_map_r {A B C} (g : B -> C) (a : list A) (b : list B) : combine a (map g b) = map (fun p => (fst p, g (snd p))) (combine a b).
Proof. revert b; induction a as [|x a IH]; intros [|y b]; cbn [combine map fst snd]; try reflexivity. now rewrite IH. Qed.
Lemma py_enumerate_vstr (l : str) :
  py_enumerate (vstr l) = Normal (VList (map (fun p => VTuple [VInt (Z.of_nat (fst p)); vch (snd p)]) (combine (seq 0 (length l)) l))).
Proof.
  unfold py_enumerate, vstr. cbn [py_iter bind]. rewrite map_map, map_length. change (fun x : N => VStr [Z.of_N x]) with vch.
  rewrite combine_map_r, map_map. cbn [fst snd]. reflexivity.
Qed.

(* ---- from the $9$ encoder's refinement: encoded characters and strings ---- *)
Local Open Scope N_scope.
Lemma zs_inj a b : map Z.of_N a = map Z.of_N b -> a = b.
Proof. revert b; induction a as [|x a IH]; intros [|y b] E; cbn in *; try discriminate; [reflexivity|]. injection E as E1 E2. apply N2Z.inj in E1. subst. f_equal. auto. Qed.

(* the generated per-character encoder does not use its dispatcher / fuel parameters *)
Lemma veq_vch a b : veq (vch a) (vch b) = N.eqb a b.
Proof. unfold vch. cbn [veq]. destruct (list_eq_dec Z.eq_dec [Z.of_N a] [Z.of_N b]) as [E|E].
  - injection E as E. apply N2Z.inj in E. subst. symmetry. apply N.eqb_refl.
  - destruct (N.eqb_spec a b) as [->|]; [contradiction|reflexivity]. Qed.
Lemma py_getitem_list_nat {X} (f : X -> pyval) (l : list X) (k : nat) x : nth_error l k = Some x -> py_getitem (VList (map f l)) (VInt (Z.of_nat k)) = Normal (f x).
Proof.
  intro H. unfold py_getitem, norm_idx. rewrite map_length. cbv zeta.
  assert (Hk : (k < length l)%nat) by (apply nth_error_Some; congruence).
  assert (E0 : (Z.of_nat k <? 0)%Z = false) by (apply Z.ltb_ge; lia). rewrite !E0.
  assert (E1 : (Z.of_nat (length l) <=? Z.of_nat k)%Z = false) by (apply Z.leb_gt; lia). rewrite E1.
  cbn [orb]. rewrite Nat2Z.id. rewrite nth_error_map, H. reflexivity.
Qed.

Lemma py_add_vstr a b : py_add (vstr a) (vstr b) = Normal (vstr (a ++ b)).
Proof. unfold vstr. cbn [py_add]. now rewrite map_app. Qed.
Lemma vch_is_vstr c : vch c = vstr [c]. Proof. reflexivity. Qed.
Lemma getitem_last (l : str) : l <> [] -> py_getitem (vstr l) (VInt (-1)) = Normal (vch (last l 0)).
Proof.
  intro Hne. unfold py_getitem, vstr, norm_idx. rewrite map_length. cbv zeta.
  change (-1 <? 0)%Z with true. cbv iota.
  assert (Hl : (0 < length l)%nat) by (destruct l; [contradiction|cbn; lia]).
  replace (-1 + Z.of_nat (length l) <? 0)%Z with false by (symmetry; apply Z.ltb_ge; lia).
  replace (Z.of_nat (length l) <=? -1 + Z.of_nat (length l))%Z with false by (symmetry; apply Z.leb_gt; lia). cbn [orb].
  replace (Z.to_nat (-1 + Z.of_nat (length l))) with (length l - 1)%nat by lia.
  rewrite nth_error_map. 
  assert (E : nth_error l (length l - 1) = Some (last l 0)).
  { clear Hl. induction l as [|x l IH]; [contradiction|]. destruct l as [|y l]; [reflexivity|].
    replace (length (x :: y :: l) - 1)%nat with (S (length (y :: l) - 1)) by (cbn; lia). cbn [nth_error]. rewrite IH by discriminate. reflexivity. }
  rewrite E. reflexivity.
Qed.
Lemma py_format_str_vstr s : py_format_str (vstr s) = Normal (vstr s). Proof. reflexivity. Qed.

(* the loop: py_for over the characters of the plaintext against enc_loop *)
