(* SensitiveWordAnonymizer.__init__ with _generate_sensitive_word_regex and _generate_conflicting_reserved_word_list as GENERATED from the source
   (gen/G_fn_sir4.v) against the model's word_init (model/TextModel.v).  A Python set is represented by the duplicate-free list of its elements in
   the order they were added (lib/PyLib2.v); re.compile is a call of the py_call parameter.  Proved: both word lists are lower-cased and freed of
   repetitions; the pattern text is "(" + the words, longest first and in code-point order among equal lengths, joined by "|" + ")", compiled with
   re.IGNORECASE -- the model's sort_words, a function of the SET of words (C13); the conflicting words are, as a set, exactly the model's; the
   replacement cache starts empty; the object has exactly these five fields. *)
From Coq Require Import String.
From Coq Require Import List ZArith NArith Bool Arith Lia Sorted.
Import ListNotations.
Require Import PyLib PyLib2 Str Rx TextModel SortProofs G_fn_sir4 RefJun RefBase RefWord.
Notation vstr := RefJun.vstr.

(* local copies of two helpers (so that this file does not depend on the refinement of unrelated functions) *)
Definition ascii (s : str) : Prop := Forall (fun c => c < 128)%N s.
Lemma py_lower_vstr w : ascii w -> py_lower (vstr w) = Normal (vstr (lower_str w)).
Proof.
  intro H. unfold py_lower, RefJun.vstr.
  assert (A : ascii_only (map Z.of_N w) = true).
  { unfold ascii_only. apply forallb_forall. intros z Hz. apply in_map_iff in Hz as (c & <- & Hc). unfold ascii in H. rewrite Forall_forall in H. specialize (H c Hc). apply Z.ltb_lt. lia. }
  rewrite A. f_equal. f_equal. unfold lower_str. rewrite !map_map. apply map_ext. intro c. unfold lower_ascii.
  replace (65 <=? Z.of_N c)%Z with (65 <=? c)%N by (destruct (N.leb_spec 65 c); [symmetry; apply Z.leb_le|symmetry; apply Z.leb_gt]; lia).
  replace (Z.of_N c <=? 90)%Z with (c <=? 90)%N by (destruct (N.leb_spec c 90); [symmetry; apply Z.leb_le|symmetry; apply Z.leb_gt]; lia).
  destruct ((65 <=? c)%N && (c <=? 90)%N); lia.
Qed.
Lemma join_strs_vstr sep : forall l, join_strs (map Z.of_N sep) (map vstr l) = Some (map Z.of_N (join sep l)).
Proof.
  induction l as [|x [|y l] IH]; [reflexivity|reflexivity|].
  cbn [map join_strs join] in *. unfold RefJun.vstr in *. rewrite IH. now rewrite !map_app.
Qed.
Lemma py_join_vstr sep l : py_join (vstr sep) (VList (map vstr l)) = Normal (vstr (join sep l)).
Proof. unfold py_join, RefJun.vstr at 1. cbn [py_iter PyLib.bind]. now rewrite join_strs_vstr. Qed.

(* ---- the library's list-of-code-points functions are the model's ---- *)
Lemma existsb_vstr (w : str) (acc : list str) : existsb (veq (vstr w)) (map vstr acc) = mem_str w acc.
Proof. unfold mem_str. induction acc as [|a acc IH]; cbn [map existsb]; [reflexivity|]. now rewrite veq_vstr_eqb, IH. Qed.
Lemma dedup_fold_vstr (l : list str) : forall acc,
  fold_left (fun acc w => if existsb (veq w) acc then acc else acc ++ [w])%list (map vstr l) (map vstr acc)
  = map vstr (fold_left (fun acc w => if mem_str w acc then acc else acc ++ [w]) l acc).
Proof.
  induction l as [|w l IH]; intros acc; cbn [map fold_left]; [reflexivity|]. rewrite existsb_vstr.
  destruct (mem_str w acc); [apply IH|]. rewrite <- IH. now rewrite map_app.
Qed.
Lemma py_dedup_vstr (l : list str) : py_dedup (VList (map vstr l)) = Normal (VList (map vstr (dedup l))).
Proof. unfold py_dedup, dedup. do 2 f_equal. exact (dedup_fold_vstr l []). Qed.

Lemma z_ltb_vstr : forall a b : str, z_ltb (map Z.of_N a) (map Z.of_N b) = str_ltb a b.
Proof.
  induction a as [|x a IH]; intros [|y b]; cbn [map z_ltb str_ltb]; try reflexivity.
  replace (Z.of_N x <? Z.of_N y)%Z with (x <? y)%N by (destruct (N.ltb_spec x y); [symmetry; apply Z.ltb_lt|symmetry; apply Z.ltb_ge]; lia).
  replace (Z.of_N y <? Z.of_N x)%Z with (y <? x)%N by (destruct (N.ltb_spec y x); [symmetry; apply Z.ltb_lt|symmetry; apply Z.ltb_ge]; lia).
  now rewrite IH.
Qed.
Lemma z_before_vstr (a b : str) : z_before (map Z.of_N a) (map Z.of_N b) = word_before a b.
Proof. unfold z_before, word_before. now rewrite !map_length, z_ltb_vstr. Qed.
Lemma z_insert_vstr (w : str) : forall l : list str, z_insert (map Z.of_N w) (map (map Z.of_N) l) = map (map Z.of_N) (insert_word w l).
Proof. induction l as [|x l IH]; cbn [map z_insert insert_word]; [reflexivity|]. rewrite z_before_vstr. destruct (word_before w x); cbn [map]; [reflexivity|now rewrite IH]. Qed.
Lemma strs_of_vstr : forall l : list str, strs_of (map vstr l) = Some (map (map Z.of_N) l).
Proof. induction l as [|x l IH]; cbn [map strs_of]; [reflexivity|]. unfold RefJun.vstr at 1. now rewrite IH. Qed.
Lemma insert_fold_vstr (l : list str) : forall acc : list str,
  fold_left (fun acc w => z_insert w acc) (map (map Z.of_N) l) (map (map Z.of_N) acc) = map (map Z.of_N) (fold_left (fun acc w => insert_word w acc) l acc).
Proof. induction l as [|w l IH]; intros acc; cbn [map fold_left]; [reflexivity|]. now rewrite z_insert_vstr, IH. Qed.
Lemma py_sorted_vstr (l : list str) : py_sorted_lenlex (VList (map vstr l)) = Normal (VList (map vstr (fold_left (fun acc w => insert_word w acc) l []))).
Proof. unfold py_sorted_lenlex. rewrite strs_of_vstr. do 2 f_equal. etransitivity; [apply f_equal; exact (insert_fold_vstr l [])|]. unfold RefJun.vstr. now rewrite map_map. Qed.

Lemma zprefix_vstr : forall p s : str, zprefix (map Z.of_N p) (map Z.of_N s) = starts_with p s.
Proof.
  induction p as [|a p IH]; intros [|b s]; cbn [map zprefix starts_with]; try reflexivity.
  replace (Z.of_N a =? Z.of_N b)%Z with (a =? b)%N by (destruct (N.eqb_spec a b); [symmetry; apply Z.eqb_eq|symmetry; apply Z.eqb_neq]; lia). now rewrite IH.
Qed.
Lemma z_contains_vstr (p : str) : forall fuel (s : str), z_contains_aux fuel (map Z.of_N p) (map Z.of_N s) = contains_aux fuel p s.
Proof. induction fuel as [|f IH]; intros s; cbn [z_contains_aux contains_aux]; [reflexivity|]. rewrite zprefix_vstr. destruct s as [|c s]; cbn [map]; [reflexivity|]. now rewrite IH. Qed.
Lemma py_in2_vstr (p s : str) : py_in2 (vstr p) (vstr s) = Normal (VBool (contains p s)).
Proof. unfold py_in2, RefJun.vstr, contains. now rewrite map_length, z_contains_vstr. Qed.

(* ---- the comprehensions ---- *)
Lemma lower_loop : forall (l acc : list str), Forall ascii l ->
  py_for (map vstr l) (fun x_ acc_ => let v_w := x_ in PyLib.bind (py_lower v_w) (fun t2 => Normal (acc_ ++ [t2])%list)) (map vstr acc)
  = Normal (map vstr (acc ++ map lower_str l)).
Proof.
  induction l as [|w l IH]; intros acc H; cbn [map py_for]; [now rewrite app_nil_r|].
  inversion H as [|? ? Hw Hl]; subst. rewrite (py_lower_vstr w Hw). cbn [PyLib.bind].
  change (map vstr acc ++ [vstr (lower_str w)])%list with (map vstr acc ++ map vstr [lower_str w])%list. rewrite <- map_app, (IH _ Hl), <- app_assoc. reflexivity.
Qed.
Lemma filter_loop (sw : str) : forall (rw acc : list str),
  py_for (map vstr rw) (fun x_ acc_ => let v_w := x_ in PyLib.bind (py_in2 (vstr sw) v_w) (fun t3 => if truthy t3 then Normal (acc_ ++ [v_w])%list else Normal acc_)) (map vstr acc)
  = Normal (map vstr (acc ++ filter (contains sw) rw)).
Proof.
  induction rw as [|w rw IH]; intros acc; cbn [map py_for filter]; [now rewrite app_nil_r|].
  rewrite py_in2_vstr. cbn [PyLib.bind truthy]. destruct (contains sw w).
  - change (map vstr acc ++ [vstr w])%list with (map vstr acc ++ map vstr [w])%list. rewrite <- map_app, IH, <- app_assoc. reflexivity.
  - apply IH.
Qed.

(* ---- _generate_conflicting_reserved_word_list ---- *)
Definition conf_step (rw : list str) (cl : list str) (sw : str) : list str := dedup (cl ++ dedup (filter (contains sw) rw)).
Definition conf_list (ws rw : list str) : list str := fold_left (conf_step rw) ws [].

Section C.
Variable pc : pyval -> pyval -> PyLib.res.
Definition conf_body (x_ : pyval) (st : pyval * pyval * pyval * pyval * pyval) : ctl (pyval * pyval * pyval * pyval * pyval) :=
  let '(v_self, v_sensitive_words, v_conflicting_words, v_sensitive_word, v_w) := st in
  let v_sensitive_word := x_ in
  PyLib.bind (py_getattr v_self "reserved_words") (fun t1 =>
  PyLib.bind (py_iter t1) (fun t2 =>
  PyLib.bind (py_for t2 (fun x_ acc_ => let v_w := x_ in PyLib.bind (py_in2 v_sensitive_word v_w) (fun t3 => if truthy t3 then Normal (acc_ ++ [v_w])%list else Normal acc_)) (@nil pyval)) (fun t4 =>
  PyLib.bind (py_list (VList t4)) (fun t5 =>
  PyLib.bind (py_dedup t5) (fun t6 =>
  PyLib.bind (py_set_union v_conflicting_words t6) (fun t7 =>
  PyLib.bind (py_dedup t7) (fun t8 =>
  let v_conflicting_words := t8 in Normal (v_self, v_sensitive_words, v_conflicting_words, v_sensitive_word, v_w)))))))).
Lemma conf_loop (self wsv lastw : pyval) (rw : list str) : py_getattr self "reserved_words" = Normal (VList (map vstr rw)) ->
  forall (ws cl : list str) (lastsw : pyval), exists lsw2,
  py_for (map vstr ws) conf_body (self, wsv, VList (map vstr cl), lastsw, lastw)
  = Normal (self, wsv, VList (map vstr (fold_left (conf_step rw) ws cl)), lsw2, lastw).
Proof.
  intro Hr. induction ws as [|sw ws IH]; intros cl lastsw; cbn [map py_for fold_left]; [now exists lastsw|].
  unfold conf_body at 1. rewrite Hr. cbn [PyLib.bind py_iter]. pose proof (filter_loop sw rw []) as F; cbn [map app] in F; rewrite F; clear F. cbn [PyLib.bind app py_list py_iter].
  rewrite py_dedup_vstr. cbn [PyLib.bind py_set_union]. rewrite <- map_app, py_dedup_vstr. cbn [PyLib.bind].
  destruct (IH (conf_step rw cl sw) (vstr sw)) as (l2 & E). exists l2. exact E.
Qed.
End C.

Definition word_pattern_text (ws : list str) : str := lit "(" ++ join [124%N] ws ++ lit ")".
Lemma format_paren (x : str) : py_format (VStr [40;123;125;41]%Z) (VList [vstr x]) (VDict []) = Normal (vstr (lit "(" ++ x ++ lit ")")).
Proof.
  unfold py_format, RefJun.vstr. cbn [List.length py_format_go take_until Z.eqb Pos.eqb rev app fmt_field PyLib.bind].
  rewrite !map_app. reflexivity.
Qed.

Theorem gen_word_init_refines (pc : pyval -> pyval -> PyLib.res) (cls : list Z) (fuel : nat) (words reserved : list str) (salt : str) (rxv : pyval) :
  Forall ascii words -> Forall ascii reserved ->
  pc (VFun (of_string "re.compile")) (VTuple [VList [vstr (word_pattern_text (sort_words (map lower_str words))); VInt 2]; VDict []]) = Normal rxv ->
  gen_SensitiveWordAnonymizer____init__ pc fuel (VObj cls []) (VList (map vstr words)) (vstr salt) (VList (map vstr reserved))
  = Normal (VTuple [VNone; wobj cls (VList (map vstr (dedup (map lower_str reserved)))) rxv
                                  (VList (map vstr (conf_list (dedup (map lower_str words)) (dedup (map lower_str reserved))))) salt []]).
Proof.
  intros Hw Hr Hrx.
  unfold gen_SensitiveWordAnonymizer____init__, gen_SensitiveWordAnonymizer___generate_sensitive_word_regex, gen_SensitiveWordAnonymizer___generate_conflicting_reserved_word_list.
  cbn [py_iter PyLib.bind].
  pose proof (lower_loop reserved [] Hr) as F; cbn [map app] in F; rewrite F; clear F. cbn [PyLib.bind app]. rewrite py_dedup_vstr. cbn [PyLib.bind py_setattr dict_set].
  pose proof (lower_loop words [] Hw) as F; cbn [map app] in F; rewrite F; clear F. cbn [PyLib.bind app]. rewrite py_dedup_vstr. cbn [PyLib.bind].
  rewrite py_sorted_vstr. cbn [PyLib.bind]. change (VStr [124%Z]) with (vstr [124%N]). rewrite py_join_vstr. cbn [PyLib.bind].
  rewrite format_paren. cbn [PyLib.bind]. unfold word_pattern_text, sort_words in Hrx. rewrite Hrx. cbn [PyLib.bind call unpack2 py_iter].
  set (rwl := VList (map vstr (dedup (map lower_str reserved)))).
  set (wsl := VList (map vstr (dedup (map lower_str words)))).
  match goal with |- context [py_for _ _ (?o, _, _, _, _)] => set (o3 := o) end.
  assert (Eo : o3 = VObj cls [(S_ "reserved_words", rwl); (S_ "salt", vstr salt); (S_ "sens_regex", rxv); (S_ "sens_word_replacements", VDict [])]) by reflexivity.
  rewrite Eo. clear Eo o3.
  destruct (conf_loop (VObj cls [(S_ "reserved_words", rwl); (S_ "salt", vstr salt); (S_ "sens_regex", rxv); (S_ "sens_word_replacements", VDict [])]) wsl VNone
              (dedup (map lower_str reserved)) eq_refl (dedup (map lower_str words)) [] VNone) as (l2 & El).
  match type of El with _ = ?rhs => match goal with |- context [py_for ?l ?f ?st] => assert (El' : py_for l f st = rhs) by exact El; rewrite El' end end.
  cbn [PyLib.bindS PyLib.bind]. match goal with |- context [if ?c then _ else _] => destruct c end; reflexivity.
Qed.

(* ---- against the model's word_init ---- *)
Lemma in_dedup (l : list str) x : In x (dedup l) <-> In x l.
Proof. unfold dedup. destruct (dedup_spec l [] (NoDup_nil _)) as [_ I]. rewrite I. cbn [In]. tauto. Qed.
Lemma in_conf_fold rw : forall ws cl x,
  In x (fold_left (conf_step rw) ws cl) <-> In x cl \/ (In x rw /\ exists sw, In sw ws /\ contains sw x = true).
Proof.
  induction ws as [|sw ws IH]; intros cl x; cbn [fold_left In].
  - split; [tauto|]. intros [H|(_ & sw & [] & _)]. exact H.
  - rewrite IH. unfold conf_step. rewrite in_dedup, in_app_iff, in_dedup, filter_In. split.
    + intros [[H|[H1 H2]]|(H1 & sw' & H2 & H3)]; [now left| right; split; [exact H1|exists sw; split; [now left|exact H2]] | right; split; [exact H1|exists sw'; split; [now right|exact H3]]].
    + intros [H|(H1 & sw' & [->|H2] & H3)]; [left; now left| left; right; split; assumption | right; split; [exact H1|exists sw'; split; assumption]].
Qed.
Lemma word_safe_ascii w : word_safe w = true -> ascii w.
Proof.
  unfold word_safe, ascii. intro H. apply andb_true_iff in H as [_ H]. rewrite forallb_forall in H. apply Forall_forall. intros c Hc. specialize (H c Hc).
  repeat match type of H with (_ || _) = true => apply orb_true_iff in H; destruct H as [H|H] end;
    repeat match type of H with (_ && _) = true => apply andb_true_iff in H; destruct H as [? H] end;
    repeat match goal with Hx : (_ <=? _)%N = true |- _ => apply N.leb_le in Hx | Hx : (_ =? _)%N = true |- _ => apply N.eqb_eq in Hx end; lia.
Qed.

Theorem gen_word_init_is_the_model (pc : pyval -> pyval -> PyLib.res) (cls : list Z) (fuel : nat) (words reserved : list str) (salt : str) (rxv : pyval) (a : word_anonymizer) :
  Forall ascii reserved ->
  pc (VFun (of_string "re.compile")) (VTuple [VList [vstr (word_pattern_text (sort_words (map lower_str words))); VInt 2]; VDict []]) = Normal rxv ->
  word_init words salt reserved = Done a ->
  exists cl,
    gen_SensitiveWordAnonymizer____init__ pc fuel (VObj cls []) (VList (map vstr words)) (vstr salt) (VList (map vstr reserved))
    = Normal (VTuple [VNone; wobj cls (VList (map vstr (dedup (map lower_str reserved)))) rxv (VList (map vstr cl)) salt []]) /\
    (forall x, In x cl <-> In x (w_conflicting a)) /\
    w_regex a = Grp 1 (alt_of (map lit_icase_rx (sort_words (map lower_str words)))) /\ w_salt a = salt.
Proof.
  intros Hr Hrx E. unfold word_init in E. destruct (forallb word_safe words) eqn:Hs; cbn [negb] in E; [|discriminate]. injection E as <-.
  cbn [w_conflicting w_regex w_salt].
  assert (Hw : Forall ascii words). { apply Forall_forall. intros w Hin. apply word_safe_ascii. rewrite forallb_forall in Hs. now apply Hs. }
  exists (conf_list (dedup (map lower_str words)) (dedup (map lower_str reserved))). split; [|split; [|split; reflexivity]].
  - exact (gen_word_init_refines pc cls fuel words reserved salt rxv Hw Hr Hrx).
  - intro x. unfold conf_list. rewrite in_conf_fold, filter_In, in_dedup. cbn [In]. split.
    + intros [[]|(H1 & sw & H2 & H3)]. split; [exact H1|]. apply existsb_exists. exists sw. split; [|exact H3].
      apply (proj2 (sort_words_spec _)). now apply in_dedup.
    + intros (H1 & H2). right. split; [exact H1|]. apply existsb_exists in H2 as (sw & H2 & H3). exists sw. split; [|exact H3].
      apply in_dedup. now apply (proj2 (sort_words_spec _)).
Qed.
