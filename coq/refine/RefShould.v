(* Refinement of the GENERATED IpAnonymizer.should_anonymize (gen/G_fn_ip.v) to the model's should_anonymize4:
   not (mask-shaped or inside one of the preserved networks the constructor stored) *)
From Coq Require Import String.
From Coq Require Import List ZArith NArith Bool Lia.
Require Import PyLib G_fn_ip Mask IpModel RefMask.
Import ListNotations.
Local Open Scope Z_scope.

Definition vnet (net : N * nat) : pyval := VNet 4 (Z.of_N (fst net)) (Z.of_nat (snd net)).

Lemma of_N_shiftr a k : Z.shiftr (Z.of_N a) (Z.of_N k) = Z.of_N (N.shiftr a k).
Proof.
  rewrite Z.shiftr_div_pow2 by apply N2Z.is_nonneg. rewrite N.shiftr_div_pow2.
  rewrite N2Z.inj_div, N2Z.inj_pow. reflexivity.
Qed.

Lemma py_in_net (x : N) (net : N * nat) : (snd net <= 32)%nat ->
  py_in (VAddr 4 (Z.of_N x)) (vnet net) = Normal (VBool (in_net x net)).
Proof.
  intros Hl. unfold vnet, py_in, in_net. cbn [Z.eqb Pos.eqb andb].
  replace (32 - Z.of_nat (snd net)) with (Z.of_N (N.of_nat (32 - snd net))) by lia.
  rewrite !of_N_shiftr. f_equal. f_equal.
  destruct (N.eqb_spec (N.shiftr x (N.of_nat (32 - snd net))) (N.shiftr (fst net) (N.of_nat (32 - snd net)))) as [E|E].
  - rewrite E. apply Z.eqb_refl.
  - apply Z.eqb_neq. intro C. apply N2Z.inj in C. contradiction.
Qed.

Lemma membership_list (x : N) : forall (nets : list (N * nat)) (acc : list pyval),
  Forall (fun net => (snd net <= 32)%nat) nets ->
  py_for (map vnet nets) (fun x_ acc_ => t6 <- py_in (VAddr 4 (Z.of_N x)) x_ ;; Normal (acc_ ++ [t6])%list) acc
  = Normal (acc ++ map (fun net => VBool (in_net x net)) nets)%list.
Proof.
  induction nets as [|net nets IH]; intros acc Hn; cbn [map py_for].
  - now rewrite app_nil_r.
  - inversion Hn as [|? ? H1 H2]; subst. rewrite (py_in_net x net H1). cbn [bind]. rewrite (IH _ H2). now rewrite <- app_assoc.
Qed.
Lemma existsb_truthy (x : N) nets : existsb truthy (map (fun net => VBool (in_net x net)) nets) = existsb (in_net x) nets.
Proof. induction nets as [|n r IH]; cbn; [reflexivity|]. now rewrite IH. Qed.

Theorem gen_should_anonymize_refines :
  forall (py_call : pyval -> pyval -> PyLib.res) (fuel : nat) (self : pyval) (nets : list (N * nat)) (x : N),
  (x < 2 ^ 32)%N -> Forall (fun net => (snd net <= 32)%nat) nets ->
  py_getattr self "_preserve_addresses" = Normal (VList (map vnet nets)) ->
  gen_IpAnonymizer__should_anonymize py_call fuel self (VInt (Z.of_N x))
  = Normal (VTuple [VBool (negb (is_mask x || existsb (in_net x) nets)); self]).
Proof.
  intros pc fuel self nets x Hx Hn Hg. unfold gen_IpAnonymizer__should_anonymize.
  assert (Ha : ip_address (VInt (Z.of_N x)) = Normal (VAddr 4 (Z.of_N x))).
  { unfold ip_address. replace (0 <=? Z.of_N x) with true by (symmetry; apply Z.leb_le; lia).
    replace (Z.of_N x <? 2 ^ 32) with true by (symmetry; apply Z.ltb_lt; change (2 ^ 32) with (Z.of_N (2 ^ 32)%N); lia). reflexivity. }
  (* the script names the facts; in which order the generated body uses them (one expression, or an early return for masks) is left to the normaliser *)
  destruct (is_mask x) eqn:Em;
    repeat first
      [ progress cbn [bind bindS unpack2 truthy py_not negb orb andb call py_iter py_any app is_none]
      | rewrite Ha | rewrite gen_is_mask_refines | rewrite Em | rewrite Hg
      | rewrite (membership_list x nets [] Hn) | rewrite existsb_truthy ];
    reflexivity.
Qed.
Print Assumptions gen_should_anonymize_refines.
