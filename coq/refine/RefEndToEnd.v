(* End to end over GENERATED code only: construct an IpAnonymizer with the generated constructor, dispatching the salter field to the generated
   _generate_bit_from_hash (MD5); then every anonymize / undo request on ANY state reached later is answered by the pure prefix-preserving image of
   the typed model under the flip function salter_md5 salt, with the listed prefixes pinned -- the object all theorems of C01-C05 are about. *)
From Coq Require Import List ZArith String Lia Bool.
Require Import PyLib G_fn_ip PPCore Memo MemoProofs Str IpModel RefIpCommon RefAnon RefDeanon RefInit RefHash.
Import ListNotations.
Local Open Scope Z_scope.
Local Open Scope list_scope.

Section E2E.
Variables (salt : str) (clsname : list Z) (salterv : pyval) (B : nat) (Ps : list (list bool)).
Hypothesis salt_encodable : utf8 salt <> None.
Let H := salter_md5 salt.
Let saltv := VStr (map Z.of_N salt).
Notation obj rest d := (mkself clsname saltv (VInt 32) fmt32 salterv (Z.of_nat B) rest d).

Theorem generated_constructor_then_requests :
  forall fuel (strs : list pyval) (pa : option (list pyval)) (nets : list pyval) (kw : pyval),
  kw_lookup kw "salter" (VFun (of_string "_generate_bit_from_hash")) = salterv ->
  kw_lookup kw "preserve_suffix" VNone = VInt (Z.of_nat B) ->
  Forall2 (fun a n => ip_network a = Normal n) (pa_items pa) nets ->
  Forall2 subnet_bits (strs ++ pa_items pa) Ps ->
  (B <= 32)%nat ->
  exists d0,
    gen_IpAnonymizer____init__ md5_call fuel (VObj clsname []) saltv (VList strs) (pa_val pa) kw = Normal (VTuple [VNone; obj (rest_of nets) d0])
    /\ MemoProofs.Inv H 32 B Ps d0
    /\ (* any later state satisfying the invariant, in particular every state reachable by requests: *)
       forall d x bits y, MemoProofs.Inv H 32 B Ps d -> List.length bits = 32%nat ->
         py_format fmt32 (VList [VInt x]) (VDict []) = Normal (VS bits) ->
         (py_int (VS (MemoProofs.AB H 32 B Ps bits)) (VInt 2) = Normal (VInt y) ->
            exists d', gen__BaseIpAnonymizer__anonymize md5_call (S (List.length bits)) (obj (rest_of nets) d) (VInt x)
                       = Normal (VTuple [VInt y; obj (rest_of nets) d']) /\ MemoProofs.Inv H 32 B Ps d')
         /\
         (py_int (VS (MemoProofs.DB H 32 B Ps bits)) (VInt 2) = Normal (VInt y) ->
            exists d', gen__BaseIpAnonymizer__deanonymize md5_call (S (List.length bits)) (obj (rest_of nets) d) (VInt x)
                       = Normal (VTuple [VInt y; obj (rest_of nets) d']) /\ MemoProofs.Inv H 32 B Ps d').
Proof.
  intros fuel strs pa nets kw Hs Hb Hn HF HB.
  destruct (gen_constructor_establishes_the_invariant H md5_call clsname saltv salterv B fuel strs pa nets Ps kw Hs Hb Hn HF) as (d0 & E0 & I0).
  exists d0. split; [exact E0|]. split; [exact I0|].
  assert (Hsalter : forall b, md5_call salterv (VList [saltv; VS b]) = Normal (VInt (if H b then 1 else 0))).
  { intro b. apply md5_call_is_salter_md5. exact salt_encodable. }
  intros d x bits y I Lb Hf. split; intro Hi.
  - exact (gen_anonymize_returns_image H md5_call clsname saltv (VInt 32) fmt32 salterv (rest_of nets) 32 B Ps Hsalter d x bits y I Lb HB Hf Hi).
  - exact (gen_deanonymize_returns_preimage H md5_call clsname saltv (VInt 32) fmt32 salterv (rest_of nets) 32 B Ps Hsalter d x bits y I Lb HB Hf Hi).
Qed.
End E2E.
Print Assumptions generated_constructor_then_requests.
