(* Whole-function refinement of the GENERATED juniper_nonrandom_encrypt (gen/G_fn_jun.v) to JunModel.encrypt, for every plaintext over 0..255 and every
   salt string: the loops, the salt handling and the table look-ups, on top of the per-character sweep of RefJun.v. *)
From Coq Require Import String.
From Coq Require Import List ZArith NArith Bool Lia.
Import ListNotations.
Require Import PyLib Str G_juniper JunModel JunProofs G_fn_jun RefJun.
Require Export RefStr.
Local Open Scope N_scope.

Lemma gap_encode_params pc fuel a b c : gen__gap_encode pc fuel a b c = gen__gap_encode nocall 1%nat a b c.
Proof. reflexivity. Qed.
Lemma fixedc_params pc fuel a : gen__fixedc pc fuel a = gen__fixedc nocall 1%nat a.
Proof. reflexivity. Qed.

(* pointwise reading of the sweep *)
Lemma gen_gap_encode_point row p c : In row ENCODING -> In p NUM_ALPHA -> c < 256 ->
  exists out, gap_encode c p row = Some out /\ gen__gap_encode nocall 1%nat (vch c) (vch p) (vrow row) = Normal (vstr out).
Proof.
  intros Hr Hp Hc. pose proof generated_per_character_functions_agree_with_the_model as S.
  rewrite forallb_forall in S. specialize (S row Hr). rewrite forallb_forall in S. specialize (S p Hp). rewrite forallb_forall in S.
  assert (Hb : In c bytes256). { unfold bytes256. apply in_map_iff. exists (N.to_nat c). split; [lia|]. apply in_seq. lia. }
  specialize (S c Hb). apply andb_prop in S as [S _]. unfold enc_agrees in S.
  destruct (gen__gap_encode nocall 1 (vch c) (vch p) (vrow row)) as [[| | |o| | | | | | | | |]| | | |]; try discriminate.
  destruct (gap_encode c p row) as [out|]; [|discriminate]. exists out. split; [reflexivity|].
  destruct (list_eq_dec Z.eq_dec o (map Z.of_N out)) as [->|]; [reflexivity|discriminate].
Qed.

(* ---- tables of the generated module are the generated data tables ---- *)
Lemma extra_is : g_EXTRA = VDict (map (fun kv => (vch (fst kv), VInt (Z.of_N (snd kv)))) EXTRA). Proof. reflexivity. Qed.
Lemma num_alpha_is : g_NUM_ALPHA = VList (map vch NUM_ALPHA). Proof. reflexivity. Qed.
Lemma encoding_is : g_ENCODING = VList (map vrow ENCODING). Proof. reflexivity. Qed.
Lemma magic_is_g : g_MAGIC = vstr MAGIC. Proof. reflexivity. Qed.

Lemma dict_get_extra s : dict_get (map (fun kv => (vch (fst kv), VInt (Z.of_N (snd kv)))) EXTRA) (vch s) = option_map (fun e => VInt (Z.of_N e)) (assoc EXTRA s).
Proof. induction EXTRA as [|[k v] l IH]; cbn [map dict_get assoc fst snd]; [reflexivity|]. rewrite veq_vch. destruct (N.eqb s k); [reflexivity|exact IH]. Qed.
Lemma py_in_extra s : py_in (vch s) g_EXTRA = Normal (VBool (match assoc EXTRA s with Some _ => true | None => false end)).
Proof. rewrite extra_is. unfold py_in, vch. fold (vch s). rewrite dict_get_extra. destruct (assoc EXTRA s); reflexivity. Qed.
Lemma py_getitem_extra s e : assoc EXTRA s = Some e -> py_getitem g_EXTRA (vch s) = Normal (VInt (Z.of_N e)).
Proof. intro H. rewrite extra_is. unfold py_getitem, vch. fold (vch s). rewrite dict_get_extra, H. reflexivity. Qed.

Lemma gen_fixedc_small e : e <= 3 -> gen__fixedc nocall 1%nat (VInt (Z.of_N e)) = Normal (vstr (fixedc e)).
Proof. intro H. assert (E : e = 0 \/ e = 1 \/ e = 2 \/ e = 3) by lia. destruct E as [E|[E|[E|E]]]; subst e; reflexivity. Qed.

Lemma enc_loop_refines : forall (plain : str) (pos : nat) (prev : N) (crypt : str) (a1 a2 a3 a7 a8 : pyval) body,
  Forall (fun c => c < 256) plain -> inA prev = true ->
  (forall c pos prev crypt a7 a8, c < 256 -> inA prev = true ->
     exists out, gap_encode c prev (row_at pos) = Some out /\
       body (vch c) (a1, a2, a3, VInt (Z.of_nat pos), vch prev, vstr crypt, a7, a8)
       = Normal (a1, a2, a3, VInt (Z.of_nat (S pos)), vch (last (crypt ++ out) 0), vstr (crypt ++ out), vch c, vrow (row_at pos))) ->
  exists c' pos' prev' b7 b8, enc_loop pos prev plain crypt = JOk c' /\
    py_for (map vch plain) body (a1, a2, a3, VInt (Z.of_nat pos), vch prev, vstr crypt, a7, a8)
    = Normal (a1, a2, a3, VInt (Z.of_nat pos'), vch prev', vstr c', b7, b8).
Proof.
  induction plain as [|c plain IH]; intros pos prev crypt a1 a2 a3 a7 a8 body Hb Hp Hstep; cbn [map py_for enc_loop].
  - do 5 eexists. split; reflexivity.
  - inversion Hb as [|? ? Hc Hrest]; subst.
    destruct (Hstep c pos prev crypt a7 a8 Hc Hp) as (out & Eo & Eb). rewrite Eo, Eb.
    destruct (char_facts pos prev c Hp Hc) as (out' & gs & Eo' & Hlen & Hne & HinA & _). rewrite Eo in Eo'. injection Eo' as <-.
    apply (IH (S pos) (last (crypt ++ out) 0) (crypt ++ out) a1 a2 a3 (vch c) (vrow (row_at pos)) body Hrest); [|exact Hstep].
    destruct out as [|n0 out']; [exfalso; cbn in Hlen; apply Hne; symmetry; exact Hlen|].
    rewrite (last_app_nonempty crypt (n0 :: out') 0 n0 ltac:(discriminate)). apply last_inA; [exact HinA|].
    cbn [forallb] in HinA. apply andb_prop in HinA as [H0 _]. exact H0.
Qed.

Lemma row_at_getitem pos : py_getitem g_ENCODING (VInt (Z.of_nat pos mod 7)) = Normal (vrow (row_at pos)).
Proof.
  rewrite encoding_is. unfold row_at.
  assert (L : length ENCODING = 7%nat) by reflexivity. rewrite L.
  replace (Z.of_nat pos mod 7)%Z with (Z.of_nat (pos mod 7)) by (rewrite Nat2Z.inj_mod; reflexivity).
  apply py_getitem_list_nat. apply nth_error_nth'. rewrite L. apply Nat.mod_upper_bound. discriminate.
Qed.

Theorem gen_encrypt_refines : forall (pc : pyval -> pyval -> PyLib.res) (fuel : nat) (plain salt : str),
  Forall (fun c => c < 256) plain ->
  exists crypt, encrypt plain salt = JOk crypt /\ gen_juniper_nonrandom_encrypt pc fuel (vstr plain) (vstr salt) = Normal (vstr crypt).
Proof.
  intros pc fuel plain salt Hb. unfold gen_juniper_nonrandom_encrypt, encrypt.
  destruct tables_facts as (Hnz & _ & Hal & _ & _ & _ & _ & Hf1 & _). rewrite Hnz. cbn [negb].
  (* the salt: the default for the empty string, its first character, mapped onto the alphabet when outside it *)
  set (salt1 := match salt with [] => fixedc 1 | _ => salt end).
  assert (Hs1 : exists s0 rest, salt1 = s0 :: rest).
  { unfold salt1. destruct salt as [|x r]; [|eauto]. destruct (fixedc 1) eqn:E; [vm_compute in E; discriminate|eauto]. }
  destruct Hs1 as (s0 & rest & Es1). rewrite Es1.
  destruct (salt_char_ok s0) as (Hin & e & Ee & Hle & _). cbv zeta in Hin, Ee. set (s' := match assoc EXTRA s0 with Some _ => s0 | None => chr_at (s0 mod alen) end) in *.
  rewrite Ee.
  (* step A: the salt string actually used, and its first character *)
  assert (EA : forall K : (pyval * pyval * pyval * pyval * pyval * pyval * pyval * pyval) -> ctl (pyval * pyval * pyval * pyval * pyval * pyval * pyval * pyval),
             (t1 <- py_not (vstr salt);; e_ <~ (if truthy t1 then t2 <- gen__fixedc pc fuel (VInt 1);; Normal (vstr plain, t2, VNone, VNone, VNone, VNone, VNone, VNone)
                                            else Normal (vstr plain, vstr salt, VNone, VNone, VNone, VNone, VNone, VNone));; K e_)
               = K (vstr plain, vstr salt1, VNone, VNone, VNone, VNone, VNone, VNone)).
  { intro K. unfold salt1. destruct salt as [|x r]; [|reflexivity]. cbn [py_not truthy vstr map List.length Nat.eqb negb bind bindS].
    rewrite fixedc_params. change (VInt 1) with (VInt (Z.of_N 1)). rewrite gen_fixedc_small by lia. reflexivity. }
  match goal with |- context [bind (py_not (vstr salt)) (fun t1 => bindS _ ?K)] => rewrite (EA K) end.
  rewrite Es1. replace (py_getitem (vstr (s0 :: rest)) (VInt 0)) with (Normal (vch s0)) by reflexivity. cbn [bind].
  (* step B: a salt character outside the alphabet is mapped onto it *)
  rewrite py_in_extra. cbn [bind py_not truthy].
  assert (EB : forall K : (pyval * pyval * pyval * pyval * pyval * pyval * pyval * pyval) -> ctl (pyval * pyval * pyval * pyval * pyval * pyval * pyval * pyval),
     (e_0 <~ (if negb (match assoc EXTRA s0 with Some _ => true | None => false end)
              then t6 <- py_ord (vch s0);; t7 <- py_len g_NUM_ALPHA;; t8 <- py_mod t6 t7;; t9 <- py_getitem g_NUM_ALPHA t8;;
                   Normal (vstr plain, t9, VNone, VNone, VNone, VNone, VNone, VNone)
              else Normal (vstr plain, vch s0, VNone, VNone, VNone, VNone, VNone, VNone));; K e_0)
     = K (vstr plain, vch s', VNone, VNone, VNone, VNone, VNone, VNone)).
  { intro K. unfold s'. destruct (assoc EXTRA s0) as [e0|]; cbn [negb]; [reflexivity|].
    cbn [py_ord vch bind]. rewrite num_alpha_is. cbn [py_len bind]. rewrite map_length.
    assert (L : length NUM_ALPHA = 65%nat) by reflexivity. rewrite L. cbn [py_mod]. change (Z.of_nat 65 =? 0)%Z with false. cbv iota. cbn [bind].
    apply N.eqb_eq in Hal. rewrite Hal.
    replace (Z.of_N s0 mod Z.of_nat 65)%Z with (Z.of_nat (N.to_nat (s0 mod 65))) by (rewrite N_nat_Z, N2Z.inj_mod; reflexivity).
    rewrite (py_getitem_list_nat vch NUM_ALPHA (N.to_nat (s0 mod 65)) (chr_at (s0 mod 65))).
    - reflexivity.
    - unfold chr_at. apply nth_error_nth'. rewrite L. assert (s0 mod 65 < 65) by (apply N.mod_upper_bound; discriminate). lia. }
  match goal with |- context [bindS (if negb _ then _ else _) ?K] => rewrite (EB K) end.
  (* step C: the filler and the start of the result *)
  rewrite (py_getitem_extra s' e Ee). cbn [bind]. rewrite fixedc_params, (gen_fixedc_small e Hle). cbn [bind].
  rewrite magic_is_g, !py_format_str_vstr. cbn [bind]. rewrite (vch_is_vstr s'), !py_format_str_vstr. cbn [bind].
  rewrite !py_add_vstr. cbn [bind]. rewrite py_add_vstr. cbn [bind]. rewrite <- app_assoc.
  (* step D: the loop over the plaintext *)
  replace (py_iter (vstr plain)) with (@Normal (list pyval) (map vch plain)) by (unfold py_iter, vstr, vch; now rewrite map_map).
  cbn [bind]. rewrite <- (vch_is_vstr s').
  match goal with |- context [py_for (map vch plain) ?body ?s0] =>
    destruct (enc_loop_refines plain 0 s' (MAGIC ++ [s'] ++ fixedc e) (vstr plain) (vch s') (vstr (fixedc e)) VNone VNone body Hb Hin) as (c' & pos' & prev' & b7 & b8 & El & Ef)
  end.
  - intros c pos prev crypt a7 a8 Hc Hp.
    destruct (gen_gap_encode_point (row_at pos) prev c (row_in pos) (proj1 (inA_In prev) Hp) Hc) as (out & Eo & Eg).
    exists out. split; [exact Eo|].
    rewrite encoding_is. cbn [py_len bind]. rewrite map_length. change (length ENCODING) with 7%nat. cbn [py_mod].
    change (Z.of_nat 7 =? 0)%Z with false. cbv iota. cbn [bind]. rewrite <- encoding_is.
    change (Z.of_nat 7) with 7%Z. rewrite row_at_getitem. cbn [bind].
    rewrite gap_encode_params, Eg. cbn [bind]. rewrite py_add_vstr. cbn [bind py_neg].
    destruct (char_facts pos prev c Hp Hc) as (out' & gs & Eo' & Hlen & Hne & _). rewrite Eo in Eo'. injection Eo' as <-.
    rewrite getitem_last by (destruct out; [exfalso; cbn in Hlen; apply Hne; symmetry; exact Hlen|destruct crypt; discriminate]).
    cbn [bind py_add]. replace (Z.of_nat pos + 1)%Z with (Z.of_nat (S pos)) by lia. reflexivity.
  - exists c'. split; [exact El|]. change (VInt 0) with (VInt (Z.of_nat 0)). rewrite Ef. reflexivity.
Qed.


