(* SensitiveWordAnonymizer._get_or_generate_sensitive_word_replacement as GENERATED from the source (gen/G_fn_sir2.v): whatever the cache holds --
   as long as every cached entry is the pseudonym of its key, which the function itself maintains -- the result is the model's
   word_pseudonym salt word: a function of the salt and the matched text only. *)
From Coq Require Import String.
From Coq Require Import List ZArith NArith Bool Arith Lia.
Import ListNotations.
Require Import PyLib PyHash Str Md5 G_text_consts TextModel G_fn_sir2 RefJun RefStr.

Definition wobj (cls : list Z) (rw rx cw : pyval) (salt : str) (d : list (pyval * pyval)) : pyval :=
  VObj cls [(S_ "reserved_words", rw); (S_ "salt", vstr salt); (S_ "sens_regex", rx); (S_ "sens_word_replacements", VDict d); (S_ "conflicting_words", cw)].
Definition cache_ok (salt : str) (d : list (pyval * pyval)) : Prop :=
  Forall (fun kv => exists w p, kv = (vstr w, vstr p) /\ word_pseudonym salt w = Done p) d.

Lemma veq_vstr a b : veq (vstr a) (vstr b) = true -> a = b.
Proof. unfold vstr. cbn [veq]. destruct (list_eq_dec Z.eq_dec (map Z.of_N a) (map Z.of_N b)) as [E|E]; [intros _; now apply zs_inj|discriminate]. Qed.
Lemma veq_vstr_refl a : veq (vstr a) (vstr a) = true.
Proof. unfold vstr. cbn [veq]. destruct (list_eq_dec Z.eq_dec (map Z.of_N a) (map Z.of_N a)); [reflexivity|congruence]. Qed.

Lemma cache_hit salt d w v : cache_ok salt d -> dict_get d (vstr w) = Some v -> exists p, v = vstr p /\ word_pseudonym salt w = Done p.
Proof.
  induction 1 as [|[k v0] d (w0 & p0 & E & Hp) _ IH]; cbn [dict_get]; [discriminate|].
  injection E as -> ->. destruct (veq (vstr w) (vstr w0)) eqn:Ev.
  - apply veq_vstr in Ev. subst w0. intros [= <-]. eauto.
  - exact IH.
Qed.
Lemma cache_set salt d w p : cache_ok salt d -> word_pseudonym salt w = Done p -> dict_get d (vstr w) = None -> cache_ok salt (dict_set d (vstr w) (vstr p)).
Proof.
  intros Hd Hp. induction Hd as [|[k v0] d Hkv _ IH]; cbn [dict_get dict_set]; intro Hn.
  - constructor; [eauto|constructor].
  - destruct (veq (vstr w) k); [discriminate|]. constructor; [exact Hkv|exact (IH Hn)].
Qed.

Lemma md5_hexdigest_vstr x : py_md5_hexdigest (vstr x) = match utf8 x with Some bytes => Normal (vstr (hex_of_bytes (md5 bytes))) | None => Exc (ValueError []) end.
Proof. unfold py_md5_hexdigest, vstr. rewrite to_of_N. reflexivity. Qed.

Theorem gen_word_replacement pc fuel cls rw rx cw salt d w : cache_ok salt d ->
  match word_pseudonym salt w with
  | Done p => exists d', gen_SensitiveWordAnonymizer___get_or_generate_sensitive_word_replacement pc fuel (wobj cls rw rx cw salt d) (vstr w)
                         = Normal (VTuple [vstr p; wobj cls rw rx cw salt d']) /\ cache_ok salt d'
  | Raised _ => exists m, gen_SensitiveWordAnonymizer___get_or_generate_sensitive_word_replacement pc fuel (wobj cls rw rx cw salt d) (vstr w) = Exc (ValueError m)
  end.
Proof.
  intro Hd. unfold gen_SensitiveWordAnonymizer___get_or_generate_sensitive_word_replacement.
  assert (G1 : py_getattr (wobj cls rw rx cw salt d) "sens_word_replacements" = Normal (VDict d)) by reflexivity.
  assert (G2 : py_getattr (wobj cls rw rx cw salt d) "salt" = Normal (vstr salt)) by reflexivity.
  rewrite !G1. cbn [bind py_get]. rewrite G2.
  destruct (dict_get d (vstr w)) as [v|] eqn:Eg.
  - destruct (cache_hit salt d w v Hd Eg) as (p & -> & Hp). rewrite Hp. exists d. split; [|exact Hd]. reflexivity.
  - cbn [is_none truthy bind bindS]. rewrite py_add_vstr. cbn [bind]. rewrite md5_hexdigest_vstr.
    unfold word_pseudonym. destruct (utf8 (salt ++ w)) as [bytes|] eqn:Eu.
    + cbn [bind]. change g__ANON_SENSITIVE_WORD_LEN with (VInt (Z.of_nat ANON_SENSITIVE_WORD_LEN)).
      rewrite py_slice_to. cbn [bind py_setitem].
      set (p := firstn ANON_SENSITIVE_WORD_LEN (hex_of_bytes (md5 bytes))).
      assert (S1 : py_setattr (wobj cls rw rx cw salt d) "sens_word_replacements" (VDict (dict_set d (vstr w) (vstr p))) = Normal (wobj cls rw rx cw salt (dict_set d (vstr w) (vstr p)))) by reflexivity.
      rewrite S1. cbn [bind bindS call]. exists (dict_set d (vstr w) (vstr p)). split; [reflexivity|].
      apply cache_set; [exact Hd| |exact Eg]. unfold word_pseudonym. rewrite Eu. reflexivity.
    + cbn [bind bindS call]. eexists. reflexivity.
Qed.

