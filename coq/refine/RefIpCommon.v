(* simulation: the GENERATED _BaseIpAnonymizer._anonymize_bits (Gen_ip.v, from the real source) follows the typed
   memo machine g_anon of Memo.v step for step; so every theorem about the machine transfers to the generated code *)
From Coq Require Import List ZArith String Lia Bool.
Require Import PyLib PPCore Memo.
Import ListNotations.
Local Open Scope Z_scope.
Local Open Scope list_scope.

Definition encb (b:bool) : Z := if b then 49 else 48.
Definition enc (b:list bool) : list Z := map encb b.
Definition VS b := VStr (enc b).
Definition encD (d:Memo.bidict) : list (pyval*pyval) := map (fun e => (VS (fst e), VS (snd e))) d.

Lemma enc_inj a b : enc a = enc b -> a = b.
Proof. revert b; induction a as [|x a IH]; intros [|y b]; simpl; try discriminate; auto.
  intros E; injection E as E1 E2. f_equal; auto. destruct x, y; simpl in *; congruence. Qed.
Lemma veq_VS a b : veq (VS a) (VS b) = Memo.beq a b.
Proof. unfold VS. cbn [veq]. destruct (list_eq_dec Z.eq_dec (enc a) (enc b)) as [E|E].
  - apply enc_inj in E. subst. symmetry. apply Memo.beq_eq. reflexivity.
  - symmetry. apply Memo.beq_neq. intro; subst; congruence. Qed.

Lemma dict_get_enc d k : dict_get (encD d) (VS k) = option_map VS (Memo.bget d k).
Proof. induction d as [|[k0 v0] d IH]; cbn [encD map dict_get Memo.bget fst snd]; auto. rewrite veq_VS. destruct (Memo.beq k k0); auto. Qed.
Lemma dict_inv_enc d v : dict_inv (encD d) (VS v) = option_map VS (Memo.binv d v).
Proof. induction d as [|[k0 v0] d IH]; cbn [encD map dict_inv Memo.binv fst snd]; auto. rewrite veq_VS. destruct (Memo.beq v v0); auto. Qed.

Lemma put_enc d k v d' : Memo.bput d k v = Memo.Ok d' -> bidict_put (encD d) (VS k) (VS v) = Normal (encD d').
Proof.
  unfold Memo.bput, bidict_put. rewrite dict_get_enc, dict_inv_enc.
  destruct (Memo.bget d k) as [v'|]; destruct (Memo.binv d v) as [k'|]; cbn [option_map]; try discriminate.
  - rewrite !veq_VS. destruct (Memo.beq v v' && Memo.beq k k'); [|discriminate]. now intros [= <-].
  - intros [= <-]. unfold encD. now rewrite map_app.
Qed.


(* the object as _BaseIpAnonymizer.__init__ builds it: salt, cache, length, fmt, salter, preserve_suffix (+ subclass fields) *)
Definition mkself (clsname:list Z) (saltv lengthv fmtv salterv:pyval) (Bz:Z) (rest:list (pyval*pyval)) (d:Memo.bidict) : pyval :=
  VObj clsname ((S_ "salt", saltv) :: (S_ "cache", VBidict (encD d)) :: (S_ "length", lengthv) :: (S_ "fmt", fmtv)
                :: (S_ "salter", salterv) :: (S_ "preserve_suffix", VInt Bz) :: rest).
Section Getters.
Variables (clsname:list Z) (saltv lengthv fmtv salterv:pyval) (Bz:Z) (rest:list (pyval*pyval)).
Notation mk := (mkself clsname saltv lengthv fmtv salterv Bz rest).
Lemma get_cache d : py_getattr (mk d) "cache" = Normal (VBidict (encD d)). Proof. reflexivity. Qed.
Lemma get_salt d : py_getattr (mk d) "salt" = Normal saltv. Proof. reflexivity. Qed.
Lemma get_salter d : py_getattr (mk d) "salter" = Normal salterv. Proof. reflexivity. Qed.
Lemma get_fmt d : py_getattr (mk d) "fmt" = Normal fmtv. Proof. reflexivity. Qed.
Lemma get_B d : py_getattr (mk d) "preserve_suffix" = Normal (VInt Bz). Proof. reflexivity. Qed.
Lemma set_cache d d' : py_setattr (mk d) "cache" (VBidict (encD d')) = Normal (mk d'). Proof. reflexivity. Qed.
End Getters.
Lemma get_inv d : py_getattr (VBidict (encD d)) "inv" = Normal (VBidictInv (encD d)). Proof. reflexivity. Qed.
Lemma set_inv d d' : py_setattr (VBidict (encD d)) "inv" (VBidictInv (encD d')) = Normal (VBidict (encD d')). Proof. reflexivity. Qed.

Definition b2z (b:bool) : Z := if b then 1 else 0.
Lemma slice_m1_gen {X} (x:list X) c : slice (x ++ [c]) None (Some (-1)) = x.
Proof. unfold slice, clamp. rewrite app_length. cbn [List.length].
  replace (-1 <? 0) with true by reflexivity.
  replace (-1 + Z.of_nat (List.length x + 1) <? 0) with false by (symmetry; apply Z.ltb_ge; lia).
  replace (Z.of_nat (List.length x + 1) <? -1 + Z.of_nat (List.length x + 1)) with false by (symmetry; apply Z.ltb_ge; lia).
  replace (Z.to_nat (-1 + Z.of_nat (List.length x + 1)) - 0)%nat with (List.length x + 0)%nat by lia.
  cbn [skipn]. rewrite firstn_app_2. cbn [firstn]. now rewrite app_nil_r. Qed.
Lemma slice_VS (h:list bool) l : py_slice (VS (h ++ [l])) VNone (VInt (-1)) = Normal (VS h).
Proof. unfold py_slice. cbn [optZ bind]. unfold VS, enc. rewrite map_app. cbn [map]. now rewrite slice_m1_gen. Qed.
Lemma getitem_m1 (h:list bool) l : py_getitem (VS (h ++ [l])) (VInt (-1)) = Normal (VStr [encb l]).
Proof. unfold VS, py_getitem, norm_idx, enc. rewrite map_app, app_length, map_length. cbn [List.length map].
  replace (-1 <? 0) with true by reflexivity.
  replace (-1 + Z.of_nat (List.length h + 1) <? 0) with false by (symmetry; apply Z.ltb_ge; lia).
  replace (Z.of_nat (List.length h + 1) <=? -1 + Z.of_nat (List.length h + 1)) with false by (symmetry; apply Z.leb_gt; lia).
  cbn [orb]. replace (Z.to_nat (-1 + Z.of_nat (List.length h + 1))) with (List.length (map encb h)) by (rewrite map_length; lia).
  rewrite nth_error_app2 by lia. now rewrite Nat.sub_diag. Qed.
Lemma int_encb l : py_int (VStr [encb l]) VNone = Normal (VInt (b2z l)). Proof. destruct l; reflexivity. Qed.
Lemma xor_b2z x y : py_xor (VInt (b2z x)) (VInt (b2z y)) = Normal (VInt (b2z (xorb x y))). Proof. destruct x, y; reflexivity. Qed.
Lemma str_b2z z : py_str (VInt (b2z z)) = Normal (VStr [encb z]). Proof. destruct z; reflexivity. Qed.
Lemma add_VS a z : py_add (VS a) (VStr [encb z]) = Normal (VS (a ++ [z])). Proof. unfold VS, enc. now rewrite map_app. Qed.

Lemma slice_prefix {X} (x : list X) (k : nat) : (0 < k <= List.length x)%nat ->
  slice x None (Some (- Z.of_nat k)) = firstn (List.length x - k) x.
Proof.
  intros Hk. unfold slice, clamp.
  replace (- Z.of_nat k <? 0) with true by (symmetry; apply Z.ltb_lt; lia).
  replace (- Z.of_nat k + Z.of_nat (List.length x) <? 0) with false by (symmetry; apply Z.ltb_ge; lia).
  replace (Z.of_nat (List.length x) <? - Z.of_nat k + Z.of_nat (List.length x)) with false by (symmetry; apply Z.ltb_ge; lia).
  replace (Z.to_nat (- Z.of_nat k + Z.of_nat (List.length x)) - 0)%nat with (List.length x - k)%nat by lia.
  reflexivity.
Qed.
Lemma slice_suffix {X} (x : list X) (k : nat) : (0 < k <= List.length x)%nat ->
  slice x (Some (- Z.of_nat k)) None = skipn (List.length x - k) x.
Proof.
  intros Hk. unfold slice, clamp.
  replace (- Z.of_nat k <? 0) with true by (symmetry; apply Z.ltb_lt; lia).
  replace (- Z.of_nat k + Z.of_nat (List.length x) <? 0) with false by (symmetry; apply Z.ltb_ge; lia).
  replace (Z.of_nat (List.length x) <? - Z.of_nat k + Z.of_nat (List.length x)) with false by (symmetry; apply Z.ltb_ge; lia).
  replace (Z.to_nat (- Z.of_nat k + Z.of_nat (List.length x))) with (List.length x - k)%nat by lia.
  rewrite firstn_all2; [reflexivity|]. rewrite skipn_length. lia.
Qed.
Lemma enc_length b : List.length (enc b) = List.length b. Proof. apply map_length. Qed.
Lemma pyslice_prefix bits k : (0 < k <= List.length bits)%nat ->
  py_slice (VS bits) VNone (VInt (- Z.of_nat k)) = Normal (VS (firstn (List.length bits - k) bits)).
Proof. intros Hk. unfold py_slice. cbn [optZ bind]. unfold VS. rewrite (slice_prefix (enc bits) k) by (rewrite enc_length; exact Hk).
  rewrite enc_length. unfold enc. now rewrite firstn_map. Qed.
Lemma pyslice_suffix bits k : (0 < k <= List.length bits)%nat ->
  py_slice (VS bits) (VInt (- Z.of_nat k)) VNone = Normal (VS (skipn (List.length bits - k) bits)).
Proof. intros Hk. unfold py_slice. cbn [optZ bind]. unfold VS. rewrite (slice_suffix (enc bits) k) by (rewrite enc_length; exact Hk).
  rewrite enc_length. unfold enc. now rewrite skipn_map. Qed.
Lemma add_VS_VS a b : py_add (VS a) (VS b) = Normal (VS (a ++ b)). Proof. unfold VS, enc. now rewrite map_app. Qed.


(* Normalisation of a generated body: inline non-recursive generated helpers (whatever they are called), evaluate the monad
   plumbing, and rewrite with the library facts above wherever they apply.  The refinement scripts are written with this tactic
   so that they do not depend on the ORDER of statements or on how the source splits its work into helper methods. *)
Ltac py_rw :=
  first
  [ rewrite get_cache | rewrite get_salt | rewrite get_salter | rewrite get_fmt | rewrite get_B | rewrite set_cache
  | rewrite get_inv | rewrite set_inv | rewrite dict_get_enc | rewrite dict_inv_enc
  | rewrite slice_VS | rewrite getitem_m1 | rewrite int_encb | rewrite xor_b2z | rewrite str_b2z | rewrite add_VS | rewrite add_VS_VS
  | rewrite pyslice_prefix by lia | rewrite pyslice_suffix by lia ].
Ltac py_cbn := progress cbn [bind bindS unpack2 call py_neg py_eq veq truthy py_setitem py_get is_none negb option_map].
Ltac py_norm_with tac := repeat first [ py_cbn | py_rw | tac | progress autounfold with gen_db ].
Ltac py_norm := py_norm_with fail.
