(* sensitive_item_removal._anonymize_value as GENERATED from the source (gen/G_fn_sir2.v) is the model's anonymize_value (model/TextModel.v):
   for every raw value, every lookup table without duplicate keys whose stored values are byte strings (both maintained by the function, so: after
   any history), every reserved list and salt, whenever the model returns (out, lookup') the translated function returns exactly those --
   enclosing text put back, reserved / empty values untouched, the $9$ decryption attempt with its except-clause, table hits by value and by
   decrypted plaintext, the pseudonym "netconanRemoved<n>", its re-encoding per format class (type 7 via the passlib oracle, decimal and
   hexadecimal of the ASCII bytes, md5-crypt with the old salt length, sha512-crypt, $9$), and the table update.
   passlib's three hashes are the py_call parameter, assumed to answer as the model's oracle table / type7_hash do (section hypotheses H7, Hm, Hs).
   On the way: str(int) against show_dec, int(hex, 16) against the big-endian value, UTF-8 of ASCII, s.split("$") against split_on, dict
   assignment against lset, and "classified md5 => starts with $1$" read off the generated pattern through the regex semantics. *)
From Coq Require Import String.
From Coq Require Import List ZArith NArith Bool Arith Lia.
Import ListNotations.
Require Import PyLib PyLib2 PyRe PyHash Str IpText Md5 Rx RxFacts RxSub G_rx G_text_consts G_juniper JunModel JunProofs TextModel TextProofs2 TotalProofs G_fn_jun G_fn_sir G_fn_sir2 RefJun RefJunEnc RefJunDec RefEncl.

Notation vstr := RefJun.vstr.
Lemma vstr_same s : RefEncl.vstr s = vstr s. Proof. reflexivity. Qed.

Definition vlook (l : lookup_t) : pyval := VDict (map (fun kv => (vstr (fst kv), vstr (snd kv))) l).
Definition vres (l : list str) : pyval := VList (map vstr l).

Lemma veq_vstr_eqb a b : veq (vstr a) (vstr b) = str_eqb a b. Proof. exact (RefEncl.veq_vstr a b). Qed.
Lemma dict_get_vlook l k : dict_get (map (fun kv => (vstr (fst kv), vstr (snd kv))) l) (vstr k) = option_map vstr (lget l k).
Proof. induction l as [|[k' v'] l IH]; cbn [map dict_get lget fst snd option_map]; [reflexivity|]. rewrite veq_vstr_eqb. destruct (str_eqb k k'); [reflexivity|exact IH]. Qed.
Lemma dict_get_vlook_none l : dict_get (map (fun kv => (vstr (fst kv), vstr (snd kv))) l) VNone = None.
Proof. induction l as [|[k' v'] l IH]; cbn [map dict_get fst snd]; [reflexivity|]. exact IH. Qed.
Lemma py_in_vres val reserved : py_in (vstr val) (vres reserved) = Normal (VBool (mem_str val reserved)).
Proof. unfold py_in, vres, mem_str. f_equal. f_equal. induction reserved as [|r l IH]; cbn [map existsb]; [reflexivity|]. now rewrite veq_vstr_eqb, IH. Qed.
Lemma py_not_vstr v : py_not (vstr v) = Normal (VBool (is_empty v)).
Proof. unfold py_not, RefJun.vstr. cbn [truthy]. rewrite map_length. destruct v; reflexivity. Qed.
Lemma truthy_vstr v : truthy (vstr v) = negb (is_empty v).
Proof. unfold RefJun.vstr. cbn [truthy]. rewrite map_length. destruct v; reflexivity. Qed.
Lemma py_in_vlook k l : py_in (vstr k) (vlook l) = Normal (VBool (match lget l k with Some _ => true | None => false end)).
Proof. unfold py_in, vlook. rewrite dict_get_vlook. destruct (lget l k); reflexivity. Qed.
Lemma py_getitem_vlook k l v : lget l k = Some v -> py_getitem (vlook l) (vstr k) = Normal (vstr v).
Proof. intro H. unfold py_getitem, vlook. unfold RefJun.vstr at 2. fold (vstr k). rewrite dict_get_vlook, H. reflexivity. Qed.
Lemma py_len_vlook l : py_len (vlook l) = Normal (VInt (Z.of_nat (length l))).
Proof. unfold vlook. cbn [py_len]. now rewrite map_length. Qed.

(* dict assignment against lset, for tables without duplicate keys (every table built by lset from the empty one) *)
Definition keys_unique (l : lookup_t) : Prop := NoDup (map fst l).
Lemma lget_none_notin l k : lget l k = None -> ~ In k (map fst l).
Proof. induction l as [|[k' v'] l IH]; cbn [lget map fst In]; [tauto|]. destruct (str_eqb k k') eqn:E; [discriminate|]. intros H [->|Hin]; [rewrite str_eqb_refl in E; discriminate|exact (IH H Hin)]. Qed.
Lemma lget_some_in l k v : lget l k = Some v -> In k (map fst l).
Proof. induction l as [|[k' v'] l IH]; cbn [lget map fst In]; [discriminate|]. destruct (str_eqb k k') eqn:E; [intros _; left; symmetry; now apply str_eqb_eq|intro H; right; exact (IH H)]. Qed.
Lemma map_id_notin (l : lookup_t) k v : ~ In k (map fst l) -> map (fun kv => if str_eqb (fst kv) k then (k, v) else kv) l = l.
Proof. induction l as [|[k' v'] l IH]; cbn [map fst In]; [reflexivity|]. intro H. destruct (str_eqb k' k) eqn:E; [exfalso; apply H; left; now apply str_eqb_eq|]. f_equal. apply IH. tauto. Qed.
Lemma dict_set_vlook l k v : keys_unique l ->
  dict_set (map (fun kv => (vstr (fst kv), vstr (snd kv))) l) (vstr k) (vstr v) = map (fun kv => (vstr (fst kv), vstr (snd kv))) (lset l k v).
Proof.
  unfold keys_unique, lset. induction l as [|[k' v'] l IH]; intro Hu; cbn [map fst snd dict_set lget]; [reflexivity|].
  inversion Hu as [|? ? Hnot Hu']; subst. rewrite veq_vstr_eqb. destruct (str_eqb k k') eqn:E.
  - apply str_eqb_eq in E. subst k'. cbn [map fst snd]. rewrite str_eqb_refl. cbn [fst snd]. f_equal. now rewrite map_id_notin.
  - specialize (IH Hu'). destruct (lget l k) eqn:El.
    + cbn [map fst snd]. assert (E' : str_eqb k' k = false). { destruct (str_eqb k' k) eqn:E2; [|reflexivity]. apply str_eqb_eq in E2. subst. rewrite str_eqb_refl in E. discriminate. }
      rewrite E'. cbn [fst snd]. f_equal. exact IH.
    + rewrite map_app in *. cbn [map fst snd app] in *. f_equal. exact IH.
Qed.
Lemma NoDup_snoc {A} (l : list A) x : NoDup l -> ~ In x l -> NoDup (l ++ [x]).
Proof. induction 1 as [|y l Hy Hl IH]; cbn [app]; intro Hx; [constructor; [tauto|constructor]|]. constructor; [rewrite in_app_iff; cbn [In] in *; intuition congruence|apply IH; cbn [In] in Hx; tauto]. Qed.
Lemma lset_keys_unique l k v : keys_unique l -> keys_unique (lset l k v).
Proof.
  unfold keys_unique, lset. intro Hu. destruct (lget l k) eqn:El.
  - replace (map fst (map (fun kv => if str_eqb (fst kv) k then (k, v) else kv) l)) with (map fst l); [exact Hu|].
    rewrite map_map. apply map_ext. intros [k' v']. cbn [fst]. destruct (str_eqb k' k) eqn:E; [apply str_eqb_eq in E; now subst|reflexivity].
  - rewrite map_app. cbn [map fst]. apply NoDup_snoc; [exact Hu|now apply lget_none_notin].
Qed.

(* decimal rendering: Python's str(int) in the library model against the model's show_dec *)
Lemma digits_show : forall f x acc,
  map Z.of_N (show_dec_aux f x acc) = (map dchar (rev (digits_rev f 10 (Z.of_N x))) ++ map Z.of_N acc)%list.
Proof.
  induction f as [|f IH]; intros x acc; cbn [show_dec_aux digits_rev]; [reflexivity|].
  assert (E10 : (Z.of_N x <? 10)%Z = (x <? 10)%N).
  { destruct (N.ltb_spec x 10); [apply Z.ltb_lt|apply Z.ltb_ge]; lia. }
  rewrite E10. destruct (N.ltb_spec x 10) as [L|L].
  - cbn [rev app map]. unfold dchar. replace (Z.of_N x <? 10)%Z with true by (symmetry; apply Z.ltb_lt; lia).
    rewrite N.mod_small by lia. f_equal. lia.
  - rewrite IH. cbn [rev map]. rewrite map_app, <- app_assoc. cbn [map app]. rewrite N2Z.inj_div. f_equal. f_equal.
    unfold dchar. assert (0 <= Z.of_N x mod 10 < 10)%Z by (apply Z.mod_pos_bound; lia).
    replace (Z.of_N x mod 10 <? 10)%Z with true by (symmetry; apply Z.ltb_lt; lia). rewrite N2Z.inj_add, N2Z.inj_mod. reflexivity.
Qed.
Lemma nat_str_show x : nat_str 10 (Z.of_N x) = map Z.of_N (show_dec x).
Proof.
  unfold nat_str, show_dec. rewrite digits_show. cbn [map]. rewrite app_nil_r.
  replace (Z.to_nat (Z.log2 (Z.of_N x))) with (N.to_nat (N.log2 x)); [reflexivity|].
  assert (EL : Z.log2 (Z.of_N x) = Z.of_N (N.log2 x)) by (destruct x as [|[p|p|]]; reflexivity). rewrite EL. lia.
Qed.
Lemma py_str_nat n : py_str (VInt (Z.of_nat n)) = Normal (vstr (show_dec (N.of_nat n))).
Proof. unfold py_str. replace (Z.of_nat n <? 0)%Z with false by (symmetry; apply Z.ltb_ge; lia). rewrite <- nat_N_Z, nat_str_show. reflexivity. Qed.

Lemma format_removed n :
  py_format (VStr [110;101;116;99;111;110;97;110;82;101;109;111;118;101;100;123;125]%Z) (VList [VInt (Z.of_nat n)]) (VDict [])
  = Normal (vstr (lit "netconanRemoved" ++ show_dec (N.of_nat n))).
Proof. unfold py_format. cbn -[py_str]. rewrite py_str_nat. cbn -[show_dec]. reflexivity. Qed.

(* the format classifier translated from the source (the one the model itself calls) always answers with one of the seven codes *)
Lemma classify_spec pc fuel val :
  exists z, gen__check_sensitive_item_format pc fuel (vstr val) = Normal (VInt z) /\ check_format val = Z.to_N z /\ In z [1;2;3;4;5;6;7]%Z.
Proof.
  unfold check_format.
  change (gen__check_sensitive_item_format pc fuel (vstr val)) with (gen__check_sensitive_item_format (fun _ _ => Exc Unsupported) 1%nat (VStr (map Z.of_N val))).
  unfold gen__check_sensitive_item_format, re_match_ast.
  rewrite !to_of_N.
  repeat (cbn [bind bindS truthy call]; rewrite ?to_of_N; match goal with |- context [match_start ?v ?r] => destruct (match_start v r) end).
  all: cbn [bind bindS truthy call]; eexists; (split; [reflexivity|split; [reflexivity|cbn; tauto]]).
Qed.

(* UTF-8 of ASCII text is the text; hexadecimal of bytes parses back to the big-endian number *)
Lemma utf8_ascii s : Forall (fun c => c < 128)%N s -> utf8 s = Some s.
Proof. induction 1 as [|c s Hc _ IH]; cbn [utf8]; [reflexivity|]. unfold utf8_char. replace (c <? 128)%N with true by (symmetry; now apply N.ltb_lt). now rewrite IH. Qed.
Lemma show_dec_aux_ascii : forall f x acc, Forall (fun c => c < 128)%N acc -> Forall (fun c => c < 128)%N (show_dec_aux f x acc).
Proof.
  induction f as [|f IH]; intros x acc Ha; cbn [show_dec_aux]; [exact Ha|].
  assert (H : Forall (fun c => c < 128)%N ((48 + x mod 10) :: acc)%N).
  { constructor; [|exact Ha]. assert (x mod 10 < 10)%N by (apply N.mod_upper_bound; discriminate). lia. }
  destruct (x <? 10)%N; [exact H|apply IH; exact H].
Qed.
Lemma anon0_ascii lookup : Forall (fun c => c < 128)%N (anon0_of lookup).
Proof. unfold anon0_of. apply Forall_app. split; [repeat constructor|]. unfold show_dec. apply show_dec_aux_ascii. constructor. Qed.

Lemma digit_val_hex d : (d < 16)%N -> digit_val (Z.of_N (hex_digit d)) = Some (Z.of_N d).
Proof.
  intro H. assert (E : forallb (fun d => match digit_val (Z.of_N (hex_digit d)) with Some v => Z.eqb v (Z.of_N d) | None => false end) (map N.of_nat (seq 0 16)) = true) by (vm_compute; reflexivity).
  rewrite forallb_forall in E. specialize (E d). lapply E; [|apply in_map_iff; exists (N.to_nat d); split; [lia|apply in_seq; lia]].
  destruct (digit_val (Z.of_N (hex_digit d))); [|discriminate]. intro Hz. apply Z.eqb_eq in Hz. now subst.
Qed.
Lemma parse_hex_bytes : forall bs acc, Forall (fun c => c < 256)%N bs ->
  parse_int 16 (Z.of_N acc) (map Z.of_N (hex_of_bytes bs)) = Some (Z.of_N (fold_left (fun a b => 256 * a + b)%N bs acc)).
Proof.
  induction bs as [|b bs IH]; intros acc Hb; [reflexivity|]. inversion Hb as [|? ? Hb1 Hb2]; subst.
  unfold hex_of_bytes. cbn [flat_map app map parse_int fold_left]. fold (hex_of_bytes bs).
  assert (b / 16 < 16)%N by (apply N.div_lt_upper_bound; lia). assert (b mod 16 < 16)%N by (apply N.mod_upper_bound; discriminate).
  rewrite !digit_val_hex by assumption.
  replace (Z.of_N (b / 16) <? 16)%Z with true by (symmetry; apply Z.ltb_lt; lia). replace (Z.of_N (b mod 16) <? 16)%Z with true by (symmetry; apply Z.ltb_lt; lia).
  replace ((Z.of_N acc * 16 + Z.of_N (b / 16)) * 16 + Z.of_N (b mod 16))%Z with (Z.of_N (256 * acc + b)).
  - apply IH. exact Hb2.
  - rewrite (N.div_mod b 16) at 1 by discriminate. lia.
Qed.
Lemma py_str_N x : py_str (VInt (Z.of_N x)) = Normal (vstr (show_dec x)).
Proof. unfold py_str. replace (Z.of_N x <? 0)%Z with false by (symmetry; apply Z.ltb_ge; lia). now rewrite nat_str_show. Qed.
Lemma b2a_hex_ascii s : Forall (fun c => c < 128)%N s -> py_b2a_hex_encode (vstr s) = Normal (vstr (hex_of_bytes s)).
Proof. intro H. unfold py_b2a_hex_encode, RefJun.vstr. rewrite to_of_N, (utf8_ascii s H). reflexivity. Qed.
Lemma hex_nonempty b bs : hex_of_bytes (b :: bs) <> []. Proof. discriminate. Qed.
Lemma numeric_of_ascii s : s <> [] -> Forall (fun c => c < 128)%N s ->
  PyLib.bind (py_b2a_hex_encode (vstr s)) (fun t24 => PyLib.bind (py_int t24 (VInt 16)) (fun t25 => py_str t25)) = Normal (vstr (to_decimal_of_bytes s)).
Proof.
  intros Hne Ha. rewrite (b2a_hex_ascii s Ha). cbn [PyLib.bind]. unfold py_int, RefJun.vstr at 1.
  destruct s as [|b bs]; [congruence|]. destruct (map Z.of_N (hex_of_bytes (b :: bs))) eqn:Eh; [discriminate|]. rewrite <- Eh.
  change 0%Z with (Z.of_N 0). rewrite parse_hex_bytes by (eapply Forall_impl; [|exact Ha]; intros; cbv beta in *; lia).
  cbn [PyLib.bind]. rewrite py_str_N. reflexivity.
Qed.

Lemma py_int_hex s : s <> [] -> Forall (fun c => c < 128)%N s ->
  py_int (vstr (hex_of_bytes s)) (VInt 16) = Normal (VInt (Z.of_N (fold_left (fun a b => 256 * a + b)%N s 0%N))).
Proof.
  intros Hne Ha. unfold py_int, RefJun.vstr.
  destruct s as [|b bs]; [congruence|]. destruct (map Z.of_N (hex_of_bytes (b :: bs))) eqn:Eh; [discriminate|]. rewrite <- Eh.
  change 0%Z with (Z.of_N 0). rewrite parse_hex_bytes by (eapply Forall_impl; [|exact Ha]; intros; cbv beta in *; lia). reflexivity.
Qed.

(* s.split("$") in the library model against the text model's split_on *)
Lemma split_same sep : forall s cur, PyLib.split_on (Z.of_N sep) (map Z.of_N cur) (map Z.of_N s) = map (map Z.of_N) (Str.split_on_aux sep s cur).
Proof.
  induction s as [|c s IH]; intro cur; cbn [map PyLib.split_on Str.split_on_aux]; [now rewrite map_rev|].
  replace (Z.of_N c =? Z.of_N sep)%Z with (c =? sep)%N by (destruct (N.eqb_spec c sep); [subst; symmetry; apply Z.eqb_refl|symmetry; apply Z.eqb_neq; lia]).
  destruct (c =? sep)%N; cbn [map]; [rewrite map_rev; f_equal; exact (IH [])|exact (IH (c :: cur))].
Qed.
Lemma py_split1_vstr s sep : py_split1 (vstr s) (Z.of_N sep) = Normal (VList (map vstr (Str.split_on sep s))).
Proof. unfold py_split1, RefJun.vstr, Str.split_on. change (@nil Z) with (map Z.of_N []). rewrite split_same, map_map. reflexivity. Qed.

(* a value classified as md5-crypt starts with "$1$" (read off the generated pattern through the regex semantics) *)
Lemma single_range x a : in_cset x (CRanges false [(a, a)]) = true -> x = a.
Proof. unfold in_cset. cbn [existsb fst snd xorb]. intro H. destruct (N.leb_spec a x), (N.leb_spec x a); cbn in H; try discriminate; lia. Qed.
Lemma three_head (val : str) A B C r p :
  match_start val (Seq Bol (Seq (Chr (CRanges false [(A, A)])) (Seq (Chr (CRanges false [(B, B)])) (Seq (Chr (CRanges false [(C, C)])) r)))) = Some p ->
  exists rest, val = A :: B :: C :: rest.
Proof.
  intro M. unfold match_start in M. destruct p as [b c]. apply RxFacts.match_at_in in M.
  apply ms_seq_in in M as (p0 & H0 & M). cbn [ms Nat.eqb] in H0. destruct H0 as [<-|[]]. cbn [fst snd] in M.
  apply ms_seq_in in M as (p1 & H1 & M). apply ms_chr_in in H1 as (x1 & N1 & C1 & ->). apply single_range in C1. subst x1. cbn [fst snd] in M.
  apply ms_seq_in in M as (p2 & H2 & M). apply ms_chr_in in H2 as (x2 & N2 & C2 & ->). apply single_range in C2. subst x2. cbn [fst snd] in M.
  apply ms_seq_in in M as (p3 & H3 & M). apply ms_chr_in in H3 as (x3 & N3 & C3 & ->). apply single_range in C3. subst x3.
  destruct val as [|a [|b0 [|c0 rest]]]; cbn [nth_error] in N1, N2, N3; try discriminate.
  injection N1 as ->. injection N2 as ->. injection N3 as ->. eauto.
Qed.
Lemma md5_class_shape val : check_format val = 4%N -> exists rest, val = (36 :: 49 :: 36 :: rest)%N.
Proof.
  unfold check_format, gen__check_sensitive_item_format, re_match_ast. rewrite !to_of_N.
  repeat (cbn [PyLib.bind PyLib.bindS truthy call]; rewrite ?to_of_N; match goal with |- context [match_start ?v ?r] => destruct (match_start v r) eqn:? end).
  all: cbn [PyLib.bind PyLib.bindS truthy call]; intro H4; try discriminate.
  all: match goal with H : match_start ?v RX_LIT2 = Some _ |- _ => exact (three_head v _ _ _ _ _ H) end.
Qed.
Lemma split_aux_nonempty sep : forall s cur, exists f fs, Str.split_on_aux sep s cur = f :: fs.
Proof. induction s as [|c s IH]; intro cur; cbn [Str.split_on_aux]; [eauto|]. destruct (c =? sep)%N; [eauto|apply IH]. Qed.

Lemma av_lookup_shape orc raw lookup reserved salt out lookup' :
  anonymize_value orc raw lookup reserved salt = Done (out, lookup') -> lookup' = lookup \/ exists k v, lookup' = lset lookup k v.
Proof.
  unfold anonymize_value. destruct (extract_enclosing raw [] []) as [[h v] t].
  destruct (mem_str v reserved); [intros [= _ <-]; now left|]. destruct (is_empty v); [intros [= _ <-]; now left|].
  destruct (if starts_with MAGIC v then jun_decrypt_opt v else Done None) as [od|]; cbn [obind]; [|discriminate].
  destruct (lget lookup v); [intros [= _ <-]; now left|].
  destruct (match od with Some d => lget lookup d | None => None end).
  { destruct (jun_encrypt_o s salt); cbn [obind]; [intros [= _ <-]; now left|discriminate]. }
  cbn [obind].
  repeat match goal with |- obind ?m _ = _ -> _ => lazymatch m with context [lset] => fail | _ => destruct m; cbn [obind]; [|discriminate] end end.
  destruct od as [d|].
  - destruct (is_empty d); cbn [obind]; [intros [= _ <-]; right; eauto|].
    match goal with |- obind (match ?x with _ => _ end) _ = _ -> _ => destruct x end; cbn [obind]; try discriminate. intros [= _ <-]; right; eauto.
  - cbn [obind]. intros [= _ <-]; right; eauto.
Qed.
Lemma av_keys_unique orc raw lookup reserved salt out lookup' :
  keys_unique lookup -> anonymize_value orc raw lookup reserved salt = Done (out, lookup') -> keys_unique lookup'.
Proof. intros Hu H. apply av_lookup_shape in H as [->|(k & v & ->)]; [exact Hu|now apply lset_keys_unique]. Qed.

Lemma decrypt_try pc fuel val : (length val < fuel)%nat ->
  match JunModel.decrypt val with
  | JOk p => py_try_ve (PyLib.bind (G_fn_jun.gen_juniper_decrypt pc fuel (vstr val)) (fun t8 => Normal t8)) = Normal (Some (vstr p))
  | JValueError => py_try_ve (PyLib.bind (G_fn_jun.gen_juniper_decrypt pc fuel (vstr val)) (fun t8 => Normal t8)) = Normal None
  | _ => False end.
Proof.
  intro Hf. pose proof (gen_decrypt_refines pc fuel val Hf) as R. destruct (JunModel.decrypt val); try exact R.
  - rewrite R. reflexivity.
  - destruct R as (m & ->). reflexivity.
Qed.

Lemma sw_vstr v t : py_startswith (vstr v) (vstr t) = Normal (VBool (starts_with t v)). Proof. exact (RefEncl.py_startswith_vstr v t). Qed.
Lemma encl_vstr pc fuel raw : (length raw < fuel)%nat ->
  gen__extract_enclosing_text pc fuel (vstr raw) (VStr []) (VStr []) = (let '(h, v, t) := extract_enclosing raw [] [] in Normal (VTuple [vstr h; vstr v; vstr t])).
Proof. exact (gen_extract_enclosing_refines_fuel pc fuel raw [] []). Qed.
Definition vod (od : option str) : pyval := match od with Some d => vstr d | None => VNone end.

Lemma py_in_vod od lookup : py_in (vod od) (vlook lookup) = Normal (VBool (match (match od with Some d => lget lookup d | None => None end) with Some _ => true | None => false end)).
Proof. destruct od as [d|]; cbn [vod]; [apply py_in_vlook|]. unfold py_in, vlook. now rewrite dict_get_vlook_none. Qed.

Lemma py_setitem_vlook l k v : keys_unique l -> py_setitem (vlook l) (vstr k) (vstr v) = Normal (vlook (lset l k v)).
Proof. intro Hu. unfold py_setitem, vlook. now rewrite dict_set_vlook. Qed.
Lemma str_repeat_zero n : py_str_repeat (VStr [48%Z]) (VInt (Z.of_nat n)) = Normal (vstr (repeat 48%N n)).
Proof. unfold py_str_repeat, RefJun.vstr. rewrite Nat2Z.id. f_equal. f_equal. induction n as [|n IH]; cbn [repeat concat map app]; [reflexivity|]. now rewrite IH. Qed.

Ltac fmt_eval := repeat match goal with
  | |- context [N.eqb (Z.to_N ?a) ?F] => let b := eval vm_compute in (N.eqb (Z.to_N a) F) in change (N.eqb (Z.to_N a) F) with b
  end.
Ltac fin od NotJun Huniq :=
  let Hemp := fresh "Hemp" in assert (Hemp := NotJun ltac:(vm_compute; discriminate));
  destruct od as [d|]; cbn [vod]; [rewrite truthy_vstr, (Hemp d eq_refl)|]; cbn [negb truthy];
  cbn [PyLib.bind PyLib.bindS truthy py_eq veq Z.eqb Pos.eqb obind]; rewrite (py_setitem_vlook _ _ _ Huniq);
  cbn [PyLib.bind PyLib.bindS truthy py_eq veq Z.eqb Pos.eqb obind];
  intros [= <- <-]; rewrite RefJunEnc.py_add_vstr; cbn [PyLib.bind]; rewrite RefJunEnc.py_add_vstr; cbn [PyLib.bind PyLib.bindS call]; now rewrite <- app_assoc.
Ltac steps := cbn [PyLib.bind PyLib.bindS truthy py_eq veq Z.eqb Pos.eqb obind].

Section V.
Variable pc : pyval -> pyval -> PyLib.res.
Variable orc : oracle.
Hypothesis H7 : forall x, pc (VFun (of_string "cisco_type7.using.hash")) (VTuple [VList [vstr x]; VDict [(S_ "salt", VInt 9)]]) = Normal (vstr (type7_hash 9 x)).
Hypothesis Hm : forall x n, pc (VFun (of_string "md5_crypt.using.hash")) (VTuple [VList [vstr x]; VDict [(S_ "salt", vstr (repeat 48%N n))]])
  = match olookup orc (lit "m" ++ show_dec (N.of_nat n) ++ [58%N] ++ x) with Some h => Normal (vstr h) | None => Exc (ValueError []) end.
Hypothesis Hs : forall x, pc (VFun (of_string "sha512_crypt.using.hash")) (VTuple [VList [vstr x]; VDict [(S_ "rounds", VInt 5000); (S_ "salt", vstr (repeat 48%N 16))]])
  = match olookup orc (lit "s:" ++ x) with Some h => Normal (vstr h) | None => Exc (ValueError []) end.

Theorem gen_anonymize_value_refines fuel raw lookup reserved salt out lookup' :
  (length raw < fuel)%nat -> table_bytes lookup -> keys_unique lookup ->
  (forall c, JunModel.encrypt (anon0_of lookup) salt = JOk c -> (length c < fuel)%nat) ->
  anonymize_value orc raw lookup reserved salt = Done (out, lookup') ->
  gen__anonymize_value pc fuel (vstr raw) (vlook lookup) (vres reserved) (vstr salt) = Normal (VTuple [vstr out; vlook lookup']).
Proof.
  intros Hfuel Hbytes Huniq Hfuel2. unfold anonymize_value, gen__anonymize_value.
  rewrite (encl_vstr pc fuel raw Hfuel).
  destruct (extract_enclosing raw [] []) as [[sens_head val] sens_tail] eqn:Eenc.
  assert (Hval : (length val < fuel)%nat).
  { apply TextProofs2.C09_enclosing_text_partition in Eenc. rewrite <- Eenc in Hfuel. rewrite !app_length in Hfuel. lia. }
  cbn [PyLib.bind unpack3]. rewrite py_in_vres. cbn [PyLib.bind truthy].
  destruct (mem_str val reserved). { intros [= <- <-]. reflexivity. }
  cbn [PyLib.bindS]. rewrite py_not_vstr. cbn [PyLib.bind truthy].
  destruct (is_empty val) eqn:Eempty. { intros [= <- <-]. reflexivity. }
  cbn [PyLib.bindS]. change (VStr [36;57;36]%Z) with (vstr MAGIC). rewrite sw_vstr. cbn [PyLib.bind truthy].
  (* abstract what follows the decryption attempt, on both sides *)
  match goal with |- obind _ ?MF = _ -> call (PyLib.bind (PyLib.bindS _ ?K) ?K2) = _ => set (mf := MF); set (kk := K); set (kk2 := K2) end.
  assert (Rest : forall od, (forall d, od = Some d -> JunModel.decrypt val = JOk d) -> mf od = Done (out, lookup') ->
            call (PyLib.bind (kk (vstr raw, vlook lookup, vres reserved, vstr salt, vod od, VNone, VNone, vstr sens_head, vstr val, vstr sens_tail, VNone)) kk2)
            = Normal (VTuple [vstr out; vlook lookup'])).
  { subst mf kk kk2. intros od Hod. cbv beta iota.
    rewrite py_in_vlook. cbn [PyLib.bind truthy].
    destruct (lget lookup val) as [anon|] eqn:Elv.
    { intros [= <- <-]. rewrite (py_getitem_vlook val lookup anon Elv). cbn [PyLib.bind]. rewrite RefJunEnc.py_add_vstr. cbn [PyLib.bind]. rewrite RefJunEnc.py_add_vstr. cbn [PyLib.bind PyLib.bindS call]. now rewrite <- app_assoc. }
    cbn [PyLib.bindS]. rewrite py_in_vod. cbn [PyLib.bind truthy].
    destruct (match od with Some d => lget lookup d | None => None end) as [stored|] eqn:Est.
    { destruct od as [d|]; [|discriminate]. cbn [vod]. rewrite (py_getitem_vlook d lookup stored Est). cbn [PyLib.bind].
      destruct (gen_encrypt_refines pc fuel stored salt (lget_bytes _ _ _ Hbytes Est)) as (crypt & Ec & Eg). unfold jun_encrypt_o. rewrite Ec, Eg. cbn [obind PyLib.bind].
      intros [= <- <-]. rewrite RefJunEnc.py_add_vstr. cbn [PyLib.bind]. rewrite RefJunEnc.py_add_vstr. cbn [PyLib.bind PyLib.bindS call]. now rewrite <- app_assoc. }
    cbn [PyLib.bindS]. rewrite py_len_vlook. cbn [PyLib.bind]. rewrite format_removed. cbn [PyLib.bind]. fold (anon0_of lookup).
    destruct (classify_spec pc fuel val) as (z & Ecl & Ecf & Hz). rewrite Ecl, Ecf. cbn [PyLib.bind].
    (* what the end of the function does with the replacement a6, once the format-specific steps are through *)
    assert (NotJun : Z.to_N z <> F_JUNIPER -> forall d, od = Some d -> is_empty d = true).
    { intros Hn d ->. destruct (is_empty d) eqn:Ed; [reflexivity|]. exfalso. apply Hn. rewrite <- Ecf. exact (decrypt_ok_is_juniper val d (Hod d eq_refl)). }
    pose proof (anon0_ascii lookup) as Hascii. pose proof (anon0_bytes lookup) as B0. pose proof (anon0_nonempty lookup) as Hne0.
    destruct Hz as [<-|[<-|[<-|[<-|[<-|[<-|[<-|[]]]]]]]]; fmt_eval; steps.
    - (* cisco type 7 *) rewrite H7. steps. fin od NotJun Huniq.
    - (* numeric *) rewrite (b2a_hex_ascii _ Hascii). steps. rewrite (py_int_hex _ Hne0 Hascii). steps. rewrite py_str_N. steps.
      fold (to_decimal_of_bytes (anon0_of lookup)). fin od NotJun Huniq.
    - (* hexadecimal *) rewrite (b2a_hex_ascii _ Hascii). steps. unfold ascii_bytes. fin od NotJun Huniq.
    - (* md5-crypt *)
      destruct (md5_class_shape val Ecf) as (rest & Eval).
      destruct (split_aux_nonempty 36 rest []) as (fld & flds & Esp).
      assert (Esplit : Str.split_on 36 val = [] :: [49%N] :: fld :: flds).
      { rewrite Eval. unfold Str.split_on. cbn [Str.split_on_aux N.eqb Pos.eqb rev app]. now rewrite Esp. }
      change 36%Z with (Z.of_N 36). rewrite py_split1_vstr, Esplit. steps.
      change (VInt 2) with (VInt (Z.of_nat 2)). rewrite (py_getitem_list_nat vstr ([] :: [49%N] :: fld :: flds) 2 fld eq_refl). steps.
      rewrite RefJunDec.py_len_vstr. steps. cbn [py_min2]. change 8%Z with (Z.of_nat 8). rewrite <- Nat2Z.inj_min. steps. rewrite str_repeat_zero. steps. rewrite Hm.
      cbn [nth]. replace (N.min (N.of_nat (length fld)) 8) with (N.of_nat (Nat.min (length fld) 8)) by lia.
      destruct (olookup orc (lit "m" ++ show_dec (N.of_nat (Nat.min (length fld) 8)) ++ [58%N] ++ anon0_of lookup)) as [h|]; [|steps; discriminate]. steps. fin od NotJun Huniq.
    - (* text *) fin od NotJun Huniq.
    - (* sha512-crypt *) change (VInt 16) with (VInt (Z.of_nat 16)). rewrite str_repeat_zero. steps. rewrite Hs.
      destruct (olookup orc (lit "s:" ++ anon0_of lookup)) as [h|]; [|steps; discriminate]. steps. fin od NotJun Huniq.
    - (* juniper type 9 *)
      destruct (gen_encrypt_refines pc fuel (anon0_of lookup) salt B0) as (crypt & Ec & Eg). unfold jun_encrypt_o. rewrite Ec, Eg. steps.
      destruct od as [d|]; cbn [vod].
      + rewrite truthy_vstr. destruct (is_empty d) eqn:Ed; cbn [negb]; steps.
        * rewrite (py_setitem_vlook _ _ _ Huniq). steps. intros [= <- <-]. rewrite RefJunEnc.py_add_vstr. cbn [PyLib.bind]. rewrite RefJunEnc.py_add_vstr. cbn [PyLib.bind PyLib.bindS call]. now rewrite <- app_assoc.
        * destruct (encrypt_decrypt_roundtrip (anon0_of lookup) salt B0) as (crypt' & Ec' & _ & Hrt). rewrite Ec in Ec'. injection Ec' as <-.
          specialize (Hrt (or_introl Hne0)). pose proof (gen_decrypt_refines pc fuel crypt (Hfuel2 crypt Ec)) as Gd. rewrite Hrt in Gd. rewrite Hrt, Gd. steps.
          rewrite (py_setitem_vlook _ _ _ Huniq). steps. intros [= <- <-]. rewrite RefJunEnc.py_add_vstr. cbn [PyLib.bind]. rewrite RefJunEnc.py_add_vstr. cbn [PyLib.bind PyLib.bindS call]. now rewrite <- app_assoc.
      + cbn [truthy]. steps. rewrite (py_setitem_vlook _ _ _ Huniq). steps. intros [= <- <-]. rewrite RefJunEnc.py_add_vstr. cbn [PyLib.bind]. rewrite RefJunEnc.py_add_vstr. cbn [PyLib.bind PyLib.bindS call]. now rewrite <- app_assoc. }
  pose proof (decrypt_try pc fuel val Hval) as DT. unfold jun_decrypt_opt.
  destruct (starts_with MAGIC val).
  - destruct (JunModel.decrypt val) as [p| | | |] eqn:Edec; try contradiction; try (cbn [obind]; discriminate).
    + rewrite DT. cbn [obind PyLib.bind PyLib.bindS]. apply (Rest (Some p)). intros d [= <-]. reflexivity.
    + rewrite DT. cbn [obind PyLib.bind PyLib.bindS]. apply (Rest None). intros d [=].
  - cbn [obind PyLib.bind PyLib.bindS]. apply (Rest None). intros d [=].
Qed.
End V.

(* the assumption about passlib, in one place: the three hashes behave as the model says (type 7 is the documented xor scheme with salt 9;
   md5-crypt / sha512-crypt with the static salts are whatever the oracle table supplied with a case holds) *)
Definition passlib_answers_as_the_model (pc : pyval -> pyval -> PyLib.res) (orc : oracle) : Prop :=
  (forall x, pc (VFun (of_string "cisco_type7.using.hash")) (VTuple [VList [vstr x]; VDict [(S_ "salt", VInt 9)]]) = Normal (vstr (type7_hash 9 x))) /\
  (forall x n, pc (VFun (of_string "md5_crypt.using.hash")) (VTuple [VList [vstr x]; VDict [(S_ "salt", vstr (repeat 48%N n))]])
     = match olookup orc (lit "m" ++ show_dec (N.of_nat n) ++ [58%N] ++ x) with Some h => Normal (vstr h) | None => Exc (ValueError []) end) /\
  (forall x, pc (VFun (of_string "sha512_crypt.using.hash")) (VTuple [VList [vstr x]; VDict [(S_ "rounds", VInt 5000); (S_ "salt", vstr (repeat 48%N 16))]])
     = match olookup orc (lit "s:" ++ x) with Some h => Normal (vstr h) | None => Exc (ValueError []) end).

Theorem gen_anonymize_value_is_the_model pc orc : passlib_answers_as_the_model pc orc ->
  forall fuel raw lookup reserved salt out lookup',
  (length raw < fuel)%nat -> table_bytes lookup -> keys_unique lookup ->
  (forall c, JunModel.encrypt (anon0_of lookup) salt = JOk c -> (length c < fuel)%nat) ->
  anonymize_value orc raw lookup reserved salt = Done (out, lookup') ->
  gen__anonymize_value pc fuel (vstr raw) (vlook lookup) (vres reserved) (vstr salt) = Normal (VTuple [vstr out; vlook lookup']).
Proof. intros (H7 & Hm & Hs). exact (gen_anonymize_value_refines pc orc H7 Hm Hs). Qed.

Theorem table_invariants_preserved orc raw lookup reserved salt out lookup' :
  table_bytes orc -> table_bytes lookup -> keys_unique lookup ->
  anonymize_value orc raw lookup reserved salt = Done (out, lookup') -> table_bytes lookup' /\ keys_unique lookup'.
Proof.
  intros Ho Hl Hu E. split; [|exact (av_keys_unique orc raw lookup reserved salt out lookup' Hu E)].
  pose proof (anonymize_value_never_raises orc raw lookup reserved salt Ho Hl) as R. rewrite E in R. exact R.
Qed.
