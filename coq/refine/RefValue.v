(* sensitive_item_removal._anonymize_value as GENERATED from the source (gen/G_fn_sir2.v) is the model's anonymize_value (model/TextModel.v):
   for every raw value, every lookup table without duplicate keys whose stored values are byte strings (both maintained by the function, so: after
   any history), every reserved list and salt, whenever the model returns (out, lookup') the translated function returns exactly those --
   enclosing text put back, reserved / empty values untouched, the $9$ decryption attempt with its except-clause, table hits by value and by
   decrypted plaintext, the pseudonym "netconanRemoved<n>", its re-encoding per format class (type 7 via the passlib oracle, decimal and
   hexadecimal of the ASCII bytes, md5-crypt with the old salt length, sha512-crypt, $9$), and the table update.
   passlib's three hashes are the py_call parameter, assumed to answer as the model's oracle table / type7_hash do (section hypotheses H7, Hm, Hs).
   On the way: str(int) against show_dec, int(hex, 16) against the big-endian value, UTF-8 of ASCII, s.split("$") against split_on, dict
   assignment against lset, and "classified md5 => starts with $1$" read off the generated pattern through the regex semantics. *)
From Coq Require Import String.
From Coq Require Import List ZArith NArith Bool Arith Lia.
Import ListNotations.
Require Import PyLib PyLib2 PyRe PyHash Str IpText Md5 Rx RxFacts RxSub G_rx G_text_consts G_juniper JunModel JunProofs TextModel TextProofs2 TotalProofs G_fn_jun G_fn_sir G_fn_sir2 RefJun RefJunEnc RefJunDec RefEncl.
Require Export RefBase.

Notation vstr := RefJun.vstr.
Lemma vstr_same s : RefEncl.vstr s = vstr s. Proof. reflexivity. Qed.

Lemma classify_spec pc fuel val :
  exists z, gen__check_sensitive_item_format pc fuel (vstr val) = Normal (VInt z) /\ check_format val = Z.to_N z /\ In z [1;2;3;4;5;6;7]%Z.
Proof.
  unfold check_format.
  change (gen__check_sensitive_item_format pc fuel (vstr val)) with (gen__check_sensitive_item_format (fun _ _ => Exc Unsupported) 1%nat (VStr (map Z.of_N val))).
  unfold gen__check_sensitive_item_format, re_match_ast.
  rewrite !to_of_N.
  repeat (cbn [bind bindS truthy call]; rewrite ?to_of_N; match goal with |- context [match_start ?v ?r] => destruct (match_start v r) end).
  all: cbn [bind bindS truthy call]; eexists; (split; [reflexivity|split; [reflexivity|cbn; tauto]]).
Qed.

(* UTF-8 of ASCII text is the text; hexadecimal of bytes parses back to the big-endian number *)
Lemma single_range x a : in_cset x (CRanges false [(a, a)]) = true -> x = a.
Proof. unfold in_cset. cbn [existsb fst snd xorb]. intro H. destruct (N.leb_spec a x), (N.leb_spec x a); cbn in H; try discriminate; lia. Qed.
Lemma three_head (val : str) A B C r p :
  match_start val (Seq Bol (Seq (Chr (CRanges false [(A, A)])) (Seq (Chr (CRanges false [(B, B)])) (Seq (Chr (CRanges false [(C, C)])) r)))) = Some p ->
  exists rest, val = A :: B :: C :: rest.
Proof.
  intro M. unfold match_start in M. destruct p as [b c]. apply RxFacts.match_at_in in M.
  apply ms_seq_in in M as (p0 & H0 & M). cbn [ms Nat.eqb] in H0. destruct H0 as [<-|[]]. cbn [fst snd] in M.
  apply ms_seq_in in M as (p1 & H1 & M). apply ms_chr_in in H1 as (x1 & N1 & C1 & ->). apply single_range in C1. subst x1. cbn [fst snd] in M.
  apply ms_seq_in in M as (p2 & H2 & M). apply ms_chr_in in H2 as (x2 & N2 & C2 & ->). apply single_range in C2. subst x2. cbn [fst snd] in M.
  apply ms_seq_in in M as (p3 & H3 & M). apply ms_chr_in in H3 as (x3 & N3 & C3 & ->). apply single_range in C3. subst x3.
  destruct val as [|a [|b0 [|c0 rest]]]; cbn [nth_error] in N1, N2, N3; try discriminate.
  injection N1 as ->. injection N2 as ->. injection N3 as ->. eauto.
Qed.
Lemma md5_class_shape val : check_format val = 4%N -> exists rest, val = (36 :: 49 :: 36 :: rest)%N.
Proof.
  unfold check_format, gen__check_sensitive_item_format, re_match_ast. rewrite !to_of_N.
  repeat (cbn [PyLib.bind PyLib.bindS truthy call]; rewrite ?to_of_N; match goal with |- context [match_start ?v ?r] => destruct (match_start v r) eqn:? end).
  all: cbn [PyLib.bind PyLib.bindS truthy call]; intro H4; try discriminate.
  all: match goal with H : match_start ?v RX_LIT2 = Some _ |- _ => exact (three_head v _ _ _ _ _ H) end.
Qed.
Lemma av_lookup_shape orc raw lookup reserved salt out lookup' :
  anonymize_value orc raw lookup reserved salt = Done (out, lookup') -> lookup' = lookup \/ exists k v, lookup' = lset lookup k v.
Proof.
  unfold anonymize_value. destruct (extract_enclosing raw [] []) as [[h v] t].
  destruct (mem_str v reserved); [intros [= _ <-]; now left|]. destruct (is_empty v); [intros [= _ <-]; now left|].
  destruct (if starts_with MAGIC v then jun_decrypt_opt v else Done None) as [od|]; cbn [obind]; [|discriminate].
  destruct (lget lookup v); [intros [= _ <-]; now left|].
  destruct (match od with Some d => lget lookup d | None => None end).
  { destruct (jun_encrypt_o s salt); cbn [obind]; [intros [= _ <-]; now left|discriminate]. }
  cbn [obind].
  repeat match goal with |- obind ?m _ = _ -> _ => lazymatch m with context [lset] => fail | _ => destruct m; cbn [obind]; [|discriminate] end end.
  destruct od as [d|].
  - destruct (is_empty d); cbn [obind]; [intros [= _ <-]; right; eauto|].
    match goal with |- obind (match ?x with _ => _ end) _ = _ -> _ => destruct x end; cbn [obind]; try discriminate. intros [= _ <-]; right; eauto.
  - cbn [obind]. intros [= _ <-]; right; eauto.
Qed.
Lemma av_keys_unique orc raw lookup reserved salt out lookup' :
  keys_unique lookup -> anonymize_value orc raw lookup reserved salt = Done (out, lookup') -> keys_unique lookup'.
Proof. intros Hu H. apply av_lookup_shape in H as [->|(k & v & ->)]; [exact Hu|now apply lset_keys_unique]. Qed.

Lemma decrypt_try pc fuel val : (length val < fuel)%nat ->
  match JunModel.decrypt val with
  | JOk p => py_try_ve (PyLib.bind (G_fn_jun.gen_juniper_decrypt pc fuel (vstr val)) (fun t8 => Normal t8)) = Normal (Some (vstr p))
  | JValueError => py_try_ve (PyLib.bind (G_fn_jun.gen_juniper_decrypt pc fuel (vstr val)) (fun t8 => Normal t8)) = Normal None
  | _ => False end.
Proof.
  intro Hf. pose proof (gen_decrypt_refines pc fuel val Hf) as R. destruct (JunModel.decrypt val); try exact R.
  - rewrite R. reflexivity.
  - destruct R as (m & ->). reflexivity.
Qed.

Lemma sw_vstr v t : py_startswith (vstr v) (vstr t) = Normal (VBool (starts_with t v)). Proof. exact (RefEncl.py_startswith_vstr v t). Qed.
Lemma encl_vstr pc fuel raw : (length raw < fuel)%nat ->
  gen__extract_enclosing_text pc fuel (vstr raw) (VStr []) (VStr []) = (let '(h, v, t) := extract_enclosing raw [] [] in Normal (VTuple [vstr h; vstr v; vstr t])).
Proof. exact (gen_extract_enclosing_refines_fuel pc fuel raw [] []). Qed.
Ltac fmt_eval := repeat match goal with
  | |- context [N.eqb (Z.to_N ?a) ?F] => let b := eval vm_compute in (N.eqb (Z.to_N a) F) in change (N.eqb (Z.to_N a) F) with b
  end.
Ltac fin od NotJun Huniq :=
  let Hemp := fresh "Hemp" in assert (Hemp := NotJun ltac:(vm_compute; discriminate));
  destruct od as [d|]; cbn [vod]; [rewrite truthy_vstr, (Hemp d eq_refl)|]; cbn [negb truthy];
  cbn [PyLib.bind PyLib.bindS truthy py_eq veq Z.eqb Pos.eqb obind]; rewrite (py_setitem_vlook _ _ _ Huniq);
  cbn [PyLib.bind PyLib.bindS truthy py_eq veq Z.eqb Pos.eqb obind];
  intros [= <- <-]; rewrite RefStr.py_add_vstr; cbn [PyLib.bind]; rewrite RefStr.py_add_vstr; cbn [PyLib.bind PyLib.bindS call]; now rewrite <- app_assoc.
Ltac steps := cbn [PyLib.bind PyLib.bindS truthy py_eq veq Z.eqb Pos.eqb obind].

Section V.
Variable pc : pyval -> pyval -> PyLib.res.
Variable orc : oracle.
Hypothesis H7 : forall x, pc (VFun (of_string "cisco_type7.using.hash")) (VTuple [VList [vstr x]; VDict [(S_ "salt", VInt 9)]]) = Normal (vstr (type7_hash 9 x)).
Hypothesis Hm : forall x n, pc (VFun (of_string "md5_crypt.using.hash")) (VTuple [VList [vstr x]; VDict [(S_ "salt", vstr (repeat 48%N n))]])
  = match olookup orc (lit "m" ++ show_dec (N.of_nat n) ++ [58%N] ++ x) with Some h => Normal (vstr h) | None => Exc (ValueError []) end.
Hypothesis Hs : forall x, pc (VFun (of_string "sha512_crypt.using.hash")) (VTuple [VList [vstr x]; VDict [(S_ "rounds", VInt 5000); (S_ "salt", vstr (repeat 48%N 16))]])
  = match olookup orc (lit "s:" ++ x) with Some h => Normal (vstr h) | None => Exc (ValueError []) end.

Theorem gen_anonymize_value_refines fuel raw lookup reserved salt out lookup' :
  (length raw < fuel)%nat -> table_bytes lookup -> keys_unique lookup ->
  (forall c, JunModel.encrypt (anon0_of lookup) salt = JOk c -> (length c < fuel)%nat) ->
  anonymize_value orc raw lookup reserved salt = Done (out, lookup') ->
  gen__anonymize_value pc fuel (vstr raw) (vlook lookup) (vres reserved) (vstr salt) = Normal (VTuple [vstr out; vlook lookup']).
Proof.
  intros Hfuel Hbytes Huniq Hfuel2. unfold anonymize_value, gen__anonymize_value.
  rewrite (encl_vstr pc fuel raw Hfuel).
  destruct (extract_enclosing raw [] []) as [[sens_head val] sens_tail] eqn:Eenc.
  assert (Hval : (length val < fuel)%nat).
  { apply TextProofs2.C09_enclosing_text_partition in Eenc. rewrite <- Eenc in Hfuel. rewrite !app_length in Hfuel. lia. }
  cbn [PyLib.bind unpack3]. rewrite py_in_vres. cbn [PyLib.bind truthy].
  destruct (mem_str val reserved). { intros [= <- <-]. reflexivity. }
  cbn [PyLib.bindS]. rewrite py_not_vstr. cbn [PyLib.bind truthy].
  destruct (is_empty val) eqn:Eempty. { intros [= <- <-]. reflexivity. }
  cbn [PyLib.bindS]. change (VStr [36;57;36]%Z) with (vstr MAGIC). rewrite sw_vstr. cbn [PyLib.bind truthy].
  (* abstract what follows the decryption attempt, on both sides *)
  match goal with |- obind _ ?MF = _ -> call (PyLib.bind (PyLib.bindS _ ?K) ?K2) = _ => set (mf := MF); set (kk := K); set (kk2 := K2) end.
  assert (Rest : forall od, (forall d, od = Some d -> JunModel.decrypt val = JOk d) -> mf od = Done (out, lookup') ->
            call (PyLib.bind (kk (vstr raw, vlook lookup, vres reserved, vstr salt, vod od, VNone, VNone, vstr sens_head, vstr val, vstr sens_tail, VNone)) kk2)
            = Normal (VTuple [vstr out; vlook lookup'])).
  { subst mf kk kk2. intros od Hod. cbv beta iota.
    rewrite py_in_vlook. cbn [PyLib.bind truthy].
    destruct (lget lookup val) as [anon|] eqn:Elv.
    { intros [= <- <-]. rewrite (py_getitem_vlook val lookup anon Elv). cbn [PyLib.bind]. rewrite RefStr.py_add_vstr. cbn [PyLib.bind]. rewrite RefStr.py_add_vstr. cbn [PyLib.bind PyLib.bindS call]. now rewrite <- app_assoc. }
    cbn [PyLib.bindS]. rewrite py_in_vod. cbn [PyLib.bind truthy].
    destruct (match od with Some d => lget lookup d | None => None end) as [stored|] eqn:Est.
    { destruct od as [d|]; [|discriminate]. cbn [vod]. rewrite (py_getitem_vlook d lookup stored Est). cbn [PyLib.bind].
      destruct (gen_encrypt_refines pc fuel stored salt (lget_bytes _ _ _ Hbytes Est)) as (crypt & Ec & Eg). unfold jun_encrypt_o. rewrite Ec, Eg. cbn [obind PyLib.bind].
      intros [= <- <-]. rewrite RefStr.py_add_vstr. cbn [PyLib.bind]. rewrite RefStr.py_add_vstr. cbn [PyLib.bind PyLib.bindS call]. now rewrite <- app_assoc. }
    cbn [PyLib.bindS]. rewrite py_len_vlook. cbn [PyLib.bind]. rewrite format_removed. cbn [PyLib.bind]. fold (anon0_of lookup).
    destruct (classify_spec pc fuel val) as (z & Ecl & Ecf & Hz). rewrite Ecl, Ecf. cbn [PyLib.bind].
    (* what the end of the function does with the replacement a6, once the format-specific steps are through *)
    assert (NotJun : Z.to_N z <> F_JUNIPER -> forall d, od = Some d -> is_empty d = true).
    { intros Hn d ->. destruct (is_empty d) eqn:Ed; [reflexivity|]. exfalso. apply Hn. rewrite <- Ecf. exact (decrypt_ok_is_juniper val d (Hod d eq_refl)). }
    pose proof (anon0_ascii lookup) as Hascii. pose proof (anon0_bytes lookup) as B0. pose proof (anon0_nonempty lookup) as Hne0.
    destruct Hz as [<-|[<-|[<-|[<-|[<-|[<-|[<-|[]]]]]]]]; fmt_eval; steps.
    - (* cisco type 7 *) rewrite H7. steps. fin od NotJun Huniq.
    - (* numeric *) rewrite (b2a_hex_ascii _ Hascii). steps. rewrite (py_int_hex _ Hne0 Hascii). steps. rewrite py_str_N. steps.
      fold (to_decimal_of_bytes (anon0_of lookup)). fin od NotJun Huniq.
    - (* hexadecimal *) rewrite (b2a_hex_ascii _ Hascii). steps. unfold ascii_bytes. fin od NotJun Huniq.
    - (* md5-crypt *)
      destruct (md5_class_shape val Ecf) as (rest & Eval).
      destruct (split_aux_nonempty 36 rest []) as (fld & flds & Esp).
      assert (Esplit : Str.split_on 36 val = [] :: [49%N] :: fld :: flds).
      { rewrite Eval. unfold Str.split_on. cbn [Str.split_on_aux N.eqb Pos.eqb rev app]. now rewrite Esp. }
      change 36%Z with (Z.of_N 36). rewrite py_split1_vstr, Esplit. steps.
      change (VInt 2) with (VInt (Z.of_nat 2)). rewrite (py_getitem_list_nat vstr ([] :: [49%N] :: fld :: flds) 2 fld eq_refl). steps.
      rewrite RefStr.py_len_vstr. steps. cbn [py_min2]. change 8%Z with (Z.of_nat 8). rewrite <- Nat2Z.inj_min. steps. rewrite str_repeat_zero. steps. rewrite Hm.
      cbn [nth]. replace (N.min (N.of_nat (length fld)) 8) with (N.of_nat (Nat.min (length fld) 8)) by lia.
      destruct (olookup orc (lit "m" ++ show_dec (N.of_nat (Nat.min (length fld) 8)) ++ [58%N] ++ anon0_of lookup)) as [h|]; [|steps; discriminate]. steps. fin od NotJun Huniq.
    - (* text *) fin od NotJun Huniq.
    - (* sha512-crypt *) change (VInt 16) with (VInt (Z.of_nat 16)). rewrite str_repeat_zero. steps. rewrite Hs.
      destruct (olookup orc (lit "s:" ++ anon0_of lookup)) as [h|]; [|steps; discriminate]. steps. fin od NotJun Huniq.
    - (* juniper type 9 *)
      destruct (gen_encrypt_refines pc fuel (anon0_of lookup) salt B0) as (crypt & Ec & Eg). unfold jun_encrypt_o. rewrite Ec, Eg. steps.
      destruct od as [d|]; cbn [vod].
      + rewrite truthy_vstr. destruct (is_empty d) eqn:Ed; cbn [negb]; steps.
        * rewrite (py_setitem_vlook _ _ _ Huniq). steps. intros [= <- <-]. rewrite RefStr.py_add_vstr. cbn [PyLib.bind]. rewrite RefStr.py_add_vstr. cbn [PyLib.bind PyLib.bindS call]. now rewrite <- app_assoc.
        * destruct (encrypt_decrypt_roundtrip (anon0_of lookup) salt B0) as (crypt' & Ec' & _ & Hrt). rewrite Ec in Ec'. injection Ec' as <-.
          specialize (Hrt (or_introl Hne0)). pose proof (gen_decrypt_refines pc fuel crypt (Hfuel2 crypt Ec)) as Gd. rewrite Hrt in Gd. rewrite Hrt, Gd. steps.
          rewrite (py_setitem_vlook _ _ _ Huniq). steps. intros [= <- <-]. rewrite RefStr.py_add_vstr. cbn [PyLib.bind]. rewrite RefStr.py_add_vstr. cbn [PyLib.bind PyLib.bindS call]. now rewrite <- app_assoc.
      + cbn [truthy]. steps. rewrite (py_setitem_vlook _ _ _ Huniq). steps. intros [= <- <-]. rewrite RefStr.py_add_vstr. cbn [PyLib.bind]. rewrite RefStr.py_add_vstr. cbn [PyLib.bind PyLib.bindS call]. now rewrite <- app_assoc. }
  pose proof (decrypt_try pc fuel val Hval) as DT. unfold jun_decrypt_opt.
  destruct (starts_with MAGIC val).
  - destruct (JunModel.decrypt val) as [p| | | |] eqn:Edec; try contradiction; try (cbn [obind]; discriminate).
    + rewrite DT. cbn [obind PyLib.bind PyLib.bindS]. apply (Rest (Some p)). intros d [= <-]. reflexivity.
    + rewrite DT. cbn [obind PyLib.bind PyLib.bindS]. apply (Rest None). intros d [=].
  - cbn [obind PyLib.bind PyLib.bindS]. apply (Rest None). intros d [=].
Qed.
End V.

(* the assumption about passlib, in one place: the three hashes behave as the model says (type 7 is the documented xor scheme with salt 9;
   md5-crypt / sha512-crypt with the static salts are whatever the oracle table supplied with a case holds) *)
Definition passlib_answers_as_the_model (pc : pyval -> pyval -> PyLib.res) (orc : oracle) : Prop :=
  (forall x, pc (VFun (of_string "cisco_type7.using.hash")) (VTuple [VList [vstr x]; VDict [(S_ "salt", VInt 9)]]) = Normal (vstr (type7_hash 9 x))) /\
  (forall x n, pc (VFun (of_string "md5_crypt.using.hash")) (VTuple [VList [vstr x]; VDict [(S_ "salt", vstr (repeat 48%N n))]])
     = match olookup orc (lit "m" ++ show_dec (N.of_nat n) ++ [58%N] ++ x) with Some h => Normal (vstr h) | None => Exc (ValueError []) end) /\
  (forall x, pc (VFun (of_string "sha512_crypt.using.hash")) (VTuple [VList [vstr x]; VDict [(S_ "rounds", VInt 5000); (S_ "salt", vstr (repeat 48%N 16))]])
     = match olookup orc (lit "s:" ++ x) with Some h => Normal (vstr h) | None => Exc (ValueError []) end).

Theorem gen_anonymize_value_is_the_model pc orc : passlib_answers_as_the_model pc orc ->
  forall fuel raw lookup reserved salt out lookup',
  (length raw < fuel)%nat -> table_bytes lookup -> keys_unique lookup ->
  (forall c, JunModel.encrypt (anon0_of lookup) salt = JOk c -> (length c < fuel)%nat) ->
  anonymize_value orc raw lookup reserved salt = Done (out, lookup') ->
  gen__anonymize_value pc fuel (vstr raw) (vlook lookup) (vres reserved) (vstr salt) = Normal (VTuple [vstr out; vlook lookup']).
Proof. intros (H7 & Hm & Hs). exact (gen_anonymize_value_refines pc orc H7 Hm Hs). Qed.

Theorem table_invariants_preserved orc raw lookup reserved salt out lookup' :
  table_bytes orc -> table_bytes lookup -> keys_unique lookup ->
  anonymize_value orc raw lookup reserved salt = Done (out, lookup') -> table_bytes lookup' /\ keys_unique lookup'.
Proof.
  intros Ho Hl Hu E. split; [|exact (av_keys_unique orc raw lookup reserved salt out lookup' Hu E)].
  pose proof (anonymize_value_never_raises orc raw lookup reserved salt Ho Hl) as R. rewrite E in R. exact R.
Qed.

